// Runtime-observation driver: operation histories on real secure_buffer objects (C16) and library calls (C17, C18)
// with operator new/delete interposed (heapwatch.hpp). Built from /repo's working tree.
#define HMACCPP_DEPRECATED(msg)
#include <sys/resource.h>
#include <sys/mman.h>
#include <unistd.h>
#include "heapwatch.hpp"
#include "drv_common.hpp"
#include <sys/wait.h>
#include <unistd.h>
#include <csignal>
#include "hmac_cpp/hmac.hpp"
#include "hmac_cpp/hmac_utils.hpp"
#include "hmac_cpp/encoding.hpp"
#include "hmac_cpp/secret_string.hpp"
#include <algorithm>
#include <cerrno>
#include <ctime>
using namespace hmac_cpp;

static long long g_now = 1700000000; static int g_errno = 0;
extern "C" time_t time(time_t* t) { if (g_errno) errno = g_errno; if (t) *t = (time_t)g_now; return (time_t)g_now; }

// ---------------------------------------------------------------- C16: histories on two secure_buffer variables
// element types wider than a byte: every input byte b becomes the element b * 0x0101..01 (all of its bytes are b), so a wipe or a copy that
// covers only part of an element shows; contents are printed one byte per element after checking that all bytes of the element agree
template <class T> static T widen(uint8_t b) { T r = 0; for (size_t i = 0; i < sizeof(T); ++i) r = (T)((r << 4 << 4) | b); return r; }
template <class T> static std::vector<T> elems(const Bytes& b) { std::vector<T> r; r.reserve(b.size()); for (size_t i = 0; i < b.size(); ++i) r.push_back(widen<T>(b[i])); return r; }
template <class T> static std::string show(const T* p, size_t n) {
    Bytes low(n);
    for (size_t i = 0; i < n; ++i) { low[i] = (uint8_t)(p[i] & 0xFF); if (p[i] != widen<T>(low[i])) return "ELEMENT-CORRUPT"; }
    return hx(low);
}
// the rvalue-string operations exist for uint8_t buffers only
template <class T, bool LOCK> struct StrOps { static bool apply(secure_buffer<T, LOCK>&, char, const Bytes&, long&) { throw std::logic_error("string op on a wide buffer"); } };
template <bool LOCK> struct StrOps<uint8_t, LOCK> {
    static bool apply(secure_buffer<uint8_t, LOCK>& dst, char c, const Bytes& d, long& dirty) {
        typedef secure_buffer<uint8_t, LOCK> SB; bool ok = true;
        std::string s = str_of(d);
        const unsigned char* obj = reinterpret_cast<const unsigned char*>(&s);
        const unsigned char* before = reinterpret_cast<const unsigned char*>(s.data());   // where the characters live (inside the object for short strings)
        bool sso = before >= obj && before < obj + sizeof s;
        hw::begin(0); if (c == 'S') dst = SB(std::move(s)); else dst.assign(std::move(s)); dirty += hw::end().dirty;
        // the caller's string: reports empty, and the place its characters lived holds zeros (a heap block it no longer
        // owns was seen by the allocator interposer when it was released)
        if (!s.empty()) ok = false;
        const unsigned char* after = reinterpret_cast<const unsigned char*>(s.data());
        if (sso || after == before) for (size_t i = 0; i < d.size(); ++i) if (before[i] != 0) ok = false;
        return ok;
    }
};
template <class T, bool LOCK> struct SbHist {
    typedef secure_buffer<T, LOCK> SB;
    static std::string run(const std::vector<std::string>& ops) {
        SB* v[2]; v[0] = new SB(); v[1] = new SB();
        std::string trace; long dirty = 0; bool strings_ok = true;
        for (size_t k = 0; k < ops.size(); ++k) {
            std::vector<std::string> f = split(ops[k], ':');
            char c = f[0][0]; int x = f[1] == "A" ? 0 : 1; int y = 1 - x;
            if (c == 'N') { size_t n = (size_t)atol(f[2].c_str()); hw::begin(0); *v[x] = SB(n); dirty += hw::end().dirty; }
            else if (c == 'V') {   // adopt a vector holding data, with the given slack elements beyond its size
                Bytes d = bx(f[2]), sl = f.size() > 3 ? bx(f[3]) : Bytes(); Bytes all = d; all.insert(all.end(), sl.begin(), sl.end());
                std::vector<T> src = elems<T>(all); std::vector<T> vec; vec.reserve(src.size()); vec.assign(src.begin(), src.end()); vec.resize(d.size());
                hw::begin(0); *v[x] = SB(std::move(vec)); dirty += hw::end().dirty;
            }
            else if (c == 'S' || c == 'T') { if (!StrOps<T, LOCK>::apply(*v[x], c, bx(f[2]), dirty)) strings_ok = false; }
            else if (c == 'C') { hw::begin(0); *v[x] = *v[y]; dirty += hw::end().dirty; }
            else if (c == 'M') { hw::begin(0); *v[x] = std::move(*v[y]); dirty += hw::end().dirty; }
            else if (c == 'K') { hw::begin(0); { SB tmp(*v[y]); *v[x] = std::move(tmp); } dirty += hw::end().dirty; }
            else if (c == 'Y') { hw::begin(0); SB& r = *v[x]; *v[x] = r; *v[x] = std::move(r); dirty += hw::end().dirty; }
            else if (c == 'R') { size_t n = (size_t)atol(f[2].c_str()); hw::begin(0); v[x]->resize(n); dirty += hw::end().dirty; }
            else if (c == 'L') { hw::begin(0); v[x]->clear(); dirty += hw::end().dirty; }
            else if (c == 'P') { std::vector<T> d = elems<T>(bx(f[2])); hw::begin(0); v[x]->assign(d.data(), d.size()); dirty += hw::end().dirty; }
            else if (c == 'W') { size_t i = (size_t)atol(f[2].c_str()); if (i < v[x]->size()) (*v[x])[i] = widen<T>((uint8_t)atoi(f[3].c_str())); }
            else throw std::logic_error("sbhist op");
            if (k) trace += "|";
            trace += "A=" + show<T>(v[0]->data(), v[0]->size()) + ";B=" + show<T>(v[1]->data(), v[1]->size());
        }
        hw::begin(0); delete v[0]; delete v[1]; dirty += hw::end().dirty;
        return trace + " frees=" + (dirty ? "dirty" : "clean") + " strings=" + (strings_ok ? "zeroed" : "dirty");
    }
};

// ---------------------------------------------------------------- C18: histories on a secret_string (needs -DHMAC_CPP_VERIF)
struct ThrowInt {};
static std::string sshist(const std::vector<std::string>& ops) {
    secret_string* x = new secret_string();
    const std::array<uint8_t, 32>& pk = secret_string::verif_process_key();
    std::string out = "pk=" + hx(pk.data(), 32);
    Bytes cur;                                        // plaintext the object should hold
    for (size_t k = 0; k < ops.size(); ++k) {
        const std::string& o = ops[k]; char c = o[0];
        Bytes p = (o.size() > 1 && o[1] == ':') ? bx(o.substr(2)) : Bytes();
        std::string pstr = str_of(p); secure_buffer<uint8_t> psb(p.size()); if (!p.empty()) memcpy(psb.data(), p.data(), p.size());   // argument objects exist before the watch region opens
        hw::clear_needles(); hw::add_needle(p.empty() ? cur.data() : p.data(), p.empty() ? cur.size() : p.size(), 1);
        hw::begin(1);
        if (c == 'S') { x->set(p.data(), p.size()); cur = p; }
        else if (c == 'R') x->rotate_nonce();
        else if (c == 'C') { x->clear(); cur.clear(); }
        else if (c == 's') { x->set(pstr); cur = p; }                                   // the other set() forms
        else if (c == 'b') { x->set(psb); cur = p; }
        else if (c == 'B') { x->set(std::move(psb)); cur = p; }
        else if (c == 'I') { *x = secret_string(p.data(), p.size()); cur = p; }
        else if (c == 'i') { *x = secret_string(pstr); cur = p; }                       // the other constructors, moved in
        else if (c == 'j') { *x = secret_string(psb); cur = p; }
        else if (c == 'J') { *x = secret_string(std::move(psb)); cur = p; }
        else if (c == 'O') { secret_string y(std::move(*x)); cur.clear(); }
        else if (c == 'X') { secret_string y(std::move(*x)); *x = std::move(y); }       // out to another object and back: same bytes
        else if (c == 'M') { secret_string& r = *x; *x = std::move(r); }                // self move-assignment keeps the object
        else throw std::logic_error("sshist op");
        long heap_dirty = hw::end().dirty;
        // reveal (normal callback), with the interposer looking for the plaintext in released blocks. It comes BEFORE the stored representation is read
        // through the inspection hooks, so that the object is revealed in exactly the state the operation left it in
        hw::clear_needles(); hw::add_needle(cur.data(), cur.size(), 2);
        std::string rv, revealed;                     // the revealed copy belongs to the caller: it outlives the watch region
        hw::begin(1);
        try { revealed = x->reveal_copy(); rv = "ok"; } catch (const std::runtime_error&) { rv = "throw:runtime_error"; } catch (...) { rv = "throw:other"; }
        long wipe_dirty = hw::end().dirty;
        if (rv == "ok") rv = "ok " + hxs(revealed);
        // stored representation
        std::string st = " | ct=" + hx(x->verif_ct()) + ",nonce=" + hx(x->verif_nonce().data(), 12) + ",tag=" + hx(x->verif_tag().data(), 32);
        // throwing callbacks: std exception and a non-std type
        for (int kind = 0; kind < 2; ++kind) {
            const uint8_t* seen = 0; size_t seen_n = 0; long stack_residue = 0;
            // the callback captures ONE reference, so std::function keeps it in its small buffer: no heap block is released (and scanned by the
            // interposer, whose frames would overwrite the dead stack region) between the throw and the look at that region below
            struct Cap { const uint8_t** seen; size_t* n; int kind; } cap = { &seen, &seen_n, kind };
            hw::begin(1);
            try { x->with_plaintext([&cap](const uint8_t* p_, size_t n_) { *cap.seen = p_; *cap.n = n_; if (cap.kind == 0) throw std::runtime_error("cb"); else throw ThrowInt(); }); }
            catch (...) {
                // if the temporary plaintext lived in AUTOMATIC storage of a frame that is gone now (below this one), look at it before anything is
                // called from here: a run of 8 plaintext bytes still in place means it was not wiped on the exception path (heap temporaries are
                // seen by the allocator interposer instead; released heap memory is never read here)
                volatile char marker = 0; uintptr_t here = (uintptr_t)&marker, there = (uintptr_t)seen;
                if (seen && there < here && here - there < ((uintptr_t)1 << 20) && seen_n == cur.size()) {
                    size_t run = 0; for (size_t i = 0; i < seen_n; ++i) { if (((volatile const uint8_t*)seen)[i] == cur[i] && cur[i] != 0) { if (++run >= 8) { stack_residue = 1; break; } } else run = 0; }
                }
            }
            wipe_dirty += hw::end().dirty + stack_residue;
        }
        // at rest: the stored bytes do not contain the plaintext (8-byte windows)
        bool opaque = true;
        if (cur.size() >= 8) { hw::clear_needles(); hw::add_needle(cur.data(), cur.size(), 3); hw::g_mode = 1; hw::g_dirty = 0; hw::g_ndirty_ids = 0;
            hw::scan(x->verif_ct().data(), x->verif_ct().size()); if (hw::g_dirty) opaque = false; hw::g_dirty = 0; hw::g_ndirty_ids = 0; }
        // tamper sweep: every single-bit modification of tag and nonce, sampled bits of the ciphertext
        std::string tamper = "ok";
        if (!x->verif_ct().empty()) {
            for (int bit = 0; bit < 256 && tamper == "ok"; ++bit) { x->verif_tag()[bit / 8] ^= (uint8_t)(1 << (bit % 8));
                try { std::string r = x->reveal_copy(); tamper = "FAIL:tag-bit"; } catch (const std::runtime_error&) {} catch (...) { tamper = "FAIL:tag-othersignal"; }
                x->verif_tag()[bit / 8] ^= (uint8_t)(1 << (bit % 8)); }
            for (int bit = 0; bit < 96 && tamper == "ok"; ++bit) { x->verif_nonce()[bit / 8] ^= (uint8_t)(1 << (bit % 8));
                try { std::string r = x->reveal_copy(); tamper = "FAIL:nonce-bit"; } catch (const std::runtime_error&) {} catch (...) { tamper = "FAIL:nonce-othersignal"; }
                x->verif_nonce()[bit / 8] ^= (uint8_t)(1 << (bit % 8)); }
            size_t nb = x->verif_ct().size() * 8;
            for (size_t bit = 0; bit < nb && tamper == "ok"; bit += (nb > 256 ? 7 : 1)) { x->verif_ct()[bit / 8] ^= (uint8_t)(1 << (bit % 8));
                try { std::string r = x->reveal_copy(); tamper = "FAIL:ct-bit"; } catch (const std::runtime_error&) {} catch (...) { tamper = "FAIL:ct-othersignal"; }
                x->verif_ct()[bit / 8] ^= (uint8_t)(1 << (bit % 8)); }
            // a modified ciphertext LENGTH (truncation / extension) is a modification too
            { uint8_t last = x->verif_ct().back(); x->verif_ct().pop_back();
              if (!x->verif_ct().empty()) { try { std::string r = x->reveal_copy(); tamper = "FAIL:ct-truncated"; } catch (const std::runtime_error&) {} catch (...) { tamper = "FAIL:ct-othersignal"; } }
              x->verif_ct().push_back(last); }
        }
        out += st + ",reveal=" + rv + ",heap=" + (heap_dirty ? "dirty" : "clean") + ",wipe=" + (wipe_dirty ? "dirty" : "clean") + ",opaque=" + (opaque ? "yes" : "NO") + ",tamper=" + tamper;
    }
    delete x;
    return out;
}

// ---------------------------------------------------------------- C17: library calls watched for secrets / derived values in released blocks
// line: heap <api> <args...> @ <needle-hex>...   ; every needle is searched (8-byte windows) in every block released during the call
static std::vector<Bytes> g_needle_store;
static TypeHash th(const std::string& t) { return t == "sha1" ? TypeHash::SHA1 : t == "sha256" ? TypeHash::SHA256 : TypeHash::SHA512; }
static Pbkdf2Hash ph(const std::string& t) { return t == "sha1" ? Pbkdf2Hash::Sha1 : t == "sha256" ? Pbkdf2Hash::Sha256 : Pbkdf2Hash::Sha512; }
static secure_buffer<uint8_t> sbuf(const Bytes& b) { secure_buffer<uint8_t> s(b.size()); if (!b.empty()) memcpy(s.data(), b.data(), b.size()); return s; }
static std::string heap_call(const std::vector<std::string>& a_in) {
    std::vector<std::string> a = a_in;
    for (size_t i = 0; i < a.size();) { if (a[i].compare(0, 2, "E=") == 0) a.erase(a.begin() + i); else ++i; }   // expectation marker for the model side
    size_t at = 0; while (at < a.size() && a[at] != "@") ++at;
    g_needle_store.clear(); for (size_t i = at + 1; i < a.size(); ++i) g_needle_store.push_back(bx(a[i]));
    hw::clear_needles(); for (size_t i = 0; i < g_needle_store.size(); ++i) hw::add_needle(g_needle_store[i].data(), g_needle_store[i].size(), (int)i);
    const std::string& f = a[1];
    std::string outcome = "ok";
    // arguments are materialised BEFORE the watch region opens, results are kept alive until it is closed
    Bytes A2 = at > 3 ? bx(a[3]) : Bytes(), A3 = at > 4 ? bx(a[4]) : Bytes(), A4 = at > 5 ? bx(a[5]) : Bytes();
    secure_buffer<uint8_t> S2 = sbuf(A2), S3 = sbuf(A3), S4 = sbuf(A4);
    std::string str2 = str_of(A2), str3 = str_of(A3), str4 = str_of(A4);
    Bytes r1; std::string rs; secure_buffer<uint8_t, true> rsec; secure_buffer<uint8_t> rdec; KeyIv kiv; Pbkdf2Result pres; bool rb = false; int ri = 0;
    uint32_t c32 = 0; size_t n1 = 0;
    hw::begin(1);
    try {
        if (f == "hmac") r1 = get_hmac(A2.data(), A2.size(), A3.data(), A3.size(), th(a[2]));
        else if (f == "hmac_ovf") { uint8_t dummy = 0; r1 = get_hmac(A2.data(), A2.size(), &dummy, SIZE_MAX, th(a[2])); }
        else if (f == "hmac_securekey") rs = get_hmac(S2, str3, th(a[2]), false, false);
        else if (f == "hmac_veckey") rs = get_hmac(A2, str3, th(a[2]), true, false);
        else if (f == "hmacctx") { HmacContext c(th(a[2])); c.init(A2.data(), A2.size()); c.update(A3.data(), A3.size() / 2); c.update(A3.data() + A3.size() / 2, A3.size() - A3.size() / 2);
                                    r1.resize(64); c.final(r1.data(), 64); c.init(A2.data(), A2.size()); }
        else if (f == "pbkdf2") { c32 = (uint32_t)atol(a[5].c_str()); n1 = (size_t)atol(a[6].c_str()); r1 = pbkdf2(A2.data(), A2.size(), A3.data(), A3.size(), c32, n1, ph(a[2])); }
        else if (f == "pbkdf2_secure") { c32 = (uint32_t)atol(a[5].c_str()); n1 = (size_t)atol(a[6].c_str()); rsec = pbkdf2_secure(A2.data(), A2.size(), A3.data(), A3.size(), c32, n1, ph(a[2])); }
        else if (f == "pbkdf2_sbin") { c32 = (uint32_t)atol(a[5].c_str()); n1 = (size_t)atol(a[6].c_str()); r1 = pbkdf2(S2, S3, c32, n1, ph(a[2])); }
        else if (f == "pbkdf2buf") { c32 = (uint32_t)atol(a[5].c_str()); n1 = (size_t)atol(a[6].c_str()); r1.resize(n1 ? n1 : 1); rb = pbkdf2(ph(a[2]), A2.data(), A2.size(), A3.data(), A3.size(), c32, r1.data(), n1); }
        else if (f == "pepper") { c32 = (uint32_t)atol(a[6].c_str()); n1 = (size_t)atol(a[7].c_str()); r1 = pbkdf2_with_pepper(A2.data(), A2.size(), A3.data(), A3.size(), A4.data(), A4.size(), c32, n1, ph(a[2])); }
        else if (f == "hkdfx") r1 = hkdf_extract_sha256(A2.data(), A2.size(), A3.empty() ? (const void*)0 : (const void*)A3.data(), A3.size());
        else if (f == "hkdfx_secure") rsec = hkdf_extract_sha256_secure(S2, S3);
        else if (f == "hkdfe") { n1 = (size_t)atol(a[5].c_str()); r1 = hkdf_expand_sha256(A2.data(), A2.size(), A3.data(), A3.size(), n1); }
        else if (f == "hkdfe_secure") { n1 = (size_t)atol(a[5].c_str()); rsec = hkdf_expand_sha256_secure(A2.data(), A2.size(), A3.data(), A3.size(), n1); }
        else if (f == "hkdfkiv") kiv = hkdf_key_iv_256(A2.data(), A2.size(), A3.data(), A3.size(), str4);
        else if (f == "hotp") ri = get_hotp_code(A2.data(), A2.size(), 12345, atoi(a[4].c_str()), th(a[2]));
        else if (f == "hotp_secure") ri = get_hotp_code(S2, 12345, 6, th(a[2]));
        else if (f == "totpvalid") rb = is_totp_token_valid(123456, A2.data(), A2.size(), (uint64_t)1700000000, 30, 6, th(a[2]));
        else if (f == "tokgen_vec") rs = generate_time_token(A2, atoi(a[4].c_str()), th(a[2]));
        else if (f == "tokgen_secure") rs = generate_time_token(S2, atoi(a[4].c_str()), th(a[2]));
        else if (f == "tokval_secure") rb = is_token_valid(std::string("00"), S2, atoi(a[4].c_str()), th(a[2]));
        else if (f == "tokgenfp_secure") rs = generate_time_token(S2, std::string("fp"), atoi(a[4].c_str()), th(a[2]));
        else if (f == "tokvalfp_secure") rb = is_token_valid(std::string("00"), S2, std::string("fp"), atoi(a[4].c_str()), th(a[2]));
        else if (f == "b64dec_secure") rb = base64_decode(str_of(A2), rdec, a[2] == "1" ? Base64Alphabet::Url : Base64Alphabet::Standard, false, false);
        else if (f == "b32dec_secure") rb = base32_decode(str_of(A2), rdec, false, false);
        else if (f == "b36dec_secure") rb = base36_decode(str_of(A2), rdec);
        // secret_string operations; the plaintext (A2, or A3 for the second value) is the needle
        else if (f == "ss_set") { secret_string x(A2.data(), A2.size()); x.set(A3.data(), A3.size()); x.set(str2); x.clear(); }
        else if (f == "ss_rotate") { secret_string x(A2.data(), A2.size()); x.rotate_nonce(); x.rotate_nonce(); }
        else if (f == "ss_move") { secret_string x(A2.data(), A2.size()); secret_string y(std::move(x)); x = std::move(y); x = secret_string(A3.data(), A3.size()); }
        else if (f == "ss_reveal") { secret_string x(A2.data(), A2.size()); rs = x.reveal_copy(); }
        else if (f == "ss_cb") { secret_string x(A2.data(), A2.size()); x.with_plaintext([&](const uint8_t* p, size_t n) { ri = n ? p[0] : 0; }); }
        else if (f == "ss_cb_throw_std") { secret_string x(A2.data(), A2.size()); x.with_plaintext([&](const uint8_t*, size_t) { throw std::runtime_error("callback"); }); }
        else if (f == "ss_cb_throw_other") { secret_string x(A2.data(), A2.size()); x.with_plaintext([&](const uint8_t*, size_t) { throw ThrowInt(); }); }
        else outcome = "HARNESS-unknown-api";
    }
    catch (const std::invalid_argument&) { outcome = "throw:invalid_argument"; }
    catch (const std::overflow_error&) { outcome = "throw:overflow_error"; }
    catch (const std::runtime_error&) { outcome = "throw:runtime_error"; }
    catch (const std::bad_alloc&) { outcome = "throw:bad_alloc"; }
    catch (const ThrowInt&) { outcome = "throw:callback_type"; }
    hw::Report rep = hw::end();
    std::string res = outcome + " released=";
    if (rep.dirty == 0) return res + "clean";
    res += "dirty";
    std::vector<int> ids = rep.ids; std::sort(ids.begin(), ids.end()); ids.erase(std::unique(ids.begin(), ids.end()), ids.end());
    for (size_t i = 0; i < ids.size(); ++i) { char b[16]; snprintf(b, sizeof b, ":%d", ids[i]); res += b; }
    return res;
}

// ---------------------------------------------------------------- C20: the k-th allocation of a call fails
// oom <api> <args...>: the call is first run fault-free to count its allocations N, then N more times with allocation k = 0..N-1 failing.
// For every k the call must exit with std::bad_alloc, everything it allocated must have been released (live-block balance), the
// objects involved must be in one of the allowed states, and a final fault-free call must still give the reference result.
struct OomResult { std::string outcome; std::string state; };
// (templates, not std::function: type erasure would allocate inside the watched region)
template <class Reset, class Call, class StateOk>
static std::string oom_sweep(const Reset& reset, const Call& call, const StateOk& state_ok, bool stateless = true) {
    long live0 = hw::g_live;
    long N = 0; std::string ref_outcome, ref_state;
    { reset(); hw::begin(1, -1); OomResult ref = call(); hw::Report r0 = hw::end(); N = r0.allocs; ref_outcome = ref.outcome; ref_state = ref.state; }
    long bad = 0, leaks = 0, wrong_state = 0, other = 0; char prob[200]; prob[0] = 0;
    for (long k = 0; k < N; ++k) {
        reset();
        long base = hw::g_live; bool escaped = false; std::string outcome, state;
        hw::begin(1, k);
        try { OomResult r = call(); hw::g_fail_at = -1; outcome = r.outcome; state = r.state; } catch (...) { escaped = true; }
        hw::end();
        if (escaped) { ++other; if (!prob[0]) snprintf(prob, sizeof prob, "exception-escaped-the-harness k=%ld", k); continue; }
        if (outcome == "throw:bad_alloc") ++bad;
        else if (outcome == "ok") { /* the failing allocation was one of the harness's own result conversions */ }
        else { ++other; if (!prob[0]) snprintf(prob, sizeof prob, "k=%ld outcome=%s", k, outcome.c_str()); }
        bool succeeded = outcome == "ok";
        { std::string().swap(outcome); }
        if (stateless) { std::string().swap(state); if (hw::g_live != base) { ++leaks; if (!prob[0]) snprintf(prob, sizeof prob, "leak k=%ld blocks=%ld", k, hw::g_live - base); }
            // the very next call (same arguments, no fault) must give the reference result: nothing of the failed call may be carried over
            if (!succeeded) { hw::begin(1, -1); OomResult nxt = call(); hw::end();
                if (nxt.outcome != ref_outcome || nxt.state != ref_state) { ++wrong_state; if (!prob[0]) snprintf(prob, sizeof prob, "wrong-result-right-after-failure k=%ld", k); }
                std::string().swap(nxt.outcome); std::string().swap(nxt.state); } }
        else if (!succeeded && !state_ok(state)) { ++wrong_state; if (!prob[0]) snprintf(prob, sizeof prob, "state k=%ld %.90s", k, state.c_str()); }
    }
    std::string again_outcome, again_state;
    { reset(); hw::begin(1, -1); OomResult again = call(); hw::end(); again_outcome = again.outcome; again_state = again.state; }
    if (!prob[0] && (again_outcome != ref_outcome || (stateless && again_state != ref_state))) snprintf(prob, sizeof prob, "library-unusable-after-faults");
    (void)live0;
    std::string res = "ref=" + ref_outcome;
    if (!prob[0]) return res + " every-failure=bad_alloc no-leak state-ok usable";
    return res + " PROBLEM " + prob + " (bad_alloc=" + std::to_string(bad) + " other=" + std::to_string(other) + " leaks=" + std::to_string(leaks) + " wrong-state=" + std::to_string(wrong_state) + " of " + std::to_string(N) + ")";
}
template <class F> static OomResult guard_call(const F& f) {
    OomResult r; r.state = "";
    try { r.state = f(); r.outcome = "ok"; }
    catch (const std::bad_alloc&) { r.outcome = "throw:bad_alloc"; }
    catch (const std::invalid_argument&) { r.outcome = "throw:invalid_argument"; }
    catch (const std::runtime_error&) { r.outcome = "throw:runtime_error"; }
    catch (const std::exception& e) { r.outcome = std::string("throw:other:") + e.what(); }
    return r;
}
static std::string oom_call(const std::vector<std::string>& a) {
    const std::string& f = a[1];
    Bytes A2 = a.size() > 3 ? bx(a[3]) : Bytes(), A3 = a.size() > 4 ? bx(a[4]) : Bytes(), A4 = a.size() > 5 ? bx(a[5]) : Bytes();
    std::string s2 = str_of(A2), s3 = str_of(A3);
    auto none = []() {}; auto any = [](const std::string&) { return true; };
    // before the reference run and before every faulty run the same API is called once with DIFFERENT arguments (a cache or scratch area keyed
    // or sized by the previous call must not leak into the next one)
    Bytes B2 = A2, B3 = A3; for (size_t i = 0; i < B2.size(); ++i) B2[i] ^= 0x5A; for (size_t i = 0; i < B3.size(); ++i) B3[i] ^= 0xA5; B3.push_back(0x44);
    std::string t2 = str_of(B2), t3 = str_of(B3);
#define SWEEP(EXPR) { auto call = [&]() { return guard_call([&]() { return EXPR; }); }; \
                      auto prime = [&]() { A2.swap(B2); A3.swap(B3); s2.swap(t2); s3.swap(t3); (void)call(); A2.swap(B2); A3.swap(B3); s2.swap(t2); s3.swap(t3); }; \
                      return oom_sweep(prime, call, any); }
    // ---- stateless throwing APIs: result bytes are the state (must equal the reference when the call succeeds) ----
    if (f == "gethash") SWEEP((hx(get_hash(A2.data(), A2.size(), th(a[2])))))
    if (f == "hashstr") SWEEP((th(a[2]) == TypeHash::SHA1 ? hmac_hash::sha1(s2) : th(a[2]) == TypeHash::SHA256 ? hmac_hash::sha256(s2) : hmac_hash::sha512(s2)))
    if (f == "hmac") SWEEP((hx(get_hmac(A2.data(), A2.size(), A3.data(), A3.size(), th(a[2])))))
    if (f == "hmacstr") SWEEP((get_hmac(A2, s3, th(a[2]), true, false)))
    if (f == "hmacctx") return oom_sweep(none, [&]() { return guard_call([&]() { HmacContext c(th(a[2])); c.init(A2.data(), A2.size()); c.update(A3.data(), A3.size()); uint8_t o[64]; c.final(o, 64); return hx(o, 20); }); }, any);
    if (f == "pbkdf2") SWEEP((hx(pbkdf2(A2.data(), A2.size(), A3.data(), A3.size(), (uint32_t)atol(a[5].c_str()), (size_t)atol(a[6].c_str()), ph(a[2])))))
    if (f == "pbkdf2_secure") return oom_sweep(none, [&]() { return guard_call([&]() { auto r = pbkdf2_secure(A2.data(), A2.size(), A3.data(), A3.size(), (uint32_t)atol(a[5].c_str()), (size_t)atol(a[6].c_str()), ph(a[2])); return hx(r.data(), r.size()); }); }, any);
    if (f == "pepper") SWEEP((hx(pbkdf2_with_pepper(A2.data(), A2.size(), A3.data(), A3.size(), A4.data(), A4.size(), 2, 40, ph(a[2])))))
    if (f == "hkdfx") SWEEP((hx(hkdf_extract_sha256(A2.data(), A2.size(), A3.data(), A3.size()))))
    if (f == "hkdfe") SWEEP((hx(hkdf_expand_sha256(A2.data(), A2.size(), A3.data(), A3.size(), (size_t)atol(a[5].c_str())))))
    if (f == "hkdfkiv") return oom_sweep(none, [&]() { return guard_call([&]() { KeyIv r = hkdf_key_iv_256(A2.data(), A2.size(), A3.data(), A3.size(), std::string("ctx")); return hx(r.key.data(), 32); }); }, any);
    if (f == "hotp") SWEEP((std::to_string(get_hotp_code(A2.data(), A2.size(), 77, 6, th(a[2])))))
    if (f == "totpvalid") SWEEP((std::string(bool_s(is_totp_token_valid(1, A2.data(), A2.size(), (uint64_t)59, 30, 6, th(a[2]))))))
    if (f == "tokgen") SWEEP((generate_time_token(A2, 60, th(a[2]))))
    if (f == "tokgenfp") SWEEP((generate_time_token(A2, std::string("fingerprint-0123456789"), 60, th(a[2]))))
    if (f == "tokval") SWEEP((std::string(bool_s(is_token_valid(s3, A2, 60, th(a[2]))))))
    if (f == "tokvalfp") SWEEP((std::string(bool_s(is_token_valid(s3, A2, std::string("fingerprint-0123456789"), 60, th(a[2]))))))
    if (f == "tokgen_secure") { secure_buffer<uint8_t> sk = sbuf(A2); SWEEP((generate_time_token(sk, 60, th(a[2])))) }
    if (f == "b64enc") SWEEP((base64_encode(A2)))
    if (f == "b32enc") SWEEP((base32_encode(A2)))
    if (f == "b36enc") SWEEP((base36_encode(A2)))
    if (f == "tohex") SWEEP((to_hex(s2, false)))
    // ---- a COPY of a hash / HMAC context in mid-stream is continued and finished while its allocations fail: bad_alloc, never terminate
    if (f == "hashctx_fork") {
        TypeHash ty = th(a[2]);
        if (ty == TypeHash::SHA1) SWEEP(([&]() { hmac_hash::SHA1 c; c.init(); c.update(A2.data(), A2.size()); hmac_hash::SHA1 d(c); d.update(A3.data(), A3.size()); uint8_t o[20]; d.finish(o); return hx(o, 20); }()))
        if (ty == TypeHash::SHA256) SWEEP(([&]() { hmac_hash::SHA256 c; c.init(); c.update(A2.data(), A2.size()); hmac_hash::SHA256 d(c); d.update(A3.data(), A3.size()); uint8_t o[32]; d.finish(o); return hx(o, 32); }()))
        SWEEP(([&]() { hmac_hash::SHA512 c; c.init(); c.update(A2.data(), A2.size()); hmac_hash::SHA512 d(c); d.update(A3.data(), A3.size()); uint8_t o[64]; d.finish(o); return hx(o, 64); }()))
    }
    if (f == "hmacctx_fork") SWEEP(([&]() { HmacContext c(th(a[2])); c.init(A2.data(), A2.size()); c.update(A3.data(), A3.size() / 2); HmacContext d(c); d.update(A3.data(), A3.size()); uint8_t o[64]; d.final(o, 64); return hx(o, 20); }()))
    // ---- ONE HmacContext object: a complete cycle under another key, then init(key) hits an allocation failure, then a complete cycle under a
    //      SHORTER key: that MAC must be HMAC(shorter key, msg) - nothing of the failed init may stay in the object
    if (f == "hmacctx_reuse") {
        TypeHash ty = th(a[2]); size_t ds = ty == TypeHash::SHA1 ? 20 : ty == TypeHash::SHA256 ? 32 : 64;
        Bytes shortk(A2.begin(), A2.begin() + (A2.size() > 2 ? A2.size() / 2 : A2.size())); HmacContext* c = 0;
        std::string ref_short = hx(get_hmac(shortk.data(), shortk.size(), A3.data(), A3.size(), ty)); std::string res; res.reserve(400);
        long live_before = hw::g_live;        // after the harness's own objects exist
        auto cycle = [&](const Bytes& key) { c->init(key.data(), key.size()); c->update(A3.data(), A3.size()); uint8_t o[64]; c->final(o, 64); return hx(o, ds); };
        auto reset = [&]() { delete c; c = new HmacContext(ty); (void)cycle(B2); };
        auto ok_state = [&](const std::string& st) { return st == ref_short; };
        res = oom_sweep(reset, [&]() { OomResult r = guard_call([&]() { return cycle(A2); }); hw::g_watch = false; hw::g_fail_at = -1; r.state = cycle(shortk); return r; }, ok_state, false);
        delete c; if (hw::g_live != live_before) res += " PROBLEM leak-after-destruction blocks=" + std::to_string(hw::g_live - live_before); return res;
    }
    // ---- secure_buffer: after a failed operation the buffer holds its old contents, zeros of its old size, or is empty ----
    if (f.compare(0, 3, "sb_") == 0) {
        secure_buffer<uint8_t> other = sbuf(A3); std::string res; res.reserve(400); std::string olds = hx(A2), zeros = hx(Bytes(A2.size(), 0)), news = hx(A3);
        long live_before = hw::g_live; secure_buffer<uint8_t>* x = 0;
        auto reset = [&]() { delete x; x = new secure_buffer<uint8_t>(sbuf(A2)); };
        auto st = [&]() { return hx(x->data(), x->size()); };
        auto ok_state = [&](const std::string& s) { return s == olds || s == zeros || s == "-" || s == news || s.compare(0, olds == "-" ? 0 : olds.size(), olds == "-" ? "" : olds) == 0; };
        if (f == "sb_copyassign") res = oom_sweep(reset, [&]() { OomResult r = guard_call([&]() { *x = other; return std::string(); }); hw::g_fail_at = -1; r.state = st(); return r; }, ok_state, false);
        else if (f == "sb_assign") res = oom_sweep(reset, [&]() { OomResult r = guard_call([&]() { x->assign(A3.data(), A3.size()); return std::string(); }); hw::g_fail_at = -1; r.state = st(); return r; }, ok_state, false);
        else if (f == "sb_resize") res = oom_sweep(reset, [&]() { OomResult r = guard_call([&]() { x->resize((size_t)atol(a[4].c_str())); return std::string(); }); hw::g_fail_at = -1; r.state = st(); return r; }, ok_state, false);
        else if (f == "sb_ctor") res = oom_sweep(reset, [&]() { OomResult r = guard_call([&]() { *x = secure_buffer<uint8_t>((size_t)atol(a[4].c_str())); return std::string(); }); hw::g_fail_at = -1; r.state = st(); return r; }, ok_state, false);
        else if (f == "sb_copyctor") res = oom_sweep(reset, [&]() { OomResult r = guard_call([&]() { secure_buffer<uint8_t> t(other); *x = std::move(t); return std::string(); }); hw::g_fail_at = -1; r.state = st(); return r; }, ok_state, false);
        else if (f == "sb_string") res = oom_sweep(reset, [&]() { OomResult r = guard_call([&]() { std::string s = s3; *x = secure_buffer<uint8_t>(std::move(s)); return std::string(); }); hw::g_fail_at = -1; r.state = st(); return r; }, ok_state, false);
        else res = "HARNESS-unknown-sb-op";
        delete x; if (hw::g_live != live_before) res += " PROBLEM leak-after-destruction blocks=" + std::to_string(hw::g_live - live_before); return res;
    }
    // ---- first secret_string operation of a FRESH process (the process-wide key does not exist yet) with its k-th allocation failing: the
    //      operation exits with bad_alloc and the library stays usable (a later operation neither hangs nor misbehaves). One child per k.
    if (f == "ss_firstuse") {
        std::string prob; long done = 0;
        for (long k = 0; k < 64 && prob.empty(); ++k) {
            int fd[2]; if (pipe(fd)) return "HARNESS-pipe"; fflush(stdout);
            pid_t pid = fork();
            if (pid == 0) {
                close(fd[0]); char kb[32]; snprintf(kb, sizeof kb, "%ld", k); char fdb[16]; snprintf(fdb, sizeof fdb, "%d", fd[1]);
                execl("/proc/self/exe", "drv_heap", "--firstuse", kb, a[3].c_str(), fdb, (char*)0); _exit(127);
            }
            close(fd[1]); std::string out; char buf[128]; ssize_t n; while ((n = read(fd[0], buf, sizeof buf)) > 0) out.append(buf, (size_t)n); close(fd[0]);
            int stt = 0; waitpid(pid, &stt, 0); ++done;
            if (WIFSIGNALED(stt)) prob = std::string(WTERMSIG(stt) == SIGALRM ? "hang" : "crash") + "-after-failure k=" + std::to_string(k);
            else if (out == "no-fault") break;                      // k is beyond the number of allocations of the operation
            else if (out != "bad_alloc-then-usable") prob = "k=" + std::to_string(k) + " " + out;
        }
        return prob.empty() ? "ref=ok every-failure=bad_alloc no-leak state-ok usable" : "ref=ok PROBLEM first-use " + prob + " (children=" + std::to_string(done) + ")";
    }
    // ---- secret_string: afterwards it reveals exactly its previous or its new bytes, or reports an integrity error ----
    if (f.compare(0, 3, "ss_") == 0) {
        std::string prev = hx(A2), next = hx(A3); std::string res; res.reserve(400); (void)secret_string::verif_process_key(); long live_before = hw::g_live; secret_string* x = 0;
        auto reset = [&]() { delete x; x = new secret_string(A2.data(), A2.size()); if (f == "ss_rotate_revealed" || f == "ss_set_revealed") (void)x->reveal_copy(); };   // a successful reveal before the faulty operation
        // at rest the stored bytes never contain the plaintext - also after an interrupted operation (C18 over fault sequences)
        auto at_rest_plain = [&](const Bytes& pl) { const std::vector<uint8_t>& ct = x->verif_ct();
            for (size_t j = 0; j + 8 <= pl.size(); ++j) if (hw::window_interesting(pl.data() + j, 8) && ct.size() >= 8 && memmem(ct.data(), ct.size(), pl.data() + j, 8)) return true;
            return false; };
        // (the reveal comes first: the inspection hooks count as a modification of the stored representation)
        auto st = [&]() { std::string rv_;
                          try { rv_ = "reveals:" + hxs(x->reveal_copy()); } catch (const std::runtime_error&) { rv_ = "integrity-error"; } catch (const std::bad_alloc&) { rv_ = "bad_alloc-on-reveal"; }
                          if (at_rest_plain(A2) || at_rest_plain(A3)) return std::string("PLAINTEXT-AT-REST");
                          return rv_; };
        auto st_unused = [&]() { try { return "reveals:" + hxs(x->reveal_copy()); } catch (const std::runtime_error&) { return std::string("integrity-error"); } catch (const std::bad_alloc&) { return std::string("bad_alloc-on-reveal"); } };
        auto ok_state = [&](const std::string& s) { return s == "reveals:" + prev || s == "reveals:" + next || s == "integrity-error"; };
        if (f == "ss_set") res = oom_sweep(reset, [&]() { OomResult r = guard_call([&]() { x->set(A3.data(), A3.size()); return std::string(); }); hw::g_watch = false; hw::g_fail_at = -1; r.state = st(); return r; }, ok_state, false);
        else if (f == "ss_set_revealed") res = oom_sweep(reset, [&]() { OomResult r = guard_call([&]() { x->set(A3.data(), A3.size()); return std::string(); }); hw::g_watch = false; hw::g_fail_at = -1; r.state = st(); return r; }, ok_state, false);
        else if (f == "ss_rotate" || f == "ss_rotate_revealed") res = oom_sweep(reset, [&]() { OomResult r = guard_call([&]() { x->rotate_nonce(); return std::string(); }); hw::g_watch = false; hw::g_fail_at = -1; r.state = st(); return r; }, ok_state, false);
        else if (f == "ss_rotate_twice") res = oom_sweep(reset, [&]() { OomResult r = guard_call([&]() { x->rotate_nonce(); return std::string(); }); hw::g_watch = false;
                                                                      if (r.outcome != "ok") { try { x->rotate_nonce(); } catch (...) {} } hw::g_fail_at = -1; r.state = st(); return r; }, ok_state, false);
        else if (f == "ss_rotate_move_rotate") res = oom_sweep(reset, [&]() { OomResult r = guard_call([&]() { x->rotate_nonce(); return std::string(); }); hw::g_watch = false;
                                                                      if (r.outcome != "ok") { secret_string y(std::move(*x)); *x = std::move(y); try { x->rotate_nonce(); } catch (...) {} } hw::g_fail_at = -1; r.state = st(); return r; }, ok_state, false);
        else if (f == "ss_rotate_moveassign_read") res = oom_sweep(reset, [&]() { OomResult r = guard_call([&]() { x->rotate_nonce(); return std::string(); }); hw::g_watch = false; hw::g_fail_at = -1;
                                                                      if (r.outcome != "ok") { secret_string* tgt = new secret_string(A2.data(), A2.size() / 2 + 1); (void)tgt->reveal_copy();   // a target that has been read
                                                                                               *tgt = std::move(*x); delete x; x = tgt; }
                                                                      r.state = st(); return r; }, ok_state, false);
        else if (f == "ss_reveal") res = oom_sweep(reset, [&]() { OomResult r = guard_call([&]() { return x->reveal_copy(); }); hw::g_watch = false; hw::g_fail_at = -1; r.state = st(); return r; }, ok_state, false);
        else if (f == "ss_movein") res = oom_sweep(reset, [&]() { OomResult r = guard_call([&]() { *x = secret_string(A3.data(), A3.size()); return std::string(); }); hw::g_watch = false; hw::g_fail_at = -1; r.state = st(); return r; }, ok_state, false);
        else res = "HARNESS-unknown-ss-op";
        delete x; if (hw::g_live != live_before) res += " PROBLEM leak-after-destruction blocks=" + std::to_string(hw::g_live - live_before); return res;
    }
    return "HARNESS-unknown-oom-api";
}

static std::string run1(const std::vector<std::string>& a);
// needles point into objects of the case that registered them: no case may see (or scan with) another case's needles
static std::string run(const std::vector<std::string>& a) { hw::clear_needles(); std::string r = run1(a); hw::clear_needles(); return r; }
static std::string run1(const std::vector<std::string>& a) {
    const std::string& op = a[0];
    if (op == "oom") return oom_call(a);
    if (op == "heap") return heap_call(a);
    if (op == "ssbig") {      // ssbig <nbytes>: a secret of several MiB (block counters beyond 65535): what is revealed after set / rotate / move / rotate
        size_t n = (size_t)strtoull(a[1].c_str(), 0, 10); Bytes p(n); for (size_t i = 0; i < n; ++i) p[i] = (uint8_t)((i * 131 + (i >> 8) * 7 + (i >> 16)) | 1);
        std::string want = str_of(p); const char* step = "set";
        auto bad = [&](const std::string& got) { size_t i = 0; while (i < got.size() && i < want.size() && got[i] == want[i]) ++i; return std::string("RECALL-MISMATCH after ") + step + " first-wrong-offset=" + std::to_string(i) + " length=" + std::to_string(got.size()); };
        secret_string x(p.data(), p.size()); std::string r = x.reveal_copy(); if (r != want) return bad(r);
        step = "rotate"; x.rotate_nonce(); r = x.reveal_copy(); if (r != want) return bad(r);
        step = "move+rotate"; secret_string y(std::move(x)); y.rotate_nonce(); r = y.reveal_copy(); if (r != want) return bad(r);
        return "recall-ok";
    }
    if (op == "sshist") return sshist(std::vector<std::string>(a.begin() + 1, a.end()));
    if (op == "sbhist") {   // sbhist <variant> ops...: variant 0/1 = uint8_t buffers (page locking off/on), w0/w1 = uint32_t, x0/x1 = uint64_t
        std::vector<std::string> ops(a.begin() + 2, a.end()); const std::string& v = a[1];
        if (v == "1") return SbHist<uint8_t, true>::run(ops); if (v == "0") return SbHist<uint8_t, false>::run(ops);
        if (v == "w1") return SbHist<uint32_t, true>::run(ops); if (v == "w0") return SbHist<uint32_t, false>::run(ops);
        if (v == "x1") return SbHist<uint64_t, true>::run(ops); if (v == "x0") return SbHist<uint64_t, false>::run(ops);
        throw std::logic_error("sbhist variant");
    }
    throw std::logic_error("unknown op " + op);
}

// child of `oom ss_firstuse`: a fresh process whose first secret_string operation has its k-th allocation fail
static int firstuse_child(long k, const std::string& plainhex, int fd) {
    alarm(120);                                  // a later operation that never returns is a hang (generous: the machine may be busy)
    Bytes p = bx(plainhex); std::string res;
    hw::begin(1, k);
    bool failed = false, other = false;
    try { secret_string x(p.data(), p.size()); (void)x.reveal_copy(); } catch (const std::bad_alloc&) { failed = true; } catch (...) { other = true; }
    hw::Report rep = hw::end();
    if (other) res = "other-exception";
    else if (!failed) res = "no-fault";
    else {
        try { secret_string y(p.data(), p.size()); std::string r = y.reveal_copy(); y.rotate_nonce(); std::string r2 = y.reveal_copy();
              res = (r == str_of(p) && r2 == r) ? "bad_alloc-then-usable" : "wrong-bytes-after-failure"; }
        catch (const std::exception& e) { res = std::string("exception-after-failure:") + e.what(); }
        if (rep.live_delta != 0 && res == "bad_alloc-then-usable") { /* the process-wide key may legitimately stay allocated */ }
    }
    (void)!write(fd, res.c_str(), res.size()); return 0;
}

int main(int argc, char** argv) {
    if (argc < 2) return 2;
    if (std::string(argv[1]) == "--firstuse" && argc >= 5) return firstuse_child(atol(argv[2]), argv[3], atoi(argv[4]));
    if (std::string(argv[1]) == "--platform") { printf("size_t=%zu time_t=%zu int=%zu max_pbkdf2_iterations=%u\n", sizeof(size_t), sizeof(time_t), sizeof(int), (unsigned)MAX_PBKDF2_ITERATIONS); return 0; }
    std::ifstream in(argv[1]); std::string line;
    if (getenv("VERIF_NOMLOCK")) {      // an unprivileged process with no locked-memory budget: every mlock() the library attempts fails (a legitimate environment)
        struct rlimit rl; rl.rlim_cur = 0; rl.rlim_max = 0; setrlimit(RLIMIT_MEMLOCK, &rl);
        if (setgid(65534) != 0 || setuid(65534) != 0) { puts("nomlock-unavailable"); return 0; }
        void* probe = malloc(4096); if (probe && mlock(probe, 4096) == 0) { munlock(probe, 4096); puts("nomlock-unavailable"); return 0; } free(probe);
    }
    while (std::getline(in, line)) {
        std::vector<std::string> a = split(line, ' ');
        if (a.empty()) continue;
        std::string r = guarded([&]() { return run(a); });
        fputs(r.c_str(), stdout); fputc('\n', stdout); fflush(stdout);
    }
    return 0;
}
