// C10 driver: runs the comparison / HMAC / streaming HMAC / PBKDF2 / HKDF entry points with every SECRET byte (compared values, key,
// password, message, salt, keying material) marked UNDEFINED for valgrind memcheck: a conditional jump or a memory address that
// depends on such a byte is reported by memcheck as use of an uninitialised value, i.e. a secret-dependent branch or address.
// Results are made defined again before they are printed. Natively (without valgrind) the marks are no-ops and the driver
// prints the same result lines as drv_pure, so the ordinary correspondence with the model applies as well.
#define HMACCPP_DEPRECATED(msg)
#include "drv_common.hpp"
#include <valgrind/memcheck.h>
#include "hmac_cpp/hmac.hpp"
#include "hmac_cpp/hmac_utils.hpp"
using namespace hmac_cpp;

static void taint(const void* p, size_t n) { if (n) VALGRIND_MAKE_MEM_UNDEFINED(p, n); }
static void untaint(const void* p, size_t n) { if (n) VALGRIND_MAKE_MEM_DEFINED(p, n); }
static Bytes secret(const std::string& h) { Bytes b = bx(h); taint(b.data(), b.size()); return b; }
static std::string pub(const Bytes& v) { untaint(v.data(), v.size()); return hx(v); }
static TypeHash type_of(const std::string& t) { return t == "sha1" ? TypeHash::SHA1 : t == "sha256" ? TypeHash::SHA256 : TypeHash::SHA512; }
static Pbkdf2Hash prf_of(const std::string& t) { return t == "sha1" ? Pbkdf2Hash::Sha1 : t == "sha256" ? Pbkdf2Hash::Sha256 : Pbkdf2Hash::Sha512; }

static std::string run(const std::vector<std::string>& a) {
    const std::string& op = a[0];
    if (op == "cteq") {
        Bytes x = secret(a[1]), y = secret(a[2]);
        bool r1 = constant_time_equals(x.data(), x.size(), y.data(), y.size());
        bool r2 = constant_time_equals(x, y);
        std::string sx(x.begin(), x.end()), sy(y.begin(), y.end()); taint(sx.data(), sx.size()); taint(sy.data(), sy.size());
        bool r3 = constant_time_equal(sx, sy);
        untaint(&r1, sizeof r1); untaint(&r2, sizeof r2); untaint(&r3, sizeof r3);      // the verdict itself is the public result
        return (r1 == r2 && r2 == r3) ? bool_s(r1) : "OVERLOAD-MISMATCH";
    }
    if (op == "hmac") {
        Bytes k = secret(a[2]), m = secret(a[3]);
        Bytes r1 = get_hmac(k.data(), k.size(), m.data(), m.size(), type_of(a[1]));
        Bytes r2 = get_hmac(k, m, type_of(a[1]));
        std::string o1 = pub(r1), o2 = pub(r2);
        // the string-returning overloads with BINARY output (is_hex = false): vector key, secure_buffer key
        std::string ms(m.begin(), m.end()); taint(&ms[0], ms.size());
        secure_buffer<uint8_t> sk(k.size()); if (!k.empty()) { memcpy(sk.data(), k.data(), k.size()); taint(sk.data(), sk.size()); }
        std::string s3 = get_hmac(k, ms, type_of(a[1]), false, false), s4 = get_hmac(sk, ms, type_of(a[1]), false, false);
        untaint(s3.data(), s3.size()); untaint(s4.data(), s4.size());
        std::string o3 = hx(reinterpret_cast<const uint8_t*>(s3.data()), s3.size()), o4 = hx(reinterpret_cast<const uint8_t*>(s4.data()), s4.size());
        return (o1 == o2 && o2 == o3 && o3 == o4) ? o1 : "OVERLOAD-MISMATCH";
    }
    if (op == "hmachist") {       // ONE HmacContext object: I:<key> | U:<data> | F   (re-initialisation included)
        TypeHash ty = type_of(a[1]); HmacContext c(ty); HmacContext saved(ty); std::string out; bool first = true;
        size_t ds = ty == TypeHash::SHA1 ? 20 : ty == TypeHash::SHA256 ? 32 : 64;
        for (size_t i = 2; i < a.size(); ++i) {
            const std::string& o = a[i];
            if (o == "F") { Bytes d(ds); c.final(d.data(), ds); if (!first) out += ","; out += pub(d); first = false; }
            else if (o[0] == 'I') { Bytes k = secret(o.substr(2)); c.init(k.data(), k.size()); }
            else if (o[0] == 'U') { Bytes m = secret(o.substr(2)); c.update(m.data(), m.size()); }
            else if (o == "V") saved = c;                 // save / restore by copy assignment (the target already holds pads of the same size)
            else if (o == "R") c = saved;
            else if (o == "K") { HmacContext c2(c); c = c2; }
        }
        return out;
    }
    if (op == "pbkdf2") {
        Bytes P = secret(a[2]), S = secret(a[3]); uint32_t c = (uint32_t)strtoul(a[4].c_str(), 0, 10); size_t dk = (size_t)strtoull(a[5].c_str(), 0, 10);
        Bytes r = pbkdf2(P.data(), P.size(), S.data(), S.size(), c, dk, prf_of(a[1]));
        return "ok " + pub(r);
    }
    if (op == "pbkdf2buf") {
        Bytes P = secret(a[2]), S = secret(a[3]); uint32_t c = (uint32_t)strtoul(a[4].c_str(), 0, 10); size_t dk = (size_t)strtoull(a[5].c_str(), 0, 10);
        Bytes out(dk); bool ok = pbkdf2(prf_of(a[1]), P.data(), P.size(), S.data(), S.size(), c, out.data(), dk);
        return ok ? "some " + pub(out) : "none";
    }
    if (op == "pepper") {
        Bytes P = secret(a[2]), S = secret(a[3]), PEP = secret(a[4]); uint32_t c = (uint32_t)strtoul(a[5].c_str(), 0, 10); size_t dk = (size_t)strtoull(a[6].c_str(), 0, 10);
        Bytes r = pbkdf2_with_pepper(P.data(), P.size(), S.data(), S.size(), PEP.data(), PEP.size(), c, dk, prf_of(a[1]));
        return "ok " + pub(r);
    }
    if (op == "hkdfx") {
        Bytes ikm = secret(a[1]); bool nul = a[2] == "null"; Bytes salt = nul ? Bytes() : secret(a[2]);
        Bytes r = hkdf_extract_sha256(ikm.data(), ikm.size(), nul ? (const void*)0 : (salt.empty() ? (const void*)"" : (const void*)salt.data()), salt.size());
        return pub(r);
    }
    if (op == "hkdfe") {
        Bytes prk = secret(a[1]); bool nul = a[2] == "null"; Bytes info = nul ? Bytes() : secret(a[2]); size_t L = (size_t)strtoull(a[3].c_str(), 0, 10);
        Bytes r = hkdf_expand_sha256(prk.data(), prk.size(), nul ? (const void*)0 : (info.empty() ? (const void*)"" : (const void*)info.data()), info.size(), L);
        return "ok " + pub(r);
    }
    if (op == "hkdfkiv") {
        Bytes ikm = secret(a[1]); bool nul = a[2] == "null"; Bytes salt = nul ? Bytes() : secret(a[2]); std::string ctx = str_of(bx(a[3]));
        KeyIv r = hkdf_key_iv_256(ikm.data(), ikm.size(), nul ? (const void*)0 : (salt.empty() ? (const void*)"" : (const void*)salt.data()), salt.size(), ctx);
        untaint(&r, sizeof r);
        return "ok " + hx(r.key.data(), 32) + " " + hx(r.iv.data(), 12);
    }
    throw std::logic_error("unknown op " + op);
}

int main(int argc, char** argv) {
    if (argc < 2) return 2;
    if (std::string(argv[1]) == "--platform") { printf("size_t=%zu time_t=%zu int=%zu max_pbkdf2_iterations=%u\n", sizeof(size_t), sizeof(time_t), sizeof(int), (unsigned)MAX_PBKDF2_ITERATIONS); return 0; }
    std::ifstream in(argv[1]); std::string line; long n = 0;
    while (std::getline(in, line)) {
        std::vector<std::string> a = split(line, ' ');
        if (a.empty()) continue;
        fprintf(stderr, "@@CASE %ld\n", n++); fflush(stderr);          // lets the checker attribute memcheck reports to a case
        std::string r = guarded([&]() { return run(a); });
        fputs(r.c_str(), stdout); fputc('\n', stdout); fflush(stdout);
    }
    return 0;
}
