// Common helpers for the C++ side of the correspondence check: case-file parsing and canonical printing.
#pragma once
#include <cstdint>
#include <cstdio>
#include <cstdlib>
#include <cstring>
#include <string>
#include <locale>
#include <cstdlib>
#include <ctime>
#include <cstdint>
#include <vector>
#include <sstream>
#include <fstream>
#include <iostream>
#include <stdexcept>
#include <functional>
#include <new>

typedef std::vector<uint8_t> Bytes;

static inline int hexval(char c) {
    if (c >= '0' && c <= '9') return c - '0';
    if (c >= 'a' && c <= 'f') return c - 'a' + 10;
    if (c >= 'A' && c <= 'F') return c - 'A' + 10;
    throw std::logic_error("bad hex");
}
static inline Bytes bx(const std::string& s) {
    Bytes out;
    if (s == "-") return out;
    out.reserve(s.size() / 2);
    for (size_t i = 0; i + 1 < s.size(); i += 2) out.push_back((uint8_t)(hexval(s[i]) * 16 + hexval(s[i + 1])));
    return out;
}
static inline std::string hx(const uint8_t* p, size_t n) {
    if (n == 0) return "-";
    static const char* d = "0123456789abcdef";
    std::string o; o.reserve(2 * n);
    for (size_t i = 0; i < n; ++i) { o.push_back(d[p[i] >> 4]); o.push_back(d[p[i] & 15]); }
    return o;
}
static inline std::string hx(const Bytes& b) { return hx(b.data(), b.size()); }
// every std::string a library call returns must still be a well-formed string: terminated right after its last character
static inline std::string hxs(const std::string& s) {
    if (s.c_str()[s.size()] != '\0') return "STRING-NOT-TERMINATED";
    return hx(reinterpret_cast<const uint8_t*>(s.data()), s.size()); }
static inline std::string str_of(const Bytes& b) { return std::string(b.begin(), b.end()); }
static inline std::vector<char> chars_of(const Bytes& b) { return std::vector<char>(b.begin(), b.end()); }
static inline std::vector<std::string> split(const std::string& s, char c) {
    std::vector<std::string> out; std::string cur;
    for (size_t i = 0; i < s.size(); ++i) { if (s[i] == c) { if (!cur.empty()) out.push_back(cur); cur.clear(); } else cur.push_back(s[i]); }
    if (!cur.empty()) out.push_back(cur);
    return out;
}
static inline const char* bool_s(bool b) { return b ? "true" : "false"; }

// ---- a hostile but legitimate process environment, installed before anything else runs: a global C++ locale with digit grouping and a
// decimal comma (stream formatting of numbers changes, snprintf / to_string do not), and a time zone that is not UTC (mktime / localtime shift)
struct GroupingPunct : std::numpunct<char> {
    char do_thousands_sep() const { return ','; } std::string do_grouping() const { return "\3"; } char do_decimal_point() const { return ','; }
};
struct HostileEnvironment { HostileEnvironment() { std::locale::global(std::locale(std::locale::classic(), new GroupingPunct)); setenv("TZ", "IST-5:30", 1); tzset(); } };
static HostileEnvironment g_hostile_environment;

// a copy of the bytes at an address that is NOT aligned (offset 1..7 from an 8-byte boundary)
struct Misaligned {
    std::vector<uint8_t> store; const uint8_t* p;
    Misaligned(const Bytes& b, size_t off) : store(b.size() + 24) {
        uintptr_t base = (reinterpret_cast<uintptr_t>(store.data()) + 7) & ~(uintptr_t)7; uint8_t* q = reinterpret_cast<uint8_t*>(base) + (off % 7) + 1;
        if (!b.empty()) memcpy(q, b.data(), b.size()); p = q; }
};

// run f, mapping the documented exception types to canonical strings
static inline std::string guarded(const std::function<std::string()>& f) {
    try { return f(); }
    catch (const std::invalid_argument&) { return "throw:invalid_argument"; }
    catch (const std::overflow_error&) { return "throw:overflow_error"; }
    catch (const std::length_error&) { return "throw:length_error"; }
    catch (const std::out_of_range&) { return "throw:out_of_range"; }
    catch (const std::runtime_error&) { return "throw:runtime_error"; }
    catch (const std::bad_alloc&) { return "throw:bad_alloc"; }
    catch (const std::logic_error& e) { return std::string("HARNESS-ERROR:") + e.what(); }
    catch (const std::exception& e) { return std::string("throw:other:") + e.what(); }
    catch (...) { return "throw:unknown"; }
}
// all entries of v must be equal; returns v[0] or a line that cannot match any model output
static inline std::string agree(const std::vector<std::pair<std::string, std::string> >& v) {
    for (size_t i = 1; i < v.size(); ++i)
        if (v[i].second != v[0].second)
            return "OVERLOAD-MISMATCH " + v[0].first + "=" + v[0].second + " " + v[i].first + "=" + v[i].second;
    return v[0].second;
}
