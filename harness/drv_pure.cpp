// Correspondence driver for the pure (input -> output) part of hmac-cpp. Built from /repo's working tree.
#define HMACCPP_DEPRECATED(msg)
#include "drv_common.hpp"
#include "hmac_cpp/hmac.hpp"
#include "hmac_cpp/hmac_utils.hpp"
#include "hmac_cpp/encoding.hpp"
#include "hmac_cpp/secret_string.hpp"
#include <array>
#include <cerrno>
#include <ctime>
#include <unistd.h>
using namespace hmac_cpp;

// ---- interposed clock (as the repository's own tests do): std::time resolves to this definition ----
static thread_local long long g_now = 0, g_step = 0; static thread_local int g_errno = 0; static thread_local long g_time_calls = 0;   // per thread: the concurrent driver runs cases on 16 threads
extern "C" time_t time(time_t* t) {
    long long v = g_now + g_step * g_time_calls; ++g_time_calls;
    if (g_errno) errno = g_errno;
    if (t) *t = (time_t)v;
    return (time_t)v;
}
static void set_clock(const std::string& now, const std::string& err, const std::string& step) {
    g_now = strtoll(now.c_str(), 0, 10); g_errno = atoi(err.c_str()) ? 5 : 0; g_step = strtoll(step.c_str(), 0, 10); g_time_calls = 0;
}
static std::string ok_int(int v) { char b[32]; snprintf(b, sizeof b, "ok %d", v); return b; }
static std::string ok_bool(bool v) { return std::string("ok ") + bool_s(v); }
// evaluate each form under the exception guard, then require agreement
typedef std::function<std::string()> Thunk;
static std::string agree_guarded(const std::vector<std::pair<std::string, Thunk> >& fs) {
    std::vector<std::pair<std::string, std::string> > r;
    // the caller's errno may hold anything on entry: a stale non-zero value must not be taken for a failing clock
    for (size_t i = 0; i < fs.size(); ++i) { g_time_calls = 0; errno = EINVAL; r.push_back(std::make_pair(fs[i].first, guarded(fs[i].second))); }
    return agree(r);
}
#define FORM(name, expr) fs.push_back(std::make_pair(std::string(name), Thunk([&]() -> std::string { return expr; })))
typedef std::vector<std::pair<std::string, std::string> > Forms;

// an empty input may be handed over as (nullptr, 0) or as (valid pointer, 0)
static const uint8_t g_dummy[1] = {0};
static const uint8_t* pn(const Bytes& b) { return b.empty() ? (const uint8_t*)0 : b.data(); }
static const uint8_t* pv(const Bytes& b) { return b.empty() ? g_dummy : b.data(); }

static TypeHash type_of(const std::string& t) {
    if (t == "sha1") return TypeHash::SHA1;
    if (t == "sha256") return TypeHash::SHA256;
    if (t == "sha512") return TypeHash::SHA512;
    return static_cast<TypeHash>(atoi(t.c_str() + 1)); // "#<n>": raw selector value
}

// ---- hash contexts with state injection (fields are protected: derive) ----
struct X1 : hmac_hash::SHA1 { void inject(uint64_t tot) { m_transforms = (size_t)(tot / 64); } };
struct X256 : hmac_hash::SHA256 { void inject(uint64_t tot) { m_tot_len = tot; } };
struct X512 : hmac_hash::SHA512 { void inject(uint64_t tot) { m_tot_len = tot; } };

template <class X, size_t DS> static std::string hist(const std::vector<std::string>& ops) {
    X* c = new X();            // heap object: ASan sees out-of-bounds on m_block
    X* saved = 0;
    std::string out; bool first = true;
    for (size_t i = 0; i < ops.size(); ++i) {
        const std::string& o = ops[i];
        if (o == "I") c->init();
        else if (o == "F") { uint8_t d[DS]; c->finish(d); if (!first) out += ","; out += hx(d, DS); first = false; }
        else if (o[0] == 'U') { Bytes m = bx(o.substr(2)); c->update(m.data(), m.size()); }
        else if (o[0] == 'J') c->inject(strtoull(o.c_str() + 2, 0, 10));
        else if (o == "K") { X* c2 = new X(*c); delete c; c = c2; }                      // continue on a copy of the context (the original is destroyed)
        else if (o == "k") { X* c2 = new X(*c); uint8_t d[DS]; c2->finish(d); delete c2;  // finish a copy, keep using the original
                             if (!first) out += ","; out += hx(d, DS); first = false; }
        else if (o == "Y") { X& r = *c; *c = r; }                                          // self-assignment keeps the state
        else if (o[0] == 'G') { Bytes junk = bx(o.substr(2)); X* d2 = new X(); d2->init(); d2->update(junk.data(), junk.size());
                                *d2 = *c; delete c; c = d2; }                              // copy-ASSIGNED onto a context that was in use; continue there
        else if (o == "V") { delete saved; saved = new X(*c); }                            // save a copy ...
        else if (o == "R") { if (saved) *c = *saved; }                                     // ... and assign it back later (save / restore)
        else throw std::logic_error("hist op");
    }
    delete c; delete saved;
    return out;
}

static std::string sha_forms(const std::string& t, const Bytes& m) {
    Forms f;
    std::string s = str_of(m);
    if (t == "sha1") {
        uint8_t d[20]; hmac_hash::sha1(m.data(), m.size(), d); f.push_back(std::make_pair("raw", hx(d, 20)));
        { Misaligned mm(m, 6); uint8_t e[20]; hmac_hash::sha1(mm.p, m.size(), e); f.push_back(std::make_pair("raw-misaligned", hx(e, 20))); }
        if (m.empty()) { uint8_t e[20]; hmac_hash::sha1(pn(m), 0, e); f.push_back(std::make_pair("raw-null", hx(e, 20))); hmac_hash::sha1(pv(m), 0, e); f.push_back(std::make_pair("raw-valid", hx(e, 20))); }
        f.push_back(std::make_pair("ptrvec", hx(hmac_hash::sha1(m.data(), m.size()))));
        f.push_back(std::make_pair("vec", hx(hmac_hash::sha1(m))));
        f.push_back(std::make_pair("vecchar", hx(hmac_hash::sha1(chars_of(m)))));
        f.push_back(std::make_pair("strhex", hmac_hash::sha1(s)));
    } else if (t == "sha256") {
        uint8_t d[32]; hmac_hash::sha256(m.data(), m.size(), d); f.push_back(std::make_pair("raw", hx(d, 32)));
        { Misaligned mm(m, 4); uint8_t e[32]; hmac_hash::sha256(mm.p, m.size(), e); f.push_back(std::make_pair("raw-misaligned", hx(e, 32))); }
        if (m.empty()) { uint8_t e[32]; hmac_hash::sha256(pn(m), 0, e); f.push_back(std::make_pair("raw-null", hx(e, 32))); hmac_hash::sha256(pv(m), 0, e); f.push_back(std::make_pair("raw-valid", hx(e, 32))); }
        f.push_back(std::make_pair("ptrvec", hx(hmac_hash::sha256(m.data(), m.size()))));
        f.push_back(std::make_pair("vec", hx(hmac_hash::sha256(m))));
        f.push_back(std::make_pair("vecchar", hx(hmac_hash::sha256(chars_of(m)))));
        f.push_back(std::make_pair("strhex", hmac_hash::sha256(s)));
    } else {
        uint8_t d[64]; hmac_hash::sha512(m.data(), m.size(), d); f.push_back(std::make_pair("raw", hx(d, 64)));
        { Misaligned mm(m, 1); uint8_t e[64]; hmac_hash::sha512(mm.p, m.size(), e); f.push_back(std::make_pair("raw-misaligned", hx(e, 64))); }
        if (m.empty()) { uint8_t e[64]; hmac_hash::sha512(pn(m), 0, e); f.push_back(std::make_pair("raw-null", hx(e, 64))); hmac_hash::sha512(pv(m), 0, e); f.push_back(std::make_pair("raw-valid", hx(e, 64))); }
        f.push_back(std::make_pair("ptrvec", hx(hmac_hash::sha512(m.data(), m.size()))));
        f.push_back(std::make_pair("vec", hx(hmac_hash::sha512(m))));
        f.push_back(std::make_pair("vecchar", hx(hmac_hash::sha512(chars_of(m)))));
        f.push_back(std::make_pair("strhex", hmac_hash::sha512(s)));
    }
    TypeHash ty = type_of(t);
    f.push_back(std::make_pair("get_hash_str", hxs(get_hash(s, ty))));
    f.push_back(std::make_pair("get_hash_ptr", hx(get_hash(m.data(), m.size(), ty))));
    f.push_back(std::make_pair("get_hash_vec", hx(get_hash(m, ty))));
    f.push_back(std::make_pair("get_hash_vecchar", hx(get_hash(chars_of(m), ty))));
    return agree(f);
}

static std::string hmac_forms(TypeHash ty, const Bytes& k, const Bytes& m) {
    Forms f;
    f.push_back(std::make_pair("ptr", hx(get_hmac(k.data(), k.size(), m.data(), m.size(), ty))));
    if (k.empty() || m.empty()) {
        f.push_back(std::make_pair("ptr-null-empties", hx(get_hmac(pn(k), k.size(), pn(m), m.size(), ty))));
        f.push_back(std::make_pair("ptr-valid-empties", hx(get_hmac(pv(k), k.size(), pv(m), m.size(), ty))));
    }
    { Misaligned mk(k, 0), mm(m, 2); f.push_back(std::make_pair("ptr-misaligned", hx(get_hmac(mk.p, k.size(), mm.p, m.size(), ty)))); }
    { Misaligned mk(k, 4), mm(m, 6); f.push_back(std::make_pair("ptr-misaligned2", hx(get_hmac(mk.p, k.size(), mm.p, m.size(), ty)))); }
    f.push_back(std::make_pair("vec", hx(get_hmac(k, m, ty))));
    f.push_back(std::make_pair("vecchar", hx(get_hmac(chars_of(k), chars_of(m), ty))));
    return agree(f);
}
static std::string hmacstr_forms(TypeHash ty, const Bytes& k, const Bytes& m, bool ih, bool iu) {
    Forms f; std::string ms = str_of(m);
    f.push_back(std::make_pair("veckey", hxs(get_hmac(k, ms, ty, ih, iu))));
    secure_buffer<uint8_t> sk(k.size()); if (!k.empty()) memcpy(sk.data(), k.data(), k.size());
    f.push_back(std::make_pair("securekey", hxs(get_hmac(sk, ms, ty, ih, iu))));
    f.push_back(std::make_pair("strkey", hxs(get_hmac(str_of(k), ms, ty, ih, iu))));
    if (ih && !iu) {   // defaults: is_hex = true, is_upper = false
        f.push_back(std::make_pair("veckey-default", hxs(get_hmac(k, ms, ty))));
        f.push_back(std::make_pair("securekey-default", hxs(get_hmac(sk, ms, ty))));
    }
    return agree(f);
}
static std::string hmachist(TypeHash ty, const std::vector<std::string>& ops) {
    HmacContext* c = new HmacContext(ty); HmacContext* saved = 0;
    std::string out; bool first = true;
    for (size_t i = 0; i < ops.size(); ++i) {
        const std::string& o = ops[i];
        if (o == "F") { uint8_t d[64]; memset(d, 0xEE, 64); size_t ds = ty == TypeHash::SHA1 ? 20 : ty == TypeHash::SHA256 ? 32 : 64;
                        c->final(d, ds); if (!first) out += ","; out += hx(d, ds); first = false; }
        else if (o[0] == 'I') { Bytes k = bx(o.substr(2)); c->init(k.data(), k.size()); }
        else if (o[0] == 'U') { Bytes m = bx(o.substr(2)); c->update(m.data(), m.size()); }
        else if (o == "K") { HmacContext* c2 = new HmacContext(*c); delete c; c = c2; }
        else if (o == "k") { HmacContext* c2 = new HmacContext(*c); uint8_t d[64]; size_t ds = ty == TypeHash::SHA1 ? 20 : ty == TypeHash::SHA256 ? 32 : 64;
                             c2->final(d, ds); delete c2; if (!first) out += ","; out += hx(d, ds); first = false; }
        else if (o == "Y") { HmacContext& r = *c; *c = r; }
        else if (o[0] == 'G') {      // G:<type>:<key>:<junk>  copy-assigned onto a context of (possibly) another hash that was in use
            std::vector<std::string> g = split(o, ':'); HmacContext* d2 = new HmacContext(type_of(g[1])); Bytes k = bx(g[2]), junk = bx(g[3]);
            d2->init(k.data(), k.size()); d2->update(junk.data(), junk.size()); *d2 = *c; delete c; c = d2; }
        else if (o == "V") { delete saved; saved = new HmacContext(*c); }
        else if (o == "R") { if (saved) *c = *saved; }
        else if (o[0] == 'f') {      // f:<n>  final() into a buffer that is too small: rejected, and the context is as it was
            size_t n = (size_t)atol(o.c_str() + 2); uint8_t d[64];
            try { c->final(d, n); out += (first ? "" : ","); out += "SHORT-FINAL-ACCEPTED"; first = false; }
            catch (const std::invalid_argument&) {} catch (...) { out += (first ? "" : ","); out += "SHORT-FINAL-OTHER-SIGNAL"; first = false; } }
        else throw std::logic_error("hmachist op");
    }
    delete c; delete saved;
    return out;
}

// decoders: the same output objects are reused across all cases of a run (they keep what the previous decode left in them),
// so "left empty on failure" is checked against real prior contents
static thread_local std::vector<uint8_t> g_dec_vec; static thread_local secure_buffer<uint8_t> g_dec_sb;
template <class FV, class FS> static std::string dec_forms(FV fv, FS fs) {
    Forms f;
    { bool ok = fv(g_dec_vec); f.push_back(std::make_pair("vector", ok ? "some " + hx(g_dec_vec) : (g_dec_vec.empty() ? std::string("none") : std::string("none-but-output-not-empty")))); }
    { bool ok = fs(g_dec_sb); f.push_back(std::make_pair("secure", ok ? "some " + hx(g_dec_sb.data(), g_dec_sb.size()) : (g_dec_sb.size() == 0 ? std::string("none") : std::string("none-but-output-not-empty")))); }
    { std::vector<uint8_t> fresh; bool ok = fv(fresh); f.push_back(std::make_pair("vector-fresh", ok ? "some " + hx(fresh) : (fresh.empty() ? std::string("none") : std::string("none-but-output-not-empty")))); }
    return agree(f);
}

static std::string run(const std::vector<std::string>& a);
// ---- calls made while this translation unit's globals are being initialised: the driver is first on the link line, so this runs
// before the library's own dynamic initialisers (a table the library builds at load time is not there yet)
static const char* const g_static_lines[] = { "hmacstr sha256 6b6579 73746174696320696e6974 1 0", "hmacstr sha1 6b6579 73746174696320696e6974 1 1", "hmacstr sha512 6b6579 73 0 0", "tohex 0 00ff10a5", "tohex 1 00ff10a5", "hexstr sha256 616263", "sha sha1 616263", "sha sha512 -", "b64enc 0 1 666f6f626172", "b64dec 0 1 1 5a6d3976596d4679", "b64dec 1 0 0 5a6d39765f2d", "b32enc 1 666f6f", "b32dec 1 1 4d5a585736", "b32dec 0 0 6d7a7877", "b36enc 0001ff", "b36dec 317a", "hotp sha1 3132333435363738393031323334353637383930 1 6", "cteq 6162 6162" };
static std::string compute_static() {
    std::string out;
    for (size_t i = 0; i < sizeof g_static_lines / sizeof g_static_lines[0]; ++i) { if (i) out += "|"; out += guarded([&]() { return run(split(g_static_lines[i], ' ')); }); }
    return out;
}
// ... and once more while the process is shutting down. The checking object is fully constructed BEFORE the first library call of the process, so
// its destructor runs after every function-local static the library creates has been destroyed. The decoder lines are left out: they use
// thread-local output objects of the main thread, which no longer exist at that point.
static std::string compute_exit() {
    std::string out;
    for (size_t i = 0; i < sizeof g_static_lines / sizeof g_static_lines[0]; ++i) {
        std::string l = g_static_lines[i]; if (l.find("dec ") != std::string::npos) continue;
        out += "|"; out += guarded([&]() { return run(split(l, ' ')); }); }
    return out;
}
struct AtExitCheck { std::string expect; AtExitCheck() {}
    ~AtExitCheck() { if (expect.empty()) return; std::string now = compute_exit();
                     if (now != expect) { fprintf(stderr, "AT-EXIT-MISMATCH results of calls made during static destruction differ: %.300s\n", now.c_str()); fflush(stderr); _exit(97); } } };
static AtExitCheck g_at_exit_check;
static const std::string g_static_results = compute_static();
static const bool g_at_exit_armed = (g_at_exit_check.expect = compute_exit(), true);

static std::string run(const std::vector<std::string>& a) {
    const std::string& op = a[0];
    if (op == "staticinit") return g_static_results;
    if (op == "b64enc") {
        Base64Alphabet al = a[1] == "1" ? Base64Alphabet::Url : Base64Alphabet::Standard; bool pad = a[2] == "1"; Bytes d = bx(a[3]);
        secure_buffer<uint8_t> sd(d.size()); if (!d.empty()) memcpy(sd.data(), d.data(), d.size());
        Forms f; f.push_back(std::make_pair("ptr", hxs(base64_encode(d.data(), d.size(), al, pad))));
        f.push_back(std::make_pair("vec", hxs(base64_encode(d, al, pad)))); f.push_back(std::make_pair("secure", hxs(base64_encode(sd, al, pad))));
        if (al == Base64Alphabet::Standard && pad) f.push_back(std::make_pair("vec-default", hxs(base64_encode(d))));
        return agree(f);
    }
    if (op == "b64dec") {
        Base64Alphabet al = a[1] == "1" ? Base64Alphabet::Url : Base64Alphabet::Standard; bool req = a[2] == "1", strict = a[3] == "1"; std::string in = str_of(bx(a[4]));
        return dec_forms([&](std::vector<uint8_t>& o) { return base64_decode(in, o, al, req, strict); }, [&](secure_buffer<uint8_t>& o) { return base64_decode(in, o, al, req, strict); });
    }
    if (op == "b32enc") {
        bool pad = a[1] == "1"; Bytes d = bx(a[2]); secure_buffer<uint8_t> sd(d.size()); if (!d.empty()) memcpy(sd.data(), d.data(), d.size());
        Forms f; f.push_back(std::make_pair("ptr", hxs(base32_encode(d.data(), d.size(), pad))));
        f.push_back(std::make_pair("vec", hxs(base32_encode(d, pad)))); f.push_back(std::make_pair("secure", hxs(base32_encode(sd, pad))));
        return agree(f);
    }
    if (op == "b32dec") {
        bool req = a[1] == "1", strict = a[2] == "1"; std::string in = str_of(bx(a[3]));
        return dec_forms([&](std::vector<uint8_t>& o) { return base32_decode(in, o, req, strict); }, [&](secure_buffer<uint8_t>& o) { return base32_decode(in, o, req, strict); });
    }
    if (op == "b36enc") {
        Bytes d = bx(a[1]); secure_buffer<uint8_t> sd(d.size()); if (!d.empty()) memcpy(sd.data(), d.data(), d.size());
        Forms f; f.push_back(std::make_pair("ptr", hxs(base36_encode(d.data(), d.size()))));
        f.push_back(std::make_pair("vec", hxs(base36_encode(d)))); f.push_back(std::make_pair("secure", hxs(base36_encode(sd))));
        return agree(f);
    }
    if (op == "b36dec") {
        std::string in = str_of(bx(a[1]));
        return dec_forms([&](std::vector<uint8_t>& o) { return base36_decode(in, o); }, [&](secure_buffer<uint8_t>& o) { return base36_decode(in, o); });
    }
    if (op == "shabig") {   // shabig <t> <nbytes> <byte>: hash nbytes copies of one byte value, streamed in 1 MiB updates
        unsigned long long n = strtoull(a[2].c_str(), 0, 10); Bytes chunk(1 << 20, (uint8_t)atoi(a[3].c_str()));
        if (a[1] == "sha1") { hmac_hash::SHA1 c; c.init(); for (unsigned long long i = 0; i < n; i += chunk.size()) c.update(chunk.data(), (size_t)std::min<unsigned long long>(chunk.size(), n - i)); uint8_t d[20]; c.finish(d); return hx(d, 20); }
        if (a[1] == "sha256") { hmac_hash::SHA256 c; c.init(); for (unsigned long long i = 0; i < n; i += chunk.size()) c.update(chunk.data(), (size_t)std::min<unsigned long long>(chunk.size(), n - i)); uint8_t d[32]; c.finish(d); return hx(d, 32); }
        hmac_hash::SHA512 c; c.init(); for (unsigned long long i = 0; i < n; i += chunk.size()) c.update(chunk.data(), (size_t)std::min<unsigned long long>(chunk.size(), n - i)); uint8_t d[64]; c.finish(d); return hx(d, 64);
    }
    if (op == "hmachuge") {  // hmachuge <t> <nbytes>: a KEY of more than 2^32 bytes (zero pages, a few non-zero bytes at both ends). A key longer than a block is
                             // replaced by its digest (RFC 2104): the MAC must equal the MAC under that digest, computed here with a 16 MiB-chunked context
        size_t n = (size_t)strtoull(a[2].c_str(), 0, 10); uint8_t* z = (uint8_t*)calloc(n ? n : 1, 1); if (!z) return "HARNESS-no-memory";
        for (size_t i = 0; i < 23 && i < n; ++i) { z[i] = (uint8_t)(0x21 + i); z[n - 1 - i] = (uint8_t)(0xC3 ^ i); }
        TypeHash ty = type_of(a[1]); const size_t piece = (size_t)16 << 20; Bytes msg(37, 0x6D), kd;
        if (a[1] == "sha1") { hmac_hash::SHA1 c; c.init(); for (size_t i = 0; i < n; i += piece) c.update(z + i, std::min(piece, n - i)); kd.resize(20); c.finish(kd.data()); }
        else if (a[1] == "sha256") { hmac_hash::SHA256 c; c.init(); for (size_t i = 0; i < n; i += piece) c.update(z + i, std::min(piece, n - i)); kd.resize(32); c.finish(kd.data()); }
        else { hmac_hash::SHA512 c; c.init(); for (size_t i = 0; i < n; i += piece) c.update(z + i, std::min(piece, n - i)); kd.resize(64); c.finish(kd.data()); }
        std::string direct = hx(get_hmac(z, n, msg.data(), msg.size(), ty)), via_digest = hx(get_hmac(kd.data(), kd.size(), msg.data(), msg.size(), ty));
        std::string streamed = via_digest;
        if (a.size() > 3 && a[3] == "1") { HmacContext hc(ty); hc.init(z, n); hc.update(msg.data(), msg.size()); uint8_t o[64]; hc.final(o, 64); streamed = hx(o, kd.size()); }
        free(z);
        return (direct == via_digest && streamed == via_digest) ? "agree" : "DISAGREE one-shot=" + direct + " streaming=" + streamed + " under-the-key-digest=" + via_digest;
    }
    if (op == "shahuge") {  // shahuge <t> <nbytes> <full>: ONE update call carrying nbytes zero bytes (one-shot form) vs the same bytes streamed in 16 MiB updates;
                            // full = 1 adds get_hash(ptr, n) and a 37-byte update followed by one update with the rest
        size_t n = (size_t)strtoull(a[2].c_str(), 0, 10); bool full = a.size() > 3 && a[3] == "1"; uint8_t* z = (uint8_t*)calloc(n ? n : 1, 1);     // untouched zero pages: no resident memory
        if (!z) return "HARNESS-no-memory";
        // a few non-zero bytes at both ends (two pages touched): the tail after the last whole block must come from the END of the buffer
        for (size_t i = 0; i < 41 && i < n; ++i) { z[i] = (uint8_t)(0x11 + i); z[n - 1 - i] = (uint8_t)(0xA5 ^ i); }
        const size_t piece = (size_t)16 << 20; std::string one, two, chunked, split;
        if (a[1] == "sha1") { uint8_t d[20]; hmac_hash::sha1(z, n, d); one = hx(d, 20);
            hmac_hash::SHA1 c; c.init(); for (size_t i = 0; i < n; i += piece) c.update(z + i, std::min(piece, n - i)); c.finish(d); chunked = hx(d, 20); two = split = one;
            if (full) { two = hx(get_hash(z, n, TypeHash::SHA1)); hmac_hash::SHA1 e; e.init(); e.update(z, std::min<size_t>(n, 37)); if (n > 37) e.update(z + 37, n - 37); e.finish(d); split = hx(d, 20); } }
        else if (a[1] == "sha256") { uint8_t d[32]; hmac_hash::sha256(z, n, d); one = hx(d, 32);
            hmac_hash::SHA256 c; c.init(); for (size_t i = 0; i < n; i += piece) c.update(z + i, std::min(piece, n - i)); c.finish(d); chunked = hx(d, 32); two = split = one;
            if (full) { two = hx(get_hash(z, n, TypeHash::SHA256)); hmac_hash::SHA256 e; e.init(); e.update(z, std::min<size_t>(n, 37)); if (n > 37) e.update(z + 37, n - 37); e.finish(d); split = hx(d, 32); } }
        else { uint8_t d[64]; hmac_hash::sha512(z, n, d); one = hx(d, 64);
            hmac_hash::SHA512 c; c.init(); for (size_t i = 0; i < n; i += piece) c.update(z + i, std::min(piece, n - i)); c.finish(d); chunked = hx(d, 64); two = split = one;
            if (full) { two = hx(get_hash(z, n, TypeHash::SHA512)); hmac_hash::SHA512 e; e.init(); e.update(z, std::min<size_t>(n, 37)); if (n > 37) e.update(z + 37, n - 37); e.finish(d); split = hx(d, 64); } }
        free(z);
        return (one == two && two == chunked && chunked == split) ? "agree" : "DISAGREE oneshot=" + one + " get_hash=" + two + " chunked=" + chunked + " split37=" + split;
    }
    if (op == "hotp") {
        TypeHash ty = type_of(a[1]); Bytes k = bx(a[2]); uint64_t c = strtoull(a[3].c_str(), 0, 10); int d = atoi(a[4].c_str());
        secure_buffer<uint8_t> sk(k.size()); if (!k.empty()) memcpy(sk.data(), k.data(), k.size());
        // the SAME storage held another key of the same length a moment ago (same counter, same parameters): a result remembered by address must not come back
        if (!k.empty()) { for (size_t i = 0; i < k.size(); ++i) { k[i] ^= 0x5A; sk[i] ^= 0x5A; }
            try { (void)get_hotp_code(k.data(), k.size(), c, d, ty); (void)get_hotp_code(k, c, d, ty); (void)get_hotp_code(sk, c, d, ty); } catch (...) {}
            for (size_t i = 0; i < k.size(); ++i) { k[i] ^= 0x5A; sk[i] ^= 0x5A; } }
        std::vector<std::pair<std::string, Thunk> > fs;
        FORM("ptr", ok_int(get_hotp_code(k.data(), k.size(), c, d, ty)));
        FORM("ptr-misaligned", ({ Misaligned mk(k, 2); ok_int(get_hotp_code(mk.p, k.size(), c, d, ty)); }));
        if (k.empty()) { FORM("ptr-null-key", ok_int(get_hotp_code(pn(k), 0, c, d, ty))); FORM("ptr-valid-key", ok_int(get_hotp_code(pv(k), 0, c, d, ty))); }
        FORM("vec", ok_int(get_hotp_code(k, c, d, ty)));
        FORM("vecchar", ok_int(get_hotp_code(chars_of(k), c, d, ty)));
        FORM("secure", ok_int(get_hotp_code(sk, c, d, ty)));
        FORM("str", ok_int(get_hotp_code(str_of(k), c, d, ty)));
        if (ty == TypeHash::SHA1) {      // the documented defaults (digits = 6, SHA-1) left out
            FORM("ptr-default-hash", ok_int(get_hotp_code(k.data(), k.size(), c, d))); FORM("vec-default-hash", ok_int(get_hotp_code(k, c, d)));
            FORM("secure-default-hash", ok_int(get_hotp_code(sk, c, d))); FORM("str-default-hash", ok_int(get_hotp_code(str_of(k), c, d)));
            if (d == 6) { FORM("ptr-defaults", ok_int(get_hotp_code(k.data(), k.size(), c))); FORM("vec-defaults", ok_int(get_hotp_code(k, c)));
                          FORM("secure-defaults", ok_int(get_hotp_code(sk, c))); FORM("str-defaults", ok_int(get_hotp_code(str_of(k), c))); }
        }
        return agree_guarded(fs);
    }
    if (op == "totpat") {
        TypeHash ty = type_of(a[1]); Bytes k = bx(a[2]); uint64_t ts = strtoull(a[3].c_str(), 0, 10); int p = atoi(a[4].c_str()), d = atoi(a[5].c_str());
        secure_buffer<uint8_t> sk(k.size()); if (!k.empty()) memcpy(sk.data(), k.data(), k.size());
        std::vector<std::pair<std::string, Thunk> > fs;
        FORM("ptr", ok_int(get_totp_code_at(k.data(), k.size(), ts, p, d, ty)));
        FORM("vec", ok_int(get_totp_code_at(k, ts, p, d, ty)));
        FORM("vecchar", ok_int(get_totp_code_at(chars_of(k), ts, p, d, ty)));
        FORM("secure", ok_int(get_totp_code_at(sk, ts, p, d, ty)));
        FORM("str", ok_int(get_totp_code_at(str_of(k), ts, p, d, ty)));
        if (ty == TypeHash::SHA1) {      // documented defaults (period = 30, digits = 6, SHA-1) left out
            FORM("ptr-default-hash", ok_int(get_totp_code_at(k.data(), k.size(), ts, p, d))); FORM("vec-default-hash", ok_int(get_totp_code_at(k, ts, p, d)));
            FORM("secure-default-hash", ok_int(get_totp_code_at(sk, ts, p, d))); FORM("str-default-hash", ok_int(get_totp_code_at(str_of(k), ts, p, d)));
            if (d == 6) { FORM("vec-default-digits", ok_int(get_totp_code_at(k, ts, p))); FORM("secure-default-digits", ok_int(get_totp_code_at(sk, ts, p))); }
            if (d == 6 && p == 30) { FORM("ptr-defaults", ok_int(get_totp_code_at(k.data(), k.size(), ts))); FORM("vec-defaults", ok_int(get_totp_code_at(k, ts)));
                                     FORM("secure-defaults", ok_int(get_totp_code_at(sk, ts))); FORM("str-defaults", ok_int(get_totp_code_at(str_of(k), ts))); }
        }
        return agree_guarded(fs);
    }
    if (op == "totpnow") {
        TypeHash ty = type_of(a[1]); Bytes k = bx(a[2]); int p = atoi(a[3].c_str()), d = atoi(a[4].c_str());
        set_clock(a[5], a[6], a[7]);
        secure_buffer<uint8_t> sk(k.size()); if (!k.empty()) memcpy(sk.data(), k.data(), k.size());
        // as above, for the clock form: same storage, same instant, another key just before (the clock is set again afterwards, the priming reads consume ticks)
        if (!k.empty()) { for (size_t i = 0; i < k.size(); ++i) { k[i] ^= 0x5A; sk[i] ^= 0x5A; }
            try { (void)get_totp_code(k.data(), k.size(), p, d, ty); } catch (...) {}
            try { (void)get_totp_code(k, p, d, ty); } catch (...) {}
            try { (void)get_totp_code(sk, p, d, ty); } catch (...) {}
            for (size_t i = 0; i < k.size(); ++i) { k[i] ^= 0x5A; sk[i] ^= 0x5A; }
            set_clock(a[5], a[6], a[7]); }
        std::vector<std::pair<std::string, Thunk> > fs;
        FORM("ptr", ok_int(get_totp_code(k.data(), k.size(), p, d, ty)));
        FORM("vec", ok_int(get_totp_code(k, p, d, ty)));
        FORM("vecchar", ok_int(get_totp_code(chars_of(k), p, d, ty)));
        FORM("secure", ok_int(get_totp_code(sk, p, d, ty)));
        FORM("str", ok_int(get_totp_code(str_of(k), p, d, ty)));
        if (ty == TypeHash::SHA1) {
            FORM("vec-default-hash", ok_int(get_totp_code(k, p, d))); FORM("secure-default-hash", ok_int(get_totp_code(sk, p, d)));
            if (d == 6 && p == 30) { FORM("ptr-defaults", ok_int(get_totp_code(k.data(), k.size()))); FORM("vec-defaults", ok_int(get_totp_code(k)));
                                     FORM("secure-defaults", ok_int(get_totp_code(sk))); FORM("str-defaults", ok_int(get_totp_code(str_of(k)))); }
        }
        return agree_guarded(fs);
    }
    if (op == "hotpdg") return ok_int(detail::hotp_from_digest(bx(a[1]), atoi(a[2].c_str())));
    if (op == "totpvalid") {
        TypeHash ty = type_of(a[1]); int tok = atoi(a[2].c_str()); Bytes k = bx(a[3]); uint64_t ts = strtoull(a[4].c_str(), 0, 10);
        int p = atoi(a[5].c_str()), d = atoi(a[6].c_str());
        secure_buffer<uint8_t> sk(k.size()); if (!k.empty()) memcpy(sk.data(), k.data(), k.size());
        std::vector<std::pair<std::string, Thunk> > fs;
        FORM("ptr", ok_bool(is_totp_token_valid(tok, k.data(), k.size(), ts, p, d, ty)));
        FORM("vec", ok_bool(is_totp_token_valid(tok, k, ts, p, d, ty)));
        FORM("vecchar", ok_bool(is_totp_token_valid(tok, chars_of(k), ts, p, d, ty)));
        FORM("secure", ok_bool(is_totp_token_valid(tok, sk, ts, p, d, ty)));
        FORM("str", ok_bool(is_totp_token_valid(tok, str_of(k), ts, p, d, ty)));
        if (ty == TypeHash::SHA1) {
            FORM("vec-default-hash", ok_bool(is_totp_token_valid(tok, k, ts, p, d))); FORM("secure-default-hash", ok_bool(is_totp_token_valid(tok, sk, ts, p, d)));
            if (d == 6 && p == 30) { FORM("ptr-defaults", ok_bool(is_totp_token_valid(tok, k.data(), k.size(), ts))); FORM("vec-defaults", ok_bool(is_totp_token_valid(tok, k, ts)));
                                     FORM("secure-defaults", ok_bool(is_totp_token_valid(tok, sk, ts))); FORM("str-defaults", ok_bool(is_totp_token_valid(tok, str_of(k), ts))); }
        }
        return agree_guarded(fs);
    }
    if (op == "totpvalidnow") {
        TypeHash ty = type_of(a[1]); int tok = atoi(a[2].c_str()); Bytes k = bx(a[3]); int p = atoi(a[4].c_str()), d = atoi(a[5].c_str());
        set_clock(a[6], a[7], a[8]);
        secure_buffer<uint8_t> sk(k.size()); if (!k.empty()) memcpy(sk.data(), k.data(), k.size());
        std::vector<std::pair<std::string, Thunk> > fs;
        FORM("ptr", ok_bool(is_totp_token_valid(tok, k.data(), k.size(), p, d, ty)));
        FORM("vec", ok_bool(is_totp_token_valid(tok, k, p, d, ty)));
        FORM("vecchar", ok_bool(is_totp_token_valid(tok, chars_of(k), p, d, ty)));
        FORM("secure", ok_bool(is_totp_token_valid(tok, sk, p, d, ty)));
        FORM("str", ok_bool(is_totp_token_valid(tok, str_of(k), p, d, ty)));
        return agree_guarded(fs);
    }
    if (op == "pbkdf2end") {    // pbkdf2end <t> <P> <S> <c> <dk> <k>: derive dk bytes (any dk), report the last k
        Pbkdf2Hash prf = a[1] == "sha1" ? Pbkdf2Hash::Sha1 : a[1] == "sha256" ? Pbkdf2Hash::Sha256 : Pbkdf2Hash::Sha512;
        Bytes P = bx(a[2]), S = bx(a[3]); uint32_t c = (uint32_t)strtoul(a[4].c_str(), 0, 10); size_t dk = (size_t)strtoull(a[5].c_str(), 0, 10), k = (size_t)strtoull(a[6].c_str(), 0, 10);
        std::vector<std::pair<std::string, Thunk> > fs;
        FORM("vec", ({ Bytes r = pbkdf2(P.data(), P.size(), S.data(), S.size(), c, dk, prf); r.size() == dk ? "ok " + hx(r.data() + dk - k, k) : std::string("wrong-length"); }));
        FORM("buf", ({ Bytes r(dk); bool ok = pbkdf2(prf, P.data(), P.size(), S.data(), S.size(), c, r.data(), r.size()); ok ? "ok " + hx(r.data() + dk - k, k) : std::string("false"); }));
        return agree_guarded(fs);
    }
    if (op == "pbkdf2tail") {   // pbkdf2tail <t> <P> <S> <c> <nblocks> <k>: derive nblocks whole blocks, report the last k (block indices beyond 65535 need a long output)
        Pbkdf2Hash prf = a[1] == "sha1" ? Pbkdf2Hash::Sha1 : a[1] == "sha256" ? Pbkdf2Hash::Sha256 : Pbkdf2Hash::Sha512;
        size_t hl = a[1] == "sha1" ? 20 : a[1] == "sha256" ? 32 : 64;
        Bytes P = bx(a[2]), S = bx(a[3]); uint32_t c = (uint32_t)strtoul(a[4].c_str(), 0, 10); size_t nb = (size_t)strtoull(a[5].c_str(), 0, 10), k = (size_t)strtoull(a[6].c_str(), 0, 10);
        std::vector<std::pair<std::string, Thunk> > fs;
        FORM("vec", ({ Bytes r = pbkdf2(P.data(), P.size(), S.data(), S.size(), c, nb * hl, prf); "ok " + hx(r.data() + (nb - k) * hl, k * hl); }));
        FORM("buf", ({ Bytes r(nb * hl); bool ok = pbkdf2(prf, P.data(), P.size(), S.data(), S.size(), c, r.data(), r.size()); ok ? "ok " + hx(r.data() + (nb - k) * hl, k * hl) : std::string("false"); }));
        return agree_guarded(fs);
    }
    if (op == "pbkdf2" || op == "pepper") {
        bool pep = op == "pepper";
        Pbkdf2Hash prf = a[1] == "sha1" ? Pbkdf2Hash::Sha1 : a[1] == "sha256" ? Pbkdf2Hash::Sha256 : a[1] == "sha512" ? Pbkdf2Hash::Sha512 : static_cast<Pbkdf2Hash>(atoi(a[1].c_str() + 1));
        Bytes P = bx(a[2]), S = bx(a[3]), PEP = pep ? bx(a[4]) : Bytes();
        uint32_t c = (uint32_t)strtoul(a[pep ? 5 : 4].c_str(), 0, 10); size_t dk = (size_t)strtoull(a[pep ? 6 : 5].c_str(), 0, 10);
        secure_buffer<uint8_t> sP(P.size()), sS(S.size()), sPEP(PEP.size());
        if (!P.empty()) memcpy(sP.data(), P.data(), P.size()); if (!S.empty()) memcpy(sS.data(), S.data(), S.size());
        if (!PEP.empty()) memcpy(sPEP.data(), PEP.data(), PEP.size());
        std::vector<std::pair<std::string, Thunk> > fs;
        if (pep) {
            FORM("ptr", "ok " + hx(pbkdf2_with_pepper(P.data(), P.size(), S.data(), S.size(), PEP.data(), PEP.size(), c, dk, prf)));
            if (P.empty() || PEP.empty()) {
                FORM("ptr-null-empties", "ok " + hx(pbkdf2_with_pepper(pn(P), P.size(), S.data(), S.size(), pn(PEP), PEP.size(), c, dk, prf)));
                FORM("ptr-valid-empties", "ok " + hx(pbkdf2_with_pepper(pv(P), P.size(), S.data(), S.size(), pv(PEP), PEP.size(), c, dk, prf)));
            }
            FORM("vec", "ok " + hx(pbkdf2_with_pepper(P, S, PEP, c, dk, prf)));
            FORM("vecchar", "ok " + hx(pbkdf2_with_pepper(chars_of(P), chars_of(S), chars_of(PEP), c, dk, prf)));
            FORM("str", "ok " + hx(pbkdf2_with_pepper(str_of(P), str_of(S), str_of(PEP), c, dk, prf)));
            FORM("secure", "ok " + hx(pbkdf2_with_pepper(sP, sS, sPEP, c, dk, prf)));
            if (prf == Pbkdf2Hash::Sha256) { FORM("ptr-default-prf", "ok " + hx(pbkdf2_with_pepper(P.data(), P.size(), S.data(), S.size(), PEP.data(), PEP.size(), c, dk)));
                                             FORM("vec-default-prf", "ok " + hx(pbkdf2_with_pepper(P, S, PEP, c, dk))); FORM("secure-default-prf", "ok " + hx(pbkdf2_with_pepper(sP, sS, sPEP, c, dk))); }
        } else {
            FORM("ptr", "ok " + hx(pbkdf2(P.data(), P.size(), S.data(), S.size(), c, dk, prf)));
            FORM("ptr-misaligned", ({ Misaligned mp(P, 0), ms(S, 4); "ok " + hx(pbkdf2(mp.p, P.size(), ms.p, S.size(), c, dk, prf)); }));
            if (P.empty()) {
                FORM("ptr-null-password", "ok " + hx(pbkdf2(pn(P), 0, S.data(), S.size(), c, dk, prf)));
                FORM("ptr-valid-password", "ok " + hx(pbkdf2(pv(P), 0, S.data(), S.size(), c, dk, prf)));
            }
            FORM("vec", "ok " + hx(pbkdf2(P, S, c, dk, prf)));
            FORM("vecchar", "ok " + hx(pbkdf2(chars_of(P), chars_of(S), c, dk, prf)));
            FORM("str", "ok " + hx(pbkdf2(str_of(P), str_of(S), c, dk, prf)));
            FORM("secure", "ok " + hx(pbkdf2(sP, sS, c, dk, prf)));
            if (prf == Pbkdf2Hash::Sha256) { FORM("ptr-default-prf", "ok " + hx(pbkdf2(P.data(), P.size(), S.data(), S.size(), c, dk))); FORM("vec-default-prf", "ok " + hx(pbkdf2(P, S, c, dk)));
                                             FORM("secure-default-prf", "ok " + hx(pbkdf2(sP, sS, c, dk))); FORM("str-default-prf", "ok " + hx(pbkdf2(str_of(P), str_of(S), c, dk))); }
            FORM("locked", ({ auto r = pbkdf2_secure(P.data(), P.size(), S.data(), S.size(), c, dk, prf); "ok " + hx(r.data(), r.size()); }));
            if (dk <= (1u << 20)) {   // stored-parameter forms: key.size() carries dk_len; salt and iters must be copied through
                FORM("params-vec", ({ Pbkdf2Result prm; prm.salt = S; prm.iters = c; prm.key.assign(dk, 0xAA); Pbkdf2Result r = pbkdf2(P, prm, prf);
                                      (r.salt == S && r.iters == c) ? "ok " + hx(r.key) : std::string("PARAMS-NOT-COPIED"); }));
                FORM("params-str", ({ Pbkdf2Result prm; prm.salt = S; prm.iters = c; prm.key.assign(dk, 0xAA); Pbkdf2Result r = pbkdf2(str_of(P), prm, prf);
                                      (r.salt == S && r.iters == c) ? "ok " + hx(r.key) : std::string("PARAMS-NOT-COPIED"); }));
                FORM("params-secure", ({ Pbkdf2Result prm; prm.salt = S; prm.iters = c; prm.key.assign(dk, 0xAA); Pbkdf2Result r = pbkdf2(sP, prm, prf);
                                      (r.salt == S && r.iters == c) ? "ok " + hx(r.key) : std::string("PARAMS-NOT-COPIED"); }));
            }
        }
        return agree_guarded(fs);
    }
    if (op == "pbkdf2buf") {
        Pbkdf2Hash prf = a[1] == "sha1" ? Pbkdf2Hash::Sha1 : a[1] == "sha256" ? Pbkdf2Hash::Sha256 : a[1] == "sha512" ? Pbkdf2Hash::Sha512 : static_cast<Pbkdf2Hash>(atoi(a[1].c_str() + 1));
        Bytes P = bx(a[2]), S = bx(a[3]); uint32_t c = (uint32_t)strtoul(a[4].c_str(), 0, 10); size_t dk = (size_t)strtoull(a[5].c_str(), 0, 10);
        secure_buffer<uint8_t> sP(P.size()), sS(S.size());
        if (!P.empty()) memcpy(sP.data(), P.data(), P.size()); if (!S.empty()) memcpy(sS.data(), S.data(), S.size());
        size_t cap = dk <= (1u << 20) ? dk : 64;       // oversized dk_len is rejected before anything is written
        std::vector<std::pair<std::string, Thunk> > fs;
#define BUF(name, call) FORM(name, ({ Bytes out(cap + 16, 0xC5); bool ok = call; bool canary = true; for (size_t q = cap; q < cap + 16; ++q) canary = canary && out[q] == 0xC5; \
            if (!ok) for (size_t q = 0; q < cap; ++q) canary = canary && out[q] == 0xC5; \
            !canary ? std::string("CANARY-OVERWRITTEN") : ok ? "some " + hx(out.data(), cap) : std::string("none"); }))
        BUF("ptr", pbkdf2(prf, P.data(), P.size(), S.data(), S.size(), c, out.data(), dk));
        BUF("secure-ptr", pbkdf2(prf, sP, sS, c, out.data(), dk));
        if (a[1] == "sha256") {
            BUF("sha256-ptr", pbkdf2_hmac_sha256(P.data(), P.size(), S.data(), S.size(), c, out.data(), dk));
            BUF("sha256-secure", pbkdf2_hmac_sha256(sP, sS, c, out.data(), dk));
        }
#define ARR(N) if (dk == N) { \
            FORM("array-str", ({ std::array<uint8_t, N> o; o.fill(0xC5); pbkdf2(prf, str_of(P), str_of(S), c, o) ? "some " + hx(o.data(), N) : std::string("none"); })); \
            FORM("array-secure", ({ std::array<uint8_t, N> o; o.fill(0xC5); pbkdf2(prf, sP, sS, c, o) ? "some " + hx(o.data(), N) : std::string("none"); })); \
            if (a[1] == "sha256") { \
              FORM("sha256-array-str", ({ std::array<uint8_t, N> o; o.fill(0xC5); pbkdf2_hmac_sha256(str_of(P), str_of(S), c, o) ? "some " + hx(o.data(), N) : std::string("none"); })); \
              FORM("sha256-array-secure", ({ std::array<uint8_t, N> o; o.fill(0xC5); pbkdf2_hmac_sha256(sP, sS, c, o) ? "some " + hx(o.data(), N) : std::string("none"); })); } }
        ARR(1) ARR(19) ARR(20) ARR(21) ARR(32) ARR(33) ARR(64) ARR(65) ARR(128)
        return agree_guarded(fs);
    }
    if (op == "hkdfx") {
        Bytes ikm = bx(a[1]); bool nul = a[2] == "null"; Bytes salt = nul ? Bytes() : bx(a[2]);
        const void* sp = nul ? (const void*)0 : (salt.empty() ? (const void*)"" : (const void*)salt.data());
        std::vector<std::pair<std::string, Thunk> > fs;
        FORM("ptr", hx(hkdf_extract_sha256(ikm.data(), ikm.size(), sp, salt.size())));
        FORM("ptr-secure", ({ auto r = hkdf_extract_sha256_secure(ikm.data(), ikm.size(), sp, salt.size()); hx(r.data(), r.size()); }));
        FORM("vec", hx(hkdf_extract_sha256(ikm, salt)));
        FORM("vec-secure", ({ auto r = hkdf_extract_sha256_secure(ikm, salt); hx(r.data(), r.size()); }));
        FORM("secure-secure", ({ secure_buffer<uint8_t> si(ikm.size()), ss(salt.size()); if (!ikm.empty()) memcpy(si.data(), ikm.data(), ikm.size());
                                 if (!salt.empty()) memcpy(ss.data(), salt.data(), salt.size()); auto r = hkdf_extract_sha256_secure(si, ss); hx(r.data(), r.size()); }));
        return agree_guarded(fs);
    }
    if (op == "hkdfe") {
        Bytes prk = bx(a[1]); bool nul = a[2] == "null"; Bytes info = nul ? Bytes() : bx(a[2]); size_t L = (size_t)strtoull(a[3].c_str(), 0, 10);
        const void* ip = nul ? (const void*)0 : (info.empty() ? (const void*)"" : (const void*)info.data());
        std::vector<std::pair<std::string, Thunk> > fs;
        FORM("ptr", "ok " + hx(hkdf_expand_sha256(prk.data(), prk.size(), ip, info.size(), L)));
        FORM("ptr-secure", ({ auto r = hkdf_expand_sha256_secure(prk.data(), prk.size(), ip, info.size(), L); "ok " + hx(r.data(), r.size()); }));
        if (!prk.empty()) {   // the vector forms pass data() of an empty vector (null) - same verdict expected, but only when prk is non-empty the pointer is valid
            FORM("vec", "ok " + hx(hkdf_expand_sha256(prk, info, L)));
            FORM("vec-secure", ({ auto r = hkdf_expand_sha256_secure(prk, info, L); "ok " + hx(r.data(), r.size()); }));
            FORM("secure-secure", ({ secure_buffer<uint8_t> sp2(prk.size()), si(info.size()); memcpy(sp2.data(), prk.data(), prk.size());
                                     if (!info.empty()) memcpy(si.data(), info.data(), info.size()); auto r = hkdf_expand_sha256_secure(sp2, si, L); "ok " + hx(r.data(), r.size()); }));
        }
        return agree_guarded(fs);
    }
    if (op == "hkdfkiv") {
        Bytes ikm = bx(a[1]); bool nul = a[2] == "null"; Bytes salt = nul ? Bytes() : bx(a[2]); std::string ctx = str_of(bx(a[3]));
        const void* sp = nul ? (const void*)0 : (salt.empty() ? (const void*)"" : (const void*)salt.data());
        std::vector<std::pair<std::string, Thunk> > fs;
        FORM("ptr", ({ KeyIv r = hkdf_key_iv_256(ikm.data(), ikm.size(), sp, salt.size(), ctx); "ok " + hx(r.key.data(), 32) + " " + hx(r.iv.data(), 12); }));
        FORM("vec", ({ KeyIv r = hkdf_key_iv_256(ikm, salt, ctx); "ok " + hx(r.key.data(), 32) + " " + hx(r.iv.data(), 12); }));
        FORM("secure", ({ secure_buffer<uint8_t> si(ikm.size()), ss(salt.size()); if (!ikm.empty()) memcpy(si.data(), ikm.data(), ikm.size());
                          if (!salt.empty()) memcpy(ss.data(), salt.data(), salt.size()); KeyIv r = hkdf_key_iv_256(si, ss, ctx); "ok " + hx(r.key.data(), 32) + " " + hx(r.iv.data(), 12); }));
        return agree_guarded(fs);
    }
    if (op == "tokgen") {
        TypeHash ty = type_of(a[1]); Bytes k = bx(a[2]); bool nofp = a[3] == "none"; std::string fp = nofp ? "" : str_of(bx(a[3])); int iv = atoi(a[4].c_str());
        set_clock(a[5], a[6], a[7]);
        secure_buffer<uint8_t> sk(k.size()); if (!k.empty()) memcpy(sk.data(), k.data(), k.size());
        std::vector<std::pair<std::string, Thunk> > fs;
        if (nofp) {
            FORM("vec", "ok " + hxs(generate_time_token(k, iv, ty)));
            FORM("secure", "ok " + hxs(generate_time_token(sk, iv, ty)));
            FORM("str", "ok " + hxs(generate_time_token(str_of(k), iv, ty)));
            if (ty == TypeHash::SHA256) { FORM("vec-default-hash", "ok " + hxs(generate_time_token(k, iv))); FORM("secure-default-hash", "ok " + hxs(generate_time_token(sk, iv))); FORM("str-default-hash", "ok " + hxs(generate_time_token(str_of(k), iv)));
                if (iv == 60) { FORM("vec-defaults", "ok " + hxs(generate_time_token(k))); FORM("secure-defaults", "ok " + hxs(generate_time_token(sk))); FORM("str-defaults", "ok " + hxs(generate_time_token(str_of(k)))); } }
        } else {
            FORM("vec", "ok " + hxs(generate_time_token(k, fp, iv, ty)));
            FORM("secure", "ok " + hxs(generate_time_token(sk, fp, iv, ty)));
            FORM("str", "ok " + hxs(generate_time_token(str_of(k), fp, iv, ty)));
            if (ty == TypeHash::SHA256) { FORM("vec-default-hash", "ok " + hxs(generate_time_token(k, fp, iv))); FORM("secure-default-hash", "ok " + hxs(generate_time_token(sk, fp, iv))); FORM("str-default-hash", "ok " + hxs(generate_time_token(str_of(k), fp, iv)));
                if (iv == 60) { FORM("vec-defaults", "ok " + hxs(generate_time_token(k, fp))); FORM("secure-defaults", "ok " + hxs(generate_time_token(sk, fp))); FORM("str-defaults", "ok " + hxs(generate_time_token(str_of(k), fp))); } }
        }
        return agree_guarded(fs);
    }
    if (op == "tokval") {
        TypeHash ty = type_of(a[1]); std::string tok = str_of(bx(a[2])); Bytes k = bx(a[3]); bool nofp = a[4] == "none"; std::string fp = nofp ? "" : str_of(bx(a[4]));
        int iv = atoi(a[5].c_str()); set_clock(a[6], a[7], a[8]);
        secure_buffer<uint8_t> sk(k.size()); if (!k.empty()) memcpy(sk.data(), k.data(), k.size());
        std::vector<std::pair<std::string, Thunk> > fs;
        if (nofp) {
            FORM("vec", ok_bool(is_token_valid(tok, k, iv, ty)));
            FORM("secure", ok_bool(is_token_valid(tok, sk, iv, ty)));
            FORM("str", ok_bool(is_token_valid(tok, str_of(k), iv, ty)));
            if (ty == TypeHash::SHA256) { FORM("vec-default-hash", ok_bool(is_token_valid(tok, k, iv))); FORM("secure-default-hash", ok_bool(is_token_valid(tok, sk, iv))); FORM("str-default-hash", ok_bool(is_token_valid(tok, str_of(k), iv)));
                if (iv == 60) { FORM("vec-defaults", ok_bool(is_token_valid(tok, k))); FORM("secure-defaults", ok_bool(is_token_valid(tok, sk))); FORM("str-defaults", ok_bool(is_token_valid(tok, str_of(k)))); } }
        } else {
            FORM("vec", ok_bool(is_token_valid(tok, k, fp, iv, ty)));
            FORM("secure", ok_bool(is_token_valid(tok, sk, fp, iv, ty)));
            FORM("str", ok_bool(is_token_valid(tok, str_of(k), fp, iv, ty)));
            if (ty == TypeHash::SHA256) { FORM("vec-default-hash", ok_bool(is_token_valid(tok, k, fp, iv))); FORM("secure-default-hash", ok_bool(is_token_valid(tok, sk, fp, iv))); FORM("str-default-hash", ok_bool(is_token_valid(tok, str_of(k), fp, iv)));
                if (iv == 60) { FORM("vec-defaults", ok_bool(is_token_valid(tok, k, fp))); FORM("secure-defaults", ok_bool(is_token_valid(tok, sk, fp))); FORM("str-defaults", ok_bool(is_token_valid(tok, str_of(k), fp))); } }
        }
        return agree_guarded(fs);
    }
    if (op == "tostring") { long long z = strtoll(a[1].c_str(), 0, 10); return hxs(std::to_string((time_t)z)); }
    if (op == "hmac") return hmac_forms(type_of(a[1]), bx(a[2]), bx(a[3]));
    if (op == "hmacstr") return hmacstr_forms(type_of(a[1]), bx(a[2]), bx(a[3]), a[4] == "1", a[5] == "1");
    if (op == "tohex") return hxs(to_hex(str_of(bx(a[2])), a[1] == "1"));
    if (op == "hmacovf") { Bytes k = bx(a[2]); uint8_t dummy = 0;
        return hx(get_hmac(k.data(), k.size(), &dummy, SIZE_MAX, type_of(a[1]))); }
    if (op == "hmachist") return hmachist(type_of(a[1]), std::vector<std::string>(a.begin() + 2, a.end()));
    if (op == "hexstr") { Bytes m = bx(a[2]); std::string s = str_of(m);
        return a[1] == "sha1" ? hmac_hash::sha1(s) : a[1] == "sha256" ? hmac_hash::sha256(s) : hmac_hash::sha512(s); }
    if (op == "cteq") {
        Bytes x = bx(a[1]), y = bx(a[2]);
        std::string sx = str_of(x), sy = str_of(y);
        Forms f;
        f.push_back(std::make_pair("ptr", bool_s(constant_time_equals(x.data(), x.size(), y.data(), y.size()))));
        f.push_back(std::make_pair("vec", bool_s(constant_time_equals(x, y))));
        f.push_back(std::make_pair("str", bool_s(constant_time_equals(sx, sy))));
        f.push_back(std::make_pair("ptr2", bool_s(constant_time_equal(x.data(), x.size(), y.data(), y.size()))));
        f.push_back(std::make_pair("vec2", bool_s(constant_time_equal(x, y))));
        f.push_back(std::make_pair("str2", bool_s(constant_time_equal(sx, sy))));
        // an empty input may arrive as (nullptr, 0) or as (valid pointer, 0): every combination is the same empty byte string
        static const uint8_t dummy[1] = {0};
        const uint8_t* xn = x.empty() ? (const uint8_t*)0 : x.data(); const uint8_t* yn = y.empty() ? (const uint8_t*)0 : y.data();
        const uint8_t* xv = x.empty() ? dummy : x.data();             const uint8_t* yv = y.empty() ? dummy : y.data();
        { Misaligned mx(x, 0), my(y, 2); f.push_back(std::make_pair("ptr-misaligned", bool_s(constant_time_equals(mx.p, x.size(), my.p, y.size())))); }
        f.push_back(std::make_pair("ptr-null-null", bool_s(constant_time_equals(xn, x.size(), yn, y.size()))));
        f.push_back(std::make_pair("ptr-null-valid", bool_s(constant_time_equals(xn, x.size(), yv, y.size()))));
        f.push_back(std::make_pair("ptr-valid-null", bool_s(constant_time_equals(xv, x.size(), yn, y.size()))));
        f.push_back(std::make_pair("ptr-valid-valid", bool_s(constant_time_equals(xv, x.size(), yv, y.size()))));
        // the same storage passed twice (a buffer against its own prefix): equal only if the lengths are equal
        if (y.size() <= x.size() && std::equal(y.begin(), y.end(), x.begin()))
            f.push_back(std::make_pair("ptr-aliased-prefix", bool_s(constant_time_equals(pv(x), x.size(), pv(x), y.size()))));
        { std::vector<uint8_t> xd, yr; if (!x.empty()) xd = x; if (y.empty()) yr.reserve(8); else yr = y;      // default-constructed vs reserved empty vectors
          f.push_back(std::make_pair("vec-default-reserved", bool_s(constant_time_equals(xd, yr)))); }
        return agree(f);
    }
    if (op == "cteqfill") {  // cteqfill <la> <fill a> <lb> <fill b>: two constant-filled inputs
        size_t la = (size_t)strtoull(a[1].c_str(), 0, 10), lb = (size_t)strtoull(a[3].c_str(), 0, 10);
        Bytes x(la, (uint8_t)atoi(a[2].c_str())), y(lb, (uint8_t)atoi(a[4].c_str()));
        bool r1 = constant_time_equals(x.data(), la, y.data(), lb), r2 = constant_time_equals(y, x); return r1 == r2 ? bool_s(r1) : "ORDER-DEPENDENT";
    }
    if (op == "cteqbig") {   // cteqbig <la> <lb>: two all-zero inputs of these lengths (zero pages; lengths beyond 2^32)
        size_t la = (size_t)strtoull(a[1].c_str(), 0, 10), lb = (size_t)strtoull(a[2].c_str(), 0, 10);
        uint8_t* za = (uint8_t*)calloc(la ? la : 1, 1); uint8_t* zb = (uint8_t*)calloc(lb ? lb : 1, 1); if (!za || !zb) return "HARNESS-no-memory";
        bool r1 = constant_time_equals(za, la, zb, lb), r2 = constant_time_equals(zb, lb, za, la); free(za); free(zb);
        return r1 == r2 ? bool_s(r1) : "ORDER-DEPENDENT";
    }
    if (op == "sha") return sha_forms(a[1], bx(a[2]));
    if (op == "shahist") {
        std::vector<std::string> ops(a.begin() + 2, a.end());
        if (a[1] == "sha1") return hist<X1, 20>(ops);
        if (a[1] == "sha256") return hist<X256, 32>(ops);
        return hist<X512, 64>(ops);
    }
    throw std::logic_error("unknown op " + op);
}

#ifndef DRV_NO_MAIN
int main(int argc, char** argv) {
    if (argc < 2) { fprintf(stderr, "usage: drv_pure <cases>\n"); return 2; }
    if (std::string(argv[1]) == "--platform") {
        printf("size_t=%zu time_t=%zu int=%zu max_pbkdf2_iterations=%u\n", sizeof(size_t), sizeof(time_t), sizeof(int), (unsigned)MAX_PBKDF2_ITERATIONS);
        g_at_exit_check.expect.clear();      // the shutdown check belongs to the runs over cases
        return 0;
    }
    std::ifstream in(argv[1]);
    std::string line;
    while (std::getline(in, line)) {
        std::vector<std::string> a = split(line, ' ');
        if (a.empty()) continue;
        std::string r = guarded([&]() { return run(a); });
        fputs(r.c_str(), stdout); fputc('\n', stdout); fflush(stdout);
    }
    return 0;
}
#endif
