// C11 driver: calls every public pointer-level entry point with arguments built from a DESCRIPTOR (null / non-null, lengths,
// ints, raw selector values, clock) and reports the verdict: accept / throw:<type> / false / terminate / crash:<signal>.
// Every case runs in a forked child so that std::terminate, aborts and crashes are observed instead of killing the harness.
#define HMACCPP_DEPRECATED(msg)
#include "drv_common.hpp"
#include "hmac_cpp/hmac.hpp"
#include "hmac_cpp/hmac_utils.hpp"
#include "hmac_cpp/encoding.hpp"
#include "hmac_cpp/secret_string.hpp"
#include <cerrno>
#include <ctime>
#include <csignal>
#include <sys/wait.h>
#include <unistd.h>
using namespace hmac_cpp;

static long long g_now = 0; static int g_errno = 0;
extern "C" time_t time(time_t* t) { if (g_errno) errno = g_errno; if (t) *t = (time_t)g_now; return (time_t)g_now; }

static uint8_t g_area[1 << 16];            // backing store for non-null pointers (lengths above its size are only used with arguments that must be rejected)
static const void* P(const std::string& nul) { return nul == "1" ? (const void*)0 : (const void*)g_area; }
static size_t Z(const std::string& s) { return (size_t)strtoull(s.c_str(), 0, 10); }
static int I(const std::string& s) { return (int)strtoll(s.c_str(), 0, 10); }
static TypeHash TH(const std::string& s) { return static_cast<TypeHash>(I(s)); }
static Pbkdf2Hash PH(const std::string& s) { return static_cast<Pbkdf2Hash>(I(s)); }

// two forms of one API: each is called on its own (a throw from the first must not hide the second) and the verdicts must agree
template <class F1, class F2> static std::string both(F1 f1, F2 f2) {
    std::string v1 = guarded([&]() { f1(); return std::string("accept"); });
    std::string v2 = guarded([&]() { f2(); return std::string("accept"); });
    return v1 == v2 ? v1 : "FORMS-DISAGREE:" + v1 + "/" + v2;
}

static std::string call(const std::vector<std::string>& a) {
    const std::string& f = a[1];
    if (f == "gethash") return both([&]() { get_hash(g_area, 3, TH(a[2])); }, [&]() { get_hash(std::string("abc"), TH(a[2])); });
    if (f == "gethmac") { get_hmac(P(a[2]), Z(a[3]), P(a[4]), Z(a[5]), TH(a[6])); return "accept"; }
    if (f == "hmacinit") { HmacContext c(TH(a[4])); c.init(P(a[2]), Z(a[3])); return "accept"; }
    if (f == "hmacupdate") { HmacContext c(TH(a[4])); if (I(a[4]) >= 0 && I(a[4]) <= 2) c.init("k", 1); c.update(P(a[2]), Z(a[3])); return "accept"; }
    if (f == "hmacfinal") { HmacContext c(TH(a[4])); c.init("k", 1); uint8_t out[80]; c.final(a[2] == "1" ? (uint8_t*)0 : out, Z(a[3])); return "accept"; }
    if (f == "pbkdf2vec") { pbkdf2(P(a[2]), Z(a[3]), P(a[4]), Z(a[5]), (uint32_t)Z(a[6]), Z(a[7]), PH(a[8])); return "accept"; }
    if (f == "pbkdf2buf") {
        size_t dk = Z(a[8]); std::vector<uint8_t> out((dk <= (1u << 20) ? dk : 64) + 8, 0xC5);
        bool ok = pbkdf2(PH(a[9]), P(a[2]), Z(a[3]), P(a[4]), Z(a[5]), (uint32_t)Z(a[7]), a[6] == "1" ? (uint8_t*)0 : out.data(), dk);
        if (!ok) for (size_t i = 0; i < out.size(); ++i) if (out[i] != 0xC5) return "false-but-output-written";
        return ok ? "accept" : "false";
    }
    if (f == "pbkdf2sha256") {
        size_t dk = Z(a[8]); std::vector<uint8_t> out((dk <= (1u << 20) ? dk : 64) + 8, 0xC5);
        bool ok = pbkdf2_hmac_sha256(P(a[2]), Z(a[3]), P(a[4]), Z(a[5]), (uint32_t)Z(a[7]), a[6] == "1" ? (uint8_t*)0 : out.data(), dk);
        return ok ? "accept" : "false";
    }
    if (f == "pepper") { pbkdf2_with_pepper(P(a[2]), Z(a[3]), P(a[4]), Z(a[5]), P(a[6]), Z(a[7]), (uint32_t)Z(a[8]), Z(a[9]), PH(a[10])); return "accept"; }
    if (f == "hkdfx") return both([&]() { hkdf_extract_sha256(P(a[2]), Z(a[3]), P(a[4]), Z(a[5])); }, [&]() { hkdf_extract_sha256_secure(P(a[2]), Z(a[3]), P(a[4]), Z(a[5])); });
    if (f == "hkdfe") { hkdf_expand_sha256(P(a[2]), Z(a[3]), P(a[4]), Z(a[5]), Z(a[6])); return "accept"; }
    if (f == "hkdfes") { hkdf_expand_sha256_secure(P(a[2]), Z(a[3]), P(a[4]), Z(a[5]), Z(a[6])); return "accept"; }
    if (f == "hotp") { get_hotp_code(P(a[2]), Z(a[3]), 1, I(a[4]), TH(a[5])); return "accept"; }
    if (f == "totpat") { get_totp_code_at(P(a[2]), Z(a[3]), 59, I(a[4]), I(a[5]), TH(a[6])); return "accept"; }
    if (f == "totpvalidat") { is_totp_token_valid(1, P(a[2]), Z(a[3]), (uint64_t)59, I(a[4]), I(a[5]), TH(a[6])); return "accept"; }
    if (f == "totpvalidat_tok") { is_totp_token_valid(I(a[7]), P(a[2]), Z(a[3]), (uint64_t)59, I(a[4]), I(a[5]), TH(a[6])); return "accept"; }
    if (f == "totpvalidnow_tok") { g_now = strtoll(a[7].c_str(), 0, 10); g_errno = I(a[8]) ? 5 : 0; is_totp_token_valid(I(a[9]), P(a[2]), Z(a[3]), I(a[4]), I(a[5]), TH(a[6])); return "accept"; }
    if (f == "totpnow" || f == "totpvalidnow") {
        g_now = strtoll(a[7].c_str(), 0, 10); g_errno = I(a[8]) ? 5 : 0;
        if (f == "totpnow") get_totp_code(P(a[2]), Z(a[3]), I(a[4]), I(a[5]), TH(a[6]));
        else is_totp_token_valid(1, P(a[2]), Z(a[3]), I(a[4]), I(a[5]), TH(a[6]));
        return "accept";
    }
    if (f == "hotpdg") { std::vector<uint8_t> d(Z(a[2]), 0); if (!d.empty()) d.back() = (uint8_t)(0xA0 | I(a[3])); detail::hotp_from_digest(d, 6); return "accept"; }
    if (f == "tokgen" || f == "tokval" || f == "tokgenfp" || f == "tokvalfp") {
        g_now = strtoll(a[4].c_str(), 0, 10); g_errno = I(a[5]) ? 5 : 0;
        std::vector<uint8_t> key(3, 7);
        if (f == "tokgen") generate_time_token(key, I(a[2]), TH(a[3]));
        else if (f == "tokval") is_token_valid("00", key, I(a[2]), TH(a[3]));
        else if (f == "tokgenfp") generate_time_token(key, std::string("fp"), I(a[2]), TH(a[3]));
        else is_token_valid("00", key, std::string("fp"), I(a[2]), TH(a[3]));
        return "accept";
    }
    if (f == "secretset") { secret_string s; s.set((const uint8_t*)P(a[2]), Z(a[3])); return "accept"; }
    throw std::logic_error("unknown api " + f);
}

#ifdef VERIF_COV
extern "C" void __gcov_dump(void);
#endif
static void on_terminate() { const char m[] = "terminate\n"; (void)!write(3, m, sizeof m - 1); _exit(0); }

int main(int argc, char** argv) {
    if (argc < 2) return 2;
    if (std::string(argv[1]) == "--platform") { printf("size_t=%zu time_t=%zu int=%zu max_pbkdf2_iterations=%u\n", sizeof(size_t), sizeof(time_t), sizeof(int), (unsigned)MAX_PBKDF2_ITERATIONS); return 0; }
    std::ifstream in(argv[1]); std::string line;
    while (std::getline(in, line)) {
        std::vector<std::string> a = split(line, ' ');
        if (a.empty()) continue;
        int fd[2]; if (pipe(fd)) return 3;
        fflush(stdout);
        pid_t pid = fork();
        if (pid == 0) {
            close(fd[0]); dup2(fd[1], 3); alarm(300);
            std::set_terminate(on_terminate);
            errno = EINVAL;          // stale errno on entry must not matter
            std::string r = guarded([&]() { return call(a); });
            r += "\n"; (void)!write(3, r.c_str(), r.size());
#ifdef VERIF_COV
            __gcov_dump();      // coverage diagnostic builds only (bin/coverage): children leave through _exit
#endif
            _exit(0);
        }
        close(fd[1]);
        std::string out; char buf[256]; ssize_t n;
        while ((n = read(fd[0], buf, sizeof buf)) > 0) out.append(buf, (size_t)n);
        close(fd[0]);
        int st = 0; waitpid(pid, &st, 0);
        if (WIFSIGNALED(st)) { char b[64]; snprintf(b, sizeof b, "crash:signal%d", WTERMSIG(st)); out = std::string(b) + "\n"; }
        else if (out.empty()) out = "no-output\n";
        fputs(out.c_str(), stdout);
    }
    return 0;
}
