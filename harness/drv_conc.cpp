// C19 driver: the pure-function and object-history cases of drv_pure executed CONCURRENTLY: 16 threads, started together behind a
// barrier, each running its own slice of the case file (in a per-thread shuffled order) on its own objects; results are printed in
// file order and must equal what each case returns when run alone. Extra ops exercise secret_string (including the first use of
// the process-wide key, which happens concurrently right after the barrier). Built plain (-O2) and with -fsanitize=thread.
#define DRV_NO_MAIN
#include "drv_pure.cpp"
#include <thread>
#include <mutex>
#include <condition_variable>
#include <atomic>

// secret strings handed from the thread that created them to ANOTHER thread (never used by two threads at once): the process-wide key is one
// key for all threads, so the receiver reveals exactly what the creator stored
struct Parcel { secret_string* s; Bytes plain; std::thread::id maker; };
static std::mutex g_mail_mu; static std::vector<Parcel> g_mail;
static bool parcel_ok(Parcel& pc) {
    bool ok = true;
    try { ok = pc.s->reveal_copy() == str_of(pc.plain); pc.s->rotate_nonce(); ok = ok && pc.s->reveal_copy() == str_of(pc.plain); }
    catch (...) { ok = false; }
    delete pc.s; pc.s = 0; return ok;
}
static std::string run_conc(const std::vector<std::string>& a) {
    if (a[0] == "sshandoff") {   // sshandoff <plaintext>: deposit an own object, take over one made by another thread
        Parcel mine; mine.plain = bx(a[1]); mine.s = new secret_string(mine.plain.data(), mine.plain.size()); mine.maker = std::this_thread::get_id();
        Parcel got; got.s = 0;
        { std::lock_guard<std::mutex> lk(g_mail_mu);
          for (size_t i = 0; i < g_mail.size(); ++i) if (g_mail[i].maker != mine.maker) { got = g_mail[i]; g_mail.erase(g_mail.begin() + i); break; }
          g_mail.push_back(mine); }
        if (got.s && !parcel_ok(got)) return "HANDOFF-MISMATCH a secret string made by another thread does not reveal its bytes here";
        return "handoff-ok";
    }
    if (a[0] == "ssconc") {      // ssconc <plaintext>: set / reveal / rotate / reveal / move / reveal on this thread's own objects
        Bytes p = bx(a[1]); std::string out;
        secret_string s(p.data(), p.size());
        out += hxs(s.reveal_copy()); s.rotate_nonce(); out += "," + hxs(s.reveal_copy());
        secret_string t(std::move(s)); out += "," + hxs(t.reveal_copy()) + "," + hxs(s.reveal_copy());
        t.set(p.data(), p.size() / 2); out += "," + hxs(t.reveal_copy());
        return out;
    }
    if (a[0] == "sbconc") {      // sbconc <data>: secure_buffer copy / move / resize / clear on this thread's own buffers
        Bytes d = bx(a[1]); secure_buffer<uint8_t, true> x(d.size()); if (!d.empty()) memcpy(x.data(), d.data(), d.size());
        secure_buffer<uint8_t, true> y(x); y.resize(d.size() * 2 + 1); secure_buffer<uint8_t, true> z; z = std::move(y); x.clear();
        return hx(z.data(), z.size()) + "," + hx(x.data(), x.size());
    }
    return run(a);
}

int main(int argc, char** argv) {
    if (argc < 2) return 2;
    if (std::string(argv[1]) == "--platform") { printf("size_t=%zu time_t=%zu int=%zu max_pbkdf2_iterations=%u\n", sizeof(size_t), sizeof(time_t), sizeof(int), (unsigned)MAX_PBKDF2_ITERATIONS); return 0; }
    const int NT = argc > 2 ? atoi(argv[2]) : 16;
    std::vector<std::string> lines; { std::ifstream in(argv[1]); std::string l; while (std::getline(in, l)) if (!l.empty()) lines.push_back(l); }
    std::vector<std::string> results(lines.size());
    std::mutex mu; std::condition_variable cv; int ready = 0; bool go = false;
    std::vector<std::thread> th;
    for (int t = 0; t < NT; ++t) th.push_back(std::thread([&, t]() {
        std::vector<size_t> mine; for (size_t i = (size_t)t; i < lines.size(); i += (size_t)NT) mine.push_back(i);
        unsigned seed = 12345u + (unsigned)t * 7919u;     // per-thread order
        for (size_t i = mine.size(); i > 1; --i) { seed = seed * 1103515245u + 12345u; std::swap(mine[i - 1], mine[(seed >> 8) % i]); }
        { std::unique_lock<std::mutex> lk(mu); if (++ready == NT) { go = true; cv.notify_all(); } else cv.wait(lk, [&] { return go; }); }
        for (size_t k = 0; k < mine.size(); ++k) {
            std::vector<std::string> a = split(lines[mine[k]], ' ');
            results[mine[k]] = guarded([&]() { return run_conc(a); });
        }
    }));
    for (size_t t = 0; t < th.size(); ++t) th[t].join();
    // what is left in the mailbox was made by worker threads: the main thread takes it over
    { bool all_ok = true; for (size_t i = 0; i < g_mail.size(); ++i) if (!parcel_ok(g_mail[i])) all_ok = false;
      if (!all_ok) for (size_t i = results.size(); i-- > 0;) if (lines[i].compare(0, 9, "sshandoff") == 0) { results[i] = "HANDOFF-MISMATCH a secret string made by a worker thread does not reveal its bytes on the main thread"; break; } }
    for (size_t i = 0; i < results.size(); ++i) { fputs(results[i].c_str(), stdout); fputc('\n', stdout); }
    return 0;
}
