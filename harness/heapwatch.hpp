// heapwatch: global operator new/delete replacement used by the runtime-observation drivers (C16, C17, C18, C20).
//  * every new block is filled with POISON (0xCD) so that "never written" can be told from "written";
//  * while a watch region is open every block handed to operator delete is scanned BEFORE it is released, either for any
//    byte that is neither POISON nor 0 (mode CLEAN: a zeroizing container must only release such bytes) or for 8-byte windows
//    of registered needles (mode NEEDLES: secrets and derived values);
//  * the k-th allocation inside a watch region can be made to fail (std::bad_alloc);
//  * live blocks are counted, so a region can report leaks.
// No allocation happens inside the hooks.
#pragma once
#include <cstdint>
#include <cstdlib>
#include <cstring>
#include <new>
#include <vector>
#include <string>

namespace hw {
static const unsigned char POISON = 0xCD;
static const size_t HDR = 32;                 // keeps 16/32-byte alignment
static const uint64_t MAGIC = 0x48454150574154ULL;
struct Needle { const unsigned char* p; size_t n; int id; };
static bool g_watch = false;
static int g_mode = 0;                        // 0 = CLEAN, 1 = NEEDLES
static Needle g_needles[256]; static int g_nneedles = 0;
static long g_allocs = 0, g_frees = 0, g_dirty = 0, g_live = 0, g_fail_at = -1, g_alloc_in_region = 0;
static int g_dirty_ids[64]; static int g_ndirty_ids = 0;
static size_t g_dirty_sizes[64];

static inline bool window_interesting(const unsigned char* w, size_t k) {
    // a window is evidence only if it could not occur by accident: at least four different byte values, at most two zero bytes
    // (skips zero padding, 0x36/0x5c runs, and windows such as "1f 00 00 00 00 00 00 00", which is also the integer 31 in any header)
    size_t zeros = 0, distinct = 0; bool seen[256] = {false};
    for (size_t i = 0; i < k; ++i) { if (w[i] == 0) ++zeros; if (!seen[w[i]]) { seen[w[i]] = true; ++distinct; } }
    return distinct >= (k < 4 ? k : 4) && zeros <= 2;
}
static inline void note_dirty(int id, size_t sz) {
    ++g_dirty; if (g_ndirty_ids < 64) { g_dirty_ids[g_ndirty_ids] = id; g_dirty_sizes[g_ndirty_ids] = sz; ++g_ndirty_ids; }
}
static inline void scan(const unsigned char* b, size_t n) {
    if (g_mode == 0) {
        for (size_t i = 0; i < n; ++i) if (b[i] != 0 && b[i] != POISON) { note_dirty(-1, n); return; }
        return;
    }
    for (int k = 0; k < g_nneedles; ++k) {
        const Needle& nd = g_needles[k];
        size_t w = nd.n < 8 ? nd.n : 8;
        if (w < 4 || n < w) continue;
        for (size_t j = 0; j + w <= nd.n; ++j) {
            if (!window_interesting(nd.p + j, w)) continue;
            if (memmem(b, n, nd.p + j, w)) { note_dirty(nd.id, n); goto next_needle; }
        }
        next_needle:;
    }
}
static inline void* alloc(size_t size) {
    if (g_watch) { long k = g_alloc_in_region++; if (k == g_fail_at) throw std::bad_alloc(); }
    unsigned char* raw = (unsigned char*)malloc(size + HDR);
    if (!raw) throw std::bad_alloc();
    memcpy(raw, &size, sizeof size); memcpy(raw + 8, &MAGIC, 8);
    memset(raw + HDR, POISON, size);
    ++g_allocs; ++g_live;
    return raw + HDR;
}
static inline void release(void* p) {
    if (!p) return;
    unsigned char* raw = (unsigned char*)p - HDR;
    uint64_t m; memcpy(&m, raw + 8, 8);
    if (m != MAGIC) { free(p); return; }       // not ours (allocated before the hooks were live)
    size_t size; memcpy(&size, raw, sizeof size);
    if (g_watch) scan((const unsigned char*)p, size);
    ++g_frees; --g_live;
    memset(raw, 0xDD, size + HDR);
    free(raw);
}
struct Report { long allocs, frees, dirty, live_delta; std::vector<int> ids; std::vector<size_t> sizes; };
static long g_live_at_begin = 0, g_allocs_at_begin = 0, g_frees_at_begin = 0;
static inline void begin(int mode, long fail_at = -1) {
    g_mode = mode; g_dirty = 0; g_ndirty_ids = 0; g_fail_at = fail_at; g_alloc_in_region = 0;
    g_live_at_begin = g_live; g_allocs_at_begin = g_allocs; g_frees_at_begin = g_frees; g_watch = true;
}
static inline Report end() {
    g_watch = false; g_fail_at = -1;
    Report r; r.allocs = g_alloc_in_region; r.frees = g_frees - g_frees_at_begin; r.dirty = g_dirty; r.live_delta = g_live - g_live_at_begin;
    for (int i = 0; i < g_ndirty_ids; ++i) { r.ids.push_back(g_dirty_ids[i]); r.sizes.push_back(g_dirty_sizes[i]); }
    return r;
}
static inline void clear_needles() { g_nneedles = 0; }
static inline void add_needle(const unsigned char* p, size_t n, int id) { if (g_nneedles < 256) { g_needles[g_nneedles].p = p; g_needles[g_nneedles].n = n; g_needles[g_nneedles].id = id; ++g_nneedles; } }
} // namespace hw

void* operator new(size_t n) { return hw::alloc(n); }
void* operator new[](size_t n) { return hw::alloc(n); }
void* operator new(size_t n, const std::nothrow_t&) noexcept { try { return hw::alloc(n); } catch (...) { return 0; } }
void* operator new[](size_t n, const std::nothrow_t&) noexcept { try { return hw::alloc(n); } catch (...) { return 0; } }
void operator delete(void* p) noexcept { hw::release(p); }
void operator delete[](void* p) noexcept { hw::release(p); }
void operator delete(void* p, size_t) noexcept { hw::release(p); }
void operator delete[](void* p, size_t) noexcept { hw::release(p); }
