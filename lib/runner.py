"""Generic check flow (DESIGN.md section 5): proofs -> drivers -> correspondence -> failing-input search -> evidence."""
import importlib, json, os, random, shutil, sys, time
from collections import Counter
import core
from core import Case


def load_prop(pid):
    sys.path.insert(0, os.path.join(core.VERIF, "lib", "props"))
    return importlib.import_module(pid)


def spec_eval(model_exe, lines, rundir):
    return core.run_lines(model_exe, lines, rundir, "spec", shards=min(len(lines), core.NCPU), timeout=150) if lines else []


def run_check(pid, tier, seed, replay=None):
    t0 = time.monotonic()
    prop = load_prop(pid)
    rundir = os.path.join(core.CACHE, "run", "%s-%s-%d-%d" % (pid, tier, seed, os.getpid()))
    shutil.rmtree(rundir, ignore_errors=True)
    os.makedirs(rundir)
    problems = []      # (kind, text, payload) -> become violations
    notes = []

    # 1. proofs
    ok, log = core.ensure_coq()
    bad = core.grep_gate()
    pc = core.check_property_file(pid, rundir)
    if bad:
        problems.append(("proof", "forbidden construct in the Coq development: " + "; ".join(bad[:5]), None))
    if not pc["ok"] or pc["discharged"] != pc["obligations"]:
        problems.append(("proof", "proof obligations of Properties_%s.v no longer check (%d/%d): %s" %
                         (pid, pc["discharged"], pc["obligations"], pc["log"][-600:]), None))
    tie = None
    if getattr(prop, "SOURCE_TIE", None):
        tie = core.source_tie(rundir, prop.SOURCE_TIE)
        if not tie["ok"]:
            problems.append(("proof", "source tie: what lib/srcgen.py regenerated from /repo's sources is no longer proved equal to the specification objects "
                             "(coq_tie/Tie_Source.v: %s): %s" % (", ".join(tie["failed"]), tie["log"][-500:]), dict(key="source-tie " + ",".join(tie["failed"]))))
    chk = None
    if tier == "thorough" and not replay and pc["ok"]:
        chk = core.coqchk_property(pid)
        if not chk["ok"]:
            problems.append(("proof", "coqchk does not accept Properties_%s.vo and its dependencies without axioms (axioms: %s): %s" % (pid, chk["axioms"], chk["log"][-400:]), None))
    ok, mlog = core.ensure_model()
    if not ok:
        print("FRAMEWORK-ERROR: model extraction/build failed\n" + mlog[-2000:]); return 2
    model_exe = os.path.join(core.OCAML, "model_run")

    # 2-4. per build configuration: driver from /repo's working tree, correspondence, failing-input search, observations
    rng = random.Random(seed * 1000003 + sum(map(ord, pid)))
    cases = []
    corpus = os.path.join(core.VERIF, "corpus", pid + ".cases")
    if os.path.exists(corpus):
        for l in open(corpus):
            l = l.rstrip("\n")
            if l and not l.startswith("#"):
                parts = l.split(" || ")
                cases.append(Case(parts[0], "corpus", True, parts[1] if len(parts) > 1 else None))
    ncorpus = len(cases)
    configs = [core.PRIMARY]
    if replay:
        rp = json.load(open(replay))
        cases = [Case(c["case"], "replay", True, c.get("spec")) for c in rp.get("cases", [])]
        if not cases:
            print("replay file names no concrete case (%s)" % rp.get("note", "")); 
        allc = [core.PRIMARY, core.CONFIG_BZERO] + core.MATRIX_PURE + core.MATRIX_ZEROING
        configs = [c for c in allc if c["label"] == rp.get("config")][:1] or configs
    else:
        cases.extend(prop.gen(rng, tier))
        configs = configs + list(getattr(prop, "MATRIX_QUICK", []))
        if tier == "thorough":
            # more seeds of the same generators, then the build matrix
            seen = set(c.line for c in cases)
            for extra_seed in range(1, int(os.environ.get("VERIF_THOROUGH_SEEDS", "3")) + 1):
                r2 = random.Random((seed + 7919 * extra_seed) * 1000003 + sum(map(ord, pid)))
                for c in prop.gen(r2, tier):
                    if c.line not in seen:
                        seen.add(c.line); cases.append(c)
            configs = configs + [c for c in getattr(prop, "MATRIX", core.MATRIX_PURE) if c["label"] not in [x["label"] for x in configs]]
    lines = [c.line for c in cases]
    env = dict(os.environ); env.update(getattr(prop, "ENV", {}))
    derive = getattr(prop, "derive", None)
    searchf = getattr(prop, "search", None)
    extra = getattr(prop, "extra", None)
    keyf = getattr(prop, "key", lambda c, i, m: c.line[:200])
    extra_cov = {}
    pending = []       # (keystr, payload, concrete)
    total_mism = 0; total_evals = 0; cfg_report = []
    model_cache = None
    impl = model = []
    if len(configs) > 1:
        # build all configurations' drivers in parallel (each is cached under its own key)
        from concurrent.futures import ThreadPoolExecutor
        with ThreadPoolExecutor(max_workers=max(2, core.NCPU // 2)) as ex:
            list(ex.map(lambda cfg: core.ensure_driver(prop.DRIVER, getattr(prop, "DRIVER_FLAGS", ()), libs=getattr(prop, "DRIVER_LIBS", ()),
                                                       compiler=cfg["compiler"], opt=cfg["opt"], defs=cfg["defs"]), configs))
    for ci, cfg in enumerate(configs):
        tc = time.monotonic()
        drv, dlog = core.ensure_driver(prop.DRIVER, getattr(prop, "DRIVER_FLAGS", ()), libs=getattr(prop, "DRIVER_LIBS", ()),
                                       compiler=cfg["compiler"], opt=cfg["opt"], defs=cfg["defs"])
        if drv is None:
            print("BUILD-ERROR: /repo's working tree does not compile with the driver (%s):\n" % cfg["label"] + dlog[-3000:])
            rp = core.write_replay(pid, dict(kind="build", config=cfg["label"], log=dlog[-3000:], note="correspondence %s cannot be established: driver does not build" % pid))
            print("VIOLATION property=%s replay=%s no-failing-input-found" % (pid, rp))
            core.write_evidence(pid, tier, seed, dict(obligations=pc["obligations"], discharged=pc["discharged"],
                checker_cmd="coqc -Q coq HV coq/Properties_%s.v" % pid, trusted_base=core.TRUSTED_BASE,
                evaluations=0, distinct_nontrivial=0, rule="driver build failed", samples=[]), time.monotonic() - t0, 1)
            return 1
        rc, plat = core.sh([drv, "--platform"])
        if "size_t=8 time_t=8 int=4" not in plat:
            print("FRAMEWORK-ERROR: platform differs from what the theorems were instantiated at: " + plat); return 2

        c_impl = core.run_lines(drv, lines, rundir, "impl%d" % ci, env=env)
        if derive:
            # two-phase correspondence: the model is run with environment values (nonces, process key) read back from the implementation
            pairs = [derive(c, r) for c, r in zip(cases, c_impl)]
            c_impl = [p[1] for p in pairs]
            c_model = core.run_lines(model_exe, [p[0] for p in pairs], rundir, "model%d" % ci)
            for c, p in zip(cases, pairs):
                if len(p) > 2: c.spec = p[2]
        else:
            if model_cache is None:
                model_cache = core.run_lines(model_exe, lines, rundir, "model")
            c_model = model_cache
        if ci == 0:
            impl, model = c_impl, c_model
        total_evals += len(cases)

        # diff + failing-input search
        mism = [i for i in range(len(cases)) if c_impl[i] != c_model[i]]
        total_mism += len(mism)
        viol = []     # concrete: impl != spec
        nospec = []   # impl != model, no spec verdict separates them
        if mism:
            # the spec is evaluated on the smallest disagreeing cases only (specs are written for clarity, not speed)
            costf = getattr(prop, "spec_cost", lambda c: len(c.line))
            withspec = sorted([i for i in mism if cases[i].spec], key=lambda i: costf(cases[i]))[:25]
            specout = spec_eval(model_exe, [cases[i].spec for i in withspec], rundir)
            sp = dict(zip(withspec, specout))
            for i in mism:
                if i in sp:
                    if c_impl[i] != sp[i]:
                        viol.append((i, sp[i]))
                    else:
                        notes.append("model disagrees with spec and implementation on: " + cases[i].line[:200])
                        nospec.append(i)
                else:
                    nospec.append(i)
        # property-specific failing-input search for mismatches that have no spec-level verdict
        found = []
        if searchf and nospec and not viol:
            found = searchf(dict(rundir=rundir, drv=drv, model_exe=model_exe, cases=cases, impl=c_impl, model=c_model, idx=nospec)) or []
        for i, spv in viol:
            pending.append((keyf(cases[i], c_impl[i], c_model[i]), dict(kind="input", property=pid, config=cfg["label"],
                   cases=[dict(case=cases[i].line, spec=cases[i].spec)], implementation=c_impl[i], model=c_model[i], spec=spv,
                   note="implementation differs from the proved-correct spec on this input",
                   replay_cmd="bin/check %s --replay <this file>" % pid), True))
        for keystr, payload in found:
            payload = dict(payload); payload.setdefault("config", cfg["label"])
            pending.append((keystr, payload, True))
        if nospec and not viol and not found:
            i = nospec[0]
            pending.append((keyf(cases[i], c_impl[i], c_model[i]), dict(kind="correspondence", property=pid, config=cfg["label"],
                   cases=[dict(case=cases[j].line, spec=cases[j].spec) for j in nospec[:5]], implementation=c_impl[i], model=c_model[i],
                   note="correspondence %s (model vs implementation) no longer holds on these cases; no spec-level verdict separates them" % pid), False))
        # property-specific extra checks (runtime observations, invariants of outputs)
        if extra and not replay and (ci == 0 or getattr(prop, "EXTRA_PER_CONFIG", False)):
            ecov = {}
            for kind, text, payload in extra(dict(rundir=rundir, tier=tier, seed=seed, rng=rng, cases=cases, impl=c_impl, model=c_model, drv=drv,
                                                  model_exe=model_exe, extra_cov=ecov, config=cfg)):
                payload = dict(payload) if payload else None
                if payload is not None: payload.setdefault("config", cfg["label"])
                problems.append((kind, text, payload))
            if ci == 0: extra_cov.update(ecov)
            else: extra_cov.setdefault("per_config", {})[cfg["label"]] = ecov
        cfg_report.append(dict(config=cfg["label"], cases=len(cases), mismatches=len(mism), wall_s=round(time.monotonic() - tc, 1)))
        def _unknown():
            for keystr, payload, _ in pending:
                if not core.known_match(pid, keystr): return True
            for kind, text, payload in problems:
                if not core.known_match(pid, payload.get("key", text) if payload else text): return True
            return False
        if _unknown():
            break      # a violation was found; the remaining configurations add nothing to the verdict

    nviol = 0
    reported_known = set()
    def report(keystr, payload, concrete):
        nonlocal nviol
        k = core.known_match(pid, keystr)
        if k:
            if k["what"] not in reported_known:
                reported_known.add(k["what"])
                print("KNOWN-FINDING: property=%s %s" % (pid, k["what"]))
            return
        nviol += 1
        if nviol <= 3:
            rp = core.write_replay(pid, payload)
            print("VIOLATION property=%s replay=%s%s" % (pid, rp, "" if concrete else " no-failing-input-found"))

    for keystr, payload, concrete in pending:
        report(keystr, payload, concrete)
    for kind, text, payload in problems:
        concrete = bool(payload and payload.get("cases"))
        p = dict(kind=kind, property=pid, note=text)
        if payload: p.update(payload)
        report(payload.get("key", text) if payload else text, p, concrete)

    # 5. evidence
    cls = Counter(c.cls for c in cases if c.nontrivial)
    allcls = Counter(c.cls for c in cases)
    samples = []
    step = max(1, len(cases) // 6)
    for i in range(0, len(cases), step):
        samples.append(dict(case=cases[i].line[:300], implementation=impl[i][:160], model=model[i][:160]))
    cov = dict(obligations=pc["obligations"], discharged=pc["discharged"],
               checker_cmd="make -C coq (full .vo build) && coqc -Q coq HV coq/Properties_%s.v" % pid,
               trusted_base=core.TRUSTED_BASE, theorems=pc["theorems"], print_assumptions=pc["assumptions"],
               evaluations=total_evals, distinct_nontrivial=len(cls), configurations=cfg_report,
               rule=getattr(prop, "RULE", "") + " | distinct = different class tuple; corpus cases first (%d)" % ncorpus,
               class_histogram=dict(allcls.most_common(40)), samples=samples[:8],
               correspondence_mismatches=total_mism, repo_hash=core.repo_hash(), notes=notes[:10])
    cov.update(extra_cov)
    if tie: cov["source_tie"] = dict(translator="lib/srcgen.py (regenerated from /repo/src on this run)", generated_sha256=tie["gen_sha"], theorems=tie["theorems"],
                                     checked=tie["ok"], checker_cmd="coqc -Q coq HV -Q <run> GEN Gen_Source.v Tie_Source.v", print_assumptions=sorted(set(tie["assumptions"])))
    if chk: cov["coqchk"] = dict(cmd=chk["cmd"], accepted=chk["ok"], axioms=chk["axioms"], wall_s=chk["wall_s"])
    core.write_evidence(pid, tier, seed, cov, time.monotonic() - t0, nviol,
                        assumptions=getattr(prop, "ASSUMPTIONS", []))
    shutil.rmtree(rundir, ignore_errors=True)
    if nviol:
        return 1
    print("OK property=%s tier=%s seed=%d cases=%d configs=%d classes=%d obligations=%d/%d wall=%.1fs" %
          (pid, tier, seed, len(cases), len(cfg_report), len(cls), pc["discharged"], pc["obligations"], time.monotonic() - t0))
    return 0
