"""Generic check flow (DESIGN.md section 5): proofs -> drivers -> correspondence -> failing-input search -> evidence."""
import importlib, json, os, random, shutil, sys, time
from collections import Counter
import core
from core import Case


def load_prop(pid):
    sys.path.insert(0, os.path.join(core.VERIF, "lib", "props"))
    return importlib.import_module(pid)


def spec_eval(model_exe, lines, rundir):
    return core.run_lines(model_exe, lines, rundir, "spec", shards=min(len(lines), core.NCPU), timeout=150) if lines else []


def run_check(pid, tier, seed, replay=None):
    t0 = time.monotonic()
    prop = load_prop(pid)
    rundir = os.path.join(core.CACHE, "run", "%s-%s-%d-%d" % (pid, tier, seed, os.getpid()))
    shutil.rmtree(rundir, ignore_errors=True)
    os.makedirs(rundir)
    problems = []      # (kind, text, payload) -> become violations
    notes = []

    # 1. proofs
    ok, log = core.ensure_coq()
    bad = core.grep_gate()
    pc = core.check_property_file(pid, rundir)
    if bad:
        problems.append(("proof", "forbidden construct in the Coq development: " + "; ".join(bad[:5]), None))
    if not pc["ok"] or pc["discharged"] != pc["obligations"]:
        problems.append(("proof", "proof obligations of Properties_%s.v no longer check (%d/%d): %s" %
                         (pid, pc["discharged"], pc["obligations"], pc["log"][-600:]), None))
    ok, mlog = core.ensure_model()
    if not ok:
        print("FRAMEWORK-ERROR: model extraction/build failed\n" + mlog[-2000:]); return 2
    model_exe = os.path.join(core.OCAML, "model_run")

    # 2. driver from /repo's working tree
    drv, dlog = core.ensure_driver(prop.DRIVER, getattr(prop, "DRIVER_FLAGS", ()), libs=getattr(prop, "DRIVER_LIBS", ()))
    if drv is None:
        print("BUILD-ERROR: /repo's working tree does not compile with the driver:\n" + dlog[-3000:])
        rp = core.write_replay(pid, dict(kind="build", log=dlog[-3000:], note="correspondence %s cannot be established: driver does not build" % pid))
        print("VIOLATION property=%s replay=%s no-failing-input-found" % (pid, rp))
        core.write_evidence(pid, tier, seed, dict(obligations=pc["obligations"], discharged=pc["discharged"],
            checker_cmd="coqc -Q coq HV coq/Properties_%s.v" % pid, trusted_base=core.TRUSTED_BASE,
            evaluations=0, distinct_nontrivial=0, rule="driver build failed", samples=[]), time.monotonic() - t0, 1)
        return 1
    rc, plat = core.sh([drv, "--platform"])
    if "size_t=8 time_t=8 int=4" not in plat:
        print("FRAMEWORK-ERROR: platform differs from what the theorems were instantiated at: " + plat); return 2

    # 3. cases: regression corpus first, then generated
    rng = random.Random(seed * 1000003 + sum(map(ord, pid)))
    cases = []
    corpus = os.path.join(core.VERIF, "corpus", pid + ".cases")
    if os.path.exists(corpus):
        for l in open(corpus):
            l = l.rstrip("\n")
            if l and not l.startswith("#"):
                parts = l.split(" || ")
                cases.append(Case(parts[0], "corpus", True, parts[1] if len(parts) > 1 else None))
    ncorpus = len(cases)
    if replay:
        rp = json.load(open(replay))
        cases = [Case(c["case"], "replay", True, c.get("spec")) for c in rp.get("cases", [])]
        if not cases:
            print("replay file names no concrete case (%s)" % rp.get("note", "")); 
    else:
        cases.extend(prop.gen(rng, tier))
    lines = [c.line for c in cases]
    env = dict(os.environ); env.update(getattr(prop, "ENV", {}))
    impl = core.run_lines(drv, lines, rundir, "impl", env=env)
    derive = getattr(prop, "derive", None)
    if derive:
        # two-phase correspondence: the model is run with environment values (nonces, process key) read back from the implementation
        raw = impl; pairs = [derive(c, r) for c, r in zip(cases, raw)]
        impl = [p[1] for p in pairs]
        model = core.run_lines(model_exe, [p[0] for p in pairs], rundir, "model")
        for c, p in zip(cases, pairs):
            if c.spec is None and len(p) > 2: c.spec = p[2]
    else:
        model = core.run_lines(model_exe, lines, rundir, "model")

    # 4. diff + failing-input search
    mism = [i for i in range(len(cases)) if impl[i] != model[i]]
    viol = []     # concrete: impl != spec
    nospec = []   # impl != model, no spec verdict separates them
    if mism:
        # the spec is evaluated on the smallest disagreeing cases only (specs are written for clarity, not speed)
        costf = getattr(prop, "spec_cost", lambda c: len(c.line))
        withspec = sorted([i for i in mism if cases[i].spec], key=lambda i: costf(cases[i]))[:25]
        specout = spec_eval(model_exe, [cases[i].spec for i in withspec], rundir)
        sp = dict(zip(withspec, specout))
        for i in mism:
            if i in sp:
                if impl[i] != sp[i]:
                    viol.append((i, sp[i]))
                else:
                    notes.append("model disagrees with spec and implementation on: " + cases[i].line[:200])
                    nospec.append(i)
            else:
                nospec.append(i)
    # property-specific failing-input search for mismatches that have no spec-level verdict
    searchf = getattr(prop, "search", None)
    found = []
    if searchf and nospec and not viol:
        found = searchf(dict(rundir=rundir, drv=drv, model_exe=model_exe, cases=cases, impl=impl, model=model, idx=nospec)) or []
    # property-specific extra checks (runtime observations, invariants of outputs)
    extra = getattr(prop, "extra", None)
    extra_cov = {}
    if extra and not replay:
        for kind, text, payload in extra(dict(rundir=rundir, tier=tier, seed=seed, rng=rng, cases=cases, impl=impl, model=model, drv=drv, model_exe=model_exe, extra_cov=extra_cov)):
            problems.append((kind, text, payload))

    nviol = 0
    reported_known = set()
    def report(keystr, payload, concrete):
        nonlocal nviol
        k = core.known_match(pid, keystr)
        if k:
            if k["what"] not in reported_known:
                reported_known.add(k["what"])
                print("KNOWN-FINDING: property=%s %s" % (pid, k["what"]))
            return
        nviol += 1
        if nviol <= 3:
            rp = core.write_replay(pid, payload)
            print("VIOLATION property=%s replay=%s%s" % (pid, rp, "" if concrete else " no-failing-input-found"))

    keyf = getattr(prop, "key", lambda c, i, m: c.line[:200])
    for i, spv in viol:
        report(keyf(cases[i], impl[i], model[i]), dict(kind="input", property=pid,
               cases=[dict(case=cases[i].line, spec=cases[i].spec)], implementation=impl[i], model=model[i], spec=spv,
               build=" ".join(core.BASE_FLAGS), note="implementation differs from the proved-correct spec on this input",
               replay_cmd="bin/check %s --replay <this file>" % pid), True)
    for keystr, payload in found:
        report(keystr, payload, True)
    if nospec and not viol and not found:
        i = nospec[0]
        report(keyf(cases[i], impl[i], model[i]), dict(kind="correspondence", property=pid,
               cases=[dict(case=cases[j].line, spec=cases[j].spec) for j in nospec[:5]], implementation=impl[i], model=model[i],
               note="correspondence %s (model vs implementation) no longer holds on these cases; no spec-level verdict separates them" % pid), False)
    for kind, text, payload in problems:
        concrete = bool(payload and payload.get("cases"))
        p = dict(kind=kind, property=pid, note=text)
        if payload: p.update(payload)
        report(payload.get("key", text) if payload else text, p, concrete)

    # 5. evidence
    cls = Counter(c.cls for c in cases if c.nontrivial)
    allcls = Counter(c.cls for c in cases)
    samples = []
    step = max(1, len(cases) // 6)
    for i in range(0, len(cases), step):
        samples.append(dict(case=cases[i].line[:300], implementation=impl[i][:160], model=model[i][:160]))
    cov = dict(obligations=pc["obligations"], discharged=pc["discharged"],
               checker_cmd="make -C coq (full .vo build) && coqc -Q coq HV coq/Properties_%s.v" % pid,
               trusted_base=core.TRUSTED_BASE, theorems=pc["theorems"], print_assumptions=pc["assumptions"],
               evaluations=len(cases), distinct_nontrivial=len(cls),
               rule=getattr(prop, "RULE", "") + " | distinct = different class tuple; corpus cases first (%d)" % ncorpus,
               class_histogram=dict(allcls.most_common(40)), samples=samples[:8],
               correspondence_mismatches=len(mism), repo_hash=core.repo_hash(), notes=notes[:10])
    cov.update(extra_cov)
    core.write_evidence(pid, tier, seed, cov, time.monotonic() - t0, nviol,
                        assumptions=getattr(prop, "ASSUMPTIONS", []))
    shutil.rmtree(rundir, ignore_errors=True)
    if nviol:
        return 1
    print("OK property=%s tier=%s seed=%d cases=%d classes=%d obligations=%d/%d wall=%.1fs" %
          (pid, tier, seed, len(cases), len(cls), pc["discharged"], pc["obligations"], time.monotonic() - t0))
    return 0
