"""srcgen: a small C-expression -> Gallina translator for the leaf code of the SHA-2 transforms.

It READS /repo's current sources on every run (src/sha256.cpp, src/sha512.cpp, src/sha1.cpp, src/encoding.cpp) and writes
Gen_Source.v: the round-constant tables, the initial hash values, the word macros (SHA2_SHFR/ROTR/CH/MAJ, SHAxxx_F1..F4), the
message-schedule assignment `w[j] = ...` and the whole body of the round loop (t1, t2 and the eight `wv[..] = ..` assignments,
in program order, as sequential array updates), plus the codec alphabets.  coq_tie/Tie_Source.v (hand-written, fixed) then proves
that what was generated IS the FIPS 180-4 object the models and theorems are about (K256, IV256, BigSigma, SmallSigma, Ch, Maj,
sha2_round, the schedule recurrence; the RFC 4648 alphabets).

Typing convention of the translation (trusted, stated in DESIGN.md section 4): every arithmetic expression is evaluated at the word
type of the translation unit (W = 32 for sha256.cpp, 64 for sha512.cpp): `+` wraps mod 2^W, `<<` and `~` are truncated to W bits,
`>>` `&` `|` `^` are exact, `sizeof(x)` is W/8, `-` is natural-number subtraction (it only occurs in index expressions j - c with
j >= 16 and in the rotation amount (sizeof(x) << 3) - n with n < W), `a[e]` is `nth e a 0`.
Anything outside this fragment makes the translator FAIL (reported as a broken tie), never silently skip."""
import re, os


class TranslateError(Exception):
    pass


TOK = re.compile(r"\s*(0[xX][0-9a-fA-F]+|\d+|[A-Za-z_]\w*|<<|>>|[()\[\],|^&~+\-<%/*])")


def tokenize(s):
    s = s.strip()
    out, pos = [], 0
    while pos < len(s):
        m = TOK.match(s, pos)
        if not m:
            if s[pos:].strip() == "": break
            raise TranslateError("cannot tokenize %r at %r" % (s, s[pos:pos + 20]))
        t = m.group(1); pos = m.end()
        out.append(t)
    # integer suffixes: 0x..ULL is tokenized as number followed by identifier ULL / UL / U
    res = []
    for t in out:
        if res and re.match(r"^(0[xX][0-9a-fA-F]+|\d+)$", res[-1]) and re.match(r"^[uUlL]+$", t):
            continue
        res.append(t)
    return res


class Parser:
    """precedence: |  <  ^  <  &  <  << >>  <  + -  <  unary ~  <  postfix [] ()"""
    def __init__(self, toks, env):
        self.t, self.i, self.env = toks, 0, env       # env: identifier -> Gallina text

    def peek(self): return self.t[self.i] if self.i < len(self.t) else None
    def eat(self, x=None):
        t = self.peek()
        if t is None or (x is not None and t != x): raise TranslateError("expected %r, got %r in %r" % (x, t, self.t))
        self.i += 1; return t

    def parse(self):
        e = self.p_or()
        if self.peek() is not None: raise TranslateError("trailing tokens %r" % self.t[self.i:])
        return e

    def binl(self, sub, ops):
        e = sub()
        while self.peek() in ops:
            op = self.eat(); r = sub(); e = ops[op](e, r)
        return e

    def p_or(self):  return self.binl(self.p_xor, {"|": lambda a, b: "(N.lor %s %s)" % (a, b)})
    def p_xor(self): return self.binl(self.p_and, {"^": lambda a, b: "(N.lxor %s %s)" % (a, b)})
    def p_and(self): return self.binl(self.p_rel, {"&": lambda a, b: "(N.land %s %s)" % (a, b)})
    def p_rel(self): return self.binl(self.p_sh, {"<": lambda a, b: "(if %s <? %s then 1 else 0)" % (a, b)})
    def p_sh(self):  return self.binl(self.p_add, {">>": lambda a, b: "(N.shiftr %s %s)" % (a, b),
                                                    "<<": lambda a, b: "(N.land (N.shiftl %s %s) (wmask W))" % (a, b)})
    def p_mul(self): return self.binl(self.p_un, {"%": lambda a, b: "(%s mod %s)" % (a, b), "/": lambda a, b: "(%s / %s)" % (a, b),
                                                   "*": lambda a, b: "((%s * %s) mod 2 ^ W)" % (a, b)})
    def p_add(self): return self.binl(self.p_mul, {"+": lambda a, b: "(wadd W %s %s)" % (a, b), "-": lambda a, b: "(%s - %s)" % (a, b)})

    def p_un(self):
        if self.peek() == "~":
            self.eat(); return "(wnot W %s)" % self.p_un()
        return self.p_post()

    def p_post(self):
        t = self.eat()
        if t == "(":
            e = self.p_or(); self.eat(")")
        elif re.match(r"^0[xX]", t): e = "0x" + t[2:].lower()
        elif t.isdigit(): e = str(int(t))
        elif t == "sizeof":
            self.eat("("); self.p_or(); self.eat(")"); e = "(W / 8)"
        elif re.match(r"^[A-Za-z_]\w*$", t):
            if self.peek() == "(":
                self.eat("("); args = []
                if self.peek() != ")":
                    args.append(self.p_or())
                    while self.peek() == ",": self.eat(); args.append(self.p_or())
                self.eat(")")
                e = "(src_%s W %s)" % (t, " ".join(args))
            else:
                if t not in self.env: raise TranslateError("unknown identifier %r" % t)
                e = self.env[t]
        else: raise TranslateError("unexpected token %r" % t)
        while self.peek() == "[":
            self.eat("["); ix = self.p_or(); self.eat("]")
            e = "(nth (N.to_nat %s) %s 0)" % (ix, e)
        return e


def expr(s, env): return Parser(tokenize(s), env).parse()


def strip_comments(txt):
    txt = re.sub(r"/\*.*?\*/", " ", txt, flags=re.S)
    return re.sub(r"//[^\n]*", " ", txt)


def macros(txt, names):
    out = []
    for n in names:
        m = re.search(r"^[ \t]*#define[ \t]+%s\(([^)]*)\)[ \t]+(.*)$" % re.escape(n), txt, flags=re.M)
        if not m: raise TranslateError("macro %s not found" % n)
        params = [p.strip() for p in m.group(1).split(",")]
        body = m.group(2).strip()
        if body.endswith("\\"): raise TranslateError("macro %s is multi-line" % n)
        env = dict((p, p + "_") for p in params)
        out.append("Definition src_%s (W %s : N) : N := %s." % (n, " ".join(p + "_" for p in params), expr(body, env)))
    return out


def table(txt, name):
    m = re.search(r"%s\s*\[\s*(\d+)\s*\]\s*=\s*\{(.*?)\}" % re.escape(name), txt, flags=re.S)
    if not m: raise TranslateError("table %s not found" % name)
    vals = [expr(v, {}) for v in m.group(2).split(",") if v.strip()]
    if len(vals) != int(m.group(1)): raise TranslateError("table %s: %d initialisers for %s entries" % (name, len(vals), m.group(1)))
    return vals


def func_body(txt, header_re):
    m = re.search(header_re, txt)
    if not m: raise TranslateError("function %s not found" % header_re)
    i = txt.index("{", m.end() - 1) if txt[m.end() - 1] != "{" else m.end() - 1
    depth, j = 0, i
    while True:
        if txt[j] == "{": depth += 1
        elif txt[j] == "}":
            depth -= 1
            if depth == 0: break
        j += 1
    return txt[i + 1:j]


def init_values(txt, cls, n):
    body = func_body(txt, r"void\s+%s::init\s*\(\s*\)\s*\{" % cls)
    vals = {}
    for m in re.finditer(r"m_h\s*\[\s*(\d+)\s*\]\s*=\s*([^;]+);", body):
        vals[int(m.group(1))] = expr(m.group(2), {})
    if sorted(vals) != list(range(n)): raise TranslateError("%s::init assigns m_h indices %s" % (cls, sorted(vals)))
    return [vals[i] for i in range(n)]


def loops(body):
    """[(header, inner text)] for every `for(...) { ... }` at any depth"""
    out = []
    for m in re.finditer(r"for\s*\(([^)]*)\)\s*\{", body):
        i = m.end() - 1; depth = 0; j = i
        while True:
            if body[j] == "{": depth += 1
            elif body[j] == "}":
                depth -= 1
                if depth == 0: break
            j += 1
        out.append((m.group(1), body[i + 1:j]))
    return out


def transform(txt, cls, tag, ktable):
    body = func_body(txt, r"void\s+%s::transform\s*\([^)]*\)\s*\{" % cls)
    ls = loops(body)
    env = {"w": "w", "wv": "wv", "j": "j", "t1": "t1", "t2": "t2", ktable: "src_" + ktable}
    out = []
    # message schedule: the loop `for(j = 16; j < R; ++j) { w[j] = ...; }`
    sched = [(h, b) for h, b in ls if re.match(r"\s*j\s*=\s*16\s*;", h)]
    if len(sched) != 1: raise TranslateError("%s: schedule loop not found" % cls)
    h, b = sched[0]
    mm = re.match(r"\s*j\s*=\s*16\s*;\s*j\s*<\s*(\d+)\s*;\s*\+\+j\s*$", h)
    if not mm: raise TranslateError("%s: schedule loop header %r" % (cls, h))
    rounds = int(mm.group(1))
    stm = [s.strip() for s in b.split(";") if s.strip()]
    if len(stm) != 1: raise TranslateError("%s: schedule loop body %r" % (cls, stm))
    m2 = re.match(r"^w\s*\[\s*j\s*\]\s*=(.*)$", stm[0], flags=re.S)
    if not m2: raise TranslateError("%s: schedule statement %r" % (cls, stm[0]))
    out.append("Definition src%s_rounds : N := %d." % (tag, rounds))
    out.append("Definition src%s_sched (W : N) (w : list N) (j : N) : N := %s." % (tag, expr(m2.group(1), env)))
    # round loop: the innermost loop that assigns t1
    rl = [(h, b) for h, b in ls if re.search(r"\bt1\s*=", b) and not re.search(r"for\s*\(", b)]
    if len(rl) != 1: raise TranslateError("%s: round loop not found" % cls)
    h, b = rl[0]
    mm = re.match(r"\s*j\s*=\s*0\s*;\s*j\s*<\s*(\d+)\s*;\s*\+\+j\s*$", h)
    if not mm or int(mm.group(1)) != rounds: raise TranslateError("%s: round loop header %r (schedule has %d words)" % (cls, h, rounds))
    lets = []
    for s in [s.strip() for s in b.split(";") if s.strip()]:
        m3 = re.match(r"^(t1|t2)\s*=(.*)$", s, flags=re.S)
        m4 = re.match(r"^wv\s*\[([^\]]*)\]\s*=(.*)$", s, flags=re.S)
        if m3: lets.append("let %s := %s in" % (m3.group(1), expr(m3.group(2), env)))
        elif m4: lets.append("let wv := upd wv (N.to_nat %s) %s in" % (expr(m4.group(1), env), expr(m4.group(2), env)))
        else: raise TranslateError("%s: statement outside the fragment in the round loop: %r" % (cls, s))
    out.append("Definition src%s_round (W : N) (wv w : list N) (j : N) : list N :=\n  let t1 := 0 in let t2 := 0 in\n  %s\n  wv." % (tag, "\n  ".join(lets)))
    # the feed-forward loop: m_h[j] += wv[j] and the load loop wv[j] = m_h[j]
    if not any(re.sub(r"\s", "", b) == "m_h[j]+=wv[j];" and re.sub(r"\s", "", h) == "j=0;j<8;++j" for h, b in ls):
        raise TranslateError("%s: feed-forward loop `m_h[j] += wv[j]` over 8 words not found" % cls)
    if not any(re.sub(r"\s", "", b) == "wv[j]=m_h[j];" and re.sub(r"\s", "", h) == "j=0;j<8;++j" for h, b in ls):
        raise TranslateError("%s: load loop `wv[j] = m_h[j]` over 8 words not found" % cls)
    return out


def sha1_macros(txt):
    """SHA1_ROL, the index / value of the in-place schedule update SHA1_BLK, and the five round macros (z += ...; w = ROL(w,30)) with the
    schedule word abstracted to `wi` (R0 reads block[i], R1..R4 use SHA1_BLK(i))."""
    out = ["Module S1."]
    out.extend(macros(txt, ["SHA1_ROL"]))
    m = re.search(r"^[ \t]*#define[ \t]+SHA1_BLK\(i\)[ \t]+\(\s*block\[([^\]]*)\]\s*=\s*(.*)\)\s*$", txt, flags=re.M)
    if not m: raise TranslateError("SHA1_BLK is not of the form (block[idx] = value)")
    env = {"i": "i_", "block": "block"}
    out.append("Definition src_SHA1_BLK_index (W i_ : N) : N := %s." % expr(m.group(1), env))
    out.append("Definition src_SHA1_BLK_value (W : N) (block : list N) (i_ : N) : N := %s." % expr(m.group(2), env))
    for r in range(5):
        m = re.search(r"^[ \t]*#define[ \t]+SHA1_R%d\(v,w,x,y,z,i\)[ \t]+z\s*\+=(.*?);\s*w\s*=(.*?);\s*$" % r, txt, flags=re.M)
        if not m: raise TranslateError("SHA1_R%d is not of the form `z += E; w = E';`" % r)
        e = m.group(1)
        word = r"block\[i\]" if r == 0 else r"SHA1_BLK\(i\)"
        if len(re.findall(word, e)) != 1: raise TranslateError("SHA1_R%d: schedule word %s not used exactly once" % (r, word))
        e = re.sub(word, "wi", e)
        env = dict((p, p + "_") for p in "vwxyz"); env["wi"] = "wi"
        out.append("Definition src_SHA1_R%d (W v_ w_ x_ y_ z_ wi : N) : N * N := ((wadd W z_ %s), %s)." % (r, expr(e, env), expr(m.group(2), env)))
    out.append("End S1.")
    return out


def finish_arith(repo, fn, hdr, cls, tag, blockname):
    """The size arithmetic of <cls>::finish (where defect F1 lived): block_nb, len_b, pm_len, with BLOCK_SIZE / DIGEST_SIZE read from the header.
    size_t and uint64_t are both 64-bit here (the drivers check the platform line): the unit's word type for these statements is W = 64."""
    txt = strip_comments(open(os.path.join(repo, "src", fn), errors="replace").read())
    h = strip_comments(open(os.path.join(repo, "include", "hmac_cpp", hdr), errors="replace").read())
    consts = {}
    for m in re.finditer(r"static\s+const\s+size_t\s+(\w+)\s*=\s*([^;]+);", h):
        consts[m.group(1)] = expr(m.group(2), {})
    if blockname not in consts or "DIGEST_SIZE" not in consts: raise TranslateError("%s: %s / DIGEST_SIZE not found" % (hdr, blockname))
    body = func_body(txt, r"void\s+%s::finish\s*\([^)]*\)\s*\{" % cls)
    body = re.sub(r"static_cast\s*<[^>]*>\s*\(", "(", body)
    env = {"m_len": "m_len", "m_tot_len": "m_tot", "block_nb": "block_nb", blockname: "src_block_size"}
    st = {}
    for stm in body.split(";"):
        m = re.match(r"^\s*(block_nb|len_b|pm_len)\s*=(.*)$", stm, flags=re.S)
        if m:
            if m.group(1) in st: raise TranslateError("%s::finish assigns %s twice" % (cls, m.group(1)))
            st[m.group(1)] = expr(m.group(2), env)
    if sorted(st) != ["block_nb", "len_b", "pm_len"]: raise TranslateError("%s::finish: statements found: %s" % (cls, sorted(st)))
    return ["Module F%s." % tag,
            "Definition src_block_size : N := %s." % consts[blockname],
            "Definition src_digest_size : N := %s." % consts["DIGEST_SIZE"],
            "Definition src_block_nb (W m_len : N) : N := %s." % st["block_nb"],
            "Definition src_len_b (W m_tot m_len : N) : N := %s." % st["len_b"],
            "Definition src_pm_len (W block_nb : N) : N := %s." % st["pm_len"],
            "End F%s." % tag]


def hotp_truncation(repo):
    """detail::hotp_from_digest (src/hmac_utils.cpp): the whole body must be, in this order: empty check, offset, length check, bin_code, divisor table, return.
    uint32_t arithmetic (W = 32); `hmac_result.back()` is written `last_byte`."""
    txt = strip_comments(open(os.path.join(repo, "src", "hmac_utils.cpp"), errors="replace").read())
    body = func_body(txt, r"int\s+hotp_from_digest\s*\([^)]*\)\s*\{")
    norm = re.sub(r"\s+", " ", body).strip()
    pat = (r'^if \(hmac_result\.empty\(\)\) \{ throw std::runtime_error\("[^"]*"\); \} '
           r'int offset = (?P<off>[^;]+); '
           r'if \((?P<guard>[^{]+)\) \{ throw std::runtime_error\("[^"]*"\); \} '
           r'uint32_t bin_code = (?P<bin>[^;]+); '
           r'static const uint64_t divisor\[\] = \{(?P<tab>[^}]*)\}; '
           r'return (?P<ret>[^;]+);$')
    m = re.match(pat, norm)
    if not m: raise TranslateError("detail::hotp_from_digest no longer has the statement sequence the translator understands: %s" % norm[:300])
    off = m.group("off").replace("hmac_result.back()", "last_byte")
    guard = re.sub(r"static_cast\s*<[^>]*>\s*\(", "(", m.group("guard")).replace("hmac_result.size()", "size")
    env = {"hmac_result": "hmac_result", "offset": "offset", "last_byte": "last_byte", "size": "size", "bin_code": "bin_code", "digits": "digits", "divisor": "src_divisor"}
    tab = [expr(v, {}) for v in m.group("tab").split(",") if v.strip()]
    return ["Module OTP.",
            "Definition src_divisor : list N := [%s]." % "; ".join(tab),
            "Definition src_offset (W last_byte : N) : N := %s." % expr(off, env),
            "Definition src_too_short (W size offset : N) : N := %s." % expr(guard, env),
            "Definition src_bin_code (W : N) (hmac_result : list N) (offset : N) : N := %s." % expr(m.group("bin"), env),
            "Definition src_return (W bin_code digits : N) : N := %s." % expr(m.group("ret"), env),
            "End OTP."]


def cstring_after(txt, anchor_re, count):
    out = []
    for m in re.finditer(anchor_re, txt):
        out.append(m.group(1))
    if len(out) != count: raise TranslateError("expected %d string literal(s) for %s, found %d" % (count, anchor_re, len(out)))
    return out


def coq_bytes(s): return "[" + "; ".join(str(ord(c)) for c in s) + "]"


def generate(repo, errors=None):
    """Returns the text of Gen_Source.v. Each source fragment is translated on its own: when one cannot be translated its module is left out (the tie
    theorems that mention it then fail, and only those) and the reason is stored in `errors` (section -> message); without `errors` it raises."""
    out = ["(* GENERATED by /verif/lib/srcgen.py from %s/src on every run. Do not edit. *)" % repo,
           "From HV Require Import Base_Bytes Spec_SHA.", "From Coq Require Import List NArith.", "Import ListNotations.",
           "Local Open Scope N_scope.",
           "Definition upd (l : list N) (i : nat) (v : N) : list N := firstn i l ++ v :: skipn (S i) l.", ""]

    def section(name, f):
        try:
            out.extend(f())
        except Exception as e:          # TranslateError, a missing file, a regular expression that no longer matches
            if errors is None: raise
            errors[name] = "%s: %s" % (type(e).__name__, e)

    def sha2(fn, cls, tag, kt, fs):
        def f():
            txt = strip_comments(open(os.path.join(repo, "src", fn), errors="replace").read())
            o = ["Module S%s." % tag]
            o.extend(macros(txt, ["SHA2_SHFR", "SHA2_ROTR", "SHA2_CH", "SHA2_MAJ"] + fs))
            o.append("Definition src_%s : list N := [%s]." % (kt, "; ".join(table(txt, kt))))
            o.append("Definition src_iv : list N := [%s]." % "; ".join(init_values(txt, cls, 8)))
            o.extend(transform(txt, cls, "", kt))
            o.append("End S%s.\n" % tag)
            return o
        return f
    section("sha256 transform", sha2("sha256.cpp", "SHA256", "256", "sha256_k", ["SHA256_F1", "SHA256_F2", "SHA256_F3", "SHA256_F4"]))
    section("sha512 transform", sha2("sha512.cpp", "SHA512", "512", "sha512_k", ["SHA512_F1", "SHA512_F2", "SHA512_F3", "SHA512_F4"]))
    section("sha256 finish", lambda: finish_arith(repo, "sha256.cpp", "sha256.hpp", "SHA256", "256", "SHA224_256_BLOCK_SIZE"))
    section("sha512 finish", lambda: finish_arith(repo, "sha512.cpp", "sha512.hpp", "SHA512", "512", "SHA384_512_BLOCK_SIZE"))

    def sha1():
        txt = strip_comments(open(os.path.join(repo, "src", "sha1.cpp"), errors="replace").read())
        o = ["Definition src_sha1_iv : list N := [%s]." % "; ".join(init_values(txt, "SHA1", 5))]
        ks = []
        for r in range(5):
            m = re.search(r"^[ \t]*#define[ \t]+SHA1_R%d\([^)]*\)[^\n]*?\+\s*(0[xX][0-9a-fA-F]+)\s*\+" % r, txt, flags=re.M)
            if not m: raise TranslateError("SHA1_R%d constant not found" % r)
            ks.append("0x" + m.group(1)[2:].lower())
        o.append("Definition src_sha1_k : list N := [%s]." % "; ".join(ks))
        o.extend(sha1_macros(txt))
        return o
    section("sha1", sha1)
    section("hotp truncation", lambda: hotp_truncation(repo))

    def codecs():
        enc = open(os.path.join(repo, "src", "encoding.cpp"), errors="replace").read()
        b64 = cstring_after(enc, r'"(ABCDEFGHIJKLMNOPQRSTUVWXYZabcdefghijklmnopqrstuvwxyz[^"]*)"', 2)
        b32 = cstring_after(enc, r'return\s+"(ABCDEFGHIJKLMNOPQRSTUVWXYZ[^"]*)"\s*;', 1)
        b36 = cstring_after(enc, r'return\s+"(0123456789[^"]*)"\s*;', 1)
        return ["Definition src_b64_std : list N := %s." % coq_bytes(b64[0]), "Definition src_b64_url : list N := %s." % coq_bytes(b64[1]),
                "Definition src_b32 : list N := %s." % coq_bytes(b32[0]), "Definition src_b36 : list N := %s." % coq_bytes(b36[0])]
    section("codec alphabets", codecs)

    def hmac_consts():
        txt = strip_comments(open(os.path.join(repo, "src", "hmac.cpp"), errors="replace").read())
        pads = re.findall(r"(\w+)\s*\[\s*i\s*\]\s*=\s*(k\s*\^\s*0[xX][0-9a-fA-F]+)\s*;", txt)
        if [n for n, _ in pads] != ["ipad", "okeypad_", "ikeypad", "okeypad"]:
            raise TranslateError("hmac.cpp: pad assignments found: %s" % [n for n, _ in pads])
        o = ["Module HM."]
        for n, e in pads:
            o.append("Definition src_%s (W k : N) : N := %s." % (n.rstrip("_") + ("_ctx" if n.endswith("_") or n == "ipad" else ""), expr(e, {"k": "k"})))
        m = re.search(r'static\s+const\s+char\s*\*\s*lut\s*=\s*"([^"]*)"\s*;', txt)
        if not m: raise TranslateError("hmac.cpp: hex lut not found")
        o.append("Definition src_hex_lut : list N := %s." % coq_bytes(m.group(1)))
        o.append("End HM.")
        return o
    section("hmac constants", hmac_consts)
    return "\n".join(out) + "\n"


if __name__ == "__main__":
    import sys
    print(generate(sys.argv[1] if len(sys.argv) > 1 else "/repo"))
