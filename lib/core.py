"""Shared machinery of the checks: Coq build + per-property proof obligations, extraction, driver
builds from /repo's working tree (content-hash cached), case execution, diffing, the violation
protocol and evidence files."""
import fcntl, glob, hashlib, json, os, re, shutil, subprocess, sys, time, random

VERIF = os.path.dirname(os.path.dirname(os.path.abspath(__file__)))
REPO = os.environ.get("VERIF_REPO", "/repo")
CACHE = os.path.join(VERIF, ".cache")
COQ = os.path.join(VERIF, "coq")
OCAML = os.path.join(VERIF, "ocaml")
HARNESS = os.path.join(VERIF, "harness")
# evidence of runs against anything but /repo itself (seeded changes on a repository copy) never lands in evidence/
EVID = os.path.join(VERIF, "evidence") if os.path.realpath(REPO) == "/repo" else os.path.join(CACHE, "evidence-other-repo")
NCPU = os.cpu_count() or 4

FORBIDDEN = re.compile(r"\b(Admitted|admit|Axiom|Parameter|Parameters|Conjecture|Admit Obligations|bypass_check|Unset Guard Checking|Unset Positivity Checking|Unset Universe Checking|type-in-type|impredicative-set)\b")

# the project's own CMake configuration on this platform: page locking on, HAVE_EXPLICIT_BZERO NOT defined (its check looks for explicit_bzero in
# <strings.h>, glibc declares it in <string.h>: /repo/_build/CMakeCache.txt has HAVE_EXPLICIT_BZERO empty), so secure_zero is the volatile loop
BASE_FLAGS = ["-std=c++11", "-DHMAC_CPP_VERIF", "-DHMAC_CPP_ENABLE_MLOCK"]

# build configurations: the primary one (every tier) and the matrix the thorough tier adds.
# defs = None means BASE_FLAGS; otherwise the complete list of -std/-D flags.
PRIMARY = dict(label="g++ -O2 -explicit_bzero +mlock", compiler="g++", opt="-O2", defs=None)
def _defs(bzero, mlock):
    return ["-std=c++11", "-DHMAC_CPP_VERIF"] + (["-DHMAC_CPP_ENABLE_MLOCK"] if mlock else []) + (["-DHAVE_EXPLICIT_BZERO"] if bzero else [])
MATRIX_PURE = [
    dict(label="g++ -O0", compiler="g++", opt="-O0", defs=None),
    dict(label="g++ -O3", compiler="g++", opt="-O3", defs=None),
    dict(label="clang++ -O2", compiler="clang++", opt="-O2", defs=None),
]
MATRIX_ZEROING = [dict(label="%s %s %sexplicit_bzero %smlock" % (cc, o, "+" if bz else "-", "+" if ml else "-"), compiler=cc, opt=o, defs=_defs(bz, ml))
                  for cc, o in (("g++", "-O0"), ("g++", "-O2"), ("g++", "-O3"), ("clang++", "-O2"))
                  for bz in (True, False) for ml in (True, False) if not (cc == "g++" and o == "-O2" and not bz and ml)]
# quick tier of the properties that depend on the zeroing back-end: the explicit_bzero build as a second configuration
CONFIG_BZERO = dict(label="g++ -O2 +explicit_bzero +mlock", compiler="g++", opt="-O2", defs=_defs(True, True))

TRUSTED_BASE = [
    "Coq 8.16.1 kernel incl. the vm_compute evaluator (finite sweeps); no native_compute",
    "axioms: none declared by the development; per-theorem Print Assumptions output is recorded in this file",
    "specs (coq/Spec_*.v) as transcriptions of FIPS 180-4, RFC 2104/8018/5869/4226/6238/4648 and the documented contracts",
    "models (coq/Model_*.v) as descriptions of the C++; tied to /repo only by this differential correspondence (generator lib/props, drivers harness/*.cpp, ocaml/run.ml)",
    "source tie (C01, C13-C15): lib/srcgen.py translates the SHA-2 tables, init values, word macros, schedule statement, round-loop body and the codec alphabets of /repo's current sources into Gen_Source.v (typing convention: everything at the unit's word type, see DESIGN.md section 4); coq_tie/Tie_Source.v re-proved against it on every run",
    "extraction with ExtrOcamlBasic only (bool, option, unit, list, prod, sumbool, sumor -> OCaml; andb/orb inlined); N, Z, positive, nat stay Coq datatypes; OCaml 4.13.1",
    "g++ 12.2 / libstdc++ used to build the drivers from /repo's working tree (flags as the project's own CMake build on this platform: -DHMAC_CPP_ENABLE_MLOCK, no HAVE_EXPLICIT_BZERO)",
]


class Lock:
    def __init__(self, name):
        os.makedirs(CACHE, exist_ok=True)
        self.path = os.path.join(CACHE, name + ".lock")
    def __enter__(self):
        self.f = open(self.path, "w")
        fcntl.flock(self.f, fcntl.LOCK_EX)
        return self
    def __exit__(self, *a):
        fcntl.flock(self.f, fcntl.LOCK_UN)
        self.f.close()


def sh(cmd, timeout=3600, cwd=None, env=None, input=None):
    p = subprocess.run(cmd, cwd=cwd, env=env, input=input, stdout=subprocess.PIPE, stderr=subprocess.STDOUT,
                       timeout=timeout, text=True, errors="replace")
    return p.returncode, p.stdout


# ----------------------------------------------------------------------------- Coq
def coq_sources():
    with open(os.path.join(COQ, "_CoqProject")) as f:
        return [l.strip() for l in f if l.strip().endswith(".v")]


def ensure_coq():
    """Full .vo build of the development (no-op when up to date). Returns (ok, log)."""
    with Lock("coq"):
        if not os.path.exists(os.path.join(COQ, "Makefile")):
            sh(["coq_makefile", "-f", "_CoqProject", "-o", "Makefile"], cwd=COQ)
        rc, out = sh(["timeout", "3000", "make", "-k", "-j%d" % NCPU], cwd=COQ, timeout=3100)
        return rc == 0, out


def grep_gate():
    bad = []
    for v in sorted(glob.glob(os.path.join(COQ, "*.v"))):
        txt = open(v, errors="replace").read()
        txt = re.sub(r"\(\*.*?\*\)", lambda m: " " * 0, txt, flags=re.S)  # comments do not count
        for i, line in enumerate(txt.split("\n")):
            if FORBIDDEN.search(line):
                bad.append("%s: %s" % (os.path.basename(v), line.strip()[:120]))
    return bad


def check_property_file(pid, rundir):
    """Re-check Properties_<pid>.v with coqc (its dependencies must be compiled), collecting the
    Print Assumptions output. Returns dict(obligations, discharged, assumptions, ok, log, theorems)."""
    src = os.path.join(COQ, "Properties_%s.v" % pid)
    txt = open(src).read()
    theorems = re.findall(r"^\s*Theorem\s+(\w+)", txt, flags=re.M)
    # the re-check is cached by the content of the whole development (any .v change invalidates it)
    h = hashlib.sha256()
    for v in sorted(glob.glob(os.path.join(COQ, "*.v"))):
        h.update(os.path.basename(v).encode()); h.update(open(v, "rb").read())
    cdir = os.path.join(CACHE, "propcheck"); os.makedirs(cdir, exist_ok=True)
    cfile = os.path.join(cdir, "%s-%s.json" % (pid, h.hexdigest()[:20]))
    if os.path.exists(cfile):
        try:
            c = json.load(open(cfile)); rc, out = c["rc"], c["out"]
        except Exception:
            rc, out = None, None
    else:
        rc, out = None, None
    if rc is None:
        work = os.path.join(rundir, "PropCheck_%s.v" % pid)
        shutil.copy(src, work)
        rc, out = sh(["timeout", "900", "coqc", "-Q", COQ, "HV", work], cwd=rundir, timeout=1000)
        if not os.path.exists(os.path.join(COQ, "Properties_%s.vo" % pid)): rc = rc or 1      # the full build must have produced it too
        json.dump(dict(rc=rc, out=out), open(cfile + ".tmp", "w")); os.replace(cfile + ".tmp", cfile)
        for old in sorted(glob.glob(os.path.join(cdir, "%s-*.json" % pid)), key=os.path.getmtime)[:-3]: os.remove(old)
    discharged = len(theorems)
    if rc != 0:
        m = re.search(r"line (\d+), characters", out)
        errline = int(m.group(1)) if m else 0
        discharged = 0
        pos = 0
        for t in theorems:
            mm = re.search(r"^\s*Theorem\s+%s\b" % t, txt, flags=re.M)
            ln = txt[:mm.start()].count("\n") + 1
            # a theorem is discharged if its Qed comes before the error line
            qed = txt.find("Qed.", mm.start())
            qln = txt[:qed].count("\n") + 1 if qed >= 0 else 10 ** 9
            if qln < errline:
                discharged += 1
    assumptions = []
    blocks = re.split(r"\n(?=Closed under the global context|Axioms:)", "\n" + out)
    for b in blocks:
        b = b.strip()
        if b.startswith("Closed under") or b.startswith("Axioms:"):
            assumptions.append(b[:2000])
    return dict(obligations=len(theorems), discharged=discharged, assumptions=assumptions, ok=(rc == 0),
                log=out[-4000:], theorems=theorems)


def source_tie(rundir, wanted):
    """The translator tie: regenerate Gen_Source.v from /repo's CURRENT sources (lib/srcgen.py), then re-check the fixed theorems of
    coq_tie/Tie_Source.v against it. `wanted` = names of the tie theorems the calling property relies on.
    Returns dict(ok, failed=[theorem names or 'translator'], log, theorems, assumptions, gen_sha)."""
    import srcgen
    tie_src = os.path.join(VERIF, "coq_tie", "Tie_Source.v")
    tie_txt = open(tie_src).read()
    names = re.findall(r"^Theorem\s+(\w+)", tie_txt, flags=re.M)
    bad = [l.strip()[:100] for l in re.sub(r"\(\*.*?\*\)", "", tie_txt, flags=re.S).split("\n") if FORBIDDEN.search(l)]
    terrs = {}
    try:
        gen = srcgen.generate(REPO, terrs)
    except Exception as e:
        return dict(ok=False, failed=["translator"], log="lib/srcgen.py could not translate /repo's sources: %s" % e, theorems=names, assumptions=[], gen_sha=None)
    gen += "".join("(* NOT TRANSLATED: %s: %s *)\n" % (k, v.replace("*)", "* )")[:400]) for k, v in sorted(terrs.items()))
    h = hashlib.sha256(gen.encode() + tie_txt.encode())
    for v in ("Base_Bytes.v", "Spec_SHA.v", "Spec_Base64.v", "Spec_Base32.v", "Spec_Base36.v", "Model_Sha1Transform.v", "Model_Sha2Ctx.v", "Model_Otp.v", "Base_Result.v", "Model_Hmac.v"):
        h.update(open(os.path.join(COQ, v), "rb").read())
    cdir = os.path.join(CACHE, "tie"); os.makedirs(cdir, exist_ok=True)
    cfile = os.path.join(cdir, h.hexdigest()[:24] + ".json")
    res = None
    if os.path.exists(cfile):
        try: res = json.load(open(cfile))
        except Exception: res = None
    if res is None:
        d = os.path.join(rundir, "tie"); os.makedirs(d, exist_ok=True)
        open(os.path.join(d, "Gen_Source.v"), "w").write(gen)
        rc, out = sh(["timeout", "300", "coqc", "-Q", COQ, "HV", "-Q", d, "GEN", os.path.join(d, "Gen_Source.v")], cwd=d, timeout=330)
        failed = []
        if rc != 0:
            failed = ["translator"]; out = "generated Gen_Source.v does not compile: " + out[-1500:]
        else:
            # each theorem is checked on its own so that one broken statement does not hide the verdict of the others
            shutil.copy(tie_src, os.path.join(d, "Tie_Source.v"))
            rc, out = sh(["timeout", "300", "coqc", "-Q", COQ, "HV", "-Q", d, "GEN", os.path.join(d, "Tie_Source.v")], cwd=d, timeout=330)
            if rc != 0:
                # find which statements fail: remove the item (Theorem / Lemma / Definition) the error is in, compile again; dependents of a removed item
                # fail in turn and are listed too
                cur = tie_txt
                for _ in range(60):
                    m = re.search(r"line (\d+), characters", out)
                    if not m: break
                    upto = "\n".join(cur.split("\n")[:int(m.group(1))])
                    heads = list(re.finditer(r"^(Theorem|Lemma|Definition)\s+(\w+)", upto, flags=re.M))
                    if not heads: break
                    hd = heads[-1]; nm = hd.group(2)
                    if nm in failed: break
                    failed.append(nm)
                    if hd.group(1) == "Definition":
                        pend = re.search(r"\.\s*$", cur[hd.start():], flags=re.M).end() + hd.start()
                    else:
                        pend = cur.index("Qed.", hd.start()) + 4
                    cur = cur[:hd.start()] + "(* removed: %s *)" % nm + cur[pend:]
                    cur = re.sub(r"Print Assumptions %s\.[ ]?" % nm, "", cur)
                    open(os.path.join(d, "Tie_Source.v"), "w").write(cur)
                    rc2, out = sh(["timeout", "300", "coqc", "-Q", COQ, "HV", "-Q", d, "GEN", os.path.join(d, "Tie_Source.v")], cwd=d, timeout=330)
                    if rc2 == 0: break
                if not failed: failed = ["Tie_Source"]
        ass = re.findall(r"^(Closed under the global context|Axioms:.*)$", out, flags=re.M)
        if terrs: out = "translator: " + "; ".join("%s: %s" % kv for kv in sorted(terrs.items()))[:1200] + "\n" + out
        res = dict(failed=failed, log=out[-1500:] if not terrs else out[:1500], assumptions=ass, gen_sha=hashlib.sha256(gen.encode()).hexdigest()[:16])
        json.dump(res, open(cfile + ".tmp", "w")); os.replace(cfile + ".tmp", cfile)
        for old in sorted(glob.glob(os.path.join(cdir, "*.json")), key=os.path.getmtime)[:-6]: os.remove(old)
    rel = [f for f in res["failed"] if f in wanted or f in ("translator", "Tie_Source")]
    if bad: rel.append("forbidden construct in Tie_Source.v: " + "; ".join(bad[:3]))
    return dict(ok=not rel, failed=rel, log=res["log"], theorems=[n for n in names if n in wanted], assumptions=res["assumptions"], gen_sha=res["gen_sha"])


def coqchk_property(pid):
    """Thorough tier: re-check Properties_<pid>.vo and everything it depends on with the independent checker; returns dict(ok, axioms, wall_s, log)."""
    h = hashlib.sha256()
    for v in sorted(glob.glob(os.path.join(COQ, "*.v"))):
        h.update(os.path.basename(v).encode()); h.update(open(v, "rb").read())
    cdir = os.path.join(CACHE, "coqchk"); os.makedirs(cdir, exist_ok=True)
    cfile = os.path.join(cdir, "%s-%s.json" % (pid, h.hexdigest()[:20]))
    if os.path.exists(cfile):
        try: return json.load(open(cfile))
        except Exception: pass
    t0 = time.monotonic()
    rc, out = sh(["timeout", "1800", "coqchk", "-silent", "-o", "-Q", COQ, "HV", "HV.Properties_%s" % pid], timeout=1900)
    m = re.search(r"\* Axioms:(.*?)\n\s*\n\* Constants/Inductives relying on type-in-type:(.*?)\n", out, flags=re.S)
    axioms = " ".join(m.group(1).split()) if m else "?"
    res = dict(ok=(rc == 0 and axioms == "<none>"), axioms=axioms, wall_s=round(time.monotonic() - t0, 1), log=out[-1500:],
               cmd="coqchk -silent -o -Q coq HV HV.Properties_%s" % pid)
    json.dump(res, open(cfile + ".tmp", "w")); os.replace(cfile + ".tmp", cfile)
    for old in sorted(glob.glob(os.path.join(cdir, "%s-*.json" % pid)), key=os.path.getmtime)[:-2]: os.remove(old)
    return res


# ----------------------------------------------------------------------------- OCaml model
def ensure_model():
    """Extract and build ocaml/model_run when any .v / run.ml is newer."""
    exe = os.path.join(OCAML, "model_run")
    with Lock("ocaml"):
        deps = glob.glob(os.path.join(COQ, "*.v")) + [os.path.join(OCAML, "run.ml")]
        newest = max(os.path.getmtime(d) for d in deps)
        if os.path.exists(exe) and os.path.getmtime(exe) >= newest:
            return True, ""
        rc, out = sh(["timeout", "600", "coqc", "-Q", COQ, "HV", os.path.join(COQ, "Extract.v")], cwd=OCAML)
        if rc != 0:
            return False, out
        rc, out2 = sh(["ocamlfind", "ocamlopt", "-w", "-a", "-package", "unix", "model.mli", "model.ml", "run.ml", "-o", "model_run.tmp"], cwd=OCAML)
        if rc != 0:
            return False, out + out2
        os.replace(os.path.join(OCAML, "model_run.tmp"), exe)
        return True, out + out2


# ----------------------------------------------------------------------------- drivers
def repo_files():
    fs = sorted(glob.glob(os.path.join(REPO, "src", "*.cpp")) + glob.glob(os.path.join(REPO, "include", "hmac_cpp", "*.hpp")))
    return fs


def repo_hash():
    h = hashlib.sha256()
    for f in repo_files():
        h.update(f.encode()); h.update(open(f, "rb").read())
    return h.hexdigest()[:16]


def ensure_driver(name, extra_flags=(), compiler="g++", opt="-O2", libs=(), defs=None):
    """Build harness/<name>.cpp together with /repo/src/*.cpp (current working tree). Cached by content hash."""
    srcs = [os.path.join(HARNESS, name + ".cpp")]
    h = hashlib.sha256()
    h.update(repo_hash().encode())
    for f in sorted(glob.glob(os.path.join(HARNESS, "*"))):
        if os.path.isfile(f):
            h.update(open(f, "rb").read())
    defs = list(defs) if defs is not None else BASE_FLAGS
    h.update(" ".join([compiler, opt] + list(extra_flags) + list(libs) + (defs if defs != BASE_FLAGS else [])).encode())
    key = h.hexdigest()[:16]
    d = os.path.join(CACHE, "drv", key)
    exe = os.path.join(d, name)
    with Lock("drv-" + key):
        if os.path.exists(exe):
            os.utime(d)
            return exe, ""
        os.makedirs(d, exist_ok=True)
        cmd = [compiler] + defs + [opt] + list(extra_flags) + ["-I" + os.path.join(REPO, "include"), "-I" + HARNESS] + srcs + \
              sorted(glob.glob(os.path.join(REPO, "src", "*.cpp"))) + ["-o", exe + ".tmp"] + list(libs)
        rc, out = sh(cmd, timeout=900)
        if rc != 0:
            return None, out
        os.replace(exe + ".tmp", exe)
        prune_cache()
        return exe, out


def prune_cache(keep=80):
    base = os.path.join(CACHE, "drv")
    ds = sorted(glob.glob(os.path.join(base, "*")), key=os.path.getmtime)
    for d in ds[:-keep]:
        shutil.rmtree(d, ignore_errors=True)


# ----------------------------------------------------------------------------- cases
class Case:
    __slots__ = ("line", "cls", "nontrivial", "spec", "note")
    def __init__(self, line, cls, nontrivial=True, spec=None, note=None):
        self.line = line; self.cls = cls; self.nontrivial = nontrivial; self.spec = spec; self.note = note


def hexs(b):
    return b.hex() if len(b) else "-"


def run_lines(exe, lines, rundir, tag, timeout=3000, env=None, shards=None):
    """Run exe on the case lines (sharded over the cores); returns list of output lines."""
    n = len(lines)
    if n == 0:
        return []
    shards = shards or min(NCPU, max(1, n // 50))
    per = (n + shards - 1) // shards
    procs = []
    for s in range(shards):
        part = lines[s * per:(s + 1) * per]
        if not part:
            continue
        fn = os.path.join(rundir, "%s.%d.cases" % (tag, s))
        with open(fn, "w") as f:
            f.write("\n".join(part) + "\n")
        out = open(os.path.join(rundir, "%s.%d.out" % (tag, s)), "w")
        procs.append((subprocess.Popen([exe, fn], stdout=out, stderr=subprocess.PIPE, env=env), out, len(part), fn))
    res = []
    for p, out, cnt, fn in procs:
        try:
            _, err = p.communicate(timeout=timeout)
        except subprocess.TimeoutExpired:
            p.kill(); err = b"TIMEOUT"
        out.close()
        got = open(out.name, errors="replace").read().split("\n")
        if got and got[-1] == "":
            got.pop()
        if len(got) != cnt or p.returncode != 0:
            # the process died: mark the missing lines
            tail = (err or b"").decode(errors="replace")[-300:].replace("\n", " | ")
            got = got[:cnt] + ["PROCESS-DIED rc=%s %s" % (p.returncode, tail)] * (cnt - len(got))
            if p.returncode != 0 and len(got) == cnt and cnt:
                # every case printed its line but the process did not end cleanly (a failure while it shut down): charge the last case
                got[-1] = "PROCESS-DIED-AT-EXIT rc=%s %s" % (p.returncode, tail)
        res.extend(got)
    return res


# ----------------------------------------------------------------------------- findings / evidence
def load_known():
    p = os.path.join(VERIF, "known_findings.json")
    if not os.path.exists(p):
        return []
    return json.load(open(p)).get("findings", [])


def known_match(pid, key):
    for k in load_known():
        if k.get("property") == pid and k.get("status") == "known" and re.search(k["match"], key):
            return k
    return None


def write_evidence(pid, tier, seed, coverage, wall, violations, assumptions=None):
    os.makedirs(EVID, exist_ok=True)
    ev = dict(property_id=pid, tier=tier, seed=seed, level="proof", coverage=coverage,
              assumptions=assumptions or [], wall_s=round(wall, 2), violations=violations)
    tmp = os.path.join(EVID, pid + ".json.tmp")
    with open(tmp, "w") as f:
        json.dump(ev, f, indent=1)
    os.replace(tmp, os.path.join(EVID, pid + ".json"))


def write_replay(pid, payload):
    d = os.path.join(EVID, "replays")
    os.makedirs(d, exist_ok=True)
    n = 0
    while os.path.exists(os.path.join(d, "%s-%d.json" % (pid, n))):
        n += 1
    p = os.path.join(d, "%s-%d.json" % (pid, n))
    with open(p, "w") as f:
        json.dump(payload, f, indent=1)
    return p
