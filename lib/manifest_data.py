"""Per-property manifest texts. bin/mkmanifest turns this into MANIFEST.json."""
COMMON_NOTE = ("Trusted: Coq 8.16.1 kernel (+ vm_compute for finite sweeps), no axioms (Print Assumptions recorded in the evidence); the hand-written "
               "Gallina model as a description of the C++, tied to /repo's working tree on every run only by differential correspondence "
               "(seeded generator aimed at the proofs' case splits, C++ driver rebuilt from /repo, extracted OCaml model via ExtrOcamlBasic); "
               "the spec as a transcription of the standard. ")
TECH = "Coq theorems (model = spec, all inputs) + differential correspondence of the extracted model against the C++ build"
CLAIMS = {
 "C01": dict(text="Theorems C01_digest / C01_any_object / C01_forms / C01_length (closed under the global context): the context models of SHA-1/256/512 "
   "(2B staging array with stale bytes, uint64 counters with explicit wrap, the three array writes of finish, the vector-buffered SHA-1) compute the FIPS 180-4 "
   "digest for every message below 2^61 bytes, whatever the local context object held; all entry points collapse to that model and are compared with it on every run "
   "(all lengths 0..300 x content families, incremental splits, injected totals at 2^29/2^32/2^61). C01_pinned_sha512_refuted keeps finding F1 machine-checked. "
   "The compression functions are modelled in the FIPS shape (not proved against the unrolled C++): tied by correspondence.",
   note="Bound: messages < 2^61 bytes. Compression function = FIPS by construction of the model. Optimisation levels other than -O2: thorough tier only.", ref="DESIGN.md 7/C01"),
 "C02": dict(text="Theorems C02_rfc2104, C02_key_cases, C02_hex, C02_string_form: the model of get_hmac (separate key/ipad/opad/inner/outer buffers, key hashed iff longer than the block) "
   "equals RFC 2104 HMAC over the FIPS hashes for every key and message (through C01, not restated); to_hex over its 32-char table = plain hex for every byte string. "
   "Correspondence: every overload x is_hex x is_upper on key lengths around digest/block size x message lengths around padding boundaries; rejected (overflow_error) calls interleaved.",
   note="Bounds: key < 2^61, message < 2^61-128 bytes.", ref="DESIGN.md 7/C02"),
 "C03": dict(text="Theorems C03_hash, C03_reuse, C03_abandon, C03_hmac: for EVERY context object state (any field values, stale bytes, finished or abandoned) init + any list of chunks + finish "
   "equals the one-shot result on the concatenation; same for HmacContext (any prior use, any key). Proved by an invariant over update and a refinement from the concrete array/counter model. "
   "Correspondence: operation histories on one C++ object (all two-way splits to 3B+5, multi-way splits with empty chunks, fixed chunk sizes B-1/B/B+1, reuse and abandoned cycles).",
   note="Bounds as C01/C02.", ref="DESIGN.md 7/C03"),
 "C04": dict(text="Theorems C04_rfc8018, C04_buffer_form, C04_pepper: the vector-returning PBKDF2 model (one-shot HMAC, N.iter loop with the (u,t) pair, last block truncated to r) equals RFC 8018 "
   "DK = T_1..T_l<0..dkLen-1> for every password, non-empty salt, 1 <= c <= limit, 1 <= dkLen <= (2^32-1)hLen and the three PRFs (output length = dkLen); the caller-buffer implementation, which is separate code "
   "over the streaming HmacContext, is PROVED to produce the same blocks (via C03) and to accept exactly when additionally |salt| >= 16; the peppered form = PBKDF2(HMAC(pepper,password)). "
   "Correspondence: 9 vector/locked/stored-parameter forms, 4-8 caller-buffer/array forms with canaries, pepper forms; |P| in {0,<B,=B,>B}, salts on padding boundaries of S||INT(i), dkLen around multiples of hLen and > 255 blocks.",
   note="Bounds: |P| < 2^61, |S| < 2^60. The model runs ~2 ms per compression, so corpus iteration counts are small (<= 50 quick, 4096 thorough); the theorem has no such bound.", ref="DESIGN.md 7/C04"),
 "C05": dict(text="Theorems C05_extract, C05_expand, C05_key_iv, C05_expand_rejects: the HKDF models (null/empty salt substitution, the previous/input/take loop, 44-byte split) equal RFC 5869 Extract / Expand "
   "(first L bytes of T(1)||T(2)||..., exactly L bytes, for every 32-byte PRK, info and 0 <= L <= 8160; counter byte never exceeds 255) and the key/IV helper returns bytes 0-31 / 32-43. "
   "Correspondence: 5 extract forms, 5 expand forms, 3 key/IV forms; L = 0, around multiples of 32, > 64, 8159, 8160; null info / null salt.",
   note="Bounds: |IKM| < 2^61-128, |info| < 2^60.", ref="DESIGN.md 7/C05"),
 "C06": dict(text="Theorems C06_hotp, C06_totp, C06_clock, C06_truncation: the models of get_hotp_code / get_totp_code_at / get_totp_code and detail::hotp_from_digest equal RFC 4226 dynamic truncation of HMAC(key, 8-byte big-endian counter) mod 10^digits "
   "for every key, every counter below 2^64, digits 1..9 and the three hashes (result < 10^digits and < 2^31); TOTP(t,p) = HOTP(floor(t/p)) for every t < 2^64, p >= 1; the clock form equals the explicit form, negative/failing clock -> runtime_error; "
   "the shift/mask expression is proved equal to the big-endian value mod 2^31 (disjoint lor = add), the 9-entry divisor table = 10^d. Correspondence on five key-container forms with an interposed clock.",
   note="Bound: key < 2^61 bytes.", ref="DESIGN.md 7/C06"),
 "C07": dict(text="Theorems C07_window, C07_clock_form: exact acceptance set of both is_totp_token_valid functions - a token integer (any int) is accepted iff it equals the code of step c, of c-1 when c>0, or of c+1 when c != 2^64-1; "
   "no cryptographic assumption; no wrap at 0 / 2^64-1. Both copies of the logic are modelled separately. Correspondence: true codes of steps c-3..c+3 (from the extracted spec) and out-of-range integers at counters 0,1,2,2^32,2^64-2,2^64-1, periods 1..INT_MAX, and a clock that ticks between reads.",
   note="Bound: key < 2^61 bytes.", ref="DESIGN.md 7/C07"),
 "C08": dict(text="Theorems C08_no_overflow (every intermediate incl. now %% i and the guarded +-interval stays inside time_t for every clock value and 1 <= i < 2^31), C08_generate, C08_exact "
   "(accepted iff the string equals the lowercase-hex HMAC of the decimal start of the current / previous (guarded) / next (guarded) interval, joined to the fingerprint by '|'), C08_adjacent (a token generated at t is accepted at every t' in the same "
   "or an adjacent interval, for ALL clock values), C08_far_payloads and C08_fingerprint_binding (two or more intervals apart for non-negative clocks, or another / absent / empty fingerprint: the payload differs from all three candidate payloads - "
   "decimal printing is injective and contains no '|'), C08_reject_modulo_collision (a string equal to none of the candidate MACs is rejected; 'rejected under another key/fingerprint/far clock' therefore holds modulo the explicit premise that HMAC does not collide on those payloads), "
   "C08_other_hash (unconditional: hex lengths differ), C08_clock_failure. Correspondence: 4 functions x 3 key forms with an interposed clock at interval edges, 0, -1, time_t min/max, intervals incl. divisors of 2^63-1, empty vs absent fingerprint, mangled tokens, errno variants; std::to_string tied at the extremes.",
   note="The rejected-elsewhere half is modulo the stated non-collision premise (checked concretely on every generated case); std::to_string is modelled by Coq's decimal printer and tied by correspondence.", ref="DESIGN.md 7/C08"),
 "C11": dict(text="Theorems C11_*_exact (get_hmac, pbkdf2 vector and caller-buffer forms, hkdf extract/expand, HOTP, TOTP clock form, time tokens): the verdict model of each entry point - written in the order of the checks in the C++ over argument "
   "descriptors (nullness, size_t lengths, ints, raw selector values, clock) - accepts exactly on the documented domain, every boundary included; C11_*_signal: each signal is the documented one for a rule actually violated; "
   "C11_nothrow / C11_never_terminate: the non-throwing PBKDF2 only returns false, nothing terminates; C11_pinned_refuted keeps finding F2 machine-checked. Decoders (total, never throw) are C13-C15. "
   "Correspondence: ~11k forked calls over the cross product of per-parameter classes incl. selectors -1/3/7/255/INT_MIN/INT_MAX, L = SIZE_MAX-30..SIZE_MAX, iteration and dk_len limits, clock failures; observed verdict incl. terminate / crash / 'false but output written'.",
   note="Acceptance at limits that cannot be executed (dk_len = (2^32-1)*hLen, message length SIZE_MAX-block) is covered by the theorem and by the reject side of the boundary only.", ref="DESIGN.md 7/C11"),
 "C12": dict(text="PARTIAL. Proved (Coq): the array-index arithmetic of the code that works on raw C arrays - C12_sha256_in_bounds / C12_sha512_in_bounds: for EVERY context object and every history of init/updates, the next update(len) and finish() "
   "read and write only inside m_block[0, 2*BLOCK) and message[0, len), and no size_t subtraction wraps (from the invariant m_len < BLOCK of the refinement proof); C12_hotp_reads / C12_divisor_index: the digest-truncation helper on ANY digest reads inside the digest whenever it returns, "
   "and indexes its divisor table inside its nine entries; C12_decoders_total / C12_base36_fuel: every decoder result on ANY input is a byte string and the Base36 loops terminate with bounded carries; C16_invariant covers size <= capacity of secure_buffer. "
   "Observed, not proved: use-after-free, leaks, alignment, signed overflow / shifts and UB in code that is not modelled - all correspondence corpora of C01-C09, C11, C13-C16, C18 plus decoder / truncation / comparison inputs made of arbitrary bytes are re-run on an ASan+UBSan+LSan build; any report is a violation with the offending case as replay.",
   note="The model cannot exhibit: use-after-free, leaks, alignment, UB of unmodelled code paths, what the optimiser does. Quick tier re-runs a 1/2..1/6 sample of each corpus (g++ -O1); thorough the full corpora plus clang.", ref="DESIGN.md 7/C12",
   technique="Coq theorems on index ranges of the array-manipulating models + sanitizer (ASan/UBSan/LSan) re-run of all correspondence corpora"),
 "C13": dict(text="Theorems C13_encode, C13_alphabet, C13_language, C13_langb, C13_value, C13_roundtrip, C13_decoded_ok, C13_encode_length: the model of base64_encode equals the bit-level RFC 4648 encoding for every byte string, alphabet and pad flag; "
   "the model of base64_decode (reverse table built by the code's assignments with -1/-2 markers and URL aliases, the quartet loop with its pad2/pad3 arms and 'must be the last quartet' tests, unpadded tails) returns Some iff the filtered text is in the documented language "
   "(alphabet characters, '=' only as the final one or two characters of a complete last quartet, length multiple of 4 when padding is required and not 1 mod 4 otherwise; lenient mode skips space/CR/LF/TAB and takes '+' '/' as aliases under the URL alphabet) and then yields the RFC 4648 bytes; "
   "decode(encode d) = d in strict and lenient mode. Correspondence: 3-4 encoder forms; decoder into reused vector / secure_buffer objects (left empty on failure) and a fresh vector: mutated valid encodings, all pad-run lengths, whitespace at every position, alias characters, high-bit bytes, exhaustive strings over a 12-symbol alphabet.",
   note="", ref="DESIGN.md 7/C13"),
 "C14": dict(text="Theorems C14_encode, C14_alphabet, C14_language, C14_langb_iff, C14_value, C14_roundtrip, C14_decoded_ok: the model of base32_encode equals the bit-level RFC 4648 section 6 encoding (upper case, '=' to a multiple of 8) for every byte string; "
   "the model of base32_decode (table built by the code's assignments with -1/-2 markers, the has_pad test on raw characters, the five-way '=' cascade, staged unpadded tails, the shift/mask byte expressions) returns Some iff the whitespace-filtered text is in the documented language "
   "(A-Z2-7, '=' only as a run of 1,3,4,6 closing a complete last group, length never 1,3,6 mod 8, multiple of 8 when padding is required; lenient mode adds a-z and skips space/CR/LF/TAB) and then yields the RFC 4648 bytes; decode(encode d) = d in every mode compatible with the padding choice. "
   "Finite facts by exhaustive sweeps (256, 65536, 32^3) lifted by lemmas; group structure by induction 5 bytes / 8 characters at a time. Correspondence: 3 encoder forms; decoder into reused vector / secure_buffer objects (left empty on failure) and a fresh vector, on valid encodings, all pad-run lengths in last and inner groups, padded group + unpadded tail, case, whitespace, high-bit bytes, exhaustive small strings.",
   note="", ref="DESIGN.md 7/C14"),
 "C16": dict(text="Theorems C16_refines_vector (for EVERY history of constructions, adoptions, rvalue-string hand-overs, copy/move assignment, copy construction, self assignment, resize, clear, assign, element writes on two buffer variables, every growth policy: "
   "the buffers hold exactly what plain byte vectors would hold), C16_invariant + C16_releases_clean (slack [size,capacity) stays fresh-or-zero and every block returned to the allocator during the history and at destruction holds only fresh or zero cells, given that adopted vectors have clean slack), "
   "C16_rvalue_string (the caller's string is all-zero and empty), C16_pinned_refuted (finding F3) and C16_dirty_adoption_refuted (finding F9). The heap model has cells Fresh | Val b, blocks as long as the capacity, release events. "
   "Correspondence / observation: histories on real secure_buffer<uint8_t,false/true> objects with operator new/delete interposed (new blocks poisoned, every block scanned at delete), contents compared after every step, caller strings inspected.",
   note="PARTIAL for the configuration quantifier: that the zero stores survive the optimiser and which secure_zero back-end is compiled in is observed (quick: -O2 with explicit_bzero; thorough: -O0/-O2/-O3 x HAVE_EXPLICIT_BZERO x HMAC_CPP_ENABLE_MLOCK), not proved. locked_ / page locking is not modelled. Known finding F9 (adoption of a vector with dirty slack) is reported as KNOWN-FINDING.", ref="DESIGN.md 7/C16"),
 "C15": dict(text="Theorems C15_encode, C15_alphabet, C15_decode, C15_roundtrip, C15_decoded_ok (+ C15_spec_numerals, C15_fuel_unreachable): the models of base36_encode (repeated long division of the byte vector by 36, leading-zero rule, "
   "the n+1 zeros convention) and base36_decode (per-character classification inside the multiply-accumulate loop, carry propagation, front insertion, leading-zero stripping) equal the documented contract - one '0' per leading zero byte followed by the base-36 numeral, "
   "decoder accepting exactly ASCII letters and digits case-insensitively - for every byte string / character string, and decode(encode d) = d; loop fuel is proved sufficient (exhaustion marker unreachable). "
   "Correspondence: 3 encoder forms, decoder into reused vector / secure_buffer objects (left empty on failure) and a fresh vector; all single bytes and characters, long numerals, zero runs, invalid characters by position.",
   note="", ref="DESIGN.md 7/C15"),
 "C09": dict(text="Theorem C09_exact: the model of constant_time_equals (loop over max length, implicit zeros, length-mismatch seed) returns true iff the byte lists are equal, for all lengths and contents. "
   "Correspondence: six overloads on length pairs incl. differences of 256k, every single-bit difference position, cancelling differences.",
   note="", ref="DESIGN.md 7/C09"),
}
PENDING_REASON = "not claimed yet: model/theorems under construction (see DESIGN.md section 9)"
