from core import Case, hexs
from gen_util import *
PID = "C04"
DRIVER = "drv_pure"
RULE = ("pbkdf2: vector forms (ptr, vector<uint8_t>, vector<char>, string, secure_buffer, pbkdf2_secure, 3 stored-parameter forms) vs model A; caller-buffer forms "
        "(ptr, secure_buffer, std::array x N, pbkdf2_hmac_sha256 x4) with canaries vs model B; peppered forms; classes = PRF x |P| class (0, <B, =B, >B) x |S| class "
        "(padding boundaries of S||INT(i)) x c x dkLen class (below/at/above multiples of hLen, > 255 blocks); non-trivial = accepted parameters")

def gen(rng, tier):
    cases = []
    for t in HASHES:
        b = BS[t]; d = DS[t]; thr = b - LB[t] - 1
        plens = [0, 1, b - 1, b, b + 1, 2 * b + 3]
        slens = [1, 15, 16, 17, thr - 4 - 1, thr - 4, thr - 4 + 1, b - 4, 2 * b]
        dks = [1, d - 1, d, d + 1, 2 * d, 2 * d + 1, 5 * d]
        its = [1, 2, 3, 7]
        def pcl(n): return "P0" if n == 0 else ("P<B" if n < b else ("P=B" if n == b else "P>B"))
        def dcl(n): return "dk%%h=%d blocks=%d" % (n % d if n % d in (0, 1, d - 1) else -1, min((n + d - 1) // d, 6))
        # pairwise-ish coverage: every value of each parameter with random others, plus full cross of (plen x dk) at c=2
        combos = set()
        for pl in plens:
            for dk in dks:
                combos.add((pl, rng.choice(slens), 2, dk))
        for sl in slens:
            for c in its:
                combos.add((rng.choice(plens), sl, c, rng.choice(dks)))
        for _ in range(10 if tier == "quick" else 120):
            combos.add((rng.choice(plens + [rng.randrange(0, 3 * b)]), rng.choice(slens + [rng.randrange(1, 3 * b)]), rng.choice(its), rng.choice(dks + [rng.randrange(1, 6 * d)])))
        for (pl, sl, c, dk) in sorted(combos):
            P = contents(rng, pl); S = contents(rng, sl)
            cases.append(Case("pbkdf2 %s %s %s %d %d" % (t, hexs(P), hexs(S), c, dk), "vec %s %s S=%d c=%d %s" % (t, pcl(pl), sl if sl in slens else -1, c, dcl(dk)), True,
                              spec="spec.pbkdf2 %s %s %s %d %d" % (t, hexs(P), hexs(S), c, dk)))
            if sl >= 16 or rng.random() < 0.3:
                cases.append(Case("pbkdf2buf %s %s %s %d %d" % (t, hexs(P), hexs(S), c, dk), "buf %s %s S%s c=%d %s" % (t, pcl(pl), ">=16" if sl >= 16 else "<16", c, dcl(dk)), sl >= 16,
                                  spec=("spec.pbkdf2buf %s %s %s %d %d" % (t, hexs(P), hexs(S), c, dk)) if sl >= 16 else None))
        # array forms (fixed N) and salt boundary 15/16 for the caller-buffer form
        for N in [1, 19, 20, 21, 32, 33, 64, 65, 128]:
            for sl in (15, 16, 40):
                P = contents(rng, rng.choice(plens)); S = contents(rng, sl)
                cases.append(Case("pbkdf2buf %s %s %s %d %d" % (t, hexs(P), hexs(S), 2, N), "buf-array %s N=%d S=%d" % (t, N, sl), sl >= 16,
                                  spec=("spec.pbkdf2buf %s %s %s 2 %d" % (t, hexs(P), hexs(S), N)) if sl >= 16 else None))
        # many blocks: block index above 255 (second byte of INT(i)); c = 1 keeps the model fast
        if t == "sha1" or tier == "thorough":
            dk = 255 * d + 1 + (0 if tier == "quick" else d)
            P = contents(rng, 9); S = contents(rng, 16)
            cases.append(Case("pbkdf2 %s %s %s 1 %d" % (t, hexs(P), hexs(S), dk), "vec %s blocks>255" % t, True, spec="spec.pbkdf2 %s %s %s 1 %d" % (t, hexs(P), hexs(S), dk)))
            cases.append(Case("pbkdf2buf %s %s %s 1 %d" % (t, hexs(P), hexs(S), dk), "buf %s blocks>255" % t, True, spec="spec.pbkdf2buf %s %s %s 1 %d" % (t, hexs(P), hexs(S), dk)))
        # block indices beyond 65535 (third byte of INT(i)): 65538 blocks, only the last four are compared
        if t == "sha1" or tier == "thorough":
            P = contents(rng, 9); S = contents(rng, 16)
            cases.append(Case("pbkdf2tail %s %s %s 1 65538 4" % (t, hexs(P), hexs(S)), "tail %s blocks>65535" % t, True, spec="spec.pbkdf2tail %s %s %s 1 65538 4" % (t, hexs(P), hexs(S))))
        # output lengths above 2^24 bytes that are not multiples of hLen (a block count computed in single precision is one short)
        if t == "sha256" or tier == "thorough":
            P = contents(rng, 9); S = contents(rng, 16); dk = 2 ** 24 + (5 if t == "sha1" else 1)
            cases.append(Case("pbkdf2end %s %s %s 1 %d 20" % (t, hexs(P), hexs(S), dk), "end %s dk>2^24" % t, True, spec="spec.pbkdf2end %s %s %s 1 %d 20" % (t, hexs(P), hexs(S), dk)))
        # block indices from 2^24 on (the most significant byte of INT(i)): 2^24 + 1 SHA-1 blocks, ~335 MB, thorough tier only
        if t == "sha1" and tier == "thorough":
            P = contents(rng, 9); S = contents(rng, 16)
            cases.append(Case("pbkdf2tail %s %s %s 1 %d 3" % (t, hexs(P), hexs(S), 2 ** 24 + 1), "tail %s blocks>=2^24" % t, True, spec="spec.pbkdf2tail %s %s %s 1 %d 3" % (t, hexs(P), hexs(S), 2 ** 24 + 1)))
        # larger iteration counts (thorough): RFC 6070 style
        # (65537 iterations: a 16-bit loop counter would wrap; the extracted model needs ~8 ms per iteration, so thorough tier, SHA-1 only)
        for c in ([50] if tier == "quick" else ([1000, 4096, 65537] if t == "sha1" else [1000, 4096])):
            P = b"password"; S = b"saltSALTsaltSALTsalt"
            cases.append(Case("pbkdf2 %s %s %s %d %d" % (t, hexs(P), hexs(S), c, d + 5), "vec %s c=%d" % (t, c), True, spec="spec.pbkdf2 %s %s %s %d %d" % (t, hexs(P), hexs(S), c, d + 5)))
            cases.append(Case("pbkdf2buf %s %s %s %d %d" % (t, hexs(P), hexs(S), c, d + 5), "buf %s c=%d" % (t, c), True, spec="spec.pbkdf2buf %s %s %s %d %d" % (t, hexs(P), hexs(S), c, d + 5)))
        # pepper
        for pl in [0, 1, b, b + 1]:
            for pepl in [0, 1, b - 1, b, b + 1]:
                P = contents(rng, pl); S = contents(rng, rng.choice([1, 16, 20])); PEP = contents(rng, pepl); dk = rng.choice(dks)
                cases.append(Case("pepper %s %s %s %s 2 %d" % (t, hexs(P), hexs(S), hexs(PEP), dk), "pepper %s %s pep%s" % (t, pcl(pl), pcl(pepl)[1:]), True,
                                  spec="spec.pepper %s %s %s %s 2 %d" % (t, hexs(P), hexs(S), hexs(PEP), dk)))
        # coinciding operands: pepper == salt, password == salt, password == pepper (same bytes), and equal lengths with different bytes
        for n in [1, 16, 32, b]:
            X = contents(rng, n, "rand"); Y = contents(rng, n, "rand"); Z = contents(rng, n, "rand"); dk = rng.choice(dks)
            for (P, S, PEP, cls) in [(Y, X, X, "pepper==salt"), (X, X, Y, "password==salt"), (X, Y, X, "password==pepper"), (X, X, X, "all-equal"), (X, Y, Z, "equal-lengths")]:
                cases.append(Case("pepper %s %s %s %s 2 %d" % (t, hexs(P), hexs(S), hexs(PEP), dk), "pepper %s %s n=%d" % (t, cls, n), True,
                                  spec="spec.pepper %s %s %s %s 2 %d" % (t, hexs(P), hexs(S), hexs(PEP), dk)))
            cases.append(Case("pbkdf2 %s %s %s 2 %d" % (t, hexs(X), hexs(X), dk), "vec %s password==salt n=%d" % (t, n), True, spec="spec.pbkdf2 %s %s %s 2 %d" % (t, hexs(X), hexs(X), dk)))
            if n >= 16:
                cases.append(Case("pbkdf2buf %s %s %s 2 %d" % (t, hexs(X), hexs(X), dk), "buf %s password==salt n=%d" % (t, n), True, spec="spec.pbkdf2buf %s %s %s 2 %d" % (t, hexs(X), hexs(X), dk)))
        # rejected parameters (verdict agreement only; exactness is C11)
        for (S_, c, dk, cls) in [(b"", 1, 20, "empty-salt"), (b"salt", 0, 20, "c=0"), (b"salt", 1000001, 20, "c>limit"), (b"salt", 1, 0, "dk=0")]:
            cases.append(Case("pbkdf2 %s 7061 %s %d %d" % (t, hexs(S_), c, dk), "vec reject " + cls, False))
            cases.append(Case("pbkdf2buf %s 7061 %s %d %d" % (t, hexs(S_ + b"0123456789abcdef" if S_ else S_), c, dk), "buf reject " + cls, False))
    return cases

def key(case, impl, model):
    p = case.line.split(); return " ".join(p[:2]) + " |P|=%d |S|=%d " % (0 if p[2] == "-" else len(p[2]) // 2, 0 if p[3] == "-" else len(p[3]) // 2) + " ".join(p[-2:])

def spec_cost(case):
    p = case.line.split()
    if p[0] in ("pbkdf2tail", "pbkdf2end"): return 10
    return int(p[-2]) * (int(p[-1]) // 20 + 1)            # iterations x blocks
