from core import Case, hexs
from gen_util import *
PID = "C08"
DRIVER = "drv_pure"
RULE = ("generate_time_token / is_token_valid (with and without fingerprint, 3 key forms each, interposed clock incl. a ticking one) vs the models; "
        "(issue, check) clock pairs around interval edges, at 0, -1, time_t min/max, intervals 1, 7, 30, 60, INT_MAX and intervals dividing 2^63-1; empty vs absent fingerprint; "
        "wrong key / fingerprint / hash / interval; mangled tokens; errno variants; std::to_string tied at the extremes; "
        "classes = op x fp kind x interval x clock class x relation; non-trivial = valid interval")
TMIN = -2 ** 63; TMAX = 2 ** 63 - 1

def rounded(now, i):
    r = abs(now) % i
    return now - (r if now >= 0 else -r)

def gen(rng, tier):
    import core, os, tempfile, shutil
    cases = []
    for z in [0, 1, -1, 9, 10, -10, 99, 100, 123456789, -123456789, 2 ** 31 - 1, 2 ** 31, -2 ** 31, 10 ** 18, -10 ** 18, TMAX, TMIN, TMAX - 1, TMIN + 1, 1700000000]:
        cases.append(Case("tostring %d" % z, "tostring", True))
    plan = []
    ivs = [1, 7, 30, 60, 2 ** 31 - 1, 49, 127]
    fps = ["none", "-", hexs(b"device-1"), hexs(b"a|b")]
    for t in (HASHES if tier == "thorough" else ["sha256", rng.choice(["sha1", "sha512"])]):
        for iv in ivs:
            bases = [0, 1, -1, iv, -iv, 5 * iv + 3, -(5 * iv + 3), 1700000000, TMAX, TMAX - iv, TMAX - iv + 1, TMAX - 2 * iv, TMIN, TMIN + iv, TMIN + iv - 1, TMIN + 2 * iv,
                     rounded(TMAX, iv), rounded(TMAX, iv) - 1, rounded(TMIN, iv), rounded(TMIN, iv) + 1]
            bases = [b for b in bases if TMIN <= b <= TMAX]
            if tier == "quick": bases = sorted(set(bases[:3] + [TMAX, TMIN, rounded(TMAX, iv), rounded(TMIN, iv)] + rng.sample(bases[3:], 2)))
            for issue in bases:
                fp = rng.choice(fps); key = contents(rng, rng.choice([0, 1, 20, BS[t] + 1]))
                for dk in (-2, -1, 0, 1, 2):
                    for edge in ((0, iv - 1) if tier == "thorough" or dk in (-2, 2) else (rng.choice([0, iv - 1]),)):
                        check = rounded(issue, iv) + dk * iv + (edge if issue >= 0 else -edge)
                        if TMIN <= check <= TMAX:
                            plan.append((t, key, fp, iv, issue, check, "d%+d" % dk))
    # phase 1: generate the tokens with the model binary
    model = os.path.join(core.OCAML, "model_run")
    q = ["tokgen %s %s %s %d %d 0 0" % (t, hexs(k), fp, iv, issue) for (t, k, fp, iv, issue, check, rel) in plan]
    d_ = tempfile.mkdtemp(dir=core.CACHE); outs = core.run_lines(model, q, d_, "tok"); shutil.rmtree(d_, ignore_errors=True)
    def clk(n): return "min" if n < TMIN + 2 ** 33 else ("max" if n > TMAX - 2 ** 33 else ("neg" if n < 0 else "pos"))
    for (t, k, fp, iv, issue, check, rel), o, line in zip(plan, outs, q):
        tok = o.split()[1]
        fk = "nofp" if fp == "none" else ("emptyfp" if fp == "-" else "fp")
        cases.append(Case(line, "gen %s iv=%d %s" % (fk, iv, clk(issue)), True))
        for step in (0, iv) if iv < 10 ** 6 and abs(check) < 2 ** 62 else (0,):
            cases.append(Case("tokval %s %s %s %s %d %d 0 %d" % (t, tok, hexs(k), fp, iv, check, step), "val %s iv=%d %s %s tick=%d" % (fk, iv, clk(check), rel, 1 if step else 0), True,
                              spec="spec.tokval %s %s %s %s %d %d" % (t, tok, hexs(k), fp, iv, check)))
        r = rng.random()
        if r < 0.5:
            # binding: other key / fingerprint kind / hash / interval, and mangled tokens
            other_fp = rng.choice([f for f in fps if f != fp])
            cases.append(Case("tokval %s %s %s %s %d %d 0 0" % (t, tok, hexs(k), other_fp, iv, check), "val other-fp %s->%s" % (fk, "nofp" if other_fp == "none" else ("emptyfp" if other_fp == "-" else "fp")), True,
                              spec="spec.tokval %s %s %s %s %d %d" % (t, tok, hexs(k), other_fp, iv, check)))
            k2 = bytes(k) + b"x"
            cases.append(Case("tokval %s %s %s %s %d %d 0 0" % (t, tok, hexs(k2), fp, iv, check), "val other-key", True,
                              spec="spec.tokval %s %s %s %s %d %d" % (t, tok, hexs(k2), fp, iv, check)))
            t2 = rng.choice([h for h in HASHES if h != t])
            cases.append(Case("tokval %s %s %s %s %d %d 0 0" % (t2, tok, hexs(k), fp, iv, check), "val other-hash", True,
                              spec="spec.tokval %s %s %s %s %d %d" % (t2, tok, hexs(k), fp, iv, check)))
            raw = bytes.fromhex(tok)
            for m, what in [(raw.upper(), "upper"), (raw[:-1], "short"), (raw + b"0", "long"), (raw[:-1] + (b"0" if raw[-1:] != b"0" else b"1"), "nibble"), (b"", "empty")]:
                cases.append(Case("tokval %s %s %s %s %d %d 0 0" % (t, hexs(m), hexs(k), fp, iv, check), "val mangled-" + what, True,
                                  spec="spec.tokval %s %s %s %s %d %d" % (t, hexs(m), hexs(k), fp, iv, check)))
    # every other byte value at a few positions of a genuine, currently valid token (a decoder that accepts a character it should not
    # makes a forged twin of the token valid): first, second, last two and one random position x 255 values
    swept = set()
    for (t, k, fp, iv, issue, check, rel), o in zip(plan, outs):
        fk = "nofp" if fp == "none" else "fp"
        if rel != "d+0" or (t, fk) in swept or abs(check) > 2 ** 40 or (tier == "quick" and len(swept) >= 2): continue
        swept.add((t, fk)); raw = bytearray(bytes.fromhex(o.split()[1]))
        # positions: the first even-index and the first odd-index occurrence of the digits a hex decoder treats specially, plus the ends
        poss = set([0, len(raw) - 1])
        for ch in b"019af":
            for par in (0, 1):
                cand = [i for i in range(len(raw)) if raw[i] == ch and i % 2 == par]
                if cand: poss.add(cand[0])
        vals = list(range(0x20, 0x7F)) + [0x00, 0x0A, 0x7F, 0x80, 0xB0, 0xC7, 0xE6, 0xFF] if tier == "quick" else list(range(256))
        for pos in sorted(poss):
            for v in vals:
                if v == raw[pos]: continue
                m = bytearray(raw); m[pos] = v
                cases.append(Case("tokval %s %s %s %s %d %d 0 0" % (t, hexs(bytes(m)), hexs(k), fp, iv, check), "val one-char-substituted %s" % fk, True,
                                  spec="spec.tokval %s %s %s %s %d %d" % (t, hexs(bytes(m)), hexs(k), fp, iv, check)))
    # errno rule and invalid intervals
    for now, err in [(-1, 1), (-1, 0), (5, 1), (0, 1), (TMIN, 1), (TMAX, 1)]:
        for fp in ("none", hexs(b"fp")):
            cases.append(Case("tokgen sha256 6b %s 60 %d %d 0" % (fp, now, err), "gen errno now=%d err=%d" % (now if abs(now) < 10 else 99, err), now != -1 or not err))
            cases.append(Case("tokval sha256 00 6b %s 60 %d %d 0" % (fp, now, err), "val errno now=%d err=%d" % (now if abs(now) < 10 else 99, err), now != -1 or not err))
    for iv in (0, -1, -2 ** 31):
        for fp in ("none", hexs(b"fp")):
            cases.append(Case("tokgen sha256 6b %s %d 100 0 0" % (fp, iv), "gen bad-interval", False))
            cases.append(Case("tokval sha256 00 6b %s %d 100 0 0" % (fp, iv), "val bad-interval", False))
    return cases

def key(case, impl, model):
    p = case.line.split(); return " ".join([p[0]] + p[-5:])
