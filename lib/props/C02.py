from core import Case, hexs
from gen_util import *
PID = "C02"
SOURCE_TIE = ["tie_hmac_pads", "tie_hex_lut"]   # coq_tie/Tie_Source.v against Gen_Source.v regenerated from /repo on every run
DRIVER = "drv_pure"
RULE = ("get_hmac: pointer / vector<uint8_t> / vector<char> forms (binary) and vector-key / secure_buffer-key / string-key forms "
        "x is_hex x is_upper, vs model get_hmac_raw / get_hmac_str; rejected calls (overflow_error) interleaved so that per-thread or "
        "static state left behind would show; classes = hash x key length class x message length class x form; "
        "non-trivial = always (two compressions at least)")

def gen(rng, tier):
    cases = []
    for t in HASHES:
        b = BS[t]; d = DS[t]
        klens = [0, 1, d - 1, d, d + 1, b - 1, b, b + 1, 2 * b, 2 * b + 1] + [rng.randrange(0, 3 * b) for _ in range(3 if tier == "quick" else 12)]
        thr = b - LB[t] - 1
        mlens = [0, 1, thr - 1, thr, thr + 1, b - 1, b, b + 1, b + thr, b + thr + 1, 2 * b] + [rng.randrange(0, 3 * b) for _ in range(3 if tier == "quick" else 12)]
        def kc(kl): return "k<B" if kl < b else ("k=B" if kl == b else "k>B")
        for kl in klens:
            for ml in mlens:
                k = contents(rng, kl); m = contents(rng, ml)
                cases.append(Case("hmac %s %s %s" % (t, hexs(k), hexs(m)), "%s %s kl=%d m%%B=%d" % (t, kc(kl), kl if kl <= b + 1 else -1, ml % b), True,
                                  spec="spec.hmac %s %s %s" % (t, hexs(k), hexs(m))))
        # MACs with a special value (trailing / leading zero byte, 0xFF, newline ...): binary and hex string forms, every key form
        for name, pred in DIGEST_PREDS:
            k = contents(rng, rng.choice([5, 20, b + 1]), "rand"); m = mine_hmac_message(rng, t, k, pred)
            if m is not None:
                cases.append(Case("hmac %s %s %s" % (t, hexs(k), hexs(m)), "%s mac-%s" % (t, name), True, spec="spec.hmac %s %s %s" % (t, hexs(k), hexs(m))))
                for ih in (0, 1):
                    cases.append(Case("hmacstr %s %s %s %d 0" % (t, hexs(k), hexs(m), ih), "%s str mac-%s hex=%d" % (t, name, ih), True, spec="spec.hmacstr %s %s %s %d 0" % (t, hexs(k), hexs(m), ih)))
        # coinciding operands: key and message are the same bytes / the same length
        for n in [1, d, b, b + 1]:
            k = contents(rng, n, "rand"); m2 = contents(rng, n, "rand")
            cases.append(Case("hmac %s %s %s" % (t, hexs(k), hexs(k)), "%s key==msg %s" % (t, kc(n)), True, spec="spec.hmac %s %s %s" % (t, hexs(k), hexs(k))))
            cases.append(Case("hmacstr %s %s %s 1 0" % (t, hexs(k), hexs(m2)), "%s str |key|==|msg| %s" % (t, kc(n)), True, spec="spec.hmacstr %s %s %s 1 0" % (t, hexs(k), hexs(m2))))
        # a rejected call, then calls with a SHORTER effective key: stale state would surface here
        for kl_big in [b, b - 1, 2 * b + 1]:
            kbig = contents(rng, kl_big, "ff")
            for kl in [0, 1, d - 1, b - 2]:
                k = contents(rng, kl, "rand"); m = contents(rng, rng.randrange(0, 40), "rand")
                cases.append(Case("hmacovf %s %s" % (t, hexs(kbig)), "%s overflow-reject" % t, True))
                cases.append(Case("hmac %s %s %s" % (t, hexs(k), hexs(m)), "%s after-reject kl=%d" % (t, kl), True,
                                  spec="spec.hmac %s %s %s" % (t, hexs(k), hexs(m))))
                cases.append(Case("hmacovf %s %s" % (t, hexs(kbig)), "%s overflow-reject" % t, True))
                cases.append(Case("hmacstr %s %s %s 1 0" % (t, hexs(k), hexs(m)), "%s str after-reject kl=%d" % (t, kl), True,
                                  spec="spec.hmacstr %s %s %s 1 0" % (t, hexs(k), hexs(m))))
        for kl in [0, 1, b - 1, b, b + 1, 2 * b + 1]:
            for ml in [0, 1, thr, thr + 1, b + 3]:
                for ih in (0, 1):
                    for iu in (0, 1):
                        k = contents(rng, kl); m = contents(rng, ml)
                        cases.append(Case("hmacstr %s %s %s %d %d" % (t, hexs(k), hexs(m), ih, iu),
                                          "%s str %s hex=%d up=%d" % (t, kc(kl), ih, iu), True,
                                          spec="spec.hmacstr %s %s %s %d %d" % (t, hexs(k), hexs(m), ih, iu)))
    for up in (0, 1):
        allb = bytes(range(256))
        cases.append(Case("tohex %d %s" % (up, hexs(allb)), "tohex all-bytes up=%d" % up, True, spec="spec.tohex %d %s" % (up, hexs(allb))))
        cases.append(Case("tohex %d -" % up, "tohex empty", False, spec="spec.tohex %d -" % up))
        for _ in range(10):
            m = contents(rng, rng.randrange(1, 100))
            cases.append(Case("tohex %d %s" % (up, hexs(m)), "tohex rand up=%d" % up, True, spec="spec.tohex %d %s" % (up, hexs(m))))
    # every API family once during static initialisation of the driver (before the library's own dynamic initialisers have run)
    cases.append(Case("staticinit", "static-initialisation battery", True, spec="staticinit"))
    return cases

def extra(ctx):
    """A key of more than 2^32 bytes in one call: the MAC must equal the MAC under the key's digest (RFC 2104 key rule), one-shot and streaming."""
    import core
    n = 2 ** 32 + 20
    hs = HASHES if ctx["tier"] == "thorough" else ["sha256"]
    lines = ["hmachuge %s %d %d" % (t, n, 1 if ctx["tier"] == "thorough" else 0) for t in hs]
    res = core.run_lines(ctx["drv"], lines, ctx["rundir"], "hugekey", shards=len(lines), timeout=1500)
    ctx["extra_cov"]["key_over_4GiB"] = dict(bytes=n, results=[r[:40] for r in res])
    return [("hugekey", "a key of %d bytes: %s" % (n, r[:500]), dict(key="hmachuge %s" % t, cases=[dict(case=l)], implementation=r, spec="agree"))
            for t, l, r in zip(hs, lines, res) if r != "agree"]

def key(case, impl, model):
    p = case.line.split()
    return " ".join(p[:2]) + " " + " ".join("len=%d" % (0 if x == "-" else len(x) // 2) for x in p[2:4])
