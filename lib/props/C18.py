from core import Case, hexs
import core
import re, os
PID = "C18"
DRIVER = "drv_heap"
MATRIX = core.MATRIX_ZEROING     # thorough tier: -O0/-O2/-O3, clang, explicit_bzero on/off, mlock on/off
DRIVER_FLAGS = ("-w",)
RULE = ("operation histories (set, rotate_nonce, clear, move-in from a temporary, move-out) on a real secret_string; after every step the stored ciphertext / nonce / tag read through the "
        "HMAC_CPP_VERIF accessors are compared BYTE FOR BYTE with the model run on the process key and nonces read back from the object, the revealed bytes with the model's and with the "
        "last stored plaintext; every single-bit flip of tag and nonce, bit flips and truncation of the ciphertext must give the integrity error; callbacks that throw std::runtime_error and a non-std type "
        "with the heap interposer looking for the plaintext in released blocks; the stored bytes are scanned for 8-byte windows of the plaintext; lengths 0, 1, 31, 32, 33, 64, 65, 100, 200; "
        "classes = op-kind sequence x length classes; non-trivial = a non-empty plaintext is stored at some step")

def lcls(n): return "0" if n == 0 else ("<32" if n < 32 else ("=32" if n == 32 else ("33-64" if n <= 64 else ">64")))

def gen(rng, tier):
    cases = []
    lens = [0, 1, 8, 31, 32, 33, 64, 65, 100, 200]
    def plain(n): return bytes(rng.randrange(1, 256) for _ in range(n))
    def add(ops, cls): cases.append(Case("sshist " + " ".join(ops), cls, any(o[0] in "SsbBIijJ" and len(o) > 3 for o in ops)))
    for n in lens:
        add(["S:" + hexs(plain(n))], "set len%s" % lcls(n))
        add(["S:" + hexs(plain(n)), "R"], "set-rotate len%s" % lcls(n))
        add(["S:" + hexs(plain(n)), "R", "R", "R"], "set-rotate3 len%s" % lcls(n))
        add(["I:" + hexs(plain(n)), "R", "O"], "movein-rotate-moveout len%s" % lcls(n))
        add(["S:" + hexs(plain(n)), "C", "R"], "set-clear-rotate len%s" % lcls(n))
        f = "sbBijJ"[lens.index(n) % 6]
        add([f + ":" + hexs(plain(n)), "X", "R", "M", f + ":" + hexs(plain(n // 2))], "forms %s-X-R-M len%s" % (f, lcls(n)))
    for _ in range(40 if tier == "quick" else 400):
        k = rng.randrange(2, 11 if tier == "quick" else 25); ops = []
        for _j in range(k):
            c = rng.choice("SSsbBRRRCIijJOXM")
            ops.append(c + ":" + hexs(plain(rng.choice(lens))) if c in "SsbBIijJ" else c)
        add(ops, "hist " + "".join(o[0] for o in ops)[:12])
    # fault sequences: every allocation of set / rotate_nonce fails in turn; afterwards the stored bytes still do not contain the plaintext
    # (the sweep also checks what C20 demands: bad_alloc, no leak, previous/new bytes or an integrity error)
    for n in [16, 32, 33, 80, 200]:
        p1 = plain(n); p2 = plain(rng.choice([16, 40, 100]))
        for api in ("ss_rotate", "ss_rotate_revealed", "ss_set", "ss_rotate_twice", "ss_rotate_move_rotate", "ss_rotate_moveassign_read"):
            cases.append(Case("oom %s %s %s" % (api, hexs(p1), hexs(p2)), "oom %s len%s" % (api, lcls(n)), True))
    # a secret longer than 2 MiB: keystream block counters beyond 65535 in set, reveal and rotate (the three loops must keep agreeing)
    cases.append(Case("ssbig %d" % (2 * 1024 * 1024 + 4103), "multi-MiB secret", True))
    return cases

STEP = re.compile(r"ct=(\S+?),nonce=(\S+?),tag=(\S+?),reveal=(.*?),heap=(\w+),wipe=(\w+),opaque=(\w+),tamper=(\S+)")

def derive(case, raw):
    """Build the model's input from what the implementation reports (process key, nonces), and the canonical implementation line."""
    if not case.line.startswith("sshist"):
        return (case.line, raw, case.line)          # allocation-failure sweeps: the model's verdict line is compared as it is
    parts = [p.strip() for p in raw.split("|")]
    ops = case.line.split()[1:]
    if not parts or not parts[0].startswith("pk=") or len(parts) != len(ops) + 1:
        return ("ssmodel 00 C", "UNPARSABLE " + raw[:200])
    pk = parts[0][3:]
    mops = []; canon = []; cur = b""
    for o, st in zip(ops, parts[1:]):
        m = STEP.match(st)
        if not m: return ("ssmodel 00 C", "UNPARSABLE " + raw[:200])
        nonce = m.group(2)
        if o[0] in "SsbBIijJ":      # every set() form is the model's set; every constructor moved in is the model's move-in
            mops.append("%s:%s:%s" % ("S" if o[0] in "SsbB" else "I", nonce, o[2:])); cur = bytes.fromhex(o[2:]) if o[2:] != "-" else b""
        elif o[0] == "R": mops.append("R:" + nonce)
        elif o[0] in "XM": mops.append("N")
        else: mops.append(o[0]); cur = b""
        canon.append("ct=%s,nonce=%s,tag=%s,reveal=%s,expected=%s,heap=%s,wipe=%s,opaque=%s,tamper=%s" %
                     (m.group(1), m.group(2), m.group(3), m.group(4), hexs(cur), m.group(5), m.group(6), m.group(7), m.group(8)))
    line = "ssmodel %s %s" % (pk, " ".join(mops))
    return (line, " | ".join(canon), line)      # the model (proved: C18_recall, C18_at_rest, C18_*_tamper) is the spec

def key(case, impl, model):
    return case.cls


def extra(ctx):
    """The same histories in a process that cannot lock memory (RLIMIT_MEMLOCK = 0, unprivileged): page locking is best-effort, but every stored byte,
    revealed value, integrity verdict and release-scan result must still be what the model says (derived and compared exactly as in the main run)."""
    if ctx["config"]["label"] != core.PRIMARY["label"]: return []
    cases = ctx["cases"]
    env = dict(os.environ); env["VERIF_NOMLOCK"] = "1"
    raw = core.run_lines(ctx["drv"], [c.line for c in cases], ctx["rundir"], "nomlock", env=env)
    if not raw or any(r.startswith("nomlock-unavailable") for r in raw[:3]):
        ctx["extra_cov"]["no_mlock_environment"] = "unavailable (cannot drop privileges here)"; return []
    pairs = [derive(c, r) for c, r in zip(cases, raw)]
    model = core.run_lines(ctx["model_exe"], [p[0] for p in pairs], ctx["rundir"], "nomlockmodel")
    out = []; diff = 0
    for c, p, m in zip(cases, pairs, model):
        if p[1] != m:
            diff += 1
            if len(out) < 2:
                out.append(("input", "with mlock unavailable (RLIMIT_MEMLOCK=0, uid nobody) the implementation differs from the model: %s vs %s" % (p[1][:300], m[:300]),
                            dict(key="nomlock " + c.cls, cases=[dict(case=c.line)], implementation=p[1][:600], model=m[:600], env="VERIF_NOMLOCK=1")))
    ctx["extra_cov"]["no_mlock_environment"] = dict(cases=len(cases), differing=diff)
    return out
