from core import Case, hexs
import core, os, subprocess, random, importlib, sys, re, time
PID = "C12"
DRIVER = "drv_pure"
SAN_FLAGS = ("-fsanitize=address,undefined", "-fno-sanitize-recover=all", "-g", "-fno-omit-frame-pointer")
RULE = ("(a) direct cases: decoders and the digest-truncation helper on arbitrary bytes (all single bytes at each position class, random strings with high-bit bytes, every digest length 0..70 x offset nibble) vs the models; "
        "(b) the correspondence corpora of C01-C09, C11, C13-C16, C18 (sampled in the quick tier) re-run on an ASan+UBSan+LSan build of the drivers (g++ -O1): any sanitizer report, abort or leak is a violation; "
        "classes = direct-case class, or (property, sanitizer) for the re-run corpora; non-trivial = reaches library code")
CORPORA = [("C01", "drv_pure", 3), ("C02", "drv_pure", 2), ("C03", "drv_pure", 6), ("C04", "drv_pure", 3), ("C05", "drv_pure", 2), ("C06", "drv_pure", 3), ("C07", "drv_pure", 4),
           ("C08", "drv_pure", 5), ("C09", "drv_pure", 2), ("C11", "drv_args", 4), ("C13", "drv_pure", 2), ("C14", "drv_pure", 3), ("C15", "drv_pure", 2), ("C16", "drv_heap", 1), ("C18", "drv_heap", 2)]

def gen(rng, tier):
    cases = []
    # decoders on arbitrary bytes
    for _ in range(400 if tier == "quick" else 5000):
        L = rng.randrange(0, 40); s = bytes(rng.choice([rng.randrange(256), 0x41, 0x3D, 0x80 | rng.randrange(128), 0x20]) for _ in range(L))
        l1 = "b64dec %d %d %d %s" % (rng.randrange(2), rng.randrange(2), rng.randrange(2), hexs(s)); cases.append(Case(l1, "b64dec-anybytes L%%4=%d" % (L % 4), L > 0, spec="spec." + l1))
        l2 = "b32dec %d %d %s" % (rng.randrange(2), rng.randrange(2), hexs(s)); cases.append(Case(l2, "b32dec-anybytes L%%8=%d" % (L % 8), L > 0, spec="spec." + l2))
        l3 = "b36dec %s" % hexs(s); cases.append(Case(l3, "b36dec-anybytes", L > 0, spec="spec." + l3))
    # unpadded tails with a high byte in every tail position (signed-char table index)
    A = b"ABCDEFGH"
    for tail in (2, 4, 5, 7):
        for pos in range(tail):
            for hb in (0x80, 0xC1, 0xFF):
                t = bytearray(A[:tail]); t[pos] = hb
                for pre in (b"", A):
                    l = "b32dec 0 %d %s" % (rng.randrange(2), hexs(pre + bytes(t))); cases.append(Case(l, "b32dec-tail%d-highbyte" % tail, True, spec="spec." + l))
    for tail in (2, 3):
        for pos in range(tail):
            t = bytearray(b"QUJD"[:tail]); t[pos] = 0xDA
            l = "b64dec 0 0 %d %s" % (rng.randrange(2), hexs(b"QUJD" + bytes(t))); cases.append(Case(l, "b64dec-tail%d-highbyte" % tail, True, spec="spec." + l))
    # the digest-truncation helper on any digest
    for ln in range(0, 71 if tier == "thorough" else 40):
        for nib in (0, 1, 11, 12, 15) if tier == "quick" else range(16):
            dg = bytearray(rng.randrange(256) for _ in range(ln))
            if ln: dg[-1] = (dg[-1] & 0xF0) | nib
            cases.append(Case("hotpdg %s %d" % (hexs(bytes(dg)), rng.randrange(1, 10)), "hotpdg len=%d %s" % (min(ln, 21), "short" if ln < nib + 4 else "ok"), ln > 0))
    # comparisons where one side is longer (over-read of the shorter operand would show under ASan)
    for la in [0, 1, 8, 40, 64, 65, 128, 200]:
        for lb in [0, 1, 8, 40, 64, 65, 128, 200]:
            cases.append(Case("cteq %s %s" % (hexs(bytes(la)), hexs(bytes(lb))), "cteq-lengths", la + lb > 0, spec="spec.eq %s %s" % (hexs(bytes(la)), hexs(bytes(lb)))))
    return cases

def _run_san(exe, lines, rundir, tag):
    """run exe on lines in shards, capturing stderr; returns (outputs, reports)"""
    n = len(lines); shards = min(core.NCPU, max(1, n // 40)); per = (n + shards - 1) // shards
    procs = []
    env = dict(os.environ); env["ASAN_OPTIONS"] = "detect_leaks=1:abort_on_error=0:exitcode=99:allocator_may_return_null=1"; env["UBSAN_OPTIONS"] = "print_stacktrace=0:halt_on_error=1:exitcode=98"
    for s in range(shards):
        part = lines[s * per:(s + 1) * per]
        if not part: continue
        fn = os.path.join(rundir, "%s.%d.cases" % (tag, s)); open(fn, "w").write("\n".join(part) + "\n")
        procs.append((subprocess.Popen([exe, fn], stdout=subprocess.PIPE, stderr=subprocess.PIPE, env=env), part))
    reports = []
    for p, part in procs:
        try: out, err = p.communicate(timeout=1500)
        except subprocess.TimeoutExpired: p.kill(); out, err = b"", b"TIMEOUT"
        err = err.decode(errors="replace"); outl = out.decode(errors="replace").split("\n")
        # a write just past a string's last character stays inside its allocation (no sanitizer report): the drivers check the terminator themselves
        for l, o in zip(part, outl):
            if "STRING-NOT-TERMINATED" in o:
                reports.append(dict(case=l[:400], report="a returned std::string is not terminated after its last character (a write outside [0, size()))", rc=0))
        bad = p.returncode != 0 or re.search(r"runtime error|AddressSanitizer|LeakSanitizer|UndefinedBehaviorSanitizer", err)
        if bad:
            done = len([l for l in outl if l])          # the case being executed when the report was raised
            culprit = part[min(done, len(part) - 1)] if part else ""
            m = re.search(r"(runtime error:[^\n]*|ERROR: AddressSanitizer[^\n]*|ERROR: LeakSanitizer[^\n]*|SUMMARY:[^\n]*)", err)
            reports.append(dict(case=culprit[:400], report=(m.group(1) if m else err[-300:])[:300], rc=p.returncode))
    return reports

def extra(ctx):
    out = []; rundir = ctx["rundir"]; tier = ctx["tier"]; rng = random.Random(ctx["seed"] + 12)
    built = {}
    total = 0; t0 = time.monotonic(); per_prop = {}
    sys.path.insert(0, os.path.join(core.VERIF, "lib", "props"))
    for pid, drvname, k in CORPORA:
        if drvname not in built:
            # without HAVE_EXPLICIT_BZERO (as the project's own build): explicit_bzero is not intercepted by ASan, the fallback wipe loop is instrumented
            exe, log = core.ensure_driver(drvname, SAN_FLAGS + (("-w",) if drvname == "drv_heap" else ()), opt="-O1",
                                          defs=["-std=c++11", "-DHMAC_CPP_VERIF", "-DHMAC_CPP_ENABLE_MLOCK"])
            if exe is None:
                out.append(("build", "sanitizer build of %s failed: %s" % (drvname, log[-400:]), dict(key="sanitizer-build " + drvname))); built[drvname] = None; continue
            built[drvname] = exe
        exe = built[drvname]
        if exe is None: continue
        mod = importlib.import_module(pid)
        cs = mod.gen(random.Random(ctx["seed"] * 1000003 + sum(map(ord, pid))), "quick")
        lines = [c.line for c in cs]
        if tier == "quick": lines = lines[::k] if k > 1 else lines
        lines = [l for l in lines if not l.startswith(("cteqbig", "cteqfill", "pbkdf2end"))]                  # huge loops under ASan take minutes and touch no new code
        if pid == "C11": lines = [l for l in lines if " 1000000 " not in l]       # the accepted iteration limit takes minutes under ASan
        reps = _run_san(exe, lines, rundir, "san_" + pid)
        total += len(lines); per_prop[pid] = len(lines)
        for r in reps[:3]:
            out.append(("sanitizer", "sanitizer report while running the %s corpus: %s" % (pid, r["report"]),
                        dict(key="sanitizer %s %s" % (pid, r["report"][:80]), cases=[dict(case=r["case"])], implementation=r["report"], build=" ".join(SAN_FLAGS))))
    # the direct cases of this property as well
    exe = built.get("drv_pure")
    if exe:
        reps = _run_san(exe, [c.line for c in ctx["cases"]], rundir, "san_C12"); total += len(ctx["cases"])
        for r in reps[:3]:
            out.append(("sanitizer", "sanitizer report on a direct case: %s" % r["report"], dict(key="sanitizer C12 %s" % r["report"][:80], cases=[dict(case=r["case"])], implementation=r["report"], build=" ".join(SAN_FLAGS))))
    ctx["extra_cov"].update(dict(sanitizer_cases_run=total, sanitizer_cases_per_property=per_prop, sanitizer_build="g++ -O1 " + " ".join(SAN_FLAGS), sanitizer_wall_s=round(time.monotonic() - t0, 1)))
    return out

def key(case, impl, model):
    p = case.line.split(); return p[0] + " " + case.cls
