from core import Case, hexs
import base64 as pyb64, itertools
PID = "C13"
SOURCE_TIE = ['tie_b64']      # theorems of coq_tie/Tie_Source.v re-checked against Gen_Source.v regenerated from /repo on every run
DRIVER = "drv_pure"
RULE = ("base64_encode (ptr, vector, secure_buffer, defaults) and base64_decode (reused vector / secure_buffer outputs + fresh vector) vs the models; encoder: all byte strings of length <= 2 "
        "(sampled grid), length 3-5 pairwise, random to 200 bytes x 2 alphabets x pad; decoder: every string over a reduced 12-symbol alphabet up to length 4-5, valid encodings mutated "
        "('=' moved / added / removed, whitespace at every position, '+/' vs '-_' under both alphabets, high-bit bytes whose low 7 bits are alphabet characters or '='), all pad-run lengths in "
        "the last and an inner quartet, every L mod 4 x require_padding x strict x alphabet; classes = op x flags x (L mod 4) x mutation kind; non-trivial = non-empty input")

def gen(rng, tier):
    cases = []
    def enc(url, pad, d, cls): cases.append(Case("b64enc %d %d %s" % (url, pad, hexs(d)), "enc url=%d pad=%d %s" % (url, pad, cls), len(d) > 0, spec="spec.b64enc %d %d %s" % (url, pad, hexs(d))))
    def dec(url, req, strict, s, cls):
        cases.append(Case("b64dec %d %d %d %s" % (url, req, strict, hexs(s)), "dec url=%d req=%d strict=%d L%%4=%d %s" % (url, req, strict, len(s) % 4, cls), len(s) > 0,
                          spec="spec.b64dec %d %d %d %s" % (url, req, strict, hexs(s))))
    def alldec(s, cls, frac=1.0):
        for url in (0, 1):
            for req in (0, 1):
                for strict in (0, 1):
                    if frac >= 1.0 or rng.random() < frac: dec(url, req, strict, s, cls)
    for url in (0, 1):
        for pad in (0, 1):
            enc(url, pad, b"", "empty")
            for a in range(0, 256, 1 if tier == "thorough" else 3): enc(url, pad, bytes([a]), "len1")
            for a in range(0, 256, 7 if tier == "quick" else 1):
                for b in range(0, 256, 23 if tier == "quick" else 5): enc(url, pad, bytes([a, b]), "len2")
            vals = [0x00, 0xFF, 0xFB, 0x3E]
            for n in (3, 4, 5):
                for i in range(n):
                    for j in range(i + 1, n):
                        for x in vals:
                            for y in vals:
                                g = bytearray([0xA5] * n); g[i] = x; g[j] = y; enc(url, pad, bytes(g), "pairwise n=%d" % n)
            for n in list(range(0, 10)) + [rng.randrange(10, 200) for _ in range(15 if tier == "quick" else 150)]:
                enc(url, pad, bytes(rng.randrange(256) for _ in range(n)), "rand n%%3=%d" % (n % 3))
    alldec(b"", "empty")
    STD = b"ABCDEFGHIJKLMNOPQRSTUVWXYZabcdefghijklmnopqrstuvwxyz0123456789+/"
    URL = STD[:62] + b"-_"
    for n in range(0, 16):
        d = bytes(rng.choice([0xFB, 0xFF, 0xEF, 0xBE, rng.randrange(256)]) for _ in range(n))   # bytes that produce '+', '/', '-', '_'
        for e in (pyb64.b64encode(d), pyb64.urlsafe_b64encode(d)):
            alldec(e, "valid-padded n%%3=%d" % (n % 3)); alldec(e.rstrip(b"="), "valid-unpadded n%%3=%d" % (n % 3))
            for pos in range(0, len(e) + 1):
                ws = rng.choice([b" ", b"\n", b"\r", b"\t", b" \n"])
                alldec(e[:pos] + ws + e[pos:], "whitespace", 0.35 if tier == "quick" else 1.0)
            if e:
                for _ in range(5):
                    pos = rng.randrange(len(e)); bad = bytes([rng.choice([0x00, 0x7F, 0x80, 0xDA, 0xBD, 0xC1, 0xAB, 0xAF, 0xAD, 0xDF, e[pos] | 0x80, 0xFF, 0x2E, 0x2A, 0x2C])])
                    alldec(e[:pos] + bad + e[pos + 1:], "badchar", 0.5)
                for pos in range(len(e)):
                    alldec(e[:pos] + b"=" + e[pos + 1:], "eq-moved", 0.25)
                alldec(e + b"=", "eq-added", 0.5); alldec(b"=" + e, "eq-front", 0.25)
    for k in range(0, 5):
        body = bytes(rng.choice(STD[:62]) for _ in range(4 - k))
        alldec(body + b"=" * k, "last-quartet pad-run=%d" % k)
        alldec(bytes(rng.choice(STD[:62]) for _ in range(4)) + body + b"=" * k, "second-quartet pad-run=%d" % k)
        alldec(body + b"=" * k + bytes(rng.choice(STD[:62]) for _ in range(4)), "inner-quartet pad-run=%d" % k)
        for tail in (1, 2, 3):
            alldec(body + b"=" * k + bytes(rng.choice(STD[:62]) for _ in range(tail)), "padded-quartet+tail%d pad-run=%d" % (tail, k))
    small = b"Az09+/-_= \n\x80"
    maxl = 4 if tier == "quick" else 5
    for L in range(1, maxl + 1):
        for tup in itertools.product(small, repeat=L):
            if tier == "quick" and L == 4 and rng.random() < 0.75: continue
            if tier == "thorough" and L == 5 and rng.random() < 0.8: continue
            dec(rng.randrange(2), rng.randrange(2), rng.randrange(2), bytes(tup), "exhaustive-small")
    for _ in range(300 if tier == "quick" else 4000):
        L = rng.randrange(1, 30); alldec(bytes(rng.choice(STD + b"-_== \n\x80") for _ in range(L)), "random-mixed", 0.5)
    # text that decodes to NOTHING (only whitespace, lenient mode) right after a successful decode into the same reused output objects, and NUL / control
    # bytes that a whitespace test written with a C string might swallow
    for ws in [b" ", b"\n", b"\r\n", b" \t ", b"\n\n\n\n", b"\x00", b"\x0b", b"\x0c", b"Zm9v\x00", b"Zm\x009v", b"Zg\x00=="]:
        for url in (0, 1):
            for req in (0, 1):
                for strict in (0, 1):
                    dec(url, req, strict, b"Zm9vYmFy", "prime-before-empty-result")
                    dec(url, req, strict, ws, "decodes-to-nothing-or-control")
    # every API family once during static initialisation of the driver (before the library's own dynamic initialisers have run)
    cases.append(Case("staticinit", "static-initialisation battery", True, spec="staticinit"))
    return cases

def key(case, impl, model):
    p = case.line.split(); return " ".join(p[:-1]) + " len=%d" % (0 if p[-1] == "-" else len(p[-1]) // 2)
