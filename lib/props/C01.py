from core import Case, hexs
from gen_util import *
PID = "C01"
SOURCE_TIE = ['tie_K256', 'tie_K512', 'tie_IV256', 'tie_IV512', 'tie_rounds', 'tie_IV1', 'tie_K1', 'tie_256_funcs', 'tie_512_funcs', 'tie_256_sched', 'tie_512_sched', 'tie_256_round', 'tie_512_round', 'tie_sha1_rol', 'tie_sha1_rounds', 'tie_sha1_blk', 'blk_idx_sweep', 'tie_finish_params', 'tie_256_block_nb', 'tie_512_block_nb', 'block_nb_sweep_256', 'block_nb_sweep_512', 'tie_pm_len', 'tie_len_b']      # theorems of coq_tie/Tie_Source.v re-checked against Gen_Source.v regenerated from /repo on every run
DRIVER = "drv_pure"
RULE = ("every entry point (raw, ptr->vector, vector<uint8_t>, vector<char>, string->hex, get_hash x4) on one message vs "
        "model hash_oneshot; contexts with injected totals (2^29, 2^32, 2^61 boundaries) vs the context model; "
        "classes = hash x (length mod block) x content family; non-trivial = reaches the compression function (always)")

def gen(rng, tier):
    cases = []
    for t in HASHES:
        b = BS[t]
        top = 300 if tier == "quick" else 600
        for n in range(0, top + 1):
            kinds = ["rand"] if tier == "quick" and n > 2 * b + 4 else ["rand", rng.choice(["zero", "ff", "80", "inc"])]
            for kind in kinds:
                m = contents(rng, n, kind)
                cases.append(Case("sha %s %s" % (t, hexs(m)), "%s len%%%d=%d %s" % (t, b, n % b, kind), True,
                                  spec="spec.sha %s %s" % (t, hexs(m))))
        # the hex-string convenience form on its own (model: hash_hexstr)
        for n in [0, 1, b - 1, b, b + 1, 200]:
            m = contents(rng, n)
            cases.append(Case("hexstr %s %s" % (t, hexs(m)), "%s hexstr" % t, True))
        for _ in range(12 if tier == "quick" else 60):
            n = rng.randrange(300, 4096 if tier == "quick" else 65536)
            m = contents(rng, n, "rand")
            cases.append(Case("sha %s %s" % (t, hexs(m)), "%s long len%%%d=%d" % (t, b, n % b), True,
                              spec="spec.sha %s %s" % (t, hexs(m))))
        # the incremental context as an entry point: the same message through several update calls
        for _ in range(80 if tier == "quick" else 600):
            n = rng.randrange(1, 3 * b + 5); m = contents(rng, n, "rand")
            cuts = sorted(rng.randrange(0, n + 1) for _ in range(rng.choice([1, 2, 3])))
            parts = [m[x:y] for x, y in zip([0] + cuts, cuts + [n])]
            cases.append(Case("shahist %s I %s F" % (t, " ".join("U:" + hexs(p) for p in parts)),
                              "%s incremental first%%B=%d n%%B=%d" % (t, len(parts[0]) % b, n % b), True,
                              spec="spec.cat %s %s" % (t, hexs(m))))
        # messages whose DIGEST has a special value (trailing / leading zero byte, 0xFF, newline, two zero bytes): every entry point, incl. the string forms
        for name, pred in DIGEST_PREDS:
            m = mine_message(rng, t, pred)
            if m is not None:
                cases.append(Case("sha %s %s" % (t, hexs(m)), "%s digest-%s" % (t, name), True, spec="spec.sha %s %s" % (t, hexs(m))))
        # the context as an object: copies, self-assignment, assignment onto a used context, save / restore
        for a_len in [1, b - 9, b, b + 1, rng.randrange(0, 3 * b)]:
            a = contents(rng, a_len, "rand"); bb = contents(rng, rng.choice([0, 1, 9, b]), "rand"); junk = contents(rng, rng.choice([1, b + 3]), "rand")
            for opx in ["K", "Y", "G:" + hexs(junk), "V R"]:
                cases.append(Case("shahist %s I U:%s %s U:%s F" % (t, hexs(a), opx, hexs(bb)), "%s object-op %s a%%B=%d" % (t, opx[0], a_len % b), True, spec="spec.cat %s %s" % (t, hexs(a + bb))))
        # state-injected totals: length-field arithmetic at sizes no run can reach
        for total in [2 ** 29, 2 ** 32, 2 ** 35, 2 ** 61 - 2 * b, 2 ** 61 - b]:
            for delta in [-2 * b, -b, 0, b]:
                tot = total + delta
                if tot < 0 or tot >= 2 ** 61: continue
                for tail in [0, 1, b - LB[t] - 2, b - LB[t] - 1, b - LB[t], b - 1, b, b + 3]:
                    m = contents(rng, tail, "rand")
                    cases.append(Case("shahist %s I J:%d U:%s F" % (t, tot, hexs(m)),
                                      "%s inject 2^%d tail-%s" % (t, total.bit_length() - 1, pad_class(t, tail)), True))
    # every API family once during static initialisation of the driver (before the library's own dynamic initialisers have run)
    cases.append(Case("staticinit", "static-initialisation battery", True, spec="staticinit"))
    return cases

def extra(ctx):
    """One update() call of more than 2^32 bytes (zero pages): the one-shot forms, get_hash and a 16 MiB-chunked context must agree;
    when they do not, hashlib (search oracle only) tells which form is wrong."""
    import hashlib, core
    n = 2 ** 32 + 69
    lines = ["shahuge %s %d %d" % (t, n, 1 if ctx["tier"] == "thorough" else 0) for t in HASHES]
    res = core.run_lines(ctx["drv"], lines, ctx["rundir"], "huge", shards=3, timeout=1500)
    ctx["extra_cov"]["single_call_over_4GiB"] = dict(bytes=n, results=[r[:40] for r in res])
    out = []
    for t, r in zip(HASHES, res):
        if r == "agree": continue
        head = bytes((0x11 + i) & 255 for i in range(41)); tail = bytes((0xA5 ^ i) & 255 for i in range(41))[::-1]
        h = hashlib.new(t); h.update(head); chunk = bytes(1 << 24); left = n - 82
        while left > 0:
            k = min(left, len(chunk)); h.update(chunk[:k]); left -= k
        h.update(tail)
        out.append(("huge", "a single update of %d zero bytes: entry points disagree (%s); FIPS digest (hashlib) is %s" % (n, r[:400], h.hexdigest()),
                    dict(key="shahuge %s" % t, cases=[dict(case="shahuge %s %d 1" % (t, n))], implementation=r, spec="agree " + h.hexdigest())))
    return out

def search(ctx):
    """Injected-state cases disagree: look for a real message of that size on which the implementation differs
    from an independent FIPS implementation (python hashlib, search oracle only)."""
    import hashlib, re, core
    out = []; seen = set()
    for i in ctx["idx"]:
        m = re.match(r"shahist (\w+) I J:(\d+) U:(\S+) F", ctx["cases"][i].line)
        if not m: continue
        t, tot, tail = m.group(1), int(m.group(2)), m.group(3)
        n = tot + (0 if tail == "-" else len(tail) // 2)
        if n > 2 ** 33 + 1024 or (t, n) in seen or len(seen) >= 2: continue
        seen.add((t, n))
        res = core.run_lines(ctx["drv"], ["shabig %s %d 0" % (t, n)], ctx["rundir"], "big", shards=1, timeout=900)[0]
        h = hashlib.new(t); chunk = bytes(1 << 20); left = n
        while left > 0:
            k = min(left, len(chunk)); h.update(chunk[:k]); left -= k
        if res != h.hexdigest():
            out.append(("sha %s len=%d" % (t, n), dict(kind="input", property=PID, cases=[dict(case="shabig %s %d 0" % (t, n))],
                        implementation=res, spec=h.hexdigest(), note="message of %d zero bytes: implementation differs from FIPS 180-4 (oracle: hashlib); found after the injected-state correspondence broke" % n)))
    return out

def key(case, impl, model):
    p = case.line.split()
    return " ".join(p[:2]) + " len=%d" % (0 if p[-1] == "-" else len(p[-1]) // 2)
