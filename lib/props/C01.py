from core import Case, hexs
from gen_util import *
PID = "C01"
DRIVER = "drv_pure"
RULE = ("every entry point (raw, ptr->vector, vector<uint8_t>, vector<char>, string->hex, get_hash x4) on one message vs "
        "model hash_oneshot; contexts with injected totals (2^29, 2^32, 2^61 boundaries) vs the context model; "
        "classes = hash x (length mod block) x content family; non-trivial = reaches the compression function (always)")

def gen(rng, tier):
    cases = []
    for t in HASHES:
        b = BS[t]
        top = 300 if tier == "quick" else 600
        for n in range(0, top + 1):
            kinds = ["rand"] if tier == "quick" and n > 2 * b + 4 else ["rand", rng.choice(["zero", "ff", "80", "inc"])]
            for kind in kinds:
                m = contents(rng, n, kind)
                cases.append(Case("sha %s %s" % (t, hexs(m)), "%s len%%%d=%d %s" % (t, b, n % b, kind), True,
                                  spec="spec.sha %s %s" % (t, hexs(m))))
        # the hex-string convenience form on its own (model: hash_hexstr)
        for n in [0, 1, b - 1, b, b + 1, 200]:
            m = contents(rng, n)
            cases.append(Case("hexstr %s %s" % (t, hexs(m)), "%s hexstr" % t, True))
        for _ in range(12 if tier == "quick" else 60):
            n = rng.randrange(300, 4096 if tier == "quick" else 65536)
            m = contents(rng, n, "rand")
            cases.append(Case("sha %s %s" % (t, hexs(m)), "%s long len%%%d=%d" % (t, b, n % b), True,
                              spec="spec.sha %s %s" % (t, hexs(m))))
        # the incremental context as an entry point: the same message through several update calls
        for _ in range(80 if tier == "quick" else 600):
            n = rng.randrange(1, 3 * b + 5); m = contents(rng, n, "rand")
            cuts = sorted(rng.randrange(0, n + 1) for _ in range(rng.choice([1, 2, 3])))
            parts = [m[x:y] for x, y in zip([0] + cuts, cuts + [n])]
            cases.append(Case("shahist %s I %s F" % (t, " ".join("U:" + hexs(p) for p in parts)),
                              "%s incremental first%%B=%d n%%B=%d" % (t, len(parts[0]) % b, n % b), True,
                              spec="spec.cat %s %s" % (t, hexs(m))))
        # state-injected totals: length-field arithmetic at sizes no run can reach
        for total in [2 ** 29, 2 ** 32, 2 ** 35, 2 ** 61 - 2 * b, 2 ** 61 - b]:
            for delta in [-2 * b, -b, 0, b]:
                tot = total + delta
                if tot < 0 or tot >= 2 ** 61: continue
                for tail in [0, 1, b - LB[t] - 2, b - LB[t] - 1, b - LB[t], b - 1, b, b + 3]:
                    m = contents(rng, tail, "rand")
                    cases.append(Case("shahist %s I J:%d U:%s F" % (t, tot, hexs(m)),
                                      "%s inject 2^%d tail-%s" % (t, total.bit_length() - 1, pad_class(t, tail)), True))
    return cases

def search(ctx):
    """Injected-state cases disagree: look for a real message of that size on which the implementation differs
    from an independent FIPS implementation (python hashlib, search oracle only)."""
    import hashlib, re, core
    out = []; seen = set()
    for i in ctx["idx"]:
        m = re.match(r"shahist (\w+) I J:(\d+) U:(\S+) F", ctx["cases"][i].line)
        if not m: continue
        t, tot, tail = m.group(1), int(m.group(2)), m.group(3)
        n = tot + (0 if tail == "-" else len(tail) // 2)
        if n > 2 ** 33 + 1024 or (t, n) in seen or len(seen) >= 2: continue
        seen.add((t, n))
        res = core.run_lines(ctx["drv"], ["shabig %s %d 0" % (t, n)], ctx["rundir"], "big", shards=1, timeout=900)[0]
        h = hashlib.new(t); chunk = bytes(1 << 20); left = n
        while left > 0:
            k = min(left, len(chunk)); h.update(chunk[:k]); left -= k
        if res != h.hexdigest():
            out.append(("sha %s len=%d" % (t, n), dict(kind="input", property=PID, cases=[dict(case="shabig %s %d 0" % (t, n))],
                        implementation=res, spec=h.hexdigest(), note="message of %d zero bytes: implementation differs from FIPS 180-4 (oracle: hashlib); found after the injected-state correspondence broke" % n)))
    return out

def key(case, impl, model):
    p = case.line.split()
    return " ".join(p[:2]) + " len=%d" % (0 if p[-1] == "-" else len(p[-1]) // 2)
