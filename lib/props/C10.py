from core import Case, hexs
from gen_util import *
import core, os, subprocess, re, time
PID = "C10"
DRIVER = "drv_ct"
MATRIX_QUICK = [core.CONFIG_BZERO]   # both zeroing back-ends on every run
EXTRA_PER_CONFIG = True           # thorough tier: the memcheck run is repeated at -O0 / -O3 / clang
DRIVER_FLAGS = ("-g",)
RULE = ("constant_time_equals (3 forms), get_hmac (2 forms), streaming HmacContext incl. re-initialisation of the same object, PBKDF2 vector and caller-buffer forms (>= 2 iterations), "
        "pepper, HKDF extract / expand / key-iv, run natively (result vs model) AND under valgrind memcheck with every secret byte marked undefined: any conditional jump or address depending on an "
        "undefined value is a violation; lengths: comparisons 0..200 incl. > 64, keys below / at / above the block, messages over padding boundaries; "
        "classes = op x hash x length classes; non-trivial = a non-empty secret")

def gen(rng, tier):
    cases = []
    for la in [0, 1, 7, 8, 20, 32, 40, 63, 64, 65, 100, 128, 129, 200, 4095, 4096, 4097, 8192 + 100, 3 * 4096]:
        a = contents(rng, la, "rand")
        cases.append(Case("cteq %s %s" % (hexs(a), hexs(a)), "cteq equal len=%d" % la, la > 0, spec="spec.eq %s %s" % (hexs(a), hexs(a))))
        if la:
            for pos in sorted(set([0, la // 2, la - 1, min(la - 1, 64), min(la - 1, 70)])):
                b = bytearray(a); b[pos] ^= 0x40
                cases.append(Case("cteq %s %s" % (hexs(a), hexs(bytes(b))), "cteq diff len=%d chunk=%d" % (la, pos // 64), True, spec="spec.eq %s %s" % (hexs(a), hexs(bytes(b)))))
        cases.append(Case("cteq %s %s" % (hexs(a), hexs(a[:la // 2])), "cteq shorter len=%d" % la, la > 0, spec="spec.eq %s %s" % (hexs(a), hexs(a[:la // 2]))))
    for t in HASHES:
        b = BS[t]; d = DS[t]
        for kl in [0, 1, b - 1, b, b + 1, 2 * b + 3]:
            for ml in [0, 1, b - LB[t] - 1, b - LB[t], b + 5]:
                k = contents(rng, kl); m = contents(rng, ml)
                cases.append(Case("hmac %s %s %s" % (t, hexs(k), hexs(m)), "hmac %s k%s m%%B=%d" % (t, "<B" if kl < b else ("=B" if kl == b else ">B"), ml % b), True,
                                  spec="spec.hmac %s %s %s" % (t, hexs(k), hexs(m))))
        # streaming with re-keying of the SAME context object (same key again, and a different key)
        for kl in [1, b, b + 1]:
            k1 = contents(rng, kl); k2 = contents(rng, kl); m1 = contents(rng, rng.randrange(0, 2 * b)); m2 = contents(rng, rng.randrange(0, 2 * b))
            ops = ["I:" + hexs(k1), "U:" + hexs(m1[:5]), "U:" + hexs(m1[5:]), "F", "I:" + hexs(k1), "U:" + hexs(m2), "F", "I:" + hexs(k2), "U:" + hexs(m2), "F"]
            cases.append(Case("hmachist %s %s" % (t, " ".join(ops)), "hmachist %s rekey k%s" % (t, "<B" if kl < b else ("=B" if kl == b else ">B")), True,
                              spec="spec.hmaccat %s %s:%s %s:%s %s:%s" % (t, hexs(k1), hexs(m1), hexs(k1), hexs(m2), hexs(k2), hexs(m2))))
        # save / restore loops: a context is assigned onto one that already holds pads of the same size
        for kl in [1, b, b + 1]:
            k1 = contents(rng, kl); m1 = contents(rng, 10); m2 = contents(rng, 33); m3 = contents(rng, b)
            ops = ["I:" + hexs(k1), "U:" + hexs(m1), "V", "U:" + hexs(m2), "F", "R", "U:" + hexs(m3), "F", "R", "K", "U:" + hexs(m2), "F"]
            cases.append(Case("hmachist %s %s" % (t, " ".join(ops)), "hmachist %s save-restore k%s" % (t, "<B" if kl < b else ("=B" if kl == b else ">B")), True,
                              spec="spec.hmaccat %s %s:%s %s:%s %s:%s" % (t, hexs(k1), hexs(m1 + m2), hexs(k1), hexs(m1 + m3), hexs(k1), hexs(m1 + m2))))
        for (pl, sl, c, dk) in [(0, 16, 1, d), (5, 16, 2, d + 1), (b, 20, 3, 2 * d), (b + 1, 16, 2, 1), (9, 70, 4, d - 1)]:
            P = contents(rng, pl); S = contents(rng, sl)
            cases.append(Case("pbkdf2 %s %s %s %d %d" % (t, hexs(P), hexs(S), c, dk), "pbkdf2 %s P%s c=%d" % (t, "<B" if pl < b else ("=B" if pl == b else ">B"), c), True,
                              spec="spec.pbkdf2 %s %s %s %d %d" % (t, hexs(P), hexs(S), c, dk)))
            cases.append(Case("pbkdf2buf %s %s %s %d %d" % (t, hexs(P), hexs(S), c, dk), "pbkdf2buf %s P%s c=%d" % (t, "<B" if pl < b else ("=B" if pl == b else ">B"), c), True,
                              spec="spec.pbkdf2buf %s %s %s %d %d" % (t, hexs(P), hexs(S), c, dk)))
        P = contents(rng, 7); S = contents(rng, 16); PEP = contents(rng, 11)
        cases.append(Case("pepper %s %s %s %s 2 %d" % (t, hexs(P), hexs(S), hexs(PEP), d + 3), "pepper %s" % t, True, spec="spec.pepper %s %s %s %s 2 %d" % (t, hexs(P), hexs(S), hexs(PEP), d + 3)))
    # coinciding lengths / operands (a comparison of two secrets with each other is a data-dependent branch too)
    for t in HASHES:
        d = DS[t]
        for n in [16, 32]:
            X = contents(rng, n, "rand"); Y = contents(rng, n, "rand"); Z = contents(rng, n, "rand")
            for (P, S, PEP, cls) in [(Z, X, Y, "equal-lengths"), (Z, X, X, "pepper==salt"), (X, X, Y, "password==salt"), (X, Y, X, "password==pepper")]:
                cases.append(Case("pepper %s %s %s %s 2 %d" % (t, hexs(P), hexs(S), hexs(PEP), d), "pepper %s %s n=%d" % (t, cls, n), True,
                                  spec="spec.pepper %s %s %s %s 2 %d" % (t, hexs(P), hexs(S), hexs(PEP), d)))
            cases.append(Case("pbkdf2 %s %s %s 2 %d" % (t, hexs(X), hexs(Y), d), "pbkdf2 %s |P|==|S| n=%d" % (t, n), True, spec="spec.pbkdf2 %s %s %s 2 %d" % (t, hexs(X), hexs(Y), d)))
            cases.append(Case("pbkdf2buf %s %s %s 2 %d" % (t, hexs(X), hexs(X), d), "pbkdf2buf %s P==S n=%d" % (t, n), True, spec="spec.pbkdf2buf %s %s %s 2 %d" % (t, hexs(X), hexs(X), d)))
            cases.append(Case("hmac %s %s %s" % (t, hexs(X), hexs(Y)), "hmac %s |k|==|m| n=%d" % (t, n), True, spec="spec.hmac %s %s %s" % (t, hexs(X), hexs(Y))))
            cases.append(Case("hmac %s %s %s" % (t, hexs(X), hexs(X)), "hmac %s k==m n=%d" % (t, n), True, spec="spec.hmac %s %s %s" % (t, hexs(X), hexs(X))))
    for n in [1, 32]:
        X = contents(rng, n, "rand"); Y = contents(rng, n, "rand")
        cases.append(Case("hkdfx %s %s" % (hexs(X), hexs(Y)), "hkdfx |ikm|==|salt| n=%d" % n, True, spec="spec.hkdfx %s %s" % (hexs(X), hexs(Y))))
        cases.append(Case("hkdfx %s %s" % (hexs(X), hexs(X)), "hkdfx ikm==salt n=%d" % n, True, spec="spec.hkdfx %s %s" % (hexs(X), hexs(X))))
    for il, sl in [(0, "null"), (1, 0), (22, 13), (64, 32), (65, 65), (200, 1)]:
        ikm = contents(rng, il); salt = "null" if sl == "null" else hexs(contents(rng, sl))
        cases.append(Case("hkdfx %s %s" % (hexs(ikm), salt), "hkdfx ikm=%d" % il, True, spec="spec.hkdfx %s %s" % (hexs(ikm), salt)))
        cases.append(Case("hkdfkiv %s %s %s" % (hexs(ikm), salt, hexs(b"ctx")), "hkdfkiv ikm=%d" % il, True, spec="spec.hkdfkiv %s %s %s" % (hexs(ikm), salt, hexs(b"ctx"))))
    for L in [0, 1, 32, 33, 64, 65, 100, 255]:
        prk = contents(rng, 32); info = contents(rng, rng.choice([0, 10, 55]))
        cases.append(Case("hkdfe %s %s %d" % (hexs(prk), hexs(info), L), "hkdfe L%%32=%d" % (L % 32), True, spec="spec.hkdfe %s %s %d" % (hexs(prk), hexs(info), L)))
    return cases

def extra(ctx):
    """memcheck run: secrets are undefined; report every error with the case that raised it"""
    out = []; lines = [c.line for c in ctx["cases"]]; rundir = ctx["rundir"]; t0 = time.monotonic()
    n = len(lines); shards = min(core.NCPU, max(1, n // 10)); per = (n + shards - 1) // shards
    procs = []
    for s in range(shards):
        part = lines[s * per:(s + 1) * per]
        if not part: continue
        fn = os.path.join(rundir, "vg.%d.cases" % s); open(fn, "w").write("\n".join(part) + "\n")
        procs.append((subprocess.Popen(["valgrind", "-q", "--error-exitcode=97", "--num-callers=12", "--undef-value-errors=yes", "--track-origins=no", ctx["drv"], fn],
                                       stdout=subprocess.PIPE, stderr=subprocess.PIPE), part))
    nerr = 0
    for p, part in procs:
        try: _, err = p.communicate(timeout=1500)
        except subprocess.TimeoutExpired: p.kill(); err = b"TIMEOUT"
        err = err.decode(errors="replace")
        cur = -1; seen = set()
        for block in re.split(r"(?=@@CASE \d+)", err):
            m = re.match(r"@@CASE (\d+)", block)
            if m: cur = int(m.group(1))
            if re.search(r"Conditional jump or move depends on uninitialised|Use of uninitialised value|TIMEOUT", block):
                where = re.findall(r"(?:at|by) 0x[0-9A-F]+: ([^\n]*)", block)
                lib = [w for w in where if "hmac_cpp" in w or "hmac_hash" in w]
                sig = (lib[0] if lib else (where[0] if where else "?"))[:140]
                if cur in seen: continue
                seen.add(cur); nerr += 1
                case = part[cur] if 0 <= cur < len(part) else "?"
                if nerr <= 4:
                    out.append(("memcheck", "secret-dependent branch or address (memcheck: use of an undefined value) in %s" % sig,
                                dict(key="memcheck %s %s" % (case.split()[0], sig[:60]), cases=[dict(case=case)], implementation=block[:1200], build="valgrind memcheck, secrets marked undefined, " + ctx["config"]["label"])))
    ctx["extra_cov"].update(dict(memcheck_cases=n, memcheck_errors=nerr, memcheck_wall_s=round(time.monotonic() - t0, 1), memcheck_cmd="valgrind -q --error-exitcode=97 drv_ct <cases>"))
    return out

def key(case, impl, model):
    p = case.line.split(); return " ".join(p[:2])
