from core import Case, hexs
from gen_util import *
import core, os, tempfile, shutil
PID = "C17"
DRIVER = "drv_heap"
MATRIX_QUICK = [core.CONFIG_BZERO]   # both zeroing back-ends on every run
MATRIX = core.MATRIX_ZEROING     # thorough tier: -O0/-O2/-O3, clang, explicit_bzero on/off, mlock on/off
DRIVER_FLAGS = ("-w",)
RULE = ("every secret-handling entry point (get_hmac pointer / vector-key / secure_buffer-key forms, HmacContext incl. re-init, pbkdf2 vector / locked / secure_buffer-input / caller-buffer forms, pepper incl. its "
        "exception paths, hkdf extract / expand / key-iv, HOTP / TOTP validation, time tokens with vector and secure_buffer keys, decode into a secure_buffer for the three codecs incl. unpadded and invalid input) is "
        "called with operator new/delete interposed; every block released during the call is scanned for 8-byte windows of the caller's secret and of the derived values listed by the inventory model "
        "(block-padded key, inner / outer pads, hashed long key, inner hash, peppered password, PBKDF2 U / T blocks, PRK, decoded bytes); keys below / at / above the block, three hashes; "
        "classes = api x hash x key class x outcome; non-trivial = a secret of at least 8 bytes")

def gen(rng, tier):
    plan = []   # (api, args list (strings), secret needles (bytes list), expectation, cls)
    def sec(n): return bytes(rng.randrange(1, 256) for _ in range(n))
    for t in HASHES:
        b = BS[t]
        for kl in [8, 20, b - 1, b, b + 1, b + 37, 2 * b + 9]:
            kc = "k<B" if kl < b else ("k=B" if kl == b else "k>B")
            k = sec(kl); m = sec(rng.choice([0, 9, 70, 130]))
            plan.append(("hmac", [t, hexs(k), hexs(m)], [k], "ok", "%s %s" % (t, kc)))
            # documented exception exit after the key schedule has run (message length overflow): the hashed long key and the pads must still be wiped
            plan.append(("hmac_ovf", [t, hexs(k), "E=throw:overflow_error"], [k], "throw", "%s %s msg-length-overflow" % (t, kc)))
            plan.append(("hmac_securekey", [t, hexs(k), hexs(m)], [k], "ok", "%s %s" % (t, kc)))
            plan.append(("hmac_veckey", [t, hexs(k), hexs(m)], [], "ok", "%s %s" % (t, kc)))
            plan.append(("hmacctx", [t, hexs(k), hexs(m)], [k], "ok", "%s %s" % (t, kc)))
            plan.append(("hotp", [t, hexs(k), "6"], [k], "ok", "%s %s" % (t, kc)))
            plan.append(("hotp_secure", [t, hexs(k)], [k], "ok", "%s %s" % (t, kc)))
            plan.append(("totpvalid", [t, hexs(k)], [k], "ok", "%s %s" % (t, kc)))
            for api in ("tokgen_secure", "tokval_secure", "tokgenfp_secure", "tokvalfp_secure"):
                plan.append((api, [t, hexs(k), "60"], [k], "ok", "%s %s" % (t, kc)))
                if kl == 20: plan.append((api, [t, hexs(k), "0", "E=throw:invalid_argument"], [k], "throw", "%s %s bad-interval" % (t, kc)))
        for pl in [9, b, b + 20]:
            P = sec(pl); S = sec(16); pc = "P<B" if pl < b else ("P=B" if pl == b else "P>B")
            for c, dk in [(1, 20), (3, DS[t] + 7), (2, 2 * DS[t] + 1)]:
                for api in ("pbkdf2", "pbkdf2_secure", "pbkdf2_sbin", "pbkdf2buf"):
                    plan.append((api, [t, hexs(P), hexs(S), str(c), str(dk)], [P], "ok", "%s %s c=%d" % (t, pc, c)))
            PEP = sec(24)
            plan.append(("pepper", [t, hexs(P), hexs(S), hexs(PEP), "2", "40"], [P, PEP], "ok", "%s %s" % (t, pc)))
            # documented exception exits of the inner pbkdf2: the peppered password must still be wiped
            plan.append(("pepper", [t, hexs(P), "-", hexs(PEP), "2", "40", "E=throw:invalid_argument"], [P, PEP], "throw", "%s %s empty-salt" % (t, pc)))
            plan.append(("pepper", [t, hexs(P), hexs(S), hexs(PEP), "0", "40", "E=throw:invalid_argument"], [P, PEP], "throw", "%s %s zero-iterations" % (t, pc)))
            plan.append(("pepper", [t, hexs(P), hexs(S), hexs(PEP), "2", "0", "E=throw:invalid_argument"], [P, PEP], "throw", "%s %s zero-dklen" % (t, pc)))
            plan.append(("pepper", [t, hexs(P), hexs(S), hexs(PEP), "1000001", "40", "E=throw:invalid_argument"], [P, PEP], "throw", "%s %s too-many-iterations" % (t, pc)))
    for il in [16, 32, 70, 200]:
        ikm = sec(il); salt = sec(rng.choice([13, 32, 80]))
        plan.append(("hkdfx", ["x", hexs(ikm), hexs(salt)], [ikm], "ok", "ikm=%d" % il))
        plan.append(("hkdfx_secure", ["x", hexs(ikm), hexs(salt)], [ikm], "ok", "ikm=%d" % il))
        plan.append(("hkdfkiv", ["x", hexs(ikm), hexs(salt), hexs(b"context")], [ikm], "ok", "ikm=%d" % il))
    for L in [16, 32, 33, 100, 500]:
        prk = sec(32); info = sec(10)
        plan.append(("hkdfe", ["x", hexs(prk), hexs(info), str(L)], [prk], "ok", "L=%d" % L)); plan.append(("hkdfe_secure", ["x", hexs(prk), hexs(info), str(L)], [prk], "ok", "L=%d" % L))
    # decode into a secure_buffer: padded, unpadded (partial last group), long, and invalid after a valid prefix
    import base64
    for n in [8, 9, 10, 11, 12, 13, 14, 15, 16, 24, 33, 47, 64, 100]:
        d = sec(n)
        for url in (0, 1):
            e = (base64.urlsafe_b64encode if url else base64.b64encode)(d)
            plan.append(("b64dec_secure", [str(url), hexs(e)], [d], "ok", "padded n%%3=%d" % (n % 3)))
            plan.append(("b64dec_secure", [str(url), hexs(e.rstrip(b"="))], [d], "ok", "unpadded n%%3=%d" % (n % 3)))
            plan.append(("b64dec_secure", [str(url), hexs(e.rstrip(b"=") + b"!")], [d], "ok", "invalid-suffix"))
        e = base64.b32encode(d)
        plan.append(("b32dec_secure", ["x", hexs(e)], [d], "ok", "padded n%%5=%d" % (n % 5)))
        plan.append(("b32dec_secure", ["x", hexs(e.rstrip(b"="))], [d], "ok", "unpadded n%%5=%d" % (n % 5)))
        plan.append(("b32dec_secure", ["x", hexs(e.rstrip(b"=") + b"!")], [d], "ok", "invalid-suffix"))
        v = int.from_bytes(d, "big"); digs = ""
        while v: digs = "0123456789ABCDEFGHIJKLMNOPQRSTUVWXYZ"[v % 36] + digs; v //= 36
        plan.append(("b36dec_secure", ["x", hexs(digs.encode())], [d], "ok", "n=%d" % n))
        plan.append(("b36dec_secure", ["x", hexs(digs.encode() + b"*")], [d], "ok", "invalid-suffix n=%d" % n))
    # secret_string: set / rotate / move / reveal / callbacks that return, throw a std exception, throw another type
    for n in [8, 31, 32, 33, 64, 100, 500]:
        p1 = sec(n); p2 = sec(rng.choice([9, 40, 200]))
        for api, exp in [("ss_set", "ok"), ("ss_rotate", "ok"), ("ss_move", "ok"), ("ss_reveal", "ok"), ("ss_cb", "ok")]:
            plan.append((api, ["x", hexs(p1), hexs(p2)], [p1, p2], exp, "n=%d" % n))
        plan.append(("ss_cb_throw_std", ["x", hexs(p1), hexs(p2), "E=throw:runtime_error"], [p1], "cbthrow", "n=%d" % n))
        plan.append(("ss_cb_throw_other", ["x", hexs(p1), hexs(p2), "E=throw:callback_type"], [p1], "cbthrow", "n=%d" % n))
    # long Base36 secrets at the extremes of their byte length (most digits per byte: 0x01 00 00.., 0x01 03.., and 0xFF..): a work-buffer bound that is
    # one byte short for some digit counts reallocates with the decoded bytes inside
    def b36s(d):
        v = int.from_bytes(d, "big"); ds = "0123456789ABCDEFGHIJKLMNOPQRSTUVWXYZ"; o = ""
        while v: o = ds[v % 36] + o; v //= 36
        return ("0" * (len(d) - len(d.lstrip(b"\x00"))) + o).encode()
    for n in [60, 100, 137, 138, 139, 180, 181, 233, 234, 300]:
        for head in (b"\x01\x00", b"\x01\x03", b"\xff\xff", b"\x02\x10"):
            d = head + sec(n - 2)
            plan.append(("b36dec_secure", ["x", hexs(b36s(d))], [d], "ok", "extreme n=%d head=%s" % (n, head.hex())))
    # phase 1: derived values from the inventory model
    model = os.path.join(core.OCAML, "model_run")
    def nq(api, args, exp):
        a = [x for x in args if not x.startswith("E=")]
        if api.startswith("ss_"): return "cteq - -"          # the needle is the plaintext itself
        if exp == "throw":       # rejected before the derivation runs: only what is computed before the rejection (pepper: HMAC(pepper, password))
            return "needles hmac %s %s %s" % (a[0], a[3], a[1]) if api == "pepper" else "needles hmac %s %s -" % (a[0], a[1])
        return "needles %s %s" % (api, " ".join(a))
    q = [nq(api, args, exp) for (api, args, secs, exp, cls) in plan]
    # the peppered password HMAC(pepper, password) is key material on every path of pbkdf2_with_pepper, rejected calls included
    pq = [("hmac %s %s %s" % (args[0], args[3], args[1])) if api == "pepper" else "cteq - -" for (api, args, secs, exp, cls) in plan]
    d_ = tempfile.mkdtemp(dir=core.CACHE); outs = core.run_lines(model, q, d_, "needles"); pouts = core.run_lines(model, pq, d_, "pepper"); shutil.rmtree(d_, ignore_errors=True)
    outs = [o + (" " + po if api == "pepper" else "") for o, po, (api, _a, _s, _e, _c) in zip(outs, pouts, plan)]
    cases = []
    for (api, args, secs, exp, cls), o in zip(plan, outs):
        needles = [hexs(s) for s in secs if len(s) >= 8] + ([] if api.startswith("ss_") else [x for x in o.split() if x != "-" and not x.startswith("MODEL-ERROR")])
        line = "heap %s %s @ %s" % (api, " ".join(args), " ".join(needles) if needles else "00")
        cases.append(Case(line, "%s %s %s" % (api, cls, exp), any(len(s) >= 8 for s in secs), spec=line))     # the inventory theorem (C17_released_zero) is the spec: clean
    return cases

def key(case, impl, model):
    return case.cls + " " + impl
