from core import Case, hexs
import core
PID = "C16"
DRIVER = "drv_heap"
MATRIX_QUICK = [core.CONFIG_BZERO]   # both zeroing back-ends on every run
MATRIX = core.MATRIX_ZEROING     # thorough tier: -O0/-O2/-O3, clang, explicit_bzero on/off, mlock on/off
RULE = ("operation histories on two real secure_buffer<uint8_t, LockOnAlloc> objects (both template variants) with operator new/delete interposed: contents of both "
        "variables after every operation vs the heap model, every block scanned at delete (only poison or zero bytes allowed), the caller's rvalue string inspected "
        "(object bytes and heap buffer); ops: ctor(n), adopt vector (with slack), from rvalue string, copy/move assignment, copy construction, self assignment, resize "
        "(shrink / within capacity / growth), clear, assign(ptr,n), assign(string&&), element writes, destruction; sizes 0, 1, SSO boundary 15/16, at and above capacity; "
        "classes = multiset of op kinds x max size class; non-trivial = at least one release of a non-empty block")

def rbytes(rng, n): return bytes(rng.randrange(1, 0x80) for _ in range(n))

def gen_hist(rng, nops, kinds="NVSTCMKYRRRLPWW"):
    ops = []; size = {"A": 0, "B": 0}
    sizes = [0, 1, 2, 5, 15, 16, 17, 31, 32, 33, 64, 100, 257]
    for _ in range(nops):
        x = rng.choice("AB"); y = "B" if x == "A" else "A"
        k = rng.choice(kinds)
        n = rng.choice(sizes)
        if k == "N": ops.append("N:%s:%d" % (x, n)); size[x] = n
        elif k == "V":
            d = rbytes(rng, n); ops.append("V:%s:%s" % (x, hexs(d))); size[x] = n     # size == capacity, as every adoption inside the library
        elif k in "ST":
            n = rng.choice([0, 1, 2, 7, 14, 15, 16, 17, 40]); ops.append("%s:%s:%s" % (k, x, hexs(rbytes(rng, n)))); size[x] = n
        elif k == "C": ops.append("C:%s" % x); size[x] = size[y]
        elif k == "M": ops.append("M:%s" % x); size[x] = size[y]; size[y] = 0
        elif k == "K": ops.append("K:%s" % x); size[x] = size[y]
        elif k == "Y": ops.append("Y:%s" % x)
        elif k == "R":
            n = rng.choice([0, max(0, size[x] - 1), size[x], size[x] + 1, size[x] * 2 + 3, n]); ops.append("R:%s:%d" % (x, n)); size[x] = n
        elif k == "L": ops.append("L:%s" % x); size[x] = 0
        elif k == "P": d = rbytes(rng, n); ops.append("P:%s:%s" % (x, hexs(d))); size[x] = n
        elif k == "W":
            if size[x]: ops.append("W:%s:%d:%d" % (x, rng.randrange(size[x]), rng.randrange(1, 0x80)))
    return ops

def gen(rng, tier):
    cases = []
    def add(lock, ops, cls):
        line = "sbhist %s %s" % (lock, " ".join(ops))
        cases.append(Case(line, cls, True, spec="spec." + line))
    # directed: every op kind right after a fill, growth past capacity, shrink then release, assign shorter over longer then release
    for lock in (0, 1):
        fill = "P:A:%s" % hexs(rbytes(rng, 40))
        for tail, cls in [(["R:A:4096"], "grow"), (["R:A:41"], "grow+1"), (["R:A:3", "L:A"], "shrink-clear"), (["P:B:%s" % hexs(rbytes(rng, 3)), "C:A", "L:A"], "copy-shorter-then-clear"),
                          (["N:B:0", "C:A"], "copy-empty"), (["M:B", "L:B"], "move-then-clear"), (["K:B", "R:B:1000"], "copyctor-grow"), (["N:A:8"], "ctor-over"),
                          (["S:A:%s" % hexs(rbytes(rng, 9))], "string-over"), (["T:A:%s" % hexs(rbytes(rng, 20))], "assignstring-over"), (["Y:A", "R:A:80"], "self-then-grow"),
                          (["V:A:%s" % hexs(rbytes(rng, 5))], "adopt-over"), (["R:A:20", "R:A:40", "R:A:60", "L:A"], "shrink-regrow")]:
            add(lock, [fill] + tail, "directed %s lock=%d" % (cls, lock))
        for n in [0, 1, 2, 14, 15, 16, 17, 31, 32, 100]:
            add(lock, ["S:A:%s" % hexs(rbytes(rng, n))], "rvalue-string len=%d lock=%d" % (n, lock))
            add(lock, ["N:B:3", "T:B:%s" % hexs(rbytes(rng, n))], "assign-string len=%d lock=%d" % (n, lock))
    nh = 300 if tier == "quick" else 3000
    for i in range(nh):
        nops = rng.randrange(2, 13 if tier == "quick" else 41); ops = gen_hist(rng, nops)
        kinds = "".join(sorted(set(o[0] for o in ops)))
        add(i % 2, ops, "hist kinds=%s" % kinds)
    # buffers of a page and more: grow to several pages, shrink to a few bytes (non-zero), shrink in steps, then release
    for lock in (0, 1):
        for big in (4096, 4128, 8192, 10000, 70000):
            for small in (1, 10, 100, big - 4096, big // 2):
                if small <= 0: continue
                add(lock, ["P:A:%s" % hexs(rbytes(rng, 40)), "R:A:%d" % big, "W:A:%d:77" % (big - 1), "R:A:%d" % small, "W:A:0:5", "L:A"], "page-sized grow %d shrink %d lock=%d" % (big, small, lock))
        add(lock, ["N:A:9000", "W:A:8999:9", "R:A:4904", "R:A:808", "R:A:7", "C:B", "L:A", "L:B"], "page-sized stepwise shrink lock=%d" % lock)
    # element types wider than a byte (secure_buffer<uint32_t>, <uint64_t>): byte counts are element counts times sizeof(T)
    for var in ("w0", "w1", "x0", "x1"):
        fill = "P:A:%s" % hexs(rbytes(rng, 24))
        for tail, cls in [(["R:A:4096"], "grow"), (["R:A:25"], "grow+1"), (["R:A:3", "L:A"], "shrink-clear"), (["R:A:12"], "shrink-half"), (["P:B:%s" % hexs(rbytes(rng, 3)), "C:A", "L:A"], "copy-shorter-then-clear"),
                          (["M:B", "L:B"], "move-then-clear"), (["K:B", "R:B:1000"], "copyctor-grow"), (["N:A:8"], "ctor-over"), (["V:A:%s" % hexs(rbytes(rng, 5))], "adopt-over"),
                          (["R:A:10", "R:A:20", "R:A:30", "L:A"], "shrink-regrow")]:
            add(var, [fill] + tail, "wide directed %s %s" % (cls, var))
    for i in range(60 if tier == "quick" else 600):
        ops = gen_hist(rng, rng.randrange(2, 11), "NVCMKYRRRLPWW")
        add(("w%d", "x%d")[i % 2] % ((i // 2) % 2), ops, "wide hist kinds=%s" % "".join(sorted(set(o[0] for o in ops))))
    # finding F9 (known): adopting a caller vector whose slack [size, capacity) holds bytes the buffer has never seen
    for lock in (0, 1):
        add(lock, ["V:A:%s:%s" % (hexs(rbytes(rng, 4)), hexs(rbytes(rng, 28)))], "adopt-dirty-slack lock=%d" % lock)
        add(lock, ["V:A:%s:%s" % (hexs(rbytes(rng, 4)), hexs(rbytes(rng, 28))), "R:A:500"], "adopt-dirty-slack grow lock=%d" % lock)
    return cases

def extra(ctx):
    """C16 is violated by any observed release of non-zero bytes, whether or not the model predicts it."""
    out = []
    for c, r in zip(ctx["cases"], ctx["impl"]):
        if "frees=dirty" in r or "strings=dirty" in r:
            what = "adopt-dirty-slack" if c.cls.startswith("adopt-dirty-slack") else "dirty-release"
            out.append(("observation", "secure_buffer released non-zero bytes: " + r[-40:], dict(key="%s %s" % (what, c.cls), cases=[dict(case=c.line, spec=c.spec)], implementation=r[-80:])))
    ctx["extra_cov"]["dirty_release_observations"] = len(out)
    return out

def key(case, impl, model):
    return case.cls
