from core import Case, hexs
PID = "C09"
DRIVER = "drv_pure"
RULE = ("cteq a b on six overloads vs model ct_equals; classes = (len a, len b relation, kind of difference); "
        "non-trivial = at least one side non-empty")

def gen(rng, tier):
    cases = []
    def add(a, b, cls):
        cases.append(Case("cteq %s %s" % (hexs(a), hexs(b)), cls, len(a) + len(b) > 0, spec="spec.eq %s %s" % (hexs(a), hexs(b))))
    add(b"", b"", "empty/empty")
    # many differing bytes whose differences SUM to a multiple of 2^32 (an accumulator that adds instead of OR-ing wraps to zero): 2^25 x 0x80
    for la, fa, lb, fb in [(2 ** 25, 0x00, 2 ** 25, 0x80), (2 ** 24, 0xFF, 2 ** 24, 0x00), (2 ** 25, 0x80, 2 ** 25, 0x80)]:
        cases.append(Case("cteqfill %d %d %d %d" % (la, fa, lb, fb), "fill-difference sum 2^32", True, spec="spec.eqfill %d %d %d %d" % (la, fa, lb, fb)))
    # two differences that cancel under addition / folding of wider words: the same bit flipped at distance 1, 2, 4, 8; complementary values
    for la in [8, 16, 24, 33]:
        a = bytes(rng.randrange(256) for _ in range(la))
        for i in range(0, la):
            for dist in (1, 2, 3, 4, 7, 8):
                j = i + dist
                if j >= la: continue
                for xi, xj in ((0x80, 0x80), (0x01, 0xFF), (0x80, 0x7F), (0xFF, 0x01)):
                    b = bytearray(a); b[i] ^= xi; b[j] ^= xj
                    if (i + dist * 7 + xi) % 3 == 0 or la <= 16:
                        add(a, bytes(b), "two-differences dist=%d" % dist)
    # lengths that differ by a multiple of 2^32 (all-zero contents on untouched zero pages): a length difference folded into 32 bits vanishes
    for la, lb in [(2 ** 32, 0), (2 ** 32 + 5, 5)]:
        cases.append(Case("cteqbig %d %d" % (la, lb), "len-differ by 2^32 zero-content", True, spec="spec.eqbig %d %d" % (la, lb)))
    lens = [0, 1, 2, 3, 7, 8, 9, 15, 16, 17, 31, 32, 33, 63, 64, 65, 255, 256, 257, 511, 512, 513, 768, 1024]
    # length pairs, zero content (only the length seed can tell them apart), incl. differences of 256*k
    for la in lens:
        for lb in lens:
            if la != lb:
                add(bytes(la), bytes(lb), "len-differ zero-content d%%256=%d" % ((la - lb) % 256))
    for la in lens:
        a = bytes(rng.randrange(256) for _ in range(la))
        add(a, a, "equal len=%d" % la)
        add(bytes(la), bytes(la), "equal-zero len=%d" % la)
    # prefix pairs: one is the other plus zero / non-zero bytes
    for la in [0, 1, 5, 8, 16, 33]:
        a = bytes(rng.randrange(1, 256) for _ in range(la))
        for extra in [1, 2, 8, 255, 256, 512]:
            add(a + bytes(extra), a, "first-longer-zeros")
            add(a, a + bytes(extra), "second-longer-zeros")
            add(a + b"\x01" * extra, a, "first-longer-nonzero")
    # single-bit differences at every position and bit for short inputs; first/last/middle for longer
    for la in ([1, 2, 3, 4, 5, 8, 9, 12, 16, 17, 24, 32] if tier == "quick" else list(range(1, 41))):
        a = bytearray(rng.randrange(256) for _ in range(la))
        for pos in range(la):
            for bit in range(8):
                b = bytearray(a); b[pos] ^= 1 << bit
                add(bytes(a), bytes(b), "bitflip len=%d pos%%8=%d bit=%d" % (la, pos % 8, bit))
    for la in [63, 64, 65, 200, 1000, 4096]:
        a = bytearray(rng.randrange(256) for _ in range(la))
        for pos in sorted(set([0, 1, 3, 4, 7, 8, la // 2, la - 9, la - 8, la - 5, la - 4, la - 2, la - 1])):
            for bit in (0, 7):
                b = bytearray(a); b[pos] ^= 1 << bit
                add(bytes(a), bytes(b), "bitflip-long len=%d pos%%8=%d" % (la, pos % 8))
    # multi-position differences that cancel under addition / xor-of-sums
    for _ in range(60 if tier == "quick" else 600):
        la = rng.choice([2, 4, 8, 16, 33])
        a = bytearray(rng.randrange(256) for _ in range(la)); b = bytearray(a)
        i, j = rng.sample(range(la), 2); d = rng.randrange(1, 256)
        b[i] ^= d; b[j] ^= d
        add(bytes(a), bytes(b), "two-diffs-same-xor")
    n = 300 if tier == "quick" else 5000
    for _ in range(n):
        la = rng.randrange(0, 80); lb = rng.choice([la, la, rng.randrange(0, 80)])
        a = bytes(rng.randrange(256) for _ in range(la))
        b = bytes(rng.randrange(256) for _ in range(lb)) if rng.random() < 0.5 else (a + bytes(max(0, lb - la)))[:lb]
        add(a, b, "random eq=%s" % (a == b))
    # every API family once during static initialisation of the driver (before the library's own dynamic initialisers have run)
    cases.append(Case("staticinit", "static-initialisation battery", True, spec="staticinit"))
    return cases

def key(case, impl, model):
    return "cteq impl=%s model=%s" % (impl[:40], model)
