from core import Case, hexs
from gen_util import *
PID = "C07"
DRIVER = "drv_pure"
RULE = ("is_totp_token_valid (explicit time, 5 key forms) and the system-clock form (interposed clock, incl. a clock that ticks between reads) vs the models; "
        "tokens = true codes of steps c-3..c+3 (computed by the extracted spec) plus -1, 10^d, INT_MIN/MAX; counters 0,1,2, 2^32 region, 2^64-2, 2^64-1; periods 1,30,60,INT_MAX; "
        "classes = form x hash x counter class x token offset x period; non-trivial = token is a real code of a nearby step")
U64 = 2 ** 64

def gen(rng, tier, codes=None):
    gen._nflip = 0
    # two-phase: first ask the spec (through the model binary) for the true codes, then build the cases
    import core, os, tempfile
    model = os.path.join(core.OCAML, "model_run")
    plan = []
    for t in HASHES:
        keys = [b"12345678901234567890", b"", contents(rng, BS[t] + 3)]
        for p in [1, 30, 60, 2 ** 31 - 1]:
            cs = [0, 1, 2, 3, 2 ** 32 - 1, 2 ** 32, U64 // p - 1 if p > 1 else U64 - 2, (U64 - 1) // p]
            if p == 1: cs += [U64 - 3, U64 - 2, U64 - 1, 2 ** 63]
            for c in sorted(set(cs)):
                if c * p >= U64: continue
                for tsoff in ([0, p - 1] if p > 1 else [0]):
                    ts = c * p + tsoff
                    if ts >= U64: continue
                    k = rng.choice(keys); d = rng.choice([6, 6, 8, rng.randrange(1, 10)])
                    plan.append((t, k, ts, p, d, c))
    if tier == "quick":
        plan = [x for i, x in enumerate(plan) if i % 2 == 0 or x[5] in (0, 1, U64 - 1, U64 - 2)]
    # spec queries
    q = []
    for (t, k, ts, p, d, c) in plan:
        for off in range(-3, 4):
            cc = c + off
            if 0 <= cc < U64: q.append("spec.hotp %s %s %d %d" % (t, hexs(k), cc, d))
    d_ = tempfile.mkdtemp(dir=core.CACHE)
    outs = core.run_lines(model, q, d_, "codes")
    import shutil; shutil.rmtree(d_, ignore_errors=True)
    codes = {}
    for line, o in zip(q, outs):
        codes[line] = int(o.split()[1])
    cases = []
    for (t, k, ts, p, d, c) in plan:
        toks = []
        for off in range(-3, 4):
            cc = c + off
            if 0 <= cc < U64:
                toks.append((codes["spec.hotp %s %s %d %d" % (t, hexs(k), cc, d)], "step%+d" % off))
        # fixed small / extreme candidates: a skipped neighbour slot left at a default value would accept one of these
        # a window code with a digit appended / dropped (a comparison through fixed-width decimal text would truncate)
        for cv, _w in [x for x in list(toks) if x[1] in ("step-1", "step+0", "step+1")]:
            for tok in (cv * 10 + 7, cv // 10):
                if -2 ** 31 <= tok < 2 ** 31 and tok != cv: toks.append((tok, "code-digits-shifted"))
        toks += [(0, "zero"), (1, "one"), (10 ** d - 1, "10^d-1"), (-1, "neg"), (10 ** d, "10^d"), (2 ** 31 - 1, "intmax"), (-2 ** 31, "intmin"), (toks[0][0] + 10 ** d if toks[0][0] + 10 ** d < 2 ** 31 else 5, "code+10^d")]
        # a window code with exactly ONE of its 32 bits flipped (incl. the sign bit): related to an accepted value by a power of two, accepted by nothing
        # that compares values, but by anything that folds the three comparisons into word arithmetic (products, sums, masks of differences)
        nflip = getattr(gen, "_nflip", 0); gen._nflip = nflip + 1
        if nflip % 10 == 0:
            for cv, w_ in [x for x in list(toks) if x[1] in ("step-1", "step+0", "step+1")]:
                for b in range(32):
                    u = (cv ^ (1 << b)) & 0xFFFFFFFF
                    tok = u - 2 ** 32 if u >= 2 ** 31 else u
                    toks.append((tok, "window-code-bit-flipped"))
        cc = "c=%d" % c if c in (0, 1, 2) else ("c=max-%d" % (U64 - 1 - c) if U64 - 1 - c < 3 else "c.mid")
        for tok, what in toks:
            cases.append(Case("totpvalid %s %d %s %d %d %d" % (t, tok, hexs(k), ts, p, d), "at %s p=%d %s tok=%s" % (t, p, cc, what), what.startswith("step"),
                              spec="spec.totpvalid %s %d %s %d %d %d" % (t, tok, hexs(k), ts, p, d)))
            if ts < 2 ** 63:
                for step in ((0, p) if p < 10 ** 6 and what != "window-code-bit-flipped" else (0,)):
                    cases.append(Case("totpvalidnow %s %d %s %d %d %d 0 %d" % (t, tok, hexs(k), p, d, ts, step),
                                      "now %s p=%d %s tok=%s tick=%d" % (t, p, cc, what, 1 if step else 0), what.startswith("step"),
                                      spec="spec.totpvalid %s %d %s %d %d %d" % (t, tok, hexs(k), ts, p, d)))
    for t in HASHES:
        k = b"12345678901234567890"
        for now, err in [(-1, 1), (-1, 0), (-5, 0), (-2 ** 63, 0), (-1, 1)]:
            cases.append(Case("totpvalidnow %s 123456 %s 30 6 %d %d 0" % (t, hexs(k), now, err), "now bad-clock", False))
        for p, d in [(0, 6), (-1, 6), (30, 0), (30, 10)]:
            cases.append(Case("totpvalid %s 123456 %s 59 %d %d" % (t, hexs(k), p, d), "at bad-args", False))
            cases.append(Case("totpvalidnow %s 123456 %s %d %d 59 0 0" % (t, hexs(k), p, d), "now bad-args", False))
    return cases

def key(case, impl, model):
    p = case.line.split(); return " ".join(p[:2]) + " " + " ".join(p[4:])
