from core import Case, hexs
from gen_util import *
PID = "C06"
SOURCE_TIE = ["tie_hotp_table", "tie_hotp_offset", "tie_hotp_return", "tie_hotp_bin", "shl_masked", "wadd_small"]   # coq_tie/Tie_Source.v against Gen_Source.v regenerated from /repo on every run
DRIVER = "drv_pure"
RULE = ("get_hotp_code / get_totp_code_at / get_totp_code (interposed clock) on five key-container forms and detail::hotp_from_digest vs the models; "
        "counters with every byte set, 2^32 / 2^63 / 2^64-1 boundaries, digits 1..9, periods 1..INT_MAX, timestamps across all 64 bits, synthetic "
        "digests hitting all 16 offsets and both sign-bit values; classes = op x hash x key class x counter/timestamp class x digits; non-trivial = valid arguments")
U64 = 2 ** 64

def kclass(k, t): return "k0" if not k else ("k>B" if len(k) > BS[t] else "k<=B")
def cclass(c):
    if c in (0, 1, 255, 256, 2 ** 32 - 1, 2 ** 32, 2 ** 63, U64 - 1): return "c=%d" % c
    return "c.bits=%d" % (c.bit_length() // 8)

def gen(rng, tier):
    cases = []
    rfc = bytes(b"12345678901234567890")
    counters = [0, 1, 9, 255, 256, 2 ** 16, 2 ** 24 + 5, 2 ** 31, 2 ** 32 - 1, 2 ** 32, 2 ** 32 + 1, 2 ** 40 + 3, 2 ** 48, 2 ** 56 + 77, 2 ** 63 - 1, 2 ** 63, U64 - 2, U64 - 1,
                0x0102030405060708, 0xFFFEFDFCFBFAF9F8]
    for t in HASHES:
        b = BS[t]
        keys = [b"", rfc, contents(rng, 1), contents(rng, b), contents(rng, b + 1), contents(rng, 2 * b + 5)]
        for k in keys:
            for c in counters + [rng.randrange(U64) for _ in range(4 if tier == "quick" else 40)]:
                for d in ([6, rng.choice([1, 2, 3, 4, 5, 7, 8, 9])] if tier == "quick" else range(1, 10)):
                    cases.append(Case("hotp %s %s %d %d" % (t, hexs(k), c, d), "hotp %s %s %s d=%d" % (t, kclass(k, t), cclass(c), d), True,
                                      spec="spec.hotp %s %s %d %d" % (t, hexs(k), c, d)))
        for d in range(1, 10):
            cases.append(Case("hotp %s %s %d %d" % (t, hexs(rfc), 7, d), "hotp %s digits=%d" % (t, d), True, spec="spec.hotp %s %s 7 %d" % (t, hexs(rfc), d)))
        # counters whose MAC has a special shape (mined with python's hmac; the oracle stays the model): truncation offset 0 and 15, the sign bit of the
        # selected word set, selected bytes 00 / ff, a 31-bit value below 10^(d-1) (a code with leading zeros), a value just below a multiple of 10^d
        import hmac as _hmac, struct as _struct
        def dt(mac): o = mac[-1] & 15; return o, mac[o:o + 4], int.from_bytes(mac[o:o + 4], "big") & 0x7FFFFFFF
        shapes = [("offset=0", lambda mac: dt(mac)[0] == 0), ("offset=15", lambda mac: dt(mac)[0] == 15), ("sign-bit-set", lambda mac: dt(mac)[1][0] & 0x80),
                  ("word-has-00", lambda mac: 0 in dt(mac)[1]), ("word-has-ff", lambda mac: 0xFF in dt(mac)[1]), ("word-first=00", lambda mac: dt(mac)[1][0] & 0x7F == 0),
                  ("leading-zero-code", lambda mac: dt(mac)[2] % 10 ** 6 < 10 ** 4), ("code-all-nines-ish", lambda mac: dt(mac)[2] % 10 ** 6 >= 999000), ("value<2^16", lambda mac: dt(mac)[2] < 2 ** 16 * 50)]
        for name, pred in shapes:
            for c in range(0, 400000):
                if pred(_hmac.new(rfc, _struct.pack(">Q", c), t).digest()):
                    for d in (6, 8, rng.randrange(1, 10)):
                        cases.append(Case("hotp %s %s %d %d" % (t, hexs(rfc), c, d), "hotp %s mac-%s" % (t, name), True, spec="spec.hotp %s %s %d %d" % (t, hexs(rfc), c, d)))
                    break
        for d in [0, 10, -1, 2 ** 31 - 1, -2 ** 31]:
            cases.append(Case("hotp %s %s 1 %d" % (t, hexs(rfc), d), "hotp bad-digits", False))
        # TOTP at explicit time: t near multiples of p, across all 64 bits, periods to INT_MAX
        periods = [1, 2, 30, 60, 86400, 2 ** 31 - 1]
        for p in periods:
            tss = set()
            for base in [0, p, 2 * p, 59, 1111111109, 20000000000, 2 ** 32 * p if 2 ** 32 * p < U64 else 2 ** 40, 2 ** 63, 2 ** 63 + p, U64 - 1, U64 - p, U64 - p - 1]:
                for dlt in (-1, 0, 1):
                    v = base + dlt
                    if 0 <= v < U64: tss.add(v)
            tss = sorted(tss)
            if tier == "quick": tss = tss[::2] + [U64 - 1]
            for ts in tss:
                k = rng.choice(keys); d = rng.choice([6, 8, rng.randrange(1, 10)])
                cases.append(Case("totpat %s %s %d %d %d" % (t, hexs(k), ts, p, d),
                                  "totpat %s p=%d ts.hi=%s step%s" % (t, p, ts >= 2 ** 63, "=2^32+" if ts // p >= 2 ** 32 else "<2^32"), True,
                                  spec="spec.totpat %s %s %d %d %d" % (t, hexs(k), ts, p, d)))
        for p in [0, -1, -2 ** 31]:
            cases.append(Case("totpat %s %s 59 %d 6" % (t, hexs(rfc), p), "totpat bad-period", False))
        # clock form: value, errno, and a clock that ticks between reads (step != 0)
        for now in [0, 1, 29, 30, 59, 1111111109, 2 ** 31 - 1, 2 ** 31, 2 ** 40, 2 ** 62, 2 ** 63 - 1, -1, -2, -2 ** 63]:
            for err in (0, 1):
                for step in (0, 30, -30):
                    if step and (now + 8 * step >= 2 ** 63 or now + 8 * step < -2 ** 63): continue
                    k = rng.choice(keys)
                    cases.append(Case("totpnow %s %s 30 6 %d %d %d" % (t, hexs(k), now, err, step),
                                      "totpnow %s now%s err=%d step=%d" % (t, "<0" if now < 0 else ">=0", err, step), now >= 0,
                                      # C06_clock: with a working non-negative clock the clock form is the explicit form at the (single) reading
                                      spec=("spec.totpat %s %s %d 30 6" % (t, hexs(k), now)) if (now >= 0 and not err) else None))
    # the truncation helper on synthetic digests: every offset nibble, sign bit, lengths around offset+4
    for ln in [0, 1, 3, 4, 5, 16, 19, 20, 21, 32, 64]:
        for off in range(16):
            for hi in (0x00, 0x7F, 0x80, 0xFF):
                if ln == 0:
                    dg = b""
                else:
                    body = bytearray(contents(rng, ln, "rand")); body[-1] = (rng.randrange(16) << 4) | off
                    if off < ln: body[off] = hi if off != ln - 1 else body[off]
                    dg = bytes(body)
                d = rng.randrange(1, 10)
                cases.append(Case("hotpdg %s %d" % (hexs(dg), d), "hotpdg len=%d %s" % (ln, "short" if ln < off + 4 else "ok off=%d hi=%02x" % (off, hi)), ln >= off + 4,
                                  spec=("spec.hotpdg %s %d" % (hexs(dg), d)) if ln >= off + 4 else None))
    # truncated 31-bit values AT the boundaries of the final reduction (C06_truncation splits on v mod 10^d): v = 0, 1, 10^d - 1, 10^d, 10^d + 1,
    # multiples of 10^d and their neighbours, the largest multiple below 2^31, 2^31 - 1; each planted at several offsets of 20/32/64-byte digests,
    # with the sign bit of the first byte both clear and set (it must be masked)
    for d in range(1, 10):
        m = 10 ** d; top = ((2 ** 31 - 1) // m) * m
        vals = set([0, 1, m - 1, m, m + 1, 2 * m, 2 * m - 1, top, top - 1, top + 1, 2 ** 31 - 1])
        for _ in range(3):
            k = rng.randrange(1, (2 ** 31 - 1) // m + 1); vals.update([k * m, k * m - 1])
        for v in sorted(x for x in vals if 0 <= x < 2 ** 31):
            ln = rng.choice([20, 32, 64]); off = rng.choice([0, rng.randrange(1, 15), 15])
            body = bytearray(contents(rng, ln, "rand")); body[-1] = (rng.randrange(16) << 4) | off
            if off + 4 > ln - 1: off = 0; body[-1] = body[-1] & 0xF0
            sign = rng.choice([0, 0x80])
            body[off:off + 4] = bytes([(v >> 24) | sign, (v >> 16) & 255, (v >> 8) & 255, v & 255])
            dg = bytes(body)
            cases.append(Case("hotpdg %s %d" % (hexs(dg), d), "hotpdg boundary d=%d v%s" % (d, "=k*10^d" if v % m == 0 else ("=k*10^d-1" if v % m == m - 1 else "=other")), True,
                              spec="spec.hotpdg %s %d" % (hexs(dg), d)))
    # every API family once during static initialisation of the driver (before the library's own dynamic initialisers have run)
    cases.append(Case("staticinit", "static-initialisation battery", True, spec="staticinit"))
    return cases

def extra(ctx):
    # HOTP/TOTP values after a failed call / after a call with another key (a per-thread keyed-state cache must not carry over)
    rng = ctx["rng"]; lines = []
    for t in HASHES:
        lines.append("oom hotp %s %s" % (t, hexs(contents(rng, 20, "rand"))))
        lines.append("oom totpvalid %s %s" % (t, hexs(contents(rng, BS[t] + 5, "rand"))))
    return oom_extra(ctx, lines, "HOTP/TOTP")

def key(case, impl, model):
    p = case.line.split(); return " ".join(p[:2]) + " " + " ".join(p[3:])
