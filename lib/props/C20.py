from core import Case, hexs
import core
from gen_util import *
PID = "C20"
DRIVER = "drv_heap"
MATRIX_QUICK = [core.CONFIG_BZERO]   # both zeroing back-ends on every run
MATRIX = core.MATRIX_ZEROING     # thorough tier: -O0/-O2/-O3, clang, explicit_bzero on/off, mlock on/off
DRIVER_FLAGS = ("-w",)
RULE = ("for every throwing API (hash x3 forms, get_hmac, HmacContext, pbkdf2 vector / locked, pepper, hkdf extract / expand / key-iv, HOTP, TOTP validation, time tokens x5, encoders x3, to_hex, "
        "secure_buffer copy-assign / assign / resize / construct / copy-construct / from string, secret_string set / rotate_nonce / rotate twice / reveal / move-in) and representative inputs of each shape: "
        "the call is run fault-free to count its allocations N, then N times with allocation k = 0..N-1 failing (operator new interposed); each run must exit with std::bad_alloc, release everything "
        "it allocated, leave the objects in an allowed state (secure_buffer: old contents, zeros of the old size, or empty; secret_string: reveals previous or new bytes, or integrity error) and a final "
        "fault-free call must still give the reference result; classes = api x input shape; non-trivial = N >= 1")

def gen(rng, tier):
    cases = []
    def add(api, args, cls): 
        line = "oom %s %s" % (api, " ".join(args)); cases.append(Case(line, "%s %s" % (api, cls), True, spec=line))
    def b(n): return hexs(bytes(rng.randrange(1, 256) for _ in range(n)))
    for t in HASHES:
        B = BS[t]
        for n in (0, 5, B + 3, 300):
            add("gethash", [t, b(n)], "%s len=%d" % (t, n)); add("hashstr", [t, b(n)], "%s len=%d" % (t, n))
        for kl in (0, 5, B, B + 9):
            for ml in (0, 40, 200):
                add("hmac", [t, b(kl), b(ml)], "%s k%s m=%d" % (t, "<=B" if kl <= B else ">B", ml))
            add("hmacstr", [t, b(kl), b(33)], "%s k=%d" % (t, kl)); add("hmacctx", [t, b(kl), b(70)], "%s k=%d" % (t, kl))
            add("hotp", [t, b(kl)], "%s k=%d" % (t, kl)); add("totpvalid", [t, b(kl)], "%s k=%d" % (t, kl))
            for api in ("tokgen", "tokgenfp", "tokgen_secure"): add(api, [t, b(kl)], "%s k=%d" % (t, kl))
            for api in ("tokval", "tokvalfp"): add(api, [t, b(kl), hexs(b"0" * (2 * DS[t]))], "%s k=%d" % (t, kl))
        for (pl, sl, c, dk) in [(0, 1, 1, 1), (8, 16, 2, DS[t] + 3), (B + 1, 40, 3, 2 * DS[t] + 1)]:
            add("pbkdf2", [t, b(pl), b(sl), str(c), str(dk)], "%s P=%d c=%d" % (t, pl, c)); add("pbkdf2_secure", [t, b(pl), b(sl), str(c), str(dk)], "%s P=%d c=%d" % (t, pl, c))
        add("pepper", [t, b(9), b(16), b(12)], t)
    for il, sl in [(0, 0), (16, 13), (100, 32)]:
        add("hkdfx", ["x", b(il), b(sl)], "ikm=%d" % il); add("hkdfkiv", ["x", b(il), b(sl)], "ikm=%d" % il)
    for L in (0, 1, 32, 33, 100):
        add("hkdfe", ["x", b(32), b(10), str(L)], "L=%d" % L)
    for n in (1, 2, 3, 16, 100):
        add("b64enc", ["x", b(n)], "n=%d" % n); add("b32enc", ["x", b(n)], "n=%d" % n); add("b36enc", ["x", b(n)], "n=%d" % n); add("tohex", ["x", b(n)], "n=%d" % n)
    # secure_buffer
    for n_old in (0, 8, 64):
        for n_new in (0, 4, 8, 65, 500):
            add("sb_copyassign", ["x", b(n_old), b(n_new)], "old=%d new=%d" % (n_old, n_new)); add("sb_assign", ["x", b(n_old), b(n_new)], "old=%d new=%d" % (n_old, n_new))
            add("sb_resize", ["x", b(n_old), str(n_new)], "old=%d new=%d" % (n_old, n_new)); add("sb_ctor", ["x", b(n_old), str(n_new)], "old=%d new=%d" % (n_old, n_new))
            add("sb_copyctor", ["x", b(n_old), b(n_new)], "old=%d new=%d" % (n_old, n_new)); add("sb_string", ["x", b(n_old), b(n_new)], "old=%d new=%d" % (n_old, n_new))
    # secret_string
    for n_old in (0, 5, 32, 33, 100):
        for n_new in (0, 7, 40):
            add("ss_set", ["x", b(n_old), b(n_new)], "old=%d new=%d" % (n_old, n_new)); add("ss_movein", ["x", b(n_old), b(n_new)], "old=%d new=%d" % (n_old, n_new))
        add("ss_rotate_revealed", ["x", b(n_old), "-"], "len=%d" % n_old); add("ss_set_revealed", ["x", b(n_old), b(21)], "len=%d" % n_old)
        add("ss_rotate", ["x", b(n_old), "-"], "len=%d" % n_old); add("ss_rotate_twice", ["x", b(n_old), "-"], "len=%d" % n_old); add("ss_reveal", ["x", b(n_old), "-"], "len=%d" % n_old)
        add("ss_rotate_move_rotate", ["x", b(n_old), "-"], "len=%d" % n_old)       # interrupted rotation, the object is moved, rotated again
        add("ss_rotate_moveassign_read", ["x", b(n_old), "-"], "len=%d" % n_old)   # ... or move-assigned into an object that has already been read
    for t in HASHES:
        add("hmacctx_reuse", [t, b(BS[t] + 9), b(30)], "%s" % t)
        for n1 in (0, 5, BS[t], BS[t] + 7):      # a copied context in mid-stream (its buffers have capacity == size) is continued under allocation failures
            add("hashctx_fork", [t, b(n1), b(40)], "%s buffered=%d" % (t, n1 % BS[t])); add("hmacctx_fork", [t, b(20), b(2 * n1 + 10)], "%s msg=%d" % (t, 2 * n1 + 10))
    # the first secret_string operation of a fresh process (the process-wide key is created inside it), one child process per failing allocation
    add("ss_firstuse", ["x", b(40)], "fresh-process")
    return cases

def key(case, impl, model):
    return case.cls + " " + impl[:80]
