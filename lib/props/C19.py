from core import Case, hexs
import core, os, subprocess, random, importlib, sys, re, time
PID = "C19"
DRIVER = "drv_conc"
DRIVER_LIBS = ("-pthread",)
TSAN_FLAGS = ("-fsanitize=thread", "-g")
RULE = ("cases of every function family (hash incl. context histories, HMAC one-shot and streaming incl. long keys, PBKDF2 both forms, HKDF, HOTP/TOTP with per-thread clocks, time tokens, the three codecs with "
        "per-thread output objects, secure_buffer and secret_string histories incl. the FIRST use of the process-wide key right after a start barrier) executed by 16 threads concurrently, each on its own objects and "
        "in its own shuffled order; every result must equal the single-threaded model's; the same run on a ThreadSanitizer build must report no data race; "
        "classes = class of the underlying case; non-trivial = as in the source corpus")
SOURCES = [("C01", 40), ("C02", 25), ("C03", 60), ("C04", 12), ("C05", 8), ("C06", 40), ("C07", 50), ("C08", 60), ("C09", 40), ("C13", 200), ("C14", 120), ("C15", 60)]

def gen(rng, tier):
    sys.path.insert(0, os.path.join(core.VERIF, "lib", "props"))
    cases = []
    mult = 1 if tier == "quick" else 4
    for pid, k in SOURCES:
        mod = importlib.import_module(pid)
        cs = mod.gen(random.Random(rng.randrange(1 << 30)), "quick")
        cs = [c for c in cs if not c.line.startswith(("hmacovf", "shabig"))]
        step = max(1, len(cs) // (k * mult))
        for c in cs[::step][:k * mult]:
            cases.append(Case(c.line, pid + " " + c.cls, c.nontrivial, spec=c.spec))
    # long keys through the streaming context from many threads at once, and objects with process-wide state
    for i in range(48 * mult):
        t = rng.choice(["sha1", "sha256", "sha512"]); kl = rng.choice([65, 70, 129, 140, 200])
        k = bytes(rng.randrange(256) for _ in range(kl)); m = bytes(rng.randrange(256) for _ in range(rng.randrange(0, 100)))
        cases.append(Case("hmachist %s I:%s U:%s F" % (t, hexs(k), hexs(m)), "long-key streaming %s" % t, True, spec="spec.hmaccat %s %s:%s" % (t, hexs(k), hexs(m))))
        P = bytes(rng.randrange(256) for _ in range(kl)); S = bytes(rng.randrange(256) for _ in range(16))
        cases.append(Case("pbkdf2buf %s %s %s 2 24" % (t, hexs(P), hexs(S)), "long-password pbkdf2buf %s" % t, True, spec="spec.pbkdf2buf %s %s %s 2 24" % (t, hexs(P), hexs(S))))
    for i in range(64 * mult):
        p = bytes(rng.randrange(1, 256) for _ in range(rng.choice([0, 1, 31, 32, 33, 64, 100])))
        l = "ssconc %s" % hexs(p); cases.append(Case(l, "secret_string len=%d" % len(p), len(p) > 0, spec=l))
        l = "sshandoff %s" % hexs(p); cases.append(Case(l, "secret_string handed to another thread len=%d" % len(p), len(p) > 0, spec=l))
        d = bytes(rng.randrange(1, 256) for _ in range(rng.choice([0, 1, 16, 100]))); l = "sbconc %s" % hexs(d); cases.append(Case(l, "secure_buffer len=%d" % len(d), len(d) > 0, spec=l))
    rng.shuffle(cases)
    return cases

def extra(ctx):
    out = []; t0 = time.monotonic()
    exe, log = core.ensure_driver("drv_conc", TSAN_FLAGS, opt="-O1", libs=DRIVER_LIBS)
    if exe is None:
        return [("build", "ThreadSanitizer build failed: " + log[-300:], dict(key="tsan-build"))]
    lines = [c.line for c in ctx["cases"]]
    # several independent processes, so that the first use of the process-wide key happens concurrently several times
    nproc = 6; per = (len(lines) + nproc - 1) // nproc; reports = 0; wrong = 0
    env = dict(os.environ); env["TSAN_OPTIONS"] = "halt_on_error=0:exitcode=66:report_signal_unsafe=0"
    procs = []
    for s in range(nproc):
        part = lines[s * per:(s + 1) * per]
        if not part: continue
        fn = os.path.join(ctx["rundir"], "tsan.%d.cases" % s); open(fn, "w").write("\n".join(part) + "\n")
        procs.append((subprocess.Popen([exe, fn, "16"], stdout=subprocess.PIPE, stderr=subprocess.PIPE, env=env), part, s))
    for p, part, s in procs:
        try: o, err = p.communicate(timeout=1500)
        except subprocess.TimeoutExpired: p.kill(); o, err = b"", b"TIMEOUT"
        err = err.decode(errors="replace")
        got = o.decode(errors="replace").split("\n")
        exp = ctx["model"][s * per:(s + 1) * per]
        for i, (g, e) in enumerate(zip(got, exp)):
            if g != e:
                wrong += 1
                if wrong <= 2: out.append(("concurrency", "a call returned a different value when 16 threads ran concurrently (TSan build)", dict(key="tsan-result " + part[i].split()[0], cases=[dict(case=part[i])], implementation=g[:200], model=e[:200])))
        for m in re.finditer(r"WARNING: ThreadSanitizer: ([^\n]*)\n(.*?)(?=\n==================|\Z)", err, flags=re.S):
            reports += 1
            if reports <= 3:
                where = re.findall(r"#\d+ ([^\n]*hmac_[^\n]*)", m.group(2))
                out.append(("tsan", "ThreadSanitizer: %s in %s" % (m.group(1), (where[0] if where else "?")[:160]),
                            dict(key="tsan %s %s" % (m.group(1)[:40], (where[0] if where else "?")[:60]), implementation=m.group(0)[:1500], build="g++ -O1 -fsanitize=thread, 16 threads",
                                 cases=[dict(case="(16 threads) " + part[0][:120] + " ...")])))
        if "TIMEOUT" in err: out.append(("tsan", "TSan run timed out", dict(key="tsan-timeout")))
    ctx["extra_cov"].update(dict(tsan_cases=len(lines), tsan_processes=len(procs), tsan_threads=16, tsan_reports=reports, tsan_wrong_results=wrong, tsan_wall_s=round(time.monotonic() - t0, 1)))
    return out

def key(case, impl, model):
    return case.cls
