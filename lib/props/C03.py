from core import Case, hexs
from gen_util import *
PID = "C03"
SOURCE_TIE = ["tie_hmac_pads"]   # coq_tie/Tie_Source.v against Gen_Source.v regenerated from /repo on every run
DRIVER = "drv_pure"
RULE = ("operation histories (I init, U:chunk update, F finish) on ONE hash context object / ONE HmacContext vs the context models; "
        "all two-way splits of messages up to 3B+5, sampled 3/4-way splits, empty chunks, reuse and abandoned cycles; "
        "classes = hash x split shape x (first chunk mod B, total mod B); non-trivial = at least one update with data")

def splits(rng, m, k):
    cuts = sorted(rng.randrange(0, len(m) + 1) for _ in range(k - 1))
    out = []; prev = 0
    for c in cuts + [len(m)]:
        out.append(m[prev:c]); prev = c
    return out

def gen(rng, tier):
    cases = []
    def hist(t, chunks_list, cls, abandon=None):
        ops = []; msgs = []
        if abandon is not None:
            ops += ["I"] + ["U:" + hexs(c) for c in abandon]
        for chunks in chunks_list:
            ops += ["I"] + ["U:" + hexs(c) for c in chunks] + ["F"]
            msgs.append(b"".join(chunks))
        cases.append(Case("shahist %s %s" % (t, " ".join(ops)), "%s %s" % (t, cls), any(len(m) for m in msgs),
                          spec="spec.cat %s %s" % (t, " ".join(hexs(m) for m in msgs))))
    def hhist(t, items, cls, abandon=None):
        ops = []; kms = []
        if abandon is not None:
            ops += ["I:" + hexs(abandon[0])] + ["U:" + hexs(c) for c in abandon[1]]
        for key, chunks in items:
            ops += ["I:" + hexs(key)] + ["U:" + hexs(c) for c in chunks] + ["F"]
            kms.append(hexs(key) + ":" + hexs(b"".join(chunks)))
        cases.append(Case("hmachist %s %s" % (t, " ".join(ops)), "%s hmac %s" % (t, cls), True,
                          spec="spec.hmaccat %s %s" % (t, " ".join(kms))))
    for t in HASHES:
        b = BS[t]
        top = 3 * b + 5
        step = 1 if tier == "thorough" else 1
        lens = list(range(0, top + 1)) if tier == "thorough" else sorted(set(list(range(0, 12)) + [b - 9, b - 8, b - 1, b, b + 1, 2 * b - 1, 2 * b, 2 * b + 1, 3 * b, top] + [rng.randrange(0, top) for _ in range(6)]))
        for n in lens:
            m = contents(rng, n, "rand")
            for i in range(0, n + 1):
                if tier == "quick" and n > 2 * b and i % 3 and i not in (b - 1, b, b + 1, 2 * b - 1, 2 * b, 2 * b + 1): continue
                hist(t, [[m[:i], m[i:]]], "split2 a%%B=%d n%%B=%d" % (i % b, n % b))
        for _ in range(150 if tier == "quick" else 1500):
            n = rng.randrange(0, top + 1); m = contents(rng, n, "rand"); k = rng.choice([3, 4, 5])
            ch = splits(rng, m, k)
            if rng.random() < 0.5: ch.insert(rng.randrange(len(ch) + 1), b"")
            hist(t, [ch], "split%d+empty n%%B=%d" % (k, n % b))
        # chunks of exactly B, B+-1, 2B, and byte-at-a-time
        for sz in [1, b - 1, b, b + 1, 2 * b, 2 * b + 1]:
            m = contents(rng, 3 * sz + 2 if sz > 1 else 2 * b + 3, "rand")
            hist(t, [[m[i:i + sz] for i in range(0, len(m), sz)]], "fixed-chunk-%s" % ("B%+d" % (sz - b) if sz >= b - 1 and sz <= b + 1 else sz))
        # reuse: two or three messages of different residues back to back on one object; abandoned cycles
        for _ in range(60 if tier == "quick" else 500):
            seqs = []
            for _j in range(rng.choice([2, 3])):
                n = rng.choice([0, 1, b - 9, b - 8, b - 1, b, b + 1, rng.randrange(0, top)])
                seqs.append(splits(rng, contents(rng, n, "rand"), rng.choice([1, 2, 3])))
            ab = None
            if rng.random() < 0.6:
                ab = splits(rng, contents(rng, rng.choice([1, 5, b - 1, b, b + 7, 2 * b + 1]), "rand"), rng.choice([1, 2]))
            hist(t, seqs, "reuse%d%s" % (len(seqs), " abandoned%%B=%d" % (sum(map(len, ab)) % b) if ab else ""), abandon=ab)
        # a COPY of the context continues / is finished while the original goes on (the copy's buffers have capacity == size)
        for a_len in [0, 1, b - 9, b - 8, b - 1, b, b + 1, 2 * b, 2 * b + 5] + [rng.randrange(0, top) for _ in range(4)]:
            for b_len in [0, 1, 8, b - a_len % b, b]:
                a = contents(rng, a_len, "rand"); bb = contents(rng, b_len, "rand")
                cases.append(Case("shahist %s I U:%s K U:%s F" % (t, hexs(a), hexs(bb)), "%s copy-continue a%%B=%d b=%d" % (t, a_len % b, b_len), True,
                                  spec="spec.cat %s %s" % (t, hexs(a + bb))))
                cases.append(Case("shahist %s I U:%s k U:%s K F" % (t, hexs(a), hexs(bb)), "%s copy-fork a%%B=%d b=%d" % (t, a_len % b, b_len), True,
                                  spec="spec.cat %s %s %s" % (t, hexs(a), hexs(a + bb))))
        # assignment: self-assignment, assignment onto a context that was in use, save (copy) / restore (assign) loops
        for a_len in [0, 1, b - 9, b - 1, b, b + 1, 2 * b + 5, rng.randrange(0, top)]:
            a = contents(rng, a_len, "rand"); bb = contents(rng, rng.choice([0, 1, 9, b]), "rand"); cc = contents(rng, rng.choice([1, 9, b + 2]), "rand"); junk = contents(rng, rng.choice([1, b - 1, b + 3]), "rand")
            cases.append(Case("shahist %s I U:%s Y U:%s F" % (t, hexs(a), hexs(bb)), "%s self-assign a%%B=%d" % (t, a_len % b), True, spec="spec.cat %s %s" % (t, hexs(a + bb))))
            cases.append(Case("shahist %s I U:%s G:%s U:%s F" % (t, hexs(a), hexs(junk), hexs(bb)), "%s assign-onto-used a%%B=%d" % (t, a_len % b), True, spec="spec.cat %s %s" % (t, hexs(a + bb))))
            cases.append(Case("shahist %s I U:%s V U:%s F R U:%s F R U:%s F" % (t, hexs(a), hexs(bb), hexs(cc), hexs(bb)), "%s save-restore a%%B=%d" % (t, a_len % b), True,
                              spec="spec.cat %s %s %s %s" % (t, hexs(a + bb), hexs(a + cc), hexs(a + bb))))
        # streaming HMAC
        klens = [0, 1, b - 1, b, b + 1, 2 * b + 1]
        # re-keying one object with RELATED keys: same length, common first block / common tail / one byte apart (a "same key" shortcut must compare everything)
        for kl in [5, b, b + 1, b + 40, 2 * b + 1]:
            base = bytearray(contents(rng, kl, "rand")); m1 = contents(rng, 20, "rand"); m2 = contents(rng, 70, "rand")
            variants = []
            v = bytearray(base); v[-1] ^= 1; variants.append(("last-byte", bytes(v)))
            v = bytearray(base); v[0] ^= 0x80; variants.append(("first-byte", bytes(v)))
            if kl > b: v = bytearray(base); v[b] ^= 0x55; variants.append(("byte-after-first-block", bytes(v)))
            variants.append(("prefix", bytes(base[:-1]))); variants.append(("extended", bytes(base) + b"\x00"))
            for name, k2 in variants:
                k1 = bytes(base)
                cases.append(Case("hmachist %s I:%s U:%s F I:%s U:%s F I:%s U:%s F" % (t, hexs(k1), hexs(m1), hexs(k2), hexs(m2), hexs(k1), hexs(m2)),
                                  "%s hmac rekey-related %s k%s" % (t, name, "<=B" if kl <= b else ">B"), True,
                                  spec="spec.hmaccat %s %s:%s %s:%s %s:%s" % (t, hexs(k1), hexs(m1), hexs(k2), hexs(m2), hexs(k1), hexs(m2))))
        for kl in [1, b, b + 1]:
            key = contents(rng, kl, "rand"); okey = contents(rng, rng.choice([1, b, b + 1]), "rand")
            for a_len in [0, 1, b - 9, b, b + 3]:
                a = contents(rng, a_len, "rand"); bb = contents(rng, rng.choice([0, 1, 9, b]), "rand"); cc = contents(rng, rng.choice([1, 9, b + 2]), "rand"); junk = contents(rng, rng.choice([1, b + 3]), "rand")
                km = lambda m: hexs(key) + ":" + hexs(m)
                cases.append(Case("hmachist %s I:%s U:%s Y U:%s F" % (t, hexs(key), hexs(a), hexs(bb)), "%s hmac self-assign a%%B=%d" % (t, a_len % b), True, spec="spec.hmaccat %s %s" % (t, km(a + bb))))
                for ot in HASHES:       # assigned onto a context constructed for the same or for ANOTHER hash, which was in use
                    cases.append(Case("hmachist %s I:%s U:%s G:%s:%s:%s U:%s F" % (t, hexs(key), hexs(a), ot, hexs(okey), hexs(junk), hexs(bb)),
                                      "%s hmac assign-onto-used-%s a%%B=%d" % (t, "same" if ot == t else "other", a_len % b), True, spec="spec.hmaccat %s %s" % (t, km(a + bb))))
                cases.append(Case("hmachist %s I:%s U:%s V U:%s F R U:%s F R U:%s F" % (t, hexs(key), hexs(a), hexs(bb), hexs(cc), hexs(bb)), "%s hmac save-restore a%%B=%d" % (t, a_len % b), True,
                                  spec="spec.hmaccat %s %s %s %s" % (t, km(a + bb), km(a + cc), km(a + bb))))
                # a final() rejected for a too-small buffer leaves the context as it was: retry, or go on updating
                short = rng.choice([0, 1, DS[t] - 1])
                cases.append(Case("hmachist %s I:%s U:%s f:%d F" % (t, hexs(key), hexs(a), short), "%s hmac rejected-final-retry a%%B=%d" % (t, a_len % b), True, spec="spec.hmaccat %s %s" % (t, km(a))))
                cases.append(Case("hmachist %s I:%s U:%s f:%d U:%s F" % (t, hexs(key), hexs(a), short, hexs(bb)), "%s hmac rejected-final-continue a%%B=%d" % (t, a_len % b), True, spec="spec.hmaccat %s %s" % (t, km(a + bb))))
        for kl in [1, b, b + 1]:
            key = contents(rng, kl, "rand")
            for a_len in [0, 1, b - 9, b - 8, b, b + 3]:
                a = contents(rng, a_len, "rand"); bb = contents(rng, rng.choice([0, 1, 9, b]), "rand")
                cases.append(Case("hmachist %s I:%s U:%s K U:%s F" % (t, hexs(key), hexs(a), hexs(bb)), "%s hmac copy-continue a%%B=%d" % (t, a_len % b), True,
                                  spec="spec.hmaccat %s %s:%s" % (t, hexs(key), hexs(a + bb))))
                cases.append(Case("hmachist %s I:%s U:%s k U:%s K F" % (t, hexs(key), hexs(a), hexs(bb)), "%s hmac copy-fork a%%B=%d" % (t, a_len % b), True,
                                  spec="spec.hmaccat %s %s:%s %s:%s" % (t, hexs(key), hexs(a), hexs(key), hexs(a + bb))))
        for kl in klens:
            key = contents(rng, kl, "rand")
            for n in ([0, 1, b - 9, b - 8, b, b + 1, 2 * b + 3] if tier == "quick" else list(range(0, 2 * b + 6, 3))):
                m = contents(rng, n, "rand")
                for k in (1, 2, 3):
                    hhist(t, [(key, splits(rng, m, k))], "k%s split%d n%%B=%d" % ("=B" if kl == b else "<B" if kl < b else ">B", k, n % b))
        for _ in range(60 if tier == "quick" else 400):
            items = []
            for _j in range(rng.choice([2, 3])):
                key = contents(rng, rng.choice(klens), "rand")
                items.append((key, splits(rng, contents(rng, rng.randrange(0, 2 * b + 6), "rand"), rng.choice([1, 2, 4]))))
            ab = None
            if rng.random() < 0.5:
                ab = (contents(rng, rng.choice(klens), "rand"), splits(rng, contents(rng, rng.randrange(1, b + 9), "rand"), 2))
            hhist(t, items, "reuse%d%s" % (len(items), " abandoned" if ab else ""), abandon=ab)
    return cases

def extra(ctx):
    # one HmacContext: a cycle under another key, an init() interrupted by an allocation failure, then a cycle under a shorter key
    rng = ctx["rng"]; lines = []
    for t in HASHES:
        for kl in [7, BS[t], BS[t] + 9]:
            lines.append("oom hmacctx_reuse %s %s %s" % (t, hexs(contents(rng, kl, "rand")), hexs(contents(rng, 30, "rand"))))
    return oom_extra(ctx, lines, "HmacContext re-keyed after a failed init")

def key(case, impl, model):
    p = case.line.split()
    return " ".join(p[:2]) + " ops=" + "".join(o[0] for o in p[2:])
