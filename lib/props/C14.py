from core import Case, hexs
import base64 as pyb64
PID = "C14"
SOURCE_TIE = ['tie_b32']      # theorems of coq_tie/Tie_Source.v re-checked against Gen_Source.v regenerated from /repo on every run
DRIVER = "drv_pure"
RULE = ("base32_encode (ptr, vector, secure_buffer) and base32_decode (reused vector / secure_buffer outputs + fresh vector) vs the models; encoder: all byte strings of length <= 2 "
        "(sampled grid), every pair of positions within a 5-byte group over a 4-value byte set, random to 200 bytes x pad; decoder: valid encodings, every pad-run length 0..8 in the last "
        "and in an inner group, '=' at each of the 8 positions, every L mod 8 x require_padding x strict, padded group followed by an unpadded tail, lower/mixed case, whitespace at every "
        "position, high-bit bytes whose low 7 bits are alphabet characters, 0 1 8 9; classes = op x flags x (L mod 8) x mutation kind; non-trivial = non-empty input")

def gen(rng, tier):
    cases = []
    def enc(pad, d, cls): cases.append(Case("b32enc %d %s" % (pad, hexs(d)), "enc pad=%d %s" % (pad, cls), len(d) > 0, spec="spec.b32enc %d %s" % (pad, hexs(d))))
    def dec(req, strict, s, cls):
        cases.append(Case("b32dec %d %d %s" % (req, strict, hexs(s)), "dec req=%d strict=%d L%%8=%d %s" % (req, strict, len(s) % 8, cls), len(s) > 0,
                          spec="spec.b32dec %d %d %s" % (req, strict, hexs(s))))
    def alldec(s, cls):
        for req in (0, 1):
            for strict in (0, 1): dec(req, strict, s, cls)
    for pad in (0, 1):
        enc(pad, b"", "empty")
        for a in range(256): enc(pad, bytes([a]), "len1")
        for a in range(0, 256, 5 if tier == "quick" else 1):
            for b in range(0, 256, 17 if tier == "quick" else 3): enc(pad, bytes([a, b]), "len2")
        vals = [0x00, 0xFF, 0xA5, 0x1F]
        for i in range(5):
            for j in range(i + 1, 5):
                for x in vals:
                    for y in vals:
                        g = bytearray([0x55] * 5); g[i] = x; g[j] = y
                        enc(pad, bytes(g), "pairwise"); enc(pad, bytes(g) + bytes(g[:3]), "pairwise+tail")
        for n in list(range(0, 12)) + [rng.randrange(12, 200) for _ in range(20 if tier == "quick" else 200)]:
            enc(pad, bytes(rng.randrange(256) for _ in range(n)), "rand n%%5=%d" % (n % 5))
    alldec(b"", "empty")
    A = b"ABCDEFGHIJKLMNOPQRSTUVWXYZ234567"
    for n in range(0, 21):
        d = bytes(rng.randrange(256) for _ in range(n))
        e = pyb64.b32encode(d)
        alldec(e, "valid-padded n%%5=%d" % (n % 5)); alldec(e.rstrip(b"="), "valid-unpadded n%%5=%d" % (n % 5))
        alldec(e.lower(), "lower"); alldec(e.rstrip(b"=").swapcase() if n % 2 else e.swapcase(), "mixedcase")
        for pos in range(0, len(e) + 1, 1 if len(e) < 17 else 5):
            for ws in (b" ", b"\n", b"\r", b"\t"):
                if rng.random() < (0.3 if tier == "quick" else 1.0): alldec(e[:pos] + ws + e[pos:], "whitespace")
        if e:
            for _ in range(6):
                pos = rng.randrange(len(e)); bad = bytes([rng.choice([0x30, 0x31, 0x38, 0x39, 0x2B, 0x2F, 0x2D, 0x5F, 0x00, 0x7F, 0x80, 0xC1, 0xDA, 0xBD, e[pos] | 0x80, 0xFF])])
                alldec(e[:pos] + bad + e[pos + 1:], "badchar")
    # pad runs of every length in the last group and in an inner group; '=' at each position
    for k in range(0, 9):
        body = bytes(rng.choice(A) for _ in range(8 - k))
        alldec(body + b"=" * k, "last-group pad-run=%d" % k)
        alldec(bytes(rng.choice(A) for _ in range(8)) + body + b"=" * k, "second-group pad-run=%d" % k)
        alldec(body + b"=" * k + bytes(rng.choice(A) for _ in range(8)), "inner-group pad-run=%d" % k)
        for tail in (2, 4, 5, 7, 1, 3, 6):
            alldec(body + b"=" * k + bytes(rng.choice(A) for _ in range(tail)), "padded-group+tail%d pad-run=%d" % (tail, k))
    for pos in range(8):
        g = bytearray(rng.choice(A) for _ in range(8)); g[pos] = 0x3D
        alldec(bytes(g), "single-eq pos=%d" % pos); alldec(bytes(rng.choice(A) for _ in range(8)) + bytes(g), "single-eq-2nd pos=%d" % pos)
    for L in range(1, 26):
        alldec(bytes(rng.choice(A) for _ in range(L)), "alphabet-only")
        alldec(bytes(rng.choice(A + b"=") for _ in range(L)), "alphabet+eq random")
    import itertools
    small = b"A7=a \n\x80"
    maxl = 4 if tier == "quick" else 5
    for L in range(1, maxl + 1):
        for tup in itertools.product(small, repeat=L):
            s = bytes(tup)
            if tier == "quick" and L == 4 and rng.random() < 0.7: continue
            dec(rng.randrange(2), rng.randrange(2), s, "exhaustive-small")
    for _ in range(200 if tier == "quick" else 3000):
        L = rng.randrange(1, 40); alldec(bytes(rng.choice(A + b"==a \n\x80") for _ in range(L)), "random-mixed")
    # text that decodes to NOTHING (only whitespace, lenient mode) right after a successful decode into the same reused output objects, and NUL / control bytes
    for ws in [b" ", b"\n", b"\r\n", b" \t ", b"\n\n\n\n\n\n\n\n", b"\x00", b"\x0b", b"\x0c", b"MZXW6===\x00", b"MZ\x00XW6==="]:
        for req in (0, 1):
            for strict in (0, 1):
                cases.append(Case("b32dec %d %d %s" % (req, strict, hexs(b"MZXW6YTB")), "prime-before-empty-result", True, spec="spec.b32dec %d %d %s" % (req, strict, hexs(b"MZXW6YTB"))))
                cases.append(Case("b32dec %d %d %s" % (req, strict, hexs(ws)), "decodes-to-nothing-or-control", True, spec="spec.b32dec %d %d %s" % (req, strict, hexs(ws))))
    # every API family once during static initialisation of the driver (before the library's own dynamic initialisers have run)
    cases.append(Case("staticinit", "static-initialisation battery", True, spec="staticinit"))
    return cases

def key(case, impl, model):
    p = case.line.split(); return " ".join(p[:-1]) + " len=%d" % (0 if p[-1] == "-" else len(p[-1]) // 2)
