from core import Case, hexs
from gen_util import *
PID = "C15"
SOURCE_TIE = ['tie_b36']      # theorems of coq_tie/Tie_Source.v re-checked against Gen_Source.v regenerated from /repo on every run
DRIVER = "drv_pure"
RULE = ("base36_encode (ptr, vector, secure_buffer) and base36_decode (vector and secure_buffer outputs reused across cases, plus a fresh vector) vs the models; "
        "all byte strings of length <= 2 exhaustively, lengths to 80 with 0..8 leading zero bytes, all-zero strings, 0xFF.., decoder on every single byte value, "
        "mixed case, zero runs, long numerals (> 48 digits), invalid characters at every position class; classes = op x length class x leading zeros x validity; "
        "non-trivial = non-empty input")

def gen(rng, tier):
    cases = []
    def enc(d, cls): cases.append(Case("b36enc %s" % hexs(d), "enc " + cls, len(d) > 0, spec="spec.b36enc %s" % hexs(d)))
    def dec(s, cls): cases.append(Case("b36dec %s" % hexs(s), "dec " + cls, len(s) > 0, spec="spec.b36dec %s" % hexs(s)))
    enc(b"", "empty"); dec(b"", "empty")
    for a in range(256):
        enc(bytes([a]), "len1")
        dec(bytes([a]), "char-%s" % ("alnum" if chr(a).isalnum() and a < 128 else "other"))
        dec(b"1" + bytes([a]), "char2-%s" % ("alnum" if chr(a).isalnum() and a < 128 else "other"))
        dec(bytes([a]) + b"Z", "char1-%s" % ("alnum" if chr(a).isalnum() and a < 128 else "other"))
    step = 1 if tier == "thorough" else 7
    for a in range(0, 256, step):
        for b in range(0, 256, step if tier == "quick" else 3):
            enc(bytes([a, b]), "len2 z=%d" % (2 if a == b == 0 else (1 if a == 0 else 0)))
    for n in range(0, 12): enc(bytes(n), "allzero n=%d" % n); dec(b"0" * n, "zeros n=%d" % n)
    for n in [1, 2, 3, 4, 7, 8, 15, 16, 20, 31, 32, 33, 47, 48, 64, 80] + ([100, 200] if tier == "thorough" else []):
        for z in [0, 1, 2, 8]:
            for kind in ["rand", "ff", "inc"]:
                d = bytes(z) + contents(rng, n, kind)
                if kind == "rand" and d[z:z + 1] == b"\x00": d = bytes(z) + b"\x01" + d[z + 1:]
                enc(d, "n=%d z=%d %s" % (n if n < 33 else (48 if n < 49 else 99), z, kind))
        enc(b"\x01" + bytes(n), "pow256 n=%d" % (n if n < 33 else 99))
    alnum = b"0123456789ABCDEFGHIJKLMNOPQRSTUVWXYZabcdefghijklmnopqrstuvwxyz"
    for _ in range(300 if tier == "quick" else 3000):
        n = rng.choice([1, 2, 3, 5, 10, 20, 47, 48, 49, 60, 100]); z = rng.choice([0, 0, 1, 3])
        s = b"0" * z + bytes(rng.choice(alnum) for _ in range(n))
        dec(s, "valid n=%d z=%d" % (n if n < 21 else (48 if n < 50 else 99), z))
        if rng.random() < 0.4:
            pos = rng.randrange(len(s)); bad = bytes([rng.choice([0x10, 0x19, 0x20, 0x2F, 0x3A, 0x40, 0x5B, 0x60, 0x7B, 0x80, 0xB0, 0xFF, 0x2B, 0x3D, 0x0A])])
            dec(s[:pos] + bad + s[pos + 1:], "invalid-char pos=%s" % ("first" if pos == 0 else ("last" if pos == len(s) - 1 else "mid")))
    # numerals of values around powers of two (an accumulator of a fixed width overflows exactly there), in both cases, with leading zeros
    def b36(v):
        ds = "0123456789ABCDEFGHIJKLMNOPQRSTUVWXYZ"; o = ""
        while v: o = ds[v % 36] + o; v //= 36
        return (o or "0").encode()
    for k in [8, 16, 24, 31, 32, 33, 40, 48, 56, 62, 63, 64, 65, 72, 96, 127, 128, 129, 256, 512]:
        for dlt in (-2, -1, 0, 1, 2, 19, 35, 36):
            v = 2 ** k + dlt; t_ = b36(v)
            dec(t_, "pow2 k=%d" % k); dec(t_.lower(), "pow2 lower k=%d" % k)
            if dlt in (0, 19): dec(b"00" + t_, "pow2 leading-zeros k=%d" % k)
            enc(v.to_bytes((v.bit_length() + 7) // 8, "big"), "pow2-value k=%d" % k)
    # runs of zero digits at every alignment (a loop that takes several digits per pass may skip an all-zero group)
    for k in range(1, 15):
        for pre in (b"1", b"Z", b"USER", b"7Q"):
            for suf in (b"", b"1", b"0Z"):
                dec(pre + b"0" * k + suf, "zero-run k=%d" % k)
    for pw in range(1, 13):
        v = 36 ** pw
        dec(b36(v), "pow36 %d" % pw); dec(b36(v * 35 + 1), "pow36+1 %d" % pw); dec(b36(v - 1), "pow36-1 %d" % pw)
    # decode of encodings (round trip through the real encoder is covered by enc==model and dec==model on the same strings)
    # every API family once during static initialisation of the driver (before the library's own dynamic initialisers have run)
    cases.append(Case("staticinit", "static-initialisation battery", True, spec="staticinit"))
    return cases

def key(case, impl, model):
    p = case.line.split(); return p[0] + " len=%d" % (0 if p[1] == "-" else len(p[1]) // 2)
