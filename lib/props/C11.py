from core import Case
import itertools
PID = "C11"
DRIVER = "drv_args"
RULE = ("every public pointer-level entry point called in a forked child with arguments built from descriptors: the cross product of per-parameter classes "
        "(null / non-null x length 0 / small / at / above the limit; every enum value and the selectors -1, 3, 7, 255, INT_MAX, INT_MIN; iterations 0, 1, limit, limit+1; dk_len 0, 1, "
        "at / above (2^32-1)*hLen; salt 0, 15, 16; digits 0, 1, 9, 10; period / interval 0, 1, -1, INT_MAX, INT_MIN; L 0, 8160, 8161, SIZE_MAX-30..SIZE_MAX; prk 31, 32, 33; clock -1 with/without errno, "
        "negative, 0) vs the verdict models; observed: accept / documented exception type / false / terminate / crash, plus 'false but output written'; "
        "classes = api x verdict x violated-rule tuple; non-trivial = at least one argument outside the domain or on a boundary")
SIZE_MAX = 2 ** 64 - 1
SELS = [0, 1, 2, -1, 3, 7, 255, 2 ** 31 - 1, -2 ** 31]

def gen(rng, tier):
    cases = []
    def add(api, args, cls, nt=True):
        line = "args %s %s" % (api, " ".join(str(a) for a in args))
        # the verdict model is the documented contract (theorems C11_*_exact): a disagreeing call is itself the failing input
        cases.append(Case(line, "%s %s" % (api, cls), nt, spec=line))
    # buffers: (null flag, len)
    bufs_small = [(0, 0), (0, 5), (1, 0), (1, 5)]
    for s in SELS: add("gethash", [s], "sel=%d" % s)
    for (kn, kl), (mn, ml), s in itertools.product(bufs_small + [(0, 64), (0, 65), (0, 129)], bufs_small, SELS[:6]):
        add("gethmac", [kn, kl, mn, ml, s], "k%d%s m%d%s sel%s" % (kn, "+" if kl else "0", mn, "+" if ml else "0", "ok" if 0 <= s <= 2 else "bad"))
    for s in [0, 1, 2, 7]:
        blk = 128 if s == 2 else 64
        for ml in [SIZE_MAX, SIZE_MAX - blk + 1, SIZE_MAX - 1]:
            add("gethmac", [0, 3, 0, ml, s], "overflow ml=max-%d" % (SIZE_MAX - ml if SIZE_MAX - ml < 1000 else -1))
            add("gethmac", [1, 3, 0, ml, s], "overflow+nullkey")
    for (n, l), s in itertools.product(bufs_small, SELS[:6]):
        add("hmacinit", [n, l, s], "b%d%s sel%s" % (n, "+" if l else "0", "ok" if 0 <= s <= 2 else "bad"))
        add("hmacupdate", [n, l, s], "b%d%s sel%s" % (n, "+" if l else "0", "ok" if 0 <= s <= 2 else "bad"))
    for s in [0, 1, 2]:
        ds = [20, 32, 64][s]
        for on, ol in [(0, ds), (0, ds - 1), (0, ds + 1), (0, 0), (1, ds), (1, 0), (0, 80)]:
            add("hmacfinal", [on, ol, s], "out%d len%s" % (on, "=" if ol == ds else ("<" if ol < ds else ">")))
    # PBKDF2
    for s in SELS[:7]:
        h = {0: 20, 1: 32, 2: 64}.get(s, 32); lim = (2 ** 32 - 1) * h
        for (pn, pl) in bufs_small:
            for (sn, sl) in [(0, 0), (0, 1), (0, 15), (0, 16), (1, 0), (1, 16)]:
                for it in [0, 1, 2, 1000001, 2 ** 32 - 1]:
                    for dk in [0, 1, 20, lim + 1, SIZE_MAX]:
                        if tier == "quick" and rng.random() < 0.55 and not (it in (1, 2) and dk in (1, 20)): continue
                        add("pbkdf2vec", [pn, pl, sn, sl, it, dk, s], "p%d s%d%s it%s dk%s sel%s" % (pn, sn, sl, it if it < 3 else (">lim" if it > 1000000 else "big"), dk if dk < 30 else ">lim", "ok" if 0 <= s <= 2 else "bad"))
                        for on in (0, 1):
                            if on and rng.random() < 0.5: continue
                            add("pbkdf2buf", [pn, pl, sn, sl, on, it, dk, s], "p%d s%d%s out%d it%s dk%s sel%s" % (pn, sn, sl, on, it if it < 3 else (">lim" if it > 1000000 else "big"), dk if dk < 30 else ">lim", "ok" if 0 <= s <= 2 else "bad"))
    for it in [1000000]:     # the iteration limit itself is accepted (about a second each)
        add("pbkdf2vec", [0, 3, 0, 8, it, 1, 0], "it=limit")
        add("pbkdf2buf", [0, 3, 0, 16, 0, it, 1, 1], "it=limit")
    for dk in [100000]:
        add("pbkdf2vec", [0, 3, 0, 8, 1, dk, 2], "dk=large-ok"); add("pbkdf2buf", [0, 3, 0, 16, 0, 1, dk, 2], "dk=large-ok")
    for (pn, pl), (sn, sl), on, it, dk in itertools.product(bufs_small, [(0, 15), (0, 16), (1, 16), (0, 0)], (0, 1), [0, 1, 1000001], [0, 32, (2 ** 32 - 1) * 32 + 1]):
        add("pbkdf2sha256", [pn, pl, sn, sl, on, it, dk], "p%d s%d%s out%d it%s dk%s" % (pn, sn, sl, on, it if it < 3 else ">lim", dk if dk < 40 else ">lim"))
    for s in SELS[:6]:
        for (pn, pl), (sn, sl), (en, el) in itertools.product([(0, 3), (1, 3), (1, 0)], [(0, 8), (0, 0), (1, 8)], [(0, 4), (1, 4), (1, 0), (0, 0)]):
            for it, dk in [(1, 20), (0, 20), (1, 0), (1000001, 20)]:
                add("pepper", [pn, pl, sn, sl, en, el, it, dk, s], "p%d%s s%d%s e%d%s it%s dk%s sel%s" % (pn, pl, sn, sl, en, el, it if it < 3 else ">lim", dk, "ok" if 0 <= s <= 2 else "bad"))
    add("pepper", [0, SIZE_MAX, 0, 8, 0, 4, 1, 20, 1], "password overflow")
    # HKDF
    for (inn, il), (sn, sl) in itertools.product(bufs_small + [(0, SIZE_MAX), (0, SIZE_MAX - 63), (1, SIZE_MAX)], bufs_small + [(0, 32), (0, 65), (1, 32)]):
        add("hkdfx", [inn, il, sn, sl], "ikm%d%s salt%d%s" % (inn, "+" if il else "0", sn, "+" if sl else "0"))
    Ls = [0, 1, 32, 8159, 8160, 8161, 2 ** 32, 2 ** 63] + [SIZE_MAX - k for k in (0, 1, 15, 30, 31, 32, 33)]
    for (pn, pl), (inn, il), L in itertools.product([(0, 32), (0, 31), (0, 33), (0, 0), (1, 32), (1, 0), (0, 64)], [(0, 0), (0, 7), (1, 0), (1, 7)], Ls):
        for api in ("hkdfe", "hkdfes"):
            add(api, [pn, pl, inn, il, L], "prk%d/%d info%d%s L%s" % (pn, pl, inn, "+" if il else "0", L if L < 9000 else ("max-%d" % (SIZE_MAX - L) if SIZE_MAX - L < 100 else "huge")))
    # OTP
    for (kn, kl), d, s in itertools.product(bufs_small, [0, 1, 6, 9, 10, -1, 2 ** 31 - 1, -2 ** 31], SELS[:6]):
        add("hotp", [kn, kl, d, s], "k%d%s d%s sel%s" % (kn, "+" if kl else "0", d if 0 <= d <= 10 else "x", "ok" if 0 <= s <= 2 else "bad"))
    for (kn, kl), p, d, s in itertools.product([(0, 5), (1, 5), (1, 0)], [0, 1, 30, -1, 2 ** 31 - 1, -2 ** 31], [0, 1, 9, 10], [0, 1, 2, 3]):
        add("totpat", [kn, kl, p, d, s], "k%d%s p%s d%s sel%s" % (kn, kl, p if abs(p) < 40 else ("max" if p > 0 else "min"), d, s))
        add("totpvalidat", [kn, kl, p, d, s], "k%d%s p%s d%s sel%s" % (kn, kl, p if abs(p) < 40 else ("max" if p > 0 else "min"), d, s))
        for now, err in [(59, 0), (0, 0), (-1, 1), (-1, 0), (-5, 0), (59, 1), (-2 ** 63, 0), (2 ** 63 - 1, 0)]:
            if tier == "quick" and rng.random() < 0.6: continue
            add("totpnow", [kn, kl, p, d, s, now, err], "k%d%s p%s d%s sel%s now%s err%d" % (kn, kl, "ok" if p > 0 else "bad", "ok" if 1 <= d <= 9 else "bad", s, "neg" if now < 0 else "pos", err))
            add("totpvalidnow", [kn, kl, p, d, s, now, err], "k%d%s p%s d%s sel%s now%s err%d" % (kn, kl, "ok" if p > 0 else "bad", "ok" if 1 <= d <= 9 else "bad", s, "neg" if now < 0 else "pos", err))
    # a null pointer with a length that is a non-zero multiple of 2^32 (a length narrowed to 32 bits looks like 0)
    for big in [2 ** 32, 3 * 2 ** 32, 2 ** 63, 2 ** 32 + 2 ** 40]:
        add("gethmac", [1, big, 0, 5, 0], "null key len=k*2^32"); add("gethmac", [0, 5, 1, big, 0], "null msg len=k*2^32")
        add("pbkdf2vec", [1, big, 0, 16, 1, 20, 1], "null password len=k*2^32"); add("pbkdf2vec", [0, 8, 1, big, 1, 20, 1], "null salt len=k*2^32")
        add("pbkdf2buf", [1, big, 0, 16, 0, 1, 20, 1], "null password len=k*2^32"); add("pbkdf2buf", [0, 8, 1, big, 0, 1, 20, 1], "null salt len=k*2^32")
        add("pbkdf2sha256", [1, big, 0, 16, 0, 1, 20], "null password len=k*2^32"); add("pepper", [0, 8, 0, 16, 1, big, 1, 20, 1], "null pepper len=k*2^32")
        add("hkdfx", [1, big, 0, 5], "null ikm len=k*2^32"); add("hkdfe", [0, 32, 1, big, 10], "null info len=k*2^32"); add("hotp", [1, big, 6, 0], "null key len=k*2^32")
        add("hmacinit", [1, big, 0], "null key len=k*2^32"); add("hmacupdate", [1, big, 0], "null data len=k*2^32"); add("secretset", [1, big], "null data len=k*2^32")
    # values congruent to a valid one modulo 2^8 / 2^16 (a parameter narrowed to a byte or a short would take them for valid)
    for d in [6 + 256, 1 + 256, 9 + 256, 6 - 256, 6 + 65536, 262 + 65536, 6 - 65536, 6 + 2 ** 24]:
        for (kn, kl) in [(0, 5)]:
            add("hotp", [kn, kl, d, 0], "k0+ d-congruent sel ok")
            add("totpat", [kn, kl, 30, d, 0], "k05 p30 d-congruent sel0")
            add("totpvalidat", [kn, kl, 30, d, 0], "k05 p30 d-congruent sel0")
            add("totpnow", [kn, kl, 30, d, 0, 59, 0], "k05 pok d-congruent sel0 nowpos err0")
    for s_ in [256, 257, 258, 65536, 65537, -256, 2 ** 24 + 1]:
        add("gethash", [s_], "sel-congruent=%d" % s_); add("hotp", [0, 5, 6, s_], "k0+ d6 sel-congruent")
        add("gethmac", [0, 5, 0, 5, s_], "sel-congruent"); add("pbkdf2vec", [0, 8, 0, 16, 1, 20, s_], "prf-congruent")
        add("pbkdf2buf", [0, 8, 0, 16, 0, 1, 20, s_], "prf-congruent")
    # the verdict is independent of the candidate token: out-of-range / extreme tokens with every kind of invalid argument
    for (kn, kl), p, d, s, tok in itertools.product([(0, 5), (1, 5)], [30, 0, -1], [6, 0, 10], [0, 3, -1], [-1, 10 ** 6, 2 ** 31 - 1, -2 ** 31, 0]):
        add("totpvalidat_tok", [kn, kl, p, d, s, tok], "k%d p%s d%s sel%s tok%s" % (kn, p, d, s, "in" if tok == 0 else "out"))
        for now, err in [(59, 0), (-1, 1), (-5, 0), (59, 1)]:
            add("totpvalidnow_tok", [kn, kl, p, d, s, now, err, tok], "k%d p%s d%s sel%s now%s err%d tok%s" % (kn, "ok" if p > 0 else "bad", "ok" if 1 <= d <= 9 else "bad", s, "neg" if now < 0 else "pos", err, "in" if tok == 0 else "out"))
    for dl in [0, 1, 3, 4, 5, 18, 19, 20, 32, 64]:
        for nib in range(16):
            add("hotpdg", [dl, nib], "len%d %s" % (dl, "short" if dl < nib + 4 else "ok"))
    for api in ("tokgen", "tokval", "tokgenfp", "tokvalfp"):
        for iv, s, (now, err) in itertools.product([0, 1, 60, -1, 2 ** 31 - 1, -2 ** 31], SELS[:6], [(100, 0), (-1, 1), (-1, 0), (100, 1), (-2 ** 63, 0), (2 ** 63 - 1, 1)]):
            add(api, [iv, s, now, err], "iv%s sel%s clock%s" % ("ok" if iv > 0 else "bad", "ok" if 0 <= s <= 2 else "bad", "fail" if (now == -1 and err) else "ok"))
    for (n, l) in bufs_small + [(1, SIZE_MAX)]:
        add("secretset", [n, l], "b%d%s" % (n, "+" if l else "0"))
    return cases

def key(case, impl, model):
    return case.cls + " impl=" + impl[:40] + " model=" + model[:40]
