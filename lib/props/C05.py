from core import Case, hexs
from gen_util import *
PID = "C05"
DRIVER = "drv_pure"
RULE = ("hkdf_extract_sha256 (5 forms, null / empty / non-empty salt), hkdf_expand_sha256 (5 forms, null info) and hkdf_key_iv_256 (3 forms) vs the models; "
        "L = 0, below/at/above multiples of 32, > 64, 8159, 8160; |IKM|,|salt|,|info| around SHA-256 block and padding boundaries; "
        "classes = op x length classes; non-trivial = accepted arguments")

def gen(rng, tier):
    cases = []
    lens = [0, 1, 31, 32, 33, 55, 56, 64, 65, 119, 128, 129]
    for il in lens:
        for sl in (["null"] + lens if tier == "thorough" else ["null", 0, 1, 32, 64, 65, rng.choice(lens)]):
            ikm = contents(rng, il); salt = "null" if sl == "null" else hexs(contents(rng, sl))
            cases.append(Case("hkdfx %s %s" % (hexs(ikm), salt), "extract ikm=%d salt=%s" % (il, sl), True, spec="spec.hkdfx %s %s" % (hexs(ikm), salt)))
    # contexts / infos / salts that text handling might "normalise" (BOM, line ends, blanks, NULs), and all-zero salts of every length class
    for pre in [b"\xef\xbb\xbf", b"\xff\xfe", b" ", b"\x00", b"\r\n"]:
        for suf in [b"", b"\n", b"\x00", b" "]:
            ctx_ = pre + b"label" + suf; ikm = contents(rng, 32, "rand"); salt = contents(rng, 16, "rand")
            cases.append(Case("hkdfkiv %s %s %s" % (hexs(ikm), hexs(salt), hexs(ctx_)), "keyiv texty-context", True, spec="spec.hkdfkiv %s %s %s" % (hexs(ikm), hexs(salt), hexs(ctx_))))
            cases.append(Case("hkdfe %s %s 44" % (hexs(ikm), hexs(ctx_)), "expand texty-info", True, spec="spec.hkdfe %s %s 44" % (hexs(ikm), hexs(ctx_))))
    for sl in [1, 31, 32, 33, 64, 65, 100, 200]:
        ikm = contents(rng, 20, "rand")
        cases.append(Case("hkdfx %s %s" % (hexs(ikm), hexs(bytes(sl))), "extract zero-salt len=%d" % sl, True, spec="spec.hkdfx %s %s" % (hexs(ikm), hexs(bytes(sl)))))
        cases.append(Case("hkdfkiv %s %s %s" % (hexs(ikm), hexs(bytes(sl)), hexs(b"c")), "keyiv zero-salt len=%d" % sl, True, spec="spec.hkdfkiv %s %s %s" % (hexs(ikm), hexs(bytes(sl)), hexs(b"c"))))
    # coinciding operands: ikm == salt (same bytes), prk == info
    for n in [1, 32, 64, 65]:
        X = contents(rng, n, "rand")
        cases.append(Case("hkdfx %s %s" % (hexs(X), hexs(X)), "extract ikm==salt n=%d" % n, True, spec="spec.hkdfx %s %s" % (hexs(X), hexs(X))))
        cases.append(Case("hkdfkiv %s %s %s" % (hexs(X), hexs(X), hexs(X)), "keyiv all-equal n=%d" % n, True, spec="spec.hkdfkiv %s %s %s" % (hexs(X), hexs(X), hexs(X))))
    X = contents(rng, 32, "rand")
    for L in [1, 32, 65]:
        cases.append(Case("hkdfe %s %s %d" % (hexs(X), hexs(X), L), "expand prk==info", True, spec="spec.hkdfe %s %s %d" % (hexs(X), hexs(X), L)))
    Ls = [0, 1, 31, 32, 33, 63, 64, 65, 66, 95, 96, 97, 128, 160, 255, 256, 1000] + ([8159, 8160] if tier == "quick" else [4096, 8128, 8129, 8159, 8160])
    infos = [0, 1, 22, 23, 24, 55, 56, 64]
    for L in Ls:
        for il in ([rng.choice(infos), rng.choice(infos)] if tier == "quick" else infos):
            prk = contents(rng, 32); info = contents(rng, il)
            cases.append(Case("hkdfe %s %s %d" % (hexs(prk), hexs(info), L), "expand L%%32=%d blocks=%s info=%d" % (L % 32, min((L + 31) // 32, 4) if L < 8000 else 255, il), True,
                              spec="spec.hkdfe %s %s %d" % (hexs(prk), hexs(info), L)))
    for L in [0, 32, 33, 100]:
        prk = contents(rng, 32)
        cases.append(Case("hkdfe %s null %d" % (hexs(prk), L), "expand null-info", True, spec="spec.hkdfe %s null %d" % (hexs(prk), L)))
    for _ in range(20 if tier == "quick" else 200):
        L = rng.randrange(0, 700); prk = contents(rng, 32); info = contents(rng, rng.randrange(0, 80))
        cases.append(Case("hkdfe %s %s %d" % (hexs(prk), hexs(info), L), "expand random L%%32=%d" % (L % 32), True, spec="spec.hkdfe %s %s %d" % (hexs(prk), hexs(info), L)))
    for pl, L, cls in [(31, 10, "prk=31"), (33, 10, "prk=33"), (0, 10, "prk=0"), (32, 8161, "L=8161"), (32, 100000, "L=100000")]:
        cases.append(Case("hkdfe %s 01 %d" % (hexs(contents(rng, pl)), L), "expand reject " + cls, False))
    for il in [0, 1, 32, 65]:
        for sl in ["null", 0, 16, 32, 65]:
            for cl in [0, 1, 20, 56]:
                ikm = contents(rng, il); salt = "null" if sl == "null" else hexs(contents(rng, sl)); ctx = contents(rng, cl)
                cases.append(Case("hkdfkiv %s %s %s" % (hexs(ikm), salt, hexs(ctx)), "keyiv ikm=%d salt=%s ctx=%d" % (il, sl, cl), True,
                                  spec="spec.hkdfkiv %s %s %s" % (hexs(ikm), salt, hexs(ctx))))
    return cases

def extra(ctx):
    # HKDF values after a failed call / after a call with other arguments (per-thread scratch must not carry over)
    rng = ctx["rng"]; lines = []
    for L in [33, 96, 200]:
        lines.append("oom hkdfe x %s %s %d" % (hexs(contents(rng, 32, "rand")), hexs(contents(rng, 10, "rand")), L))
    lines.append("oom hkdfx x %s %s" % (hexs(contents(rng, 40, "rand")), hexs(contents(rng, 20, "rand"))))
    lines.append("oom hkdfkiv x %s %s" % (hexs(contents(rng, 32, "rand")), hexs(contents(rng, 16, "rand"))))
    return oom_extra(ctx, lines, "HKDF")

def key(case, impl, model):
    p = case.line.split(); return p[0] + " " + " ".join("len=%d" % (0 if x in ("-", "null") else len(x) // 2) for x in p[1:3]) + " " + (p[3] if p[0] == "hkdfe" else "")

def spec_cost(case):
    p = case.line.split()
    return int(p[3]) ** 2 if p[0] == "hkdfe" else 100     # the spec recomputes T(1..i) for every i
