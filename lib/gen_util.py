"""Generator helpers: byte-string content families and boundary sets."""
def contents(rng, n, kind=None):
    kind = kind or rng.choice(["rand", "rand", "rand", "zero", "ff", "80", "inc", "spot", "spot", "texty"])
    if kind == "texty":     # what text-handling code might "normalise": a byte-order mark, line ends, blanks, NULs at either end
        pre = rng.choice([b"\xef\xbb\xbf", b"\xff\xfe", b"\xfe\xff", b" ", b"\x00", b"\r\n", b""]); suf = rng.choice([b"\n", b"\r\n", b" ", b"\x00", b"\x00\x00", b"=", b""])
        mid = bytes(rng.randrange(0x20, 0x7F) for _ in range(max(0, n - len(pre) - len(suf))))
        return (pre + mid + suf)[:n] if n >= len(pre) + len(suf) else (pre + suf)[:n]
    if kind == "rand": return bytes(rng.randrange(256) for _ in range(n))
    if kind == "spot":      # random bytes with one special value at a special position (first, last, middle, around 64 / 128)
        b = bytearray(rng.randrange(256) for _ in range(n))
        if n:
            pos = rng.choice([0, n - 1, n // 2, 63, 64, 127, 128, n - 2]) % n
            b[pos] = rng.choice([0x00, 0xFF, 0x80, 0x7F, 0x01, 0x0A, 0x3D])
        return bytes(b)
    if kind == "zero": return bytes(n)
    if kind == "ff": return b"\xff" * n
    if kind == "80": return b"\x80" * n
    return bytes((i * 7 + 1) & 255 for i in range(n))

HASHES = ["sha1", "sha256", "sha512"]

# --- mining inputs whose RESULT has a special value (python's hashlib/hmac are used to FIND inputs only; the oracle stays the model) ---
DIGEST_PREDS = [("last=00", lambda d: d[-1] == 0), ("first=00", lambda d: d[0] == 0), ("last=ff", lambda d: d[-1] == 0xFF), ("two-zero-bytes", lambda d: d.count(0) >= 2),
                ("has-0a", lambda d: 0x0A in d), ("last-two=0000", lambda d: d[-1] == 0 and d[-2] == 0), ("high-bits-clear", lambda d: d[0] < 0x10)]
def mine_message(rng, t, pred, tries=200000):
    import hashlib
    for _ in range(tries):
        m = bytes(rng.randrange(256) for _ in range(rng.randrange(1, 40)))
        if pred(hashlib.new(t, m).digest()): return m
    return None
def mine_hmac_message(rng, t, key, pred, tries=200000):
    import hmac as _hmac
    for _ in range(tries):
        m = bytes(rng.randrange(256) for _ in range(rng.randrange(1, 40)))
        if pred(_hmac.new(key, m, t).digest()): return m
    return None
BS = {"sha1": 64, "sha256": 64, "sha512": 128}
DS = {"sha1": 20, "sha256": 32, "sha512": 64}
LB = {"sha1": 8, "sha256": 8, "sha512": 16}

def pad_class(t, n):
    """class of a message length w.r.t. the padding decision of hash t"""
    b = BS[t]; r = n % b; thr = b - LB[t] - 1
    where = "below" if r < thr else ("at" if r == thr else ("above" if r < b - 1 else "last"))
    return "r%d-%s" % (r, where) if r in (0, thr - 1, thr, thr + 1, b - 9, b - 8, b - 1) else where


def oom_extra(ctx, lines, what):
    """Run allocation-failure sweeps (harness/drv_heap.cpp `oom` op) as an extra observation of a functional property: a call that follows a
    failed one - or one made with other arguments - must still return the documented value. Compared with the model's verdict line."""
    import core, os
    exe, log = core.ensure_driver("drv_heap", ("-w",))
    if exe is None:
        return [("build", "drv_heap does not build: " + log[-400:], None)]
    impl = core.run_lines(exe, lines, ctx["rundir"], "oomx", shards=min(len(lines), core.NCPU))
    model = core.run_lines(ctx["model_exe"], lines, ctx["rundir"], "oomm", shards=1)
    out = []
    for l, i, m in zip(lines, impl, model):
        if i != m:
            out.append(("oom", "%s: after an injected allocation failure (or a call with other arguments) the next call does not give the documented result: %s" % (what, i[:300]),
                        dict(key="oom " + " ".join(l.split()[:3]), cases=[dict(case=l)], implementation=i, model=m)))
    ctx["extra_cov"]["allocation_failure_sweeps"] = len(lines)
    return out
