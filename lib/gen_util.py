"""Generator helpers: byte-string content families and boundary sets."""
def contents(rng, n, kind=None):
    kind = kind or rng.choice(["rand", "rand", "rand", "zero", "ff", "80", "inc"])
    if kind == "rand": return bytes(rng.randrange(256) for _ in range(n))
    if kind == "zero": return bytes(n)
    if kind == "ff": return b"\xff" * n
    if kind == "80": return b"\x80" * n
    return bytes((i * 7 + 1) & 255 for i in range(n))

HASHES = ["sha1", "sha256", "sha512"]
BS = {"sha1": 64, "sha256": 64, "sha512": 128}
DS = {"sha1": 20, "sha256": 32, "sha512": 64}
LB = {"sha1": 8, "sha256": 8, "sha512": 16}

def pad_class(t, n):
    """class of a message length w.r.t. the padding decision of hash t"""
    b = BS[t]; r = n % b; thr = b - LB[t] - 1
    where = "below" if r < thr else ("at" if r == thr else ("above" if r < b - 1 else "last"))
    return "r%d-%s" % (r, where) if r in (0, thr - 1, thr, thr + 1, b - 9, b - 8, b - 1) else where
