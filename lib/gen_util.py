"""Generator helpers: byte-string content families and boundary sets."""
def contents(rng, n, kind=None):
    kind = kind or rng.choice(["rand", "rand", "rand", "zero", "ff", "80", "inc"])
    if kind == "rand": return bytes(rng.randrange(256) for _ in range(n))
    if kind == "zero": return bytes(n)
    if kind == "ff": return b"\xff" * n
    if kind == "80": return b"\x80" * n
    return bytes((i * 7 + 1) & 255 for i in range(n))

HASHES = ["sha1", "sha256", "sha512"]
BS = {"sha1": 64, "sha256": 64, "sha512": 128}
DS = {"sha1": 20, "sha256": 32, "sha512": 64}
LB = {"sha1": 8, "sha256": 8, "sha512": 16}

def pad_class(t, n):
    """class of a message length w.r.t. the padding decision of hash t"""
    b = BS[t]; r = n % b; thr = b - LB[t] - 1
    where = "below" if r < thr else ("at" if r == thr else ("above" if r < b - 1 else "last"))
    return "r%d-%s" % (r, where) if r in (0, thr - 1, thr, thr + 1, b - 9, b - 8, b - 1) else where


def oom_extra(ctx, lines, what):
    """Run allocation-failure sweeps (harness/drv_heap.cpp `oom` op) as an extra observation of a functional property: a call that follows a
    failed one - or one made with other arguments - must still return the documented value. Compared with the model's verdict line."""
    import core, os
    exe, log = core.ensure_driver("drv_heap", ("-w",))
    if exe is None:
        return [("build", "drv_heap does not build: " + log[-400:], None)]
    impl = core.run_lines(exe, lines, ctx["rundir"], "oomx", shards=min(len(lines), core.NCPU))
    model = core.run_lines(ctx["model_exe"], lines, ctx["rundir"], "oomm", shards=1)
    out = []
    for l, i, m in zip(lines, impl, model):
        if i != m:
            out.append(("oom", "%s: after an injected allocation failure (or a call with other arguments) the next call does not give the documented result: %s" % (what, i[:300]),
                        dict(key="oom " + " ".join(l.split()[:3]), cases=[dict(case=l)], implementation=i, model=m)))
    ctx["extra_cov"]["allocation_failure_sweeps"] = len(lines)
    return out
