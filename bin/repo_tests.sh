#!/bin/bash
# Build /repo-like source tree $1 into build dir $2 (guard OFF: plain CMake defaults) and run the 78-test suite.
set -e
SRC=${1:-/repo}
BLD=${2:-$SRC/_build}
cmake -G Ninja -S "$SRC" -B "$BLD" -DHMACCPP_BUILD_TESTS=ON -DCMAKE_BUILD_TYPE=RelWithDebInfo \
  -DFETCHCONTENT_SOURCE_DIR_GOOGLETEST=/usr/src/googletest -DFETCHCONTENT_FULLY_DISCONNECTED=ON \
  -DFETCHCONTENT_UPDATES_DISCONNECTED=ON >/dev/null
cmake --build "$BLD" -j16 >/dev/null
"$BLD/test_all" --gtest_brief=1
"$BLD/test_totp" --gtest_brief=1
