(* Hand-written driver around the extracted model (model.ml): reads a case file (one case per line,
   whitespace-separated tokens: op name, then arguments; byte strings in hex, "-" = empty; numbers in
   decimal) and prints one canonical result line per case. *)
open Model

let rec pos_of_int i = if i = 1 then XH else if i land 1 = 0 then XO (pos_of_int (i lsr 1)) else XI (pos_of_int (i lsr 1))
let n_of_int i = if i = 0 then N0 else Npos (pos_of_int i)
let rec int_of_pos = function XH -> 1 | XO p -> 2 * int_of_pos p | XI p -> 2 * int_of_pos p + 1
let int_of_n = function N0 -> 0 | Npos p -> int_of_pos p
let nat_of_int i = let rec go acc i = if i <= 0 then acc else go (S acc) (i - 1) in go O i
let int_of_nat n = let rec go acc = function O -> acc | S m -> go (acc + 1) m in go 0 n
let ten = n_of_int 10
let n_of_dec s = let acc = ref N0 in String.iter (fun c -> acc := N.add (N.mul !acc ten) (n_of_int (Char.code c - 48))) s; !acc
let dec_of_n n =
  if n = N0 then "0" else begin
    let b = Buffer.create 24 in
    let rec go n acc = if n = N0 then acc else go (N.div n ten) (string_of_int (int_of_n (N.modulo n ten)) :: acc) in
    List.iter (Buffer.add_string b) (go n []); Buffer.contents b end
let z_of_dec s = if String.length s > 0 && s.[0] = '-' then Z.opp (Z.of_N (n_of_dec (String.sub s 1 (String.length s - 1)))) else Z.of_N (n_of_dec s)
let dec_of_z z = match z with Z0 -> "0" | Zpos p -> dec_of_n (Npos p) | Zneg p -> "-" ^ dec_of_n (Npos p)

let hexval c = match c with '0'..'9' -> Char.code c - 48 | 'a'..'f' -> Char.code c - 87 | 'A'..'F' -> Char.code c - 55 | _ -> failwith "hex"
let bx s = if s = "-" then [] else begin
  let n = String.length s / 2 in
  let rec go i acc = if i < 0 then acc else go (i - 1) (n_of_int (hexval s.[2*i] * 16 + hexval s.[2*i+1]) :: acc) in
  go (n - 1) [] end
let hx l = if l = [] then "-" else begin
  let b = Buffer.create 64 in List.iter (fun x -> Buffer.add_string b (Printf.sprintf "%02x" (int_of_n x))) l; Buffer.contents b end
let str_of_bytes l = let b = Buffer.create 64 in List.iter (fun x -> Buffer.add_char b (Char.chr (int_of_n x))) l; Buffer.contents b
let bool_s b = if b then "true" else "false"
let hash_of = function "sha1" -> SHA1 | "sha256" -> SHA256 | "sha512" -> SHA512 | _ -> failwith "hash"
let split_on c s = String.split_on_char c s

(* ---- hash contexts (Model_Hash.hctx) ---- *)
let h_fresh t = hfresh (hash_of t)
(* state injection: set the count of already-processed bytes (a multiple of the block size) *)
let h_inject c tot = match c with
  | HC1 c -> HC1 { c with s_transforms = N.div tot (n_of_int 64) }
  | HC256 c -> HC256 { c with m_tot = tot }
  | HC512 c -> HC512 { c with m_tot = tot }
let h_oneshot t m = if t = "sha512pinned" then sha512_oneshot_pinned m else hash_oneshot (hash_of t) m
let b01 s = s = "1"

let exn_s = function InvalidArgument -> "throw:invalid_argument" | OverflowError -> "throw:overflow_error"
  | RuntimeError -> "throw:runtime_error" | BadAlloc -> "throw:bad_alloc"
let res_z = function Ok z -> "ok " ^ dec_of_z z | Throw e -> exn_s e
let res_b = function Ok b -> "ok " ^ bool_s b | Throw e -> exn_s e
let res_bytes = function Ok l -> "ok " ^ hx l | Throw e -> exn_s e
let zd = z_of_dec
let nd = n_of_dec

let verdict_s = function Accept -> "accept" | Sig e -> exn_s e | RetFalse -> "false" | Terminate -> "terminate"
let mkbuf nul len = { b_null = (nul = "1"); b_len = zd len }
let args_run a = match a with
  | ["gethash"; s] -> v_get_hash (zd s)
  | ["gethmac"; kn; kl; mn; ml; s] -> v_get_hmac (mkbuf kn kl) (mkbuf mn ml) (zd s)
  | ["hmacinit"; kn; kl; s] -> v_hmac_init (mkbuf kn kl) (zd s)
  | ["hmacupdate"; dn; dl; s] -> v_hmac_update (mkbuf dn dl) (zd s)
  | ["hmacfinal"; on; ol; s] -> let sel = zd s in (match v_hmac_init (mkbuf "0" "1") sel with Accept -> v_hmac_final (on = "1") (zd ol) (sel_digest sel) sel | v -> v)
  | ["pbkdf2vec"; pn; pl; sn; sl; it; dk; s] -> v_pbkdf2_vec (mkbuf pn pl) (mkbuf sn sl) (zd it) (zd dk) (zd s)
  | ["pbkdf2buf"; pn; pl; sn; sl; on; it; dk; s] -> v_pbkdf2_buf (mkbuf pn pl) (mkbuf sn sl) (on = "1") (zd it) (zd dk) (zd s)
  | ["pbkdf2sha256"; pn; pl; sn; sl; on; it; dk] -> v_pbkdf2_buf (mkbuf pn pl) (mkbuf sn sl) (on = "1") (zd it) (zd dk) (zd "1")
  | ["pepper"; pn; pl; sn; sl; en; el; it; dk; s] -> v_pepper (mkbuf pn pl) (mkbuf sn sl) (mkbuf en el) (zd it) (zd dk) (zd s)
  | ["hkdfx"; inn; il; sn; sl] -> v_hkdf_extract (mkbuf inn il) (mkbuf sn sl)
  | [("hkdfe" | "hkdfes"); pn; pl; inn; il; l] -> v_hkdf_expand (mkbuf pn pl) (mkbuf inn il) (zd l)
  | ["hotp"; kn; kl; d; s] -> v_hotp (mkbuf kn kl) (zd d) (zd s)
  | ["totpvalidat_tok"; kn; kl; p; d; s; _tok] -> v_totp_at (mkbuf kn kl) (zd p) (zd d) (zd s)        (* the verdict does not depend on the candidate token *)
  | ["totpvalidnow_tok"; kn; kl; p; d; s; now; err; _tok] -> v_totp_now (mkbuf kn kl) (zd p) (zd d) (zd s) (zd now, err <> "0")
  | [("totpat" | "totpvalidat"); kn; kl; p; d; s] -> v_totp_at (mkbuf kn kl) (zd p) (zd d) (zd s)
  | [("totpnow" | "totpvalidnow"); kn; kl; p; d; s; now; err] -> v_totp_now (mkbuf kn kl) (zd p) (zd d) (zd s) (zd now, err <> "0")
  | ["hotpdg"; dl; nib] -> v_hotp_from_digest (zd dl) (zd nib)
  | [("tokgen" | "tokval" | "tokgenfp" | "tokvalfp"); iv; s; now; err] -> v_token (zd iv) (zd s) (zd now, err <> "0")
  | ["secretset"; dn; dl] -> v_secret_set (mkbuf dn dl)
  | _ -> failwith "args api"

(* ---- secure_buffer histories (Model_SecureBuffer) ---- *)
let sb_var s = if s = "A" then VA else VB
let sb_op o =
  match split_on ':' o with
  | ["N"; x; n] -> OCtorN (sb_var x, nat_of_int (int_of_string n))
  | ["V"; x; d] -> OAdopt (sb_var x, bx d, [])
  | ["V"; x; d; sl] -> OAdopt (sb_var x, bx d, List.map (fun b -> Val b) (bx sl))
  | ["S"; x; d] -> OFromString (sb_var x, bx d)
  | ["T"; x; d] -> OAssignString (sb_var x, bx d)
  | ["C"; x] -> OCopyAssign (sb_var x)
  | ["M"; x] -> OMoveAssign (sb_var x)
  | ["K"; x] -> OCopyCtor (sb_var x)
  | ["Y"; x] -> OSelfAssign (sb_var x)
  | ["R"; x; n] -> OResize (sb_var x, nat_of_int (int_of_string n))
  | ["L"; x] -> OClear (sb_var x)
  | ["P"; x; d] -> OAssignPtr (sb_var x, bx d)
  | ["W"; x; i; b] -> OWrite (sb_var x, nat_of_int (int_of_string i), n_of_int (int_of_string b))
  | _ -> failwith "sbhist op"
let sb_grow _ n = n           (* any policy with requested <= new capacity: contents and release verdicts do not depend on it (theorems of Properties_C16) *)
let sbhist ops =
  let st = ref init_state and trace = ref [] and clean = ref true and strs = ref true in
  List.iter (fun o ->
    let (st', ev) = step sb_grow true !st (sb_op o) in
    st := st';
    if not (List.for_all block_clean ev.frees) then clean := false;
    List.iter (fun (chars, empty) -> if not (empty && List.for_all (fun c -> c = N0) chars) then strs := false) ev.strings;
    trace := ("A=" ^ hx (contents !st.sa) ^ ";B=" ^ hx (contents !st.sb)) :: !trace) ops;
  if not (List.for_all block_clean (destroy !st).frees) then clean := false;
  String.concat "|" (List.rev !trace) ^ " frees=" ^ (if !clean then "clean" else "dirty") ^ " strings=" ^ (if !strs then "zeroed" else "dirty")
let sbspec ops =
  let st = ref ([], []) and trace = ref [] in
  List.iter (fun o -> st := spec_step !st (sb_op o); trace := ("A=" ^ hx (fst !st) ^ ";B=" ^ hx (snd !st)) :: !trace) ops;
  String.concat "|" (List.rev !trace) ^ " frees=clean strings=zeroed"

(* ---- C17: inventory of temporaries (Model_Release) ---- *)
let rel_of api a =
  let t () = hash_of (List.nth a 0) in
  let g i = bx (List.nth a i) in
  let nat i = nat_of_int (int_of_string (List.nth a i)) in
  match api with
  | "hmac" | "hmac_veckey" | "hotp" | "hotp_secure" | "totpvalid" | "tokgen_vec" -> rel_get_hmac true (t ()) (g 1) (if List.length a > 2 && api <> "hotp" && api <> "tokgen_vec" then g 2 else [])
  | "hmac_securekey" -> rel_get_hmac_securekey true (t ()) (g 1) (g 2)
  | "tokgen_secure" | "tokval_secure" | "tokgenfp_secure" | "tokvalfp_secure" -> rel_token_securekey true (t ()) (g 1) []
  | "hmacctx" -> rel_hmac_ctx true (t ()) (g 1) (g 2)
  | "pbkdf2" | "pbkdf2_secure" | "pbkdf2_sbin" | "pbkdf2buf" -> rel_pbkdf2 true (t ()) (g 1) (g 2) (nd (List.nth a 3)) (nat 4)
  | "pepper" -> rel_pepper true (t ()) (g 1) (g 2) (g 3) (nd (List.nth a 4)) (nat 5)
  | "hkdfx" | "hkdfx_secure" | "hkdfkiv" -> rel_hkdf_extract true (g 1) (if List.nth a 2 = "-" then None else Some (g 2))
  | "hkdfe" | "hkdfe_secure" -> rel_get_hmac true SHA256 (g 1) []
  | "b64dec_secure" | "b32dec_secure" | "b36dec_secure" -> []      (* the decoded bytes are supplied by the generator *)
  | "ss_reveal" | "ss_cb" -> rel_secret_reveal true false (g 1)
  | "ss_cb_throw_std" | "ss_cb_throw_other" -> rel_secret_reveal true true (g 1)
  | "ss_set" | "ss_rotate" | "ss_move" -> []                       (* ciphertext and secure buffers only *)
  | _ -> failwith "rel api"

let static_lines = [ "hmacstr sha256 6b6579 73746174696320696e6974 1 0"; "hmacstr sha1 6b6579 73746174696320696e6974 1 1"; "hmacstr sha512 6b6579 73 0 0"; "tohex 0 00ff10a5"; "tohex 1 00ff10a5"; "hexstr sha256 616263"; "sha sha1 616263"; "sha sha512 -"; "b64enc 0 1 666f6f626172"; "b64dec 0 1 1 5a6d3976596d4679"; "b64dec 1 0 0 5a6d39765f2d"; "b32enc 1 666f6f"; "b32dec 1 1 4d5a585736"; "b32dec 0 0 6d7a7877"; "b36enc 0001ff"; "b36dec 317a"; "hotp sha1 3132333435363738393031323334353637383930 1 6"; "cteq 6162 6162" ]
let rec run toks =
  match toks with
  | ["ssbig"; _] -> "recall-ok"             (* C18_recall: after set / rotate / move / rotate the object reveals exactly the stored bytes, for every length *)
  | ["sshandoff"; _] -> "handoff-ok"        (* C19_secret_strings + C18_recall: one process-wide key, the receiver reveals what the creator stored *)
  | ["staticinit"] -> String.concat "|" (List.map (fun l -> run (split_on ' ' l)) static_lines)
  | ["cteq"; a; b] -> bool_s (ct_equals (bx a) (bx b))
  | ["spec.eq"; a; b] -> bool_s (bx a = bx b)
  | ["cteqfill"; la; fa; lb; fb] | ["spec.eqfill"; la; fa; lb; fb] -> bool_s (la = lb && (fa = fb || la = "0"))      (* C09_exact on constant-filled inputs *)
  | ["cteqbig"; la; lb] | ["spec.eqbig"; la; lb] -> bool_s (la = lb)     (* C09_exact on two all-zero inputs: equal iff the lengths are equal *)
  | ["sha"; t; m] -> hx (h_oneshot t (bx m))
  | ["shapinned"; m] -> hx (sha512_oneshot_pinned (bx m))
  | ["spec.sha"; t; m] -> hx (sHA_spec (hash_of t) (bx m))
  | "shahist" :: t :: ops ->
      (* ops: I | U:<hex> | F | J:<dec total> ; prints the digest of every F, comma separated *)
      let c = ref (h_fresh t) and outs = ref [] in
      let saved = ref None in
      List.iter (fun o ->
        if o = "I" then c := hinit !c
        else if o = "Y" || (String.length o >= 1 && o.[0] = 'G') then ()            (* self-assignment / assigned onto another object: same state *)
        else if o = "V" then saved := Some !c
        else if o = "R" then (match !saved with Some s -> c := s | None -> ())
        else if o = "K" then ()                                                       (* continuing on a copy: same state *)
        else if o = "k" then (let (_, d) = hfinish !c in outs := hx d :: !outs)       (* a copy is finished, the original keeps its state *)
        else if o = "F" then (let (c', d) = hfinish !c in c := c'; outs := hx d :: !outs)
        else if String.length o >= 2 && o.[0] = 'U' then c := hupdate !c (bx (String.sub o 2 (String.length o - 2)))
        else if String.length o >= 2 && o.[0] = 'J' then c := h_inject !c (n_of_dec (String.sub o 2 (String.length o - 2)))
        else failwith "shahist op") ops;
      String.concat "," (List.rev !outs)
  | "hmachuge" :: _ -> "agree"     (* C02_key_cases: a key longer than the block is replaced by its digest; C03_hmac: streaming = one-shot *)
  | "shahuge" :: _ -> "agree"      (* C01_forms / C03_hash: one update call, get_hash, and any chunking give the same digest *)
  | ["hexstr"; t; m] -> str_of_bytes (hash_hexstr (hash_of t) (bx m))
  | ["hmac"; t; k; m] -> hx (get_hmac_raw (hash_of t) (bx k) (bx m))
  | ["spec.hmac"; t; k; m] -> hx (hMAC_spec (hash_of t) (bx k) (bx m))
  | ["hmacstr"; t; k; m; ih; iu] -> hx (get_hmac_str (hash_of t) (bx k) (bx m) (b01 ih) (b01 iu))
  | ["spec.hmacstr"; t; k; m; ih; iu] ->
      let mac = hMAC_spec (hash_of t) (bx k) (bx m) in
      hx (if b01 ih then hex_of_bytes (b01 iu) mac else mac)
  | ["tohex"; iu; m] -> hx (to_hex (b01 iu) (bx m))
  | ["spec.tohex"; iu; m] -> hx (hex_of_bytes (b01 iu) (bx m))
  | ["hmacovf"; _; _] -> "throw:overflow_error"   (* msg_len > SIZE_MAX - block_size: C11 verdict model *)
  | "hmachist" :: t :: ops ->
      (* ops on ONE HmacContext object: I:<key> | U:<hex> | F *)
      let h = ref (hc_new (hash_of t)) and outs = ref [] in
      let saved = ref None in
      List.iter (fun o ->
        let arg () = bx (String.sub o 2 (String.length o - 2)) in
        if o = "Y" || o.[0] = 'G' || o.[0] = 'f' then ()          (* self-assignment, assignment onto another object, a rejected final(): same state *)
        else if o = "V" then saved := Some !h
        else if o = "R" then (match !saved with Some s -> h := s | None -> ())
        else if o = "F" then (let (h', d) = hmac_final !h in h := h'; outs := hx d :: !outs)
        else if o = "K" then ()
        else if o = "k" then (let (_, d) = hmac_final !h in outs := hx d :: !outs)
        else if o.[0] = 'I' then h := hmac_init !h (arg ())
        else if o.[0] = 'U' then h := hmac_update !h (arg ())
        else failwith "hmachist op") ops;
      String.concat "," (List.rev !outs)
  | "spec.cat" :: t :: msgs -> String.concat "," (List.map (fun m -> hx (sHA_spec (hash_of t) (bx m))) msgs)
  | "spec.hmaccat" :: t :: kms ->
      String.concat "," (List.map (fun km -> match split_on ':' km with
         | [k; m] -> hx (hMAC_spec (hash_of t) (bx k) (bx m)) | _ -> failwith "km") kms)
  | ["hotp"; t; k; c; d] -> res_z (get_hotp_code (hash_of t) (bx k) (nd c) (zd d))
  | ["spec.hotp"; t; k; c; d] -> "ok " ^ dec_of_n (hOTP_spec (hash_of t) (bx k) (nd c) (nd d))
  | ["totpat"; t; k; ts; p; d] -> res_z (get_totp_code_at (hash_of t) (bx k) (nd ts) (zd p) (zd d))
  | ["spec.totpat"; t; k; ts; p; d] -> "ok " ^ dec_of_n (tOTP_spec (hash_of t) (bx k) (nd ts) (nd p) (nd d))
  | ["totpnow"; t; k; p; d; now; err; _step] -> res_z (get_totp_code (hash_of t) (bx k) (zd p) (zd d) (zd now, err <> "0"))
  | ["hotpdg"; dg; d] -> res_z (hotp_from_digest (bx dg) (zd d))
  | ["spec.hotpdg"; dg; d] -> "ok " ^ dec_of_n (N.modulo (dT (bx dg)) (N.pow ten (nd d)))
  | ["totpvalid"; t; tok; k; ts; p; d] -> res_b (is_totp_token_valid_at (hash_of t) (zd tok) (bx k) (nd ts) (zd p) (zd d))
  | ["spec.totpvalid"; t; tok; k; ts; p; d] ->
      (* the window predicate of C07 written out over the spec *)
      let c = N.div (nd ts) (nd p) in let code x = Z.of_N (hOTP_spec (hash_of t) (bx k) x (nd d)) in
      let tk = zd tok in let maxc = N.sub (N.pow (n_of_int 2) (n_of_int 64)) (n_of_int 1) in
      "ok " ^ bool_s (tk = code c || (c <> maxc && tk = code (N.add c (n_of_int 1))) || (c <> N0 && tk = code (N.sub c (n_of_int 1))))
  | ["totpvalidnow"; t; tok; k; p; d; now; err; _step] ->
      res_b (is_totp_token_valid_now (hash_of t) (zd tok) (bx k) (zd p) (zd d) (zd now, err <> "0"))
  | ["pbkdf2end"; t; p; s; c; dk; k] | ["spec.pbkdf2end"; t; p; s; c; dk; k] ->
      (* the last k bytes of a dk-byte output: T_(l-1) || first r bytes of T_l with l = ceil(dk/hLen), r = dk - (l-1) hLen  (PBKDF2_spec; C04_block) *)
      let dk = int_of_string dk and k = int_of_string k in
      let h = (match t with "sha1" -> 20 | "sha256" -> 32 | _ -> 64) in
      let l = (dk + h - 1) / h in let r = dk - (l - 1) * h in
      let f i = hx (pbkdf2_F (hash_of t) (bx p) (bx s) (nat_of_int (int_of_string c)) (nd (string_of_int i))) in
      let tl = (if l >= 2 then f (l - 1) else "") ^ String.sub (f l) 0 (2 * r) in
      "ok " ^ String.sub tl (String.length tl - 2 * k) (2 * k)
  | ["pbkdf2tail"; t; p; s; c; nblocks; k] | ["spec.pbkdf2tail"; t; p; s; c; nblocks; k] ->
      (* the last k blocks of an output of nblocks whole blocks: T_i = F(P, S, c, i) (PBKDF2_spec is their concatenation; model = spec by C04_rfc8018) *)
      let nb = int_of_string nblocks and k = int_of_string k in
      let rec go i acc = if i > nb then List.rev acc else go (i + 1) (hx (pbkdf2_F (hash_of t) (bx p) (bx s) (nat_of_int (int_of_string c)) (nd (string_of_int i))) :: acc) in
      "ok " ^ String.concat "" (go (nb - k + 1) [])
  | ["pbkdf2"; t; p; s; c; dk] -> res_bytes (pbkdf2_vec (hash_of t) (bx p) (bx s) (nd c) (nat_of_int (int_of_string dk)))
  | ["spec.pbkdf2"; t; p; s; c; dk] -> "ok " ^ hx (pBKDF2_spec (hash_of t) (bx p) (bx s) (nat_of_int (int_of_string c)) (nat_of_int (int_of_string dk)))
  | ["pbkdf2buf"; t; p; s; c; dk] ->
      (match pbkdf2_buf (hash_of t) (bx p) (bx s) (nd c) (nat_of_int (int_of_string dk)) with Some d -> "some " ^ hx d | None -> "none")
  | ["spec.pbkdf2buf"; t; p; s; c; dk] -> "some " ^ hx (pBKDF2_spec (hash_of t) (bx p) (bx s) (nat_of_int (int_of_string c)) (nat_of_int (int_of_string dk)))
  | ["pepper"; t; p; s; pep; c; dk] -> res_bytes (pbkdf2_with_pepper (hash_of t) (bx p) (bx s) (bx pep) (nd c) (nat_of_int (int_of_string dk)))
  | ["spec.pepper"; t; p; s; pep; c; dk] ->
      "ok " ^ hx (pBKDF2_spec (hash_of t) (hMAC_spec (hash_of t) (bx pep) (bx p)) (bx s) (nat_of_int (int_of_string c)) (nat_of_int (int_of_string dk)))
  | ["hkdfx"; ikm; salt] -> hx (hkdf_extract (bx ikm) (if salt = "null" then None else Some (bx salt)))
  | ["spec.hkdfx"; ikm; salt] -> hx (hKDF_extract_spec (if salt = "null" then [] else bx salt) (bx ikm))
  | ["hkdfe"; prk; info; l] -> res_bytes (hkdf_expand (bx prk) (if info = "null" then [] else bx info) (nat_of_int (int_of_string l)))
  | ["spec.hkdfe"; prk; info; l] -> "ok " ^ hx (hKDF_expand_spec (bx prk) (if info = "null" then [] else bx info) (nat_of_int (int_of_string l)))
  | ["hkdfkiv"; ikm; salt; ctx] ->
      (match hkdf_key_iv (bx ikm) (if salt = "null" then None else Some (bx salt)) (bx ctx) with
       | Ok (k, iv) -> "ok " ^ hx k ^ " " ^ hx iv | Throw e -> exn_s e)
  | ["spec.hkdfkiv"; ikm; salt; ctx] ->
      let okm = hKDF_expand_spec (hKDF_extract_spec (if salt = "null" then [] else bx salt) (bx ikm)) (bx ctx) (nat_of_int 44) in
      let rec take n l = if n = 0 then [] else (match l with [] -> [] | x :: r -> x :: take (n - 1) r) in
      let rec drop n l = if n = 0 then l else (match l with [] -> [] | _ :: r -> drop (n - 1) r) in
      "ok " ^ hx (take 32 okm) ^ " " ^ hx (take 12 (drop 32 okm))
  | ["tokgen"; t; k; fp; i; now; err; _step] ->
      (match generate_time_token (hash_of t) (bx k) (if fp = "none" then None else Some (bx fp)) (zd i) (zd now, err <> "0") with
       | Ok tok -> "ok " ^ hx tok | Throw e -> exn_s e)
  | ["tokval"; t; tok; k; fp; i; now; err; _step] ->
      res_b (is_token_valid (hash_of t) (bx tok) (bx k) (if fp = "none" then None else Some (bx fp)) (zd i) (zd now, err <> "0"))
  | ["spec.tokval"; t; tok; k; fp; i; now] ->
      "ok " ^ bool_s (List.mem (bx tok) (candidates (hash_of t) (bx k) (if fp = "none" then None else Some (bx fp)) (zd now) (zd i)))
  | ["tostring"; z] -> hx (to_string (zd z))
  | "args" :: rest -> verdict_s (args_run rest)
  | ["ssconc"; p] ->   (* what a thread's own secret_string must reveal (C18_recall): set p; rotate; move; moved-from; set (first half) *)
      let l = bx p in let rec take n = function [] -> [] | x :: r -> if n = 0 then [] else x :: take (n - 1) r in
      String.concat "," [hx l; hx l; hx l; "-"; hx (take (List.length l / 2) l)]
  | ["sbconc"; d] ->   (* C16_refines_vector: copy, resize(2n+1), move, clear *)
      let l = bx d in let n = List.length l in
      hx (l @ List.init (n + 1) (fun _ -> N0)) ^ ",-" 
  | "oom" :: _ -> "ref=ok every-failure=bad_alloc no-leak state-ok usable"   (* C20: the only acceptable summary of an allocation-failure sweep; the allowed object states are those of Properties_C20 *)
  | "needles" :: api :: a ->
      (* the derived values that must never be found in released memory: contents of every temporary of the inventory (>= 8 bytes, deduplicated) *)
      let cs = List.filter (fun c -> List.length c >= 8) (List.map (fun r -> r.r_content) (rel_of api a)) in
      let uniq = List.sort_uniq compare (List.map hx cs) in
      String.concat " " (if uniq = [] then ["-"] else uniq)
  | "heap" :: api :: rest ->
      let a = let rec upto = function [] -> [] | "@" :: _ -> [] | x :: r -> x :: upto r in upto rest in
      let expect = match List.rev a with e :: _ when String.length e > 2 && String.sub e 0 2 = "E=" -> String.sub e 2 (String.length e - 2) | _ -> "ok" in
      let a' = List.filter (fun x -> not (String.length x > 2 && String.sub x 0 2 = "E=")) a in
      let rs = if expect <> "ok" then [] else (try rel_of api a' with _ -> []) in   (* on a rejected call the inventory below the rejection point is not built *)
      expect ^ " released=" ^ (if all_released_zero rs then "clean" else "dirty")
  | "ssmodel" :: pk :: ops ->
      (* ops: S:<nonce>:<plain> | R:<nonce> | C | I:<nonce>:<plain> | O ; nonces are the ones the implementation drew *)
      let pk = bx pk in
      let st = ref ss_empty and cur = ref [] and out = ref [] in
      List.iter (fun o ->
        (match split_on ':' o with
         | ["N"] -> ()      (* a move to another object and back / a self move: the object is unchanged *)
         | _ ->
        let sop = match split_on ':' o with
          | ["S"; n; p] -> SSet (bx n, bx p) | ["R"; n] -> SRotate (bx n) | ["C"] -> SClear
          | ["I"; n; p] -> SMoveIn (bx n, bx p) | ["O"] -> SMoveOut | _ -> failwith "ssmodel op" in
        st := ss_step pk !st sop; cur := ss_last !cur sop);
        let rv = match ss_reveal pk !st with Ok d -> "ok " ^ hx d | Throw e -> exn_s e in
        out := ("ct=" ^ hx !st.ss_ct ^ ",nonce=" ^ hx !st.ss_nonce ^ ",tag=" ^ hx !st.ss_tag ^ ",reveal=" ^ rv ^
                ",expected=" ^ hx !cur ^ ",heap=clean,wipe=clean,opaque=yes,tamper=ok") :: !out) ops;
      String.concat " | " (List.rev !out)
  | ["b64enc"; url; pad; d] -> hx (base64_encode (b01 url) (b01 pad) (bx d))
  | ["spec.b64enc"; url; pad; d] -> hx (b64_spec_encode (b01 url) (b01 pad) (bx d))
  | ["b64dec"; url; req; strict; s] -> (match base64_decode (b01 url) (b01 req) (b01 strict) (bx s) with Some d -> "some " ^ hx d | None -> "none")
  | ["spec.b64dec"; url; req; strict; s] ->
      let f = b64_filter (b01 strict) (bx s) in
      if b64_langb (b01 url) (b01 req) (b01 strict) f then "some " ^ hx (b64_spec_value (b01 url) (b01 strict) f) else "none" 
  | ["b32enc"; pad; d] -> hx (base32_encode (b01 pad) (bx d))
  | ["spec.b32enc"; pad; d] -> hx (b32_spec_encode (b01 pad) (bx d))
  | ["b32dec"; req; strict; s] -> (match base32_decode (b01 req) (b01 strict) (bx s) with Some d -> "some " ^ hx d | None -> "none")
  | ["spec.b32dec"; req; strict; s] ->
      let f = b32_filter (b01 strict) (bx s) in
      if b32_langb (b01 req) (b01 strict) f then "some " ^ hx (b32_spec_value (b01 strict) f) else "none" 
  | "sbhist" :: _ :: ops -> sbhist ops
  | "spec.sbhist" :: _ :: ops -> sbspec ops
  | ["b36enc"; d] -> hx (base36_encode (bx d))
  | ["spec.b36enc"; d] -> hx (b36_spec_encode (bx d))
  | ["b36dec"; s] -> (match base36_decode (bx s) with Some d -> "some " ^ hx d | None -> "none")
  | ["spec.b36dec"; s] -> let l = bx s in if List.for_all is_alnum l then "some " ^ hx (b36_spec_decode l) else "none"
  | t :: _ -> failwith ("unknown op " ^ t)
  | [] -> ""

let () =
  let ic = open_in Sys.argv.(1) in
  (try while true do
     let line = input_line ic in
     let toks = List.filter (fun s -> s <> "") (split_on ' ' line) in
     if toks <> [] then begin
       let r = try run toks with Failure m -> "MODEL-ERROR:" ^ m | Not_found -> "MODEL-ERROR:notfound" in
       print_string r; print_newline () end
   done with End_of_file -> ());
  close_in ic
