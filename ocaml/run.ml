(* Hand-written driver around the extracted model (model.ml): reads a case file (one case per line,
   whitespace-separated tokens: op name, then arguments; byte strings in hex, "-" = empty; numbers in
   decimal) and prints one canonical result line per case. *)
open Model

let rec pos_of_int i = if i = 1 then XH else if i land 1 = 0 then XO (pos_of_int (i lsr 1)) else XI (pos_of_int (i lsr 1))
let n_of_int i = if i = 0 then N0 else Npos (pos_of_int i)
let rec int_of_pos = function XH -> 1 | XO p -> 2 * int_of_pos p | XI p -> 2 * int_of_pos p + 1
let int_of_n = function N0 -> 0 | Npos p -> int_of_pos p
let nat_of_int i = let rec go acc i = if i <= 0 then acc else go (S acc) (i - 1) in go O i
let int_of_nat n = let rec go acc = function O -> acc | S m -> go (acc + 1) m in go 0 n
let ten = n_of_int 10
let n_of_dec s = let acc = ref N0 in String.iter (fun c -> acc := N.add (N.mul !acc ten) (n_of_int (Char.code c - 48))) s; !acc
let dec_of_n n =
  if n = N0 then "0" else begin
    let b = Buffer.create 24 in
    let rec go n acc = if n = N0 then acc else go (N.div n ten) (string_of_int (int_of_n (N.modulo n ten)) :: acc) in
    List.iter (Buffer.add_string b) (go n []); Buffer.contents b end
let z_of_dec s = if String.length s > 0 && s.[0] = '-' then Z.opp (Z.of_N (n_of_dec (String.sub s 1 (String.length s - 1)))) else Z.of_N (n_of_dec s)
let dec_of_z z = match z with Z0 -> "0" | Zpos p -> dec_of_n (Npos p) | Zneg p -> "-" ^ dec_of_n (Npos p)

let hexval c = match c with '0'..'9' -> Char.code c - 48 | 'a'..'f' -> Char.code c - 87 | 'A'..'F' -> Char.code c - 55 | _ -> failwith "hex"
let bx s = if s = "-" then [] else begin
  let n = String.length s / 2 in
  let rec go i acc = if i < 0 then acc else go (i - 1) (n_of_int (hexval s.[2*i] * 16 + hexval s.[2*i+1]) :: acc) in
  go (n - 1) [] end
let hx l = if l = [] then "-" else begin
  let b = Buffer.create 64 in List.iter (fun x -> Buffer.add_string b (Printf.sprintf "%02x" (int_of_n x))) l; Buffer.contents b end
let str_of_bytes l = let b = Buffer.create 64 in List.iter (fun x -> Buffer.add_char b (Char.chr (int_of_n x))) l; Buffer.contents b
let bool_s b = if b then "true" else "false"
let hash_of = function "sha1" -> SHA1 | "sha256" -> SHA256 | "sha512" -> SHA512 | _ -> failwith "hash"
let split_on c s = String.split_on_char c s

(* ---- hash contexts as one sum type so that histories can be run on "one object" ---- *)
type hctx = C1 of ctx1 | C2 of ctx2 * string
let h_fresh = function "sha1" -> C1 fresh1 | "sha256" -> C2 (fresh2 (nat_of_int 64), "sha256") | "sha512" -> C2 (fresh2 (nat_of_int 128), "sha512") | "sha512pinned" -> C2 (fresh2 (nat_of_int 128), "sha512pinned") | _ -> failwith "hash"
let h_init = function C1 c -> C1 (sha1_init c) | C2 (c, "sha256") -> C2 (sha256_init c, "sha256") | C2 (c, t) -> C2 (sha512_init c, t)
let h_update c m = match c with C1 c -> C1 (sha1_update c m) | C2 (c, "sha256") -> C2 (sha256_update c m, "sha256") | C2 (c, t) -> C2 (sha512_update c m, t)
let h_finish = function
  | C1 c -> let (c', d) = sha1_finish c in (C1 c', d)
  | C2 (c, "sha256") -> let (c', d) = sha256_finish c in (C2 (c', "sha256"), d)
  | C2 (c, "sha512") -> let (c', d) = sha512_finish c in (C2 (c', "sha512"), d)
  | C2 (c, t) -> let (c', d) = sha512_finish_pinned c in (C2 (c', t), d)
(* state injection: set the count of already-processed bytes (a multiple of the block size) *)
let h_inject c tot = match c with
  | C1 c -> C1 { c with s_transforms = N.div tot (n_of_int 64) }
  | C2 (c, t) -> C2 ({ c with m_tot = tot }, t)
let h_oneshot t m = snd (h_finish (h_update (h_init (h_fresh t)) m))

let run toks =
  match toks with
  | ["cteq"; a; b] -> bool_s (ct_equals (bx a) (bx b))
  | ["spec.eq"; a; b] -> bool_s (bx a = bx b)
  | ["sha"; t; m] -> hx (h_oneshot t (bx m))
  | ["spec.sha"; t; m] -> hx (sHA_spec (hash_of t) (bx m))
  | "shahist" :: t :: ops ->
      (* ops: I | U:<hex> | F | J:<dec total> ; prints the digest of every F, comma separated *)
      let c = ref (h_fresh t) and outs = ref [] in
      List.iter (fun o ->
        if o = "I" then c := h_init !c
        else if o = "F" then (let (c', d) = h_finish !c in c := c'; outs := hx d :: !outs)
        else if String.length o >= 2 && o.[0] = 'U' then c := h_update !c (bx (String.sub o 2 (String.length o - 2)))
        else if String.length o >= 2 && o.[0] = 'J' then c := h_inject !c (n_of_dec (String.sub o 2 (String.length o - 2)))
        else failwith "shahist op") ops;
      String.concat "," (List.rev !outs)
  | t :: _ -> failwith ("unknown op " ^ t)
  | [] -> ""

let () =
  let ic = open_in Sys.argv.(1) in
  (try while true do
     let line = input_line ic in
     let toks = List.filter (fun s -> s <> "") (split_on ' ' line) in
     if toks <> [] then begin
       let r = try run toks with Failure m -> "MODEL-ERROR:" ^ m | Not_found -> "MODEL-ERROR:notfound" in
       print_string r; print_newline () end
   done with End_of_file -> ());
  close_in ic
