(* Model_Bounds: the array accesses of the code that works on raw C arrays, as (offset, length) ranges, so that
   "every access stays inside the object" becomes a statement about the models.
   m_block is uint8_t[2*BLOCK]; the message passed to update is `length` bytes long. *)
From HV Require Import Base_Bytes Spec_SHA Model_Sha2Ctx Model_Otp.
Local Open Scope N_scope.

Definition range := (nat * nat)%type.                (* offset, byte count *)
Definition in_array (L : nat) (r : range) : bool := (fst r + snd r <=? L)%nat.

Section Sha2Bounds.
  Variable B : nat.
  Variable thr : nat.
  (* update(): memcpy(&m_block[m_len], message, rem_len); [transform(m_block, 1); transform(shifted, block_nb);]
     memcpy(m_block, &shifted[block_nb * B], rem2) *)
  Definition update2_block_writes (c : ctx2) (len : nat) : list range :=
    let tmp_len := (B - m_len c)%nat in
    let rem_len := if (len <? tmp_len)%nat then len else tmp_len in
    if (m_len c + len <? B)%nat then [(m_len c, rem_len)]
    else let new_len := (len - rem_len)%nat in [(m_len c, rem_len); (0%nat, (new_len mod B)%nat)].
  Definition update2_block_reads (c : ctx2) (len : nat) : list range :=
    if (m_len c + len <? B)%nat then [] else [(0%nat, B)].
  Definition update2_message_reads (c : ctx2) (len : nat) : list range :=
    let tmp_len := (B - m_len c)%nat in
    let rem_len := if (len <? tmp_len)%nat then len else tmp_len in
    if (m_len c + len <? B)%nat then [(0%nat, rem_len)]
    else let new_len := (len - rem_len)%nat in let nb := (new_len / B)%nat in
         [(0%nat, rem_len); (rem_len, (nb * B)%nat); ((rem_len + nb * B)%nat, (new_len mod B)%nat)].
  (* finish(): memset(m_block + m_len, 0, pm_len - m_len); m_block[m_len] = 0x80; UNPACK at pm_len - 8; transform(m_block, block_nb) *)
  Definition finish2_block_accesses (c : ctx2) : list range :=
    let block_nb := if (thr <? m_len c mod B)%nat then 2%nat else 1%nat in
    let pm_len := (block_nb * B)%nat in
    [(m_len c, (pm_len - m_len c)%nat); (m_len c, 1%nat); ((pm_len - 8)%nat, 8%nat); (0%nat, pm_len)].
  (* pm_len - 8 and pm_len - m_len are computed in size_t: they must not wrap *)
  Definition finish2_no_wrap (c : ctx2) : bool :=
    let block_nb := if (thr <? m_len c mod B)%nat then 2%nat else 1%nat in
    (8 <=? block_nb * B)%nat && (m_len c <=? block_nb * B)%nat.
End Sha2Bounds.

(* detail::hotp_from_digest reads hmac_result[offset .. offset+3] and divisor[digits-1] *)
Definition hotp_digest_reads (dg : list N) : list range :=
  match dg with [] => [] | _ => [(N.to_nat (N.land (last dg 0) 0x0F), 4%nat)] end.

(* get_hmac (hmac.cpp:232-273): the buffers it sizes and the ranges it copies into them. (array length, (offset, count)):
   key[block] <- the key (or, when it is longer than a block, its digest); inner_data[block + msg_len] <- ipad, message;
   outer_data[block + digest] <- opad, inner hash. The size_t sums are guarded by msg_len <= SIZE_MAX - block_size. *)
Definition hmac_accesses (t : hash_t) (key_len msg_len : nat) : list (nat * range) :=
  let b := block_size t in let d := digest_size t in
  [(b, (0, if (b <? key_len) then d else key_len));
   (b + msg_len, (0, b)); (b + msg_len, (b, msg_len));
   (b + d, (0, b)); (b + d, (b, d))]%nat.
Definition hmac_sizes_no_wrap (t : hash_t) (msg_len : N) : bool :=
  (N.of_nat (block_size t) + msg_len <? 2 ^ 64) && (N.of_nat (block_size t) + N.of_nat (digest_size t) <? 2 ^ 64).
