(* C09 - constant_time_equals is true exactly for equal length and equal bytes.
   Statements only; proofs in Proofs_C09.v. *)
From HV Require Import Base_Bytes Model_CtEq Proofs_C09.
Local Open Scope N_scope.

(* every pair of byte strings, every length pair (no bound), every content *)
Theorem C09_exact : forall a b : list N, ct_equals a b = true <-> a = b.
Proof. exact ct_equals_iff. Qed.
Print Assumptions C09_exact.

(* non-vacuity / sanity: lengths differing by 256 with only zero bytes are unequal *)
Example C09_len256 : ct_equals (repeat 0 256) [] = false.
Proof. vm_compute. reflexivity. Qed.
Example C09_equal_nontrivial : ct_equals [1; 2; 255] [1; 2; 255] = true /\ ct_equals [1; 2; 255] [1; 2; 254] = false.
Proof. vm_compute. split; reflexivity. Qed.
