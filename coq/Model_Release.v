(* Model_Release: the inventory of heap temporaries of the secret-handling entry points and how each is let go of.
   A temporary is a secure_buffer (zeroed by its destructor / move-assignment / clear, C16), a plain container that the code
   zeroes explicitly before it goes out of scope on every path, or a plain container released as it is.  The CONTENT of each
   temporary is given by the functional models, so this file also defines which derived values must never be found in
   released memory (the needles the runtime observation looks for).  `fixed = false` gives the inventory at the pinned commit. *)
From HV Require Import Base_Bytes Base_Result Spec_SHA Model_Hash Model_Hmac Model_Kdf.
Local Open Scope N_scope.

Inductive rkind := RSecure | RWiped | RRaw.
Record rel := { r_kind : rkind; r_what : nat; r_content : list N }.
(* what the allocator gets back *)
Definition released_bytes (r : rel) : list N :=
  match r_kind r with RRaw => r_content r | _ => map (fun _ => 0) (r_content r) end.
Definition mk k w c := {| r_kind := k; r_what := w; r_content := c |}.

Section Inventory.
  Variable fixed : bool.       (* true: tree with the fixes 1f1cf56 (SHA1 buffer), c04bd42 (secure-key overloads), 93db630 (base36) *)

  (* hash of `data`: SHA-256/512 contexts own no heap; SHA1::m_buffer holds the unprocessed tail (and the padding) *)
  Definition rel_hash (t : hash_t) (data : list N) : list rel :=
    match t with
    | SHA1 => [mk (if fixed then RWiped else RRaw) 1 (skipn ((length data / 64) * 64) data)]
    | _ => []
    end.

  (* get_hmac(key, msg, type)  hmac.cpp:209-276 *)
  Definition rel_get_hmac (t : hash_t) (key msg : list N) : list rel :=
    let bs := block_size t in
    let k := hmac_key_block t key in
    let ipad := map (fun b => N.lxor b 0x36) k in
    let opad := map (fun b => N.lxor b 0x5c) k in
    let inner := get_hash t (ipad ++ msg) in
    (if (bs <? length key)%nat then rel_hash t key ++ [mk RWiped 2 (get_hash t key)] else []) ++
    [mk RSecure 3 k; mk RSecure 4 ipad; mk RSecure 5 opad; mk RSecure 6 (ipad ++ msg)] ++ rel_hash t (ipad ++ msg) ++
    [mk RSecure 7 inner; mk RSecure 8 (opad ++ inner)] ++ rel_hash t (opad ++ inner).

  (* the secure_buffer-key string form: a temporary std::vector copy of the key before the fix *)
  Definition rel_get_hmac_securekey (t : hash_t) (key msg : list N) : list rel :=
    (* the returned MAC (and the hmac_vec / out copies of it) is the result, not key material: not part of the inventory *)
    (if fixed then [] else [mk RRaw 9 key]) ++ rel_get_hmac t key msg.
  Definition rel_token_securekey (t : hash_t) (key payload : list N) : list rel :=
    [mk (if fixed then RWiped else RRaw) 9 key] ++ rel_get_hmac t key payload.

  (* HmacContext: init (key block, ipad secure; okeypad_ member secure; hashed wiped), final (inner secure), destruction *)
  Definition rel_hmac_ctx (t : hash_t) (key msg : list N) : list rel :=
    let k := hmac_key_block t key in
    let ipad := map (fun b => N.lxor b 0x36) k in
    let opad := map (fun b => N.lxor b 0x5c) k in
    (if (block_size t <? length key)%nat then rel_hash t key ++ [mk RWiped 2 (get_hash t key)] else []) ++
    [mk RSecure 3 k; mk RSecure 4 ipad; mk RSecure 7 (get_hash t (ipad ++ msg)); mk RSecure 5 opad] ++
    rel_hash t (opad ++ get_hash t (ipad ++ msg)).

  (* pbkdf2 vector form: per block u, t (secure, locked), the get_hmac temporaries of every iteration; salt_block wiped *)
  Definition rel_pbkdf2_block (t : hash_t) (P S : list N) (c : N) (i : N) : list rel :=
    let u1 := get_hmac_raw t P (S ++ be_bytes 4 i) in
    rel_get_hmac t P (S ++ be_bytes 4 i) ++ [mk RSecure 11 u1; mk RSecure 12 (pbkdf2_block_A t P S c i)].
  Definition rel_pbkdf2 (t : hash_t) (P S : list N) (c : N) (dk : nat) : list rel :=
    mk RWiped 13 (S ++ repeat 0 4) ::
    flat_map (fun i => rel_pbkdf2_block t P S c (N.of_nat i)) (seq 1 ((dk + digest_size t - 1) / digest_size t)).
  (* pepper: the peppered password lives in a secure_buffer (also when pbkdf2 throws) *)
  Definition rel_pepper (t : hash_t) (P S pepper : list N) (c : N) (dk : nat) : list rel :=
    rel_get_hmac t pepper P ++ [mk RSecure 14 (get_hmac_raw t pepper P)] ++ rel_pbkdf2 t (get_hmac_raw t pepper P) S c dk.

  (* HKDF: PRK, previous, input, t, okm are secure buffers; the zero salt is a plain vector of zeros *)
  Definition rel_hkdf_extract (ikm : list N) (salt : option (list N)) : list rel :=
    let s := match salt with None => repeat 0 32 | Some [] => repeat 0 32 | Some s => s end in
    rel_get_hmac SHA256 s ikm ++ [mk RSecure 15 (hkdf_extract ikm salt)].

  (* decode into a secure_buffer: the temporary vector is zeroed before release; base36's work vector since 93db630 *)
  Definition rel_decode_secure (decoded : list N) (is_base36 : bool) : list rel :=
    (if is_base36 then [mk (if fixed then RWiped else RRaw) 16 decoded] else []) ++ [mk RWiped 17 decoded; mk RSecure 18 decoded].

  (* secret_string::with_plaintext / reveal_copy (secret_string.hpp:106-158): the decrypted copy is a plain std::vector, wiped explicitly
     before it is released on normal return and - since 65ef260 (here: `fixed`) - on EVERY exception leaving the callback, whatever its type;
     set / rotate_nonce / clear / move work on the ciphertext and on secure buffers only *)
  Definition rel_secret_reveal (cb_throws : bool) (plain : list N) : list rel :=
    [mk (if cb_throws && negb fixed then RRaw else RWiped) 19 plain].
End Inventory.

Definition all_released_zero (rs : list rel) : bool := forallb (fun r => forallb (N.eqb 0) (released_bytes r)) rs.
