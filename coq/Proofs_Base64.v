(* Proofs_Base64: the model of base64_encode / base64_decode (Model_Base64) against RFC 4648 and the
   decoding contract (Spec_Base64). *)
From Coq Require Import ZifyNat.
From HV Require Import Base_Bytes Base_BytesLemmas Spec_Base64 Model_Base64 Proofs_Otp.
Local Open Scope N_scope.
Ltac Zify.zify_post_hook ::= Z.to_euclidean_division_equations.

(* ---------- induction k elements at a time ---------- *)
Lemma list_ind3 {A} (P : list A -> Prop) :
  P [] -> (forall a, P [a]) -> (forall a b, P [a; b]) ->
  (forall a b c l, P l -> P (a :: b :: c :: l)) -> forall l, P l.
Proof.
  intros H0 H1 H2 H3.
  fix IH 1. intros [|a [|b [|c l]]]; [exact H0|apply H1|apply H2|apply H3; apply IH].
Qed.
Lemma list_ind4 {A} (P : list A -> Prop) :
  P [] -> (forall a, P [a]) -> (forall a b, P [a; b]) -> (forall a b c, P [a; b; c]) ->
  (forall a b c d l, P l -> P (a :: b :: c :: d :: l)) -> forall l, P l.
Proof.
  intros H0 H1 H2 H3 H4.
  fix IH 1. intros [|a [|b [|c [|d l]]]]; [exact H0|apply H1|apply H2|apply H3|apply H4; apply IH].
Qed.

(* ---------- finite sweeps ---------- *)
Definition rangeN (n : nat) : list N := map N.of_nat (seq 0 n).
Lemma rangeN_In n c : c < N.of_nat n -> In c (rangeN n).
Proof.
  intros H. unfold rangeN. rewrite <- (N2Nat.id c). apply in_map. apply in_seq. lia.
Qed.
Lemma sweep1 (P : N -> bool) n : forallb P (rangeN n) = true -> forall c, c < N.of_nat n -> P c = true.
Proof. intros H c Hc. rewrite forallb_forall in H. apply H. now apply rangeN_In. Qed.
Lemma sweep2 (P : N -> N -> bool) n m : forallb (fun a => forallb (P a) (rangeN m)) (rangeN n) = true ->
  forall a b, a < N.of_nat n -> b < N.of_nat m -> P a b = true.
Proof.
  intros H a b Ha Hb. rewrite forallb_forall in H. specialize (H a (rangeN_In _ _ Ha)).
  now apply (sweep1 (P a) m).
Qed.
Lemma sweep256 (P : N -> bool) : forallb P (rangeN 256) = true -> forall c, c < 256 -> P c = true.
Proof. intros H c Hc. now apply (sweep1 P 256). Qed.
Lemma sweep64 (P : N -> bool) : forallb P (rangeN 64) = true -> forall c, c < 64 -> P c = true.
Proof. intros H c Hc. now apply (sweep1 P 64). Qed.
Lemma sweep256x256 (P : N -> N -> bool) : forallb (fun a => forallb (P a) (rangeN 256)) (rangeN 256) = true ->
  forall a b, a < 256 -> b < 256 -> P a b = true.
Proof. intros H a b Ha Hb. now apply (sweep2 P 256 256). Qed.
Lemma sweep64x64 (P : N -> N -> bool) : forallb (fun a => forallb (P a) (rangeN 64)) (rangeN 64) = true ->
  forall a b, a < 64 -> b < 64 -> P a b = true.
Proof. intros H a b Ha Hb. now apply (sweep2 P 64 64). Qed.

Lemma bytes_okb_cons a l : bytes_okb (a :: l) = true <-> a < 256 /\ bytes_okb l = true.
Proof.
  cbn [bytes_okb forallb]. fold (bytes_okb l). rewrite andb_true_iff. unfold byte_okb. now rewrite N.ltb_lt.
Qed.

(* ================= encoder ================= *)
Lemma alphabets_agree url : b64_alphabet url = b64_spec_alphabet url.
Proof. destruct url; reflexivity. Qed.

(* the RFC characters of a byte string, before padding *)
Definition spec_chars (url : bool) (data : list N) : list N :=
  map (fun g => nth (N.to_nat (bits_val g)) (b64_spec_alphabet url) 0) (sextets (flat_map (bits_of 8) data)).
Definition spec_pad (pad : bool) (cs : list N) : list N :=
  if pad then repeat 61 ((4 - length cs mod 4) mod 4) else [].
Lemma b64_spec_encode_eq url pad d : b64_spec_encode url pad d = spec_chars url d ++ spec_pad pad (spec_chars url d).
Proof. reflexivity. Qed.

(* the four 6-bit groups of three bytes, as arithmetic *)
Definition g0 (a : N) := a / 4.
Definition g1 (a b : N) := (a mod 4) * 16 + b / 16.
Definition g2 (b c : N) := (b mod 16) * 4 + c / 64.
Definition g3 (c : N) := c mod 64.

Definition tb := N.testbit.
Lemma bits_g0 : forall a, a < 256 -> bits_val [tb a 7; tb a 6; tb a 5; tb a 4; tb a 3; tb a 2] = g0 a.
Proof.
  intros a Ha. apply N.eqb_eq.
  apply (sweep256 (fun a => bits_val [tb a 7; tb a 6; tb a 5; tb a 4; tb a 3; tb a 2] =? g0 a)); [|exact Ha].
  vm_compute. reflexivity.
Qed.
Lemma bits_g1 : forall a b, a < 256 -> b < 256 ->
  bits_val [tb a 1; tb a 0; tb b 7; tb b 6; tb b 5; tb b 4] = g1 a b.
Proof.
  intros a b Ha Hb. apply N.eqb_eq.
  apply (sweep256x256 (fun a b => bits_val [tb a 1; tb a 0; tb b 7; tb b 6; tb b 5; tb b 4] =? g1 a b)); [|exact Ha|exact Hb].
  vm_compute. reflexivity.
Qed.
Lemma bits_g2 : forall b c, b < 256 -> c < 256 ->
  bits_val [tb b 3; tb b 2; tb b 1; tb b 0; tb c 7; tb c 6] = g2 b c.
Proof.
  intros a b Ha Hb. apply N.eqb_eq.
  apply (sweep256x256 (fun b c => bits_val [tb b 3; tb b 2; tb b 1; tb b 0; tb c 7; tb c 6] =? g2 b c)); [|exact Ha|exact Hb].
  vm_compute. reflexivity.
Qed.
Lemma bits_g3 : forall c, c < 256 -> bits_val [tb c 5; tb c 4; tb c 3; tb c 2; tb c 1; tb c 0] = g3 c.
Proof.
  intros a Ha. apply N.eqb_eq.
  apply (sweep256 (fun c => bits_val [tb c 5; tb c 4; tb c 3; tb c 2; tb c 1; tb c 0] =? g3 c)); [|exact Ha].
  vm_compute. reflexivity.
Qed.
Lemma bits_g1_tail : forall a, a < 256 -> bits_val [tb a 1; tb a 0; false; false; false; false] = g1 a 0.
Proof.
  intros a Ha. apply N.eqb_eq.
  apply (sweep256 (fun a => bits_val [tb a 1; tb a 0; false; false; false; false] =? g1 a 0)); [|exact Ha].
  vm_compute. reflexivity.
Qed.
Lemma bits_g2_tail : forall b, b < 256 -> bits_val [tb b 3; tb b 2; tb b 1; tb b 0; false; false] = g2 b 0.
Proof.
  intros a Ha. apply N.eqb_eq.
  apply (sweep256 (fun b => bits_val [tb b 3; tb b 2; tb b 1; tb b 0; false; false] =? g2 b 0)); [|exact Ha].
  vm_compute. reflexivity.
Qed.

Definition sym (url : bool) (v : N) : N := nth (N.to_nat v) (b64_spec_alphabet url) 0.

Lemma spec_chars_cons3 url a b c rest : a < 256 -> b < 256 -> c < 256 ->
  spec_chars url (a :: b :: c :: rest) =
  sym url (g0 a) :: sym url (g1 a b) :: sym url (g2 b c) :: sym url (g3 c) :: spec_chars url rest.
Proof.
  intros Ha Hb Hc. rewrite <- (bits_g0 a Ha), <- (bits_g1 a b Ha Hb), <- (bits_g2 b c Hb Hc), <- (bits_g3 c Hc).
  reflexivity.
Qed.
Lemma spec_chars_1 url a : a < 256 -> spec_chars url [a] = [sym url (g0 a); sym url (g1 a 0)].
Proof. intros Ha. rewrite <- (bits_g0 a Ha), <- (bits_g1_tail a Ha). reflexivity. Qed.
Lemma spec_chars_2 url a b : a < 256 -> b < 256 ->
  spec_chars url [a; b] = [sym url (g0 a); sym url (g1 a b); sym url (g2 b 0)].
Proof. intros Ha Hb. rewrite <- (bits_g0 a Ha), <- (bits_g1 a b Ha Hb), <- (bits_g2_tail b Hb). reflexivity. Qed.

(* model side: shifts and masks as arithmetic *)
Lemma land_3f_shiftr n k : N.land (N.shiftr n k) 0x3F = (n / 2 ^ k) mod 64.
Proof. change 0x3F with (N.ones 6). now rewrite N.land_ones, N.shiftr_div_pow2. Qed.
Lemma land_3f n : N.land n 0x3F = n mod 64.
Proof. change 0x3F with (N.ones 6). now rewrite N.land_ones. Qed.

Lemma enc_word a b c : a < 256 -> b < 256 -> c < 256 ->
  N.lor (N.lor (N.shiftl a 16) (N.shiftl b 8)) c = a * 65536 + b * 256 + c.
Proof.
  intros Ha Hb Hc. rewrite !N.shiftl_mul_pow2. change (2 ^ 16) with 65536. change (2 ^ 8) with 256.
  rewrite (lor_add_disjoint (a * 65536) (b * 256) 16) by (change (2 ^ 16) with 65536; lia).
  rewrite (lor_add_disjoint (a * 65536 + b * 256) c 8) by (change (2 ^ 8) with 256; lia).
  reflexivity.
Qed.
Lemma enc_idx a b c : a < 256 -> b < 256 -> c < 256 ->
  let n := a * 65536 + b * 256 + c in
  (n / 2 ^ 18) mod 64 = g0 a /\ (n / 2 ^ 12) mod 64 = g1 a b /\ (n / 2 ^ 6) mod 64 = g2 b c /\ n mod 64 = g3 c.
Proof.
  intros Ha Hb Hc n. subst n. unfold g0, g1, g2, g3.
  change (2 ^ 18) with 262144. change (2 ^ 12) with 4096. change (2 ^ 6) with 64.
  repeat split; lia.
Qed.

Lemma sym_alpha url v : b64_alpha_at (b64_alphabet url) v = sym url v.
Proof. unfold b64_alpha_at, sym. now rewrite alphabets_agree. Qed.

Lemma enc_group url a b c : a < 256 -> b < 256 -> c < 256 ->
  let n := N.lor (N.lor (N.shiftl a 16) (N.shiftl b 8)) c in
  b64_alpha_at (b64_alphabet url) (N.land (N.shiftr n 18) 0x3F) = sym url (g0 a) /\
  b64_alpha_at (b64_alphabet url) (N.land (N.shiftr n 12) 0x3F) = sym url (g1 a b) /\
  b64_alpha_at (b64_alphabet url) (N.land (N.shiftr n 6) 0x3F) = sym url (g2 b c) /\
  b64_alpha_at (b64_alphabet url) (N.land n 0x3F) = sym url (g3 c).
Proof.
  intros Ha Hb Hc n. subst n. rewrite enc_word by assumption.
  rewrite !land_3f_shiftr, land_3f, !sym_alpha.
  destruct (enc_idx a b c Ha Hb Hc) as (E0 & E1 & E2 & E3). rewrite E0, E1, E2, E3. repeat split.
Qed.

Lemma spec_pad_cons4 pad a b c d cs : spec_pad pad (a :: b :: c :: d :: cs) = spec_pad pad cs.
Proof.
  unfold spec_pad. destruct pad; [|reflexivity]. f_equal. cbn [length].
  replace (S (S (S (S (length cs))))) with (length cs + 1 * 4)%nat by lia.
  now rewrite Nat.mod_add by discriminate.
Qed.

Lemma encode_loop_spec url pad d : bytes_okb d = true ->
  b64_encode_loop (b64_alphabet url) pad d = spec_chars url d ++ spec_pad pad (spec_chars url d).
Proof.
  induction d as [|a|a b|a b c rest IH] using list_ind3; intros Hok.
  - destruct pad; reflexivity.
  - apply bytes_okb_cons in Hok. destruct Hok as [Ha _].
    rewrite (spec_chars_1 url a Ha). cbn [b64_encode_loop].
    destruct (enc_group url a 0 0 Ha) as (E0 & E1 & _ & _); [reflexivity|reflexivity|].
    cbv zeta in E0, E1. change (N.shiftl 0 8) with 0 in E0, E1. rewrite !N.lor_0_r in E0, E1.
    rewrite E0, E1. destruct pad; reflexivity.
  - apply bytes_okb_cons in Hok. destruct Hok as [Ha Hok]. apply bytes_okb_cons in Hok. destruct Hok as [Hb _].
    rewrite (spec_chars_2 url a b Ha Hb). cbn [b64_encode_loop].
    destruct (enc_group url a b 0 Ha Hb) as (E0 & E1 & E2 & _); [reflexivity|].
    cbv zeta in E0, E1, E2. rewrite !N.lor_0_r in E0, E1, E2.
    rewrite E0, E1, E2. destruct pad; reflexivity.
  - apply bytes_okb_cons in Hok. destruct Hok as [Ha Hok]. apply bytes_okb_cons in Hok. destruct Hok as [Hb Hok].
    apply bytes_okb_cons in Hok. destruct Hok as [Hc Hok].
    rewrite (spec_chars_cons3 url a b c rest Ha Hb Hc). cbn [b64_encode_loop].
    destruct (enc_group url a b c Ha Hb Hc) as (E0 & E1 & E2 & E3). cbv zeta in E0, E1, E2, E3.
    rewrite E0, E1, E2, E3, (IH Hok). rewrite spec_pad_cons4. reflexivity.
Qed.

Theorem base64_encode_spec url pad d : bytes_okb d = true -> base64_encode url pad d = b64_spec_encode url pad d.
Proof.
  intros Hok. rewrite b64_spec_encode_eq, <- encode_loop_spec by exact Hok.
  destruct d; reflexivity.
Qed.

(* every output character is alpha[something & 0x3F] or '=' *)
Lemma alpha_at_in url x : In (b64_alpha_at (b64_alphabet url) (N.land x 0x3F)) (b64_spec_alphabet url).
Proof.
  rewrite <- (alphabets_agree url). unfold b64_alpha_at. apply nth_In.
  replace (length (b64_alphabet url)) with 64%nat by (destruct url; reflexivity).
  rewrite land_3f. assert (x mod 64 < 64) by (apply N.mod_lt; discriminate). lia.
Qed.
Definition enc_char_ok (url : bool) (c : N) : Prop := In c (b64_spec_alphabet url) \/ c = 61.
Lemma encode_loop_alphabet url pad d : Forall (enc_char_ok url) (b64_encode_loop (b64_alphabet url) pad d).
Proof.
  induction d as [|a|a b|a b c rest IH] using list_ind3; cbn [b64_encode_loop].
  - constructor.
  - repeat (constructor; [left; apply alpha_at_in|]). destruct pad; repeat (constructor; [now right|]); constructor.
  - repeat (constructor; [left; apply alpha_at_in|]). destruct pad; repeat (constructor; [now right|]); constructor.
  - repeat (constructor; [left; apply alpha_at_in|]). exact IH.
Qed.
Theorem base64_encode_alphabet url pad d : bytes_okb d = true -> Forall (enc_char_ok url) (base64_encode url pad d).
Proof. intros _. destruct d; [constructor|]. apply encode_loop_alphabet. Qed.

(* the model's consing produces exactly the out_len characters the C++ resizes the string to *)
Lemma b64_out_len_step n pad : b64_out_len (S (S (S n))) pad = (4 + b64_out_len n pad)%nat.
Proof.
  unfold b64_out_len. replace (S (S (S n))) with (n + 1 * 3)%nat by lia.
  rewrite Nat.div_add, Nat.mod_add by discriminate. lia.
Qed.
Lemma b64_encode_length url pad d : length (base64_encode url pad d) = b64_out_len (length d) pad.
Proof.
  replace (base64_encode url pad d) with (b64_encode_loop (b64_alphabet url) pad d) by (destruct d; reflexivity).
  induction d as [|a|a b|a b c rest IH] using list_ind3.
  - reflexivity.
  - destruct pad; reflexivity.
  - destruct pad; reflexivity.
  - cbn [b64_encode_loop length]. rewrite IH, b64_out_len_step. reflexivity.
Qed.

(* ================= decoder ================= *)
(* 6-bit value and symbol test of a character, from the spec *)
Definition sval (url strict : bool) (c : N) : N :=
  match b64_symbol_value url strict c with Some v => v | None => 0 end.
Definition symb (url strict : bool) (c : N) : bool :=
  match b64_symbol_value url strict c with Some _ => true | None => false end.

(* ---------- the reverse table, character by character (256-element sweeps) ---------- *)
Definition table_okb (url strict : bool) (c : N) : bool :=
  let rv := b64_build_reverse url (negb strict) in
  Bool.eqb (rv c <? 0)%Z (negb (symb url strict c)) &&
  Bool.eqb (rv c =? -2)%Z (c =? 61) &&
  (if symb url strict c then Z.to_N (rv c) =? sval url strict c else true) &&
  (sval url strict c <? 64).
Lemma table_sweep url strict : forallb (table_okb url strict) (rangeN 256) = true.
Proof. destruct url, strict; vm_compute; reflexivity. Qed.

Section Table.
  Variables url strict : bool.
  Let rv := b64_build_reverse url (negb strict).

  Lemma table_ok c : c < 256 ->
    (rv c <? 0)%Z = negb (symb url strict c) /\ (rv c =? -2)%Z = (c =? 61) /\
    (symb url strict c = true -> Z.to_N (rv c) = sval url strict c) /\ sval url strict c < 64.
  Proof.
    intros Hc. pose proof (sweep256 _ (table_sweep url strict) c Hc) as H.
    unfold table_okb in H. fold rv in H.
    apply andb_true_iff in H. destruct H as [H H4]. apply andb_true_iff in H. destruct H as [H H3].
    apply andb_true_iff in H. destruct H as [H1 H2].
    apply eqb_prop in H1. apply eqb_prop in H2. apply N.ltb_lt in H4.
    repeat split; try assumption.
    intros Hs. rewrite Hs in H3. now apply N.eqb_eq.
  Qed.
  Lemma rev_neg c : c < 256 -> (rv c <? 0)%Z = negb (symb url strict c).
  Proof. intros Hc. apply (table_ok c Hc). Qed.
  Lemma rev_pad c : c < 256 -> (rv c =? -2)%Z = (c =? 61).
  Proof. intros Hc. apply (table_ok c Hc). Qed.
  Lemma rev_val c : c < 256 -> symb url strict c = true -> Z.to_N (rv c) = sval url strict c.
  Proof. intros Hc. apply (table_ok c Hc). Qed.
  Lemma sval_lt c : c < 256 -> sval url strict c < 64.
  Proof. intros Hc. apply (table_ok c Hc). Qed.
  Lemma symb_61 : symb url strict 61 = false.
  Proof. destruct url, strict; reflexivity. Qed.
  Lemma symb_not61 c : symb url strict c = true -> (c =? 61) = false.
  Proof.
    intros H. destruct (N.eqb_spec c 61) as [->|]; [|reflexivity]. rewrite symb_61 in H. discriminate.
  Qed.
End Table.

(* ---------- three bytes from four 6-bit values ---------- *)
Definition vb0 (v0 v1 : N) := v0 * 4 + v1 / 16.
Definition vb1 (v1 v2 : N) := (v1 mod 16) * 16 + v2 / 4.
Definition vb2 (v2 v3 : N) := (v2 mod 4) * 64 + v3.

Lemma bits_vb0 : forall v0 v1, v0 < 64 -> v1 < 64 ->
  bits_val [tb v0 5; tb v0 4; tb v0 3; tb v0 2; tb v0 1; tb v0 0; tb v1 5; tb v1 4] = vb0 v0 v1.
Proof.
  intros a b Ha Hb. apply N.eqb_eq.
  apply (sweep64x64 (fun v0 v1 => bits_val [tb v0 5; tb v0 4; tb v0 3; tb v0 2; tb v0 1; tb v0 0; tb v1 5; tb v1 4] =? vb0 v0 v1));
    [|exact Ha|exact Hb].
  vm_compute. reflexivity.
Qed.
Lemma bits_vb1 : forall v1 v2, v1 < 64 -> v2 < 64 ->
  bits_val [tb v1 3; tb v1 2; tb v1 1; tb v1 0; tb v2 5; tb v2 4; tb v2 3; tb v2 2] = vb1 v1 v2.
Proof.
  intros a b Ha Hb. apply N.eqb_eq.
  apply (sweep64x64 (fun v1 v2 => bits_val [tb v1 3; tb v1 2; tb v1 1; tb v1 0; tb v2 5; tb v2 4; tb v2 3; tb v2 2] =? vb1 v1 v2));
    [|exact Ha|exact Hb].
  vm_compute. reflexivity.
Qed.
Lemma bits_vb2 : forall v2 v3, v2 < 64 -> v3 < 64 ->
  bits_val [tb v2 1; tb v2 0; tb v3 5; tb v3 4; tb v3 3; tb v3 2; tb v3 1; tb v3 0] = vb2 v2 v3.
Proof.
  intros a b Ha Hb. apply N.eqb_eq.
  apply (sweep64x64 (fun v2 v3 => bits_val [tb v2 1; tb v2 0; tb v3 5; tb v3 4; tb v3 3; tb v3 2; tb v3 1; tb v3 0] =? vb2 v2 v3));
    [|exact Ha|exact Hb].
  vm_compute. reflexivity.
Qed.

(* model side *)
Lemma out_byte_arith n sh : b64_out_byte n sh = (n / 2 ^ sh) mod 256.
Proof. unfold b64_out_byte. change 0xFF with (N.ones 8). now rewrite N.land_ones, N.shiftr_div_pow2. Qed.

Lemma dec_word v0 v1 v2 v3 : v0 < 64 -> v1 < 64 -> v2 < 64 -> v3 < 64 ->
  N.lor (N.lor (N.lor (N.shiftl v0 18) (N.shiftl v1 12)) (N.shiftl v2 6)) v3 = v0 * 262144 + v1 * 4096 + v2 * 64 + v3.
Proof.
  intros H0 H1 H2 H3. rewrite !N.shiftl_mul_pow2.
  change (2 ^ 18) with 262144. change (2 ^ 12) with 4096. change (2 ^ 6) with 64.
  rewrite (lor_add_disjoint (v0 * 262144) (v1 * 4096) 18) by (change (2 ^ 18) with 262144; lia).
  rewrite (lor_add_disjoint (v0 * 262144 + v1 * 4096) (v2 * 64) 12) by (change (2 ^ 12) with 4096; lia).
  rewrite (lor_add_disjoint (v0 * 262144 + v1 * 4096 + v2 * 64) v3 6) by (change (2 ^ 6) with 64; lia).
  reflexivity.
Qed.
Lemma dec_bytes v0 v1 v2 v3 : v0 < 64 -> v1 < 64 -> v2 < 64 -> v3 < 64 ->
  let n := v0 * 262144 + v1 * 4096 + v2 * 64 + v3 in
  (n / 2 ^ 16) mod 256 = vb0 v0 v1 /\ (n / 2 ^ 8) mod 256 = vb1 v1 v2 /\ (n / 2 ^ 0) mod 256 = vb2 v2 v3.
Proof.
  intros H0 H1 H2 H3 n. subst n. unfold vb0, vb1, vb2.
  change (2 ^ 16) with 65536. change (2 ^ 8) with 256. change (2 ^ 0) with 1.
  repeat split; lia.
Qed.
Lemma dec4 v0 v1 v2 v3 : v0 < 64 -> v1 < 64 -> v2 < 64 -> v3 < 64 ->
  let n := N.lor (N.lor (N.lor (N.shiftl v0 18) (N.shiftl v1 12)) (N.shiftl v2 6)) v3 in
  b64_out_byte n 16 = vb0 v0 v1 /\ b64_out_byte n 8 = vb1 v1 v2 /\ b64_out_byte n 0 = vb2 v2 v3.
Proof.
  intros H0 H1 H2 H3 n. subst n. rewrite dec_word by assumption. rewrite !out_byte_arith.
  exact (dec_bytes v0 v1 v2 v3 H0 H1 H2 H3).
Qed.
Lemma dec3 v0 v1 v2 : v0 < 64 -> v1 < 64 -> v2 < 64 ->
  let n := N.lor (N.lor (N.shiftl v0 18) (N.shiftl v1 12)) (N.shiftl v2 6) in
  b64_out_byte n 16 = vb0 v0 v1 /\ b64_out_byte n 8 = vb1 v1 v2.
Proof.
  intros H0 H1 H2 n. subst n.
  destruct (dec4 v0 v1 v2 0 H0 H1 H2) as (E0 & E1 & _); [reflexivity|].
  cbv zeta in E0, E1. rewrite N.lor_0_r in E0, E1. split; assumption.
Qed.
Lemma dec2 v0 v1 : v0 < 64 -> v1 < 64 ->
  b64_out_byte (N.lor (N.shiftl v0 18) (N.shiftl v1 12)) 16 = vb0 v0 v1.
Proof.
  intros H0 H1.
  destruct (dec3 v0 v1 0 H0 H1) as (E0 & _); [reflexivity|].
  cbv zeta in E0. change (N.shiftl 0 6) with 0 in E0. rewrite N.lor_0_r in E0. exact E0.
Qed.

(* ---------- the spec value, quartet by quartet ---------- *)
Section Value.
  Variables url strict : bool.
  Notation sv := (sval url strict).
  Notation value := (b64_spec_value url strict).

  Lemma value_nil : value [] = [].
  Proof. reflexivity. Qed.
  Lemma filter_pad_only l : forallb (N.eqb 61) l = true -> filter (fun c => negb (c =? 61)) l = [].
  Proof.
    intros H. induction l as [|x l IH]; [reflexivity|].
    cbn [forallb] in H. apply andb_true_iff in H. destruct H as [Hx Hl].
    cbn [filter]. rewrite (N.eqb_sym x 61), Hx. cbn [negb]. now apply IH.
  Qed.
  Lemma value_cons4 a b c d rest :
    (a =? 61) = false -> (b =? 61) = false -> (c =? 61) = false -> (d =? 61) = false ->
    sv a < 64 -> sv b < 64 -> sv c < 64 -> sv d < 64 ->
    value (a :: b :: c :: d :: rest) = vb0 (sv a) (sv b) :: vb1 (sv b) (sv c) :: vb2 (sv c) (sv d) :: value rest.
  Proof.
    intros Ea Eb Ec Ed La Lb Lc Ld.
    rewrite <- (bits_vb0 _ _ La Lb), <- (bits_vb1 _ _ Lb Lc), <- (bits_vb2 _ _ Lc Ld).
    unfold b64_spec_value. cbn [filter]. rewrite Ea, Eb, Ec, Ed. cbn [negb]. reflexivity.
  Qed.
  Lemma value_3 a b c rest :
    (a =? 61) = false -> (b =? 61) = false -> (c =? 61) = false -> forallb (N.eqb 61) rest = true ->
    sv a < 64 -> sv b < 64 -> sv c < 64 ->
    value (a :: b :: c :: rest) = [vb0 (sv a) (sv b); vb1 (sv b) (sv c)].
  Proof.
    intros Ea Eb Ec Hr La Lb Lc.
    rewrite <- (bits_vb0 _ _ La Lb), <- (bits_vb1 _ _ Lb Lc).
    unfold b64_spec_value. cbn [filter]. rewrite Ea, Eb, Ec. cbn [negb].
    rewrite (filter_pad_only rest Hr). reflexivity.
  Qed.
  Lemma value_2 a b rest :
    (a =? 61) = false -> (b =? 61) = false -> forallb (N.eqb 61) rest = true ->
    sv a < 64 -> sv b < 64 ->
    value (a :: b :: rest) = [vb0 (sv a) (sv b)].
  Proof.
    intros Ea Eb Hr La Lb.
    rewrite <- (bits_vb0 _ _ La Lb).
    unfold b64_spec_value. cbn [filter]. rewrite Ea, Eb. cbn [negb].
    rewrite (filter_pad_only rest Hr). reflexivity.
  Qed.
End Value.

(* ---------- the accepted language, quartet by quartet (intermediate, recursive form) ---------- *)
Fixpoint lang4b (sy : N -> bool) (req : bool) (f : list N) : bool :=
  match f with
  | [] => true
  | [_] => false
  | [a; b] => negb req && sy a && sy b
  | [a; b; c] => negb req && sy a && sy b && sy c
  | a :: b :: c :: d :: rest =>
      sy a && sy b &&
      match rest with
      | [] => ((c =? 61) && (d =? 61)) || (sy c && ((d =? 61) || sy d))
      | _ :: _ => sy c && sy d && lang4b sy req rest
      end
  end.

Lemma lang4b_cons4_sym sy req a b c d rest : sy a = true -> sy b = true -> sy c = true -> sy d = true ->
  lang4b sy req (a :: b :: c :: d :: rest) = lang4b sy req rest.
Proof.
  intros Ha Hb Hc Hd. cbn [lang4b]. rewrite Ha, Hb, Hc, Hd.
  destruct rest; [|reflexivity]. cbn [andb orb lang4b]. now rewrite !orb_true_r.
Qed.

Section Loop.
  Variables url strict req : bool.
  Notation rv := (b64_build_reverse url (negb strict)).
  Notation sy := (symb url strict).
  Notation sv := (sval url strict).
  Notation value := (b64_spec_value url strict).

  Lemma pad1 : forallb (N.eqb 61) [61] = true. Proof. reflexivity. Qed.
  Lemma pad2 : forallb (N.eqb 61) [61; 61] = true. Proof. reflexivity. Qed.
  Lemma pad0 : forallb (N.eqb 61) [] = true. Proof. reflexivity. Qed.

  (* the whole loop in one equation *)
  Lemma decode_loop_eq f : bytes_okb f = true -> forall acc,
    b64_decode_loop rv req f acc = if lang4b sy req f then Some (rev acc ++ value f) else None.
  Proof.
    induction f as [|a|a b|a b c|a b c d rest IH] using list_ind4; intros Hok acc.
    - cbn [b64_decode_loop lang4b]. now rewrite <- rev_alt, value_nil, app_nil_r.
    - reflexivity.
    - apply bytes_okb_cons in Hok. destruct Hok as [Ha Hok]. apply bytes_okb_cons in Hok. destruct Hok as [Hb _].
      cbn [b64_decode_loop lang4b]. cbv zeta. rewrite <- ?rev_alt. destruct req; [reflexivity|]. cbn [negb andb].
      rewrite (rev_neg url strict a Ha), (rev_neg url strict b Hb).
      destruct (sy a) eqn:Sa; [|reflexivity]. destruct (sy b) eqn:Sb; [|reflexivity]. cbn [negb orb andb].
      rewrite (rev_val url strict a Ha Sa), (rev_val url strict b Hb Sb).
      rewrite (dec2 _ _ (sval_lt url strict a Ha) (sval_lt url strict b Hb)).
      rewrite (value_2 url strict a b [] (symb_not61 _ _ _ Sa) (symb_not61 _ _ _ Sb) pad0
                 (sval_lt url strict a Ha) (sval_lt url strict b Hb)).
      reflexivity.
    - apply bytes_okb_cons in Hok. destruct Hok as [Ha Hok]. apply bytes_okb_cons in Hok. destruct Hok as [Hb Hok].
      apply bytes_okb_cons in Hok. destruct Hok as [Hc _].
      cbn [b64_decode_loop lang4b]. cbv zeta. rewrite <- ?rev_alt. destruct req; [reflexivity|]. cbn [negb andb].
      rewrite (rev_neg url strict a Ha), (rev_neg url strict b Hb), (rev_neg url strict c Hc).
      destruct (sy a) eqn:Sa; [|reflexivity]. destruct (sy b) eqn:Sb; [|reflexivity].
      destruct (sy c) eqn:Sc; [|reflexivity]. cbn [negb orb andb].
      rewrite (rev_val url strict a Ha Sa), (rev_val url strict b Hb Sb), (rev_val url strict c Hc Sc).
      destruct (dec3 _ _ _ (sval_lt url strict a Ha) (sval_lt url strict b Hb) (sval_lt url strict c Hc)) as [E0 E1].
      cbv zeta in E0, E1. rewrite E0, E1.
      rewrite (value_3 url strict a b c [] (symb_not61 _ _ _ Sa) (symb_not61 _ _ _ Sb) (symb_not61 _ _ _ Sc) pad0
                 (sval_lt url strict a Ha) (sval_lt url strict b Hb) (sval_lt url strict c Hc)).
      cbn [rev]. now rewrite <- !app_assoc.
    - apply bytes_okb_cons in Hok. destruct Hok as [Ha Hok]. apply bytes_okb_cons in Hok. destruct Hok as [Hb Hok].
      apply bytes_okb_cons in Hok. destruct Hok as [Hc Hok]. apply bytes_okb_cons in Hok. destruct Hok as [Hd Hok].
      pose proof (sval_lt url strict a Ha) as La. pose proof (sval_lt url strict b Hb) as Lb.
      pose proof (sval_lt url strict c Hc) as Lc. pose proof (sval_lt url strict d Hd) as Ld.
      cbn [b64_decode_loop lang4b]. cbv zeta. rewrite <- ?rev_alt.
      rewrite (rev_neg url strict a Ha), (rev_neg url strict b Hb).
      destruct (sy a) eqn:Sa; [|reflexivity]. destruct (sy b) eqn:Sb; [|reflexivity]. cbn [negb orb andb].
      rewrite (rev_val url strict a Ha Sa), (rev_val url strict b Hb Sb).
      rewrite !(rev_pad url strict c Hc), !(rev_pad url strict d Hd).
      rewrite !(rev_neg url strict c Hc), !(rev_neg url strict d Hd).
      pose proof (symb_not61 _ _ _ Sa) as Na. pose proof (symb_not61 _ _ _ Sb) as Nb.
      destruct (c =? 61) eqn:Ec.
      + (* pad2 *)
        apply N.eqb_eq in Ec. subst c. rewrite (symb_61 url strict). cbn [andb orb].
        destruct rest as [|x rest']; [|reflexivity].
        destruct (d =? 61) eqn:Ed; [|reflexivity]. cbn [negb andb orb].
        apply N.eqb_eq in Ed. subst d.
        rewrite (dec2 _ _ La Lb).
        rewrite (value_2 url strict a b [61; 61] Na Nb pad2 La Lb). reflexivity.
      + destruct (d =? 61) eqn:Ed.
        * (* pad3 *)
          apply N.eqb_eq in Ed. subst d. rewrite (symb_61 url strict). cbn [andb orb].
          destruct rest as [|x rest']; [|now rewrite andb_false_r].
          destruct (sy c) eqn:Sc; [|reflexivity]. cbn [negb andb orb].
          rewrite (rev_val url strict c Hc Sc).
          destruct (dec3 _ _ _ La Lb Lc) as [E0 E1]. cbv zeta in E0, E1. rewrite E0, E1.
          rewrite (value_3 url strict a b c [61] Na Nb Ec pad1 La Lb Lc).
          cbn [rev]. now rewrite <- !app_assoc.
        * (* full quartet *)
          cbn [andb orb].
          destruct (sy c) eqn:Sc; [|destruct rest; reflexivity].
          destruct (sy d) eqn:Sd; [|destruct rest; reflexivity]. cbn [negb andb orb].
          rewrite (rev_val url strict c Hc Sc), (rev_val url strict d Hd Sd).
          destruct (dec4 _ _ _ _ La Lb Lc Ld) as (E0 & E1 & E2). cbv zeta in E0, E1, E2. rewrite E0, E1, E2.
          rewrite (IH Hok).
          rewrite (value_cons4 url strict a b c d rest Na Nb Ec Ed La Lb Lc Ld).
          replace (match rest with [] => true | _ :: _ => lang4b sy req rest end) with (lang4b sy req rest)
            by (destruct rest; reflexivity).
          destruct (lang4b sy req rest); [|reflexivity].
          cbn [rev]. rewrite <- !app_assoc. reflexivity.
  Qed.
End Loop.

(* the length pre-checks (encoding.cpp:113-117) are implied by the loop's own tests *)
Lemma mod4_cons4 {A} (a b c d : A) l : (length (a :: b :: c :: d :: l) mod 4 = length l mod 4)%nat.
Proof.
  cbn [length]. replace (S (S (S (S (length l))))) with (length l + 1 * 4)%nat by lia.
  now rewrite Nat.mod_add by discriminate.
Qed.
Lemma lang4b_len sy req f : lang4b sy req f = true ->
  (req = true -> length f mod 4 = 0)%nat /\ (length f mod 4 <> 1)%nat.
Proof.
  induction f as [|a|a b|a b c|a b c d rest IH] using list_ind4; intros H.
  - split; [reflexivity|discriminate].
  - discriminate.
  - cbn [lang4b] in H. destruct req; [discriminate|]. split; [discriminate|]. cbn. discriminate.
  - cbn [lang4b] in H. destruct req; [discriminate|]. split; [discriminate|]. cbn. discriminate.
  - rewrite mod4_cons4. destruct rest as [|x rest'].
    + split; [reflexivity|discriminate].
    + apply IH. cbn [lang4b] in H. cbn [lang4b].
      apply andb_true_iff in H. destruct H as [_ H]. apply andb_true_iff in H. destruct H as [_ H]. exact H.
Qed.

Lemma bytes_okb_filter (p : N -> bool) l : bytes_okb l = true -> bytes_okb (filter p l) = true.
Proof.
  unfold bytes_okb. rewrite !forallb_forall. intros H x Hx. apply filter_In in Hx. apply H. tauto.
Qed.
Lemma bytes_okb_b64_filter strict l : bytes_okb l = true -> bytes_okb (b64_filter strict l) = true.
Proof. intros H. destruct strict; [exact H|]. now apply bytes_okb_filter. Qed.

(* THE decoder equation: the C++ decoder is the recursive language test followed by the spec value *)
Theorem base64_decode_eq url req strict s : bytes_okb s = true ->
  base64_decode url req strict s =
    if lang4b (symb url strict) req (b64_filter strict s)
    then Some (b64_spec_value url strict (b64_filter strict s)) else None.
Proof.
  intros Hok. destruct s as [|x s'].
  - destruct strict; reflexivity.
  - set (s := x :: s') in *. unfold base64_decode. fold s.
    change (if strict then s else filter (fun c => negb (is_space c)) s) with (b64_filter strict s).
    set (f := b64_filter strict s).
    assert (Hf : bytes_okb f = true) by (now apply bytes_okb_b64_filter).
    pose proof (decode_loop_eq url strict req f Hf []) as E. cbn [rev app] in E.
    destruct (if req then negb (length f mod 4 =? 0)%nat else (length f mod 4 =? 1)%nat) eqn:Pre.
    + destruct (lang4b (symb url strict) req f) eqn:Hl; [|reflexivity].
      apply lang4b_len in Hl. destruct Hl as [L1 L2]. destruct req.
      * rewrite (L1 eq_refl) in Pre. discriminate.
      * apply Nat.eqb_eq in Pre. contradiction.
    + exact E.
Qed.

(* ---------- the language: recursive form <-> the property's wording ---------- *)
Definition lang_gen (P : N -> Prop) (req : bool) (s : list N) : Prop :=
  exists body padding : list N,
    s = body ++ padding /\ Forall P body /\
    (padding = [] \/ padding = [61] \/ padding = [61; 61]) /\
    (padding <> [] -> (length s mod 4 = 0)%nat) /\
    (length s mod 4 <> 1)%nat /\
    (req = true -> (length s mod 4 = 0)%nat).
Lemma b64_lang_gen url req strict s : b64_lang url req strict s = lang_gen (b64_symbol url strict) req s.
Proof. reflexivity. Qed.

Section LangGen.
  Variable P : N -> Prop.
  Variable req : bool.

  Lemma lang_gen_0 : lang_gen P req [].
  Proof.
    exists [], []. split; [reflexivity|]. split; [constructor|]. split; [now left|].
    split; [intros H; now elim H|]. split; [cbn; discriminate|reflexivity].
  Qed.
  Lemma lang_gen_1 a : ~ lang_gen P req [a].
  Proof. intros (body & padding & _ & _ & _ & _ & H & _). now apply H. Qed.
  Lemma lang_gen_2 a b : lang_gen P req [a; b] <-> req = false /\ P a /\ P b.
  Proof.
    split.
    - intros (body & padding & E & HF & Hp & Hpl & _ & Hr).
      assert (Hreq : req = false) by (destruct req; [specialize (Hr eq_refl); discriminate|reflexivity]).
      assert (padding = []) as -> by (destruct padding; [reflexivity|]; specialize (Hpl ltac:(discriminate)); discriminate).
      rewrite app_nil_r in E. subst body. inversion HF as [|? ? Pa HF']. inversion HF' as [|? ? Pb _]. tauto.
    - intros (Hreq & Pa & Pb). exists [a; b], []. split; [reflexivity|]. split; [repeat constructor; assumption|].
      split; [now left|]. split; [intros H; now elim H|]. split; [cbn; discriminate|rewrite Hreq; discriminate].
  Qed.
  Lemma lang_gen_3 a b c : lang_gen P req [a; b; c] <-> req = false /\ P a /\ P b /\ P c.
  Proof.
    split.
    - intros (body & padding & E & HF & Hp & Hpl & _ & Hr).
      assert (Hreq : req = false) by (destruct req; [specialize (Hr eq_refl); discriminate|reflexivity]).
      assert (padding = []) as -> by (destruct padding; [reflexivity|]; specialize (Hpl ltac:(discriminate)); discriminate).
      rewrite app_nil_r in E. subst body. inversion HF as [|? ? Pa HF']. inversion HF' as [|? ? Pb HF''].
      inversion HF'' as [|? ? Pc _]. tauto.
    - intros (Hreq & Pa & Pb & Pc). exists [a; b; c], []. split; [reflexivity|]. split; [repeat constructor; assumption|].
      split; [now left|]. split; [intros H; now elim H|]. split; [cbn; discriminate|rewrite Hreq; discriminate].
  Qed.
  Lemma lang_gen_4 a b c d : lang_gen P req [a; b; c; d] <->
    P a /\ P b /\ ((c = 61 /\ d = 61) \/ (P c /\ (d = 61 \/ P d))).
  Proof.
    split.
    - intros (body & padding & E & HF & Hp & _).
      destruct Hp as [->|[->| ->]].
      + rewrite app_nil_r in E. subst body. inversion HF as [|? ? Pa HF']. inversion HF' as [|? ? Pb HF''].
        inversion HF'' as [|? ? Pc HF3]. inversion HF3 as [|? ? Pd _]. tauto.
      + destruct body as [|x0 [|x1 [|x2 [|x3 body']]]]; cbn in E; try discriminate E.
        * injection E as -> -> -> ->. inversion HF as [|? ? Pa HF']. inversion HF' as [|? ? Pb HF''].
          inversion HF'' as [|? ? Pc _]. tauto.
        * destruct body'; discriminate E.
      + destruct body as [|x0 [|x1 [|x2 body']]]; cbn in E; try discriminate E.
        * injection E as -> -> -> ->. inversion HF as [|? ? Pa HF']. inversion HF' as [|? ? Pb _]. tauto.
        * destruct body' as [|x3 body']; [discriminate E|]. destruct body'; discriminate E.
    - intros (Pa & Pb & [[-> ->]|[Pc [->|Pd]]]).
      + exists [a; b], [61; 61]. split; [reflexivity|]. split; [repeat constructor; assumption|].
        split; [tauto|]. split; [reflexivity|]. split; [cbn; discriminate|reflexivity].
      + exists [a; b; c], [61]. split; [reflexivity|]. split; [repeat constructor; assumption|].
        split; [tauto|]. split; [reflexivity|]. split; [cbn; discriminate|reflexivity].
      + exists [a; b; c; d], []. split; [reflexivity|]. split; [repeat constructor; assumption|].
        split; [tauto|]. split; [reflexivity|]. split; [cbn; discriminate|reflexivity].
  Qed.
  Lemma lang_gen_cons4 a b c d rest : rest <> [] ->
    (lang_gen P req (a :: b :: c :: d :: rest) <-> P a /\ P b /\ P c /\ P d /\ lang_gen P req rest).
  Proof.
    intros Hne. split.
    - intros (body & padding & E & HF & Hp & Hpl & H1 & Hr).
      rewrite mod4_cons4 in Hpl, H1, Hr.
      assert (Hlen : (length body + length padding = 4 + length rest)%nat).
      { apply (f_equal (@length N)) in E. rewrite app_length in E. cbn [length] in E. lia. }
      assert (Hp2 : (length padding <= 2)%nat) by (destruct Hp as [->|[->| ->]]; cbn; lia).
      assert (Hb4 : (4 <= length body)%nat).
      { destruct padding as [|p padding']; [cbn in Hlen; lia|].
        specialize (Hpl ltac:(discriminate)).
        assert (length rest <> 0)%nat by (destruct rest; [now elim Hne|cbn; lia]).
        assert (4 <= length rest)%nat by lia. lia. }
      destruct body as [|x0 [|x1 [|x2 [|x3 body']]]]; cbn [length] in Hb4; try lia.
      cbn [app] in E. injection E as -> -> -> -> E.
      inversion HF as [|? ? Pa HF']. inversion HF' as [|? ? Pb HF'']. inversion HF'' as [|? ? Pc HF3].
      inversion HF3 as [|? ? Pd HF4].
      repeat split; try assumption. exists body', padding. repeat split; assumption.
    - intros (Pa & Pb & Pc & Pd & (body & padding & E & HF & Hp & Hpl & H1 & Hr)).
      exists (a :: b :: c :: d :: body), padding. rewrite mod4_cons4.
      repeat split; try assumption.
      + rewrite E. reflexivity.
      + repeat constructor; assumption.
  Qed.
End LangGen.

(* ---------- symbols: boolean forms <-> the Prop ---------- *)
Lemma index_of_some c l i v : index_of c l i = Some v -> In c l.
Proof.
  revert i. induction l as [|x l IH]; intros i H; [discriminate|]. cbn [index_of] in H.
  destruct (N.eqb_spec c x) as [->|_]; [now left|right; eapply IH; eauto].
Qed.
Lemma index_of_none c l i : index_of c l i = None -> ~ In c l.
Proof.
  revert i. induction l as [|x l IH]; intros i H; [intros []|]. cbn [index_of] in H.
  destruct (N.eqb_spec c x) as [->|Hne]; [discriminate|]. intros [->|Hin]; [now elim Hne|]. eapply IH; eauto.
Qed.
Lemma symb_iff url strict c : symb url strict c = true <-> b64_symbol url strict c.
Proof.
  unfold symb, b64_symbol, b64_symbol_value. split.
  - intros H. destruct (url && negb strict) eqn:UA.
    + apply andb_true_iff in UA. destruct UA as [Hu Hs]. apply negb_true_iff in Hs. subst url strict.
      cbn [andb] in H.
      destruct (N.eqb_spec c 43) as [E43|_]; [right; tauto|].
      destruct (N.eqb_spec c 47) as [E47|_]; [right; tauto|].
      left. destruct (index_of c (b64_spec_alphabet true) 0) eqn:E; [eapply index_of_some; eauto|discriminate].
    + cbn [andb] in H.
      left. destruct (index_of c (b64_spec_alphabet url) 0) eqn:E; [eapply index_of_some; eauto|discriminate].
  - intros [Hin|(Hu & Hs & Hc)].
    + destruct (index_of c (b64_spec_alphabet url) 0) eqn:E; [|exfalso; eapply index_of_none; eauto].
      destruct (url && negb strict && (c =? 43)); [reflexivity|].
      destruct (url && negb strict && (c =? 47)); reflexivity.
    + subst url strict. destruct Hc as [->| ->]; reflexivity.
Qed.
Lemma symbolb_iff url strict c : b64_symbolb url strict c = true <-> b64_symbol url strict c.
Proof.
  unfold b64_symbolb, b64_symbol. rewrite orb_true_iff, existsb_exists, !andb_true_iff, orb_true_iff, negb_true_iff, !N.eqb_eq.
  split.
  - intros [(x & Hin & Hx)|H]; [left|right; tauto]. apply N.eqb_eq in Hx. now subst x.
  - intros [Hin|H]; [left|right; tauto]. exists c. split; [assumption|apply N.eqb_refl].
Qed.
Lemma not_symbol_61 url strict : ~ b64_symbol url strict 61.
Proof. rewrite <- symb_iff. now rewrite symb_61. Qed.

(* ---------- recursive form <-> property wording ---------- *)
Section Lang4.
  Variable sy : N -> bool.
  Variable P : N -> Prop.
  Variable req : bool.
  Hypothesis HP : forall c, sy c = true <-> P c.

  Lemma lang4b_iff f : lang4b sy req f = true <-> lang_gen P req f.
  Proof.
    induction f as [|a|a b|a b c|a b c d rest IH] using list_ind4.
    - split; intros _; [apply lang_gen_0|reflexivity].
    - split; [discriminate|]. intros H. now elim (lang_gen_1 P req a).
    - rewrite lang_gen_2. cbn [lang4b]. rewrite !andb_true_iff, negb_true_iff, !HP. tauto.
    - rewrite lang_gen_3. cbn [lang4b]. rewrite !andb_true_iff, negb_true_iff, !HP. tauto.
    - destruct rest as [|x rest'].
      + rewrite lang_gen_4. cbn [lang4b].
        rewrite !andb_true_iff, !orb_true_iff, !andb_true_iff, orb_true_iff, !N.eqb_eq, !HP. tauto.
      + rewrite (lang_gen_cons4 P req) by discriminate.
        change (lang4b sy req (a :: b :: c :: d :: x :: rest'))
          with (sy a && sy b && (sy c && sy d && lang4b sy req (x :: rest'))).
        rewrite !andb_true_iff, !HP, IH. tauto.
  Qed.
End Lang4.

Theorem lang4b_b64_lang url req strict f : lang4b (symb url strict) req f = true <-> b64_lang url req strict f.
Proof.
  rewrite b64_lang_gen. apply lang4b_iff. apply symb_iff.
Qed.

(* ---------- the decidable form given in the spec ---------- *)
Lemma firstn_app_exact {A} (a b : list A) : firstn (length a) (a ++ b) = a.
Proof. rewrite firstn_app, Nat.sub_diag, firstn_all. cbn [firstn]. apply app_nil_r. Qed.
Lemma skipn_app_exact {A} (a b : list A) : skipn (length a) (a ++ b) = b.
Proof. rewrite skipn_app, Nat.sub_diag, skipn_all. reflexivity. Qed.

Theorem b64_langb_iff url req strict s : b64_langb url req strict s = true <-> b64_lang url req strict s.
Proof.
  unfold b64_langb, b64_lang. cbv zeta. set (n := length s).
  rewrite !andb_true_iff, existsb_exists, negb_true_iff, orb_true_iff, negb_true_iff, Nat.eqb_neq, Nat.eqb_eq.
  split.
  - intros [[(k & Hk & Hc) H1] Hr].
    rewrite !andb_true_iff, orb_true_iff, !Nat.eqb_eq in Hc. destruct Hc as [[[Hb Hp] Hl] Hz].
    exists (firstn (n - k) s), (skipn (n - k) s).
    split; [now rewrite firstn_skipn|].
    split. { apply Forall_forall. intros x Hx. apply symbolb_iff. rewrite forallb_forall in Hb. now apply Hb. }
    split.
    { destruct (skipn (n - k) s) as [|p0 [|p1 [|p2 pad]]]; [now left| | |].
      - right; left. cbn [forallb] in Hp. rewrite andb_true_r in Hp. apply N.eqb_eq in Hp. now subst p0.
      - right; right. cbn [forallb] in Hp. rewrite andb_true_r in Hp. apply andb_true_iff in Hp. destruct Hp as [E0 E1].
        apply N.eqb_eq in E0, E1. now subst p0 p1.
      - exfalso. cbn [length] in Hl. cbn [In] in Hk. lia. }
    split.
    { intros Hne. destruct Hz as [Hz|Hz]; [|exact Hz]. subst k.
      destruct (skipn (n - 0) s); [now elim Hne|discriminate Hl]. }
    split; [exact H1|]. intros Hreq. destruct Hr as [Hr|Hr]; [congruence|exact Hr].
  - intros (body & padding & E & HF & Hp & Hpl & H1 & Hr).
    unfold n in *. clear n. subst s.
    split; [split|].
    + exists (length padding).
      assert (Hn : (length (body ++ padding) - length padding = length body)%nat).
      { rewrite app_length. lia. }
      rewrite Hn. rewrite firstn_app_exact, skipn_app_exact.
      split; [destruct Hp as [->|[->| ->]]; cbn; tauto|].
      rewrite !andb_true_iff, orb_true_iff, !Nat.eqb_eq.
      split; [split; [split|]|].
      * apply forallb_forall. intros x Hx. apply symbolb_iff. rewrite Forall_forall in HF. now apply HF.
      * destruct Hp as [->|[->| ->]]; reflexivity.
      * reflexivity.
      * destruct padding; [now left|right]. apply Hpl. discriminate.
    + exact H1.
    + destruct req; [right; now apply Hr|now left].
Qed.

(* ================= the decoder theorems ================= *)
Theorem base64_decode_language url req strict s : bytes_okb s = true ->
  ((exists d, base64_decode url req strict s = Some d) <-> b64_lang url req strict (b64_filter strict s)).
Proof.
  intros Hok. rewrite (base64_decode_eq url req strict s Hok), <- lang4b_b64_lang.
  destruct (lang4b (symb url strict) req (b64_filter strict s)).
  - split; [reflexivity|]. intros _. eexists. reflexivity.
  - split; [intros [d H]; discriminate H|discriminate].
Qed.
Theorem base64_decode_value url req strict s d : bytes_okb s = true -> base64_decode url req strict s = Some d ->
  d = b64_spec_value url strict (b64_filter strict s).
Proof.
  intros Hok. rewrite (base64_decode_eq url req strict s Hok).
  destruct (lang4b (symb url strict) req (b64_filter strict s)); [|discriminate]. intros H. now injection H as <-.
Qed.

(* ---------- decoded bytes are bytes, for any input whatsoever ---------- *)
Lemma out_byte_lt n sh : b64_out_byte n sh < 256.
Proof. rewrite out_byte_arith. apply N.mod_lt. discriminate. Qed.
Lemma bytes_okb_push b l : b < 256 -> bytes_okb l = true -> bytes_okb (b :: l) = true.
Proof. intros. apply bytes_okb_cons. now split. Qed.

Lemma some_rev_ok l (d : list N) : Some (rev_append l []) = Some d -> bytes_okb l = true -> bytes_okb d = true.
Proof. intros H Hl. rewrite <- rev_alt in H. injection H as H. subst d. now rewrite bytes_okb_rev. Qed.

Lemma decode_loop_ok rv req f : forall acc d, bytes_okb acc = true ->
  b64_decode_loop rv req f acc = Some d -> bytes_okb d = true.
Proof.
  induction f as [|a|a b|a b c|a b c d0 rest IH] using list_ind4; intros acc d Hacc H.
  - cbn [b64_decode_loop] in H. exact (some_rev_ok _ _ H Hacc).
  - discriminate H.
  - cbn [b64_decode_loop] in H. cbv zeta in H. destruct req; [discriminate H|].
    destruct ((rv a <? 0)%Z || (rv b <? 0)%Z); [discriminate H|]. apply (some_rev_ok _ _ H).
    apply bytes_okb_push; [apply out_byte_lt|exact Hacc].
  - cbn [b64_decode_loop] in H. cbv zeta in H. destruct req; [discriminate H|].
    destruct ((rv a <? 0)%Z || (rv b <? 0)%Z || (rv c <? 0)%Z); [discriminate H|]. apply (some_rev_ok _ _ H).
    repeat (apply bytes_okb_push; [apply out_byte_lt|]). exact Hacc.
  - cbn [b64_decode_loop] in H. cbv zeta in H.
    destruct ((rv a <? 0)%Z || (rv b <? 0)%Z); [discriminate H|].
    destruct (rv c =? -2)%Z.
    + destruct rest; [|discriminate H]. destruct (rv d0 =? -2)%Z; [|discriminate H]. cbn [negb] in H.
      apply (some_rev_ok _ _ H). apply bytes_okb_push; [apply out_byte_lt|exact Hacc].
    + destruct (rv d0 =? -2)%Z.
      * destruct rest; [|discriminate H]. destruct ((rv c <? 0)%Z || false); [discriminate H|].
        apply (some_rev_ok _ _ H). repeat (apply bytes_okb_push; [apply out_byte_lt|]). exact Hacc.
      * destruct ((rv c <? 0)%Z || (rv d0 <? 0)%Z); [discriminate H|].
        eapply IH; [|exact H]. repeat (apply bytes_okb_push; [apply out_byte_lt|]). exact Hacc.
Qed.
Theorem base64_decode_ok url req strict s d : base64_decode url req strict s = Some d -> bytes_okb d = true.
Proof.
  unfold base64_decode. destruct s as [|x s']; [intros H; now injection H as <-|].
  destruct (if req then _ else _); [discriminate|].
  apply decode_loop_ok. reflexivity.
Qed.

(* ---------- round trip ---------- *)
Definition sym_okb (url strict : bool) (v : N) : bool :=
  symb url strict (sym url v) && (sval url strict (sym url v) =? v) && (sym url v <? 256) &&
  negb (is_space (sym url v)).
Lemma sym_sweep url strict : forallb (sym_okb url strict) (rangeN 64) = true.
Proof. destruct url, strict; vm_compute; reflexivity. Qed.
Lemma sym_ok url strict v : v < 64 ->
  symb url strict (sym url v) = true /\ sval url strict (sym url v) = v /\ sym url v < 256 /\
  is_space (sym url v) = false.
Proof.
  intros Hv. pose proof (sweep64 _ (sym_sweep url strict) v Hv) as H. unfold sym_okb in H.
  rewrite !andb_true_iff, N.eqb_eq, N.ltb_lt, negb_true_iff in H. tauto.
Qed.

Lemma g_lt a b c : a < 256 -> b < 256 -> c < 256 -> g0 a < 64 /\ g1 a b < 64 /\ g2 b c < 64 /\ g3 c < 64.
Proof. intros Ha Hb Hc. unfold g0, g1, g2, g3. repeat split; lia. Qed.
Lemma vb_g a b c : a < 256 -> b < 256 -> c < 256 ->
  vb0 (g0 a) (g1 a b) = a /\ vb1 (g1 a b) (g2 b c) = b /\ vb2 (g2 b c) (g3 c) = c.
Proof. intros Ha Hb Hc. unfold vb0, vb1, vb2, g0, g1, g2, g3. repeat split; lia. Qed.

Lemma encode_loop_cons3 url pad a b c rest : a < 256 -> b < 256 -> c < 256 ->
  b64_encode_loop (b64_alphabet url) pad (a :: b :: c :: rest) =
  sym url (g0 a) :: sym url (g1 a b) :: sym url (g2 b c) :: sym url (g3 c) :: b64_encode_loop (b64_alphabet url) pad rest.
Proof.
  intros Ha Hb Hc. cbn [b64_encode_loop].
  destruct (enc_group url a b c Ha Hb Hc) as (E0 & E1 & E2 & E3). cbv zeta in E0, E1, E2, E3.
  now rewrite E0, E1, E2, E3.
Qed.
Lemma encode_loop_1 url pad a : a < 256 ->
  b64_encode_loop (b64_alphabet url) pad [a] = sym url (g0 a) :: sym url (g1 a 0) :: (if pad then [61; 61] else []).
Proof.
  intros Ha. cbn [b64_encode_loop].
  destruct (enc_group url a 0 0 Ha) as (E0 & E1 & _ & _); [reflexivity|reflexivity|].
  cbv zeta in E0, E1. change (N.shiftl 0 8) with 0 in E0, E1. rewrite !N.lor_0_r in E0, E1.
  now rewrite E0, E1.
Qed.
Lemma encode_loop_2 url pad a b : a < 256 -> b < 256 ->
  b64_encode_loop (b64_alphabet url) pad [a; b] =
  sym url (g0 a) :: sym url (g1 a b) :: sym url (g2 b 0) :: (if pad then [61] else []).
Proof.
  intros Ha Hb. cbn [b64_encode_loop].
  destruct (enc_group url a b 0 Ha Hb) as (E0 & E1 & E2 & _); [reflexivity|].
  cbv zeta in E0, E1, E2. rewrite !N.lor_0_r in E0, E1, E2.
  now rewrite E0, E1, E2.
Qed.

Lemma encode_loop_accepted url pad req strict d : bytes_okb d = true ->
  (req = true -> pad = true \/ (length d mod 3 = 0)%nat) ->
  let e := b64_encode_loop (b64_alphabet url) pad d in
  lang4b (symb url strict) req e = true /\ b64_spec_value url strict e = d /\
  bytes_okb e = true /\ b64_filter strict e = e.
Proof.
  cbv zeta.
  induction d as [|a|a b|a b c rest IH] using list_ind3; intros Hok Hreq.
  - repeat split; destruct strict; reflexivity.
  - apply bytes_okb_cons in Hok. destruct Hok as [Ha _].
    rewrite (encode_loop_1 url pad a Ha).
    destruct (g_lt a 0 0 Ha) as (L0 & L1 & _ & _); [reflexivity|reflexivity|].
    destruct (sym_ok url strict _ L0) as (S0 & V0 & B0 & W0).
    destruct (sym_ok url strict _ L1) as (S1 & V1 & B1 & W1).
    destruct (vb_g a 0 0 Ha) as (R0 & _ & _); [reflexivity|reflexivity|].
    assert (Hv : forall tl, forallb (N.eqb 61) tl = true ->
              b64_spec_value url strict (sym url (g0 a) :: sym url (g1 a 0) :: tl) = [a]).
    { intros tl Htl. rewrite (value_2 url strict _ _ tl (symb_not61 _ _ _ S0) (symb_not61 _ _ _ S1) Htl).
      - unfold sval in V0, V1 |- *. now rewrite V0, V1, R0.
      - unfold sval in V0 |- *. now rewrite V0.
      - unfold sval in V1 |- *. now rewrite V1. }
    assert (Hf : forall tl, b64_filter strict tl = tl ->
              b64_filter strict (sym url (g0 a) :: sym url (g1 a 0) :: tl) = sym url (g0 a) :: sym url (g1 a 0) :: tl).
    { intros tl Htl. destruct strict; [reflexivity|]. unfold b64_filter in *. cbn [filter].
      unfold is_space in *. rewrite W0, W1. cbn [negb]. now rewrite Htl. }
    destruct pad.
    + split; [cbn [lang4b]; rewrite S0, S1; reflexivity|]. split; [now apply Hv|].
      split; [repeat (apply bytes_okb_push; [assumption || reflexivity|]); reflexivity|].
      apply Hf. destruct strict; reflexivity.
    + assert (req = false) as ->.
      { destruct req; [|reflexivity]. destruct (Hreq eq_refl) as [Hc|Hc]; discriminate Hc. }
      split; [cbn [lang4b]; rewrite S0, S1; reflexivity|]. split; [now apply Hv|].
      split; [repeat (apply bytes_okb_push; [assumption|]); reflexivity|].
      apply Hf. destruct strict; reflexivity.
  - apply bytes_okb_cons in Hok. destruct Hok as [Ha Hok]. apply bytes_okb_cons in Hok. destruct Hok as [Hb _].
    rewrite (encode_loop_2 url pad a b Ha Hb).
    destruct (g_lt a b 0 Ha Hb) as (L0 & L1 & L2 & _); [reflexivity|].
    destruct (sym_ok url strict _ L0) as (S0 & V0 & B0 & W0).
    destruct (sym_ok url strict _ L1) as (S1 & V1 & B1 & W1).
    destruct (sym_ok url strict _ L2) as (S2 & V2 & B2 & W2).
    destruct (vb_g a b 0 Ha Hb) as (R0 & R1 & _); [reflexivity|].
    assert (Hv : forall tl, forallb (N.eqb 61) tl = true ->
              b64_spec_value url strict (sym url (g0 a) :: sym url (g1 a b) :: sym url (g2 b 0) :: tl) = [a; b]).
    { intros tl Htl.
      rewrite (value_3 url strict _ _ _ tl (symb_not61 _ _ _ S0) (symb_not61 _ _ _ S1) (symb_not61 _ _ _ S2) Htl).
      - unfold sval in V0, V1, V2 |- *. now rewrite V0, V1, V2, R0, R1.
      - unfold sval in V0 |- *. now rewrite V0.
      - unfold sval in V1 |- *. now rewrite V1.
      - unfold sval in V2 |- *. now rewrite V2. }
    assert (Hf : forall tl, b64_filter strict tl = tl ->
              b64_filter strict (sym url (g0 a) :: sym url (g1 a b) :: sym url (g2 b 0) :: tl) =
              sym url (g0 a) :: sym url (g1 a b) :: sym url (g2 b 0) :: tl).
    { intros tl Htl. destruct strict; [reflexivity|]. unfold b64_filter in *. cbn [filter].
      unfold is_space in *. rewrite W0, W1, W2. cbn [negb]. now rewrite Htl. }
    destruct pad.
    + split; [cbn [lang4b]; rewrite S0, S1, S2, !N.eqb_refl; cbn [andb orb]; now rewrite orb_true_r|].
      split; [now apply Hv|].
      split; [repeat (apply bytes_okb_push; [assumption || reflexivity|]); reflexivity|].
      apply Hf. destruct strict; reflexivity.
    + assert (req = false) as ->.
      { destruct req; [|reflexivity]. destruct (Hreq eq_refl) as [Hc|Hc]; discriminate Hc. }
      split; [cbn [lang4b]; rewrite S0, S1, S2; reflexivity|]. split; [now apply Hv|].
      split; [repeat (apply bytes_okb_push; [assumption|]); reflexivity|].
      apply Hf. destruct strict; reflexivity.
  - apply bytes_okb_cons in Hok. destruct Hok as [Ha Hok]. apply bytes_okb_cons in Hok. destruct Hok as [Hb Hok].
    apply bytes_okb_cons in Hok. destruct Hok as [Hc Hok].
    rewrite (encode_loop_cons3 url pad a b c rest Ha Hb Hc).
    destruct (g_lt a b c Ha Hb Hc) as (L0 & L1 & L2 & L3).
    destruct (sym_ok url strict _ L0) as (S0 & V0 & B0 & W0).
    destruct (sym_ok url strict _ L1) as (S1 & V1 & B1 & W1).
    destruct (sym_ok url strict _ L2) as (S2 & V2 & B2 & W2).
    destruct (sym_ok url strict _ L3) as (S3 & V3 & B3 & W3).
    destruct (vb_g a b c Ha Hb Hc) as (R0 & R1 & R2).
    destruct (IH Hok) as (I1 & I2 & I3 & I4).
    { intros Hr. destruct (Hreq Hr) as [Hp|Hl]; [now left|right]. cbn [length] in Hl. lia. }
    split; [|split; [|split]].
    + now rewrite (lang4b_cons4_sym _ req _ _ _ _ _ S0 S1 S2 S3).
    + rewrite (value_cons4 url strict _ _ _ _ _ (symb_not61 _ _ _ S0) (symb_not61 _ _ _ S1)
                 (symb_not61 _ _ _ S2) (symb_not61 _ _ _ S3)).
      * unfold sval in V0, V1, V2, V3 |- *. now rewrite V0, V1, V2, V3, R0, R1, R2, I2.
      * unfold sval in V0 |- *. now rewrite V0.
      * unfold sval in V1 |- *. now rewrite V1.
      * unfold sval in V2 |- *. now rewrite V2.
      * unfold sval in V3 |- *. now rewrite V3.
    + repeat (apply bytes_okb_push; [assumption|]). exact I3.
    + destruct strict; [reflexivity|]. unfold b64_filter in *. cbn [filter].
      unfold is_space in *. rewrite W0, W1, W2, W3. cbn [negb]. now rewrite I4.
Qed.

Theorem base64_roundtrip url pad req strict d : bytes_okb d = true ->
  (req = true -> pad = true \/ (length d mod 3 = 0)%nat) ->
  base64_decode url req strict (base64_encode url pad d) = Some d.
Proof.
  intros Hok Hreq.
  replace (base64_encode url pad d) with (b64_encode_loop (b64_alphabet url) pad d) by (destruct d; reflexivity).
  destruct (encode_loop_accepted url pad req strict d Hok Hreq) as (H1 & H2 & H3 & H4).
  rewrite (base64_decode_eq url req strict _ H3), H4, H1, H2. reflexivity.
Qed.
