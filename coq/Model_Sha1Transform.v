(* Model_Sha1Transform: SHA1::transform as the code computes it (src/sha1.cpp:26-34, 129-228): the five working
   variables keep their names while the unrolled macro calls rotate their ROLES ((a,b,c,d,e), (e,a,b,c,d), ...),
   the message schedule lives in the 16-word block itself (SHA1_BLK overwrites block[i&15]), and the round
   functions are the macros' expressions ((w&(x^y))^y, w^x^y, ((w|x)&y)|(w&x)), not the FIPS ones.
   Proofs_Sha1Transform shows this is the FIPS 180-4 compression function (Spec_SHA.sha1_compress). *)
From HV Require Import Base_Bytes Spec_SHA.
Local Open Scope N_scope.

Definition rol32 (bits x : N) : N := rotl 32 bits x.                      (* SHA1_ROL on a uint32_t *)
Definition upd (l : list N) (i : nat) (v : N) : list N := firstn i l ++ v :: skipn (S i) l.   (* l[i] = v *)

(* SHA1_BLK(i): block[i&15] = ROL(block[(i+13)&15] ^ block[(i+8)&15] ^ block[(i+2)&15] ^ block[i&15], 1) *)
Definition sha1_blk (block : list N) (i : nat) : N :=
  rol32 1 (N.lxor (N.lxor (N.lxor (nth ((i + 13) mod 16) block 0) (nth ((i + 8) mod 16) block 0))
                          (nth ((i + 2) mod 16) block 0)) (nth (i mod 16) block 0)).

Definition f_r01 (w x y : N) : N := N.lxor (N.land w (N.lxor x y)) y.          (* R0, R1 *)
Definition f_r24 (w x y : N) : N := N.lxor (N.lxor w x) y.                       (* R2, R4 *)
Definition f_r3  (w x y : N) : N := N.lor (N.land (N.lor w x) y) (N.land w x).   (* R3 *)

(* which of a,b,c,d,e (positions 0..4) plays v,w,x,y,z in the i-th macro call *)
Definition roles (i : nat) : nat * nat * nat * nat * nat :=
  match (i mod 5)%nat with
  | 0%nat => (0, 1, 2, 3, 4) | 1%nat => (4, 0, 1, 2, 3) | 2%nat => (3, 4, 0, 1, 2)
  | 3%nat => (2, 3, 4, 0, 1) | _ => (1, 2, 3, 4, 0)
  end%nat.

(* SHA1_R0..R4(v,w,x,y,z,i):  z += f(w,x,y) + W + K + ROL(v,5);  w = ROL(w,30);   state = (a..e, block) *)
Definition sha1_code_round (st : list N * list N) (i : nat) : list N * list N :=
  let '(r, block) := st in
  let '(pv, pw, px, py, pz) := roles i in
  let v := nth pv r 0 in let w := nth pw r 0 in let x := nth px r 0 in let y := nth py r 0 in let z := nth pz r 0 in
  let '(wi, block') :=
    if (i <? 16)%nat then (nth i block 0, block)
    else (let n := sha1_blk block i in (n, upd block (i mod 16) n)) in
  let f := if (i <? 20)%nat then f_r01 w x y else if (i <? 40)%nat then f_r24 w x y
           else if (i <? 60)%nat then f_r3 w x y else f_r24 w x y in
  let k := if (i <? 20)%nat then 0x5a827999 else if (i <? 40)%nat then 0x6ed9eba1
           else if (i <? 60)%nat then 0x8f1bbcdc else 0xca62c1d6 in
  let z' := wadd 32 z (wadd 32 (wadd 32 (wadd 32 f wi) k) (rol32 5 v)) in
  (upd (upd r pz z') pw (rol32 30 w), block').

(* transform(block): 80 macro calls, then m_h[k] += a..e *)
Definition sha1_transform_code (H : list N) (block16 : list N) : list N :=
  let r := fst (fold_left sha1_code_round (seq 0 80) (H, block16)) in
  map (fun p => wadd 32 (fst p) (snd p)) (combine H r).

(* buffer_to_block (big-endian words) followed by transform *)
Definition sha1_compress_code (H : list N) (blk : list N) : list N := sha1_transform_code H (block_words 4 blk).

Definition word_ok (x : N) : Prop := x < 2 ^ 32.
Definition H_ok (H : list N) : Prop := length H = 5%nat /\ Forall word_ok H.
