(* C20 - a failed allocation surfaces as bad_alloc, nothing corrupted. PARTIAL: proved is what the secure_buffer and secret_string
   models leave behind when an operation's allocation fails; that every failure of every throwing API surfaces as std::bad_alloc,
   that everything allocated is released (RAII unwinding in the C++ runtime) and that the library stays usable is observed by failing
   allocation k = 0..N-1 of each call on the real build. *)
From HV Require Import Base_Bytes Base_Result Spec_SHA Spec_HMAC Model_SecureBuffer Proofs_SecureBuffer Model_SecretString Proofs_SecretString Model_Oom Proofs_Oom Properties_C18.
Local Open Scope N_scope.

(* secure_buffer: for EVERY state satisfying the C16 invariant and every operation, after its allocation failed the buffer assigned to
   holds zeros of its old size (copy assignment / assign wipe first) or nothing changed; the other buffer is untouched; the invariant holds *)
Theorem C20_secure_buffer : forall s o, state_inv s ->
  state_inv (step_oom s o) /\
  match op_target o with
  | Some x => contents (get (step_oom s o) x) = repeat 0 (length (contents (get s x))) /\ get (step_oom s o) (other x) = get s (other x)
  | None => step_oom s o = s
  end.
Proof. exact sb_oom_state. Qed.
Print Assumptions C20_secure_buffer.

(* secret_string::set (since ed8d364): a failure at ANY of its allocations leaves the object revealing exactly its previous bytes *)
Theorem C20_secret_set : forall pk s, ss_reveal pk (ss_set_oom s) = ss_reveal pk s.
Proof. exact ss_set_oom_recall. Qed.
Print Assumptions C20_secret_set.

(* rotate_nonce interrupted inside its loop: nonce and tag are the old ones, so the object reports an integrity error -
   under the explicit premise that the HMAC of the half-rotated ciphertext does not collide with the old tag - and never reveals bytes *)
Theorem C20_secret_rotate_interrupted : forall pk s n2 j, pk_ok pk -> stored_ok (ss_rotate_partial pk n2 j s) ->
  ss_ct (ss_rotate_partial pk n2 j s) <> [] ->
  HMAC_spec SHA256 pk (ss_nonce s ++ ss_ct (ss_rotate_partial pk n2 j s)) <> ss_tag s ->
  ss_reveal pk (ss_rotate_partial pk n2 j s) = Throw RuntimeError.
Proof.
  intros pk s n2 j Hpk (Hn & Ht & Hl) Hne Hcol.
  unfold ss_rotate_partial in *. cbn [ss_ct ss_nonce ss_tag] in *.
  apply (C18_ct_nonce_tamper pk Hpk); assumption.
Qed.
Print Assumptions C20_secret_rotate_interrupted.
