(* C13 - Base64: "For every byte string, alphabet and padding choice, decoding the encoder's output returns the
   original bytes in strict and in lenient mode (unpadded output when padding is not required), and the encoder's
   output is the RFC 4648 encoding. The decoder accepts exactly: alphabet characters, with '=' only as the final one
   or two characters of a complete last quartet, total length a multiple of 4 when padding is required and not 1 mod 4
   otherwise; lenient mode additionally skips space/CR/LF/TAB and takes '+' '/' as aliases under the URL alphabet,
   strict mode rejects both - and it decodes accepted text to the RFC 4648 bytes."
   url = Base64Alphabet::Url; pad / req / strict are the C++ flags pad, require_padding, strict. All statements hold
   for inputs of every length. *)
From HV Require Import Base_Bytes Spec_Base64 Model_Base64 Proofs_Base64.
Local Open Scope N_scope.

(* the encoder's output is the RFC 4648 section 4 / 5 encoding (bit-level definition), with or without '=' *)
Theorem C13_encode : forall (url pad : bool) (d : list N), bytes_okb d = true ->
  base64_encode url pad d = b64_spec_encode url pad d.
Proof. exact base64_encode_spec. Qed.
Print Assumptions C13_encode.

(* every output character is in the chosen alphabet or is '=' *)
Theorem C13_alphabet : forall (url pad : bool) (d : list N), bytes_okb d = true ->
  Forall (fun c => In c (b64_spec_alphabet url) \/ c = 61) (base64_encode url pad d).
Proof. exact base64_encode_alphabet. Qed.
Print Assumptions C13_alphabet.

(* the decoder succeeds exactly on the strings whose filtered form is in the documented language *)
Theorem C13_language : forall (url req strict : bool) (s : list N), bytes_okb s = true ->
  ((exists d, base64_decode url req strict s = Some d) <-> b64_lang url req strict (b64_filter strict s)).
Proof. exact base64_decode_language. Qed.
Print Assumptions C13_language.

(* the language as a decision procedure (the form the test driver runs) *)
Theorem C13_langb : forall (url req strict : bool) (s : list N),
  b64_langb url req strict s = true <-> b64_lang url req strict s.
Proof. exact b64_langb_iff. Qed.
Print Assumptions C13_langb.

(* whatever it accepts, it decodes to the RFC 4648 bytes *)
Theorem C13_value : forall (url req strict : bool) (s d : list N), bytes_okb s = true ->
  base64_decode url req strict s = Some d -> d = b64_spec_value url strict (b64_filter strict s).
Proof. exact base64_decode_value. Qed.
Print Assumptions C13_value.

(* decode (encode d) = d, strict and lenient, both alphabets; unpadded output needs require_padding = false
   unless the length is a multiple of 3 (then there is nothing to pad) *)
Theorem C13_roundtrip : forall (url pad req strict : bool) (d : list N), bytes_okb d = true ->
  (req = true -> pad = true \/ (length d mod 3 = 0)%nat) ->
  base64_decode url req strict (base64_encode url pad d) = Some d.
Proof. exact base64_roundtrip. Qed.
Print Assumptions C13_roundtrip.

(* the decoder's output is a byte string, for any input at all *)
Theorem C13_decoded_ok : forall (url req strict : bool) (s d : list N),
  base64_decode url req strict s = Some d -> bytes_okb d = true.
Proof. exact base64_decode_ok. Qed.
Print Assumptions C13_decoded_ok.

(* the model's character-by-character output has exactly the length the C++ resizes its string to (out_len) *)
Theorem C13_encode_length : forall (url pad : bool) (d : list N),
  length (base64_encode url pad d) = b64_out_len (length d) pad.
Proof. exact b64_encode_length. Qed.
Print Assumptions C13_encode_length.

(* ---------- instances ---------- *)
(* RFC 4648 section 10: BASE64("foobar") = "Zm9vYmFy", BASE64("f") = "Zg=="; bytes >= 0x80 under the URL alphabet, unpadded *)
Example C13_encode_ex :
  bytes_okb [102; 111; 111; 98; 97; 114] = true /\
  base64_encode false true [102; 111; 111; 98; 97; 114] = [90; 109; 57; 118; 89; 109; 70; 121] /\
  b64_spec_encode false true [102] = [90; 103; 61; 61] /\
  base64_encode true false [251; 255; 254; 0; 1] = [45; 95; 95; 45; 65; 65; 69].
Proof. vm_compute. repeat split. Qed.
Example C13_alphabet_ex :
  base64_encode false true [251; 255] = [43; 47; 56; 61] /\ In 43 (b64_spec_alphabet false) /\ ~ In 43 (b64_spec_alphabet true).
Proof.
  split; [vm_compute; reflexivity|]. split; [vm_compute; tauto|].
  intros H. vm_compute in H. repeat (destruct H as [H|H]; [discriminate H|]). exact H.
Qed.
(* "Zg==" is accepted; "Zg=" is not; "Zg" only when padding is not required; "Z g\n" only in lenient mode;
   "+/-_" under the URL alphabet only in lenient mode; "Zg==Zg==" and "Z===" never *)
Example C13_language_ex :
  b64_langb false true true [90; 103; 61; 61] = true /\ base64_decode false true true [90; 103; 61; 61] = Some [102] /\
  b64_langb false true true [90; 103; 61] = false /\ base64_decode false true true [90; 103; 61] = None /\
  base64_decode false false true [90; 103] = Some [102] /\ base64_decode false true true [90; 103] = None /\
  base64_decode false false false [90; 32; 103; 10] = Some [102] /\ base64_decode false false true [90; 32; 103; 10] = None /\
  base64_decode true false false [43; 47; 45; 95] = Some [251; 255; 191] /\ base64_decode true false true [43; 47; 45; 95] = None /\
  b64_langb false false true [90; 103; 61; 61; 90; 103; 61; 61] = false /\
  base64_decode false false true [90; 103; 61; 61; 90; 103; 61; 61] = None /\
  base64_decode false false true [90; 61; 61; 61] = None /\ base64_decode false false false [200; 103; 61; 61] = None.
Proof. vm_compute. repeat split. Qed.
Example C13_value_ex :
  base64_decode false false false [90; 109; 32; 57; 118; 13; 10] = Some [102; 111; 111] /\
  b64_spec_value false false (b64_filter false [90; 109; 32; 57; 118; 13; 10]) = [102; 111; 111] /\
  b64_spec_value true false [43; 47; 45; 95] = [251; 255; 191].
Proof. vm_compute. repeat split. Qed.
(* unpadded output decodes with require_padding when the length is a multiple of 3, and does not otherwise *)
Example C13_roundtrip_ex :
  base64_decode true true true (base64_encode true false [1; 2; 255]) = Some [1; 2; 255] /\
  base64_decode true false false (base64_encode true false [1; 2; 255; 4]) = Some [1; 2; 255; 4] /\
  base64_decode true true true (base64_encode true false [1; 2; 255; 4]) = None.
Proof. vm_compute. repeat split. Qed.
Example C13_decoded_ok_ex :
  base64_decode false false true [47; 47; 47; 47; 47; 47] = Some [255; 255; 255; 255] /\
  base64_decode false false true [300; 65; 65; 65] = None.
Proof. vm_compute. repeat split. Qed.
Example C13_encode_length_ex : b64_out_len 5 true = 8%nat /\ b64_out_len 5 false = 7%nat /\ b64_out_len 6 true = 8%nat.
Proof. vm_compute. repeat split. Qed.
