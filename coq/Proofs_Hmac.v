From HV Require Import Base_Bytes Base_BytesLemmas Spec_SHA Spec_HMAC Model_Sha2Ctx Model_Sha1Ctx Model_Hash
  Proofs_Hash Model_Hmac.
Local Open Scope N_scope.

Lemma write_at_zero_pad n l : (length l <= n)%nat -> write_at (repeat 0 n) 0 l = pad_to n l.
Proof.
  intros H. rewrite write_at_repeat by lia. cbn [repeat app]. unfold pad_to.
  rewrite firstn_all2 by lia. f_equal. f_equal. lia.
Qed.
Lemma xor_const_map c l : map (fun b => N.lxor b c) l = xor_const c l. Proof. reflexivity. Qed.
Lemma block_size_bound t : (block_size t <= 128)%nat. Proof. destruct t; cbn; lia. Qed.
Lemma digest_le_block t : (digest_size t <= block_size t)%nat. Proof. destruct t; cbn; lia. Qed.

Lemma hmac_key_block_spec t K : N.of_nat (length K) < 2 ^ 61 -> hmac_key_block t K = hmac_K0 t K.
Proof.
  intros HK. unfold hmac_key_block, hmac_K0, get_hash.
  destruct (Nat.ltb_spec (block_size t) (length K)) as [H|H].
  - rewrite hash_oneshot_correct by exact HK.
    apply write_at_zero_pad. rewrite SHA_spec_length. apply digest_le_block.
  - now apply write_at_zero_pad.
Qed.
Lemma pad_to_length n l : length (pad_to n l) = n.
Proof. unfold pad_to. rewrite app_length, firstn_length, repeat_length. lia. Qed.
Lemma hmac_K0_length t K : length (hmac_K0 t K) = block_size t.
Proof. apply pad_to_length. Qed.
Lemma xor_const_length c l : length (xor_const c l) = length l.
Proof. apply map_length. Qed.

(* C02: the one-shot model is RFC 2104 over the FIPS hashes, for every key and message *)
Theorem get_hmac_raw_spec t K m : N.of_nat (length K) < 2 ^ 61 -> N.of_nat (length m) < 2 ^ 61 - 128 ->
  get_hmac_raw t K m = HMAC_spec t K m.
Proof.
  intros HK Hm. unfold get_hmac_raw, HMAC_spec, get_hash.
  rewrite hmac_key_block_spec by exact HK. rewrite !xor_const_map.
  pose proof (block_size_bound t) as Hb.
  rewrite (hash_oneshot_correct t (xor_const 54 (hmac_K0 t K) ++ m)).
  2:{ rewrite app_length, xor_const_length, hmac_K0_length. lia. }
  rewrite hash_oneshot_correct; [reflexivity|].
  rewrite app_length, xor_const_length, hmac_K0_length, SHA_spec_length.
  pose proof (digest_le_block t). change (2 ^ 61) with 2305843009213693952. lia.
Qed.

(* to_hex is the plain hex rendering (lower / upper case) of every byte string *)
Lemma to_hex_byte (up : bool) b : b < 256 ->
  [nth ((if up then 16%nat else 0%nat) + N.to_nat (N.shiftr b 4))%nat hex_lut 0;
   nth ((if up then 16%nat else 0%nat) + N.to_nat (N.land b 15))%nat hex_lut 0] =
  [hex_digit up (b / 16); hex_digit up (b mod 16)].
Proof.
  intros Hb.
  assert (Hall : forallb (fun b =>
     (nth (16 + N.to_nat (N.shiftr b 4)) hex_lut 0 =? hex_digit true (b / 16)) &&
     (nth (16 + N.to_nat (N.land b 15)) hex_lut 0 =? hex_digit true (b mod 16)) &&
     (nth (0 + N.to_nat (N.shiftr b 4)) hex_lut 0 =? hex_digit false (b / 16)) &&
     (nth (0 + N.to_nat (N.land b 15)) hex_lut 0 =? hex_digit false (b mod 16)))
     (map N.of_nat (seq 0 256)) = true) by (vm_compute; reflexivity).
  rewrite forallb_forall in Hall. specialize (Hall b).
  assert (Hin : In b (map N.of_nat (seq 0 256))).
  { apply in_map_iff. exists (N.to_nat b). split; [apply N2Nat.id|]. apply in_seq. lia. }
  specialize (Hall Hin). rewrite !andb_true_iff, !N.eqb_eq in Hall.
  destruct Hall as [[[H1 H2] H3] H4]. destruct up; congruence.
Qed.
Theorem to_hex_spec up l : bytes_okb l = true -> to_hex up l = hex_of_bytes up l.
Proof.
  unfold to_hex, hex_of_bytes. induction l as [|b l IH]; intros Hok; [reflexivity|].
  cbn [bytes_okb forallb] in Hok. apply andb_true_iff in Hok. destruct Hok as [Hb Hl].
  cbn [flat_map]. rewrite IH by exact Hl. f_equal.
  apply to_hex_byte. now apply N.ltb_lt.
Qed.

Theorem get_hmac_str_spec t K m is_hex is_upper :
  N.of_nat (length K) < 2 ^ 61 -> N.of_nat (length m) < 2 ^ 61 - 128 ->
  get_hmac_str t K m is_hex is_upper = if is_hex then hex_of_bytes is_upper (HMAC_spec t K m) else HMAC_spec t K m.
Proof.
  intros HK Hm. unfold get_hmac_str. rewrite get_hmac_raw_spec by assumption.
  destruct is_hex; [|reflexivity]. apply to_hex_spec. apply SHA_spec_ok.
Qed.

(* ---------- streaming context ---------- *)
Lemma hc_get_put h c : htype c = hc_type h -> hc_get (hc_put h c) = c.
Proof. destruct c; cbn [htype]; intros E; unfold hc_get, hc_put; cbn [hc_type]; rewrite <- E; reflexivity. Qed.
Lemma hc_type_put h c : hc_type (hc_put h c) = hc_type h. Proof. now destruct c. Qed.
Lemma hc_okeypad_put h c : hc_okeypad (hc_put h c) = hc_okeypad h. Proof. now destruct c. Qed.
Lemma hc_bs_put h c : hc_block_size (hc_put h c) = hc_block_size h. Proof. now destruct c. Qed.
Lemma hc_ds_put h c : hc_digest_size (hc_put h c) = hc_digest_size h. Proof. now destruct c. Qed.
Lemma htype_hc_get h : htype (hc_get h) = hc_type h. Proof. unfold hc_get. now destruct (hc_type h). Qed.
Lemma hshape_hc_get h : hmac_shape h -> hshape (hc_get h).
Proof. intros [H1 H2]. unfold hc_get. destruct (hc_type h); cbn; auto. Qed.

(* state of the context after init and a list of updates, in terms of the embedded hash context *)
Lemma hmac_updates_get cs : forall h, 
  hc_get (fold_left hmac_update cs h) = fold_left hupdate cs (hc_get h) /\
  hc_type (fold_left hmac_update cs h) = hc_type h /\
  hc_okeypad (fold_left hmac_update cs h) = hc_okeypad h /\
  hc_block_size (fold_left hmac_update cs h) = hc_block_size h /\
  hc_digest_size (fold_left hmac_update cs h) = hc_digest_size h.
Proof.
  induction cs as [|m cs IH]; intros h; cbn [fold_left]; [auto|].
  destruct (IH (hmac_update h m)) as (E1 & E2 & E3 & E4 & E5).
  unfold hmac_update in *. rewrite E1, E2, E3, E4, E5.
  rewrite hc_get_put by (now rewrite htype_hupdate, htype_hc_get).
  now rewrite hc_type_put, hc_okeypad_put, hc_bs_put, hc_ds_put.
Qed.

Theorem hmac_stream_spec h K cs : hmac_shape h ->
  N.of_nat (length K) < 2 ^ 61 -> N.of_nat (length (concat cs)) < 2 ^ 61 - 128 ->
  snd (hmac_final (fold_left hmac_update cs (hmac_init h K))) = HMAC_spec (hc_type h) K (concat cs).
Proof.
  intros Hs HK Hm. set (t := hc_type h).
  pose proof (block_size_bound t) as Hbs. pose proof (digest_le_block t) as Hds.
  unfold hmac_final. cbn [snd].
  destruct (hmac_updates_get cs (hmac_init h K)) as (E1 & E2 & E3 & E4 & E5).
  rewrite E1, E3, E4, E5.
  unfold hmac_init. fold t.
  set (k := hmac_key_block t K).
  set (h1 := {| hc_type := t; hc_block_size := block_size t; hc_digest_size := digest_size t;
                hc_okeypad := map (fun b => N.lxor b 92) k; hc_sha1 := hc_sha1 h; hc_sha256 := hc_sha256 h; hc_sha512 := hc_sha512 h |}).
  assert (Hs1 : hmac_shape h1) by exact Hs.
  assert (Ht1 : hc_type h1 = t) by reflexivity.
  rewrite hc_get_put by (now rewrite htype_hupdate, htype_hinit, htype_hc_get).
  rewrite hc_okeypad_put, hc_bs_put, hc_ds_put. cbn [hc_okeypad hc_block_size hc_digest_size h1].
  (* inner hash *)
  change (fold_left hupdate cs (hupdate (hinit (hc_get h1)) (map (fun b => N.lxor b 54) k)))
    with (fold_left hupdate (map (fun b => N.lxor b 54) k :: cs) (hinit (hc_get h1))).
  assert (Hk : k = hmac_K0 t K) by (apply hmac_key_block_spec; exact HK).
  assert (Hklen : length k = block_size t) by (rewrite Hk; apply hmac_K0_length).
  pose proof (hash_chunked (hc_get h1) (map (fun b => N.lxor b 54) k :: cs) (hshape_hc_get _ Hs1)) as Hin.
  cbn [concat] in Hin. rewrite htype_hc_get, Ht1 in Hin.
  rewrite Hin by (rewrite app_length, map_length, Hklen; lia).
  (* outer hash: a re-initialised, previously finished context *)
  set (c1 := fst (hfinish (fold_left hupdate (map (fun b => N.lxor b 54) k :: cs) (hinit (hc_get h1))))).
  assert (Htc1 : htype c1 = t).
  { unfold c1. rewrite htype_hfinish, htype_updates, htype_hinit, htype_hc_get. exact Ht1. }
  assert (Hsc1 : hshape c1).
  { unfold c1. apply hshape_cycle. apply hshape_hc_get. exact Hs1. }
  rewrite (firstn_all2 (n := block_size t)) by (rewrite map_length, Hklen; lia).
  rewrite (firstn_all2 (n := digest_size t)) by (rewrite SHA_spec_length; lia).
  set (okp := map (fun b => N.lxor b 92) k). set (inner := SHA_spec t (map (fun b => N.lxor b 54) k ++ concat cs)).
  pose proof (hash_chunked c1 [okp; inner] Hsc1) as Hout. rewrite Htc1 in Hout. cbn [fold_left] in Hout.
  assert (Hlen : length (concat [okp; inner]) = (block_size t + digest_size t)%nat).
  { cbn [concat]. rewrite !app_length. unfold okp, inner. rewrite map_length, Hklen, SHA_spec_length. cbn [length]. lia. }
  rewrite Hout.
  - cbn [concat]. rewrite app_nil_r.
    unfold HMAC_spec, okp, inner. rewrite Hk, !xor_const_map. reflexivity.
  - rewrite Hlen. change (2 ^ 61) with 2305843009213693952. lia.
Qed.
