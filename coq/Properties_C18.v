(* C18 - secret_string: "After any sequence of set, nonce-rotation, move and clear operations a secret string reveals exactly
   the bytes most recently stored (nothing after clear or when moved from), while its stored representation never contains the
   plaintext. Any modification of the stored ciphertext, nonce or tag is reported as an integrity error instead of revealing
   altered bytes, and the temporary plaintext exposed to the callback is wiped when the callback returns or throws."
   Model: Model_SecretString.v (include/hmac_cpp/secret_string.hpp; stored state = ciphertext, nonce, tag; the process key and
   the nonces drawn from random_bytes are parameters), proofs: Proofs_SecretString.v.
   All statements are for every history / every plaintext; the only length hypothesis is the one under which the C++'s 32-bit
   block counter does not wrap (plaintext shorter than 2^32 * 32 bytes).
     KS pk nonce n     : first n bytes of B_0 ++ B_1 ++ ..., B_i = HMAC-SHA256(HMAC-SHA256(pk, nonce), nonce || be32(i))
                         (HMAC_spec = RFC 2104 over FIPS 180-4, Spec_HMAC.v)
     ss_run / ss_plain : the object after a history / the plaintext most recently stored by that history
     ops_ok pk ops     : |pk| = 32 and its bytes < 256; every nonce has 12 bytes; every plaintext has bytes < 256 and is shorter
                         than 2^32 * 32
     stored_ok s       : |nonce| = 12, |tag| = 32 (they are std::array<uint8_t,12/32>), |ct| < 2^32 * 32 *)
From HV Require Import Base_Bytes Base_Result Spec_SHA Spec_HMAC Model_SecretString Proofs_SecretString.
Local Open Scope N_scope.

(* exact recall over any history of set / rotate / clear / move-in / move-out *)
Theorem C18_recall : forall pk ops, ops_ok pk ops ->
  ss_reveal pk (ss_run pk ss_empty ops) = Ok (ss_plain ops).
Proof. exact recall. Qed.
Print Assumptions C18_recall.

(* the state reached by a history is the empty object, or exactly what set(last plaintext) builds under one of the nonces:
   in particular rotate_nonce() of a non-empty string = set() of the same plaintext under the fresh nonce *)
Theorem C18_reachable : forall pk ops, ops_ok pk ops ->
  (ss_run pk ss_empty ops = ss_empty /\ ss_plain ops = []) \/
  (exists nonce, length nonce = 12%nat /\ ss_run pk ss_empty ops = ss_set pk nonce (ss_plain ops)).
Proof. exact run_state. Qed.
Print Assumptions C18_reachable.

(* at rest: the ciphertext is plaintext xor keystream, the tag is HMAC(pk, nonce || ct) *)
Theorem C18_at_rest : forall pk nonce p, pk_ok pk -> length nonce = 12%nat -> plain_okb p = true ->
  let s := ss_set pk nonce p in
  ss_ct s = xor_bytes p (KS pk nonce (length p)) /\
  ss_tag s = HMAC_spec SHA256 pk (nonce ++ ss_ct s) /\
  length (ss_ct s) = length p.
Proof. exact at_rest. Qed.
Print Assumptions C18_at_rest.

(* the same shape after a nonce rotation (which never forms the plaintext: ct ^= old block ^ new block).
   Stated for p <> []: on an empty string rotate_nonce() returns early and keeps the old nonce and tag
   (C18_rotate_empty); with p = [] the tag equation for the NEW nonce is false (C18_at_rest_rotate_empty_refuted). *)
Theorem C18_at_rest_rotate : forall pk n1 n2 p, pk_ok pk -> length n1 = 12%nat -> length n2 = 12%nat ->
  plain_okb p = true -> p <> [] ->
  let s := ss_rotate pk n2 (ss_set pk n1 p) in
  ss_ct s = xor_bytes p (KS pk n2 (length p)) /\
  ss_nonce s = n2 /\
  ss_tag s = HMAC_spec SHA256 pk (n2 ++ ss_ct s) /\
  length (ss_ct s) = length p.
Proof. exact at_rest_rotate. Qed.
Print Assumptions C18_at_rest_rotate.

Theorem C18_rotate_empty : forall pk n1 n2, ss_rotate pk n2 (ss_set pk n1 []) = ss_set pk n1 [].
Proof. exact rotate_set_nil. Qed.
Print Assumptions C18_rotate_empty.

Theorem C18_at_rest_rotate_empty_refuted : exists pk n1 n2, pk_ok pk /\ length n1 = 12%nat /\ length n2 = 12%nat /\
  let s := ss_rotate pk n2 (ss_set pk n1 []) in ss_tag s <> HMAC_spec SHA256 pk (n2 ++ ss_ct s).
Proof. exact at_rest_rotate_nil_refuted. Qed.
Print Assumptions C18_at_rest_rotate_empty_refuted.

(* any change of the stored tag of an object that verifies is reported (unconditional: no cryptographic premise) *)
Theorem C18_tag_tamper : forall pk, pk_ok pk -> forall s d tag',
  stored_ok s -> ss_ct s <> [] -> ss_reveal pk s = Ok d ->
  length tag' = 32%nat -> tag' <> ss_tag s ->
  ss_reveal pk {| ss_ct := ss_ct s; ss_nonce := ss_nonce s; ss_tag := tag' |} = Throw RuntimeError.
Proof. exact tag_tamper. Qed.
Print Assumptions C18_tag_tamper.

(* altered ciphertext / nonce: reported unless the stored tag happens to be the HMAC of the altered pair
   (the explicit non-collision premise - forging that is breaking HMAC-SHA256 under the process key) *)
Theorem C18_ct_nonce_tamper : forall pk, pk_ok pk -> forall ct' nonce' tag,
  ct' <> [] -> length tag = 32%nat -> length nonce' = 12%nat -> N.of_nat (length ct') < 2 ^ 32 * 32 ->
  HMAC_spec SHA256 pk (nonce' ++ ct') <> tag ->
  ss_reveal pk {| ss_ct := ct'; ss_nonce := nonce'; ss_tag := tag |} = Throw RuntimeError.
Proof. exact ct_nonce_tamper. Qed.
Print Assumptions C18_ct_nonce_tamper.

(* altered bytes are never handed to the callback: every Ok result on a non-empty ciphertext passed the tag test *)
Theorem C18_reveal_guarded : forall pk, pk_ok pk -> forall s d,
  stored_ok s -> ss_ct s <> [] -> ss_reveal pk s = Ok d ->
  ss_tag s = HMAC_spec SHA256 pk (ss_nonce s ++ ss_ct s).
Proof. exact reveal_guarded. Qed.
Print Assumptions C18_reveal_guarded.

(* the temporary plaintext is all-zero when with_plaintext exits, whether the callback returned or threw (repaired code) *)
Theorem C18_tmp_wiped : forall cb_throws plain, wp_released_tmp true cb_throws plain = map (fun _ => 0) plain.
Proof. exact tmp_wiped. Qed.
Print Assumptions C18_tmp_wiped.

(* finding F5: the pinned with_plaintext leaves the plaintext in the released temporary when the callback throws *)
Theorem C18_tmp_pinned_refuted : exists plain, wp_released_tmp false true plain <> map (fun _ => 0) plain.
Proof. exact tmp_pinned_refuted. Qed.
Print Assumptions C18_tmp_pinned_refuted.

(* ---------- executable instances (model and spec keystream evaluated independently of the proofs) ---------- *)
Definition ex_pk : list N := map N.of_nat (seq 100 32).
Definition ex_nonce (k : nat) : list N := map N.of_nat (seq (20 * k) 12).
Definition ex_msg (n : nat) : list N := map (fun i => N.of_nat ((i * 7 + 3) mod 256)) (seq 0 n).
(* set of 0, 31, 32, 33 and 70 bytes, rotations (also of an empty and of a cleared object), clear, move-in, move-out *)
Definition ex_ops : list sop :=
  [SSet (ex_nonce 1) (ex_msg 0); SRotate (ex_nonce 2); SSet (ex_nonce 3) (ex_msg 31); SRotate (ex_nonce 4);
   SSet (ex_nonce 5) (ex_msg 32); SRotate (ex_nonce 6); SMoveIn (ex_nonce 7) (ex_msg 33); SClear; SRotate (ex_nonce 8);
   SSet (ex_nonce 9) (ex_msg 70); SRotate (ex_nonce 10); SRotate (ex_nonce 11); SMoveOut; SMoveIn (ex_nonce 12) (ex_msg 33);
   SRotate (ex_nonce 2)].

Example C18_ex_ops_ok : ops_ok ex_pk ex_ops.
Proof. split; [split|]; vm_compute; reflexivity. Qed.
(* what the object reveals after each of the 15 operations, computed by running the model step by step *)
Fixpoint ex_trace (pk : list N) (s : sstate) (ops : list sop) : list (res (list N)) :=
  match ops with [] => [] | o :: r => let s' := ss_step pk s o in ss_reveal pk s' :: ex_trace pk s' r end.
Example C18_ex_recall :
  ex_trace ex_pk ss_empty ex_ops =
  map (fun n => Ok (ex_msg n)) [0; 0; 31; 31; 32; 32; 33; 0; 0; 70; 70; 70; 0; 33; 33]%nat /\
  ss_reveal ex_pk (ss_run ex_pk ss_empty ex_ops) = Ok (ex_msg 33).
Proof. vm_compute. split; reflexivity. Qed.
Example C18_ex_plain : map (fun k => ss_plain (firstn k ex_ops)) (seq 1 15) =
  map ex_msg [0; 0; 31; 31; 32; 32; 33; 0; 0; 70; 70; 70; 0; 33; 33]%nat.
Proof. vm_compute. reflexivity. Qed.

(* at rest, 70 bytes (three keystream blocks, the last one partial): model ciphertext = plaintext xor spec keystream,
   model tag = spec HMAC; and no plaintext byte survives in place *)
Example C18_ex_at_rest :
  let s := ss_set ex_pk (ex_nonce 9) (ex_msg 70) in
  plain_okb (ex_msg 70) = true /\
  ss_ct s = xor_bytes (ex_msg 70) (KS ex_pk (ex_nonce 9) 70) /\
  ss_tag s = HMAC_spec SHA256 ex_pk (ex_nonce 9 ++ ss_ct s) /\
  firstn 8 (ss_ct s) = [236; 168; 66; 36; 97; 107; 138; 118] /\ firstn 8 (ex_msg 70) = [3; 10; 17; 24; 31; 38; 45; 52].
Proof. vm_compute. repeat split; reflexivity. Qed.
Example C18_ex_at_rest_rotate :
  let s := ss_rotate ex_pk (ex_nonce 10) (ss_set ex_pk (ex_nonce 9) (ex_msg 70)) in
  ex_msg 70 <> [] /\
  ss_ct s = xor_bytes (ex_msg 70) (KS ex_pk (ex_nonce 10) 70) /\ ss_nonce s = ex_nonce 10 /\
  ss_tag s = HMAC_spec SHA256 ex_pk (ex_nonce 10 ++ ss_ct s).
Proof. split; [discriminate|]. vm_compute. repeat split; reflexivity. Qed.

(* tampering with a stored 33-byte string: one bit of the tag, of the ciphertext, of the nonce *)
Definition ex_s : sstate := ss_set ex_pk (ex_nonce 7) (ex_msg 33).
Definition flip_first (l : list N) : list N := match l with [] => [] | b :: t => N.lxor b 1 :: t end.
Example C18_ex_stored : stored_ok ex_s /\ ss_ct ex_s <> [] /\ ss_reveal ex_pk ex_s = Ok (ex_msg 33) /\
  length (flip_first (ss_tag ex_s)) = 32%nat /\ nth 0 (flip_first (ss_tag ex_s)) 0 <> nth 0 (ss_tag ex_s) 0.
Proof.
  vm_compute. split; [repeat split|]. split; [discriminate|]. split; [reflexivity|]. split; [reflexivity|discriminate].
Qed.
Example C18_ex_tag_tamper :
  ss_reveal ex_pk {| ss_ct := ss_ct ex_s; ss_nonce := ss_nonce ex_s; ss_tag := flip_first (ss_tag ex_s) |} = Throw RuntimeError.
Proof. vm_compute. reflexivity. Qed.
Example C18_ex_ct_tamper :
  ss_reveal ex_pk {| ss_ct := flip_first (ss_ct ex_s); ss_nonce := ss_nonce ex_s; ss_tag := ss_tag ex_s |} = Throw RuntimeError /\
  ss_reveal ex_pk {| ss_ct := ss_ct ex_s ++ [0]; ss_nonce := ss_nonce ex_s; ss_tag := ss_tag ex_s |} = Throw RuntimeError /\
  ss_reveal ex_pk {| ss_ct := removelast (ss_ct ex_s); ss_nonce := ss_nonce ex_s; ss_tag := ss_tag ex_s |} = Throw RuntimeError.
Proof. vm_compute. repeat split; reflexivity. Qed.
Example C18_ex_nonce_tamper :
  ss_reveal ex_pk {| ss_ct := ss_ct ex_s; ss_nonce := flip_first (ss_nonce ex_s); ss_tag := ss_tag ex_s |} = Throw RuntimeError.
Proof. vm_compute. reflexivity. Qed.
(* an untouched object verifies (the guard is not vacuous) *)
Example C18_ex_guarded : ss_tag ex_s = HMAC_spec SHA256 ex_pk (ss_nonce ex_s ++ ss_ct ex_s).
Proof. vm_compute. reflexivity. Qed.

Example C18_ex_tmp : wp_released_tmp true true [1; 2; 3] = [0; 0; 0] /\ wp_released_tmp true false [1; 2; 3] = [0; 0; 0] /\
  wp_released_tmp false true [1; 2; 3] = [1; 2; 3].
Proof. vm_compute. repeat split; reflexivity. Qed.

(* ---------- interrupted nonce rotation (allocation failure inside the re-encryption loop) ---------- *)
From HV Require Import Model_Oom Proofs_SecretInterrupted.

(* fault sequences: the stored representation after a nonce rotation interrupted at any block boundary is still plaintext XOR keystream *)
Theorem C18_at_rest_interrupted : forall pk n1 n2 p j, pk_ok pk -> length n1 = 12%nat -> length n2 = 12%nat -> plain_okb p = true ->
  (j * 32 <= length p)%nat ->
  let s := ss_rotate_partial pk n2 j (ss_set pk n1 p) in
  ss_ct s = xor_bytes p (firstn (j * 32) (KS pk n2 (length p)) ++ skipn (j * 32) (KS pk n1 (length p))) /\
  ss_nonce s = n1 /\ ss_tag s = ss_tag (ss_set pk n1 p) /\ length (ss_ct s) = length p.
Proof. exact at_rest_interrupted. Qed.
Print Assumptions C18_at_rest_interrupted.

(* 70 bytes, interrupted after the first of three blocks: hypotheses hold; model = plaintext XOR mixed keystream; the first block is
   the one a completed rotation stores, the rest is the one set stored; the object is neither of the two, nor the plaintext *)
Example C18_ex_at_rest_interrupted :
  let p := ex_msg 70 in let n1 := ex_nonce 9 in let n2 := ex_nonce 10 in
  let s1 := ss_set ex_pk n1 p in let s2 := ss_set ex_pk n2 p in
  let s := ss_rotate_partial ex_pk n2 1 s1 in
  (pk_ok ex_pk /\ length n1 = 12%nat /\ length n2 = 12%nat /\ plain_okb p = true /\ (1 * 32 <= length p)%nat) /\
  ss_ct s = xor_bytes p (firstn (1 * 32) (KS ex_pk n2 (length p)) ++ skipn (1 * 32) (KS ex_pk n1 (length p))) /\
  ss_nonce s = n1 /\ ss_tag s = ss_tag s1 /\ length (ss_ct s) = 70%nat /\
  firstn 32 (ss_ct s) = firstn 32 (ss_ct s2) /\ skipn 32 (ss_ct s) = skipn 32 (ss_ct s1) /\
  nth 0 (ss_ct s) 0 <> nth 0 (ss_ct s1) 0 /\ nth 32 (ss_ct s) 0 <> nth 32 (ss_ct s2) 0 /\ nth 0 (ss_ct s) 0 <> nth 0 p 0.
Proof. vm_compute. split; [repeat split; try reflexivity; lia|repeat split; try reflexivity; discriminate]. Qed.
