(* Model_Base32: base32_encode, b32_build_reverse, is_space, base32_decode(string, vector) of src/encoding.cpp
   (lines 219-462) as total executable functions mirroring the control flow. Characters and bytes are N (< 256),
   the int8_t entries of the reverse table are Z (-1 = not in the alphabet, -2 = padding marker).
   Definitions only; lemmas live in Proofs_Base32.v. *)
From HV Require Import Base_Bytes.
Local Open Scope N_scope.

Definition is_nil {A : Type} (l : list A) : bool := match l with [] => true | _ => false end.

(* b32_alphabet(), lines 219-221: "ABCDEFGHIJKLMNOPQRSTUVWXYZ234567" *)
Definition b32_A : list N :=
  [65; 66; 67; 68; 69; 70; 71; 72; 73; 74; 75; 76; 77; 78; 79; 80; 81; 82; 83; 84; 85; 86; 87; 88; 89; 90;
   50; 51; 52; 53; 54; 55].
Definition A_at (i : N) : N := nth (N.to_nat i) b32_A 0.

(* ---------- base32_encode (lines 223-305) ---------- *)
(* the eight output expressions of the main loop, lines 256-263 (the same text is repeated in the tail, lines 276-299) *)
Definition enc_s0 (b0 : N) : N := A_at (N.land (N.shiftr b0 3) 0x1F).
Definition enc_s1 (b0 b1 : N) : N := A_at (N.lor (N.shiftl (N.land b0 0x07) 2) (N.land (N.shiftr b1 6) 0x03)).
Definition enc_s2 (b1 : N) : N := A_at (N.land (N.shiftr b1 1) 0x1F).
Definition enc_s3 (b1 b2 : N) : N := A_at (N.lor (N.shiftl (N.land b1 0x01) 4) (N.land (N.shiftr b2 4) 0x0F)).
Definition enc_s4 (b2 b3 : N) : N := A_at (N.lor (N.shiftl (N.land b2 0x0F) 1) (N.land (N.shiftr b3 7) 0x01)).
Definition enc_s5 (b3 : N) : N := A_at (N.land (N.shiftr b3 2) 0x1F).
Definition enc_s6 (b3 b4 : N) : N := A_at (N.lor (N.shiftl (N.land b3 0x03) 3) (N.land (N.shiftr b4 5) 0x07)).
Definition enc_s7 (b4 : N) : N := A_at (N.land b4 0x1F).
(* the last symbol of each tail: lines 277, 283, 290, 299 *)
Definition enc_t1 (b0 : N) : N := A_at (N.shiftl (N.land b0 0x07) 2).
Definition enc_t3 (b1 : N) : N := A_at (N.shiftl (N.land b1 0x01) 4).
Definition enc_t4 (b2 : N) : N := A_at (N.shiftl (N.land b2 0x0F) 1).
Definition enc_t6 (b3 : N) : N := A_at (N.shiftl (N.land b3 0x03) 3).

(* lines 266-302: rem = number of bytes left (< 5); b0..b3 zero-initialised then loaded by the switch (nth's default 0) *)
Definition b32_enc_tail (pad : bool) (data : list N) : list N :=
  let rem := length data in
  if (rem =? 0)%nat then [] else
  let b0 := nth 0 data 0 in
  let b1 := nth 1 data 0 in
  let b2 := nth 2 data 0 in
  let b3 := nth 3 data 0 in
  if (rem =? 1)%nat then
    [enc_s0 b0; enc_t1 b0] ++ (if pad then [61; 61; 61; 61; 61; 61] else [])
  else if (rem =? 2)%nat then
    [enc_s0 b0; enc_s1 b0 b1; enc_s2 b1; enc_t3 b1] ++ (if pad then [61; 61; 61; 61] else [])
  else if (rem =? 3)%nat then
    [enc_s0 b0; enc_s1 b0 b1; enc_s2 b1; enc_s3 b1 b2; enc_t4 b2] ++ (if pad then [61; 61; 61] else [])
  else if (rem =? 4)%nat then
    [enc_s0 b0; enc_s1 b0 b1; enc_s2 b1; enc_s3 b1 b2; enc_s4 b2 b3; enc_s5 b3; enc_t6 b3] ++ (if pad then [61] else [])
  else [].

(* lines 248-264: one iteration per complete group of 5 bytes, then the tail *)
Fixpoint b32_enc_loop (pad : bool) (data : list N) {struct data} : list N :=
  match data with
  | b0 :: b1 :: b2 :: b3 :: b4 :: rest =>
      enc_s0 b0 :: enc_s1 b0 b1 :: enc_s2 b1 :: enc_s3 b1 b2 :: enc_s4 b2 b3 :: enc_s5 b3 :: enc_s6 b3 b4 :: enc_s7 b4 ::
      b32_enc_loop pad rest
  | _ => b32_enc_tail pad data
  end.

Definition base32_encode (pad : bool) (data : list N) : list N :=
  if is_nil data then [] else b32_enc_loop pad data.          (* line 224 *)

(* ---------- b32_build_reverse (lines 307-321) ---------- *)
Fixpoint set_nth (n : nat) (v : Z) (l : list Z) {struct l} : list Z :=
  match l, n with
  | [], _ => []
  | _ :: t, O => v :: t
  | h :: t, S n' => h :: set_nth n' v t
  end.
Definition rev_set (rev : list Z) (i : N) (v : Z) : list Z := set_nth (N.to_nat i) v rev.      (* rev[i] = v *)
Definition rev_at (rev : list Z) (c : N) : Z := nth (N.to_nat c) rev (-1)%Z.   (* rev[(unsigned char)c] *)

Fixpoint b32_rev_fill (accept_lower : bool) (A : list N) (i : Z) (rev : list Z) {struct A} : list Z :=
  match A with
  | [] => rev
  | uc :: A' =>
      let rev := rev_set rev uc i in
      let rev := if accept_lower
                 then (if (65 <=? uc) && (uc <=? 90) then rev_set rev (uc - 65 + 97) i else rev)
                 else rev in
      b32_rev_fill accept_lower A' (i + 1)%Z rev
  end.
Definition b32_build_reverse (accept_lower : bool) : list Z :=
  rev_set (b32_rev_fill accept_lower b32_A 0%Z (repeat (-1)%Z 256)) 61 (-2)%Z.

(* ---------- is_space (lines 91-93) ---------- *)
Definition is_space (c : N) : bool := (c =? 32) || (c =? 10) || (c =? 13) || (c =? 9).

(* ---------- base32_decode (lines 323-462) ---------- *)
(* the five byte expressions (lines 405-409; the same text at 375, 382-383, 389-391, 397-400, 425, 435-436, 445-447,
   456-459); int arithmetic on the promoted int8_t values, then static_cast<uint8_t> *)
Local Open Scope Z_scope.
Definition u8 (x : Z) : N := Z.to_N (Z.land x 0xFF).
Definition dec_b0 (c0 c1 : Z) : N := u8 (Z.lor (Z.land (Z.shiftl c0 3) 0xF8) (Z.land (Z.shiftr c1 2) 0x07)).
Definition dec_b1 (c1 c2 c3 : Z) : N :=
  u8 (Z.lor (Z.lor (Z.shiftl (Z.land c1 0x03) 6) (Z.land (Z.shiftl c2 1) 0x7E)) (Z.land (Z.shiftr c3 4) 0x01)).
Definition dec_b2 (c3 c4 : Z) : N := u8 (Z.lor (Z.shiftl (Z.land c3 0x0F) 4) (Z.land (Z.shiftr c4 1) 0x0F)).
Definition dec_b3 (c4 c5 c6 : Z) : N :=
  u8 (Z.lor (Z.lor (Z.shiftl (Z.land c4 0x01) 7) (Z.land (Z.shiftl c5 2) 0x7C)) (Z.land (Z.shiftr c6 3) 0x03)).
Definition dec_b4 (c6 c7 : Z) : N := u8 (Z.lor (Z.shiftl (Z.land c6 0x07) 5) (Z.land c7 0x1F)).
Local Close Scope Z_scope.

Definition opt_app (pre : list N) (r : option (list N)) : option (list N) :=     (* push_back's, then go on *)
  match r with Some o => Some (pre ++ o) | None => None end.

(* lines 415-461: what is left after the last complete group, rem = L - i < 8 *)
Definition b32_dec_tail (require_padding : bool) (rev : list Z) (s : list N) : option (list N) :=
  let rem := length s in
  if (rem =? 0)%nat then Some [] else
  if require_padding then None else
  if negb ((rem =? 2) || (rem =? 4) || (rem =? 5) || (rem =? 7))%nat then None else
  let c0 := rev_at rev (nth 0 s 0) in
  let c1 := rev_at rev (nth 1 s 0) in
  if ((c0 <? 0) || (c1 <? 0))%Z then None else
  if (rem =? 2)%nat then Some [dec_b0 c0 c1] else
  let c2 := rev_at rev (nth 2 s 0) in
  let c3 := rev_at rev (nth 3 s 0) in
  if ((c2 <? 0) || (c3 <? 0))%Z then None else
  if (rem =? 4)%nat then Some [dec_b0 c0 c1; dec_b1 c1 c2 c3] else
  let c4 := rev_at rev (nth 4 s 0) in
  if (c4 <? 0)%Z then None else
  if (rem =? 5)%nat then Some [dec_b0 c0 c1; dec_b1 c1 c2 c3; dec_b2 c3 c4] else
  let c5 := rev_at rev (nth 5 s 0) in
  let c6 := rev_at rev (nth 6 s 0) in
  if ((c5 <? 0) || (c6 <? 0))%Z then None else
  Some [dec_b0 c0 c1; dec_b1 c1 c2 c3; dec_b2 c3 c4; dec_b3 c4 c5 c6].

(* lines 355-413: while (i + 8 <= L); `rest` empty <-> i + 8 == L *)
Fixpoint b32_dec_loop (require_padding : bool) (rev : list Z) (s : list N) {struct s} : option (list N) :=
  match s with
  | x0 :: x1 :: x2 :: x3 :: x4 :: x5 :: x6 :: x7 :: rest =>
      let has_pad := (x0 =? 61) || (x1 =? 61) || (x2 =? 61) || (x3 =? 61) ||
                     (x4 =? 61) || (x5 =? 61) || (x6 =? 61) || (x7 =? 61) in
      if has_pad && negb (is_nil rest) then None else
      let c0 := rev_at rev x0 in
      let c1 := rev_at rev x1 in
      let c2 := rev_at rev x2 in
      let c3 := rev_at rev x3 in
      let c4 := rev_at rev x4 in
      let c5 := rev_at rev x5 in
      let c6 := rev_at rev x6 in
      let c7 := rev_at rev x7 in
      if (c2 =? -2)%Z then
        if negb ((0 <=? c0) && (0 <=? c1))%Z ||
           negb ((x2 =? 61) && (x3 =? 61) && (x4 =? 61) && (x5 =? 61) && (x6 =? 61) && (x7 =? 61)) then None
        else Some [dec_b0 c0 c1]
      else if (c4 =? -2)%Z then
        if negb ((0 <=? c0) && (0 <=? c1) && (0 <=? c2) && (0 <=? c3))%Z ||
           negb ((x4 =? 61) && (x5 =? 61) && (x6 =? 61) && (x7 =? 61)) then None
        else Some [dec_b0 c0 c1; dec_b1 c1 c2 c3]
      else if (c5 =? -2)%Z then
        if negb ((0 <=? c0) && (0 <=? c1) && (0 <=? c2) && (0 <=? c3) && (0 <=? c4))%Z ||
           negb ((x5 =? 61) && (x6 =? 61) && (x7 =? 61)) then None
        else Some [dec_b0 c0 c1; dec_b1 c1 c2 c3; dec_b2 c3 c4]
      else if (c7 =? -2)%Z then
        if negb ((0 <=? c0) && (0 <=? c1) && (0 <=? c2) && (0 <=? c3) && (0 <=? c4) && (0 <=? c5) && (0 <=? c6))%Z ||
           negb (x7 =? 61) then None
        else Some [dec_b0 c0 c1; dec_b1 c1 c2 c3; dec_b2 c3 c4; dec_b3 c4 c5 c6]
      else
        if ((c0 <? 0) || (c1 <? 0) || (c2 <? 0) || (c3 <? 0) || (c4 <? 0) || (c5 <? 0) || (c6 <? 0) || (c7 <? 0))%Z
        then None
        else opt_app [dec_b0 c0 c1; dec_b1 c1 c2 c3; dec_b2 c3 c4; dec_b3 c4 c5 c6; dec_b4 c6 c7]
                     (b32_dec_loop require_padding rev rest)
  | _ => b32_dec_tail require_padding rev s
  end.

Definition base32_decode (require_padding strict : bool) (input : list N) : option (list N) :=
  if is_nil input then Some [] else                                                   (* line 326 *)
  let filtered := if strict then input else filter (fun c => negb (is_space c)) input in   (* lines 328-337 *)
  let L := length filtered in
  if (if require_padding then negb (L mod 8 =? 0)%nat                                 (* lines 341-346 *)
      else (let rem := (L mod 8)%nat in (rem =? 1) || (rem =? 3) || (rem =? 6))%nat)
  then None else
  let rev := b32_build_reverse (negb strict) in                                       (* line 349 *)
  b32_dec_loop require_padding rev filtered.
