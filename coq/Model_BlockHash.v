(* Model_BlockHash: the buffering scheme shared by the three hash contexts, at the level of the
   live buffer prefix (no stale bytes, unbounded counters).  The concrete context models
   (Model_Sha2Ctx, Model_Sha1Ctx) are proved to refine this one; this layer is proved equal to FIPS. *)
From HV Require Import Base_Bytes.
Local Open Scope N_scope.

Section BlockHash.
  Variable B : nat.            (* block size in bytes: 64 / 128 *)
  Variable LB : nat.           (* bytes of the length field: 8 / 16 *)
  Variable compress : list N -> list N -> list N.   (* state -> one block -> state *)
  Variable IV : list N.
  Variable len_field : nat -> list N.      (* LB-byte big-endian bit length of a byte count *)

  Definition pad_spec (msg : list N) : list N :=
    let n := length msg in
    msg ++ [128] ++ repeat 0 ((B - (n + 1 + LB) mod B) mod B)%nat ++ len_field n.
  Definition hash_spec (msg : list N) : list N := fold_left compress (chunks B (pad_spec msg)) IV.

  Record actx := { a_h : list N; a_buf : list N; a_tot : nat }.
  Definition a_init : actx := {| a_h := IV; a_buf := []; a_tot := 0 |}.
  Definition transform (s : list N) (data : list N) (nblocks : nat) : list N :=
    fold_left compress (chunks B (firstn (nblocks * B) data)) s.
  Definition a_update (c : actx) (msg : list N) : actx :=
    let tmp_len := (B - length (a_buf c))%nat in
    let rem_len := Nat.min (length msg) tmp_len in
    let blk := a_buf c ++ firstn rem_len msg in
    if (length (a_buf c) + length msg <? B)%nat then {| a_h := a_h c; a_buf := blk; a_tot := a_tot c |}
    else
      let new_len := (length msg - rem_len)%nat in
      let block_nb := (new_len / B)%nat in
      let shifted := skipn rem_len msg in
      let h1 := transform (a_h c) blk 1 in
      let h2 := transform h1 shifted block_nb in
      {| a_h := h2; a_buf := firstn (new_len mod B) (skipn (block_nb * B) shifted);
         a_tot := (a_tot c + (block_nb + 1) * B)%nat |}.
  Definition a_finish (thr : nat) (c : actx) : list N :=
    let m_len := length (a_buf c) in
    let block_nb := if (thr <? m_len mod B)%nat then 2%nat else 1%nat in
    let pm_len := (block_nb * B)%nat in
    let final := a_buf c ++ [128] ++ repeat 0 (pm_len - m_len - 1 - LB)%nat ++ len_field (a_tot c + m_len) in
    transform (a_h c) final block_nb.

  Definition AInv (c : actx) (msg : list N) : Prop :=
    (length (a_buf c) < B)%nat /\ a_tot c = (length msg - length (a_buf c))%nat /\
    (length (a_buf c) <= length msg)%nat /\
    a_buf c = skipn (a_tot c) msg /\ (a_tot c mod B = 0)%nat /\
    a_h c = fold_left compress (chunks B (firstn (a_tot c) msg)) IV.
End BlockHash.
