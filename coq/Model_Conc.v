(* Model_Conc: threads calling the library on their OWN objects. Global state = the process-wide key of secret_string
   (initialised at most once, by whoever gets there first - a C++11 function-local static) and one object bundle per thread
   (its hash / HMAC contexts, secure buffers, secret strings).  A call made by thread t reads the key and reads/writes only
   t's bundle: that footprint is what the C++ is ASSUMED to have (no shared mutable state, no static scratch buffers);
   the theorem is that under this footprint every interleaving gives each thread the results it gets running alone. *)
From HV Require Import Base_Bytes.

Section Conc.
  Variable Obj Call Res Key : Type.
  Variable k0 : Key.                                         (* the value the one-time initialisation produces *)
  Variable step : Key -> Obj -> Call -> Obj * Res.            (* sequential semantics of one call on one thread's objects *)

  Record gstate := { g_key : option Key; g_objs : nat -> Obj }.
  Definition the_key (g : gstate) : Key := match g_key g with Some k => k | None => k0 end.
  Definition upd (f : nat -> Obj) (t : nat) (o : Obj) : nat -> Obj := fun u => if Nat.eqb u t then o else f u.

  (* one call of thread t in the shared state *)
  Definition gstep (g : gstate) (t : nat) (c : Call) : gstate * Res :=
    let k := the_key g in
    let r := step k (g_objs g t) c in
    ({| g_key := Some k; g_objs := upd (g_objs g) t (fst r) |}, snd r).

  (* a schedule: which thread makes which call next; results are tagged with the thread *)
  Fixpoint grun (g : gstate) (sched : list (nat * Call)) : gstate * list (nat * Res) :=
    match sched with
    | [] => (g, [])
    | (t, c) :: rest => let r := gstep g t c in let r' := grun (fst r) rest in (fst r', (t, snd r) :: snd r')
    end.

  (* thread t running alone on its own objects *)
  Fixpoint alone (k : Key) (o : Obj) (cs : list Call) : list Res :=
    match cs with [] => [] | c :: rest => let r := step k o c in snd r :: alone k (fst r) rest end.

  Definition calls_of (t : nat) (sched : list (nat * Call)) : list Call :=
    map snd (filter (fun p => Nat.eqb (fst p) t) sched).
  Definition results_of (t : nat) (rs : list (nat * Res)) : list Res :=
    map snd (filter (fun p => Nat.eqb (fst p) t) rs).
End Conc.
