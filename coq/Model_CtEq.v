(* Model of hmac_cpp::constant_time_equals (src/hmac_utils.cpp:13-23): the loop runs over
   max(a_len, b_len); an index past the end of one input reads 0 (as the code does explicitly);
   the unsigned accumulator is seeded with the length mismatch. *)
From HV Require Import Base_Bytes.
Local Open Scope N_scope.

Definition ct_equals (a b : list N) : bool :=
  let max_len := Nat.max (length a) (length b) in
  let diff0 := if Nat.eqb (length a) (length b) then 0 else 1 in
  N.eqb (fold_left (fun d i => N.lor d (N.lxor (nth i a 0) (nth i b 0))) (seq 0 max_len) diff0) 0.
