(* Model_Otp: detail::hotp_from_digest, get_hotp_code, get_totp_code_at, get_totp_code and both
   is_totp_token_valid (src/hmac_utils.cpp:394-535). ints are Z (range [-2^31, 2^31)), uint64_t is N below 2^64,
   the clock is a parameter (now : Z, errno_set : bool). *)
From HV Require Import Base_Bytes Base_Result Spec_SHA Model_Hash Model_Hmac.
Local Open Scope N_scope.

Definition divisor_table : list N := [10; 100; 1000; 10000; 100000; 1000000; 10000000; 100000000; 1000000000].

Definition hotp_from_digest (hmac_result : list N) (digits : Z) : res Z :=
  match hmac_result with
  | [] => Throw RuntimeError
  | _ =>
    let offset := N.to_nat (N.land (last hmac_result 0) 0x0F) in
    if (length hmac_result <? offset + 4)%nat then Throw RuntimeError
    else
      let b i := nth (offset + i) hmac_result 0 in
      let bin_code :=
        N.lor (N.lor (N.lor (N.shiftl (N.land (b 0%nat) 0x7F) 24) (N.shiftl (N.land (b 1%nat) 0xFF) 16))
                     (N.shiftl (N.land (b 2%nat) 0xFF) 8)) (N.land (b 3%nat) 0xFF) in
      Ok (Z.of_N (bin_code mod nth (Z.to_nat (digits - 1)) divisor_table 0))
  end.

Definition digits_ok (digits : Z) : bool := (1 <=? digits)%Z && (digits <=? 9)%Z.

Definition get_hotp_code (t : hash_t) (key : list N) (counter : N) (digits : Z) : res Z :=
  if negb (digits_ok digits) then Throw InvalidArgument
  else
    let counter_bytes := be_bytes 8 counter in        (* for (i = 7..0) { bytes[i] = counter & 0xFF; counter >>= 8; } *)
    hotp_from_digest (get_hmac_raw t key counter_bytes) digits.

Definition get_totp_code_at (t : hash_t) (key : list N) (timestamp : N) (period digits : Z) : res Z :=
  if (period <=? 0)%Z then Throw InvalidArgument
  else if negb (digits_ok digits) then Throw InvalidArgument
  else get_hotp_code t key (timestamp / Z.to_N period) digits.   (* int promoted to uint64_t *)

(* the clock: value returned by std::time and whether errno was set by it *)
Definition clock := (Z * bool)%type.
Definition read_clock_totp (c : clock) : res N :=
  let '(now, errno_set) := c in
  if (now =? -1)%Z && errno_set then Throw RuntimeError
  else if (now <? 0)%Z then Throw RuntimeError
  else Ok (Z.to_N now).

Definition get_totp_code (t : hash_t) (key : list N) (period digits : Z) (c : clock) : res Z :=
  if (period <=? 0)%Z then Throw InvalidArgument
  else if negb (digits_ok digits) then Throw InvalidArgument
  else bind (read_clock_totp c) (fun ts => get_totp_code_at t key ts period digits).

(* the three guarded comparisons, shared shape of both validation functions *)
Definition totp_window (t : hash_t) (token : Z) (key : list N) (counter : N) (digits : Z) : res bool :=
  bind (get_hotp_code t key counter digits) (fun c0 =>
  if (token =? c0)%Z then Ok true else
  bind (if negb (counter =? 2 ^ 64 - 1) then bind (get_hotp_code t key (counter + 1) digits) (fun c1 => Ok (token =? c1)%Z) else Ok false) (fun hit1 =>
  if hit1 then Ok true else
  bind (if 0 <? counter then bind (get_hotp_code t key (counter - 1) digits) (fun c2 => Ok (token =? c2)%Z) else Ok false) (fun hit2 =>
  Ok hit2))).

(* explicit-timestamp form (hmac_utils.cpp:477-501) *)
Definition is_totp_token_valid_at (t : hash_t) (token : Z) (key : list N) (timestamp : N) (period digits : Z) : res bool :=
  if (period <=? 0)%Z then Throw InvalidArgument
  else if negb (digits_ok digits) then Throw InvalidArgument
  else totp_window t token key (timestamp / Z.to_N period) digits.

(* system-clock form (hmac_utils.cpp:503-535): its own copy of the logic *)
Definition is_totp_token_valid_now (t : hash_t) (token : Z) (key : list N) (period digits : Z) (c : clock) : res bool :=
  if (period <=? 0)%Z then Throw InvalidArgument
  else if negb (digits_ok digits) then Throw InvalidArgument
  else bind (read_clock_totp c) (fun ts => totp_window t token key (ts / Z.to_N period) digits).
