(* C07 - TOTP validation accepts exactly the current, previous and next step. *)
From HV Require Import Base_Bytes Base_Result Spec_SHA Spec_HMAC Spec_OTP Model_Hmac Model_Otp Proofs_Otp.
Local Open Scope N_scope.

(* explicit-timestamp form: for every token integer (negatives, values >= 10^digits included), every timestamp
   in [0, 2^64) incl. 0 and 2^64-1: accepted iff it is the code of step c, of c-1 when c > 0, or of c+1 when
   c+1 is representable.  Exact: no cryptographic assumption. *)
Theorem C07_window : forall (t : hash_t) (tok : Z) (K : list N) (ts : N) (period digits : Z),
  N.of_nat (length K) < 2 ^ 61 -> (1 <= period)%Z -> (1 <= digits <= 9)%Z -> ts < 2 ^ 64 ->
  let c := ts / Z.to_N period in
  let code x := Z.of_N (HOTP_spec t K x (Z.to_N digits)) in
  exists b, is_totp_token_valid_at t tok K ts period digits = Ok b /\
    (b = true <-> (tok = code c \/ (c <> 2 ^ 64 - 1 /\ tok = code (c + 1)) \/ (0 < c /\ tok = code (c - 1)))).
Proof.
  intros t tok K ts period digits HK Hp Hd Hts c code.
  unfold is_totp_token_valid_at, digits_ok.
  replace (period <=? 0)%Z with false by (symmetry; apply Z.leb_gt; lia).
  replace ((1 <=? digits)%Z && (digits <=? 9)%Z) with true by (symmetry; apply andb_true_iff; split; apply Z.leb_le; lia).
  cbn [negb]. apply totp_window_spec; try assumption.
  eapply N.le_lt_trans; [|exact Hts]. apply N.div_le_upper_bound; [lia|]. nia.
Qed.
Print Assumptions C07_window.

(* system-clock form: the same window at the clock's value; failing / negative clock -> runtime_error *)
Theorem C07_clock_form : forall (t : hash_t) (tok : Z) (K : list N) (period digits now : Z) (err : bool),
  (1 <= period)%Z -> (1 <= digits <= 9)%Z ->
  is_totp_token_valid_now t tok K period digits (now, err) =
    if ((now =? -1)%Z && err) || (now <? 0)%Z then Throw RuntimeError
    else is_totp_token_valid_at t tok K (Z.to_N now) period digits.
Proof.
  intros t tok K period digits now err Hp Hd.
  unfold is_totp_token_valid_now, is_totp_token_valid_at, read_clock_totp, digits_ok.
  replace (period <=? 0)%Z with false by (symmetry; apply Z.leb_gt; lia).
  replace ((1 <=? digits)%Z && (digits <=? 9)%Z) with true by (symmetry; apply andb_true_iff; split; apply Z.leb_le; lia).
  cbn [negb]. destruct ((now =? -1)%Z && err); [reflexivity|]. cbn [orb]. destruct (now <? 0)%Z; reflexivity.
Qed.
Print Assumptions C07_clock_form.

(* no wrap at the extremes: at counter 0 the "previous" code and at 2^64-1 the "next" code are not consulted *)
Example C07_extremes :
  is_totp_token_valid_at SHA1 (Z.of_N (HOTP_spec SHA1 [1;2;3] (2 ^ 64 - 1) 6)) [1;2;3] 0 1 6 = Ok false /\
  is_totp_token_valid_at SHA1 (Z.of_N (HOTP_spec SHA1 [1;2;3] 0 6)) [1;2;3] (2 ^ 64 - 1) 1 6 = Ok false /\
  is_totp_token_valid_at SHA1 (Z.of_N (HOTP_spec SHA1 [1;2;3] 1 6)) [1;2;3] 0 1 6 = Ok true.
Proof. vm_compute. repeat split; reflexivity. Qed.
