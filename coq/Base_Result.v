(* Results of API calls: a value, one of the documented exception types, false (non-throwing APIs), or
   process termination (what a noexcept function does when something throws inside it). *)
From HV Require Import Base_Bytes.
Inductive exn := InvalidArgument | OverflowError | RuntimeError | BadAlloc.
Inductive res (A : Type) := Ok (a : A) | Throw (e : exn).
Arguments Ok {A} a.
Arguments Throw {A} e.
Definition bind {A B} (r : res A) (f : A -> res B) : res B :=
  match r with Ok a => f a | Throw e => Throw e end.
