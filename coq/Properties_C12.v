(* C12 - no out-of-bounds access (the part that is logic): array index arithmetic of the code that works on raw C arrays.
   PARTIAL: use-after-free, leaks, alignment and undefined behaviour in code that is not modelled are observed by running all
   correspondence corpora on ASan+UBSan+LSan builds, not proved. *)
From HV Require Import Base_Bytes Base_Result Spec_SHA Model_Sha2Ctx Proofs_Sha2Refine Model_Otp Model_Bounds Proofs_Bounds
  Spec_Base36 Model_Base36 Proofs_Base36 Model_Base64 Proofs_Base64 Model_Base32 Proofs_Base32 Model_SecureBuffer Proofs_SecureBuffer Properties_C15.
Local Open Scope N_scope.

(* SHA-256: for EVERY context object, after init and ANY list of updates, the next update(len) and finish() only touch
   m_block[0, 128) and message[0, len); no size_t subtraction wraps *)
Theorem C12_sha256_in_bounds : forall (c : ctx2) (cs : list (list N)) (len : nat), shape2 64 c ->
  let c' := fold_left sha256_update cs (sha256_init c) in
  forallb (in_array 128) (update2_block_writes 64 c' len) = true /\ forallb (in_array 128) (update2_block_reads 64 c' len) = true /\
  forallb (in_array len) (update2_message_reads 64 c' len) = true /\
  forallb (in_array 128) (finish2_block_accesses 64 55 c') = true /\ finish2_no_wrap 64 55 c' = true /\ length (m_block c') = 128%nat.
Proof. exact (sha2_history_in_bounds 64 8 ltac:(lia) ltac:(lia) (sha2_compress P256) IV256). Qed.
Print Assumptions C12_sha256_in_bounds.

Theorem C12_sha512_in_bounds : forall (c : ctx2) (cs : list (list N)) (len : nat), shape2 128 c ->
  let c' := fold_left sha512_update cs (sha512_init c) in
  forallb (in_array 256) (update2_block_writes 128 c' len) = true /\ forallb (in_array 256) (update2_block_reads 128 c' len) = true /\
  forallb (in_array len) (update2_message_reads 128 c' len) = true /\
  forallb (in_array 256) (finish2_block_accesses 128 111 c') = true /\ finish2_no_wrap 128 111 c' = true /\ length (m_block c') = 256%nat.
Proof. exact (sha2_history_in_bounds 128 16 ltac:(lia) ltac:(lia) (sha2_compress P512) IV512). Qed.
Print Assumptions C12_sha512_in_bounds.

(* the digest-truncation helper, for ANY digest bytes: whenever it returns a value its four reads are inside the digest,
   and the divisor table is indexed inside its nine entries *)
Theorem C12_hotp_reads : forall dg digits v, bytes_okb dg = true -> (1 <= digits <= 9)%Z ->
  hotp_from_digest dg digits = Ok v -> forallb (in_array (length dg)) (hotp_digest_reads dg) = true.
Proof. exact hotp_reads_in_bounds. Qed.
Print Assumptions C12_hotp_reads.
Theorem C12_divisor_index : forall digits, (1 <= digits <= 9)%Z -> (Z.to_nat (digits - 1) < length divisor_table)%nat.
Proof. exact divisor_index_in_bounds. Qed.
Print Assumptions C12_divisor_index.

(* decoders on ANY input: results are byte strings (no truncation / sign surprises in the uint8_t casts), fuel never runs out *)
Theorem C12_decoders_total : forall s,
  (forall url req strict d, base64_decode url req strict s = Some d -> bytes_okb d = true) /\
  (forall req strict d, base32_decode req strict s = Some d -> bytes_okb d = true) /\
  (forall d, base36_decode s = Some d -> bytes_okb d = true).
Proof.
  intros s. repeat split; intros.
  - eapply base64_decode_ok; eauto.
  - eapply base32_decode_ok; eauto.
  - eapply base36_decode_ok; eauto.
Qed.
Print Assumptions C12_decoders_total.

(* the model-level fuel of the Base36 loops is never exhausted (the loops terminate with the carries bounded as the int arithmetic needs) *)
Theorem C12_base36_fuel : forall d, bytes_okb d = true -> base36_encode d <> fuel_exhausted.
Proof. intros d H. apply (proj1 (Properties_C15.C15_fuel_unreachable) d H) || exact (proj1 Properties_C15.C15_fuel_unreachable d H). Qed.
Print Assumptions C12_base36_fuel.

(* get_hmac: every copy into the key / inner / outer buffers stays inside the buffer as sized, for all key and message lengths, and the
   size_t sums that size them do not wrap under the documented guard msg_len <= SIZE_MAX - block_size *)
Theorem C12_hmac_in_bounds : forall (t : hash_t) (key_len msg_len : nat),
  forallb (fun ar => in_array (fst ar) (snd ar)) (hmac_accesses t key_len msg_len) = true.
Proof. exact hmac_accesses_in_bounds. Qed.
Print Assumptions C12_hmac_in_bounds.
Theorem C12_hmac_sizes : forall (t : hash_t) (msg_len : N), msg_len <= 2 ^ 64 - 1 - N.of_nat (block_size t) -> hmac_sizes_no_wrap t msg_len = true.
Proof. exact hmac_sizes_guarded. Qed.
Print Assumptions C12_hmac_sizes.
