From HV Require Import Base_Bytes Base_BytesLemmas Base_Result Spec_SHA Spec_HMAC Spec_KDF Model_Hash Model_Hmac
  Proofs_Hash Proofs_Hmac Proofs_Otp Model_Kdf.
Local Open Scope N_scope.

(* ---------- generic: iteration, truncation of the last block ---------- *)
Lemma iter_rel {X Y} (R : X -> Y -> Prop) (f : X -> X) (g : Y -> Y) n x y :
  R x y -> (forall x y, R x y -> R (f x) (g y)) -> R (N.iter n f x) (N.iter n g y).
Proof.
  intros H0 Hs. induction n as [|n IH] using N.peano_ind; [exact H0|].
  rewrite !N.iter_succ. now apply Hs.
Qed.

Lemma nat_iter_succ {A} (f : A -> A) n x : Nat.iter (S n) f x = f (Nat.iter n f x).
Proof. reflexivity. Qed.
Lemma flat_map_ext_in {A B} (f g : A -> list B) l : (forall x, In x l -> f x = g x) -> flat_map f l = flat_map g l.
Proof. induction l as [|a l IH]; intros H; cbn; [reflexivity|]. rewrite H by now left. rewrite IH; [reflexivity|]. intros; apply H; now right. Qed.
Lemma flat_map_length_const {A B} (f : A -> list B) h l : (forall x, In x l -> length (f x) = h) -> length (flat_map f l) = (length l * h)%nat.
Proof.
  intros H. induction l as [|a l IH]; cbn [flat_map length]; [reflexivity|].
  rewrite app_length, (H a) by (now left). rewrite IH by (intros; apply H; now right). reflexivity.
Qed.

Lemma blocks_truncate (f : nat -> list N) h dk : (forall i, (1 <= i)%nat -> length (f i) = h) -> (0 < h)%nat -> (1 <= dk)%nat ->
  let l := ((dk + h - 1) / h)%nat in
  flat_map (fun i => if (i =? l)%nat then firstn (dk - (l - 1) * h) (f i) else f i) (seq 1 l) = firstn dk (flat_map f (seq 1 l)).
Proof.
  intros Hf Hh Hdk l.
  assert (Hl : (1 <= l /\ (l - 1) * h < dk <= l * h)%nat).
  { unfold l. pose proof (Nat.div_mod (dk + h - 1) h ltac:(lia)) as E.
    pose proof (Nat.mod_upper_bound (dk + h - 1) h ltac:(lia)) as Hm.
    set (q := ((dk + h - 1) / h)%nat) in *. clearbody q.
    assert (1 <= q)%nat by (destruct q; [lia|lia]). split; [assumption|]. nia. }
  destruct Hl as [Hl1 [Hlo Hhi]]. clearbody l.
  assert (Eseq : seq 1 l = seq 1 (l - 1) ++ [l]).
  { replace (seq 1 l) with (seq 1 ((l - 1) + 1)) by (f_equal; lia). rewrite seq_app. cbn [seq]. do 2 f_equal. lia. }
  rewrite Eseq, !flat_map_app. cbn [flat_map]. rewrite !app_nil_r. rewrite Nat.eqb_refl.
  rewrite (flat_map_ext_in _ f).
  2:{ intros x Hx. apply in_seq in Hx. destruct (Nat.eqb_spec x l); [lia|reflexivity]. }
  assert (Hlen : length (flat_map f (seq 1 (l - 1))) = ((l - 1) * h)%nat).
  { rewrite (flat_map_length_const f h) by (intros x Hx; apply Hf; apply in_seq in Hx; lia). now rewrite seq_length. }
  set (m := ((l - 1) * h)%nat) in *. clearbody m.
  rewrite firstn_app, Hlen. rewrite (firstn_all2 (n := dk) (flat_map f (seq 1 (l - 1)))) by lia. reflexivity.
Qed.

Lemma xor_bytes_length a b : length a = length b -> length (xor_bytes a b) = length a.
Proof. revert b; induction a as [|x a IH]; intros [|y b] H; cbn in *; try lia. f_equal. apply IH. lia. Qed.

(* ---------- PBKDF2 form A = RFC 8018 ---------- *)
Section PB.
  Variable t : hash_t.
  Variable P S : list N.
  Hypothesis HP : N.of_nat (length P) < 2 ^ 61.
  Hypothesis HS : N.of_nat (length S) < 2 ^ 60.
  Let PRF := HMAC_spec t P.
  Let hlen := digest_size t.

  Lemma prf_len x : length (PRF x) = hlen. Proof. apply HMAC_spec_length. Qed.
  Lemma U_len n u1 : length u1 = hlen -> length (pbkdf2_U PRF n u1) = hlen.
  Proof. intros H. destruct n; [exact H|apply prf_len]. Qed.

  (* the pair iteration of the code computes (U_{k+1}, U_1 xor ... xor U_{k+1}) *)
  Lemma iter_A_spec (hm : list N -> list N) u1 k : (forall x, length x = hlen -> hm x = PRF x) -> length u1 = hlen ->
    Nat.iter k (fun ut : list N * list N => let u' := hm (fst ut) in (u', xor_bytes (snd ut) u')) (u1, u1) =
    (pbkdf2_U PRF k u1, fold_left xor_bytes (map (fun j => pbkdf2_U PRF j u1) (seq 1 k)) u1).
  Proof.
    intros Hhm Hu. induction k as [|k IH]; [reflexivity|].
    rewrite nat_iter_succ. rewrite IH. cbn [fst snd].
    rewrite Hhm by (now apply U_len).
    f_equal. rewrite seq_S, map_app, fold_left_app. reflexivity.
  Qed.

  Lemma salt_block_bound i : N.of_nat (length (S ++ be_bytes 4 i)) < 2 ^ 61 - 128.
  Proof. rewrite app_length, be_bytes_length, Nat2N.inj_add. change (2 ^ 61) with (2 * 2 ^ 60). change (2^60) with 1152921504606846976 in *. lia. Qed.
  Lemma hlen_bound (x : list N) : length x = hlen -> N.of_nat (length x) < 2 ^ 61 - 128.
  Proof. intros ->. unfold hlen. destruct t; cbn; reflexivity. Qed.

  Lemma block_A_spec c i : 1 <= c -> pbkdf2_block_A t P S c i = pbkdf2_F t P S (N.to_nat c) i.
  Proof.
    intros Hc. unfold pbkdf2_block_A, pbkdf2_F. fold PRF.
    rewrite get_hmac_raw_spec by (auto using salt_block_bound). fold PRF.
    rewrite N2Nat.inj_iter.
    rewrite (iter_A_spec (get_hmac_raw t P)).
    - cbn [snd]. replace (N.to_nat (c - 1)) with (N.to_nat c - 1)%nat by lia. reflexivity.
    - intros x Hx. apply get_hmac_raw_spec; [exact HP|now apply hlen_bound].
    - apply prf_len.
  Qed.

  Lemma F_len c i : length (pbkdf2_F t P S c i) = hlen.
  Proof.
    unfold pbkdf2_F. fold PRF. set (u1 := PRF (S ++ be_bytes 4 i)).
    assert (Hu : length u1 = hlen) by apply prf_len.
    generalize (seq 1 (c - 1)). intros l.
    assert (G : forall acc, length acc = hlen -> length (fold_left xor_bytes (map (fun j => pbkdf2_U PRF j u1) l) acc) = hlen).
    { induction l as [|j l IH]; intros acc Ha; cbn [map fold_left]; [exact Ha|].
      apply IH. rewrite xor_bytes_length; [exact Ha|]. rewrite Ha. symmetry. now apply U_len. }
    now apply G.
  Qed.

  Theorem pbkdf2_derive_A_spec c dk : 1 <= c -> (1 <= dk)%nat ->
    pbkdf2_derive (pbkdf2_block_A t P S c) hlen dk = PBKDF2_spec t P S (N.to_nat c) dk.
  Proof.
    intros Hc Hdk. unfold pbkdf2_derive, PBKDF2_spec. fold hlen.
    assert (Hh : (0 < hlen)%nat) by (unfold hlen; destruct t; cbn; lia).
    rewrite <- (blocks_truncate (fun i => pbkdf2_F t P S (N.to_nat c) (N.of_nat i)) hlen dk) by (intros; auto using F_len).
    apply flat_map_ext_in. intros i _. now rewrite block_A_spec.
  Qed.

  (* ---------- form B (streaming HmacContext) computes the same blocks ---------- *)
  Lemma hmac_cycle_spec h data : hmac_shape h -> N.of_nat (length data) < 2 ^ 61 - 128 ->
    snd (hmac_cycle h P data) = HMAC_spec (hc_type h) P data.
  Proof.
    intros Hs Hd. unfold hmac_cycle.
    pose proof (hmac_stream_spec h P [data] Hs HP) as H. cbn [concat fold_left] in H. rewrite app_nil_r in H. now apply H.
  Qed.
End PB.

(* ---------- the streaming context through one init/update/final cycle ---------- *)
Lemma hc_put_put h c1 c2 : htype c1 = htype c2 -> hc_put (hc_put h c1) c2 = hc_put h c2.
Proof. destruct c1, c2; cbn [htype]; intros E; try discriminate; reflexivity. Qed.
Lemma hmac_shape_put h c : hmac_shape h -> hshape c -> hmac_shape (hc_put h c).
Proof. intros [H1 H2] Hc. destruct c; cbn in *; split; auto. Qed.

Lemma hmac_cycle_shape h K data : hmac_shape h ->
  hmac_shape (fst (hmac_cycle h K data)) /\ hc_type (fst (hmac_cycle h K data)) = hc_type h.
Proof.
  intros Hs. unfold hmac_cycle, hmac_final. cbn [fst].
  split; [|unfold hmac_update, hmac_init; now rewrite !hc_type_put].
  unfold hmac_update, hmac_init.
  set (t := hc_type h). set (k := hmac_key_block t K).
  set (h1 := {| hc_type := t; hc_block_size := block_size t; hc_digest_size := digest_size t;
                hc_okeypad := map (fun b => N.lxor b 92) k; hc_sha1 := hc_sha1 h; hc_sha256 := hc_sha256 h; hc_sha512 := hc_sha512 h |}).
  assert (Hs1 : hmac_shape h1) by exact Hs.
  set (ipad := map (fun b => N.lxor b 54) k).
  set (A := hupdate (hinit (hc_get h1)) ipad).
  assert (HtA : htype A = hc_type h1) by (unfold A; now rewrite htype_hupdate, htype_hinit, htype_hc_get).
  rewrite (hc_get_put h1 A HtA).
  rewrite (hc_put_put h1 A (hupdate A data)) by (now rewrite htype_hupdate).
  set (B := hupdate A data).
  assert (HtB : htype B = hc_type h1) by (unfold B; now rewrite htype_hupdate).
  rewrite (hc_get_put h1 B HtB).
  rewrite hc_put_put.
  2:{ rewrite htype_hfinish, !htype_hupdate, htype_hinit, htype_hfinish. reflexivity. }
  apply hmac_shape_put; [exact Hs1|].
  rewrite hc_okeypad_put, hc_bs_put, hc_ds_put.
  set (c1 := fst (hfinish B)).
  assert (Hc1 : hshape c1).
  { unfold c1, B, A. change (hupdate (hupdate (hinit (hc_get h1)) ipad) data) with (fold_left hupdate [ipad; data] (hinit (hc_get h1))).
    apply hshape_cycle. now apply hshape_hc_get. }
  match goal with |- hshape (fst (hfinish (hupdate (hupdate (hinit c1) ?a) ?b))) =>
    change (hupdate (hupdate (hinit c1) a) b) with (fold_left hupdate [a; b] (hinit c1)) end.
  now apply hshape_cycle.
Qed.

Lemma hc_new_shape t : hmac_shape (hc_new t). Proof. split; reflexivity. Qed.

Section PB2.
  Variable t : hash_t.
  Variable P S : list N.
  Hypothesis HP : N.of_nat (length P) < 2 ^ 61.
  Hypothesis HS : N.of_nat (length S) < 2 ^ 60.
  Let hlen := digest_size t.

  Lemma block_B_eq_A c i : pbkdf2_block_B t P S c i = pbkdf2_block_A t P S c i.
  Proof.
    unfold pbkdf2_block_B, pbkdf2_block_A.
    set (sb := S ++ be_bytes 4 i).
    assert (Hsb : N.of_nat (length sb) < 2 ^ 61 - 128) by (apply (salt_block_bound t P S HP HS)).
    pose proof (hmac_cycle_shape (hc_new t) P sb (hc_new_shape t)) as [Hsh1 Hty1].
    assert (Hu1 : snd (hmac_cycle (hc_new t) P sb) = get_hmac_raw t P sb).
    { rewrite (hmac_cycle_spec P HP) by (auto using hc_new_shape). cbn [hc_new hc_type]. symmetry. now apply get_hmac_raw_spec. }
    set (R := fun (x : hmac_ctx * list N * list N) (y : list N * list N) =>
                hmac_shape (fst (fst x)) /\ hc_type (fst (fst x)) = t /\ snd (fst x) = fst y /\ snd x = snd y /\ length (fst y) = hlen).
    assert (HR : R (N.iter (c - 1) (fun st : hmac_ctx * list N * list N =>
                let '(ctx, u, acc) := st in
                let r := hmac_cycle ctx P u in (fst r, snd r, xor_bytes acc (snd r)))
                  (fst (hmac_cycle (hc_new t) P sb), snd (hmac_cycle (hc_new t) P sb), snd (hmac_cycle (hc_new t) P sb)))
              (N.iter (c - 1) (fun ut => let u' := get_hmac_raw t P (fst ut) in (u', xor_bytes (snd ut) u'))
                  (get_hmac_raw t P sb, get_hmac_raw t P sb))).
    { apply iter_rel.
      - unfold R. cbn [fst snd]. split; [exact Hsh1|split; [exact Hty1|split; [exact Hu1|split; [exact Hu1|]]]].
        rewrite get_hmac_raw_spec by assumption. apply HMAC_spec_length.
      - intros [[ctx u] acc] [u' acc'] (Hsh & Hty & Hu & Hacc & Hlen). cbn [fst snd] in *. subst u' acc'.
        unfold R. cbn [fst snd].
        pose proof (hmac_cycle_shape ctx P u Hsh) as [Hsh2 Hty2].
        assert (Hub : N.of_nat (length u) < 2 ^ 61 - 128) by (rewrite Hlen; unfold hlen; destruct t; cbn; reflexivity).
        assert (E : snd (hmac_cycle ctx P u) = get_hmac_raw t P u).
        { rewrite (hmac_cycle_spec P HP) by assumption. rewrite Hty. symmetry. now apply get_hmac_raw_spec. }
        split; [exact Hsh2|split; [congruence|split; [exact E|split; [now rewrite E|]]]].
        rewrite get_hmac_raw_spec by assumption. apply HMAC_spec_length. }
    destruct HR as (_ & _ & _ & HR & _). exact HR.
  Qed.

  Theorem pbkdf2_buf_spec c dk : pbkdf2_buf t P S c dk =
    if (c <? 1) || (dk =? 0)%nat || (length S <? 16)%nat || (MAX_PBKDF2_ITERATIONS <? c) then None
    else if (2 ^ 32 - 1) * N.of_nat hlen <? N.of_nat dk then None
    else Some (pbkdf2_derive (pbkdf2_block_A t P S c) hlen dk).
  Proof.
    unfold pbkdf2_buf. fold hlen.
    destruct ((c <? 1) || (dk =? 0)%nat || (length S <? 16)%nat || (MAX_PBKDF2_ITERATIONS <? c)); [reflexivity|].
    destruct ((2 ^ 32 - 1) * N.of_nat hlen <? N.of_nat dk); [reflexivity|].
    f_equal. unfold pbkdf2_derive. apply flat_map_ext_in. intros i _. now rewrite block_B_eq_A.
  Qed.
End PB2.

(* ---------- HKDF ---------- *)
Lemma HKDF_T_length prk info i : (1 <= i)%nat -> length (HKDF_T prk info i) = 32%nat.
Proof. destruct i; [lia|]. intros _. cbn [HKDF_T]. apply (HMAC_spec_length SHA256). Qed.
Lemma HKDF_T_length_le prk info i : (length (HKDF_T prk info i) <= 32)%nat.
Proof. destruct i; [cbn; lia|]. rewrite HKDF_T_length by lia. lia. Qed.

Lemma hkdf_extract_spec ikm salt : N.of_nat (length ikm) < 2 ^ 61 - 128 ->
  N.of_nat (length (match salt with Some s => s | None => [] end)) < 2 ^ 61 ->
  hkdf_extract ikm salt = HKDF_extract_spec (match salt with Some s => s | None => [] end) ikm.
Proof.
  intros Hi Hs. unfold hkdf_extract, HKDF_extract_spec.
  destruct salt as [[|x s]|]; rewrite get_hmac_raw_spec; auto; reflexivity.
Qed.

Lemma hkdf_loop_spec prk info n L : N.of_nat (length prk) < 2 ^ 61 -> N.of_nat (length info) < 2 ^ 60 -> (n <= 255)%nat ->
  forall cnt i previous, (1 <= i)%nat -> (i + cnt = n + 1)%nat -> previous = HKDF_T prk info (i - 1) ->
  hkdf_expand_loop prk info cnt i n L ((i - 1) * 32) previous =
  flat_map (fun j => if (j =? n)%nat then firstn (L - (n - 1) * 32) (HKDF_T prk info j) else HKDF_T prk info j) (seq i cnt).
Proof.
  intros Hprk Hinfo Hn. induction cnt as [|cnt IH]; intros i previous Hi Hic Hprev; [reflexivity|].
  cbn [hkdf_expand_loop seq flat_map].
  assert (Et : get_hmac_raw SHA256 prk (previous ++ info ++ [N.of_nat i mod 256]) = HKDF_T prk info i).
  { rewrite get_hmac_raw_spec.
    - destruct i as [|k]; [lia|]. cbn [HKDF_T]. rewrite Hprev. replace (S k - 1)%nat with k by lia.
      rewrite N.mod_small by lia. reflexivity.
    - exact Hprk.
    - rewrite Hprev, !app_length. cbn [length]. pose proof (HKDF_T_length_le prk info (i - 1)).
      change (2 ^ 61) with 2305843009213693952. change (2 ^ 60) with 1152921504606846976 in Hinfo. lia. }
  rewrite Et. rewrite HKDF_T_length by exact Hi.
  destruct (Nat.eqb_spec i n) as [E|E].
  - subst i. f_equal. assert (cnt = 0%nat) by lia. subst cnt. reflexivity.
  - rewrite (firstn_all2 (n := 32%nat)) by (rewrite HKDF_T_length by exact Hi; lia). f_equal.
    replace ((i - 1) * 32 + 32)%nat with ((S i - 1) * 32)%nat by lia.
    apply IH; try lia. replace (S i - 1)%nat with i by lia. reflexivity.
Qed.

Theorem hkdf_expand_spec prk info L : length prk = 32%nat -> N.of_nat (length info) < 2 ^ 60 -> (L <= 255 * 32)%nat ->
  hkdf_expand prk info L = Ok (HKDF_expand_spec prk info L) /\ length (HKDF_expand_spec prk info L) = L.
Proof.
  intros Hprk Hinfo HL. unfold hkdf_expand, HKDF_expand_spec.
  rewrite Hprk. cbn [Nat.eqb negb].
  replace (255 * 32 <? L)%nat with false by (symmetry; apply Nat.ltb_ge; lia).
  replace (L + 32 - 1)%nat with (L + 31)%nat by lia.
  set (n := ((L + 31) / 32)%nat).
  assert (Hn : (n <= 255 /\ L <= n * 32 /\ (1 <= L -> (n - 1) * 32 < L))%nat).
  { unfold n. pose proof (Nat.div_mod (L + 31) 32 ltac:(lia)). pose proof (Nat.mod_upper_bound (L + 31) 32 ltac:(lia)).
    set (q := ((L + 31) / 32)%nat) in *. clearbody q. lia. }
  destruct Hn as (Hn1 & Hn2 & Hn3).
  assert (Hlen : length (flat_map (HKDF_T prk info) (seq 1 n)) = (n * 32)%nat).
  { clear. induction n as [|n IH]; [reflexivity|]. rewrite seq_S, flat_map_app, app_length, IH. cbn [flat_map].
    rewrite app_nil_r, HKDF_T_length by lia. lia. }
  split.
  - f_equal. destruct (Nat.eq_dec L 0) as [->|HL0].
    + reflexivity.
    + pose proof (hkdf_loop_spec prk info n L ltac:(rewrite Hprk; reflexivity) Hinfo Hn1 n 1%nat [] ltac:(lia) ltac:(lia) eq_refl) as E.
      cbn [Nat.sub Nat.mul] in E. rewrite E.
      pose proof (blocks_truncate (fun j => HKDF_T prk info j) 32 L) as BT. cbn zeta in BT.
      replace ((L + 32 - 1) / 32)%nat with n in BT by (unfold n; f_equal; lia).
      apply BT; try lia. intros j Hj. now apply HKDF_T_length.
  - rewrite firstn_length, Hlen. lia.
Qed.


(* ---------- one block of the derived key ---------- *)
Lemma flat_map_block {B} (f : nat -> list B) h l i : (forall x, length (f x) = h) -> (1 <= i <= l)%nat ->
  firstn h (skipn ((i - 1) * h) (flat_map f (seq 1 l))) = f i.
Proof.
  intros Hf Hi.
  assert (Eseq : seq 1 l = seq 1 (i - 1) ++ [i] ++ seq (i + 1) (l - i)).
  { replace l with ((i - 1) + (1 + (l - i)))%nat at 1 by lia. rewrite seq_app. f_equal.
    replace (1 + (i - 1))%nat with i by lia. rewrite seq_app. cbn [seq app]. reflexivity. }
  rewrite Eseq, !flat_map_app. cbn [flat_map]. rewrite app_nil_r.
  assert (Hlen : length (flat_map f (seq 1 (i - 1))) = ((i - 1) * h)%nat).
  { rewrite (flat_map_length_const f h) by (intros; apply Hf). now rewrite seq_length. }
  rewrite skipn_app, Hlen, Nat.sub_diag. cbn [skipn].
  rewrite skipn_all2 by lia. cbn [app].
  rewrite firstn_app, Hf, Nat.sub_diag. cbn [firstn]. rewrite app_nil_r.
  apply firstn_all2. rewrite Hf. lia.
Qed.

Lemma pbkdf2_spec_block t P S c l i : (1 <= i <= l)%nat ->
  firstn (digest_size t) (skipn ((i - 1) * digest_size t) (PBKDF2_spec t P S c (l * digest_size t))) = pbkdf2_F t P S c (N.of_nat i).
Proof.
  intros Hi. unfold PBKDF2_spec.
  assert (Hh : (0 < digest_size t)%nat) by (destruct t; cbn; lia).
  assert (El : ((l * digest_size t + digest_size t - 1) / digest_size t = l)%nat).
  { symmetry. apply (Nat.div_unique _ _ l (digest_size t - 1)); lia. }
  rewrite El.
  set (fm := flat_map (fun i0 : nat => pbkdf2_F t P S c (N.of_nat i0)) (seq 1 l)).
  assert (Hfm : length fm = (l * digest_size t)%nat).
  { unfold fm. rewrite (flat_map_length_const _ (digest_size t)) by (intros; apply F_len). now rewrite seq_length. }
  rewrite (firstn_all2 (n := (l * digest_size t)%nat) fm) by lia.
  apply (flat_map_block (fun i => pbkdf2_F t P S c (N.of_nat i)) (digest_size t) l i); [intros; apply F_len|exact Hi].
Qed.
