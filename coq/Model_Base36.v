(* Model_Base36: hmac_cpp::base36_encode / base36_decode(string, vector) (src/encoding.cpp, section "Base36")
   re-expressed as total Gallina functions following the control flow of the C++.  Definitions only.

   Representation choices (all order-preserving, none changes a result):
   * `next` of the division pass is built with push_back in the C++; the model accumulates it in reverse
     (`next_rev`, newest element first) and reverses once when the pass is finished, so a pass is linear.
   * the multiply-accumulate pass walks b256 from its last index down to 0; the model walks `rev b256` from its
     head and conses the rewritten bytes, which puts them back in index order.
   * the loops whose termination is not structural (the outer division loop, `while (carry > 0)`) run on explicit
     fuel; exhaustion yields `fuel_exhausted`, a value no run of the C++ can produce (1000 is neither a byte nor a
     character).  Proofs_Base36 shows it is unreachable (enc_loop_fuel_ok, carry_loop_ok, C15_decoded_ok). *)
From HV Require Import Base_Bytes.
Local Open Scope N_scope.

Definition fuel_exhausted : list N := [1000].

(* b36_alphabet()[i] *)
Definition b36_alphabet : list N :=
  [48;49;50;51;52;53;54;55;56;57;
   65;66;67;68;69;70;71;72;73;74;75;76;77;78;79;80;81;82;83;84;85;86;87;88;89;90].
Definition b36_char (i : N) : N := nth (N.to_nat i) b36_alphabet 0.

(* `while (k < len && v[k] == x) ++k;` : number of leading elements equal to x *)
Fixpoint count_lead (x : N) (l : list N) : nat :=
  match l with
  | y :: r => if y =? x then S (count_lead x r) else O
  | [] => O
  end.

Definition is_nil {A} (l : list A) : bool := match l with [] => true | _ => false end.

(* ---- encoder ---- *)

(* the inner for loop: one long division of tmp by 36.  State: carry and next (reversed). *)
Fixpoint div_pass (tmp : list N) (carry : N) (next_rev : list N) : N * list N :=
  match tmp with
  | [] => (carry, next_rev)
  | t :: rest =>
      let cur := N.lor (N.shiftl carry 8) t in                 (* uint32_t cur = (carry << 8) | tmp[i] *)
      let div := N.land (cur / 36) 0xFF in                      (* static_cast<uint8_t>(cur / 36) *)
      let carry' := cur mod 36 in
      let next_rev' := if negb (is_nil next_rev) || negb (div =? 0) then div :: next_rev else next_rev in
      div_pass rest carry' next_rev'
  end.

(* `while (!tmp.empty())`: the characters pushed to `out`, in push order (least significant digit first) *)
Fixpoint enc_loop (fuel : nat) (tmp : list N) : option (list N) :=
  match tmp with
  | [] => Some []
  | _ =>
      match fuel with
      | O => None
      | S f =>
          let '(carry, next_rev) := div_pass tmp 0 [] in
          match enc_loop f (rev next_rev) with            (* tmp = std::move(next) *)
          | Some out => Some (b36_char carry :: out)      (* out.push_back(b36_alphabet()[carry]) *)
          | None => None
          end
      end
  end.

Definition base36_encode (data : list N) : list N :=
  match data with
  | [] => []                                               (* len == 0 *)
  | [0] => [48]                                            (* len == 1 && data[0] == 0 *)
  | _ =>
      let zeros := count_lead 0 data in
      let tmp := skipn zeros data in
      match enc_loop (2 * length data + 2) tmp with
      | None => fuel_exhausted
      | Some out =>
          let out := if is_nil out then [48] else out in   (* if (out.empty()) out.push_back('0') *)
          repeat 48 zeros ++ rev out                       (* reverse; out.insert(0, zeros, '0') *)
      end
  end.

(* ---- decoder ---- *)

(* the character classification of the decode loop; None = `else return false` *)
Definition b36_val (c : N) : option N :=
  if (48 <=? c) && (c <=? 57) then Some (c - 48)
  else if (65 <=? c) && (c <=? 90) then Some (c - 65 + 10)
  else if (97 <=? c) && (c <=? 122) then Some (c - 97 + 10)
  else None.

(* `for (j = b256.size(); j-- > 0;)` over rb = rev b256; acc = the bytes already rewritten, in index order *)
Fixpoint mul_pass (rb : list N) (carry : N) (acc : list N) : N * list N :=
  match rb with
  | [] => (carry, acc)
  | x :: r =>
      let cur := x * 36 + carry in
      mul_pass r (N.shiftr cur 8) (N.land cur 0xFF :: acc)
  end.

(* `while (carry > 0) { b256.insert(b256.begin(), carry & 0xFF); carry >>= 8; }`
   carry is a non-negative 32-bit int, so four rounds always finish it *)
Fixpoint carry_loop (fuel : nat) (carry : N) (b256 : list N) : option (list N) :=
  if carry =? 0 then Some b256
  else match fuel with
       | O => None
       | S f => carry_loop f (N.shiftr carry 8) (N.land carry 0xFF :: b256)
       end.

Inductive dec_result : Type :=
| DecOk (b256 : list N)
| DecFalse            (* return false *)
| DecFuel.            (* model fuel exhausted: unreachable *)

(* `for (i = zeros; i < in.size(); ++i)` over the characters still to read *)
Fixpoint dec_loop (s : list N) (b256 : list N) : dec_result :=
  match s with
  | [] => DecOk b256
  | c :: rest =>
      match b36_val c with
      | None => DecFalse
      | Some val =>
          let '(carry, b) := mul_pass (rev b256) val [] in
          match carry_loop 4 carry b with
          | None => DecFuel
          | Some b' => dec_loop rest b'
          end
      end
  end.

Definition base36_decode (input : list N) : option (list N) :=
  match input with
  | [] => Some []                                                      (* in.empty() *)
  | _ =>
      if forallb (fun c => c =? 48) input                             (* all_zero *)
      then (if (length input =? 1)%nat then Some [0] else Some (repeat 0 (length input - 1)))
      else
        let zeros := count_lead 48 input in
        match dec_loop (skipn zeros input) [0] with
        | DecFalse => None
        | DecFuel => Some fuel_exhausted
        | DecOk b256 =>
            let start := count_lead 0 b256 in
            Some (repeat 0 zeros ++ skipn start b256)
        end
  end.
