(* C11 - argument validation is total and exact; non-throwing APIs never abort.
   The verdict models (Model_Args.v) follow the order of checks in the C++; the domains (Proofs_Args.v) are the
   documented rules.  Descriptors: pointer nullness, lengths (0 <= len as size_t), ints, raw selector values, the clock. *)
From HV Require Import Base_Bytes Base_Result Model_Otp Model_Args Proofs_Args.
Local Open Scope Z_scope.

(* accepted exactly on the documented domain - every boundary value included *)
Theorem C11_get_hmac_exact : forall key msg sel, 0 <= b_len key -> 0 <= b_len msg ->
  (v_get_hmac key msg sel = Accept <-> dom_get_hmac key msg sel).
Proof. exact get_hmac_exact. Qed.
Print Assumptions C11_get_hmac_exact.

Theorem C11_pbkdf2_exact : forall pw salt it dk sel, 0 <= b_len pw -> 0 <= b_len salt -> 0 <= dk ->
  (v_pbkdf2_vec pw salt it dk sel = Accept <-> dom_pbkdf2_vec pw salt it dk sel).
Proof. exact pbkdf2_vec_exact. Qed.
Print Assumptions C11_pbkdf2_exact.

Theorem C11_pbkdf2_buffer_exact : forall pw salt out_null it dk sel, 0 <= b_len pw -> 0 <= b_len salt -> 0 <= dk ->
  (v_pbkdf2_buf pw salt out_null it dk sel = Accept <-> dom_pbkdf2_buf pw salt out_null it dk sel).
Proof. exact pbkdf2_buf_exact. Qed.
Print Assumptions C11_pbkdf2_buffer_exact.

Theorem C11_hkdf_extract_exact : forall ikm salt, 0 <= b_len ikm -> 0 <= b_len salt ->
  (v_hkdf_extract ikm salt = Accept <-> dom_hkdf_extract ikm salt).
Proof. exact hkdf_extract_exact. Qed.
Print Assumptions C11_hkdf_extract_exact.

Theorem C11_hkdf_expand_exact : forall prk info L, v_hkdf_expand prk info L = Accept <-> dom_hkdf_expand prk info L.
Proof. exact hkdf_expand_exact. Qed.
Print Assumptions C11_hkdf_expand_exact.

Theorem C11_hotp_exact : forall key digits sel, 0 <= b_len key -> (v_hotp key digits sel = Accept <-> dom_hotp key digits sel).
Proof. exact hotp_exact. Qed.
Print Assumptions C11_hotp_exact.

Theorem C11_totp_clock_exact : forall key period digits sel c, 0 <= b_len key ->
  (v_totp_now key period digits sel c = Accept <-> 1 <= period /\ dom_clock_totp c /\ dom_hotp key digits sel).
Proof. exact totp_now_exact. Qed.
Print Assumptions C11_totp_clock_exact.

Theorem C11_token_exact : forall interval sel c, v_token interval sel c = Accept <-> dom_token interval sel c.
Proof. exact token_exact. Qed.
Print Assumptions C11_token_exact.

(* every signal is the documented one for a rule the arguments actually violate *)
Theorem C11_get_hmac_signal : forall key msg sel e, v_get_hmac key msg sel = Sig e ->
  (e = InvalidArgument /\ (bad_null key = true \/ bad_null msg = true \/ sel_ok sel = false)) \/
  (e = OverflowError /\ SIZE_MAX - sel_block sel < b_len msg).
Proof. exact get_hmac_signal. Qed.
Print Assumptions C11_get_hmac_signal.

Theorem C11_pbkdf2_signal : forall pw salt it dk sel e, v_pbkdf2_vec pw salt it dk sel = Sig e ->
  (e = InvalidArgument /\ (bad_null pw = true \/ bad_null salt = true \/ it < 1 \/ MAX_ITER < it \/ dk = 0 \/ b_len salt = 0 \/
                           sel_ok sel = false \/ (2 ^ 32 - 1) * sel_digest sel < dk)) \/
  (e = OverflowError /\ SIZE_MAX - sel_block sel < b_len salt + 4).
Proof. exact pbkdf2_vec_signal. Qed.
Print Assumptions C11_pbkdf2_signal.

(* the API declared non-throwing reports every invalid argument by returning false: never a throw, never terminate *)
Theorem C11_nothrow : forall pw salt out_null it dk sel,
  v_pbkdf2_buf pw salt out_null it dk sel = Accept \/ v_pbkdf2_buf pw salt out_null it dk sel = RetFalse.
Proof. exact pbkdf2_buf_nothrow. Qed.
Print Assumptions C11_nothrow.

Theorem C11_never_terminate :
  (forall k m s, v_get_hmac k m s <> Terminate) /\ (forall p s i d x, v_pbkdf2_vec p s i d x <> Terminate) /\
  (forall p s o i d x, v_pbkdf2_buf p s o i d x <> Terminate) /\ (forall a b, v_hkdf_extract a b <> Terminate) /\
  (forall a b c, v_hkdf_expand a b c <> Terminate) /\ (forall k d s, v_hotp k d s <> Terminate) /\ (forall i s c, v_token i s c <> Terminate).
Proof. exact never_terminate. Qed.
Print Assumptions C11_never_terminate.

(* finding F2, machine-checked: before the fix the non-throwing PBKDF2 terminated on an unknown selector *)
Theorem C11_pinned_refuted : exists pw salt o it dk sel, v_pbkdf2_buf_pinned pw salt o it dk sel = Terminate.
Proof. exact pbkdf2_buf_pinned_refuted. Qed.
Print Assumptions C11_pinned_refuted.

Example C11_boundaries :
  v_pbkdf2_vec {| b_null := false; b_len := 0 |} {| b_null := false; b_len := 1 |} 1000000 (4294967295 * 20) 0 = Accept /\
  v_pbkdf2_vec {| b_null := false; b_len := 0 |} {| b_null := false; b_len := 1 |} 1000001 20 0 = Sig InvalidArgument /\
  v_pbkdf2_vec {| b_null := false; b_len := 0 |} {| b_null := false; b_len := 1 |} 1 (4294967295 * 20 + 1) 0 = Sig InvalidArgument /\
  v_hkdf_expand {| b_null := false; b_len := 32 |} {| b_null := true; b_len := 5 |} 8160 = Accept /\
  v_get_hmac {| b_null := true; b_len := 0 |} {| b_null := false; b_len := 2 ^ 64 - 1 - 64 |} 1 = Accept /\
  v_get_hmac {| b_null := true; b_len := 0 |} {| b_null := false; b_len := 2 ^ 64 - 64 |} 1 = Sig OverflowError.
Proof. vm_compute. repeat split; reflexivity. Qed.
