(* C10 - execution independent of secret bytes. PARTIAL: proved here is that in the models every quantity branches and
   addresses depend on (fill levels, counters, array lengths, trip counts, access ranges) is a function of lengths and public
   parameters; what the compiler makes of the source, and the completeness of that list, are observed with valgrind memcheck on
   the real binary with all secret bytes marked undefined. *)
From HV Require Import Base_Bytes Spec_SHA Model_Sha2Ctx Model_Hash Model_Hmac Model_Bounds Proofs_Hash Proofs_Leakage.
Local Open Scope N_scope.

(* hash contexts: same type, chunk lists of the same lengths => same public state (bytes buffered, counter, array length),
   whatever the contents and whatever either object held before *)
Theorem C10_hash_public_state : forall c c' cs cs', hshape c -> hshape c' -> htype c = htype c' ->
  map (@length N) cs = map (@length N) cs' ->
  hpublic (fold_left hupdate cs (hinit c)) = hpublic (fold_left hupdate cs' (hinit c')).
Proof. exact hash_public_state. Qed.
Print Assumptions C10_hash_public_state.

(* the address ranges update/finish touch are a function of that public state and the message length *)
Theorem C10_sha2_addresses : forall B thr c c' len, m_len c = m_len c' ->
  update2_block_writes B c len = update2_block_writes B c' len /\ update2_block_reads B c len = update2_block_reads B c' len /\
  update2_message_reads B c len = update2_message_reads B c' len /\ finish2_block_accesses B thr c = finish2_block_accesses B thr c'.
Proof. exact sha2_addresses. Qed.
Print Assumptions C10_sha2_addresses.

(* streaming HMAC (and through it PBKDF2's caller-buffer form and secret_string): keys of equal length and chunk lists of equal
   lengths drive the embedded hash context through the same public states *)
Theorem C10_hmac_public_state : forall h h' K K' cs cs', hmac_shape h -> hmac_shape h' -> hc_type h = hc_type h' ->
  N.of_nat (length K) < 2 ^ 61 -> N.of_nat (length K') < 2 ^ 61 -> map (@length N) cs = map (@length N) cs' ->
  hpublic (hc_get (fold_left hmac_update cs (hmac_init h K))) = hpublic (hc_get (fold_left hmac_update cs' (hmac_init h' K'))).
Proof. exact hmac_public_state. Qed.
Print Assumptions C10_hmac_public_state.

(* constant_time_equals: the loop runs over max(len a, len b) indices whatever the bytes *)
Theorem C10_compare_indices : forall a b a' b', length a = length a' -> length b = length b' -> ct_loop_indices a b = ct_loop_indices a' b'.
Proof. exact ct_equals_indices. Qed.
Print Assumptions C10_compare_indices.

Example C10_nonvacuous :
  hpublic (fold_left hupdate [[1;2;3]; repeat 9 70] (hinit (hfresh SHA256))) = hpublic (fold_left hupdate [[7;7;7]; repeat 0 70] (hinit (hfresh SHA256))).
Proof. vm_compute. reflexivity. Qed.
