(* Base_Bytes: bytes as N, byte strings as list N, big-endian packing, xor, hex. Definitions only
   (executable); lemmas live in Base_BytesLemmas.v so the definitions stay runnable when a proof breaks. *)
From Coq Require Export List NArith ZArith Arith Lia Bool.
Export ListNotations.
Local Open Scope N_scope.

Definition byte_okb (b : N) : bool := b <? 256.
Definition bytes_okb (l : list N) : bool := forallb byte_okb l.

(* k-byte big-endian representation of v mod 256^k (most significant first) *)
Fixpoint le_bytes (k : nat) (v : N) : list N :=
  match k with O => [] | S k' => (v mod 256) :: le_bytes k' (v / 256) end.
Definition be_bytes (k : nat) (v : N) : list N := rev (le_bytes k v).

(* value of a big-endian byte string *)
Definition be_val (l : list N) : N := fold_left (fun acc b => acc * 256 + b) l 0.

Definition xor_const (c : N) (l : list N) : list N := map (fun b => N.lxor b c) l.
Fixpoint xor_bytes (a b : list N) : list N :=
  match a, b with
  | x :: a', y :: b' => N.lxor x y :: xor_bytes a' b'
  | _, _ => []
  end.

(* zero-pad / truncate to exactly n bytes *)
Definition pad_to (n : nat) (l : list N) : list N := firstn n l ++ repeat 0 (n - length l).

(* splice src into dst at offset off (memcpy into an array); dst keeps its length when it fits *)
Definition write_at (dst : list N) (off : nat) (src : list N) : list N :=
  firstn off dst ++ src ++ skipn (off + length src) dst.

(* ASCII helpers *)
Definition hex_digit (upper : bool) (d : N) : N :=
  if d <? 10 then 48 + d else (if upper then 55 else 87) + d.
Definition hex_of_bytes (upper : bool) (l : list N) : list N :=
  flat_map (fun b => [hex_digit upper (b / 16); hex_digit upper (b mod 16)]) l.

(* list chunking into blocks of B (last one possibly short) *)
Section Chunks.
  Context {A : Type}.
  Fixpoint chunks_fuel (fuel B : nat) (l : list A) : list (list A) :=
    match fuel with
    | O => []
    | S f => match l with [] => [] | _ => firstn B l :: chunks_fuel f B (skipn B l) end
    end.
  Definition chunks (B : nat) (l : list A) := chunks_fuel (length l) B l.
End Chunks.
