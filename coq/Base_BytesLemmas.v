From HV Require Import Base_Bytes.
Local Open Scope N_scope.

Section Chunks.
  Context {A : Type}.
  Lemma chunks_fuel_enough B (l : list A) f1 f2 : (0 < B)%nat -> (length l <= f1)%nat -> (length l <= f2)%nat ->
    chunks_fuel f1 B l = chunks_fuel f2 B l.
  Proof.
    intros HB. revert l f2. induction f1 as [|f1 IH]; intros l f2 H1 H2.
    - destruct l; [|simpl in H1; lia]. destruct f2; reflexivity.
    - destruct f2 as [|f2]; [destruct l; [reflexivity|simpl in H2; lia]|].
      destruct l as [|a l]; [reflexivity|]. cbn [chunks_fuel]. f_equal.
      apply IH; rewrite skipn_length; simpl length in *; lia.
  Qed.

  Lemma chunks_app_block B (blk l : list A) : (0 < B)%nat -> length blk = B ->
    chunks B (blk ++ l) = blk :: chunks B l.
  Proof.
    intros HB Hb. unfold chunks. rewrite app_length, Hb.
    destruct B as [|B']; [lia|]. cbn [Nat.add chunks_fuel].
    destruct blk as [|a blk]; [discriminate|]. cbn [app].
    change (a :: blk ++ l) with ((a :: blk) ++ l).
    rewrite firstn_app, skipn_app, Hb, Nat.sub_diag, firstn_all2, skipn_all2 by lia.
    cbn [firstn skipn]. rewrite !app_nil_r, app_nil_l. f_equal.
    apply chunks_fuel_enough; lia.
  Qed.
  Lemma chunks_nil B : chunks B (@nil A) = []. Proof. reflexivity. Qed.

  Lemma chunks_app_mult B k (a l : list A) : (0 < B)%nat -> length a = (k * B)%nat ->
    chunks B (a ++ l) = chunks B a ++ chunks B l.
  Proof.
    intros HB. revert a. induction k as [|k IH]; intros a Ha.
    - destruct a; [reflexivity|simpl in Ha; lia].
    - rewrite <- (firstn_skipn B a). rewrite <- app_assoc.
      assert (length (firstn B a) = B) by (rewrite firstn_length; simpl in Ha; lia).
      rewrite (chunks_app_block B (firstn B a) (skipn B a ++ l)), (chunks_app_block B (firstn B a) (skipn B a)) by assumption. cbn [app]. f_equal.
      apply IH. rewrite skipn_length. simpl in Ha. lia.
  Qed.
End Chunks.

Lemma le_bytes_length k v : length (le_bytes k v) = k.
Proof. revert v; induction k; intros; simpl; auto. Qed.
Lemma be_bytes_length k v : length (be_bytes k v) = k.
Proof. unfold be_bytes. now rewrite rev_length, le_bytes_length. Qed.

Lemma le_bytes_ok k v : bytes_okb (le_bytes k v) = true.
Proof.
  revert v; induction k as [|k IH]; intros v; cbn [le_bytes bytes_okb forallb]; [reflexivity|].
  fold (bytes_okb (le_bytes k (v / 256))). rewrite IH, andb_true_r.
  unfold byte_okb. apply N.ltb_lt. apply N.mod_lt. discriminate.
Qed.
Lemma bytes_okb_app a b : bytes_okb (a ++ b) = bytes_okb a && bytes_okb b.
Proof. unfold bytes_okb. apply forallb_app. Qed.
Lemma bytes_okb_rev a : bytes_okb (rev a) = bytes_okb a.
Proof.
  induction a as [|x a IH]; [reflexivity|]. cbn [rev]. rewrite bytes_okb_app, IH.
  cbn [bytes_okb forallb]. rewrite andb_true_r. apply andb_comm.
Qed.
Lemma be_bytes_ok k v : bytes_okb (be_bytes k v) = true.
Proof. unfold be_bytes. now rewrite bytes_okb_rev, le_bytes_ok. Qed.

Lemma write_at_length dst off src : (off + length src <= length dst)%nat ->
  length (write_at dst off src) = length dst.
Proof.
  intros H. unfold write_at. rewrite !app_length, firstn_length, skipn_length. lia.
Qed.
Lemma write_at_firstn dst off src : (off <= length dst)%nat ->
  firstn (off + length src) (write_at dst off src) = firstn off dst ++ src.
Proof.
  intros H. unfold write_at. rewrite app_assoc.
  rewrite firstn_app. rewrite app_length, firstn_length, Nat.min_l by lia.
  rewrite firstn_all2 by (rewrite app_length, firstn_length; lia).
  replace (off + length src - (off + length src))%nat with 0%nat by lia. cbn [firstn]. now rewrite app_nil_r.
Qed.

(* ---------- more list algebra (8.16 lacks skipn_skipn, firstn_repeat) ---------- *)
Lemma skipn_skipn' {A} (l : list A) a b : skipn a (skipn b l) = skipn (b + a) l.
Proof.
  revert l; induction b as [|b IH]; intros l; cbn [Nat.add]; [reflexivity|].
  destruct l as [|x l]; [now rewrite !skipn_nil|]. cbn [skipn]. apply IH.
Qed.
Lemma firstn_repeat {A} (x : A) n k : firstn k (repeat x n) = repeat x (Nat.min k n).
Proof.
  revert k; induction n as [|n IH]; intros k; destruct k; cbn; try reflexivity. now rewrite IH.
Qed.
Lemma skipn_repeat {A} (x : A) n k : skipn k (repeat x n) = repeat x (n - k).
Proof.
  revert k; induction n as [|n IH]; intros k; destruct k; cbn; try reflexivity. now rewrite IH.
Qed.
Lemma firstn_succ_blocks {A} (l : list A) B k : firstn ((k + 1) * B) l = firstn B l ++ firstn (k * B) (skipn B l).
Proof.
  replace ((k + 1) * B)%nat with (B + k * B)%nat by lia.
  rewrite <- (firstn_skipn B l) at 1.
  destruct (Nat.le_gt_cases B (length l)) as [H|H].
  - rewrite firstn_app, firstn_length, Nat.min_l by lia.
    rewrite (firstn_all2 (n := (B + k * B)%nat) (firstn B l)) by (rewrite firstn_length; lia).
    replace (B + k * B - B)%nat with (k * B)%nat by lia. reflexivity.
  - rewrite (skipn_all2 l) by lia. rewrite firstn_nil, !app_nil_r.
    rewrite (firstn_all2 l) by lia. rewrite firstn_all2 by lia. reflexivity.
Qed.

Lemma write_at_app_r dst_l dst_r k src :
  write_at (dst_l ++ dst_r) (length dst_l + k) src = dst_l ++ write_at dst_r k src.
Proof.
  unfold write_at. rewrite firstn_app_2, skipn_app.
  rewrite (skipn_all2 dst_l) by lia. cbn [app].
  replace (length dst_l + k + length src - length dst_l)%nat with (k + length src)%nat by lia.
  now rewrite <- app_assoc.
Qed.
Lemma write_at_app_l dst_l dst_r k src : (k + length src <= length dst_l)%nat ->
  write_at (dst_l ++ dst_r) k src = write_at dst_l k src ++ dst_r.
Proof.
  intros H. unfold write_at. rewrite firstn_app, skipn_app.
  replace (k - length dst_l)%nat with 0%nat by lia.
  replace (k + length src - length dst_l)%nat with 0%nat by lia.
  cbn [firstn skipn]. now rewrite app_nil_r, <- !app_assoc.
Qed.
Lemma write_at_repeat (x : N) n k src : (k + length src <= n)%nat ->
  write_at (repeat x n) k src = repeat x k ++ src ++ repeat x (n - k - length src).
Proof.
  intros H. unfold write_at. rewrite firstn_repeat, skipn_repeat, Nat.min_l by lia.
  do 3 f_equal. lia.
Qed.
Lemma write_at_decompose dst off src : (off + length src <= length dst)%nat ->
  write_at dst off src = firstn off dst ++ src ++ skipn (off + length src) dst.
Proof. reflexivity. Qed.
Lemma write_at_firstn_le dst off src k : (k <= off)%nat -> (off <= length dst)%nat ->
  firstn k (write_at dst off src) = firstn k dst.
Proof.
  intros H1 H2. unfold write_at. rewrite firstn_app, firstn_firstn, Nat.min_l by lia.
  rewrite firstn_length, Nat.min_l by lia. replace (k - off)%nat with 0%nat by lia.
  cbn [firstn]. now rewrite app_nil_r.
Qed.

(* ---------- big-endian packing ---------- *)
Lemma le_bytes_app j k v : le_bytes (j + k) v = le_bytes j v ++ le_bytes k (v / 256 ^ N.of_nat j).
Proof.
  revert v; induction j as [|j IH]; intros v.
  - cbn [Nat.add le_bytes app N.of_nat]. now rewrite N.pow_0_r, N.div_1_r.
  - cbn [Nat.add le_bytes app]. f_equal. rewrite IH. f_equal. f_equal.
    rewrite Nat2N.inj_succ, N.pow_succ_r', N.div_div by (try apply N.pow_nonzero; discriminate). reflexivity.
Qed.
Lemma le_bytes_zero k : le_bytes k 0 = repeat 0 k.
Proof. induction k as [|k IH]; [reflexivity|]. cbn [le_bytes repeat]. now rewrite N.mod_0_l, N.div_0_l, IH by discriminate. Qed.
Lemma rev_repeat' {A} (x : A) n : rev (repeat x n) = repeat x n.
Proof.
  induction n as [|n IH]; [reflexivity|]. cbn [repeat rev]. rewrite IH.
  change [x] with (repeat x 1). rewrite <- repeat_app. now rewrite Nat.add_1_r.
Qed.
Lemma be_bytes_widen j k v : v < 256 ^ N.of_nat j -> be_bytes (k + j) v = repeat 0 k ++ be_bytes j v.
Proof.
  intros H. unfold be_bytes. rewrite Nat.add_comm, le_bytes_app, rev_app_distr.
  rewrite N.div_small by exact H. rewrite le_bytes_zero, rev_repeat'. reflexivity.
Qed.

Lemma chunks_length_mult {A} B k (l : list A) : (0 < B)%nat -> length l = (k * B)%nat -> length (chunks B l) = k.
Proof.
  intros HB. revert l. induction k as [|k IH]; intros l Hl.
  - destruct l; [reflexivity|simpl in Hl; lia].
  - rewrite <- (firstn_skipn B l).
    assert (length (firstn B l) = B) by (rewrite firstn_length; simpl in Hl; lia).
    rewrite chunks_app_block by assumption. cbn [length]. f_equal. apply IH.
    rewrite skipn_length. simpl in Hl. lia.
Qed.
Lemma chunks_single {A} B (blk : list A) : (0 < B)%nat -> length blk = B -> chunks B blk = [blk].
Proof. intros HB H. rewrite <- (app_nil_r blk) at 1. rewrite chunks_app_block by assumption. reflexivity. Qed.
