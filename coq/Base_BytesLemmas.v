From HV Require Import Base_Bytes.
Local Open Scope N_scope.

Section Chunks.
  Context {A : Type}.
  Lemma chunks_fuel_enough B (l : list A) f1 f2 : (0 < B)%nat -> (length l <= f1)%nat -> (length l <= f2)%nat ->
    chunks_fuel f1 B l = chunks_fuel f2 B l.
  Proof.
    intros HB. revert l f2. induction f1 as [|f1 IH]; intros l f2 H1 H2.
    - destruct l; [|simpl in H1; lia]. destruct f2; reflexivity.
    - destruct f2 as [|f2]; [destruct l; [reflexivity|simpl in H2; lia]|].
      destruct l as [|a l]; [reflexivity|]. cbn [chunks_fuel]. f_equal.
      apply IH; rewrite skipn_length; simpl length in *; lia.
  Qed.

  Lemma chunks_app_block B (blk l : list A) : (0 < B)%nat -> length blk = B ->
    chunks B (blk ++ l) = blk :: chunks B l.
  Proof.
    intros HB Hb. unfold chunks. rewrite app_length, Hb.
    destruct B as [|B']; [lia|]. cbn [Nat.add chunks_fuel].
    destruct blk as [|a blk]; [discriminate|]. cbn [app].
    change (a :: blk ++ l) with ((a :: blk) ++ l).
    rewrite firstn_app, skipn_app, Hb, Nat.sub_diag, firstn_all2, skipn_all2 by lia.
    cbn [firstn skipn]. rewrite !app_nil_r, app_nil_l. f_equal.
    apply chunks_fuel_enough; lia.
  Qed.
  Lemma chunks_nil B : chunks B (@nil A) = []. Proof. reflexivity. Qed.

  Lemma chunks_app_mult B k (a l : list A) : (0 < B)%nat -> length a = (k * B)%nat ->
    chunks B (a ++ l) = chunks B a ++ chunks B l.
  Proof.
    intros HB. revert a. induction k as [|k IH]; intros a Ha.
    - destruct a; [reflexivity|simpl in Ha; lia].
    - rewrite <- (firstn_skipn B a). rewrite <- app_assoc.
      assert (length (firstn B a) = B) by (rewrite firstn_length; simpl in Ha; lia).
      rewrite (chunks_app_block B (firstn B a) (skipn B a ++ l)), (chunks_app_block B (firstn B a) (skipn B a)) by assumption. cbn [app]. f_equal.
      apply IH. rewrite skipn_length. simpl in Ha. lia.
  Qed.
End Chunks.

Lemma le_bytes_length k v : length (le_bytes k v) = k.
Proof. revert v; induction k; intros; simpl; auto. Qed.
Lemma be_bytes_length k v : length (be_bytes k v) = k.
Proof. unfold be_bytes. now rewrite rev_length, le_bytes_length. Qed.

Lemma le_bytes_ok k v : bytes_okb (le_bytes k v) = true.
Proof.
  revert v; induction k as [|k IH]; intros v; cbn [le_bytes bytes_okb forallb]; [reflexivity|].
  fold (bytes_okb (le_bytes k (v / 256))). rewrite IH, andb_true_r.
  unfold byte_okb. apply N.ltb_lt. apply N.mod_lt. discriminate.
Qed.
Lemma bytes_okb_app a b : bytes_okb (a ++ b) = bytes_okb a && bytes_okb b.
Proof. unfold bytes_okb. apply forallb_app. Qed.
Lemma bytes_okb_rev a : bytes_okb (rev a) = bytes_okb a.
Proof.
  induction a as [|x a IH]; [reflexivity|]. cbn [rev]. rewrite bytes_okb_app, IH.
  cbn [bytes_okb forallb]. rewrite andb_true_r. apply andb_comm.
Qed.
Lemma be_bytes_ok k v : bytes_okb (be_bytes k v) = true.
Proof. unfold be_bytes. now rewrite bytes_okb_rev, le_bytes_ok. Qed.

Lemma write_at_length dst off src : (off + length src <= length dst)%nat ->
  length (write_at dst off src) = length dst.
Proof.
  intros H. unfold write_at. rewrite !app_length, firstn_length, skipn_length. lia.
Qed.
Lemma write_at_firstn dst off src : (off <= length dst)%nat ->
  firstn (off + length src) (write_at dst off src) = firstn off dst ++ src.
Proof.
  intros H. unfold write_at. rewrite app_assoc.
  rewrite firstn_app. rewrite app_length, firstn_length, Nat.min_l by lia.
  rewrite firstn_all2 by (rewrite app_length, firstn_length; lia).
  replace (off + length src - (off + length src))%nat with 0%nat by lia. cbn [firstn]. now rewrite app_nil_r.
Qed.
