(* Proofs_SecureBuffer: the heap model of secure_buffer (Model_SecureBuffer.v) behaves as a plain byte vector
   (refinement of spec_run), keeps the invariant "size <= capacity, live cells are written, slack is fresh-or-zero",
   and with the repaired resize every block it hands back to the allocator is fresh-or-zero.
   All statements are for every history, every growth policy, without any bound on lengths. *)
From HV Require Import Base_Bytes Base_BytesLemmas Model_SecureBuffer.

(* ---------- definitions used by the property statements ---------- *)
Definition vec_inv (v : vec) : Prop :=
  (sz v <= cap v)%nat /\ forallb is_val (live v) = true /\ block_clean (skipn (sz v) (blk v)) = true.
Definition state_inv (s : state) : Prop := vec_inv (sa s) /\ vec_inv (sb s).
Definition state_contents (s : state) : spec_state := (contents (sa s), contents (sb s)).
Definition op_adopts_clean (o : op) : Prop :=
  match o with OAdopt _ _ slack => block_clean slack = true | _ => True end.

(* the part of the invariant the functional behaviour depends on *)
Definition wf (v : vec) : Prop := (sz v <= cap v)%nat.
Definition state_wf (s : state) : Prop := wf (sa s) /\ wf (sb s).

(* ---------- generic list facts ---------- *)
Lemma firstn_app_ge {A} n (a b : list A) : length a <= n -> firstn n (a ++ b) = a ++ firstn (n - length a) b.
Proof. intros H. rewrite firstn_app, firstn_all2 by exact H. reflexivity. Qed.
Lemma skipn_app_ge {A} n (a b : list A) : length a <= n -> skipn n (a ++ b) = skipn (n - length a) b.
Proof. intros H. rewrite skipn_app, skipn_all2 by exact H. reflexivity. Qed.
Lemma firstn_app_exact {A} n (a b : list A) : length a = n -> firstn n (a ++ b) = a.
Proof.
  intros H. rewrite firstn_app_ge by lia. replace (n - length a) with 0 by lia. cbn [firstn]. apply app_nil_r.
Qed.
Lemma skipn_app_exact {A} n (a b : list A) : length a = n -> skipn n (a ++ b) = b.
Proof. intros H. rewrite skipn_app_ge by lia. replace (n - length a) with 0 by lia. reflexivity. Qed.

Lemma forallb_split {A} (f : A -> bool) n l :
  forallb f l = true -> forallb f (firstn n l) = true /\ forallb f (skipn n l) = true.
Proof. intros H. rewrite <- (firstn_skipn n l), forallb_app in H. now apply andb_true_iff in H. Qed.
Lemma forallb_firstn {A} (f : A -> bool) n l : forallb f l = true -> forallb f (firstn n l) = true.
Proof. intros H. now apply (forallb_split f n l). Qed.
Lemma forallb_skipn {A} (f : A -> bool) n l : forallb f l = true -> forallb f (skipn n l) = true.
Proof. intros H. now apply (forallb_split f n l). Qed.
Lemma forallb_repeat {A} (f : A -> bool) x n : f x = true -> forallb f (repeat x n) = true.
Proof. intros H. induction n as [|n IH]; cbn [repeat forallb]; [reflexivity|]. now rewrite H, IH. Qed.
Lemma forallb_app2 {A} (f : A -> bool) a b : forallb f a = true -> forallb f b = true -> forallb f (a ++ b) = true.
Proof. intros Ha Hb. now rewrite forallb_app, Ha, Hb. Qed.

(* overwriting one element below position s: what is below s and what is at or above s *)
Lemma firstn_write {A} (l : list A) i s y : i < s -> s <= length l ->
  firstn s (firstn i l ++ [y] ++ skipn (S i) l) = firstn i (firstn s l) ++ [y] ++ skipn (S i) (firstn s l).
Proof.
  intros Hi Hs. rewrite firstn_app_ge by (rewrite firstn_length; lia).
  rewrite firstn_length, Nat.min_l by lia.
  replace (s - i) with (S (s - S i)) by lia. cbn [app firstn].
  rewrite firstn_firstn, Nat.min_l by lia. rewrite skipn_firstn_comm. reflexivity.
Qed.
Lemma skipn_write {A} (l : list A) i s y : i < s -> s <= length l ->
  skipn s (firstn i l ++ [y] ++ skipn (S i) l) = skipn s l.
Proof.
  intros Hi Hs. rewrite skipn_app_ge by (rewrite firstn_length; lia).
  rewrite firstn_length, Nat.min_l by lia.
  replace (s - i) with (S (s - S i)) by lia.
  change (skipn (S (s - S i)) ([y] ++ skipn (S i) l)) with (skipn (s - S i) (skipn (S i) l)).
  rewrite skipn_skipn'. f_equal. lia.
Qed.

(* ---------- cells ---------- *)
Lemma zeros_length n : length (zeros n) = n.
Proof. apply repeat_length. Qed.
Lemma zeros_clean n : block_clean (zeros n) = true.
Proof. apply forallb_repeat. reflexivity. Qed.
Lemma zeros_val n : forallb is_val (zeros n) = true.
Proof. apply forallb_repeat. reflexivity. Qed.
Lemma fresh_clean n : block_clean (repeat Fresh n) = true.
Proof. apply forallb_repeat. reflexivity. Qed.
Lemma map_Val_val d : forallb is_val (map Val d) = true.
Proof. induction d as [|x d IH]; cbn [map forallb is_val]; [reflexivity|exact IH]. Qed.
Lemma map_cell_byte_Val d : map cell_byte (map Val d) = d.
Proof. induction d as [|x d IH]; cbn [map cell_byte]; [reflexivity|now rewrite IH]. Qed.
Lemma map_cell_byte_zeros n : map cell_byte (zeros n) = repeat 0%N n.
Proof. induction n as [|n IH]; cbn [zeros repeat map cell_byte]; [reflexivity|]. f_equal. exact IH. Qed.

(* ---------- vectors ---------- *)
Lemma vec_inv_wf v : vec_inv v -> wf v.
Proof. intros [H _]. exact H. Qed.
Lemma state_inv_wf s : state_inv s -> state_wf s.
Proof. intros [Ha Hb]. split; now apply vec_inv_wf. Qed.

Lemma live_length v : wf v -> length (live v) = sz v.
Proof. unfold wf, cap, live. intros H. rewrite firstn_length. lia. Qed.
Lemma contents_length v : wf v -> length (contents v) = sz v.
Proof. intros H. unfold contents. rewrite map_length. now apply live_length. Qed.

Lemma vempty_inv : vec_inv vempty.
Proof. split; [apply Nat.le_refl|split; reflexivity]. Qed.

Lemma v_new_wf d : wf (v_new d).
Proof. unfold wf, cap, v_new; cbn [blk sz]. rewrite map_length. lia. Qed.
Lemma v_new_inv d : vec_inv (v_new d).
Proof.
  unfold vec_inv, cap, live, v_new; cbn [blk sz]. split; [rewrite map_length; lia|split].
  - rewrite firstn_all2 by (rewrite map_length; lia). apply map_Val_val.
  - rewrite skipn_all2 by (rewrite map_length; lia). reflexivity.
Qed.
Lemma v_new_contents d : contents (v_new d) = d.
Proof.
  unfold contents, live, v_new; cbn [blk sz]. rewrite firstn_all2 by (rewrite map_length; lia).
  apply map_cell_byte_Val.
Qed.

(* the vector a secure_buffer adopts *)
Definition adopted (data : list N) (slack : list cell) : vec := {| blk := map Val data ++ slack; sz := length data |}.
Lemma adopted_wf data slack : wf (adopted data slack).
Proof. unfold wf, cap, adopted; cbn [blk sz]. rewrite app_length, map_length. lia. Qed.
Lemma adopted_inv data slack : block_clean slack = true -> vec_inv (adopted data slack).
Proof.
  intros Hc. split; [apply adopted_wf|]. unfold live, adopted; cbn [blk sz]. split.
  - rewrite firstn_app_exact by apply map_length. apply map_Val_val.
  - rewrite skipn_app_exact by apply map_length. exact Hc.
Qed.
Lemma adopted_contents data slack : contents (adopted data slack) = data.
Proof.
  unfold contents, live, adopted; cbn [blk sz]. rewrite firstn_app_exact by apply map_length.
  apply map_cell_byte_Val.
Qed.

(* secure_zero over the live part *)
Lemma wipe_length v : wf v -> length (blk (wipe v)) = length (blk v).
Proof.
  unfold wf, cap, wipe; cbn [blk sz]. intros H. rewrite app_length, zeros_length, skipn_length. lia.
Qed.
Lemma wipe_clean v : vec_inv v -> block_clean (blk (wipe v)) = true.
Proof.
  intros (_ & _ & Hs). unfold wipe; cbn [blk]. apply forallb_app2; [apply zeros_clean|exact Hs].
Qed.
Lemma free_of_clean v : block_clean (blk v) = true -> forallb block_clean (free_of v) = true.
Proof.
  intros H. unfold free_of. destruct (cap v =? 0); cbn [forallb]; [reflexivity|]. now rewrite H.
Qed.
Lemma free_of_wipe_clean v : vec_inv v -> forallb block_clean (free_of (wipe v)) = true.
Proof. intros H. apply free_of_clean. now apply wipe_clean. Qed.

(* std::vector assignment *)
Lemma v_assign_wf grow w data : wf (fst (v_assign grow w data)).
Proof.
  unfold v_assign, wf, cap. destruct (Nat.leb_spec (length data) (length (blk w))) as [Hfit|Hbig]; cbn [fst blk sz].
  - rewrite app_length, map_length, skipn_length. lia.
  - rewrite app_length, map_length. lia.
Qed.
Lemma v_assign_contents grow w data : contents (fst (v_assign grow w data)) = data.
Proof.
  unfold v_assign, contents, live. destruct (length data <=? cap w); cbn [fst blk sz];
    rewrite firstn_app_exact by apply map_length; apply map_cell_byte_Val.
Qed.
Lemma v_assign_inv grow w data : block_clean (blk w) = true -> vec_inv (fst (v_assign grow w data)).
Proof.
  intros Hc. split; [apply v_assign_wf|]. unfold v_assign, live.
  destruct (length data <=? cap w); cbn [fst blk sz]; (split;
    [rewrite firstn_app_exact by apply map_length; apply map_Val_val
    |rewrite skipn_app_exact by apply map_length]).
  - now apply forallb_skipn.
  - apply fresh_clean.
Qed.
Lemma v_assign_frees grow w data : block_clean (blk w) = true -> forallb block_clean (snd (v_assign grow w data)) = true.
Proof.
  intros Hc. unfold v_assign. destruct (length data <=? cap w); cbn [snd]; [reflexivity|now apply free_of_clean].
Qed.

(* resize *)
Lemma sb_resize_wf grow fixed v n : wf v -> wf (fst (sb_resize grow fixed v n)).
Proof.
  unfold wf, sb_resize, live, cap. intros H.
  destruct (Nat.ltb_spec (length (blk v)) n) as [Hg|Hg].
  - destruct fixed; cbn [fst blk sz]; rewrite !app_length, firstn_length, zeros_length; lia.
  - destruct (Nat.ltb_spec n (sz v)) as [Hs|Hs]; cbn [fst blk sz].
    + rewrite !app_length, firstn_length, zeros_length, skipn_length. lia.
    + rewrite !app_length, firstn_length, zeros_length, skipn_length. lia.
Qed.

Lemma live_zeros_contents v k : map cell_byte (live v ++ zeros k) = contents v ++ repeat 0%N k.
Proof. rewrite map_app, map_cell_byte_zeros. reflexivity. Qed.

Lemma sb_resize_contents grow fixed v n : wf v ->
  contents (fst (sb_resize grow fixed v n)) = firstn n (contents v) ++ repeat 0%N (n - length (contents v)).
Proof.
  intros H. rewrite (contents_length v H). pose proof (live_length v H) as HL.
  pose proof (contents_length v H) as HC.
  unfold wf, cap in H. unfold sb_resize, cap.
  assert (G : n >= sz v -> forall tl, map cell_byte (firstn n (live v ++ zeros (n - sz v) ++ tl))
                            = firstn n (contents v) ++ repeat 0%N (n - sz v)).
  { intros Hge tl. rewrite app_assoc, firstn_app_exact by (rewrite app_length, zeros_length; lia).
    rewrite live_zeros_contents, (firstn_all2 (n := n) (contents v)) by lia. reflexivity. }
  destruct (Nat.ltb_spec (length (blk v)) n) as [Hg|Hg].
  - destruct fixed; cbn [fst]; unfold contents at 1, live at 1; cbn [blk sz].
    + rewrite <- (app_nil_r (zeros (n - sz v))). apply G. lia.
    + apply G. lia.
  - destruct (Nat.ltb_spec n (sz v)) as [Hs|Hs]; cbn [fst]; unfold contents at 1, live at 1; cbn [blk sz].
    + rewrite firstn_app_exact by (rewrite firstn_length; lia).
      replace (n - sz v) with 0 by lia. cbn [repeat]. rewrite app_nil_r.
      unfold contents, live. rewrite firstn_map, firstn_firstn, Nat.min_l by lia. reflexivity.
    + apply G. lia.
Qed.

Lemma sb_resize_inv grow v n : vec_inv v -> vec_inv (fst (sb_resize grow true v n)).
Proof.
  intros HI. split; [apply sb_resize_wf; now apply vec_inv_wf|].
  destruct HI as (Hle & Hv & Hs). pose proof (live_length v Hle) as HL.
  unfold wf, cap in *. unfold sb_resize, cap.
  destruct (Nat.ltb_spec (length (blk v)) n) as [Hg|Hg].
  - cbn [fst]. unfold live at 1; cbn [blk sz]. split.
    + rewrite firstn_all2 by (rewrite app_length, zeros_length; lia).
      apply forallb_app2; [exact Hv|apply zeros_val].
    + rewrite skipn_all2 by (rewrite app_length, zeros_length; lia). reflexivity.
  - destruct (Nat.ltb_spec n (sz v)) as [Hsh|Hge]; cbn [fst]; unfold live at 1; cbn [blk sz]; split.
    + rewrite firstn_app_exact by (rewrite firstn_length; lia).
      replace (firstn n (blk v)) with (firstn n (live v))
        by (unfold live; rewrite firstn_firstn, Nat.min_l by lia; reflexivity).
      now apply forallb_firstn.
    + rewrite skipn_app_exact by (rewrite firstn_length; lia).
      apply forallb_app2; [apply zeros_clean|exact Hs].
    + rewrite app_assoc, firstn_app_exact by (rewrite app_length, zeros_length; lia).
      apply forallb_app2; [exact Hv|apply zeros_val].
    + rewrite app_assoc, skipn_app_exact by (rewrite app_length, zeros_length; lia).
      replace n with (sz v + (n - sz v)) by lia. rewrite <- skipn_skipn'. now apply forallb_skipn.
Qed.
Lemma sb_resize_frees grow v n : vec_inv v -> forallb block_clean (snd (sb_resize grow true v n)) = true.
Proof.
  intros HI. unfold sb_resize. destruct (cap v <? n); cbn [snd].
  - now apply free_of_wipe_clean.
  - destruct (n <? sz v); reflexivity.
Qed.

(* operator[] / data() writes below size() *)
Definition written (v : vec) (i : nat) (b : N) : vec :=
  {| blk := firstn i (blk v) ++ [Val b] ++ skipn (S i) (blk v); sz := sz v |}.
Lemma written_length v i b : i < sz v -> wf v -> length (blk (written v i b)) = length (blk v).
Proof.
  unfold wf, cap, written; cbn [blk sz]. intros Hi H.
  rewrite !app_length, firstn_length, skipn_length. cbn [length]. lia.
Qed.
Lemma written_wf v i b : i < sz v -> wf v -> wf (written v i b).
Proof. intros Hi H. unfold wf, cap. rewrite written_length by assumption. exact H. Qed.
Lemma written_live v i b : i < sz v -> wf v ->
  live (written v i b) = firstn i (live v) ++ [Val b] ++ skipn (S i) (live v).
Proof. intros Hi H. unfold live, written; cbn [blk sz]. now apply firstn_write. Qed.
Lemma written_contents v i b : i < sz v -> wf v ->
  contents (written v i b) = firstn i (contents v) ++ [b] ++ skipn (S i) (contents v).
Proof.
  intros Hi H. unfold contents. rewrite written_live by assumption.
  rewrite !map_app, firstn_map, skipn_map. reflexivity.
Qed.
Lemma written_inv v i b : i < sz v -> vec_inv v -> vec_inv (written v i b).
Proof.
  intros Hi (Hle & Hv & Hs). split; [now apply written_wf|split].
  - rewrite written_live by assumption.
    apply forallb_app2; [now apply forallb_firstn|]. apply forallb_app2; [reflexivity|now apply forallb_skipn].
  - unfold written; cbn [blk sz]. rewrite skipn_write by assumption. exact Hs.
Qed.

(* ---------- two-variable states ---------- *)
Lemma get_inv (P : vec -> Prop) s x : P (sa s) /\ P (sb s) -> P (get s x).
Proof. intros [Ha Hb]. destruct x; assumption. Qed.
Lemma put_inv (P : vec -> Prop) s x v : P (sa s) /\ P (sb s) -> P v -> P (sa (put s x v)) /\ P (sb (put s x v)).
Proof. intros [Ha Hb] Hv. destruct x; cbn [put sa sb]; split; assumption. Qed.
Lemma contents_put s x v : state_contents (put s x v) = sput (state_contents s) x (contents v).
Proof. destruct x; reflexivity. Qed.
Lemma contents_get s x : sget (state_contents s) x = contents (get s x).
Proof. destruct x; reflexivity. Qed.

(* ---------- one operation: shape, contents ---------- *)
Lemma step_wf grow fixed s o : state_wf s -> state_wf (fst (step grow fixed s o)).
Proof.
  intros H. unfold state_wf in *.
  destruct o as [x n|x data slack|x str|x|x|x|x|x n|x|x data|x str|x i b]; cbn [step fst snd move_assign sb_clear].
  - apply put_inv; [exact H|apply v_new_wf].
  - apply put_inv; [exact H|apply (adopted_wf data slack)].
  - apply put_inv; [exact H|apply v_new_wf].
  - apply put_inv; [exact H|apply v_assign_wf].
  - apply put_inv; [apply put_inv; [exact H|now apply get_inv]|]. unfold wf, cap; cbn; lia.
  - apply put_inv; [exact H|apply v_new_wf].
  - exact H.
  - apply put_inv; [exact H|]. apply sb_resize_wf. now apply get_inv.
  - apply put_inv; [exact H|]. unfold wf, cap; cbn; lia.
  - apply put_inv; [exact H|apply v_assign_wf].
  - apply put_inv; [exact H|apply v_assign_wf].
  - destruct (Nat.ltb_spec i (sz (get s x))) as [Hi|Hi]; cbn [fst]; [|exact H].
    apply put_inv; [exact H|]. apply (written_wf (get s x) i b Hi). now apply get_inv.
Qed.

Lemma step_contents grow fixed s o : state_wf s ->
  state_contents (fst (step grow fixed s o)) = spec_step (state_contents s) o.
Proof.
  intros H. unfold state_wf in H.
  destruct o as [x n|x data slack|x str|x|x|x|x|x n|x|x data|x str|x i b];
    cbn [step spec_step fst snd move_assign sb_clear].
  - now rewrite contents_put, v_new_contents.
  - rewrite contents_put. f_equal. apply (adopted_contents data slack).
  - now rewrite contents_put, v_new_contents.
  - now rewrite contents_put, v_assign_contents, contents_get.
  - now rewrite !contents_put, contents_get.
  - now rewrite contents_put, v_new_contents, contents_get.
  - reflexivity.
  - rewrite contents_put, contents_get. rewrite sb_resize_contents by now apply get_inv. reflexivity.
  - now rewrite contents_put.
  - now rewrite contents_put, v_assign_contents.
  - now rewrite contents_put, v_assign_contents.
  - assert (Hw : wf (get s x)) by now apply get_inv.
    rewrite contents_get, (contents_length _ Hw).
    destruct (Nat.ltb_spec i (sz (get s x))) as [Hi|Hi]; cbn [fst]; [|reflexivity].
    rewrite contents_put. f_equal. apply (written_contents (get s x) i b Hi Hw).
Qed.

Lemma run_cons_fst grow fixed s o ops :
  fst (run grow fixed s (o :: ops)) = fst (run grow fixed (fst (step grow fixed s o)) ops).
Proof. reflexivity. Qed.
Lemma run_cons_snd grow fixed s o ops :
  snd (run grow fixed s (o :: ops)) = ev_app (snd (step grow fixed s o)) (snd (run grow fixed (fst (step grow fixed s o)) ops)).
Proof. reflexivity. Qed.

Lemma run_contents grow fixed ops : forall s, state_wf s ->
  state_contents (fst (run grow fixed s ops)) = spec_run (state_contents s) ops.
Proof.
  induction ops as [|o ops IH]; intros s H; [reflexivity|].
  rewrite run_cons_fst. unfold spec_run; cbn [fold_left]. fold (spec_run (spec_step (state_contents s) o) ops).
  rewrite <- (step_contents grow fixed s o H). apply IH. now apply step_wf.
Qed.

Lemma refines_vector grow fixed ops s : state_inv s ->
  state_contents (fst (run grow fixed s ops)) = spec_run (state_contents s) ops.
Proof. intros H. apply run_contents. now apply state_inv_wf. Qed.

(* ---------- one operation: invariant and released blocks (repaired resize) ---------- *)
Lemma step_safe grow s o : state_inv s -> op_adopts_clean o ->
  state_inv (fst (step grow true s o)) /\ forallb block_clean (frees (snd (step grow true s o))) = true.
Proof.
  intros H Ho. unfold state_inv in *.
  assert (Hx : forall x, vec_inv (get s x)) by (intros x; now apply get_inv).
  destruct o as [x n|x data slack|x str|x|x|x|x|x n|x|x data|x str|x i b];
    cbn [step fst snd move_assign sb_clear frees].
  - split; [apply put_inv; [exact H|apply v_new_inv]|now apply free_of_wipe_clean].
  - split; [apply put_inv; [exact H|now apply (adopted_inv data slack)]|now apply free_of_wipe_clean].
  - split; [apply put_inv; [exact H|apply v_new_inv]|now apply free_of_wipe_clean].
  - split; [apply put_inv; [exact H|apply v_assign_inv]|apply v_assign_frees]; now apply wipe_clean.
  - split; [|now apply free_of_wipe_clean].
    apply put_inv; [apply put_inv; [exact H|apply Hx]|apply vempty_inv].
  - split; [apply put_inv; [exact H|apply v_new_inv]|now apply free_of_wipe_clean].
  - split; [exact H|reflexivity].
  - split; [apply put_inv; [exact H|now apply sb_resize_inv]|now apply sb_resize_frees].
  - split; [apply put_inv; [exact H|apply vempty_inv]|now apply free_of_wipe_clean].
  - split; [apply put_inv; [exact H|apply v_assign_inv]|apply v_assign_frees]; now apply wipe_clean.
  - split; [apply put_inv; [exact H|apply v_assign_inv]|apply v_assign_frees]; now apply wipe_clean.
  - destruct (Nat.ltb_spec i (sz (get s x))) as [Hi|Hi]; cbn [fst snd frees no_events]; (split; [|reflexivity]).
    + apply put_inv; [exact H|]. now apply (written_inv (get s x) i b Hi).
    + exact H.
Qed.

Lemma run_safe grow ops : forall s, state_inv s -> Forall op_adopts_clean ops ->
  state_inv (fst (run grow true s ops)) /\ forallb block_clean (frees (snd (run grow true s ops))) = true.
Proof.
  induction ops as [|o ops IH]; intros s H Hops.
  - split; [exact H|reflexivity].
  - inversion Hops as [|o' ops' Ho Hops']; subst.
    destruct (step_safe grow s o H Ho) as [H1 F1].
    destruct (IH _ H1 Hops') as [H2 F2].
    rewrite run_cons_fst, run_cons_snd. split; [exact H2|].
    unfold ev_app; cbn [frees]. now apply forallb_app2.
Qed.

Lemma destroy_clean s : state_inv s -> forallb block_clean (frees (destroy s)) = true.
Proof.
  intros [Ha Hb]. unfold destroy, sb_clear; cbn [frees snd].
  apply forallb_app2; now apply free_of_wipe_clean.
Qed.

Lemma invariant grow ops s : (forall c n, (n <= grow c n)%nat) -> state_inv s -> Forall op_adopts_clean ops ->
  state_inv (fst (run grow true s ops)).
Proof. intros _ H Hops. now apply run_safe. Qed.

Lemma releases_clean grow ops s : (forall c n, (n <= grow c n)%nat) -> state_inv s -> Forall op_adopts_clean ops ->
  forallb block_clean (frees (snd (run grow true s ops))) = true /\
  forallb block_clean (frees (destroy (fst (run grow true s ops)))) = true.
Proof.
  intros _ H Hops. destruct (run_safe grow ops s H Hops) as [H1 F1]. split; [exact F1|now apply destroy_clean].
Qed.

Lemma init_inv : state_inv init_state.
Proof. split; apply vempty_inv. Qed.

(* ---------- rvalue strings ---------- *)
Definition string_left_zeroed (e : list N * bool) : Prop := forallb (N.eqb 0) (fst e) = true /\ snd e = true.

Lemma zeroed_string str : string_left_zeroed (map (fun _ : N => 0%N) str, true).
Proof.
  split; [|reflexivity]. cbn [fst]. induction str as [|c str IH]; cbn [map forallb]; [reflexivity|exact IH].
Qed.

Lemma step_strings grow fixed s o : Forall string_left_zeroed (strings (snd (step grow fixed s o))).
Proof.
  destruct o as [x n|x data slack|x str|x|x|x|x|x n|x|x data|x str|x i b]; cbn [step snd strings no_events];
    try (constructor; fail); try (constructor; [apply zeroed_string|constructor]).
  destruct (i <? sz (get s x))%nat; cbn [snd strings no_events]; constructor.
Qed.

Lemma run_strings grow fixed ops : forall s, Forall string_left_zeroed (strings (snd (run grow fixed s ops))).
Proof.
  induction ops as [|o ops IH]; intros s; [constructor|].
  rewrite run_cons_snd. unfold ev_app; cbn [strings]. apply Forall_app. split; [apply step_strings|apply IH].
Qed.

Lemma rvalue_string grow fixed ops s :
  Forall (fun e => forallb (N.eqb 0) (fst e) = true /\ snd e = true) (strings (snd (run grow fixed s ops))).
Proof. exact (run_strings grow fixed ops s). Qed.
