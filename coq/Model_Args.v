(* Model_Args: argument validation of every public pointer-level entry point, over argument DESCRIPTORS
   (nullness of a pointer, lengths as size_t values, ints, raw enum selector values, the clock), in the order
   in which the C++ performs the checks.  Verdicts: accepted (the call goes on to compute its value, which the
   other properties describe), a documented exception, `false` (non-throwing APIs), or process termination. *)
From HV Require Import Base_Bytes Base_Result Model_Otp.
Local Open Scope Z_scope.

Inductive verdict := Accept | Sig (e : exn) | RetFalse | Terminate.

Definition SIZE_MAX : Z := 2 ^ 64 - 1.
Definition INT_MAX : Z := 2 ^ 31 - 1.
Definition MAX_ITER : Z := 1000000.

(* a pointer/length pair: null flag and byte length *)
Record buf := { b_null : bool; b_len : Z }.
Definition bad_null (b : buf) : bool := b_null b && (0 <? b_len b).

(* enum selectors arrive as raw ints: TypeHash / Pbkdf2Hash have the values 0, 1, 2 *)
Definition sel_ok (s : Z) : bool := (0 <=? s) && (s <=? 2).
Definition sel_block (s : Z) : Z := if s =? 2 then 128 else 64.
Definition sel_digest (s : Z) : Z := if s =? 0 then 20 else if s =? 1 then 32 else 64.

(* get_hash(data, length, type) / get_hash(string, type): switch default *)
Definition v_get_hash (sel : Z) : verdict := if sel_ok sel then Accept else Sig InvalidArgument.

(* get_hmac(key_ptr, key_len, msg_ptr, msg_len, type)  hmac.cpp:209 *)
Definition v_get_hmac (key msg : buf) (sel : Z) : verdict :=
  if bad_null key || bad_null msg then Sig InvalidArgument
  else if negb (sel_ok sel) then Sig InvalidArgument
  else if SIZE_MAX - sel_block sel <? b_len msg then Sig OverflowError
  else Accept.

(* HmacContext::init / update / final  hmac.cpp:88-207 (type_ fixed at construction) *)
Definition v_hmac_init (key : buf) (sel : Z) : verdict :=
  if bad_null key then Sig InvalidArgument else if negb (sel_ok sel) then Sig InvalidArgument else Accept.
Definition v_hmac_update (data : buf) (sel : Z) : verdict :=
  if bad_null data then Sig InvalidArgument else if negb (sel_ok sel) then Sig InvalidArgument else Accept.
(* digest_size_ is the value set by init (0 before any init) *)
Definition v_hmac_final (out_null : bool) (out_len digest_size : Z) (sel : Z) : verdict :=
  if out_null then Sig InvalidArgument else if out_len <? digest_size then Sig InvalidArgument
  else if negb (sel_ok sel) then Sig InvalidArgument else Accept.

(* std::vector<uint8_t> pbkdf2(password, salt, iterations, dk_len, prf)  hmac_utils.cpp:48 *)
Definition v_pbkdf2_vec (pw salt : buf) (iterations dk_len sel : Z) : verdict :=
  if bad_null pw || bad_null salt then Sig InvalidArgument
  else if iterations <? 1 then Sig InvalidArgument
  else if MAX_ITER <? iterations then Sig InvalidArgument
  else if dk_len =? 0 then Sig InvalidArgument
  else if b_len salt =? 0 then Sig InvalidArgument
  else if negb (sel_ok sel) then Sig InvalidArgument
  else if (2 ^ 32 - 1) * sel_digest sel <? dk_len then Sig InvalidArgument
  else if SIZE_MAX - sel_block sel <? b_len salt + 4 then Sig OverflowError   (* get_hmac's message-length guard on salt||INT(i) *)
  else Accept.

(* bool pbkdf2(prf, password, salt, iterations, out_ptr, dk_len) noexcept  hmac_utils.cpp:142 *)
Definition v_pbkdf2_buf (pw salt : buf) (out_null : bool) (iterations dk_len sel : Z) : verdict :=
  if bad_null pw || bad_null salt || out_null then RetFalse
  else if (iterations <? 1) || (dk_len =? 0) || (b_len salt <? 16) || (MAX_ITER <? iterations) then RetFalse
  else if negb (sel_ok sel) then RetFalse
  else if (2 ^ 32 - 1) * sel_digest sel <? dk_len then RetFalse
  else Accept.
(* the pinned (pre-fix) version mapped the selector through to_type_hash, which throws inside noexcept *)
Definition v_pbkdf2_buf_pinned (pw salt : buf) (out_null : bool) (iterations dk_len sel : Z) : verdict :=
  if bad_null pw || bad_null salt || out_null then RetFalse
  else if (iterations <? 1) || (dk_len =? 0) || (b_len salt <? 16) || (MAX_ITER <? iterations) then RetFalse
  else if negb (sel_ok sel) then Terminate
  else if (2 ^ 32 - 1) * sel_digest sel <? dk_len then RetFalse
  else Accept.

(* pbkdf2_with_pepper: to_type_hash(prf); get_hmac(pepper, password); pbkdf2(tmp, salt, ...) *)
Definition v_pepper (pw salt pepper : buf) (iterations dk_len sel : Z) : verdict :=
  if negb (sel_ok sel) then Sig InvalidArgument
  else match v_get_hmac pepper pw sel with
       | Accept => v_pbkdf2_vec {| b_null := false; b_len := sel_digest sel |} salt iterations dk_len sel
       | v => v
       end.

(* hkdf_extract_sha256(_secure)(ikm, salt): null salt only with length 0; then get_hmac(salt, ikm, SHA256) *)
Definition v_hkdf_extract (ikm salt : buf) : verdict :=
  if bad_null salt then Sig InvalidArgument
  else v_get_hmac (if b_null salt || (b_len salt =? 0) then {| b_null := false; b_len := 32 |} else salt) ikm 1.

(* hkdf_expand_sha256(_secure)(prk, info, L): info may be null (then treated as empty) *)
Definition v_hkdf_expand (prk info : buf) (L : Z) : verdict :=
  if b_null prk || negb (b_len prk =? 32) then Sig InvalidArgument
  else if 255 * 32 <? L then Sig InvalidArgument
  else Accept.

(* OTP *)
Definition v_hotp (key : buf) (digits sel : Z) : verdict :=
  if negb (digits_ok digits) then Sig InvalidArgument
  else v_get_hmac key {| b_null := false; b_len := 8 |} sel.
Definition v_totp_at (key : buf) (period digits sel : Z) : verdict :=
  if period <=? 0 then Sig InvalidArgument else v_hotp key digits sel.
Definition v_clock_totp (c : clock) : verdict :=
  let '(now, err) := c in if (now =? -1) && err then Sig RuntimeError else if now <? 0 then Sig RuntimeError else Accept.
Definition v_totp_now (key : buf) (period digits sel : Z) (c : clock) : verdict :=
  if period <=? 0 then Sig InvalidArgument
  else if negb (digits_ok digits) then Sig InvalidArgument
  else match v_clock_totp c with Accept => v_hotp key digits sel | v => v end.
(* detail::hotp_from_digest(digest, digits) for 1 <= digits <= 9 : length and offset nibble of the last byte *)
Definition v_hotp_from_digest (dlen : Z) (last_nibble : Z) : verdict :=
  if dlen =? 0 then Sig RuntimeError else if dlen <? last_nibble + 4 then Sig RuntimeError else Accept.

(* time tokens: interval; clock; then get_hmac over a vector key (never null) *)
Definition v_token (interval sel : Z) (c : clock) : verdict :=
  if interval <=? 0 then Sig InvalidArgument
  else let '(now, err) := c in
       if (now =? -1) && err then Sig RuntimeError
       else if negb (sel_ok sel) then Sig InvalidArgument else Accept.

(* secret_string::set(p, n) *)
Definition v_secret_set (data : buf) : verdict := if bad_null data then Sig InvalidArgument else Accept.
