(* Model_SecureBuffer: include/hmac_cpp/secure_buffer.hpp over a heap with release events.
   A block is a list of cells as long as the capacity; a cell is Fresh (never written since allocation) or
   Val b.  std::vector operations are modelled over blocks (growth policy = a Section variable, only
   requested <= new capacity is assumed); secure_zero writes Val 0; returning a block to the allocator emits
   it as a release event.  Two buffer variables A and B; every operation of secure_buffer is an op.  *)
From HV Require Import Base_Bytes.
Local Open Scope N_scope.

Inductive cell := Fresh | Val (b : N).
Definition cell_clean (c : cell) : bool := match c with Fresh => true | Val b => b =? 0 end.
Definition block_clean (blk : list cell) : bool := forallb cell_clean blk.
Definition is_val (c : cell) : bool := match c with Val _ => true | Fresh => false end.
Definition cell_byte (c : cell) : N := match c with Val b => b | Fresh => 0 end.

(* a std::vector<uint8_t>: its block (length = capacity) and its size *)
Record vec := { blk : list cell; sz : nat }.
Definition cap (v : vec) : nat := length (blk v).
Definition live (v : vec) : list cell := firstn (sz v) (blk v).
Definition contents (v : vec) : list N := map cell_byte (live v).
Definition vempty : vec := {| blk := []; sz := 0 |}.
Definition zeros (n : nat) : list cell := repeat (Val 0) n.

Inductive var := VA | VB.
Inductive op :=
| OCtorN (x : var) (n : nat)                                (* x = secure_buffer(n) *)
| OAdopt (x : var) (data : list N) (slack : list cell)     (* x = secure_buffer(std::move(v)); v holds data, its slack [size, capacity) is `slack` *)
| OFromString (x : var) (s : list N)                        (* x = secure_buffer(std::move(str)) *)
| OCopyAssign (x : var)                                     (* x = other  (copy assignment from the other variable) *)
| OMoveAssign (x : var)                                     (* x = std::move(other) *)
| OCopyCtor (x : var)                                       (* x = secure_buffer(other): copy-construct a temporary, move-assign it *)
| OSelfAssign (x : var)                                     (* x = x, x = std::move(x): guarded by this != &other *)
| OResize (x : var) (n : nat)
| OClear (x : var)
| OAssignPtr (x : var) (data : list N)                      (* x.assign(p, n) *)
| OAssignString (x : var) (s : list N)                      (* x.assign(std::move(str)) *)
| OWrite (x : var) (i : nat) (b : N).                       (* x[i] = b / writes through data() *)

Record state := { sa : vec; sb : vec }.
Definition get (s : state) (x : var) : vec := match x with VA => sa s | VB => sb s end.
Definition other (x : var) : var := match x with VA => VB | VB => VA end.
Definition put (s : state) (x : var) (v : vec) : state :=
  match x with VA => {| sa := v; sb := sb s |} | VB => {| sa := sa s; sb := v |} end.

(* what an operation lets go of: blocks returned to the allocator, and the caller's rvalue string as it is left behind
   (its characters and whether it reports empty) *)
Record events := { frees : list (list cell); strings : list (list N * bool) }.
Definition no_events : events := {| frees := []; strings := [] |}.
Definition ev_app (e1 e2 : events) : events := {| frees := frees e1 ++ frees e2; strings := strings e1 ++ strings e2 |}.

Section Policy.
  Variable grow : nat -> nat -> nat.        (* old capacity -> requested size -> new capacity *)
  Variable fixed : bool.                    (* true: resize as repaired by commit 63e4472; false: the pinned resize *)

  (* secure_zero(buf.data(), buf.size()) *)
  Definition wipe (v : vec) : vec := {| blk := zeros (sz v) ++ skipn (sz v) (blk v); sz := sz v |}.
  Definition free_of (v : vec) : list (list cell) := if (cap v =? 0)%nat then [] else [blk v].

  (* std::vector copy assignment / assign(first, last) of n elements *)
  Definition v_assign (v : vec) (data : list N) : vec * list (list cell) :=
    let n := length data in
    if (n <=? cap v)%nat then ({| blk := map Val data ++ skipn n (blk v); sz := n |}, [])
    else ({| blk := map Val data ++ repeat Fresh (grow (cap v) n - n); sz := n |}, free_of v).
  (* std::vector(n) / std::vector(first, last): exact fresh block *)
  Definition v_new (data : list N) : vec := {| blk := map Val data; sz := length data |}.

  (* operator=(secure_buffer&&): wipe, release own block, take the other's *)
  Definition move_assign (x t : vec) : vec * list (list cell) := (t, free_of (wipe x)).

  Definition sb_resize (v : vec) (n : nat) : vec * list (list cell) :=
    let shrunk := if (n <? sz v)%nat
                  then {| blk := firstn n (blk v) ++ zeros (sz v - n) ++ skipn (sz v) (blk v); sz := sz v |}   (* secure_zero(old_ptr + n, old_sz - n) *)
                  else v in
    if (cap v <? n)%nat then
      if fixed then
        (* std::vector<T> grown(n); copy; secure_zero(old block); swap; the old block is released wiped *)
        ({| blk := live v ++ zeros (n - sz v); sz := n |}, free_of (wipe v))
      else
        (* buf.resize(n) reallocates and releases the old block as it is *)
        ({| blk := live v ++ zeros (n - sz v) ++ repeat Fresh (grow (cap v) n - n); sz := n |}, free_of v)
    else if (n <? sz v)%nat then ({| blk := blk shrunk; sz := n |}, [])
    else ({| blk := live v ++ zeros (n - sz v) ++ skipn n (blk v); sz := n |}, []).

  (* clear(): secure_zero; buf.clear(); buf.shrink_to_fit() *)
  Definition sb_clear (v : vec) : vec * list (list cell) := (vempty, free_of (wipe v)).

  Definition step (s : state) (o : op) : state * events :=
    match o with
    | OCtorN x n => let r := move_assign (get s x) (v_new (repeat 0 n)) in
                    (put s x (fst r), {| frees := snd r; strings := [] |})
    | OAdopt x data slack => let r := move_assign (get s x) {| blk := map Val data ++ slack; sz := length data |} in
                    (put s x (fst r), {| frees := snd r; strings := [] |})
    | OFromString x str => let r := move_assign (get s x) (v_new str) in
                    (put s x (fst r), {| frees := snd r; strings := [(map (fun _ => 0) str, true)] |})
    | OCopyAssign x => let r := v_assign (wipe (get s x)) (contents (get s (other x))) in
                    (put s x (fst r), {| frees := snd r; strings := [] |})
    | OMoveAssign x => let r := move_assign (get s x) (get s (other x)) in
                    (put (put s x (fst r)) (other x) vempty, {| frees := snd r; strings := [] |})
    | OCopyCtor x => let r := move_assign (get s x) (v_new (contents (get s (other x)))) in
                    (put s x (fst r), {| frees := snd r; strings := [] |})
    | OSelfAssign x => (s, no_events)
    | OResize x n => let r := sb_resize (get s x) n in (put s x (fst r), {| frees := snd r; strings := [] |})
    | OClear x => let r := sb_clear (get s x) in (put s x (fst r), {| frees := snd r; strings := [] |})
    | OAssignPtr x data => let r := v_assign (wipe (get s x)) data in
                    (put s x (fst r), {| frees := snd r; strings := [] |})
    | OAssignString x str => let r := v_assign (wipe (get s x)) str in
                    (put s x (fst r), {| frees := snd r; strings := [(map (fun _ => 0) str, true)] |})
    | OWrite x i b => let v := get s x in
                    if (i <? sz v)%nat
                    then (put s x {| blk := firstn i (blk v) ++ [Val b] ++ skipn (S i) (blk v); sz := sz v |}, no_events)
                    else (s, no_events)
    end.

  Fixpoint run (s : state) (ops : list op) : state * events :=
    match ops with
    | [] => (s, no_events)
    | o :: ops' => let r := step s o in let r' := run (fst r) ops' in (fst r', ev_app (snd r) (snd r'))
    end.

  (* destruction of both variables at the end of their lifetime: ~secure_buffer() { clear(); } *)
  Definition destroy (s : state) : events :=
    {| frees := snd (sb_clear (sa s)) ++ snd (sb_clear (sb s)); strings := [] |}.
End Policy.

Definition init_state : state := {| sa := vempty; sb := vempty |}.

(* ---- the plain std::vector<uint8_t> semantics the buffer has to match ---- *)
Definition spec_state := (list N * list N)%type.
Definition sget (s : spec_state) (x : var) : list N := match x with VA => fst s | VB => snd s end.
Definition sput (s : spec_state) (x : var) (l : list N) : spec_state := match x with VA => (l, snd s) | VB => (fst s, l) end.
Definition spec_step (s : spec_state) (o : op) : spec_state :=
  match o with
  | OCtorN x n => sput s x (repeat 0 n)
  | OAdopt x data _ => sput s x data
  | OFromString x str => sput s x str
  | OCopyAssign x => sput s x (sget s (other x))
  | OMoveAssign x => sput (sput s x (sget s (other x))) (other x) []
  | OCopyCtor x => sput s x (sget s (other x))
  | OSelfAssign x => s
  | OResize x n => sput s x (firstn n (sget s x) ++ repeat 0 (n - length (sget s x)))
  | OClear x => sput s x []
  | OAssignPtr x data => sput s x data
  | OAssignString x str => sput s x str
  | OWrite x i b => let l := sget s x in if (i <? length l)%nat then sput s x (firstn i l ++ [b] ++ skipn (S i) l) else s
  end.
Definition spec_run (s : spec_state) (ops : list op) : spec_state := fold_left spec_step ops s.
