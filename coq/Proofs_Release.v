From HV Require Import Base_Bytes Base_Result Spec_SHA Spec_HMAC Model_Hash Model_Hmac Proofs_Hmac Model_Kdf Model_Release.
Local Open Scope N_scope.

Lemma map_zero_all (l : list N) : forallb (N.eqb 0) (map (fun _ => 0) l) = true.
Proof. induction l; cbn; auto. Qed.
Definition no_raw (rs : list rel) : Prop := Forall (fun r => r_kind r <> RRaw) rs.
Lemma no_raw_zero rs : no_raw rs -> all_released_zero rs = true.
Proof.
  unfold all_released_zero. induction 1 as [|r rs Hr _ IH]; [reflexivity|]. cbn [forallb]. rewrite IH, andb_true_r.
  unfold released_bytes. destruct (r_kind r); try apply map_zero_all. congruence.
Qed.
Lemma no_raw_app a b : no_raw a -> no_raw b -> no_raw (a ++ b).
Proof. intros; apply Forall_app; auto. Qed.
Lemma no_raw_hash t d : no_raw (rel_hash true t d).
Proof. destruct t; cbn; repeat constructor; cbn; discriminate. Qed.
Ltac nr := repeat (first [apply no_raw_app | apply no_raw_hash | (constructor; [cbn; discriminate|]) | apply Forall_nil]).

Lemma no_raw_get_hmac t k m : no_raw (rel_get_hmac true t k m).
Proof. unfold rel_get_hmac. destruct (block_size t <? length k)%nat; nr. Qed.
Lemma no_raw_hmac_ctx t k m : no_raw (rel_hmac_ctx true t k m).
Proof. unfold rel_hmac_ctx. destruct (block_size t <? length k)%nat; nr. Qed.
Lemma no_raw_securekey t k m : no_raw (rel_get_hmac_securekey true t k m).
Proof. unfold rel_get_hmac_securekey. cbn [app]. apply no_raw_get_hmac. Qed.
Lemma no_raw_token t k p : no_raw (rel_token_securekey true t k p).
Proof. unfold rel_token_securekey. apply no_raw_app; [nr|apply no_raw_get_hmac]. Qed.
Lemma no_raw_pbkdf2 t P S c dk : no_raw (rel_pbkdf2 true t P S c dk).
Proof.
  unfold rel_pbkdf2. constructor; [cbn; discriminate|].
  induction (seq 1 ((dk + digest_size t - 1) / digest_size t)) as [|i l IH]; cbn [flat_map]; [constructor|].
  apply no_raw_app; [|exact IH]. unfold rel_pbkdf2_block. apply no_raw_app; [apply no_raw_get_hmac|nr].
Qed.
Lemma no_raw_pepper t P S pep c dk : no_raw (rel_pepper true t P S pep c dk).
Proof. unfold rel_pepper. apply no_raw_app; [apply no_raw_get_hmac|]. apply no_raw_app; [nr|apply no_raw_pbkdf2]. Qed.
Lemma no_raw_extract ikm salt : no_raw (rel_hkdf_extract true ikm salt).
Proof. unfold rel_hkdf_extract. apply no_raw_app; [apply no_raw_get_hmac|nr]. Qed.
Lemma no_raw_decode d b : no_raw (rel_decode_secure true d b).
Proof. unfold rel_decode_secure. destruct b; nr. Qed.

(* the temporaries hold exactly the RFC 2104 intermediate values *)
Lemma get_hmac_contents t key msg : N.of_nat (length key) < 2 ^ 61 ->
  In (mk RSecure 3 (hmac_K0 t key)) (rel_get_hmac true t key msg) /\
  In (mk RSecure 4 (xor_const 0x36 (hmac_K0 t key))) (rel_get_hmac true t key msg) /\
  In (mk RSecure 5 (xor_const 0x5c (hmac_K0 t key))) (rel_get_hmac true t key msg).
Proof.
  intros HK. unfold rel_get_hmac. rewrite hmac_key_block_spec by exact HK.
  repeat split; apply in_or_app; right; apply in_or_app; left; cbn; auto.
Qed.

(* the pinned inventories release secrets (findings F4a, F4b, F10) *)
Lemma pinned_sha1_refuted : exists key msg, all_released_zero (rel_get_hmac false SHA1 key msg) = false.
Proof. exists (map N.of_nat (seq 1 70)), [1]. vm_compute. reflexivity. Qed.
Lemma pinned_securekey_refuted : exists key msg, all_released_zero (rel_get_hmac_securekey false SHA256 key msg) = false.
Proof. exists [1;2;3], [1]. vm_compute. reflexivity. Qed.
Lemma pinned_base36_refuted : exists d, all_released_zero (rel_decode_secure false d true) = false.
Proof. exists [1;2;3]. vm_compute. reflexivity. Qed.

Lemma secret_reveal_zero cb plain : all_released_zero (rel_secret_reveal true cb plain) = true.
Proof. unfold rel_secret_reveal. rewrite Bool.andb_false_r. apply no_raw_zero. constructor; [cbn; discriminate|constructor]. Qed.
Lemma pinned_secret_reveal_refuted : exists plain, all_released_zero (rel_secret_reveal false true plain) = false.
Proof. exists [1; 2; 3]. vm_compute. reflexivity. Qed.
