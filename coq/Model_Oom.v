(* Model_Oom: what the secure_buffer and secret_string operations leave behind when their allocation fails
   (std::bad_alloc propagates out of the operation at that point). *)
From HV Require Import Base_Bytes Base_Result Model_SecureBuffer Model_SecretString.
Local Open Scope N_scope.

(* secure_buffer: every operation performs at most one allocation.  Constructions build a temporary first (the variable is
   untouched when that fails); copy-assignment and assign() zero the buffer BEFORE std::vector::operator= / assign allocate;
   the repaired resize allocates the grown block before touching anything; move assignment, clear and writes do not allocate. *)
Definition op_allocates (s : state) (o : op) : bool :=
  match o with
  | OCtorN _ n => (0 <? n)%nat
  | OFromString _ str => (0 <? length str)%nat
  | OCopyCtor x => (0 <? sz (get s (other x)))%nat
  | OCopyAssign x => (cap (get s x) <? sz (get s (other x)))%nat
  | OAssignPtr x data => (cap (get s x) <? length data)%nat
  | OAssignString x str => (cap (get s x) <? length str)%nat
  | OResize x n => (cap (get s x) <? n)%nat
  | _ => false
  end.
(* state after the operation's allocation failed *)
Definition step_oom (s : state) (o : op) : state :=
  match o with
  | OCopyAssign x | OAssignPtr x _ | OAssignString x _ => put s x (wipe (get s x))
  | _ => s
  end.

(* secret_string: set() builds the new representation aside (since ed8d364): a failure anywhere leaves the object as it was.
   rotate_nonce(): a failure during the verification leaves it as it was; a failure inside the re-encryption loop after j blocks
   leaves the first j 32-byte blocks under the new keystream, the rest under the old one, with the OLD nonce and tag. *)
Definition ss_set_oom (s : sstate) : sstate := s.
Definition ss_rotate_partial (pk new_nonce : list N) (j : nat) (s : sstate) : sstate :=
  let oldk := hmac1 pk (ss_nonce s) in
  let newk := hmac1 pk new_nonce in
  let done := rotate_loop (length (ss_ct s)) oldk newk (ss_nonce s) new_nonce 0 (firstn (j * 32) (ss_ct s)) in
  {| ss_ct := done ++ skipn (j * 32) (ss_ct s); ss_nonce := ss_nonce s; ss_tag := ss_tag s |}.
