From HV Require Import Base_Bytes Base_BytesLemmas Base_Result Spec_SHA Spec_HMAC Spec_OTP Model_Hash Model_Hmac
  Proofs_Hash Proofs_Hmac Model_Otp.
Local Open Scope N_scope.
Ltac Zify.zify_post_hook ::= Z.to_euclidean_division_equations.

(* ---------- bit twiddling as arithmetic ---------- *)
Lemma land_shiftl_small a b n : b < 2 ^ n -> N.land (N.shiftl a n) b = 0.
Proof.
  intros Hb. apply N.bits_inj_0. intros i. rewrite N.land_spec.
  destruct (N.lt_ge_cases i n) as [Hi|Hi].
  - now rewrite N.shiftl_spec_low.
  - rewrite <- (N.mod_small b (2 ^ n)) by exact Hb. rewrite N.mod_pow2_bits_high by exact Hi. apply andb_false_r.
Qed.
Lemma lor_shiftl_add a b n : b < 2 ^ n -> N.lor (N.shiftl a n) b = a * 2 ^ n + b.
Proof.
  intros Hb. rewrite <- N.lxor_lor by (now apply land_shiftl_small).
  rewrite <- N.add_nocarry_lxor by (now apply land_shiftl_small). now rewrite N.shiftl_mul_pow2.
Qed.
Lemma land_7f b : N.land b 0x7F = b mod 128.
Proof. change 0x7F with (N.ones 7). now rewrite N.land_ones. Qed.
Lemma land_ff b : N.land b 0xFF = b mod 256.
Proof. change 0xFF with (N.ones 8). now rewrite N.land_ones. Qed.
Lemma land_0f b : N.land b 0x0F = b mod 16.
Proof. change 0x0F with (N.ones 4). now rewrite N.land_ones. Qed.

Lemma lor_add_disjoint a b n : a mod 2 ^ n = 0 -> b < 2 ^ n -> N.lor a b = a + b.
Proof.
  intros Ha Hb.
  apply N.div_exact in Ha; [|apply N.pow_nonzero; discriminate].
  set (q := a / 2 ^ n) in *. rewrite Ha. rewrite N.mul_comm, <- N.shiftl_mul_pow2.
  rewrite lor_shiftl_add by exact Hb. now rewrite N.shiftl_mul_pow2.
Qed.

Lemma bin_code_arith b0 b1 b2 b3 : b0 < 256 -> b1 < 256 -> b2 < 256 -> b3 < 256 ->
  N.lor (N.lor (N.lor (N.shiftl (N.land b0 0x7F) 24) (N.shiftl (N.land b1 0xFF) 16)) (N.shiftl (N.land b2 0xFF) 8)) (N.land b3 0xFF)
  = be_val [b0; b1; b2; b3] mod 2 ^ 31.
Proof.
  intros H0 H1 H2 H3. rewrite land_7f, !land_ff.
  rewrite (N.mod_small b1 256), (N.mod_small b2 256), (N.mod_small b3 256) by assumption.
  rewrite !N.shiftl_mul_pow2.
  change (2 ^ 24) with 16777216. change (2 ^ 16) with 65536. change (2 ^ 8) with 256.
  rewrite (lor_add_disjoint (b0 mod 128 * 16777216) (b1 * 65536) 24) by (change (2 ^ 24) with 16777216; lia).
  rewrite (lor_add_disjoint (b0 mod 128 * 16777216 + b1 * 65536) (b2 * 256) 16) by (change (2 ^ 16) with 65536; lia).
  rewrite (lor_add_disjoint (b0 mod 128 * 16777216 + b1 * 65536 + b2 * 256) b3 8) by (change (2 ^ 8) with 256; lia).
  unfold be_val. cbn [fold_left]. change (2 ^ 31) with 2147483648. lia.
Qed.

Lemma divisor_table_pow digits : (1 <= digits <= 9)%Z ->
  nth (Z.to_nat (digits - 1)) divisor_table 0 = 10 ^ Z.to_N digits.
Proof.
  intros H.
  assert (E : (digits = 1 \/ digits = 2 \/ digits = 3 \/ digits = 4 \/ digits = 5 \/ digits = 6 \/ digits = 7 \/
              digits = 8 \/ digits = 9)%Z) by lia.
  repeat (destruct E as [->|E]; [reflexivity|]). subst. reflexivity.
Qed.

Lemma bytes_ok_nth l i : bytes_okb l = true -> nth i l 0 < 256.
Proof.
  intros H. destruct (Nat.lt_ge_cases i (length l)) as [Hi|Hi].
  - unfold bytes_okb in H. rewrite forallb_forall in H. apply N.ltb_lt. apply H. now apply nth_In.
  - rewrite nth_overflow by exact Hi. reflexivity.
Qed.
Lemma firstn4_skipn_nth (l : list N) o : (o + 4 <= length l)%nat ->
  firstn 4 (skipn o l) = [nth (o + 0) l 0; nth (o + 1) l 0; nth (o + 2) l 0; nth (o + 3) l 0].
Proof.
  revert l. induction o as [|o IH]; intros l H.
  - destruct l as [|a [|b [|c [|d l]]]]; cbn in H; try lia. reflexivity.
  - destruct l as [|a l]; [cbn in H; lia|]. cbn [skipn Nat.add nth]. apply IH. cbn in H. lia.
Qed.

(* the truncation helper on ANY digest *)
Theorem hotp_from_digest_spec dg digits : bytes_okb dg = true -> (1 <= digits <= 9)%Z ->
  hotp_from_digest dg digits =
    if (match dg with [] => true | _ => false end) || (length dg <? N.to_nat (last dg 0%N mod 16) + 4)%nat
    then Throw RuntimeError else Ok (Z.of_N (DT dg mod 10 ^ Z.to_N digits)).
Proof.
  intros Hok Hd. unfold hotp_from_digest. destruct dg as [|x dg']; [reflexivity|]. cbn [orb].
  set (dg := x :: dg') in *. rewrite land_0f.
  set (o := N.to_nat (last dg 0 mod 16)).
  destruct (Nat.ltb_spec (length dg) (o + 4)) as [H|H]; [reflexivity|].
  f_equal. f_equal. rewrite divisor_table_pow by exact Hd. f_equal.
  unfold DT. fold o. rewrite firstn4_skipn_nth by exact H.
  apply bin_code_arith; apply bytes_ok_nth; exact Hok.
Qed.

Lemma HMAC_spec_length t K m : length (HMAC_spec t K m) = digest_size t.
Proof. apply SHA_spec_length. Qed.
Lemma HMAC_spec_ok t K m : bytes_okb (HMAC_spec t K m) = true.
Proof. apply SHA_spec_ok. Qed.
Lemma digest_ge_20 t : (20 <= digest_size t)%nat. Proof. destruct t; cbn; lia. Qed.

Theorem get_hotp_code_spec t K C digits : N.of_nat (length K) < 2 ^ 61 -> (1 <= digits <= 9)%Z ->
  get_hotp_code t K C digits = Ok (Z.of_N (HOTP_spec t K C (Z.to_N digits))).
Proof.
  intros HK Hd. unfold get_hotp_code, digits_ok.
  replace ((1 <=? digits)%Z && (digits <=? 9)%Z) with true by (symmetry; apply andb_true_iff; split; apply Z.leb_le; lia).
  cbn [negb]. rewrite get_hmac_raw_spec by (try exact HK; rewrite be_bytes_length; reflexivity).
  rewrite hotp_from_digest_spec by (auto using HMAC_spec_ok).
  set (dg := HMAC_spec t K (be_bytes 8 C)).
  assert (Hl : length dg = digest_size t) by apply HMAC_spec_length.
  pose proof (digest_ge_20 t) as H20.
  destruct dg as [|x dg'] eqn:E; [cbn in Hl; lia|]. cbn [orb]. rewrite <- E in *.
  assert (Ho : (N.to_nat (last dg 0%N mod 16) < 16)%nat).
  { pose proof (N.mod_upper_bound (last dg 0%N) 16 ltac:(discriminate)). lia. }
  destruct (Nat.ltb_spec (length dg) (N.to_nat (last dg 0%N mod 16) + 4)) as [H|H]; [lia|].
  reflexivity.
Qed.

Lemma HOTP_spec_range t K C d : HOTP_spec t K C d < 10 ^ d /\ HOTP_spec t K C d < 2 ^ 31.
Proof.
  unfold HOTP_spec. split.
  - apply N.mod_upper_bound. apply N.pow_nonzero. discriminate.
  - eapply N.le_lt_trans; [apply N.mod_le; apply N.pow_nonzero; discriminate|].
    unfold DT. apply N.mod_upper_bound. discriminate.
Qed.

Theorem get_totp_code_at_spec t K ts period digits : N.of_nat (length K) < 2 ^ 61 ->
  (1 <= period)%Z -> (1 <= digits <= 9)%Z ->
  get_totp_code_at t K ts period digits = get_hotp_code t K (ts / Z.to_N period) digits /\
  get_totp_code_at t K ts period digits = Ok (Z.of_N (TOTP_spec t K ts (Z.to_N period) (Z.to_N digits))).
Proof.
  intros HK Hp Hd. unfold get_totp_code_at, digits_ok.
  replace (period <=? 0)%Z with false by (symmetry; apply Z.leb_gt; lia).
  replace ((1 <=? digits)%Z && (digits <=? 9)%Z) with true by (symmetry; apply andb_true_iff; split; apply Z.leb_le; lia).
  cbn [negb]. split; [reflexivity|]. now rewrite get_hotp_code_spec.
Qed.

Theorem get_totp_code_clock t K period digits now err :
  get_totp_code t K period digits (now, err) =
    if (period <=? 0)%Z then Throw InvalidArgument
    else if negb (digits_ok digits) then Throw InvalidArgument
    else if ((now =? -1)%Z && err) || (now <? 0)%Z then Throw RuntimeError
    else get_totp_code_at t K (Z.to_N now) period digits.
Proof.
  unfold get_totp_code, read_clock_totp.
  destruct (period <=? 0)%Z; [reflexivity|]. destruct (negb (digits_ok digits)); [reflexivity|].
  destruct ((now =? -1)%Z && err); [reflexivity|]. cbn [orb]. destruct (now <? 0)%Z; reflexivity.
Qed.

(* ---------- C07: the acceptance window ---------- *)
Theorem totp_window_spec t tok K c digits : N.of_nat (length K) < 2 ^ 61 -> (1 <= digits <= 9)%Z -> c < 2 ^ 64 ->
  let code x := Z.of_N (HOTP_spec t K x (Z.to_N digits)) in
  exists b, totp_window t tok K c digits = Ok b /\
    (b = true <-> (tok = code c \/ (c <> 2 ^ 64 - 1 /\ tok = code (c + 1)) \/ (0 < c /\ tok = code (c - 1)))).
Proof.
  intros HK Hd Hc code. unfold totp_window.
  rewrite !get_hotp_code_spec by assumption. cbn [bind]. fold (code c).
  destruct (Z.eqb_spec tok (code c)) as [E0|E0].
  { exists true. split; [reflexivity|]. split; auto. }
  destruct (N.eqb_spec c (2 ^ 64 - 1)) as [Em|Em]; cbn [negb bind].
  - destruct (N.ltb_spec 0 c) as [Hp|Hp]; cbn [bind].
    + cbn [bind]. fold (code (c - 1)).
      exists (Z.eqb tok (code (c - 1))). split; [reflexivity|]. rewrite Z.eqb_eq. split.
      * intros E. right. right. auto.
      * intros [E|[[E _]|[_ E]]]; congruence.
    + exists false. split; [reflexivity|]. split; [discriminate|].
      intros [E|[[E _]|[E _]]]; try congruence. lia.
  - cbn [bind]. fold (code (c + 1)).
    destruct (Z.eqb_spec tok (code (c + 1))) as [E1|E1].
    { exists true. split; [reflexivity|]. split; auto. }
    destruct (N.ltb_spec 0 c) as [Hp|Hp]; cbn [bind].
    + cbn [bind]. fold (code (c - 1)).
      exists (Z.eqb tok (code (c - 1))). split; [reflexivity|]. rewrite Z.eqb_eq. split.
      * intros E. right. right. auto.
      * intros [E|[[_ E]|[_ E]]]; congruence.
    + exists false. split; [reflexivity|]. split; [discriminate|].
      intros [E|[[_ E]|[E _]]]; try congruence. lia.
Qed.
