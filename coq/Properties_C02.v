(* C02 - HMAC equals RFC 2104 for every key and message, in every API form. *)
From HV Require Import Base_Bytes Spec_SHA Spec_HMAC Model_Hash Model_Hmac Proofs_Hash Proofs_Hmac.
Local Open Scope N_scope.

(* every key (shorter than, equal to, longer than the block), every message, three hashes *)
Theorem C02_rfc2104 : forall (t : hash_t) (K m : list N),
  N.of_nat (length K) < 2 ^ 61 -> N.of_nat (length m) < 2 ^ 61 - 128 ->
  get_hmac_raw t K m = HMAC_spec t K m.
Proof. exact get_hmac_raw_spec. Qed.
Print Assumptions C02_rfc2104.

(* the key block: a key of exactly one block is used as is, a longer one is hashed, a shorter one zero-padded *)
Theorem C02_key_cases : forall (t : hash_t) (K : list N), N.of_nat (length K) < 2 ^ 61 ->
  hmac_key_block t K =
    if (block_size t <? length K)%nat then SHA_spec t K ++ repeat 0 (block_size t - digest_size t)
    else K ++ repeat 0 (block_size t - length K).
Proof.
  intros t K HK. rewrite hmac_key_block_spec by exact HK. unfold hmac_K0, pad_to.
  destruct (Nat.ltb_spec (block_size t) (length K)) as [H|H].
  - rewrite firstn_all2 by (rewrite SHA_spec_length; apply digest_le_block). now rewrite SHA_spec_length.
  - now rewrite firstn_all2 by lia.
Qed.
Print Assumptions C02_key_cases.

(* to_hex over its 32-character table = plain lower / upper hex of every byte string *)
Theorem C02_hex : forall (up : bool) (bs : list N), bytes_okb bs = true -> to_hex up bs = hex_of_bytes up bs.
Proof. exact to_hex_spec. Qed.
Print Assumptions C02_hex.

(* the string-returning form: hex (lower, on request upper) of the binary MAC, or the binary MAC *)
Theorem C02_string_form : forall (t : hash_t) (K m : list N) (is_hex is_upper : bool),
  N.of_nat (length K) < 2 ^ 61 -> N.of_nat (length m) < 2 ^ 61 - 128 ->
  get_hmac_str t K m is_hex is_upper =
    if is_hex then hex_of_bytes is_upper (HMAC_spec t K m) else HMAC_spec t K m.
Proof. exact get_hmac_str_spec. Qed.
Print Assumptions C02_string_form.

Example C02_nonvacuous : get_hmac_raw SHA256 (repeat 11 64) [1;2;3] = HMAC_spec SHA256 (repeat 11 64) [1;2;3].
Proof. vm_compute. reflexivity. Qed.
