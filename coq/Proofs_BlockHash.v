From HV Require Import Base_Bytes Base_BytesLemmas Model_BlockHash.
Local Open Scope N_scope.

Section Proofs.
  Variable B LB : nat.
  Hypothesis HB : (LB + 1 <= B)%nat.
  Hypothesis HB0 : (0 < B)%nat.
  Variable compress : list N -> list N -> list N.
  Variable IV : list N.
  Variable len_field : nat -> list N.
  Hypothesis len_field_len : forall n, length (len_field n) = LB.
  Notation AInv := (AInv B compress IV).
  Notation a_update := (a_update B compress).
  Notation a_finish := (a_finish B LB compress len_field).
  Notation hash_spec := (hash_spec B LB compress IV len_field).
  Notation a_init := (a_init IV).
  Notation transform := (transform B compress).

  Lemma AInv_init : AInv a_init [].
  Proof. unfold AInv, a_init; simpl. repeat split; try lia. apply Nat.mod_0_l; lia. Qed.

  Lemma fold_chunks_app k (a l : list N) s : length a = (k * B)%nat ->
    fold_left compress (chunks B (a ++ l)) s = fold_left compress (chunks B l) (fold_left compress (chunks B a) s).
  Proof. intros. rewrite (chunks_app_mult B k) by assumption. apply fold_left_app. Qed.

  Lemma AInv_update c msg m : AInv c msg -> AInv (a_update c m) (msg ++ m).
  Proof.
    intros (Hlt & Htot & Hle & Hbuf & Hmod & Hh).
    unfold Model_BlockHash.a_update. destruct (Nat.ltb_spec (length (a_buf c) + length m) B) as [Hs|Hs].
    - unfold Model_BlockHash.AInv; cbn [a_buf a_tot a_h].
      rewrite Nat.min_l by lia. rewrite firstn_all. rewrite !app_length.
      repeat split; try lia.
      + rewrite Hbuf at 1. rewrite skipn_app. f_equal.
        replace (a_tot c - length msg)%nat with 0%nat by lia. reflexivity.
      + rewrite firstn_app. replace (a_tot c - length msg)%nat with 0%nat by lia.
        cbn [firstn]. rewrite app_nil_r. exact Hh.
    - set (bl := length (a_buf c)) in *.
      set (rem_len := Nat.min (length m) (B - bl)).
      assert (Hrem : rem_len = (B - bl)%nat) by (unfold rem_len; lia).
      set (new_len := (length m - rem_len)%nat).
      set (nb := (new_len / B)%nat).
      pose proof (Nat.div_mod new_len B ltac:(lia)) as Hdm. fold nb in Hdm.
      pose proof (Nat.mod_upper_bound new_len B ltac:(lia)) as Hub.
      unfold Model_BlockHash.AInv; cbn [a_buf a_tot a_h].
      assert (Hl1 : length (firstn (new_len mod B) (skipn (nb * B) (skipn rem_len m))) = (new_len mod B)%nat).
      { rewrite firstn_length, !skipn_length. unfold new_len in *. lia. }
      rewrite Hl1, !app_length.
      assert (Hmsgsplit : msg ++ m = firstn (a_tot c) msg ++ (a_buf c ++ firstn rem_len m) ++
                 firstn (nb * B) (skipn rem_len m) ++ skipn (nb * B) (skipn rem_len m)).
      { rewrite firstn_skipn. rewrite <- app_assoc. rewrite firstn_skipn. rewrite app_assoc.
        rewrite Hbuf. rewrite firstn_skipn. reflexivity. }
      assert (Hblk : length (a_buf c ++ firstn rem_len m) = (1 * B)%nat).
      { rewrite app_length, firstn_length. fold bl. unfold rem_len. lia. }
      assert (Hfull : length (firstn (nb * B) (skipn rem_len m)) = (nb * B)%nat).
      { rewrite firstn_length, skipn_length. fold new_len. lia. }
      assert (Htotk : exists k, length (firstn (a_tot c) msg) = (k * B)%nat).
      { exists (a_tot c / B)%nat. rewrite firstn_length, Nat.min_l by lia.
        pose proof (Nat.div_mod (a_tot c) B ltac:(lia)). lia. }
      destruct Htotk as [k Hk].
      set (P := firstn (a_tot c) msg ++ (a_buf c ++ firstn rem_len m) ++ firstn (nb * B) (skipn rem_len m)).
      set (R := skipn (nb * B) (skipn rem_len m)).
      assert (HPR : msg ++ m = P ++ R) by (unfold P, R; rewrite Hmsgsplit, <- !app_assoc; reflexivity).
      assert (HlenP : length P = (a_tot c + (nb + 1) * B)%nat).
      { unfold P. rewrite !app_length. rewrite app_length in Hblk. rewrite Hfull, Hk.
        rewrite firstn_length, Nat.min_l in Hk by lia. lia. }
      repeat split; try (unfold new_len in *; lia).
      + rewrite HPR, <- HlenP, skipn_app, skipn_all, Nat.sub_diag. cbn [skipn app].
        unfold R. rewrite firstn_all2; [reflexivity|]. rewrite !skipn_length. unfold new_len in *. lia.
      + rewrite <- Nat.add_mod_idemp_l by lia. rewrite Hmod. cbn [Nat.add].
        apply Nat.mod_mul. lia.
      + unfold Model_BlockHash.transform. rewrite Hh.
        rewrite HPR, <- HlenP, (firstn_app (length P) P R), firstn_all, Nat.sub_diag. cbn [firstn]. rewrite app_nil_r.
        unfold P.
        rewrite (fold_chunks_app k) by exact Hk.
        rewrite (fold_chunks_app 1) by exact Hblk.
        rewrite (firstn_all2 (n := (1 * B)%nat)) by lia.
        reflexivity.
  Qed.

  Lemma a_finish_spec c msg : AInv c msg -> a_finish (B - LB - 1) c = hash_spec msg.
  Proof.
    intros (Hlt & Htot & Hle & Hbuf & Hmod & Hh).
    unfold Model_BlockHash.a_finish, Model_BlockHash.hash_spec, Model_BlockHash.pad_spec, Model_BlockHash.transform.
    set (ml := length (a_buf c)) in *.
    rewrite (Nat.mod_small ml B) by lia.
    assert (Hn : length msg = (a_tot c + ml)%nat) by lia.
    assert (Hmsg : msg = firstn (a_tot c) msg ++ a_buf c) by (rewrite Hbuf, firstn_skipn; reflexivity).
    assert (Hk : exists k, length (firstn (a_tot c) msg) = (k * B)%nat).
    { exists (a_tot c / B)%nat. rewrite firstn_length, Nat.min_l by lia.
      pose proof (Nat.div_mod (a_tot c) B ltac:(lia)). lia. }
    destruct Hk as [k Hk].
    assert (Hmodn : ((length msg + 1 + LB) mod B = (ml + 1 + LB) mod B)%nat).
    { rewrite Hn. replace (a_tot c + ml + 1 + LB)%nat with ((ml + 1 + LB) + a_tot c)%nat by lia.
      rewrite <- Nat.add_mod_idemp_r, Hmod, Nat.add_0_r by lia. reflexivity. }
    rewrite Hmodn. rewrite Hh. rewrite <- Hn.
    set (nb := if (B - LB - 1 <? ml)%nat then 2%nat else 1%nat).
    assert (Hz : (nb * B - ml - 1 - LB = (B - (ml + 1 + LB) mod B) mod B /\ ml + 1 + LB <= nb * B)%nat).
    { unfold nb. destruct (Nat.ltb_spec (B - LB - 1) ml) as [Hc|Hc].
      - assert (E : ((ml + 1 + LB) mod B = ml + 1 + LB - B)%nat).
        { symmetry. apply Nat.mod_unique with (q := 1%nat); lia. }
        rewrite E. rewrite Nat.mod_small by lia. lia.
      - destruct (Nat.eq_dec (ml + 1 + LB) B) as [E|E].
        + rewrite E, Nat.mod_same, Nat.sub_0_r, Nat.mod_same by lia. lia.
        + rewrite (Nat.mod_small (ml + 1 + LB)) by lia. rewrite Nat.mod_small by lia. lia. }
    destruct Hz as [Hz Hfit]. rewrite <- Hz.
    set (final := a_buf c ++ [128] ++ repeat 0 (nb * B - ml - 1 - LB)%nat ++ len_field (length msg)).
    assert (Hfl : length final = (nb * B)%nat).
    { unfold final. rewrite !app_length, repeat_length, len_field_len. cbn [length]. fold ml. lia. }
    rewrite firstn_all2 by lia.
    rewrite Hmsg at 2. rewrite <- app_assoc. fold final.
    rewrite (fold_chunks_app k) by exact Hk. reflexivity.
  Qed.

  Lemma AInv_updates cs : forall c msg, AInv c msg -> AInv (fold_left a_update cs c) (msg ++ concat cs).
  Proof.
    induction cs as [|m ms IH]; intros c msg HI; cbn [fold_left concat].
    - now rewrite app_nil_r.
    - rewrite app_assoc. apply IH. now apply AInv_update.
  Qed.

  Theorem a_chunked_correct (cs : list (list N)) :
    a_finish (B - LB - 1) (fold_left a_update cs a_init) = hash_spec (concat cs).
  Proof. apply a_finish_spec. apply (AInv_updates cs a_init []). apply AInv_init. Qed.
End Proofs.
