(* C17 - no key material in released heap memory. PARTIAL: the theorems are about the INVENTORY model of the library's
   temporaries (Model_Release.v) - which containers hold which derived value and how each is let go of - and about secure_buffer
   (C16).  That the inventory is complete and that the real allocator, optimiser and zeroing back-end behave accordingly is
   observed: every block released during each call is scanned for 8-byte windows of the secret and of the derived values. *)
From HV Require Import Base_Bytes Spec_SHA Spec_HMAC Model_Hash Model_Hmac Model_Kdf Model_Release Proofs_Release.
Local Open Scope N_scope.

(* every temporary of every modelled entry point is zero when the allocator gets it back - all keys, messages, lengths, hashes *)
Theorem C17_released_zero : forall t key msg P S pepper c dk ikm salt decoded b36,
  all_released_zero (rel_get_hmac true t key msg) = true /\ all_released_zero (rel_hmac_ctx true t key msg) = true /\
  all_released_zero (rel_get_hmac_securekey true t key msg) = true /\ all_released_zero (rel_token_securekey true t key msg) = true /\
  all_released_zero (rel_pbkdf2 true t P S c dk) = true /\ all_released_zero (rel_pepper true t P S pepper c dk) = true /\
  all_released_zero (rel_hkdf_extract true ikm salt) = true /\ all_released_zero (rel_decode_secure true decoded b36) = true.
Proof.
  intros. repeat split; apply no_raw_zero;
    auto using no_raw_get_hmac, no_raw_hmac_ctx, no_raw_securekey, no_raw_token, no_raw_pbkdf2, no_raw_pepper, no_raw_extract, no_raw_decode.
Qed.
Print Assumptions C17_released_zero.

(* the containers hold exactly the RFC 2104 intermediate values: block-padded key, inner pad, outer pad *)
Theorem C17_contents : forall t key msg, N.of_nat (length key) < 2 ^ 61 ->
  In (mk RSecure 3 (hmac_K0 t key)) (rel_get_hmac true t key msg) /\
  In (mk RSecure 4 (xor_const 0x36 (hmac_K0 t key))) (rel_get_hmac true t key msg) /\
  In (mk RSecure 5 (xor_const 0x5c (hmac_K0 t key))) (rel_get_hmac true t key msg).
Proof. exact get_hmac_contents. Qed.
Print Assumptions C17_contents.

(* findings at the pinned commit, machine-checked on the inventory: SHA1's message buffer (tail of a long key), the plain key copy
   of the secure_buffer-key overloads, base36_decode's work vector *)
Theorem C17_pinned_sha1_refuted : exists key msg, all_released_zero (rel_get_hmac false SHA1 key msg) = false.
Proof. exact pinned_sha1_refuted. Qed.
Theorem C17_pinned_securekey_refuted : exists key msg, all_released_zero (rel_get_hmac_securekey false SHA256 key msg) = false.
Proof. exact pinned_securekey_refuted. Qed.
Theorem C17_pinned_base36_refuted : exists d, all_released_zero (rel_decode_secure false d true) = false.
Proof. exact pinned_base36_refuted. Qed.
Print Assumptions C17_pinned_sha1_refuted.
(* secret_string: the plaintext copy handed to the callback is zero when released, whether the callback returns or throws (any type);
   at the pinned commit a throwing callback left it intact (finding F5, also C18_tmp_pinned_refuted) *)
Theorem C17_secret_reveal : forall (cb_throws : bool) (plain : list N), all_released_zero (rel_secret_reveal true cb_throws plain) = true.
Proof. exact secret_reveal_zero. Qed.
Print Assumptions C17_secret_reveal.
Theorem C17_pinned_secret_reveal_refuted : exists plain, all_released_zero (rel_secret_reveal false true plain) = false.
Proof. exact pinned_secret_reveal_refuted. Qed.
Print Assumptions C17_pinned_secret_reveal_refuted.
