(* Model_Hmac: one-shot get_hmac (src/hmac.cpp:209-276) with its separate key / ikeypad / okeypad /
   inner_data / outer_data buffers, the hex and string forms (hmac.cpp:8-22, 278-283), and the streaming
   HmacContext (hmac.cpp:88-207) with its three embedded hash contexts. *)
From HV Require Import Base_Bytes Spec_SHA Model_Sha2Ctx Model_Sha1Ctx Model_Hash.
Local Open Scope N_scope.

(* secure_buffer key(block_size) is zero-filled; long keys are hashed with get_hash, others copied *)
Definition hmac_key_block (t : hash_t) (key : list N) : list N :=
  let bs := block_size t in
  if (bs <? length key)%nat
  then let hashed := get_hash t key in
       write_at (repeat 0 bs) 0 hashed                      (* std::copy + fill of the rest with 0 *)
  else write_at (repeat 0 bs) 0 key.                         (* memcpy + fill *)

Definition get_hmac_raw (t : hash_t) (key msg : list N) : list N :=
  let k := hmac_key_block t key in
  let ikeypad := map (fun b => N.lxor b 0x36) k in
  let okeypad := map (fun b => N.lxor b 0x5c) k in
  let inner_data := ikeypad ++ msg in
  let inner_hash := get_hash t inner_data in
  let outer_data := okeypad ++ inner_hash in
  get_hash t outer_data.

(* to_hex: "0123456789abcdef0123456789ABCDEF", symbol = lut + 16 when upper *)
Definition hex_lut : list N :=
  [48;49;50;51;52;53;54;55;56;57;97;98;99;100;101;102;48;49;50;51;52;53;54;55;56;57;65;66;67;68;69;70].
Definition to_hex (upper : bool) (input : list N) : list N :=
  let off := if upper then 16%nat else 0%nat in
  flat_map (fun ch => [nth (off + N.to_nat (N.shiftr ch 4)) hex_lut 0; nth (off + N.to_nat (N.land ch 15)) hex_lut 0]) input.
Definition get_hmac_str (t : hash_t) (key msg : list N) (is_hex is_upper : bool) : list N :=
  let out := get_hmac_raw t key msg in
  if is_hex then to_hex is_upper out else out.

(* ---- streaming context ---- *)
Record hmac_ctx := {
  hc_type : hash_t; hc_block_size : nat; hc_digest_size : nat; hc_okeypad : list N;
  hc_sha1 : ctx1; hc_sha256 : ctx2; hc_sha512 : ctx2 }.
Definition hc_new (t : hash_t) : hmac_ctx :=
  {| hc_type := t; hc_block_size := 0; hc_digest_size := 0; hc_okeypad := [];
     hc_sha1 := fresh1; hc_sha256 := fresh2 64; hc_sha512 := fresh2 128 |}.
Definition hc_get (h : hmac_ctx) : hctx :=
  match hc_type h with SHA1 => HC1 (hc_sha1 h) | SHA256 => HC256 (hc_sha256 h) | SHA512 => HC512 (hc_sha512 h) end.
Definition hc_put (h : hmac_ctx) (c : hctx) : hmac_ctx :=
  match c with
  | HC1 c => {| hc_type := hc_type h; hc_block_size := hc_block_size h; hc_digest_size := hc_digest_size h;
                hc_okeypad := hc_okeypad h; hc_sha1 := c; hc_sha256 := hc_sha256 h; hc_sha512 := hc_sha512 h |}
  | HC256 c => {| hc_type := hc_type h; hc_block_size := hc_block_size h; hc_digest_size := hc_digest_size h;
                hc_okeypad := hc_okeypad h; hc_sha1 := hc_sha1 h; hc_sha256 := c; hc_sha512 := hc_sha512 h |}
  | HC512 c => {| hc_type := hc_type h; hc_block_size := hc_block_size h; hc_digest_size := hc_digest_size h;
                hc_okeypad := hc_okeypad h; hc_sha1 := hc_sha1 h; hc_sha256 := hc_sha256 h; hc_sha512 := c |}
  end.

Definition hmac_init (h : hmac_ctx) (key : list N) : hmac_ctx :=
  let t := hc_type h in
  let k := hmac_key_block t key in
  let okeypad := map (fun b => N.lxor b 0x5c) k in
  let ipad := map (fun b => N.lxor b 0x36) k in
  let h1 := {| hc_type := t; hc_block_size := block_size t; hc_digest_size := digest_size t;
               hc_okeypad := okeypad; hc_sha1 := hc_sha1 h; hc_sha256 := hc_sha256 h; hc_sha512 := hc_sha512 h |} in
  hc_put h1 (hupdate (hinit (hc_get h1)) ipad).
Definition hmac_update (h : hmac_ctx) (data : list N) : hmac_ctx := hc_put h (hupdate (hc_get h) data).
Definition hmac_final (h : hmac_ctx) : hmac_ctx * list N :=
  let r1 := hfinish (hc_get h) in                      (* sha.finish(inner) *)
  let inner := snd r1 in
  let c2 := hupdate (hupdate (hinit (fst r1)) (firstn (hc_block_size h) (hc_okeypad h))) (firstn (hc_digest_size h) inner) in
  let r2 := hfinish c2 in
  (hc_put h (fst r2), snd r2).

Definition hmac_shape (h : hmac_ctx) : Prop :=
  length (m_block (hc_sha256 h)) = 128%nat /\ length (m_block (hc_sha512 h)) = 256%nat.
