(* C06 - HOTP/TOTP codes equal RFC 4226/6238 for every key, counter, digits, hash. *)
From HV Require Import Base_Bytes Base_Result Spec_SHA Spec_HMAC Spec_OTP Model_Hmac Model_Otp Proofs_Otp.
Local Open Scope N_scope.

(* every key (incl. empty and longer than a block), every 64-bit counter, digits 1..9, three hashes *)
Theorem C06_hotp : forall (t : hash_t) (K : list N) (C : N) (digits : Z),
  N.of_nat (length K) < 2 ^ 61 -> (1 <= digits <= 9)%Z ->
  get_hotp_code t K C digits = Ok (Z.of_N (HOTP_spec t K C (Z.to_N digits))) /\
  HOTP_spec t K C (Z.to_N digits) < 10 ^ Z.to_N digits /\ HOTP_spec t K C (Z.to_N digits) < 2 ^ 31.
Proof. intros t K C d HK Hd. split; [now apply get_hotp_code_spec|apply HOTP_spec_range]. Qed.
Print Assumptions C06_hotp.

(* TOTP(t, p) = HOTP(floor(t / p)) for every timestamp in [0, 2^64) and every period 1..INT_MAX *)
Theorem C06_totp : forall (t : hash_t) (K : list N) (ts : N) (period digits : Z),
  N.of_nat (length K) < 2 ^ 61 -> (1 <= period)%Z -> (1 <= digits <= 9)%Z ->
  get_totp_code_at t K ts period digits = get_hotp_code t K (ts / Z.to_N period) digits /\
  get_totp_code_at t K ts period digits = Ok (Z.of_N (TOTP_spec t K ts (Z.to_N period) (Z.to_N digits))).
Proof. exact get_totp_code_at_spec. Qed.
Print Assumptions C06_totp.

(* the system-clock form is the explicit form at the clock's value; a failing or negative clock is a runtime_error *)
Theorem C06_clock : forall (t : hash_t) (K : list N) (period digits now : Z) (err : bool),
  get_totp_code t K period digits (now, err) =
    if (period <=? 0)%Z then Throw InvalidArgument
    else if negb (digits_ok digits) then Throw InvalidArgument
    else if ((now =? -1)%Z && err) || (now <? 0)%Z then Throw RuntimeError
    else get_totp_code_at t K (Z.to_N now) period digits.
Proof. exact get_totp_code_clock. Qed.
Print Assumptions C06_clock.

(* the truncation helper on ANY digest: errs exactly on an empty or too-short digest, else RFC 4226 DT mod 10^d *)
Theorem C06_truncation : forall (dg : list N) (digits : Z), bytes_okb dg = true -> (1 <= digits <= 9)%Z ->
  hotp_from_digest dg digits =
    if (match dg with [] => true | _ => false end) || (length dg <? N.to_nat (last dg 0%N mod 16) + 4)%nat
    then Throw RuntimeError else Ok (Z.of_N (DT dg mod 10 ^ Z.to_N digits)).
Proof. exact hotp_from_digest_spec. Qed.
Print Assumptions C06_truncation.

(* RFC 4226 appendix D, count 0 with the 20-byte ASCII key: 755224 *)
Example C06_rfc4226_vector :
  get_hotp_code SHA1 [49;50;51;52;53;54;55;56;57;48;49;50;51;52;53;54;55;56;57;48] 0 6 = Ok 755224%Z.
Proof. vm_compute. reflexivity. Qed.
