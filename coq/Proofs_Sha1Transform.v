(* Proofs_Sha1Transform: the code-shaped SHA-1 transform (Model_Sha1Transform: 16-word circular schedule updated in
   place, registers keeping their positions while their roles rotate, the macros' boolean functions, the C order
   of additions) is the FIPS 180-4 compression function Spec_SHA.sha1_compress. *)
From HV Require Import Base_Bytes Base_BytesLemmas Spec_SHA Model_Sha1Transform.
From Coq Require Import ZifyNat.
Local Open Scope N_scope.
Ltac Zify.zify_post_hook ::= Z.to_euclidean_division_equations.

(* ---------- word-level facts ---------- *)
Lemma testbit_high32 y i : y < 2 ^ 32 -> 32 <= i -> N.testbit y i = false.
Proof. intros Hy Hi. rewrite <- (N.mod_small y (2 ^ 32)) by exact Hy. now apply N.mod_pow2_bits_high. Qed.

Lemma lt_pow2_bits y n : (forall i, n <= i -> N.testbit y i = false) -> y < 2 ^ n.
Proof.
  intros Hb. destruct (N.eq_dec y 0) as [->|Hy0]; [apply N.neq_0_lt_0; now apply N.pow_nonzero|].
  apply N.log2_lt_pow2; [lia|].
  destruct (N.lt_ge_cases (N.log2 y) n) as [Hlt|Hge]; [exact Hlt|].
  specialize (Hb _ Hge). rewrite N.bit_log2 in Hb by exact Hy0. discriminate.
Qed.

Lemma wadd_ok x y : word_ok (wadd 32 x y).
Proof. unfold word_ok, wadd. apply N.mod_upper_bound. discriminate. Qed.

Lemma rotl_ok n x : n <= 32 -> x < 2 ^ 32 -> word_ok (rotl 32 n x).
Proof.
  intros Hn Hx. unfold word_ok, rotl, wmask. apply lt_pow2_bits. intros i Hi.
  rewrite N.lor_spec, N.land_spec, N.shiftr_spec by apply N.le_0_l.
  change (2 ^ 32 - 1) with (N.ones 32). rewrite N.ones_spec_high by exact Hi.
  rewrite andb_false_r. cbn [orb]. apply testbit_high32; [exact Hx|lia].
Qed.

Lemma f_r01_Ch w x y : y < 2 ^ 32 -> f_r01 w x y = Ch 32 w x y.
Proof.
  intros Hy. unfold f_r01, Ch, wnot, wmask. apply N.bits_inj. intros i.
  rewrite !N.lxor_spec, !N.land_spec, !N.lxor_spec. change (2 ^ 32 - 1) with (N.ones 32).
  destruct (N.lt_ge_cases i 32) as [Hi|Hi].
  - rewrite N.ones_spec_low by exact Hi.
    destruct (N.testbit w i), (N.testbit x i), (N.testbit y i); reflexivity.
  - rewrite N.ones_spec_high by exact Hi. rewrite (testbit_high32 y i Hy Hi).
    destruct (N.testbit w i), (N.testbit x i); reflexivity.
Qed.

Lemma f_r24_Parity w x y : f_r24 w x y = Parity w x y.
Proof. reflexivity. Qed.

Lemma f_r3_Maj w x y : f_r3 w x y = Maj w x y.
Proof.
  unfold f_r3, Maj. apply N.bits_inj. intros i.
  rewrite !N.lxor_spec, !N.lor_spec, !N.land_spec, N.lor_spec.
  destruct (N.testbit w i), (N.testbit x i), (N.testbit y i); reflexivity.
Qed.

Lemma code_f_eq t w x y : y < 2 ^ 32 ->
  (if (t <? 20)%nat then f_r01 w x y else if (t <? 40)%nat then f_r24 w x y
   else if (t <? 60)%nat then f_r3 w x y else f_r24 w x y) = sha1_f t w x y.
Proof.
  intros Hy. unfold sha1_f. rewrite (f_r01_Ch w x y Hy), f_r3_Maj, f_r24_Parity. reflexivity.
Qed.

(* the C order of the additions against the FIPS order *)
Lemma sum_order f wi k rv z :
  wadd 32 z (wadd 32 (wadd 32 (wadd 32 f wi) k) rv) = wadd 32 (wadd 32 (wadd 32 (wadd 32 rv f) z) k) wi.
Proof.
  unfold wadd. set (m := 2 ^ 32). assert (Hm : m <> 0) by discriminate.
  rewrite (N.add_mod_idemp_l (f + wi) k m), (N.add_mod_idemp_l (f + wi + k) rv m),
    (N.add_mod_idemp_r z (f + wi + k + rv) m), (N.add_mod_idemp_l (rv + f) z m),
    (N.add_mod_idemp_l (rv + f + z) k m), (N.add_mod_idemp_l (rv + f + z + k) wi m) by exact Hm.
  apply (f_equal (fun t => t mod m)). lia.
Qed.

(* ---------- the message schedule of the spec as a recurrence ---------- *)
Definition sched_ext (n : nat) (l : list N) : list N := rev (sha1_schedule_rev n (rev l)).
Definition next_w (ws : list N) (t : nat) : N :=
  rotl 32 1 (N.lxor (N.lxor (N.lxor (nth (t - 3) ws 0) (nth (t - 8) ws 0)) (nth (t - 14) ws 0)) (nth (t - 16) ws 0)).

Lemma sched_ext_S n l : sched_ext (S n) l =
  sched_ext n (l ++ [rotl 32 1 (N.lxor (N.lxor (N.lxor (nth 2 (rev l) 0) (nth 7 (rev l) 0)) (nth 13 (rev l) 0)) (nth 15 (rev l) 0))]).
Proof. unfold sched_ext. cbn [sha1_schedule_rev]. rewrite rev_unit. reflexivity. Qed.

Lemma sched_ext_spec n : forall l, (16 <= length l)%nat ->
  length (sched_ext n l) = (length l + n)%nat /\
  (forall t, (t < length l)%nat -> nth t (sched_ext n l) 0 = nth t l 0) /\
  (forall t, (length l <= t < length l + n)%nat -> nth t (sched_ext n l) 0 = next_w (sched_ext n l) t).
Proof.
  induction n as [|n IH]; intros l Hl.
  - unfold sched_ext. cbn [sha1_schedule_rev]. rewrite rev_involutive.
    split; [lia|]. split; [reflexivity|]. intros t Ht. lia.
  - rewrite sched_ext_S.
    set (x := rotl 32 1 _).
    destruct (IH (l ++ [x])) as (L & P & Rr); [rewrite app_length; cbn [length]; lia|].
    rewrite app_length in L, P, Rr. cbn [length] in L, P, Rr.
    split; [lia|]. split.
    + intros t Ht. rewrite P by lia. apply app_nth1. exact Ht.
    + intros t Ht. destruct (Nat.eq_dec t (length l)) as [Et|Hne].
      * subst t. rewrite P by lia. rewrite app_nth2 by lia. rewrite Nat.sub_diag. cbn [nth].
        unfold next_w. rewrite !P by lia. rewrite !app_nth1 by lia.
        subst x. rewrite !rev_nth by lia. reflexivity.
      * apply Rr. lia.
Qed.

Lemma block_words_len blk : length blk = 64%nat -> length (block_words 4 blk) = 16%nat.
Proof. intros Hb. unfold block_words. rewrite map_length. apply (chunks_length_mult 4 16); [lia|exact Hb]. Qed.

Lemma sha1_schedule_ext blk : sha1_schedule blk = sched_ext 64 (block_words 4 blk).
Proof. unfold sha1_schedule, sched_ext. reflexivity. Qed.

Lemma ws_facts blk : length blk = 64%nat ->
  length (sha1_schedule blk) = 80%nat /\
  (forall t, (t < 16)%nat -> nth t (sha1_schedule blk) 0 = nth t (block_words 4 blk) 0) /\
  (forall t, (16 <= t < 80)%nat -> nth t (sha1_schedule blk) 0 = next_w (sha1_schedule blk) t).
Proof.
  intros Hb. rewrite sha1_schedule_ext. pose proof (block_words_len blk Hb) as Hl.
  generalize dependent (block_words 4 blk). intros bw Hl.
  generalize (sched_ext_spec 64 bw). generalize (sched_ext 64 bw). intros ws Hs.
  rewrite Hl in Hs. destruct Hs as (L & P & Rr); [apply Nat.le_refl|].
  split; [exact L|]. split; [exact P|]. exact Rr.
Qed.

(* ---------- array update ---------- *)
Lemma upd_cons a l i v : upd (a :: l) (S i) v = a :: upd l i v.
Proof. reflexivity. Qed.
Lemma nth_upd l : forall i j v d, (i < length l)%nat -> nth j (upd l i v) d = if Nat.eqb i j then v else nth j l d.
Proof.
  induction l as [|a l IH]; intros i j v d Hi; [cbn [length] in Hi; lia|].
  destruct i as [|i].
  - destruct j; reflexivity.
  - rewrite upd_cons. destruct j as [|j]; [reflexivity|]. cbn [nth Nat.eqb]. apply IH. cbn [length] in Hi. lia.
Qed.
Lemma nth_upd_eq l i v d : (i < length l)%nat -> nth i (upd l i v) d = v.
Proof. intros Hi. rewrite nth_upd by exact Hi. now rewrite Nat.eqb_refl. Qed.
Lemma nth_upd_neq l i j v d : (i < length l)%nat -> i <> j -> nth j (upd l i v) d = nth j l d.
Proof. intros Hi Hne. rewrite nth_upd by exact Hi. destruct (Nat.eqb_spec i j); [contradiction|reflexivity]. Qed.
Lemma length_upd l i v : (i < length l)%nat -> length (upd l i v) = length l.
Proof.
  intros Hi. unfold upd. rewrite app_length, firstn_length. cbn [length]. rewrite skipn_length. lia.
Qed.

(* ---------- rotating roles ---------- *)
Definition view (n : nat) (r : list N) : list N :=
  let '(pv, pw, px, py, pz) := roles n in [nth pv r 0; nth pw r 0; nth px r 0; nth py r 0; nth pz r 0].

Lemma roles_cases n :
  (roles n = (0, 1, 2, 3, 4) /\ roles (S n) = (4, 0, 1, 2, 3))%nat \/
  (roles n = (4, 0, 1, 2, 3) /\ roles (S n) = (3, 4, 0, 1, 2))%nat \/
  (roles n = (3, 4, 0, 1, 2) /\ roles (S n) = (2, 3, 4, 0, 1))%nat \/
  (roles n = (2, 3, 4, 0, 1) /\ roles (S n) = (1, 2, 3, 4, 0))%nat \/
  (roles n = (1, 2, 3, 4, 0) /\ roles (S n) = (0, 1, 2, 3, 4))%nat.
Proof.
  unfold roles.
  assert (Hc : (n mod 5 = 0 \/ n mod 5 = 1 \/ n mod 5 = 2 \/ n mod 5 = 3 \/ n mod 5 = 4)%nat) by lia.
  destruct Hc as [Hc|[Hc|[Hc|[Hc|Hc]]]].
  - assert (Hs : (S n mod 5 = 1)%nat) by lia. rewrite Hc, Hs. tauto.
  - assert (Hs : (S n mod 5 = 2)%nat) by lia. rewrite Hc, Hs. tauto.
  - assert (Hs : (S n mod 5 = 3)%nat) by lia. rewrite Hc, Hs. tauto.
  - assert (Hs : (S n mod 5 = 4)%nat) by lia. rewrite Hc, Hs. tauto.
  - assert (Hs : (S n mod 5 = 0)%nat) by lia. rewrite Hc, Hs. tauto.
Qed.

(* ---------- simulation: i macro calls of the code against i rounds of the spec ---------- *)
Section Sim.
  Variables (ws bw : list N).
  Hypothesis Hbw_len : length bw = 16%nat.
  Hypothesis Hlow : forall t, (t < 16)%nat -> nth t ws 0 = nth t bw 0.
  Hypothesis Hrec : forall t, (16 <= t < 80)%nat -> nth t ws 0 = next_w ws t.

  (* the 16-word circular buffer holds the last 16 schedule words (the first 16 while i <= 16) *)
  Definition blk_inv (n : nat) (block : list N) : Prop :=
    length block = 16%nat /\
    forall k, (k < Nat.max n 16)%nat -> (n <= k + 16)%nat -> nth (k mod 16) block 0 = nth k ws 0.
  (* the registers, read through the roles of call n, are the spec's working variables; all are 32-bit *)
  Definition regs_inv (n : nat) (r v : list N) : Prop :=
    exists a b c d e, r = [a; b; c; d; e] /\ word_ok a /\ word_ok b /\ word_ok c /\ word_ok d /\ word_ok e /\
                      v = view n r.

  Lemma sched_step n block : (n < 80)%nat -> blk_inv n block ->
    let p := if (n <? 16)%nat then (nth n block 0, block)
             else (sha1_blk block n, upd block (n mod 16) (sha1_blk block n)) in
    fst p = nth n ws 0 /\ blk_inv (S n) (snd p).
  Proof.
    intros Hn (Hl & Hw). cbv zeta. destruct (Nat.ltb_spec n 16) as [H16|H16]; cbn [fst snd].
    - split.
      + rewrite <- (Hw n) by lia. rewrite Nat.mod_small by exact H16. reflexivity.
      + split; [exact Hl|]. intros k Hk1 Hk2. apply Hw; lia.
    - assert (Hb : sha1_blk block n = nth n ws 0).
      { rewrite Hrec by lia. unfold sha1_blk, next_w, rol32.
        rewrite <- (Hw (n - 3)%nat), <- (Hw (n - 8)%nat), <- (Hw (n - 14)%nat), <- (Hw (n - 16)%nat) by lia.
        replace ((n + 13) mod 16)%nat with ((n - 3) mod 16)%nat by lia.
        replace ((n + 8) mod 16)%nat with ((n - 8) mod 16)%nat by lia.
        replace ((n + 2) mod 16)%nat with ((n - 14) mod 16)%nat by lia.
        replace (n mod 16)%nat with ((n - 16) mod 16)%nat by lia.
        reflexivity. }
      rewrite Hb. split; [reflexivity|]. split; [rewrite length_upd; lia|].
      intros k Hk1 Hk2. destruct (Nat.eq_dec k n) as [Ek|Hne].
      + subst k. apply nth_upd_eq. lia.
      + rewrite nth_upd_neq by lia. apply Hw; lia.
  Qed.

  Lemma round_step n r block v : (n < 80)%nat -> regs_inv n r v -> blk_inv n block ->
    regs_inv (S n) (fst (sha1_code_round (r, block) n)) (sha1_round v (n, nth n ws 0)) /\
    blk_inv (S n) (snd (sha1_code_round (r, block) n)).
  Proof.
    intros Hn (a & b & c & d & e & Er & Ha & Hb & Hc & Hd & He & Ev) Hblk. subst r v.
    pose proof (sched_step n block Hn Hblk) as Hs. cbv zeta in Hs.
    unfold sha1_code_round, regs_inv, view. cbv beta iota zeta.
    set (p := if (n <? 16)%nat then _ else _) in *. clearbody p. destruct p as [wi block']. cbn [fst snd] in Hs.
    destruct Hs as (Hwi & Hblk'). subst wi.
    fold (sha1_K n).
    destruct (roles_cases n) as [(E1 & E2)|[(E1 & E2)|[(E1 & E2)|[(E1 & E2)|(E1 & E2)]]]];
      rewrite E1, E2; cbv beta iota; cbn [nth upd firstn skipn app fst snd];
      rewrite code_f_eq by assumption; (split; [|exact Hblk']);
      eexists _, _, _, _, _; (split; [reflexivity|]);
      (repeat split; try assumption; try apply wadd_ok; try (apply rotl_ok; [lia|assumption]));
      unfold sha1_round; cbn [fst snd]; rewrite sum_order; reflexivity.
  Qed.

  Lemma code_fold H n : H_ok H -> (n <= 80)%nat ->
    regs_inv n (fst (fold_left sha1_code_round (seq 0 n) (H, bw)))
               (fold_left (fun v t => sha1_round v (t, nth t ws 0)) (seq 0 n) H) /\
    blk_inv n (snd (fold_left sha1_code_round (seq 0 n) (H, bw))).
  Proof.
    intros (Hl & Hf) Hn. induction n as [|n IH].
    - cbn [seq fold_left fst snd]. split.
      + destruct H as [|a [|b [|c [|d [|e [|x H']]]]]]; try discriminate Hl.
        rewrite Forall_forall in Hf.
        exists a, b, c, d, e. split; [reflexivity|].
        repeat split; try (apply Hf; cbn [In]; tauto).
      + split; [exact Hbw_len|]. intros k Hk _. rewrite Nat.mod_small by lia. symmetry. apply Hlow. lia.
    - rewrite seq_S, !fold_left_app. cbn [fold_left Nat.add].
      destruct IH as (IHr & IHb); [lia|].
      destruct (fold_left sha1_code_round (seq 0 n) (H, bw)) as [r block]. cbn [fst snd] in IHr, IHb.
      apply round_step; [lia|exact IHr|exact IHb].
  Qed.
End Sim.

(* ---------- the spec's fold over (t, W_t) pairs as a fold over t ---------- *)
Lemma fold_left_ext_in {A B} (f g : A -> B -> A) l : (forall x, In x l -> forall a, f a x = g a x) ->
  forall a, fold_left f l a = fold_left g l a.
Proof.
  induction l as [|x l IH]; intros Hfg a; [reflexivity|]. cbn [fold_left].
  rewrite Hfg by (left; reflexivity). apply IH. intros y Hy. apply Hfg. right. exact Hy.
Qed.

Lemma fold_combine_seq l : forall s H,
  fold_left sha1_round (combine (seq s (length l)) l) H =
  fold_left (fun v t => sha1_round v (t, nth (t - s) l 0)) (seq s (length l)) H.
Proof.
  induction l as [|x l IH]; intros s H; [reflexivity|].
  cbn [length seq combine fold_left]. rewrite Nat.sub_diag. cbn [nth]. rewrite IH.
  apply fold_left_ext_in. intros t Ht v. apply in_seq in Ht.
  replace (t - s)%nat with (S (t - S s)) by lia. reflexivity.
Qed.

Lemma fold_combine_seq0 ws n H : length ws = n ->
  fold_left sha1_round (combine (seq 0 n) ws) H = fold_left (fun v t => sha1_round v (t, nth t ws 0)) (seq 0 n) H.
Proof.
  intros Hl. subst n. rewrite fold_combine_seq. apply fold_left_ext_in. intros t _ v. now rewrite Nat.sub_0_r.
Qed.

(* ---------- the theorem ---------- *)
Theorem sha1_compress_code_correct : forall H blk, H_ok H -> length blk = 64%nat ->
  sha1_compress_code H blk = sha1_compress H blk.
Proof.
  intros H blk HH Hb. destruct (ws_facts blk Hb) as (Hlen & Hlow & Hrec).
  pose proof (block_words_len blk Hb) as Hbl.
  unfold sha1_compress_code, sha1_transform_code, sha1_compress.
  generalize dependent (sha1_schedule blk). generalize dependent (block_words 4 blk).
  intros bw Hbl ws Hlen Hlow Hrec.
  destruct (code_fold ws bw Hbl Hlow Hrec H 80 HH (Nat.le_refl _)) as ((a & b & c & d & e & Er & _ & _ & _ & _ & _ & Ev) & _).
  rewrite (fold_combine_seq0 ws 80 H Hlen). rewrite Ev, Er.
  change (view 80 [a; b; c; d; e]) with [a; b; c; d; e]. reflexivity.
Qed.

(* ---------- the chaining value stays 32-bit ---------- *)
Lemma sha1_round_len5 v tw : length v = 5%nat -> length (sha1_round v tw) = 5%nat.
Proof. intros H. do 6 (destruct v as [|? v]; try discriminate). reflexivity. Qed.
Lemma fold_sha1_round_len5 l v : length v = 5%nat -> length (fold_left sha1_round l v) = 5%nat.
Proof. revert v; induction l as [|x l IH]; intros v H; cbn [fold_left]; [exact H|]. apply IH. now apply sha1_round_len5. Qed.

Lemma sha1_compress_H_ok : forall H blk, length H = 5%nat -> H_ok (sha1_compress H blk).
Proof.
  intros H blk Hl. unfold sha1_compress, H_ok. split.
  - rewrite map_length, combine_length, fold_sha1_round_len5, Hl by exact Hl. reflexivity.
  - apply Forall_forall. intros x Hx. apply in_map_iff in Hx. destruct Hx as (p & Ep & _). subst x. apply wadd_ok.
Qed.

Lemma IV1_ok : H_ok IV1.
Proof.
  split; [reflexivity|]. unfold IV1, word_ok. change (2 ^ 32) with 4294967296.
  repeat constructor.
Qed.

