(* C03 - incremental hashing / streaming HMAC equal one-shot under any chunking and any reuse. *)
From HV Require Import Base_Bytes Spec_SHA Spec_HMAC Model_Sha2Ctx Model_Sha1Ctx Model_Hash Model_Hmac
  Proofs_Hash Proofs_Hmac.
Local Open Scope N_scope.

(* For EVERY context object c (any field values: the state after any earlier history, finished or not,
   any stale bytes), once initialised, feeding ANY list of chunks (empty chunks, chunks straddling blocks)
   and finishing gives the one-shot digest of the concatenation. *)
Theorem C03_hash : forall (c : hctx) (cs : list (list N)),
  hshape c -> N.of_nat (length (concat cs)) < 2 ^ 61 ->
  snd (hfinish (fold_left hupdate cs (hinit c))) = hash_oneshot (htype c) (concat cs).
Proof.
  intros c cs Hs Hb. rewrite hash_chunked by assumption. symmetry. now apply hash_oneshot_correct.
Qed.
Print Assumptions C03_hash.

(* a finished context keeps its shape, so the statement above applies again to it: reuse cycles *)
Theorem C03_reuse : forall (c : hctx) (cs cs' : list (list N)),
  hshape c -> N.of_nat (length (concat cs')) < 2 ^ 61 ->
  let c' := fst (hfinish (fold_left hupdate cs (hinit c))) in
  snd (hfinish (fold_left hupdate cs' (hinit c'))) = hash_oneshot (htype c) (concat cs').
Proof.
  intros c cs cs' Hs Hb c'.
  assert (Hs' : hshape c') by (apply hshape_cycle; exact Hs).
  assert (Ht : htype c' = htype c) by (unfold c'; now rewrite htype_hfinish, htype_updates, htype_hinit).
  rewrite hash_chunked by assumption. rewrite Ht. symmetry. now apply hash_oneshot_correct.
Qed.
Print Assumptions C03_reuse.

(* an abandoned cycle (init, updates, no finish) followed by init: also a fresh start *)
Theorem C03_abandon : forall (c : hctx) (cs cs' : list (list N)),
  hshape c -> N.of_nat (length (concat cs')) < 2 ^ 61 ->
  snd (hfinish (fold_left hupdate cs' (hinit (fold_left hupdate cs (hinit c))))) = hash_oneshot (htype c) (concat cs').
Proof.
  intros c cs cs' Hs Hb'. rewrite hash_chunked by (auto using hshape_updates).
  rewrite htype_updates, htype_hinit. symmetry. now apply hash_oneshot_correct.
Qed.
Print Assumptions C03_abandon.

(* streaming HMAC: any context object h (any earlier use), init with K, any chunks, final = one-shot HMAC *)
Theorem C03_hmac : forall (h : hmac_ctx) (K : list N) (cs : list (list N)),
  hmac_shape h -> N.of_nat (length K) < 2 ^ 61 -> N.of_nat (length (concat cs)) < 2 ^ 61 - 128 ->
  snd (hmac_final (fold_left hmac_update cs (hmac_init h K))) = get_hmac_raw (hc_type h) K (concat cs).
Proof.
  intros h K cs Hs HK Hm. rewrite hmac_stream_spec by assumption. symmetry. now apply get_hmac_raw_spec.
Qed.
Print Assumptions C03_hmac.

Example C03_nonvacuous :
  snd (hfinish (fold_left hupdate [[1;2;3]; []; repeat 7 70] (hinit (hfresh SHA256)))) = hash_oneshot SHA256 ([1;2;3] ++ repeat 7 70)
  /\ hmac_shape (hc_new SHA512).
Proof. split; [vm_compute; reflexivity|split; reflexivity]. Qed.
