(* Extraction of the executable models and specs to OCaml. ExtrOcamlBasic only: bool, option, unit,
   list, prod, sumbool, sumor mapped to OCaml's; N, Z, positive, nat stay Coq datatypes. *)
From HV Require Import Base_Bytes Spec_SHA Spec_HMAC Model_BlockHash Model_Sha2Ctx Model_Sha1Ctx Model_Hash Model_Hmac Base_Result Spec_OTP Model_Otp Spec_KDF Model_Kdf Model_CtEq Model_Token Proofs_Token Model_Args Spec_Base36 Model_Base36 Model_SecureBuffer Spec_Base32 Model_Base32 Spec_Base64 Model_Base64 Model_SecretString Model_Release.
Require Import ExtrOcamlBasic.
Extraction Language OCaml.
Extraction "model.ml"
  N.add N.sub N.mul N.div N.modulo N.pow N.of_nat N.to_nat Z.add Z.mul Z.opp Z.of_N Z.to_N
  bytes_okb be_bytes hex_of_bytes
  SHA_spec
  sha256_init sha256_update sha256_finish sha512_init sha512_update sha512_finish sha512_finish_pinned fresh2
  sha1_init sha1_update sha1_finish fresh1
  hfresh hinit hupdate hfinish hash_oneshot hash_hexstr sha512_oneshot_pinned
  HMAC_spec get_hmac_raw get_hmac_str to_hex hc_new hmac_init hmac_update hmac_final
  HOTP_spec TOTP_spec DT hotp_from_digest get_hotp_code get_totp_code_at get_totp_code
  is_totp_token_valid_at is_totp_token_valid_now
  PBKDF2_spec pbkdf2_F HKDF_extract_spec HKDF_expand_spec pbkdf2_vec pbkdf2_buf pbkdf2_with_pepper hkdf_extract hkdf_expand hkdf_key_iv
  generate_time_token is_token_valid candidates to_string rounded
  v_get_hash v_get_hmac v_hmac_init v_hmac_update v_hmac_final v_pbkdf2_vec v_pbkdf2_buf v_pepper v_hkdf_extract v_hkdf_expand
  v_hotp v_totp_at v_totp_now v_hotp_from_digest v_token v_secret_set
  base36_encode base36_decode b36_spec_encode b36_spec_decode is_alnum
  step destroy init_state contents block_clean spec_step
  base32_encode base32_decode b32_spec_encode b32_spec_value b32_filter b32_langb
  base64_encode base64_decode b64_spec_encode b64_filter b64_langb b64_spec_value
  ss_empty ss_step ss_reveal ss_last
  rel_get_hmac rel_hmac_ctx rel_get_hmac_securekey rel_token_securekey rel_pbkdf2 rel_pepper rel_hkdf_extract rel_decode_secure rel_secret_reveal all_released_zero
  ct_equals.
