(* Extraction of the executable models and specs to OCaml. ExtrOcamlBasic only: bool, option, unit,
   list, prod, sumbool, sumor mapped to OCaml's; N, Z, positive, nat stay Coq datatypes. *)
From HV Require Import Base_Bytes Spec_SHA Model_BlockHash Model_Sha2Ctx Model_Sha1Ctx Model_CtEq.
Require Import ExtrOcamlBasic.
Extraction Language OCaml.
Extraction "model.ml"
  N.add N.mul N.div N.modulo N.of_nat N.to_nat Z.add Z.mul Z.opp Z.of_N Z.to_N
  bytes_okb be_bytes hex_of_bytes
  SHA_spec
  sha256_init sha256_update sha256_finish sha512_init sha512_update sha512_finish sha512_finish_pinned fresh2
  sha1_init sha1_update sha1_finish fresh1
  ct_equals.
