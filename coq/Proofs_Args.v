From HV Require Import Base_Bytes Base_Result Model_Otp Model_Args.
Local Open Scope Z_scope.

(* ---------- the documented domains, rule by rule ---------- *)
Definition ok_buf (b : buf) : Prop := b_null b = true -> b_len b <= 0.       (* no null pointer with non-zero length *)
Definition ok_sel (s : Z) : Prop := s = 0 \/ s = 1 \/ s = 2.                (* a known hash selector *)
Definition dom_get_hmac key msg sel := ok_buf key /\ ok_buf msg /\ ok_sel sel /\ b_len msg <= SIZE_MAX - sel_block sel.
Definition dom_pbkdf2_vec pw salt it dk sel :=
  ok_buf pw /\ ok_buf salt /\ 1 <= it <= MAX_ITER /\ dk <> 0 /\ b_len salt <> 0 /\ ok_sel sel /\
  dk <= (2 ^ 32 - 1) * sel_digest sel /\ b_len salt + 4 <= SIZE_MAX - sel_block sel.
Definition dom_pbkdf2_buf pw salt out_null it dk sel :=
  ok_buf pw /\ ok_buf salt /\ out_null = false /\ 1 <= it <= MAX_ITER /\ dk <> 0 /\ 16 <= b_len salt /\ ok_sel sel /\
  dk <= (2 ^ 32 - 1) * sel_digest sel.
Definition dom_hkdf_extract ikm salt := ok_buf ikm /\ ok_buf salt /\ b_len ikm <= SIZE_MAX - 64.
Definition dom_hkdf_expand prk (info : buf) L := b_null prk = false /\ b_len prk = 32 /\ L <= 8160.
Definition dom_hotp key digits sel := 1 <= digits <= 9 /\ ok_buf key /\ ok_sel sel.
Definition dom_clock_totp (c : clock) := ~ (fst c = -1 /\ snd c = true) /\ 0 <= fst c.
Definition dom_token interval sel (c : clock) := 1 <= interval /\ ~ (fst c = -1 /\ snd c = true) /\ ok_sel sel.

Lemma bad_null_spec b : 0 <= b_len b -> (bad_null b = false <-> ok_buf b).
Proof.
  intros H. unfold bad_null, ok_buf. destruct (b_null b); cbn [andb].
  - rewrite Z.ltb_ge. split; [intros; lia|intros H1; specialize (H1 eq_refl); lia].
  - split; [intros _ E; discriminate|reflexivity].
Qed.
Lemma sel_ok_spec s : sel_ok s = true <-> ok_sel s.
Proof. unfold sel_ok, ok_sel. rewrite andb_true_iff, !Z.leb_le. lia. Qed.

Ltac crush1 :=
  repeat (match goal with
  | |- context [Z.eqb ?a ?b] => destruct (Z.eqb_spec a b)
  | |- context [Z.ltb ?a ?b] => destruct (Z.ltb_spec a b)
  | |- context [Z.leb ?a ?b] => destruct (Z.leb_spec a b)
  end; cbn [andb orb negb b_null b_len fst snd]).
Ltac fin := split; intros; try discriminate; try (intuition (try discriminate; try congruence; try lia)).
Ltac unf := unfold ok_buf, ok_sel, bad_null, sel_ok, digits_ok, sel_block, sel_digest, SIZE_MAX, MAX_ITER in *; cbn [b_null b_len fst snd] in *.

Theorem get_hmac_exact key msg sel : 0 <= b_len key -> 0 <= b_len msg ->
  (v_get_hmac key msg sel = Accept <-> dom_get_hmac key msg sel).
Proof.
  intros Hk Hm. unfold v_get_hmac, dom_get_hmac. destruct key as [kn kl], msg as [mn ml]. unf.
  destruct kn, mn; cbn [andb orb negb]; crush1; fin.
Qed.

Theorem get_hmac_signal key msg sel e : v_get_hmac key msg sel = Sig e ->
  (e = InvalidArgument /\ (bad_null key = true \/ bad_null msg = true \/ sel_ok sel = false)) \/
  (e = OverflowError /\ SIZE_MAX - sel_block sel < b_len msg).
Proof.
  unfold v_get_hmac. destruct (bad_null key) eqn:A, (bad_null msg) eqn:B, (sel_ok sel) eqn:C; cbn [orb negb];
    try (intros H; injection H as <-; left; auto 6).
  destruct (Z.ltb_spec (SIZE_MAX - sel_block sel) (b_len msg)); [|discriminate].
  intros H'; injection H' as <-. right. auto.
Qed.

Theorem pbkdf2_vec_exact pw salt it dk sel : 0 <= b_len pw -> 0 <= b_len salt -> 0 <= dk ->
  (v_pbkdf2_vec pw salt it dk sel = Accept <-> dom_pbkdf2_vec pw salt it dk sel).
Proof.
  intros Hp Hs Hdk. unfold v_pbkdf2_vec, dom_pbkdf2_vec. destruct pw as [pn pl], salt as [sn sl]. unf.
  destruct pn, sn; cbn [andb orb negb]; crush1; fin.
Qed.

Theorem pbkdf2_buf_exact pw salt out_null it dk sel : 0 <= b_len pw -> 0 <= b_len salt -> 0 <= dk ->
  (v_pbkdf2_buf pw salt out_null it dk sel = Accept <-> dom_pbkdf2_buf pw salt out_null it dk sel).
Proof.
  intros Hp Hs Hdk. unfold v_pbkdf2_buf, dom_pbkdf2_buf. destruct pw as [pn pl], salt as [sn sl]. unf.
  destruct pn, sn, out_null; cbn [andb orb negb]; crush1; fin.
Qed.

(* the non-throwing API never throws or terminates: every verdict is Accept or RetFalse *)
Theorem pbkdf2_buf_nothrow pw salt out_null it dk sel :
  v_pbkdf2_buf pw salt out_null it dk sel = Accept \/ v_pbkdf2_buf pw salt out_null it dk sel = RetFalse.
Proof.
  unfold v_pbkdf2_buf.
  destruct (bad_null pw || bad_null salt || out_null); auto.
  destruct ((it <? 1) || (dk =? 0) || (b_len salt <? 16) || (MAX_ITER <? it)); auto.
  destruct (negb (sel_ok sel)); auto. destruct ((2 ^ 32 - 1) * sel_digest sel <? dk); auto.
Qed.
(* finding F2, machine-checked: the pinned version terminates the process for an out-of-range selector *)
Theorem pbkdf2_buf_pinned_refuted : exists pw salt o it dk sel, v_pbkdf2_buf_pinned pw salt o it dk sel = Terminate.
Proof. exists {| b_null := false; b_len := 3 |}, {| b_null := false; b_len := 16 |}, false, 1, 20, 7. reflexivity. Qed.

Theorem hkdf_extract_exact ikm salt : 0 <= b_len ikm -> 0 <= b_len salt ->
  (v_hkdf_extract ikm salt = Accept <-> dom_hkdf_extract ikm salt).
Proof.
  intros Hi Hs. unfold v_hkdf_extract, dom_hkdf_extract, v_get_hmac. destruct ikm as [inn il], salt as [sn sl]. unf.
  destruct inn, sn; cbn [andb orb negb b_null b_len]; crush1; fin.
Qed.

Theorem hkdf_expand_exact prk info L : v_hkdf_expand prk info L = Accept <-> dom_hkdf_expand prk info L.
Proof.
  unfold v_hkdf_expand, dom_hkdf_expand. destruct prk as [pn pl]. unf. destruct pn; cbn [andb orb negb]; crush1; fin.
Qed.

Theorem hotp_exact key digits sel : 0 <= b_len key -> (v_hotp key digits sel = Accept <-> dom_hotp key digits sel).
Proof.
  intros Hk. unfold v_hotp, dom_hotp, v_get_hmac. destruct key as [kn kl]. unf.
  destruct kn; cbn [andb orb negb b_null b_len]; crush1; fin.
Qed.

Theorem totp_now_exact key period digits sel c : 0 <= b_len key ->
  (v_totp_now key period digits sel c = Accept <-> 1 <= period /\ dom_clock_totp c /\ dom_hotp key digits sel).
Proof.
  intros Hk. destruct c as [now err]. unfold v_totp_now, v_clock_totp, v_hotp, dom_hotp, dom_clock_totp, v_get_hmac.
  destruct key as [kn kl]. unf. destruct kn, err; cbn [andb orb negb b_null b_len]; crush1; fin.
Qed.

Theorem token_exact interval sel c : v_token interval sel c = Accept <-> dom_token interval sel c.
Proof.
  destruct c as [now err]. unfold v_token, dom_token. unf. destruct err; cbn [andb orb negb]; crush1; fin.
Qed.

(* every signal is one of the documented ones for a rule the arguments actually violate *)
Theorem pbkdf2_vec_signal pw salt it dk sel e : v_pbkdf2_vec pw salt it dk sel = Sig e ->
  (e = InvalidArgument /\ (bad_null pw = true \/ bad_null salt = true \/ it < 1 \/ MAX_ITER < it \/ dk = 0 \/ b_len salt = 0 \/
                           sel_ok sel = false \/ (2 ^ 32 - 1) * sel_digest sel < dk)) \/
  (e = OverflowError /\ SIZE_MAX - sel_block sel < b_len salt + 4).
Proof.
  unfold v_pbkdf2_vec.
  destruct (bad_null pw) eqn:A; [intros H; injection H as <-; left; auto|].
  destruct (bad_null salt) eqn:B; cbn [orb]; [intros H; injection H as <-; left; auto|].
  destruct (Z.ltb_spec it 1); [intros H'; injection H' as <-; left; auto 6|].
  destruct (Z.ltb_spec MAX_ITER it); [intros H'; injection H' as <-; left; auto 7|].
  destruct (Z.eqb_spec dk 0); [intros H'; injection H' as <-; left; auto 8|].
  destruct (Z.eqb_spec (b_len salt) 0); [intros H'; injection H' as <-; left; auto 9|].
  destruct (sel_ok sel) eqn:C; cbn [negb]; [|intros H'; injection H' as <-; left; auto 10].
  destruct (Z.ltb_spec ((2 ^ 32 - 1) * sel_digest sel) dk); [intros H'; injection H' as <-; left; split; auto 12|].
  destruct (Z.ltb_spec (SIZE_MAX - sel_block sel) (b_len salt + 4)); [intros H'; injection H' as <-; right; auto|discriminate].
Qed.

(* no API model ever yields Terminate, and the only RetFalse producer is the non-throwing PBKDF2 *)
Theorem never_terminate :
  (forall k m s, v_get_hmac k m s <> Terminate) /\ (forall p s i d x, v_pbkdf2_vec p s i d x <> Terminate) /\
  (forall p s o i d x, v_pbkdf2_buf p s o i d x <> Terminate) /\ (forall a b, v_hkdf_extract a b <> Terminate) /\
  (forall a b c, v_hkdf_expand a b c <> Terminate) /\ (forall k d s, v_hotp k d s <> Terminate) /\ (forall i s c, v_token i s c <> Terminate).
Proof.
  repeat split; intros; intro E.
  - unfold v_get_hmac in E. repeat (match type of E with context [if ?b then _ else _] => destruct b end); discriminate.
  - unfold v_pbkdf2_vec in E. repeat (match type of E with context [if ?b then _ else _] => destruct b end); discriminate.
  - destruct (pbkdf2_buf_nothrow p s o i d x) as [H|H]; congruence.
  - unfold v_hkdf_extract, v_get_hmac in E. repeat (match type of E with context [if ?b then _ else _] => destruct b end); discriminate.
  - unfold v_hkdf_expand in E. repeat (match type of E with context [if ?b then _ else _] => destruct b end); discriminate.
  - unfold v_hotp, v_get_hmac in E. repeat (match type of E with context [if ?b then _ else _] => destruct b end); discriminate.
  - unfold v_token in E. destruct c. repeat (match type of E with context [if ?b then _ else _] => destruct b end); discriminate.
Qed.
