(* Proofs_SecretInterrupted: the stored representation of a secret_string whose rotate_nonce() was interrupted
   (std::bad_alloc inside the re-encryption loop) after j 32-byte blocks (Model_Oom.ss_rotate_partial).
   Every stored byte is plaintext XOR a keystream byte: the new keystream on the blocks already done, the old one on the rest. *)
From HV Require Import Base_Bytes Base_BytesLemmas Base_Result Spec_SHA Spec_HMAC Model_SecretString Proofs_SecretString Model_Oom.
Local Open Scope N_scope.

(* xor_bytes commutes with taking / dropping a prefix *)
Lemma firstn_xor_bytes m : forall a b, firstn m (xor_bytes a b) = xor_bytes (firstn m a) (firstn m b).
Proof.
  induction m as [|m IH]; intros a b; [reflexivity|].
  destruct a as [|x a]; [reflexivity|]. destruct b as [|y b]; [cbn [firstn xor_bytes]; reflexivity|].
  cbn [firstn xor_bytes]. now rewrite IH.
Qed.
Lemma firstn_xor_bytes_l m : forall a b, firstn m (xor_bytes a b) = xor_bytes (firstn m a) b.
Proof.
  induction m as [|m IH]; intros a b; [reflexivity|].
  destruct a as [|x a]; [reflexivity|]. destruct b as [|y b]; [cbn [firstn xor_bytes]; reflexivity|].
  cbn [firstn xor_bytes]. now rewrite IH.
Qed.
Lemma skipn_xor_bytes m : forall a b, skipn m (xor_bytes a b) = xor_bytes (skipn m a) (skipn m b).
Proof.
  induction m as [|m IH]; intros a b; [reflexivity|].
  destruct a as [|x a]; [reflexivity|]. destruct b as [|y b]; [cbn [skipn xor_bytes]; now rewrite xor_bytes_nil_r|].
  cbn [skipn xor_bytes]. apply IH.
Qed.

(* the rotation loop with more fuel than bytes (the interrupted loop runs on a prefix with the fuel of the whole ciphertext) *)
Lemma rotate_loop_spec_fuel fuel oldk newk n1 n2 ct k :
  length oldk = 32%nat -> length newk = 32%nat -> length n1 = 12%nat -> length n2 = 12%nat ->
  (length ct <= fuel)%nat -> (length ct <= 32 * k)%nat ->
  rotate_loop fuel oldk newk n1 n2 0 ct =
  xor_bytes ct (xor_bytes (stream (KB oldk n1) 0 k) (stream (KB newk n2) 0 k)).
Proof.
  intros Ho Hnw H1 H2 Hf Hk. rewrite rotate_is_gen.
  change 0 with (0 mod 2 ^ 32) at 1.
  rewrite <- stream_xor by (intros c; now rewrite !KB_len).
  apply (gen_loop_spec (fun c => xor_bytes (KB oldk n1 c) (KB newk n2 c))); auto.
  - intros c. rewrite xor_bytes_len, !KB_len. reflexivity.
  - intros c. now rewrite !ks_block_spec.
Qed.

Section WithKey.
  Variable pk : list N.
  Hypothesis Hpk : pk_ok pk.

  (* the re-encrypted prefix: (p xor KS1) xor (KS1 xor KS2) = p xor KS2 on the first m bytes *)
  Lemma rotate_prefix n1 n2 p m : length n1 = 12%nat -> length n2 = 12%nat -> (m <= length p)%nat ->
    rotate_loop (length (xor_keystream_copy pk n1 p)) (hmac1 pk n1) (hmac1 pk n2) n1 n2 0
                (firstn m (xor_keystream_copy pk n1 p))
    = xor_bytes (firstn m p) (firstn m (KS pk n2 (length p))).
  Proof.
    intros H1 H2 Hm.
    rewrite (hmac1_pk pk Hpk n1 H1), (hmac1_pk pk Hpk n2 H2).
    rewrite (rotate_loop_spec_fuel _ _ _ n1 n2 _ (nblk (length p))); try assumption; try apply hmac256_len.
    2:{ rewrite firstn_length. lia. }
    2:{ rewrite firstn_length, (copy_length pk Hpk) by exact H1. pose proof (nblk_covers (length p)). lia. }
    rewrite <- firstn_xor_bytes_l.
    rewrite (copy_stream pk Hpk n1 p H1).
    change (stream (KB (HMAC_spec SHA256 pk n1) n1) 0 (nblk (length p))) with (ST pk n1 (length p)).
    change (stream (KB (HMAC_spec SHA256 pk n2) n2) 0 (nblk (length p))) with (ST pk n2 (length p)).
    rewrite xor_bytes_rekey by (rewrite ST_length; apply nblk_covers).
    rewrite xor_KS. apply firstn_xor_bytes.
  Qed.

  Lemma interrupted_ct n1 n2 p j : length n1 = 12%nat -> length n2 = 12%nat -> (j * 32 <= length p)%nat ->
    ss_ct (ss_rotate_partial pk n2 j (ss_set pk n1 p)) =
    xor_bytes p (firstn (j * 32) (KS pk n2 (length p)) ++ skipn (j * 32) (KS pk n1 (length p))).
  Proof.
    intros H1 H2 Hj. unfold ss_rotate_partial. cbn [ss_ct]. rewrite ss_set_nonce, ss_set_ct.
    rewrite rotate_prefix by assumption.
    rewrite (xor_keystream_copy_spec pk Hpk n1 p H1), skipn_xor_bytes.
    symmetry.
    transitivity (xor_bytes (firstn (j * 32) p ++ skipn (j * 32) p)
                    (firstn (j * 32) (KS pk n2 (length p)) ++ skipn (j * 32) (KS pk n1 (length p))));
      [now rewrite firstn_skipn|].
    apply xor_bytes_app2.
    rewrite !firstn_length, KS_length. reflexivity.
  Qed.
End WithKey.

Theorem at_rest_interrupted : forall pk n1 n2 p j, pk_ok pk -> length n1 = 12%nat -> length n2 = 12%nat -> plain_okb p = true ->
  (j * 32 <= length p)%nat ->
  let s := ss_rotate_partial pk n2 j (ss_set pk n1 p) in
  ss_ct s = xor_bytes p (firstn (j * 32) (KS pk n2 (length p)) ++ skipn (j * 32) (KS pk n1 (length p))) /\
  ss_nonce s = n1 /\ ss_tag s = ss_tag (ss_set pk n1 p) /\ length (ss_ct s) = length p.
Proof.
  intros pk n1 n2 p j Hpk H1 H2 _ Hj s.
  assert (E : ss_ct s = xor_bytes p (firstn (j * 32) (KS pk n2 (length p)) ++ skipn (j * 32) (KS pk n1 (length p))))
    by (unfold s; now apply interrupted_ct).
  split; [exact E|]. split; [reflexivity|]. split; [reflexivity|].
  rewrite E, xor_bytes_len, app_length, firstn_length, skipn_length, !KS_length. lia.
Qed.
