(* Model_Hash: the three context classes behind one sum type, and the one-shot entry points
   (sha1/sha256/sha512 raw-buffer, vector, template-vector and string forms; get_hash both overloads;
   src/sha*.cpp tail, src/hmac.cpp:24-86) which all are: local context; init; update(whole input); finish. *)
From HV Require Import Base_Bytes Spec_SHA Model_Sha2Ctx Model_Sha1Ctx.
Local Open Scope N_scope.

Inductive hctx := HC1 (c : ctx1) | HC256 (c : ctx2) | HC512 (c : ctx2).
Definition htype (c : hctx) : hash_t := match c with HC1 _ => SHA1 | HC256 _ => SHA256 | HC512 _ => SHA512 end.
Definition hinit (c : hctx) : hctx :=
  match c with HC1 c => HC1 (sha1_init c) | HC256 c => HC256 (sha256_init c) | HC512 c => HC512 (sha512_init c) end.
Definition hupdate (c : hctx) (m : list N) : hctx :=
  match c with HC1 c => HC1 (sha1_update c m) | HC256 c => HC256 (sha256_update c m) | HC512 c => HC512 (sha512_update c m) end.
Definition hfinish (c : hctx) : hctx * list N :=
  match c with
  | HC1 c => let r := sha1_finish c in (HC1 (fst r), snd r)
  | HC256 c => let r := sha256_finish c in (HC256 (fst r), snd r)
  | HC512 c => let r := sha512_finish c in (HC512 (fst r), snd r)
  end.
(* the only shape requirement: m_block is the 2*BLOCK array it is declared as *)
Definition hshape (c : hctx) : Prop :=
  match c with HC1 _ => True | HC256 c => length (m_block c) = 128%nat | HC512 c => length (m_block c) = 256%nat end.
Definition hfresh (t : hash_t) : hctx :=
  match t with SHA1 => HC1 fresh1 | SHA256 => HC256 (fresh2 64) | SHA512 => HC512 (fresh2 128) end.

(* one-shot hashing on a local context object *)
Definition hash_on (c : hctx) (msg : list N) : list N := snd (hfinish (hupdate (hinit c) msg)).
Definition hash_oneshot (t : hash_t) (msg : list N) : list N := hash_on (hfresh t) msg.
(* the string-in/hex-out convenience form: snprintf("%02x") per digest byte *)
Definition hash_hexstr (t : hash_t) (msg : list N) : list N := hex_of_bytes false (hash_oneshot t msg).
(* get_hash(type): switch over the selector; an unknown selector throws (modelled in Model_Args) *)
Definition get_hash (t : hash_t) (msg : list N) : list N := hash_oneshot t msg.

(* the pinned (pre-fix) SHA-512 one-shot, kept for the machine-checked refutation *)
Definition sha512_oneshot_pinned (msg : list N) : list N :=
  snd (sha512_finish_pinned (sha512_update (sha512_init (fresh2 128)) msg)).
