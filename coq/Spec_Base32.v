(* Spec_Base32: RFC 4648 section 6 (Base 32 encoding) at the bit level, and the documented contract of the
   decoder (accepted language, decoded value). Executable; does not mention the model. *)
From HV Require Import Base_Bytes.
Local Open Scope N_scope.

(* Table 3 of RFC 4648: "ABCDEFGHIJKLMNOPQRSTUVWXYZ234567" (value i -> ASCII code) *)
Definition b32_alphabet : list N :=
  [65; 66; 67; 68; 69; 70; 71; 72; 73; 74; 75; 76; 77; 78; 79; 80; 81; 82; 83; 84; 85; 86; 87; 88; 89; 90;
   50; 51; 52; 53; 54; 55].
Definition b32_char_of (v : N) : N := nth (N.to_nat v) b32_alphabet 0.

(* the w low bits of v, most significant first; the value of a bit string read most significant first *)
Fixpoint bits_be (w : nat) (v : N) : list bool :=
  match w with O => [] | S w' => N.testbit v (N.of_nat w') :: bits_be w' v end.
Definition bits_val (bs : list bool) : N := fold_left (fun a (b : bool) => 2 * a + (if b then 1 else 0)) bs 0.

(* ---------- encoding ---------- *)
(* the input bytes as one bit string, cut into 5-bit groups, the last group filled with zero bits on the right,
   every group mapped through the alphabet; with padding, '=' (61) up to a multiple of 8 characters *)
Definition b32_spec_encode (pad : bool) (data : list N) : list N :=
  let bits := flat_map (bits_be 8) data in
  let syms := map (fun g => b32_char_of (bits_val (g ++ repeat false (5 - length g)))) (chunks 5 bits) in
  syms ++ (if pad then repeat 61 ((8 - length syms mod 8) mod 8)%nat else []).

(* ---------- decoding ---------- *)
(* lenient mode first drops space, LF, CR, TAB; strict mode keeps the text as is *)
Definition b32_filter (strict : bool) (s : list N) : list N :=
  if strict then s else filter (fun c => negb ((c =? 32) || (c =? 10) || (c =? 13) || (c =? 9))) s.

(* A-Z, 2-7; a-z too when not strict *)
Definition b32_is_char (strict : bool) (c : N) : bool :=
  ((65 <=? c) && (c <=? 90)) || ((50 <=? c) && (c <=? 55)) || (negb strict && (97 <=? c) && (c <=? 122)).

(* the accepted texts, in the property's words: body ++ padding, body over the alphabet, padding a run of
   0, 1, 3, 4 or 6 '=', padding only when the total length is a multiple of 8, total length never 1, 3 or 6 mod 8,
   and a multiple of 8 when padding is required *)
Definition b32_lang (require_padding strict : bool) (s : list N) : Prop :=
  exists (body : list N) (k : nat),
    s = body ++ repeat 61 k /\
    Forall (fun c => b32_is_char strict c = true) body /\
    (k = 0 \/ k = 1 \/ k = 3 \/ k = 4 \/ k = 6)%nat /\
    (k <> 0 -> length s mod 8 = 0)%nat /\
    (length s mod 8 <> 1 /\ length s mod 8 <> 3 /\ length s mod 8 <> 6)%nat /\
    (require_padding = true -> length s mod 8 = 0)%nat.

(* body = the characters before the first '=', padding = the rest *)
Fixpoint b32_body (s : list N) : list N :=
  match s with [] => [] | c :: s' => if c =? 61 then [] else c :: b32_body s' end.
Fixpoint b32_padding (s : list N) : list N :=
  match s with [] => [] | c :: s' => if c =? 61 then s else b32_padding s' end.

(* boolean version of b32_lang (equivalence: Proofs_Base32.b32_langb_iff / Properties_C14.C14_langb_iff) *)
Definition b32_langb (require_padding strict : bool) (s : list N) : bool :=
  let k := length (b32_padding s) in
  let m := (length s mod 8)%nat in
  forallb (b32_is_char strict) (b32_body s) && forallb (fun c => c =? 61) (b32_padding s) &&
  ((k =? 0) || (k =? 1) || (k =? 3) || (k =? 4) || (k =? 6))%nat &&
  ((k =? 0) || (m =? 0))%nat &&
  negb ((m =? 1) || (m =? 3) || (m =? 6))%nat &&
  (negb require_padding || (m =? 0)%nat).

(* value of an alphabet character: its index in the alphabet, lower case read as upper case when not strict *)
Fixpoint index_of (c : N) (l : list N) (i : N) : N :=
  match l with [] => 0 | x :: l' => if c =? x then i else index_of c l' (i + 1) end.
Definition b32_char_value (strict : bool) (c : N) : N :=
  index_of (if negb strict && (97 <=? c) && (c <=? 122) then c - 32 else c) b32_alphabet 0.

(* the 5-bit values of the body characters concatenated, cut into bytes; the incomplete last byte is dropped *)
Definition b32_spec_value (strict : bool) (s : list N) : list N :=
  let bits := flat_map (fun c => bits_be 5 (b32_char_value strict c)) (b32_body s) in
  map bits_val (filter (fun g => (length g =? 8)%nat) (chunks 8 bits)).
