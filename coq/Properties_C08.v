(* C08 - time tokens: valid in adjacent intervals only, bound to key / fingerprint / hash; no overflow; clock failure. *)
From HV Require Import Base_Bytes Base_Result Spec_SHA Spec_HMAC Model_Hmac Model_Otp Model_Token Proofs_Otp Proofs_Token.
Local Open Scope Z_scope.
Notation length := List.length.

(* well defined for every value a time_t can hold: every intermediate stays in range, incl. the guarded +-interval *)
Theorem C08_no_overflow : forall now i : Z, TMIN <= now <= TMAX -> 1 <= i < 2 ^ 31 ->
  TMIN <= Z.rem now i <= TMAX /\ TMIN <= rounded now i <= TMAX /\
  (TMIN + i <= rounded now i -> TMIN <= rounded now i - i) /\ (rounded now i <= TMAX - i -> rounded now i + i <= TMAX) /\
  TMIN <= TMIN + i <= TMAX /\ TMIN <= TMAX - i <= TMAX.
Proof.
  intros now i Hn Hi. pose proof (rounded_range now i ltac:(lia) Hn) as R.
  destruct (rem_bounds now i ltac:(lia)) as [P Q]. unfold TMIN, TMAX in *.
  set (r := Z.rem now i) in *. set (q := rounded now i) in *. clearbody r q.
  destruct (Z_le_gt_dec 0 now) as [H|H]; [specialize (P H)|specialize (Q ltac:(lia))]; lia.
Qed.
Print Assumptions C08_no_overflow.

(* generation returns the lowercase-hex HMAC of the decimal start of the current interval (joined to the fingerprint by '|') *)
Theorem C08_generate : forall t key fp i now, 0 < i ->
  generate_time_token t key fp i (now, false) = Ok (token_mac t key (token_payload fp (rounded now i))).
Proof. exact generate_spec. Qed.
Print Assumptions C08_generate.

(* exact acceptance set: every candidate token string *)
Theorem C08_exact : forall t tok key fp i now, 0 < i ->
  exists b, is_token_valid t tok key fp i (now, false) = Ok b /\ (b = true <-> In tok (candidates t key fp now i)).
Proof. exact is_token_valid_exact. Qed.
Print Assumptions C08_exact.

(* a token generated at t is accepted at t' whenever t' lies in the same or an adjacent interval - for ALL clock values *)
Theorem C08_adjacent : forall t key fp i n1 n2, 0 < i -> TMIN <= n1 <= TMAX -> TMIN <= n2 <= TMAX ->
  Z.abs (rounded n1 i - rounded n2 i) <= i ->
  is_token_valid t (token_mac t key (token_payload fp (rounded n1 i))) key fp i (n2, false) = Ok true.
Proof. exact adjacent_accepted. Qed.
Print Assumptions C08_adjacent.

(* two or more intervals apart (non-negative clocks), or another fingerprint: the generated payload is none of the three
   payloads the validator MACs - acceptance would need an HMAC collision *)
Theorem C08_far_payloads : forall fp n1 n2 i, 0 < i -> 0 <= n1 -> 0 <= n2 -> 2 <= Z.abs (n1 / i - n2 / i) ->
  let p := token_payload fp (rounded n1 i) in let r := rounded n2 i in
  p <> token_payload fp r /\ p <> token_payload fp (r - i) /\ p <> token_payload fp (r + i).
Proof.
  intros fp n1 n2 i Hi H1 H2 Hfar p r. destruct (far_apart n1 n2 i Hi H1 H2 Hfar) as (A & B & C).
  repeat split; intro E; apply payload_inj in E; destruct E; contradiction.
Qed.
Print Assumptions C08_far_payloads.

Theorem C08_fingerprint_binding : forall fp fp' r r', fp <> fp' -> token_payload fp r <> token_payload fp' r'.
Proof. intros fp fp' r r' Hne E. apply payload_inj in E. destruct E. contradiction. Qed.
Print Assumptions C08_fingerprint_binding.

(* rejection modulo the stated premise: a string equal to none of the candidate MACs is rejected *)
Theorem C08_reject_modulo_collision : forall t tok key fp i now, 0 < i ->
  (forall c, In c (candidates t key fp now i) -> tok <> c) -> is_token_valid t tok key fp i (now, false) = Ok false.
Proof.
  intros t tok key fp i now Hi Hne. destruct (is_token_valid_exact t tok key fp i now Hi) as [b [E Hb]].
  rewrite E. f_equal. destruct b; [|reflexivity]. exfalso. destruct Hb as [Hb _]. specialize (Hb eq_refl).
  exact (Hne tok Hb eq_refl).
Qed.
Print Assumptions C08_reject_modulo_collision.

(* another hash: rejected unconditionally (hex lengths 40/64/128 differ and the comparison is exact, C09) *)
Theorem C08_other_hash : forall t t' key key' fp fp' i now now', 0 < i -> t <> t' ->
  (N.of_nat (length key) < 2 ^ 61)%N -> (N.of_nat (length key') < 2 ^ 61)%N ->
  (forall x, N.of_nat (length (token_payload fp x)) < 2 ^ 61 - 128)%N -> (forall x, N.of_nat (length (token_payload fp' x)) < 2 ^ 61 - 128)%N ->
  is_token_valid t' (token_mac t key (token_payload fp (rounded now i))) key' fp' i (now', false) = Ok false.
Proof.
  intros t t' key key' fp fp' i now now' Hi Ht HK HK' Hp Hp'.
  apply C08_reject_modulo_collision; [exact Hi|]. intros c Hc E. subst c.
  assert (Hlen : forall x, length (token_mac t key (token_payload fp (rounded now i))) <> length (token_mac t' key' (token_payload fp' x))).
  { intros x. rewrite !token_mac_length by auto. destruct t, t'; cbn; try lia; congruence. }
  unfold candidates in Hc.
  repeat (apply in_app_or in Hc; destruct Hc as [Hc|Hc]);
    repeat match goal with
    | H : In _ (if ?b then _ else _) |- _ => destruct b
    | H : In _ [_] |- _ => destruct H as [H|[]]
    | H : In _ [] |- _ => destruct H
    end;
    match goal with H : _ = token_mac t key _ |- _ => apply (f_equal (@List.length N)) in H; symmetry in H; exact (Hlen _ H) end.
Qed.
Print Assumptions C08_other_hash.

(* a failing clock (-1 with errno set) is reported as std::runtime_error; -1 without errno is the time -1 *)
Theorem C08_clock_failure : forall t tok key fp i, 0 < i ->
  is_token_valid t tok key fp i (-1, true) = Throw RuntimeError /\ generate_time_token t key fp i (-1, true) = Throw RuntimeError.
Proof. exact clock_failure. Qed.
Print Assumptions C08_clock_failure.

Example C08_nonvacuous :
  is_token_valid SHA256 (token_mac SHA256 [1;2;3]%N (token_payload (Some [65%N]) (rounded 119 60))) [1;2;3]%N (Some [65%N]) 60 (125, false) = Ok true /\
  is_token_valid SHA256 (token_mac SHA256 [1;2;3]%N (token_payload (Some [65%N]) (rounded 119 60))) [1;2;3]%N (Some [65%N]) 60 (185, false) = Ok false /\
  to_string (-9223372036854775808) = [45;57;50;50;51;51;55;50;48;51;54;56;53;52;55;55;53;56;48;56]%N.
Proof. vm_compute. repeat split; reflexivity. Qed.
