(* C15 - Base36: "For every byte string, decoding its Base36 encoding returns exactly the original bytes including all
   leading zero bytes; the encoding uses only 0-9A-Z and is one '0' per leading zero byte followed by the big-endian
   base-36 numeral of the remaining bytes. The decoder accepts exactly the strings made of ASCII letters and digits,
   case-insensitively, and maps them to the bytes with that numeric value and leading-zero count (a string of n zeros
   denotes max(1, n-1) zero bytes)."
   Model: Model_Base36.v (hmac_cpp::base36_encode / base36_decode), contract: Spec_Base36.v, proofs: Proofs_Base36.v.
   All statements are for every input, without any length bound. *)
From HV Require Import Base_Bytes Spec_Base36 Model_Base36 Proofs_Base36.
Local Open Scope N_scope.

(* the encoder computes the documented encoding of every byte string *)
Theorem C15_encode : forall d, bytes_okb d = true -> base36_encode d = b36_spec_encode d.
Proof. exact base36_encode_spec. Qed.
Print Assumptions C15_encode.

(* every character of an encoding is '0'-'9' or 'A'-'Z' *)
Theorem C15_alphabet : forall d, bytes_okb d = true -> forallb is_b36_char (base36_encode d) = true.
Proof. exact base36_encode_alphabet. Qed.
Print Assumptions C15_alphabet.

(* the decoder returns true exactly on the strings of ASCII letters and digits, and then yields the documented bytes *)
Theorem C15_decode : forall s, bytes_okb s = true ->
  base36_decode s = if forallb is_alnum s then Some (b36_spec_decode s) else None.
Proof. intros s _. apply base36_decode_spec. Qed.
Print Assumptions C15_decode.

(* decoding an encoding gives back the bytes, leading zero bytes included *)
Theorem C15_roundtrip : forall d, bytes_okb d = true -> base36_decode (base36_encode d) = Some d.
Proof. exact base36_roundtrip. Qed.
Print Assumptions C15_roundtrip.

(* whatever the input, a successful decode yields bytes *)
Theorem C15_decoded_ok : forall s d, base36_decode s = Some d -> bytes_okb d = true.
Proof. exact base36_decode_ok. Qed.
Print Assumptions C15_decoded_ok.

(* supporting: the numerals used by the contract are the canonical ones - right value, right alphabet, no leading zero
   (so the fuel inside Spec_Base36.digits_be plays no role) *)
Theorem C15_spec_numerals : forall n,
  (value36 (digits36 n) = n /\ forallb is_b36_char (digits36 n) = true /\ hd 49 (digits36 n) <> 48) /\
  (value_be (min_bytes n) = n /\ bytes_okb (min_bytes n) = true /\ hd 1 (min_bytes n) <> 0).
Proof. exact spec_numerals_ok. Qed.
Print Assumptions C15_spec_numerals.

(* supporting: the fuel-exhaustion marker of the model is never returned *)
Theorem C15_fuel_unreachable :
  (forall d, bytes_okb d = true -> base36_encode d <> fuel_exhausted) /\
  (forall s, base36_decode s <> Some fuel_exhausted).
Proof. exact fuel_unreachable. Qed.
Print Assumptions C15_fuel_unreachable.

(* ---- instances ---- *)
(* 00 00 "HELLO" -> "00" ++ "3YLGB3V3" *)
Example C15_encode_ex :
  bytes_okb [0;0;72;69;76;76;79] = true /\
  base36_encode [0;0;72;69;76;76;79] = [48;48; 51;89;76;71;66;51;86;51] /\
  b36_spec_encode [0;0;72;69;76;76;79] = [48;48; 51;89;76;71;66;51;86;51].
Proof. vm_compute. repeat split. Qed.
(* the all-zero conventions: [] -> "", 00 -> "0", 00 00 -> "000" *)
Example C15_encode_zero_ex :
  base36_encode [] = [] /\ base36_encode [0] = [48] /\ base36_encode [0;0] = [48;48;48] /\ base36_encode [0;0;1] = [48;48;49].
Proof. vm_compute. repeat split. Qed.
Example C15_alphabet_ex :
  bytes_okb [255;254;0;128] = true /\ forallb is_b36_char (base36_encode [255;254;0;128]) = true.
Proof. vm_compute. split; reflexivity. Qed.
(* "00zZ" -> 00 00 05 0F ; "0a-" is rejected although "0a" was already accumulated ; "0", "00", "000" *)
Example C15_decode_ex :
  bytes_okb [48;48;122;90] = true /\ forallb is_alnum [48;48;122;90] = true /\
  base36_decode [48;48;122;90] = Some [0;0;5;15] /\
  bytes_okb [48;97;45] = true /\ forallb is_alnum [48;97;45] = false /\ base36_decode [48;97;45] = None /\
  base36_decode [48] = Some [0] /\ base36_decode [48;48] = Some [0] /\ base36_decode [48;48;48] = Some [0;0].
Proof. vm_compute. repeat split. Qed.
Example C15_roundtrip_ex :
  bytes_okb [0;0;255;1;0] = true /\ base36_decode (base36_encode [0;0;255;1;0]) = Some [0;0;255;1;0].
Proof. vm_compute. split; reflexivity. Qed.
Example C15_decoded_ok_ex :
  base36_decode [49;90] = Some [71] /\ bytes_okb [71] = true.
Proof. vm_compute. split; reflexivity. Qed.
Example C15_spec_numerals_ex : digits36 1295 = [90;90] /\ min_bytes 1295 = [5;15] /\ digits36 0 = [] /\ min_bytes 0 = [].
Proof. vm_compute. repeat split. Qed.
