(* Spec_Base36: the documented contract of the Base36 codec (property C15), independent of the model.

   A byte string with z leading zero bytes is written as z characters '0' followed by the base-36 numeral
   (digits 0-9A-Z, most significant first, no leading zero digit) of the big-endian value of the bytes.
   Two conventions of the library make the all-zero strings round-trip:
     encode: the single byte 00 is "0"; n >= 2 zero bytes (and, by the same rule, nothing else) are n+1 characters '0';
     decode: a string of n >= 1 characters '0' denotes max(1, n-1) zero bytes.
   The decoder reads digits case-insensitively.  Everything here is executable. *)
From HV Require Import Base_Bytes.
Local Open Scope N_scope.

(* ---- positional numerals ---- *)

(* value of a digit string, most significant digit first, in base b *)
Definition value_base (b : N) (ds : list N) : N := fold_left (fun acc d => acc * b + d) ds 0.

(* big-endian value of a byte string *)
Definition value_be (bytes : list N) : N := value_base 256 bytes.

(* the base-b numeral of n, most significant digit first, empty for 0.  n has N.size_nat n binary digits and
   every division by b >= 2 removes at least one, so this fuel is never exhausted
   (Proofs_Base36.digits_be_unfold gives the fuel-free equation digits_be b n = digits_be b (n / b) ++ [n mod b]). *)
Fixpoint digits_fuel (fuel : nat) (b n : N) (acc : list N) : list N :=
  match fuel with
  | O => acc
  | S f => if n =? 0 then acc else digits_fuel f b (n / b) (n mod b :: acc)
  end.
Definition digits_be (b n : N) : list N := digits_fuel (N.size_nat n) b n [].

(* ---- the Base36 alphabet ---- *)

(* character of a digit 0..35: '0'..'9' = 48..57, 'A'..'Z' = 65..90 *)
Definition digit_char (d : N) : N := if d <? 10 then 48 + d else 55 + d.

(* digit of an alphanumeric character, letters in either case: 'a'..'z' = 97..122 *)
Definition char_val (c : N) : N := if c <=? 57 then c - 48 else if c <=? 90 then c - 55 else c - 87.

Definition is_digit (c : N) : bool := (48 <=? c) && (c <=? 57).
Definition is_upper (c : N) : bool := (65 <=? c) && (c <=? 90).
Definition is_lower (c : N) : bool := (97 <=? c) && (c <=? 122).
Definition is_alnum (c : N) : bool := is_digit c || is_upper c || is_lower c.
(* the output alphabet of the encoder *)
Definition is_b36_char (c : N) : bool := is_digit c || is_upper c.

(* base-36 numeral of n as characters 0-9A-Z, most significant first (empty for 0) *)
Definition digits36 (n : N) : list N := map digit_char (digits_be 36 n).
(* base-36 value of an alphanumeric string, case-insensitive *)
Definition value36 (s : list N) : N := value_base 36 (map char_val s).
(* minimal big-endian byte string of n (empty for 0) *)
Definition min_bytes (n : N) : list N := digits_be 256 n.

(* ---- leading elements ---- *)

(* number of leading elements equal to x, and what follows them *)
Fixpoint lead_count (x : N) (l : list N) : nat :=
  match l with
  | y :: r => if y =? x then S (lead_count x r) else O
  | [] => O
  end.
Fixpoint lead_strip (x : N) (l : list N) : list N :=
  match l with
  | y :: r => if y =? x then lead_strip x r else l
  | [] => []
  end.

(* ---- the codec ---- *)

Definition b36_spec_encode (data : list N) : list N :=
  match data with
  | [] => []
  | [0] => [48]
  | _ => if forallb (N.eqb 0) data
         then repeat 48 (length data + 1)
         else repeat 48 (lead_count 0 data) ++ digits36 (value_be data)
  end.

(* meaning of a string s of letters and digits *)
Definition b36_spec_decode (s : list N) : list N :=
  match s with
  | [] => []
  | _ => if forallb (N.eqb 48) s
         then repeat 0 (Nat.max 1 (length s - 1))
         else repeat 0 (lead_count 48 s) ++ min_bytes (value36 (lead_strip 48 s))
  end.
