(* Model_SecretString: include/hmac_cpp/secret_string.hpp.  Stored state = ciphertext, 12-byte nonce, 32-byte tag.
   The process-wide key and the nonces drawn from random_bytes are parameters (read back from the real object through the
   verification hook).  The three keystream loops of the C++ (xor_keystream_copy, xor_keystream_inplace_with_key, the
   rotation loop) are modelled separately.  HMAC computations go through the streaming HmacContext model, as in the code. *)
From HV Require Import Base_Bytes Base_Result Spec_SHA Model_Hash Model_Hmac Model_Kdf.
Local Open Scope N_scope.

Record sstate := { ss_ct : list N; ss_nonce : list N; ss_tag : list N }.
Definition ss_empty : sstate := {| ss_ct := []; ss_nonce := repeat 0 12; ss_tag := repeat 0 32 |}.

(* HmacContext c(SHA256); c.init(key); c.update(d1); [c.update(d2);] c.final(out) *)
Definition hmac2 (key d1 d2 : list N) : list N :=
  snd (hmac_final (hmac_update (hmac_update (hmac_init (hc_new SHA256) key) d1) d2)).
Definition hmac1 (key d1 : list N) : list N := snd (hmac_cycle (hc_new SHA256) key d1).

Definition be32 (v : N) : list N := be_bytes 4 (v mod 2 ^ 32).
Definition subkey_of (pk nonce : list N) : list N := hmac1 pk nonce.
Definition ks_block (subkey nonce : list N) (ctr : N) : list N := hmac1 subkey (nonce ++ be32 ctr).

(* xor_keystream_copy: out[pos+i] = in[pos+i] ^ block[i], 32 bytes per block, ctr++ *)
Fixpoint ks_copy_loop (fuel : nat) (subkey nonce : list N) (ctr : N) (inp : list N) : list N :=
  match inp with
  | [] => []
  | _ => match fuel with
         | O => []
         | S f => xor_bytes (firstn 32 inp) (ks_block subkey nonce ctr) ++ ks_copy_loop f subkey nonce ((ctr + 1) mod 2 ^ 32) (skipn 32 inp)
         end
  end.
Definition xor_keystream_copy (pk nonce inp : list N) : list N :=
  ks_copy_loop (length inp) (subkey_of pk nonce) nonce 0 inp.

(* xor_keystream_inplace_with_key: buf[pos+i] ^= block[i] *)
Fixpoint ks_inplace_loop (fuel : nat) (subkey nonce : list N) (ctr : N) (buf : list N) : list N :=
  match buf with
  | [] => []
  | _ => match fuel with
         | O => buf
         | S f => xor_bytes (firstn 32 buf) (ks_block subkey nonce ctr) ++ ks_inplace_loop f subkey nonce ((ctr + 1) mod 2 ^ 32) (skipn 32 buf)
         end
  end.
Definition xor_keystream_inplace_with_key (buf nonce subkey : list N) : list N :=
  ks_inplace_loop (length buf) subkey nonce 0 buf.

(* rotate_nonce's loop: ct[pos+i] ^= blk_old[i] ^ blk_new[i] *)
Fixpoint rotate_loop (fuel : nat) (oldk newk nonce_old nonce_new : list N) (ctr : N) (ct : list N) : list N :=
  match ct with
  | [] => []
  | _ => match fuel with
         | O => ct
         | S f => xor_bytes (firstn 32 ct) (xor_bytes (ks_block oldk nonce_old ctr) (ks_block newk nonce_new ctr))
                  ++ rotate_loop f oldk newk nonce_old nonce_new ((ctr + 1) mod 2 ^ 32) (skipn 32 ct)
         end
  end.

Definition ss_clear (s : sstate) : sstate := ss_empty.

(* set(p, n): clear(); nonce = random; ct = p xor keystream; tag = HMAC(pk, nonce || ct) *)
Definition ss_set (pk : list N) (nonce : list N) (p : list N) : sstate :=
  let ct := xor_keystream_copy pk nonce p in
  let tag := match p with [] => hmac1 pk nonce | _ => hmac2 pk nonce ct end in
  {| ss_ct := ct; ss_nonce := nonce; ss_tag := tag |}.

(* with_plaintext(fn): the bytes handed to the callback, or the integrity error *)
Definition ss_reveal (pk : list N) (s : sstate) : res (list N) :=
  match ss_ct s with
  | [] => Ok []
  | _ =>
    let expected := hmac2 pk (ss_nonce s) (ss_ct s) in
    if negb (forallb (fun p => fst p =? snd p) (combine (ss_tag s) expected))      (* std::equal(tag.begin(), tag.end(), expected) *)
    then Throw RuntimeError
    else Ok (xor_keystream_inplace_with_key (ss_ct s) (ss_nonce s) (subkey_of pk (ss_nonce s)))
  end.

Definition ss_rotate (pk : list N) (new_nonce : list N) (s : sstate) : sstate :=
  match ss_ct s with
  | [] => s
  | _ =>
    (* since a7c93d8: a representation whose tag does not verify is not re-tagged (std::runtime_error, state untouched) *)
    if negb (forallb (fun p => fst p =? snd p) (combine (ss_tag s) (hmac2 pk (ss_nonce s) (ss_ct s)))) then s else
    let oldk := hmac1 pk (ss_nonce s) in
    let newk := hmac1 pk new_nonce in
    let ct' := rotate_loop (length (ss_ct s)) oldk newk (ss_nonce s) new_nonce 0 (ss_ct s) in
    {| ss_ct := ct'; ss_nonce := new_nonce; ss_tag := hmac2 pk new_nonce ct' |}
  end.

(* histories on one object *)
Inductive sop :=
| SSet (nonce p : list N)            (* x.set(p) *)
| SRotate (nonce : list N)           (* x.rotate_nonce() *)
| SClear                             (* x.clear() *)
| SMoveIn (nonce p : list N)         (* x = secret_string(p): move assignment from a temporary *)
| SMoveOut.                          (* y = std::move(x): x is left moved-from *)
Definition ss_step (pk : list N) (s : sstate) (o : sop) : sstate :=
  match o with
  | SSet n p => ss_set pk n p
  | SRotate n => ss_rotate pk n s
  | SClear => ss_clear s
  | SMoveIn n p => ss_set pk n p
  | SMoveOut => ss_empty
  end.
(* what the object should reveal: the plaintext most recently stored *)
Definition ss_last (cur : list N) (o : sop) : list N :=
  match o with SSet _ p => p | SRotate _ => cur | SClear => [] | SMoveIn _ p => p | SMoveOut => [] end.

(* the temporary plaintext copy when with_plaintext exits: wiped on return; on a throwing callback only since the fix *)
Definition wp_released_tmp (fixed cb_throws : bool) (plain : list N) : list N :=
  if cb_throws && negb fixed then plain else map (fun _ => 0) plain.
