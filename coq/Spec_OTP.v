(* RFC 4226 (HOTP) section 5.3 and RFC 6238 (TOTP) section 4.2 *)
From HV Require Import Base_Bytes Spec_SHA Spec_HMAC.
Local Open Scope N_scope.

(* dynamic truncation: offset = low nibble of the last byte; the 31-bit big-endian number at that offset *)
Definition DT (dg : list N) : N :=
  let o := N.to_nat (last dg 0 mod 16) in
  be_val (firstn 4 (skipn o dg)) mod 2 ^ 31.
Definition HOTP_spec (t : hash_t) (K : list N) (C : N) (digits : N) : N :=
  DT (HMAC_spec t K (be_bytes 8 C)) mod 10 ^ digits.
(* T = floor(time / X) *)
Definition TOTP_spec (t : hash_t) (K : list N) (time period : N) (digits : N) : N :=
  HOTP_spec t K (time / period) digits.
