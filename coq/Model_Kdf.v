(* Model_Kdf: both PBKDF2 implementations (vector form, hmac_utils.cpp:48-126, on the one-shot get_hmac;
   caller-buffer form, :142-219, on the streaming HmacContext), pbkdf2_with_pepper, and HKDF-SHA256
   (:244-321).  Argument checks are modelled here as well (order of checks as in the code). *)
From HV Require Import Base_Bytes Base_Result Spec_SHA Model_Hash Model_Hmac.
Local Open Scope N_scope.

Definition MAX_PBKDF2_ITERATIONS : N := 1000000.

(* ---- form A: std::vector<uint8_t> pbkdf2(password, salt, iterations, dk_len, prf) ---- *)
Definition pbkdf2_block_A (t : hash_t) (P S : list N) (c : N) (i : N) : list N :=
  let salt_block := S ++ be_bytes 4 i in                         (* bytes (i>>24)&0xFF ... i&0xFF *)
  let u1 := get_hmac_raw t P salt_block in
  snd (N.iter (c - 1) (fun ut => let u' := get_hmac_raw t P (fst ut) in (u', xor_bytes (snd ut) u')) (u1, u1)).
Definition pbkdf2_derive (F : N -> list N) (hlen dk_len : nat) : list N :=
  let l := ((dk_len + hlen - 1) / hlen)%nat in
  let r := (dk_len - (l - 1) * hlen)%nat in
  flat_map (fun i => let T := F (N.of_nat i) in if (i =? l)%nat then firstn r T else T) (seq 1 l).
Definition pbkdf2_vec (t : hash_t) (P S : list N) (c : N) (dk_len : nat) : res (list N) :=
  if c <? 1 then Throw InvalidArgument
  else if MAX_PBKDF2_ITERATIONS <? c then Throw InvalidArgument
  else if (dk_len =? 0)%nat then Throw InvalidArgument
  else if (length S =? 0)%nat then Throw InvalidArgument
  else if (2 ^ 32 - 1) * N.of_nat (digest_size t) <? N.of_nat dk_len then Throw InvalidArgument
  else Ok (pbkdf2_derive (pbkdf2_block_A t P S c) (digest_size t) dk_len).

(* ---- form B: bool pbkdf2(prf, password, salt, iterations, out_ptr, dk_len) noexcept ---- *)
Definition hmac_cycle (h : hmac_ctx) (key data : list N) : hmac_ctx * list N :=
  hmac_final (hmac_update (hmac_init h key) data).
Definition pbkdf2_block_B (t : hash_t) (P S : list N) (c : N) (i : N) : list N :=
  let salt_block := S ++ be_bytes 4 i in
  let r1 := hmac_cycle (hc_new t) P salt_block in                (* HmacContext ctx(hash_type); init; update; final(u) *)
  let st := N.iter (c - 1) (fun st : hmac_ctx * list N * list N =>
                let '(ctx, u, acc) := st in
                let r := hmac_cycle ctx P u in (fst r, snd r, xor_bytes acc (snd r))) (fst r1, snd r1, snd r1) in
  snd st.
Definition pbkdf2_buf (t : hash_t) (P S : list N) (c : N) (dk_len : nat) : option (list N) :=   (* None = returns false *)
  if (c <? 1) || (dk_len =? 0)%nat || (length S <? 16)%nat || (MAX_PBKDF2_ITERATIONS <? c) then None
  else if (2 ^ 32 - 1) * N.of_nat (digest_size t) <? N.of_nat dk_len then None
  else Some (pbkdf2_derive (pbkdf2_block_B t P S c) (digest_size t) dk_len).

(* pbkdf2_with_pepper: password' = HMAC(pepper, password), then form A *)
Definition pbkdf2_with_pepper (t : hash_t) (P S pepper : list N) (c : N) (dk_len : nat) : res (list N) :=
  pbkdf2_vec t (get_hmac_raw t pepper P) S c dk_len.

(* ---- HKDF-SHA256 ---- *)
(* salt: None = null pointer; the code substitutes 32 zero bytes when the pointer is null or the length is 0 *)
Definition hkdf_extract (ikm : list N) (salt : option (list N)) : list N :=
  let s := match salt with None => repeat 0 32 | Some [] => repeat 0 32 | Some s => s end in
  get_hmac_raw SHA256 s ikm.

Fixpoint hkdf_expand_loop (prk info : list N) (cnt i n L offset : nat) (previous : list N) : list N :=
  match cnt with
  | O => []
  | S cnt' =>
      let input := previous ++ info ++ [N.of_nat i mod 256] in      (* static_cast<uint8_t>(i) *)
      let t := get_hmac_raw SHA256 prk input in
      let take := if (i =? n)%nat then (L - offset)%nat else length t in
      firstn take t ++ hkdf_expand_loop prk info cnt' (S i) n L (offset + take) t
  end.
Definition hkdf_expand (prk info : list N) (L : nat) : res (list N) :=
  if negb (length prk =? 32)%nat then Throw InvalidArgument
  else if (255 * 32 <? L)%nat then Throw InvalidArgument
  else let n := ((L + 32 - 1) / 32)%nat in Ok (hkdf_expand_loop prk info n 1 n L 0 []).

Definition hkdf_key_iv (ikm : list N) (salt : option (list N)) (context : list N) : res (list N * list N) :=
  let prk := hkdf_extract ikm salt in
  bind (hkdf_expand prk context 44) (fun okm => Ok (firstn 32 okm, firstn 12 (skipn 32 okm))).
