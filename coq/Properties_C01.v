(* C01 - SHA-1/256/512 digests equal FIPS 180-4 for every message; all entry points agree.
   Statements only (proofs: Proofs_BlockHash, Proofs_Sha2Refine, Proofs_Sha1Refine, Proofs_Hash). *)
From HV Require Import Base_Bytes Spec_SHA Model_Sha2Ctx Model_Sha1Ctx Model_Hash Proofs_Hash.
Local Open Scope N_scope.

(* every message shorter than 2^61 bytes (beyond that the 64-bit bit counter of the code wraps; for SHA-1/256
   FIPS itself is undefined there), every content: the one-shot entry points return the FIPS digest.
   All length residues mod 64/128 and the 2^29 / 2^32 byte boundaries are inside this statement. *)
Theorem C01_digest : forall (t : hash_t) (msg : list N),
  N.of_nat (length msg) < 2 ^ 61 -> hash_oneshot t msg = SHA_spec t msg.
Proof. exact hash_oneshot_correct. Qed.
Print Assumptions C01_digest.

(* the result does not depend on what the (uninitialised) local context object held:
   any field values, any stale m_block contents *)
Theorem C01_any_object : forall (c : hctx) (msg : list N),
  hshape c -> N.of_nat (length msg) < 2 ^ 61 -> hash_on c msg = SHA_spec (htype c) msg.
Proof. exact hash_on_correct. Qed.
Print Assumptions C01_any_object.

(* get_hash(type) and the string-in / hex-out form *)
Theorem C01_forms : forall (t : hash_t) (msg : list N), N.of_nat (length msg) < 2 ^ 61 ->
  get_hash t msg = SHA_spec t msg /\ hash_hexstr t msg = hex_of_bytes false (SHA_spec t msg).
Proof. intros t msg H. unfold get_hash, hash_hexstr. now rewrite hash_oneshot_correct. Qed.
Print Assumptions C01_forms.

Theorem C01_length : forall (t : hash_t) (msg : list N), length (SHA_spec t msg) = digest_size t.
Proof. exact SHA_spec_length. Qed.
Print Assumptions C01_length.

(* finding F1, machine-checked: the pinned SHA-512 (second padding block decided with BLOCK-9) is NOT FIPS *)
Theorem C01_pinned_sha512_refuted : exists msg, sha512_oneshot_pinned msg <> SHA_spec SHA512 msg.
Proof. exact sha512_pinned_refuted. Qed.
Print Assumptions C01_pinned_sha512_refuted.

(* non-vacuity *)
Example C01_nonvacuous : hash_oneshot SHA512 (repeat 97 112) = SHA_spec SHA512 (repeat 97 112) /\ hshape (hfresh SHA256).
Proof. split; [vm_compute; reflexivity|apply hshape_fresh]. Qed.
