(* C01 - SHA-1/256/512 digests equal FIPS 180-4 for every message; all entry points agree.
   Statements only (proofs: Proofs_BlockHash, Proofs_Sha2Refine, Proofs_Sha1Refine, Proofs_Hash). *)
From HV Require Import Base_Bytes Spec_SHA Model_Sha2Ctx Model_Sha1Ctx Model_Hash Proofs_Hash.
Local Open Scope N_scope.

(* every message shorter than 2^61 bytes (beyond that the 64-bit bit counter of the code wraps; for SHA-1/256
   FIPS itself is undefined there), every content: the one-shot entry points return the FIPS digest.
   All length residues mod 64/128 and the 2^29 / 2^32 byte boundaries are inside this statement. *)
Theorem C01_digest : forall (t : hash_t) (msg : list N),
  N.of_nat (length msg) < 2 ^ 61 -> hash_oneshot t msg = SHA_spec t msg.
Proof. exact hash_oneshot_correct. Qed.
Print Assumptions C01_digest.

(* the result does not depend on what the (uninitialised) local context object held:
   any field values, any stale m_block contents *)
Theorem C01_any_object : forall (c : hctx) (msg : list N),
  hshape c -> N.of_nat (length msg) < 2 ^ 61 -> hash_on c msg = SHA_spec (htype c) msg.
Proof. exact hash_on_correct. Qed.
Print Assumptions C01_any_object.

(* get_hash(type) and the string-in / hex-out form *)
Theorem C01_forms : forall (t : hash_t) (msg : list N), N.of_nat (length msg) < 2 ^ 61 ->
  get_hash t msg = SHA_spec t msg /\ hash_hexstr t msg = hex_of_bytes false (SHA_spec t msg).
Proof. intros t msg H. unfold get_hash, hash_hexstr. now rewrite hash_oneshot_correct. Qed.
Print Assumptions C01_forms.

Theorem C01_length : forall (t : hash_t) (msg : list N), length (SHA_spec t msg) = digest_size t.
Proof. exact SHA_spec_length. Qed.
Print Assumptions C01_length.

(* finding F1, machine-checked: the pinned SHA-512 (second padding block decided with BLOCK-9) is NOT FIPS *)
Theorem C01_pinned_sha512_refuted : exists msg, sha512_oneshot_pinned msg <> SHA_spec SHA512 msg.
Proof. exact sha512_pinned_refuted. Qed.
Print Assumptions C01_pinned_sha512_refuted.

(* non-vacuity *)
Example C01_nonvacuous : hash_oneshot SHA512 (repeat 97 112) = SHA_spec SHA512 (repeat 97 112) /\ hshape (hfresh SHA256).
Proof. split; [vm_compute; reflexivity|apply hshape_fresh]. Qed.

From HV Require Import Model_Sha1Transform Proofs_Sha1Transform.
(* the transform as the code computes it (16-word circular schedule, rotating register roles, the macros' boolean functions) is the FIPS 180-4 compression function *)
Theorem C01_sha1_transform : forall H blk, H_ok H -> length blk = 64%nat -> sha1_compress_code H blk = sha1_compress H blk.
Proof. exact sha1_compress_code_correct. Qed.
Print Assumptions C01_sha1_transform.

(* non-vacuity: the initial chaining value satisfies H_ok; a concrete 64-byte block with both sides computed *)
Example C01_sha1_transform_nonvacuous :
  let blk := map (fun i => (N.of_nat i * 37 + 11) mod 256) (seq 0 64) in
  H_ok IV1 /\ length blk = 64%nat /\
  sha1_compress_code IV1 blk = [2722219411; 2239210116; 3929933266; 1892279528; 476977544] /\
  sha1_compress IV1 blk = [2722219411; 2239210116; 3929933266; 1892279528; 476977544].
Proof. split; [exact IV1_ok|]. vm_compute. repeat split; reflexivity. Qed.
