(* RFC 8018 section 5.2 (PBKDF2) and RFC 5869 sections 2.2, 2.3 (HKDF) over the RFC 2104 spec. *)
From HV Require Import Base_Bytes Spec_SHA Spec_HMAC.
Local Open Scope N_scope.

(* U_{n+1} = PRF(P, U_n) *)
Fixpoint pbkdf2_U (PRF : list N -> list N) (n : nat) (u1 : list N) : list N :=
  match n with O => u1 | S k => PRF (pbkdf2_U PRF k u1) end.
(* F(P, S, c, i) = U_1 xor U_2 xor ... xor U_c,  U_1 = PRF(P, S || INT(i)) *)
Definition pbkdf2_F (t : hash_t) (P S : list N) (c : nat) (i : N) : list N :=
  let PRF := HMAC_spec t P in
  let u1 := PRF (S ++ be_bytes 4 i) in
  fold_left xor_bytes (map (fun j => pbkdf2_U PRF j u1) (seq 1 (c - 1))) u1.
(* DK = T_1 || T_2 || ... || T_l <0..r-1>,  l = ceil(dkLen / hLen) *)
Definition PBKDF2_spec (t : hash_t) (P S : list N) (c : nat) (dkLen : nat) : list N :=
  let hLen := digest_size t in
  let l := ((dkLen + hLen - 1) / hLen)%nat in
  firstn dkLen (flat_map (fun i => pbkdf2_F t P S c (N.of_nat i)) (seq 1 l)).

(* HKDF-Extract(salt, IKM) = HMAC-Hash(salt, IKM); salt absent = HashLen zeros *)
Definition HKDF_extract_spec (salt : list N) (ikm : list N) : list N :=
  HMAC_spec SHA256 (match salt with [] => repeat 0 32 | _ => salt end) ikm.
(* T(0) = empty, T(i) = HMAC(PRK, T(i-1) | info | i) *)
Fixpoint HKDF_T (prk info : list N) (i : nat) : list N :=
  match i with O => [] | S k => HMAC_spec SHA256 prk (HKDF_T prk info k ++ info ++ [N.of_nat (S k)]) end.
Definition HKDF_expand_spec (prk info : list N) (L : nat) : list N :=
  let n := ((L + 31) / 32)%nat in firstn L (flat_map (HKDF_T prk info) (seq 1 n)).
