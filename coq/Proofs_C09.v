From HV Require Import Base_Bytes Model_CtEq.
Local Open Scope N_scope.

Lemma fold_lor_zero (f : nat -> N) l d :
  fold_left (fun d i => N.lor d (f i)) l d = 0 <-> d = 0 /\ forall i, In i l -> f i = 0.
Proof.
  revert d. induction l as [|x l IH]; intros d; cbn [fold_left].
  - split; [intros ->; split; [reflexivity|intros i []]|tauto].
  - rewrite IH, N.lor_eq_0_iff. split.
    + intros [[Hd Hx] Hl]. split; [exact Hd|]. intros i [<-|Hi]; auto.
    + intros [Hd Hl]. repeat split; auto; [apply Hl; now left|]. intros i Hi. apply Hl. now right.
Qed.

Lemma ct_equals_iff a b : ct_equals a b = true <-> a = b.
Proof.
  unfold ct_equals. rewrite N.eqb_eq, fold_lor_zero. split.
  - intros [Hd Hall]. destruct (Nat.eqb_spec (length a) (length b)) as [E|E]; [|discriminate].
    apply (nth_ext a b 0 0 E). intros n Hn. apply N.lxor_eq. apply Hall. apply in_seq. lia.
  - intros ->. rewrite Nat.eqb_refl. split; [reflexivity|]. intros i _. apply N.lxor_nilpotent.
Qed.

(* the length-mismatch seed alone decides unequal lengths, even when the lengths differ by 256*k
   and all compared bytes agree with the implicit zeros *)
Lemma ct_equals_length a b : ct_equals a b = true -> length a = length b.
Proof. intros H. apply ct_equals_iff in H. now subst. Qed.
