From HV Require Import Base_Bytes Base_BytesLemmas Base_Result Spec_SHA Model_BlockHash Model_Sha2Ctx Proofs_Sha2Refine Model_Otp Model_Bounds Proofs_Otp.
Local Open Scope N_scope.
Ltac Zify.zify_post_hook ::= Z.to_euclidean_division_equations.

Section B.
  Variable B LB wb : nat.
  Hypothesis HLB8 : (8 <= LB)%nat.
  Hypothesis HB : (LB + 1 <= B)%nat.
  Variable compress : list N -> list N -> list N.
  Variable IV : list N.
  Let thr := (B - LB - 1)%nat.

  (* the only fact needed: the invariant m_len < B, which holds after init and any updates (R2) *)
  Lemma update_in_bounds c len : (m_len c < B)%nat ->
    forallb (in_array (2 * B)) (update2_block_writes B c len) = true /\
    forallb (in_array (2 * B)) (update2_block_reads B c len) = true /\
    forallb (in_array len) (update2_message_reads B c len) = true.
  Proof.
    intros Hm. unfold update2_block_writes, update2_block_reads, update2_message_reads, in_array.
    set (rem_len := if (len <? B - m_len c)%nat then len else (B - m_len c)%nat).
    assert (Hr : (rem_len <= len /\ rem_len <= B - m_len c)%nat).
    { unfold rem_len. destruct (Nat.ltb_spec len (B - m_len c)); lia. }
    destruct (Nat.ltb_spec (m_len c + len) B) as [Hs|Hs]; cbn [forallb fst snd andb].
    - repeat split; try reflexivity; rewrite andb_true_r; apply Nat.leb_le; lia.
    - assert (HB0 : (0 < B)%nat) by lia.
      pose proof (Nat.mod_upper_bound (len - rem_len) B ltac:(lia)) as Hub.
      pose proof (Nat.div_mod (len - rem_len) B ltac:(lia)) as Hdm.
      set (q := ((len - rem_len) / B)%nat) in *. set (r := ((len - rem_len) mod B)%nat) in *. clearbody q r.
      repeat split; rewrite ?andb_true_r, ?andb_true_iff; repeat split; try apply Nat.leb_le; try lia; nia.
  Qed.

  Lemma finish_in_bounds c : (m_len c < B)%nat ->
    forallb (in_array (2 * B)) (finish2_block_accesses B thr c) = true /\ finish2_no_wrap B thr c = true.
  Proof.
    intros Hm. unfold finish2_block_accesses, finish2_no_wrap, in_array. rewrite (Nat.mod_small (m_len c) B) by lia.
    unfold thr. destruct (Nat.ltb_spec (B - LB - 1) (m_len c)); cbn [forallb fst snd];
      rewrite ?andb_true_r, ?andb_true_iff; repeat split; apply Nat.leb_le; lia.
  Qed.

  (* every history: after init and any list of updates, the next update and finish stay inside m_block and the message *)
  Theorem sha2_history_in_bounds c cs len : shape2 B c ->
    let c' := fold_left (update2 B compress) cs (init2 IV c) in
    forallb (in_array (2 * B)) (update2_block_writes B c' len) = true /\
    forallb (in_array (2 * B)) (update2_block_reads B c' len) = true /\
    forallb (in_array len) (update2_message_reads B c' len) = true /\
    forallb (in_array (2 * B)) (finish2_block_accesses B thr c') = true /\ finish2_no_wrap B thr c' = true /\
    length (m_block c') = (2 * B)%nat.
  Proof.
    intros Hs c'.
    destruct (R2_updates B LB HLB8 HB compress cs _ _ (R2_init B LB HLB8 HB IV c Hs)) as (_ & Hlen & Hml & _ & _ & Hlt).
    assert (Hm : (m_len c' < B)%nat) by (unfold c'; rewrite Hml; exact Hlt).
    destruct (update_in_bounds c' len Hm) as (A1 & A2 & A3). destruct (finish_in_bounds c' Hm) as (A4 & A5).
    repeat split; assumption.
  Qed.
End B.

(* the digest-truncation helper reads inside the digest whenever it does not throw *)
Theorem hotp_reads_in_bounds dg digits v : bytes_okb dg = true -> (1 <= digits <= 9)%Z ->
  hotp_from_digest dg digits = Ok v -> forallb (in_array (length dg)) (hotp_digest_reads dg) = true.
Proof.
  intros Hok Hd. unfold hotp_from_digest, hotp_digest_reads, in_array. destruct dg as [|x dg']; [discriminate|].
  set (dg := x :: dg'). destruct (Nat.ltb_spec (length dg) (N.to_nat (N.land (last dg 0) 15) + 4)) as [H|H]; [discriminate|].
  intros _. cbn [forallb fst snd]. rewrite andb_true_r. apply Nat.leb_le. lia.
Qed.
(* and the divisor table index digits-1 is inside its 9 entries exactly on the validated digit range *)
Theorem divisor_index_in_bounds digits : (1 <= digits <= 9)%Z -> (Z.to_nat (digits - 1) < length divisor_table)%nat.
Proof. intros H. cbn [divisor_table length]. lia. Qed.

Lemma hmac_accesses_in_bounds t key_len msg_len :
  forallb (fun ar => in_array (fst ar) (snd ar)) (hmac_accesses t key_len msg_len) = true.
Proof.
  unfold hmac_accesses, in_array. cbv zeta. cbn [forallb fst snd].
  assert (Hd : (digest_size t <= block_size t)%nat) by (destruct t; cbn; lia).
  destruct (Nat.ltb_spec (block_size t) key_len) as [H|H];
    repeat (apply andb_true_intro; split); try reflexivity; apply Nat.leb_le; lia.
Qed.
Lemma hmac_sizes_guarded t msg_len : msg_len <= 2 ^ 64 - 1 - N.of_nat (block_size t) -> hmac_sizes_no_wrap t msg_len = true.
Proof.
  intros H. unfold hmac_sizes_no_wrap.
  assert (Hb : (block_size t <= 128)%nat) by (destruct t; cbn; lia).
  assert (Hd : (digest_size t <= 64)%nat) by (destruct t; cbn; lia).
  change (2 ^ 64) with 18446744073709551616 in *.
  apply andb_true_intro; split; apply N.ltb_lt; lia.
Qed.
