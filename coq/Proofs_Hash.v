From HV Require Import Base_Bytes Base_BytesLemmas Spec_SHA Model_BlockHash Proofs_BlockHash
  Model_Sha2Ctx Model_Sha1Ctx Proofs_Sha2Refine Proofs_Sha1Refine Model_Hash.
Local Open Scope N_scope.

Lemma fold_HC1 cs c : fold_left hupdate cs (HC1 c) = HC1 (fold_left sha1_update cs c).
Proof. revert c; induction cs as [|m cs IH]; intros c; cbn [fold_left hupdate]; [reflexivity|apply IH]. Qed.
Lemma fold_HC256 cs c : fold_left hupdate cs (HC256 c) = HC256 (fold_left sha256_update cs c).
Proof. revert c; induction cs as [|m cs IH]; intros c; cbn [fold_left hupdate]; [reflexivity|apply IH]. Qed.
Lemma fold_HC512 cs c : fold_left hupdate cs (HC512 c) = HC512 (fold_left sha512_update cs c).
Proof. revert c; induction cs as [|m cs IH]; intros c; cbn [fold_left hupdate]; [reflexivity|apply IH]. Qed.

Lemma htype_hinit c : htype (hinit c) = htype c. Proof. now destruct c. Qed.
Lemma htype_hupdate c m : htype (hupdate c m) = htype c. Proof. now destruct c. Qed.
Lemma htype_hfinish c : htype (fst (hfinish c)) = htype c. Proof. now destruct c. Qed.
Lemma htype_updates cs c : htype (fold_left hupdate cs c) = htype c.
Proof. revert c; induction cs as [|m cs IH]; intros c; cbn [fold_left]; [reflexivity|]. now rewrite IH, htype_hupdate. Qed.

(* any context object, (re-)initialised, fed any chunks, finished: the FIPS digest of the concatenation *)
Theorem hash_chunked c cs : hshape c -> N.of_nat (length (concat cs)) < 2 ^ 61 ->
  snd (hfinish (fold_left hupdate cs (hinit c))) = SHA_spec (htype c) (concat cs).
Proof.
  intros Hs Hb. destruct c as [c|c|c]; cbn [hinit htype].
  - rewrite fold_HC1. cbn [hfinish snd]. rewrite sha1_chunked_correct by exact Hb. reflexivity.
  - rewrite fold_HC256. cbn [hfinish snd].
    unfold sha256_finish, sha256_update, sha256_init.
    exact (sha2_chunked_correct 64 8 4 ltac:(lia) ltac:(lia) (sha2_compress P256) IV256 c cs Hs Hb).
  - rewrite fold_HC512. cbn [hfinish snd].
    unfold sha512_finish, sha512_update, sha512_init.
    exact (sha2_chunked_correct 128 16 8 ltac:(lia) ltac:(lia) (sha2_compress P512) IV512 c cs Hs Hb).
Qed.

Lemma hshape_hinit c : hshape c -> hshape (hinit c).
Proof. destruct c; cbn; auto. Qed.
(* a finished context still has the shape, so it can be re-initialised and reused *)
Lemma hshape_cycle c cs : hshape c -> hshape (fst (hfinish (fold_left hupdate cs (hinit c)))).
Proof.
  intros Hs. destruct c as [c|c|c]; cbn [hinit].
  - rewrite fold_HC1. exact I.
  - rewrite fold_HC256. cbn [hfinish fst hshape].
    exact (cycle2_shape 64 8 4 ltac:(lia) ltac:(lia) (sha2_compress P256) IV256 c cs Hs).
  - rewrite fold_HC512. cbn [hfinish fst hshape].
    exact (cycle2_shape 128 16 8 ltac:(lia) ltac:(lia) (sha2_compress P512) IV512 c cs Hs).
Qed.

Lemma hshape_updates c cs : hshape c -> hshape (fold_left hupdate cs (hinit c)).
Proof.
  intros Hs. destruct c as [c|c|c]; cbn [hinit].
  - rewrite fold_HC1. exact I.
  - rewrite fold_HC256. exact (updates2_shape 64 8 ltac:(lia) ltac:(lia) (sha2_compress P256) IV256 c cs Hs).
  - rewrite fold_HC512. exact (updates2_shape 128 16 ltac:(lia) ltac:(lia) (sha2_compress P512) IV512 c cs Hs).
Qed.

Lemma hshape_fresh t : hshape (hfresh t).
Proof. destruct t; cbn; auto. Qed.
Lemma htype_fresh t : htype (hfresh t) = t.
Proof. now destruct t. Qed.

Theorem hash_on_correct c msg : hshape c -> N.of_nat (length msg) < 2 ^ 61 ->
  hash_on c msg = SHA_spec (htype c) msg.
Proof.
  intros Hs Hb. unfold hash_on.
  pose proof (hash_chunked c [msg] Hs) as H. cbn [concat fold_left] in H. rewrite app_nil_r in H. now apply H.
Qed.
Theorem hash_oneshot_correct t msg : N.of_nat (length msg) < 2 ^ 61 -> hash_oneshot t msg = SHA_spec t msg.
Proof. intros Hb. unfold hash_oneshot. rewrite hash_on_correct by (auto using hshape_fresh). now rewrite htype_fresh. Qed.

(* ---------- digest length ---------- *)
Lemma sha2_round_len P v kw : length v = 8%nat -> length (sha2_round P v kw) = 8%nat.
Proof. intros H. do 9 (destruct v as [|? v]; try discriminate). reflexivity. Qed.
Lemma fold_round_len P l v : length v = 8%nat -> length (fold_left (sha2_round P) l v) = 8%nat.
Proof. revert v; induction l as [|x l IH]; intros v H; cbn [fold_left]; [exact H|]. apply IH. now apply sha2_round_len. Qed.
Lemma sha2_compress_len P H blk : length H = 8%nat -> length (sha2_compress P H blk) = 8%nat.
Proof. intros HH. unfold sha2_compress. rewrite map_length, combine_length, fold_round_len, HH by exact HH. reflexivity. Qed.
Lemma sha1_round_len v tw : length v = 5%nat -> length (sha1_round v tw) = 5%nat.
Proof. intros H. do 6 (destruct v as [|? v]; try discriminate). reflexivity. Qed.
Lemma fold_round1_len l v : length v = 5%nat -> length (fold_left sha1_round l v) = 5%nat.
Proof. revert v; induction l as [|x l IH]; intros v H; cbn [fold_left]; [exact H|]. apply IH. now apply sha1_round_len. Qed.
Lemma sha1_compress_len H blk : length H = 5%nat -> length (sha1_compress H blk) = 5%nat.
Proof. intros HH. unfold sha1_compress. rewrite map_length, combine_length, fold_round1_len, HH by exact HH. reflexivity. Qed.
Lemma fold_compress_len (f : list N -> list N -> list N) n : (forall H b, length H = n -> length (f H b) = n) ->
  forall bs H, length H = n -> length (fold_left f bs H) = n.
Proof. intros Hf bs. induction bs as [|b bs IH]; intros H HH; cbn [fold_left]; [exact HH|]. apply IH. now apply Hf. Qed.
Lemma words_bytes_len wb ws : length (words_bytes wb ws) = (length ws * wb)%nat.
Proof.
  unfold words_bytes. induction ws as [|w ws IH]; [reflexivity|]. cbn [flat_map length].
  rewrite app_length, be_bytes_length, IH. lia.
Qed.
Theorem SHA_spec_length t msg : length (SHA_spec t msg) = digest_size t.
Proof.
  unfold SHA_spec, sha_hash. rewrite words_bytes_len.
  destruct t; cbn [word_bytes digest_size compress_of IV_of block_size lenfield_size].
  - rewrite (fold_compress_len sha1_compress 5); [reflexivity|apply sha1_compress_len|reflexivity].
  - rewrite (fold_compress_len (sha2_compress P256) 8); [reflexivity|apply sha2_compress_len|reflexivity].
  - rewrite (fold_compress_len (sha2_compress P512) 8); [reflexivity|apply sha2_compress_len|reflexivity].
Qed.

Lemma SHA_spec_ok t m : bytes_okb (SHA_spec t m) = true.
Proof.
  unfold SHA_spec, words_bytes. induction (sha_hash _ _ _ _ _) as [|w ws IH]; [reflexivity|].
  cbn [flat_map]. now rewrite bytes_okb_app, be_bytes_ok, IH.
Qed.

(* ---------- the pinned SHA-512 is refuted (finding F1) ---------- *)
Lemma sha512_pinned_refuted : exists msg, sha512_oneshot_pinned msg <> SHA_spec SHA512 msg.
Proof. exists (repeat 97 112). vm_compute. discriminate. Qed.
