(* C05 - HKDF-SHA256 extract/expand equal RFC 5869 for all inputs and lengths. *)
From HV Require Import Base_Bytes Base_Result Spec_SHA Spec_HMAC Spec_KDF Model_Hmac Model_Kdf Proofs_Hmac Proofs_Kdf.
Local Open Scope N_scope.

(* Extract = HMAC-SHA256(salt, IKM); absent (null) or empty salt = 32 zero bytes *)
Theorem C05_extract : forall (ikm : list N) (salt : option (list N)),
  N.of_nat (length ikm) < 2 ^ 61 - 128 -> N.of_nat (length (match salt with Some s => s | None => [] end)) < 2 ^ 61 ->
  hkdf_extract ikm salt = HKDF_extract_spec (match salt with Some s => s | None => [] end) ikm.
Proof. exact hkdf_extract_spec. Qed.
Print Assumptions C05_extract.

(* Expand: every 32-byte PRK, every info, every L in [0, 8160]: first L bytes of T(1)||T(2)||..., exactly L bytes *)
Theorem C05_expand : forall (prk info : list N) (L : nat),
  length prk = 32%nat -> N.of_nat (length info) < 2 ^ 60 -> (L <= 255 * 32)%nat ->
  hkdf_expand prk info L = Ok (HKDF_expand_spec prk info L) /\ length (HKDF_expand_spec prk info L) = L.
Proof. exact hkdf_expand_spec. Qed.
Print Assumptions C05_expand.

(* the key/IV helper: bytes 0-31 and 32-43 of Expand(Extract(salt, IKM), context, 44) *)
Theorem C05_key_iv : forall (ikm : list N) (salt : option (list N)) (ctx : list N),
  N.of_nat (length ikm) < 2 ^ 61 - 128 -> N.of_nat (length (match salt with Some s => s | None => [] end)) < 2 ^ 61 ->
  N.of_nat (length ctx) < 2 ^ 60 ->
  let okm := HKDF_expand_spec (HKDF_extract_spec (match salt with Some s => s | None => [] end) ikm) ctx 44 in
  hkdf_key_iv ikm salt ctx = Ok (firstn 32 okm, firstn 12 (skipn 32 okm)).
Proof.
  intros ikm salt ctx Hi Hs Hc okm. unfold hkdf_key_iv.
  rewrite hkdf_extract_spec by assumption.
  destruct (hkdf_expand_spec (HKDF_extract_spec (match salt with Some s => s | None => [] end) ikm) ctx 44) as [E _].
  - apply (Proofs_Otp.HMAC_spec_length SHA256).
  - exact Hc.
  - lia.
  - rewrite E. reflexivity.
Qed.
Print Assumptions C05_key_iv.

(* out-of-domain arguments of expand *)
Theorem C05_expand_rejects : forall (prk info : list N) (L : nat),
  (length prk <> 32%nat \/ (255 * 32 < L)%nat) -> hkdf_expand prk info L = Throw InvalidArgument.
Proof.
  intros prk info L H. unfold hkdf_expand.
  destruct (Nat.eqb_spec (length prk) 32) as [E|E]; cbn [negb]; [|reflexivity].
  destruct H as [H|H]; [contradiction|]. now replace (255 * 32 <? L)%nat with true by (symmetry; apply Nat.ltb_lt; exact H).
Qed.
Print Assumptions C05_expand_rejects.
