(* C16 - secure_buffer: "Through any sequence of construction, copy, move, assignment, resize and clear operations a secure
   buffer holds exactly the bytes a plain byte vector would hold. Whenever it returns storage to the allocator or abandons
   bytes - destruction, clear, shrinking, being assigned over, reallocation on growth - those bytes have been overwritten
   with zeros first, and a string handed over by rvalue is zeroed and emptied."
   Model: Model_SecureBuffer.v (include/hmac_cpp/secure_buffer.hpp over a heap of cells with release events; two buffer
   variables, every member operation an `op`; the plain-vector semantics is spec_step/spec_run in the same file),
   proofs: Proofs_SecureBuffer.v.
   All statements are for every history `ops`, every growth policy `grow` of std::vector, and without any bound on lengths.
   `fixed = true` is resize() as repaired by commit 63e4472, `fixed = false` the pinned resize().
     vec_inv v        : size <= capacity, the live cells [0, size) have been written, the slack [size, capacity) is
                        fresh-or-zero (no abandoned byte survives inside the block)
     block_clean b    : every cell of b is Fresh (never written since allocation) or Val 0
     op_adopts_clean  : a vector adopted by secure_buffer(std::vector&&) has fresh-or-zero slack (hypothesis on the caller;
                        C16_dirty_adoption_refuted shows it cannot be dropped) *)
From HV Require Import Base_Bytes Model_SecureBuffer Proofs_SecureBuffer.

(* the buffers hold exactly what plain byte vectors would hold (with either resize) *)
Theorem C16_refines_vector : forall grow fixed ops s, state_inv s ->
  state_contents (fst (run grow fixed s ops)) = spec_run (state_contents s) ops.
Proof. exact refines_vector. Qed.
Print Assumptions C16_refines_vector.

(* the invariant - in particular "slack holds no abandoned byte": shrinking, clear and assignment zero what they drop *)
Theorem C16_invariant : forall grow ops s, (forall c n, (n <= grow c n)%nat) -> state_inv s -> Forall op_adopts_clean ops ->
  state_inv (fst (run grow true s ops)).
Proof. exact invariant. Qed.
Print Assumptions C16_invariant.

(* every block returned to the allocator, during the history and at destruction, holds only fresh or zero cells *)
Theorem C16_releases_clean : forall grow ops s, (forall c n, (n <= grow c n)%nat) -> state_inv s -> Forall op_adopts_clean ops ->
  forallb block_clean (frees (snd (run grow true s ops))) = true /\
  forallb block_clean (frees (destroy (fst (run grow true s ops)))) = true.
Proof. exact releases_clean. Qed.
Print Assumptions C16_releases_clean.

(* every string handed over by rvalue is left all-zero and reports empty *)
Theorem C16_rvalue_string : forall grow fixed ops s,
  Forall (fun e => forallb (N.eqb 0) (fst e) = true /\ snd e = true) (strings (snd (run grow fixed s ops))).
Proof. exact rvalue_string. Qed.
Print Assumptions C16_rvalue_string.

(* two default-constructed buffers satisfy the invariant *)
Theorem C16_init : state_inv init_state.
Proof. exact init_inv. Qed.
Print Assumptions C16_init.

(* finding F3: with the pinned resize() growth hands the old block back with the secret still in it *)
Theorem C16_pinned_refuted : exists grow ops, (forall c n, (n <= grow c n)%nat) /\ Forall op_adopts_clean ops /\
  forallb block_clean (frees (snd (run grow false init_state ops))) = false.
Proof.
  exists (fun _ n => n), [OAssignPtr VA [7%N]; OResize VA 2].
  split; [intros c n; apply Nat.le_refl|]. split; [repeat constructor|]. vm_compute. reflexivity.
Qed.
Print Assumptions C16_pinned_refuted.

(* finding F9: adopting a vector whose slack [size, capacity) holds secret bytes releases them unwiped
   (secure_zero covers size() bytes only) *)
Theorem C16_dirty_adoption_refuted : exists grow ops, (forall c n, (n <= grow c n)%nat) /\
  forallb block_clean (frees (snd (run grow true init_state ops)) ++ frees (destroy (fst (run grow true init_state ops)))) = false.
Proof.
  exists (fun _ n => n), [OAdopt VA [1%N; 2%N] [Val 170; Val 187]].
  split; [intros c n; apply Nat.le_refl|]. vm_compute. reflexivity.
Qed.
Print Assumptions C16_dirty_adoption_refuted.

(* ---- instances ---- *)
(* a doubling growth policy, as libstdc++ uses for assign/resize beyond capacity *)
Definition ex_grow (c n : nat) : nat := Nat.max n (2 * c).
Example C16_grow_ex : forall c n, (n <= ex_grow c n)%nat.
Proof. intros c n. apply Nat.le_max_l. Qed.

(* a history over both variables: construction, writes, string hand-over, copy, growth, move, adoption with slack,
   shrinking, copy construction, self assignment, reallocating assign, clear *)
Definition ex_ops : list op :=
  [ OCtorN VA 4; OWrite VA 1 17%N; OWrite VA 3 99%N; OFromString VB [115; 101; 99]%N; OCopyAssign VA;
    OResize VA 6; OAssignString VB [1; 2; 3; 4; 5]%N; OMoveAssign VA; OAdopt VB [9; 8]%N [Fresh; Val 0];
    OResize VB 1; OCopyCtor VA; OSelfAssign VB; OAssignPtr VB [7; 7; 7; 7; 7; 7]%N; OResize VB 3; OWrite VB 0 200%N;
    OResize VB 5; OClear VA; OCtorN VA 2; OWrite VA 1 5%N ].
Example C16_history_ex :
  Forall op_adopts_clean ex_ops /\
  state_contents (fst (run ex_grow true init_state ex_ops)) = ([0; 5]%N, [200; 7; 7; 0; 0]%N) /\
  spec_run (state_contents init_state) ex_ops = ([0; 5]%N, [200; 7; 7; 0; 0]%N) /\
  fst (run ex_grow true init_state ex_ops) =
    {| sa := {| blk := [Val 0; Val 5]; sz := 2 |};
       sb := {| blk := [Val 200; Val 7; Val 7; Val 0; Val 0; Val 0; Fresh; Fresh]; sz := 5 |} |} /\
  frees (snd (run ex_grow true init_state ex_ops)) =
    [ [Val 0; Val 0; Val 0; Val 0]; [Val 0; Val 0; Val 0]; [Val 0; Val 0; Val 0; Val 0; Val 0; Val 0];
      [Val 0; Val 0; Val 0; Val 0; Val 0; Fresh]; [Val 0; Val 0; Fresh; Val 0]; [Val 0] ] /\
  forallb block_clean (frees (snd (run ex_grow true init_state ex_ops))) = true /\
  forallb block_clean (frees (destroy (fst (run ex_grow true init_state ex_ops)))) = true /\
  strings (snd (run ex_grow true init_state ex_ops)) = [([0; 0; 0]%N, true); ([0; 0; 0; 0; 0]%N, true)] /\
  (* the same history with the pinned resize: same contents, but the first release still holds "sec" *)
  state_contents (fst (run ex_grow false init_state ex_ops)) = ([0; 5]%N, [200; 7; 7; 0; 0]%N) /\
  hd [] (frees (snd (run ex_grow false init_state ex_ops))) = [Val 115; Val 101; Val 99; Val 0].
Proof. split; [repeat constructor|]. vm_compute. repeat split. Qed.

(* a non-initial state satisfying the invariant (live bytes, zeroed and fresh slack), and one that does not *)
Example C16_state_inv_ex :
  state_inv {| sa := {| blk := [Val 1; Val 2; Val 0; Fresh]; sz := 2 |}; sb := vempty |} /\
  ~ state_inv {| sa := {| blk := [Val 1; Val 2; Val 3; Fresh]; sz := 2 |}; sb := vempty |}.
Proof.
  split.
  - split; (split; [cbn; lia|split; reflexivity]).
  - intros [(_ & _ & H) _]. vm_compute in H. discriminate H.
Qed.
