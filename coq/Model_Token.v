(* Model_Token: generate_time_token / is_token_valid, with and without fingerprint (src/hmac_utils.cpp:323-392).
   time_t is Z in [-2^63, 2^63); interval_sec is an int; `now % interval_sec` truncates toward zero (Z.rem);
   std::to_string(time_t) is the decimal printer; the clock is a parameter (value, errno set). *)
From Coq Require Import String Ascii DecimalString Decimal.
From HV Require Import Base_Bytes Base_Result Spec_SHA Model_Hash Model_Hmac Model_CtEq Model_Otp.
Local Open Scope Z_scope.
Notation length := List.length.

Definition TMIN : Z := - 2 ^ 63.
Definition TMAX : Z := 2 ^ 63 - 1.

Definition codes_of_string (s : string) : list N := map N_of_ascii (list_ascii_of_string s).
Definition to_string (z : Z) : list N := codes_of_string (NilZero.string_of_int (Z.to_int z)).

Definition rounded (now interval : Z) : Z := now - Z.rem now interval.

Definition read_clock_token (c : clock) : res Z :=
  let '(now, errno_set) := c in
  if (now =? -1) && errno_set then Throw RuntimeError else Ok now.

(* payload: decimal interval start, joined to the fingerprint by '|' when one is given *)
Definition token_payload (fp : option (list N)) (start : Z) : list N :=
  to_string start ++ match fp with None => [] | Some f => 124%N :: f end.
(* get_hmac(key, payload, hash_type): is_hex = true, is_upper = false *)
Definition token_mac (t : hash_t) (key : list N) (payload : list N) : list N := get_hmac_str t key payload true false.

Definition generate_time_token (t : hash_t) (key : list N) (fp : option (list N)) (interval : Z) (c : clock) : res (list N) :=
  if interval <=? 0 then Throw InvalidArgument
  else bind (read_clock_token c) (fun now => Ok (token_mac t key (token_payload fp (rounded now interval)))).

Definition is_token_valid (t : hash_t) (token key : list N) (fp : option (list N)) (interval : Z) (c : clock) : res bool :=
  if interval <=? 0 then Throw InvalidArgument
  else bind (read_clock_token c) (fun now =>
    let r := rounded now interval in
    let mac x := token_mac t key (token_payload fp x) in
    if ct_equals token (mac r) then Ok true
    else if (TMIN + interval <=? r) && ct_equals token (mac (r - interval)) then Ok true
    else if (r <=? TMAX - interval) && ct_equals token (mac (r + interval)) then Ok true
    else Ok false).
