(* C19 - concurrent use on separate objects. PARTIAL: proved is that under the footprint the model assigns to a call (it reads the
   process-wide key, which is initialised at most once, and reads/writes only the calling thread's own objects) EVERY interleaving of
   the threads' calls gives each thread exactly the results it gets running alone.  That the C++ really has this footprint - no
   static scratch buffer, no unguarded lazy initialisation - and the absence of data races are observed with ThreadSanitizer and by
   comparing per-thread results of 16 concurrently running threads with the single-threaded model. *)
From HV Require Import Base_Bytes Base_Result Spec_SHA Model_Hash Model_SecretString Model_Conc Proofs_Conc.

Theorem C19_interleaving_invisible : forall (Obj Call Res Key : Type) (k0 : Key) (step : Key -> Obj -> Call -> Obj * Res)
  (sched : list (nat * Call)) (g : gstate Obj Key) (t : nat), key_ok Obj Key k0 g ->
  results_of Res t (snd (grun Obj Call Res Key k0 step g sched)) = alone Obj Call Res Key step k0 (g_objs Obj Key g t) (calls_of Call t sched).
Proof. exact interleaving_invisible. Qed.
Print Assumptions C19_interleaving_invisible.

(* an instance: threads owning a secret_string each (process key = the shared key) - per-thread reveals are schedule-independent *)
Definition ss_call_step (pk : list N) (s : sstate) (o : sop) : sstate * res (list N) :=
  let s' := ss_step pk s o in (s', ss_reveal pk s').
Theorem C19_secret_strings : forall pk sched g t, key_ok sstate (list N) pk g ->
  results_of (res (list N)) t (snd (grun sstate sop (res (list N)) (list N) pk ss_call_step g sched)) =
  alone sstate sop (res (list N)) (list N) ss_call_step pk (g_objs sstate (list N) g t) (calls_of sop t sched).
Proof. intros. now apply interleaving_invisible. Qed.
Print Assumptions C19_secret_strings.

Example C19_nonvacuous :
  let pk := repeat 7%N 32 in let n := repeat 1%N 12 in
  let sched := [(0%nat, SSet n [1;2;3]%N); (1%nat, SSet n [9]%N); (0%nat, SRotate (repeat 2%N 12)); (1%nat, SClear); (0%nat, SMoveOut)] in
  results_of _ 0%nat (snd (grun sstate sop _ _ pk ss_call_step {| g_key := None; g_objs := fun _ => ss_empty |} sched)) =
  [Ok [1;2;3]%N; Ok [1;2;3]%N; Ok []].
Proof. vm_compute. reflexivity. Qed.
