(* C14 - Base32: the encoder's output is the RFC 4648 section 6 encoding in upper case and decodes back to the input;
   the decoder accepts exactly the documented language (strict / lenient, padded / unpadded) and returns the RFC 4648 bytes. *)
From HV Require Import Base_Bytes Spec_Base32 Model_Base32 Proofs_Base32.
Local Open Scope N_scope.

(* every byte string, both padding choices: the output is the bit-level RFC 4648 Base32 text *)
Theorem C14_encode : forall (pad : bool) (d : list N), bytes_okb d = true ->
  base32_encode pad d = b32_spec_encode pad d.
Proof. exact base32_encode_spec. Qed.
Print Assumptions C14_encode.

(* every output character is A-Z, 2-7 or '=' (upper case only) *)
Theorem C14_alphabet : forall (pad : bool) (d : list N), bytes_okb d = true ->
  Forall (fun c => (65 <= c /\ c <= 90) \/ (50 <= c /\ c <= 55) \/ c = 61) (base32_encode pad d).
Proof. exact base32_encode_alphabet. Qed.
Print Assumptions C14_alphabet.

(* the decoder returns true exactly on the texts whose filtered form is in the documented language *)
Theorem C14_language : forall (req strict : bool) (s : list N), bytes_okb s = true ->
  ((exists d, base32_decode req strict s = Some d) <-> b32_lang req strict (b32_filter strict s)).
Proof. exact base32_decode_language. Qed.
Print Assumptions C14_language.

(* the language has an executable form *)
Theorem C14_langb_iff : forall (req strict : bool) (s : list N), b32_langb req strict s = true <-> b32_lang req strict s.
Proof. exact b32_langb_iff. Qed.
Print Assumptions C14_langb_iff.

(* accepted text decodes to the RFC 4648 bytes (leftover bits of the last symbol ignored) *)
Theorem C14_value : forall (req strict : bool) (s d : list N), bytes_okb s = true ->
  base32_decode req strict s = Some d -> d = b32_spec_value strict (b32_filter strict s).
Proof. exact base32_decode_value. Qed.
Print Assumptions C14_value.

(* decode (encode d) = d for every decoder mode that can accept the encoder's padding choice *)
Theorem C14_roundtrip : forall (pad req strict : bool) (d : list N), bytes_okb d = true ->
  (req = true -> pad = true \/ (length d mod 5 = 0)%nat) ->
  base32_decode req strict (base32_encode pad d) = Some d.
Proof. exact base32_roundtrip. Qed.
Print Assumptions C14_roundtrip.

(* whatever the input (no hypothesis on it), the decoded elements are bytes *)
Theorem C14_decoded_ok : forall (req strict : bool) (s d : list N),
  base32_decode req strict s = Some d -> bytes_okb d = true.
Proof. exact base32_decode_ok. Qed.
Print Assumptions C14_decoded_ok.

(* ---------- instances ---------- *)
(* RFC 4648 section 10: BASE32("foobar") = "MZXW6YTBOI======", BASE32("foob") = "MZXW6YQ=" *)
Example C14_encode_rfc4648 :
  bytes_okb [102; 111; 111; 98; 97; 114] = true /\
  base32_encode true [102; 111; 111; 98; 97; 114] = [77; 90; 88; 87; 54; 89; 84; 66; 79; 73; 61; 61; 61; 61; 61; 61] /\
  base32_encode true [102; 111; 111; 98] = [77; 90; 88; 87; 54; 89; 81; 61] /\
  base32_encode false [102; 111; 111; 98] = [77; 90; 88; 87; 54; 89; 81].
Proof. vm_compute. repeat split; reflexivity. Qed.

(* bytes >= 0x80 still give upper-case alphabet characters: BASE32(ff 80 00) = "76AAA===" *)
Example C14_alphabet_high_bytes :
  bytes_okb [255; 128; 0] = true /\ base32_encode true [255; 128; 0] = [55; 54; 65; 65; 65; 61; 61; 61].
Proof. vm_compute. split; reflexivity. Qed.

(* lenient mode accepts "mz xw\n6yq=" (lower case, space, LF); strict mode rejects it and accepts "MZXW6YQ=";
   "MZXW6YQ" is accepted only when padding is not required; "MZXW6Y==" (2 pads) and "MZ=W6YQ=" never *)
Example C14_language_instances :
  b32_langb false false (b32_filter false [109; 122; 32; 120; 119; 10; 54; 121; 113; 61]) = true /\
  b32_langb false true (b32_filter true [109; 122; 32; 120; 119; 10; 54; 121; 113; 61]) = false /\
  b32_langb true true [77; 90; 88; 87; 54; 89; 81; 61] = true /\
  b32_langb false true [77; 90; 88; 87; 54; 89; 81] = true /\
  b32_langb true true [77; 90; 88; 87; 54; 89; 81] = false /\
  b32_langb false false [77; 90; 88; 87; 54; 89; 61; 61] = false /\
  b32_langb false false [77; 90; 61; 87; 54; 89; 81; 61] = false.
Proof. vm_compute. repeat split; reflexivity. Qed.

Example C14_value_instance :
  base32_decode false false [109; 122; 32; 120; 119; 10; 54; 121; 113; 61] = Some [102; 111; 111; 98] /\
  b32_spec_value false (b32_filter false [109; 122; 32; 120; 119; 10; 54; 121; 113; 61]) = [102; 111; 111; 98] /\
  base32_decode false true [109; 122; 32; 120; 119; 10; 54; 121; 113; 61] = None /\
  (* non-canonical trailing bits are ignored: "MZ" and "MY" both decode to "f" *)
  base32_decode false true [77; 90] = Some [102] /\ base32_decode false true [77; 89] = Some [102].
Proof. vm_compute. repeat split; reflexivity. Qed.

(* unpadded output of a 5-byte input passes a decoder that requires padding; of a 4-byte input it does not
   (the side condition of C14_roundtrip is needed) *)
Example C14_roundtrip_instances :
  base32_decode true true (base32_encode false [102; 111; 111; 98; 97]) = Some [102; 111; 111; 98; 97] /\
  base32_decode true false (base32_encode true [102; 111; 111; 98]) = Some [102; 111; 111; 98] /\
  base32_decode true true (base32_encode false [102; 111; 111; 98]) = None.
Proof. vm_compute. repeat split; reflexivity. Qed.

Example C14_decoded_ok_instance :
  exists d, base32_decode false false [55; 55; 55; 55; 55; 55; 55; 55] = Some d /\ d = [255; 255; 255; 255; 255].
Proof. eexists. vm_compute. split; reflexivity. Qed.
