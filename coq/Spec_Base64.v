(* Spec_Base64: RFC 4648 sections 4 (base64) and 5 (base64url) at the bit level, and the documented
   decoding contract of hmac-cpp (which strings are accepted, and to which bytes they decode).
   Executable definitions only; nothing here mentions the model of the C++. *)
From HV Require Import Base_Bytes.
Local Open Scope N_scope.

(* ---------- bit strings, most significant bit first ---------- *)
(* the k low bits of v, most significant first *)
Fixpoint bits_of (k : nat) (v : N) : list bool :=
  match k with O => [] | S k' => N.testbit v (N.of_nat k') :: bits_of k' v end.
(* the number written by a bit string *)
Definition bits_val (bs : list bool) : N :=
  fold_left (fun acc (b : bool) => 2 * acc + (if b then 1 else 0)) bs 0.

(* cut into 6-bit groups; the last group is filled with zero bits on the right (RFC 4648 section 4) *)
Fixpoint sextets (bs : list bool) : list (list bool) :=
  match bs with
  | [] => []
  | b0 :: b1 :: b2 :: b3 :: b4 :: b5 :: rest => [b0; b1; b2; b3; b4; b5] :: sextets rest
  | last => [last ++ repeat false (6 - length last)]
  end.
(* the whole 8-bit groups of a bit string; left-over bits are dropped *)
Fixpoint octets (bs : list bool) : list N :=
  match bs with
  | b0 :: b1 :: b2 :: b3 :: b4 :: b5 :: b6 :: b7 :: rest => bits_val [b0; b1; b2; b3; b4; b5; b6; b7] :: octets rest
  | _ => []
  end.

(* ---------- the two alphabets (RFC 4648 table 1 and table 2) ---------- *)
(* k consecutive character codes starting at `from` *)
Fixpoint char_run (k : nat) (from : N) : list N :=
  match k with O => [] | S k' => from :: char_run k' (N.succ from) end.
(* 'A'..'Z' 'a'..'z' '0'..'9' then "+/" (standard) or "-_" (URL and filename safe) *)
Definition b64_spec_alphabet (url : bool) : list N :=
  char_run 26 65 ++ char_run 26 97 ++ char_run 10 48 ++ (if url then [45; 95] else [43; 47]).

(* ---------- encoding ---------- *)
Definition b64_spec_encode (url pad : bool) (data : list N) : list N :=
  let cs := map (fun g => nth (N.to_nat (bits_val g)) (b64_spec_alphabet url) 0)
                (sextets (flat_map (bits_of 8) data)) in
  cs ++ (if pad then repeat 61 ((4 - length cs mod 4) mod 4) else []).

(* ---------- decoding contract ---------- *)
(* lenient mode drops space, LF, CR, TAB before anything else *)
Definition b64_filter (strict : bool) (s : list N) : list N :=
  if strict then s else filter (fun c => negb ((c =? 32) || (c =? 10) || (c =? 13) || (c =? 9))) s.

(* a character that carries 6 bits: in the alphabet; under the URL alphabet in lenient mode also '+' and '/' *)
Definition b64_symbol (url strict : bool) (c : N) : Prop :=
  In c (b64_spec_alphabet url) \/ (url = true /\ strict = false /\ (c = 43 \/ c = 47)).
Definition b64_symbolb (url strict : bool) (c : N) : bool :=
  existsb (N.eqb c) (b64_spec_alphabet url) || (url && negb strict && ((c =? 43) || (c =? 47))).

(* the accepted (filtered) strings *)
Definition b64_lang (url require_padding strict : bool) (s : list N) : Prop :=
  exists body padding : list N,
    s = body ++ padding /\
    Forall (b64_symbol url strict) body /\
    (padding = [] \/ padding = [61] \/ padding = [61; 61]) /\
    (padding <> [] -> (length s mod 4 = 0)%nat) /\
    (length s mod 4 <> 1)%nat /\
    (require_padding = true -> (length s mod 4 = 0)%nat).

(* the same, decidable: try the three padding lengths *)
Definition b64_langb (url require_padding strict : bool) (s : list N) : bool :=
  let n := length s in
  existsb (fun k =>
             let body := firstn (n - k) s in
             let padding := skipn (n - k) s in
             forallb (b64_symbolb url strict) body &&
             forallb (N.eqb 61) padding && (length padding =? k)%nat &&
             ((k =? 0)%nat || (n mod 4 =? 0)%nat)) [0; 1; 2]%nat
  && negb (n mod 4 =? 1)%nat
  && (negb require_padding || (n mod 4 =? 0)%nat).

(* 6-bit value of a symbol: its position in the alphabet; '+' = 62 and '/' = 63 as aliases under URL lenient *)
Fixpoint index_of (c : N) (l : list N) (i : N) : option N :=
  match l with [] => None | x :: t => if c =? x then Some i else index_of c t (i + 1) end.
Definition b64_symbol_value (url strict : bool) (c : N) : option N :=
  if url && negb strict && (c =? 43) then Some 62
  else if url && negb strict && (c =? 47) then Some 63
  else index_of c (b64_spec_alphabet url) 0.

(* the bytes denoted by an accepted string: the 6-bit values of the body (the characters other than '=')
   concatenated, cut into whole bytes *)
Definition b64_spec_value (url strict : bool) (s : list N) : list N :=
  octets (flat_map (fun c => bits_of 6 (match b64_symbol_value url strict c with Some v => v | None => 0 end))
                   (filter (fun c => negb (c =? 61)) s)).
