(* Proofs_SecretString: the secret_string model (Model_SecretString.v) against the keystream specification.
   Layout:  1. specification-side definitions (KS, ss_run, ss_plain, ops_ok)
            2. the streaming-context HMACs of the model are RFC 2104 HMAC (hmac1_spec, hmac2_spec)
            3. xor_bytes algebra
            4. one generic block loop (gen_loop) and its closed form; the three C++ loops are instances
            5. set / reveal / rotate in closed form, the history invariant, exact recall
            6. tag comparison, tamper detection, temporary wiping *)
From HV Require Import Base_Bytes Base_BytesLemmas Base_Result Spec_SHA Spec_HMAC Model_Hash Model_Hmac Model_Kdf
  Proofs_Hash Proofs_Hmac Proofs_Otp Proofs_Kdf Model_SecretString.
Local Open Scope N_scope.
Ltac Zify.zify_post_hook ::= Z.to_euclidean_division_equations.

(* ------------------------------------------------------------------------------------------------ *)
(* 1. specification-side definitions                                                                *)
(* ------------------------------------------------------------------------------------------------ *)

(* B_i = HMAC(HMAC(pk, nonce), nonce || be32(i)) *)
Definition KS_block (pk nonce : list N) (i : nat) : list N :=
  HMAC_spec SHA256 (HMAC_spec SHA256 pk nonce) (nonce ++ be_bytes 4 (N.of_nat i)).
(* B_0 ++ B_1 ++ ... ++ B_(k-1) *)
Fixpoint KS_blocks (pk nonce : list N) (k : nat) : list N :=
  match k with O => [] | S k' => KS_blocks pk nonce k' ++ KS_block pk nonce k' end.
(* the first n bytes of the keystream: ceil(n/32) blocks of 32 bytes cover them *)
Definition KS (pk nonce : list N) (n : nat) : list N := firstn n (KS_blocks pk nonce ((n + 31) / 32)).

Definition ss_run (pk : list N) (s : sstate) (ops : list sop) : sstate := fold_left (ss_step pk) ops s.
Definition ss_plain (ops : list sop) : list N := fold_left ss_last ops [].

(* well-formed process key, nonce, plaintext, stored state, history *)
Definition pk_ok (pk : list N) : Prop := length pk = 32%nat /\ bytes_okb pk = true.
Definition nonce_okb (n : list N) : bool := (length n =? 12)%nat.
Definition plain_okb (p : list N) : bool := bytes_okb p && (N.of_nat (length p) <? 2 ^ 32 * 32).
Definition op_okb (o : sop) : bool :=
  match o with
  | SSet n p => nonce_okb n && plain_okb p
  | SRotate n => nonce_okb n
  | SClear => true
  | SMoveIn n p => nonce_okb n && plain_okb p
  | SMoveOut => true
  end.
Definition ops_ok (pk : list N) (ops : list sop) : Prop := pk_ok pk /\ forallb op_okb ops = true.
(* a stored representation as the C++ object can hold it: std::array<uint8_t,12>, std::array<uint8_t,32>, and a
   ciphertext short enough for the 32-bit block counter *)
Definition stored_ok (s : sstate) : Prop :=
  length (ss_nonce s) = 12%nat /\ length (ss_tag s) = 32%nat /\ N.of_nat (length (ss_ct s)) < 2 ^ 32 * 32.

(* ------------------------------------------------------------------------------------------------ *)
(* 2. the HMAC computations of the model are HMAC_spec                                              *)
(* ------------------------------------------------------------------------------------------------ *)

Lemma hmac1_spec k d : N.of_nat (length k) < 2 ^ 61 -> N.of_nat (length d) < 2 ^ 61 - 128 ->
  hmac1 k d = HMAC_spec SHA256 k d.
Proof.
  intros Hk Hd. unfold hmac1.
  exact (hmac_cycle_spec k Hk (hc_new SHA256) d (hc_new_shape SHA256) Hd).
Qed.

Lemma hmac2_spec k d1 d2 : N.of_nat (length k) < 2 ^ 61 -> N.of_nat (length (d1 ++ d2)) < 2 ^ 61 - 128 ->
  hmac2 k d1 d2 = HMAC_spec SHA256 k (d1 ++ d2).
Proof.
  intros Hk Hd. unfold hmac2.
  pose proof (hmac_stream_spec (hc_new SHA256) k [d1; d2] (hc_new_shape SHA256) Hk) as H.
  cbn [concat fold_left] in H. rewrite app_nil_r in H. apply H. exact Hd.
Qed.

Lemma hmac256_len k m : length (HMAC_spec SHA256 k m) = 32%nat.
Proof. apply (HMAC_spec_length SHA256). Qed.

Lemma small_lt_2_61 n : (n <= 64)%nat -> N.of_nat n < 2 ^ 61 - 128.
Proof. intros H. change (2 ^ 61) with 2305843009213693952. lia. Qed.
Lemma small_lt_2_61' n : (n <= 64)%nat -> N.of_nat n < 2 ^ 61.
Proof. intros H. change (2 ^ 61) with 2305843009213693952. lia. Qed.
Lemma msg_bound (nonce ct : list N) : length nonce = 12%nat -> N.of_nat (length ct) < 2 ^ 32 * 32 ->
  N.of_nat (length (nonce ++ ct)) < 2 ^ 61 - 128.
Proof.
  intros Hn Hc. rewrite app_length, Hn.
  change (2 ^ 61) with 2305843009213693952. change (2 ^ 32 * 32) with 137438953472 in Hc. lia.
Qed.

(* ------------------------------------------------------------------------------------------------ *)
(* 3. xor_bytes algebra                                                                             *)
(* ------------------------------------------------------------------------------------------------ *)

Lemma xor_bytes_nil_r a : xor_bytes a [] = [].
Proof. destruct a; reflexivity. Qed.

Lemma xor_bytes_len a : forall b, length (xor_bytes a b) = Nat.min (length a) (length b).
Proof.
  induction a as [|x a IH]; intros [|y b]; cbn [xor_bytes length Nat.min]; try reflexivity.
  now rewrite IH.
Qed.

(* only the first |a| bytes of the key stream matter *)
Lemma xor_bytes_firstn_r a : forall b, xor_bytes a b = xor_bytes a (firstn (length a) b).
Proof.
  induction a as [|x a IH]; intros [|y b]; cbn [xor_bytes length firstn]; try reflexivity.
  now rewrite <- IH.
Qed.

(* a key stream that starts with an n-byte block: the first n input bytes meet the block, the rest meets the rest *)
Lemma xor_bytes_split blk : forall n a rest, length blk = n ->
  xor_bytes a (blk ++ rest) = xor_bytes (firstn n a) blk ++ xor_bytes (skipn n a) rest.
Proof.
  induction blk as [|y blk IH]; intros n a rest Hn; cbn [length] in Hn; subst n.
  - cbn [firstn skipn app xor_bytes]. reflexivity.
  - destruct a as [|x a]; [reflexivity|].
    cbn [firstn skipn app xor_bytes]. f_equal. apply IH. reflexivity.
Qed.

Lemma xor_bytes_app2 a1 : forall a2 b1 b2, length a1 = length a2 ->
  xor_bytes (a1 ++ b1) (a2 ++ b2) = xor_bytes a1 a2 ++ xor_bytes b1 b2.
Proof.
  induction a1 as [|x a1 IH]; intros [|y a2] b1 b2 H; cbn [length] in H; try discriminate.
  - reflexivity.
  - cbn [app xor_bytes]. f_equal. apply IH. now injection H.
Qed.

Lemma lxor_rekey x a b : N.lxor (N.lxor x a) (N.lxor a b) = N.lxor x b.
Proof. now rewrite N.lxor_assoc, <- (N.lxor_assoc a a b), N.lxor_nilpotent, N.lxor_0_l. Qed.
Lemma lxor_invol x a : N.lxor (N.lxor x a) a = x.
Proof. now rewrite N.lxor_assoc, N.lxor_nilpotent, N.lxor_0_r. Qed.

(* (p xor s1) xor (s1 xor s2) = p xor s2 : re-keying a ciphertext without exposing the plaintext *)
Lemma xor_bytes_rekey p : forall s1 s2, (length p <= length s1)%nat ->
  xor_bytes (xor_bytes p s1) (xor_bytes s1 s2) = xor_bytes p s2.
Proof.
  induction p as [|x p IH]; intros s1 s2 H; [reflexivity|].
  destruct s1 as [|a s1]; [cbn [length] in H; lia|].
  destruct s2 as [|b s2]; [cbn [xor_bytes]; reflexivity|].
  cbn [xor_bytes]. rewrite lxor_rekey. f_equal. apply IH. cbn [length] in H. lia.
Qed.

(* decryption undoes encryption, for arbitrary N (no byte-range hypothesis) *)
Lemma xor_bytes_invol p : forall s, (length p <= length s)%nat -> xor_bytes (xor_bytes p s) s = p.
Proof.
  induction p as [|x p IH]; intros s H; [reflexivity|].
  destruct s as [|a s]; [cbn [length] in H; lia|].
  cbn [xor_bytes]. rewrite lxor_invol. f_equal. apply IH. cbn [length] in H. lia.
Qed.

(* ------------------------------------------------------------------------------------------------ *)
(* 4. the block loops                                                                               *)
(* ------------------------------------------------------------------------------------------------ *)

(* be32 of a (wrapped) uint32 counter *)
Lemma be_bytes4_mod c : be_bytes 4 (c mod 2 ^ 32) = be_bytes 4 c.
Proof.
  unfold be_bytes. f_equal. cbn [le_bytes]. change (2 ^ 32) with 4294967296.
  f_equal; [lia|]. f_equal; [lia|]. f_equal; [lia|]. f_equal. lia.
Qed.
Lemma be32_mod c : be32 (c mod 2 ^ 32) = be_bytes 4 c.
Proof. unfold be32. now rewrite !be_bytes4_mod. Qed.

Section Stream.
  Variable G : N -> list N.                       (* the ideal (unwrapped) block function *)
  Hypothesis G_len : forall c, length (G c) = 32%nat.

  (* G c ++ G (c+1) ++ ... (k blocks) *)
  Fixpoint stream (c : N) (k : nat) : list N :=
    match k with O => [] | S k' => G c ++ stream (c + 1) k' end.

  Lemma stream_length k : forall c, length (stream c k) = (32 * k)%nat.
  Proof.
    induction k as [|k IH]; intros c; [reflexivity|].
    cbn [stream]. rewrite app_length, G_len, IH. lia.
  Qed.

  Lemma stream_snoc k : forall c, stream c (S k) = stream c k ++ G (c + N.of_nat k).
  Proof.
    induction k as [|k IH]; intros c.
    - cbn [stream N.of_nat]. now rewrite N.add_0_r, app_nil_r.
    - change (stream c (S (S k))) with (G c ++ stream (c + 1) (S k)).
      rewrite IH. cbn [stream]. rewrite <- app_assoc. do 3 f_equal. lia.
  Qed.

  Variable g : N -> list N.                       (* the block function as the code calls it, on a uint32 counter *)
  Hypothesis g_mod : forall c, g (c mod 2 ^ 32) = G c.

  (* the common shape of the three C++ loops (in-place form: unprocessed bytes stay) *)
  Fixpoint gen_loop (fuel : nat) (ctr : N) (inp : list N) : list N :=
    match inp with
    | [] => []
    | _ => match fuel with
           | O => inp
           | S f => xor_bytes (firstn 32 inp) (g ctr) ++ gen_loop f ((ctr + 1) mod 2 ^ 32) (skipn 32 inp)
           end
    end.

  Lemma gen_loop_spec fuel : forall c inp k, (length inp <= fuel)%nat -> (length inp <= 32 * k)%nat ->
    gen_loop fuel (c mod 2 ^ 32) inp = xor_bytes inp (stream c k).
  Proof.
    induction fuel as [|fuel IH]; intros c inp k Hf Hk.
    - destruct inp; [reflexivity|cbn [length] in Hf; lia].
    - destruct inp as [|x inp]; [reflexivity|].
      destruct k as [|k]; [cbn [length] in Hk; lia|].
      cbn [gen_loop stream]. rewrite g_mod.
      rewrite (xor_bytes_split (G c) 32 (x :: inp) (stream (c + 1) k) (G_len c)).
      f_equal.
      replace ((c mod 2 ^ 32 + 1) mod 2 ^ 32) with ((c + 1) mod 2 ^ 32).
      2:{ change (2 ^ 32) with 4294967296. lia. }
      apply IH; rewrite skipn_length; cbn [length] in *; lia.
  Qed.
End Stream.

Lemma stream_xor G1 G2 k : (forall c, length (G1 c) = length (G2 c)) -> forall c,
  stream (fun c => xor_bytes (G1 c) (G2 c)) c k = xor_bytes (stream G1 c k) (stream G2 c k).
Proof.
  intros HL. induction k as [|k IH]; intros c; [reflexivity|].
  cbn [stream]. rewrite xor_bytes_app2 by apply HL. now rewrite IH.
Qed.

(* the three model loops are gen_loop *)
Lemma ks_inplace_is_gen sub nonce fuel : forall ctr buf,
  ks_inplace_loop fuel sub nonce ctr buf = gen_loop (ks_block sub nonce) fuel ctr buf.
Proof.
  induction fuel as [|f IH]; intros ctr buf; destruct buf as [|x buf]; try reflexivity.
  cbn [ks_inplace_loop gen_loop]. f_equal. apply IH.
Qed.
Lemma rotate_is_gen oldk newk n1 n2 fuel : forall ctr ct,
  rotate_loop fuel oldk newk n1 n2 ctr ct =
  gen_loop (fun c => xor_bytes (ks_block oldk n1 c) (ks_block newk n2 c)) fuel ctr ct.
Proof.
  induction fuel as [|f IH]; intros ctr ct; destruct ct as [|x ct]; try reflexivity.
  cbn [rotate_loop gen_loop]. f_equal. apply IH.
Qed.
Lemma ks_copy_is_gen sub nonce fuel : forall ctr inp, (length inp <= fuel)%nat ->
  ks_copy_loop fuel sub nonce ctr inp = gen_loop (ks_block sub nonce) fuel ctr inp.
Proof.
  induction fuel as [|f IH]; intros ctr inp H; destruct inp as [|x inp]; try reflexivity.
  - cbn [length] in H. lia.
  - cbn [ks_copy_loop gen_loop]. f_equal. apply IH. rewrite skipn_length. cbn [length] in *. lia.
Qed.

(* the ideal block function for a subkey: KB sub nonce c = HMAC(sub, nonce || be32 c) *)
Definition KB (sub nonce : list N) (c : N) : list N := HMAC_spec SHA256 sub (nonce ++ be_bytes 4 c).
Lemma KB_len sub nonce c : length (KB sub nonce c) = 32%nat.
Proof. apply hmac256_len. Qed.

Lemma ks_block_spec sub nonce c : length sub = 32%nat -> length nonce = 12%nat ->
  ks_block sub nonce (c mod 2 ^ 32) = KB sub nonce c.
Proof.
  intros Hs Hn. unfold ks_block, KB. rewrite be32_mod. apply hmac1_spec.
  - rewrite Hs. apply small_lt_2_61'. lia.
  - rewrite app_length, Hn, be_bytes_length. apply small_lt_2_61. lia.
Qed.

Definition nblk (n : nat) : nat := ((n + 31) / 32)%nat.
Lemma nblk_covers n : (n <= 32 * nblk n)%nat.
Proof.
  unfold nblk. pose proof (Nat.div_mod (n + 31) 32) as H. pose proof (Nat.mod_upper_bound (n + 31) 32) as H2.
  set (q := ((n + 31) / 32)%nat) in *. set (r := ((n + 31) mod 32)%nat) in *. lia.
Qed.

(* ONE lemma per loop *)
Lemma ks_copy_loop_spec sub nonce inp k : length sub = 32%nat -> length nonce = 12%nat -> (length inp <= 32 * k)%nat ->
  ks_copy_loop (length inp) sub nonce 0 inp = xor_bytes inp (stream (KB sub nonce) 0 k).
Proof.
  intros Hs Hn Hk. rewrite ks_copy_is_gen by apply Nat.le_refl.
  change 0 with (0 mod 2 ^ 32) at 1.
  apply (gen_loop_spec (KB sub nonce) (KB_len sub nonce) (ks_block sub nonce)); auto.
  intros c. now apply ks_block_spec.
Qed.
Lemma ks_inplace_loop_spec sub nonce buf k : length sub = 32%nat -> length nonce = 12%nat -> (length buf <= 32 * k)%nat ->
  ks_inplace_loop (length buf) sub nonce 0 buf = xor_bytes buf (stream (KB sub nonce) 0 k).
Proof.
  intros Hs Hn Hk. rewrite ks_inplace_is_gen.
  change 0 with (0 mod 2 ^ 32) at 1.
  apply (gen_loop_spec (KB sub nonce) (KB_len sub nonce) (ks_block sub nonce)); auto.
  intros c. now apply ks_block_spec.
Qed.
Lemma rotate_loop_spec oldk newk n1 n2 ct k :
  length oldk = 32%nat -> length newk = 32%nat -> length n1 = 12%nat -> length n2 = 12%nat -> (length ct <= 32 * k)%nat ->
  rotate_loop (length ct) oldk newk n1 n2 0 ct =
  xor_bytes ct (xor_bytes (stream (KB oldk n1) 0 k) (stream (KB newk n2) 0 k)).
Proof.
  intros Ho Hnw H1 H2 Hk. rewrite rotate_is_gen.
  change 0 with (0 mod 2 ^ 32) at 1.
  rewrite <- stream_xor by (intros c; now rewrite !KB_len).
  apply (gen_loop_spec (fun c => xor_bytes (KB oldk n1 c) (KB newk n2 c))); auto.
  - intros c. rewrite xor_bytes_len, !KB_len. reflexivity.
  - intros c. now rewrite !ks_block_spec.
Qed.

(* the spec keystream is the stream of ideal blocks under the subkey HMAC(pk, nonce) *)
Lemma KS_blocks_stream pk nonce k :
  KS_blocks pk nonce k = stream (KB (HMAC_spec SHA256 pk nonce) nonce) 0 k.
Proof.
  induction k as [|k IH]; [reflexivity|].
  rewrite stream_snoc by apply KB_len. cbn [KS_blocks]. rewrite IH, N.add_0_l. unfold KS_block, KB. reflexivity.
Qed.
(* the key stream for n bytes under (pk, nonce), as a whole number of blocks *)
Definition ST (pk nonce : list N) (n : nat) : list N := stream (KB (HMAC_spec SHA256 pk nonce) nonce) 0 (nblk n).
Lemma ST_length pk nonce n : length (ST pk nonce n) = (32 * nblk n)%nat.
Proof. unfold ST. apply stream_length. apply KB_len. Qed.
Lemma xor_KS pk nonce p : xor_bytes p (ST pk nonce (length p)) = xor_bytes p (KS pk nonce (length p)).
Proof. unfold ST, KS. fold (nblk (length p)). rewrite KS_blocks_stream. apply xor_bytes_firstn_r. Qed.
Lemma KS_length pk nonce n : length (KS pk nonce n) = n.
Proof.
  unfold KS. fold (nblk n). rewrite KS_blocks_stream, firstn_length, stream_length by apply KB_len.
  pose proof (nblk_covers n). lia.
Qed.

(* ------------------------------------------------------------------------------------------------ *)
(* 5. set / reveal / rotate in closed form                                                          *)
(* ------------------------------------------------------------------------------------------------ *)

Section WithKey.
  Variable pk : list N.
  Hypothesis Hpk : pk_ok pk.

  Lemma pk_bound : N.of_nat (length pk) < 2 ^ 61.
  Proof. destruct Hpk as [H _]. rewrite H. apply small_lt_2_61'. lia. Qed.

  Lemma hmac1_pk nonce : length nonce = 12%nat -> hmac1 pk nonce = HMAC_spec SHA256 pk nonce.
  Proof. intros Hn. apply hmac1_spec; [apply pk_bound|]. rewrite Hn. apply small_lt_2_61. lia. Qed.
  Lemma subkey_spec nonce : length nonce = 12%nat -> subkey_of pk nonce = HMAC_spec SHA256 pk nonce.
  Proof. exact (hmac1_pk nonce). Qed.

  Lemma copy_stream nonce p : length nonce = 12%nat -> xor_keystream_copy pk nonce p = xor_bytes p (ST pk nonce (length p)).
  Proof.
    intros Hn. unfold xor_keystream_copy, ST. rewrite subkey_spec by exact Hn.
    apply ks_copy_loop_spec; [apply hmac256_len|exact Hn|apply nblk_covers].
  Qed.
  Lemma copy_length nonce p : length nonce = 12%nat -> length (xor_keystream_copy pk nonce p) = length p.
  Proof.
    intros Hn. rewrite copy_stream by exact Hn. rewrite xor_bytes_len, ST_length.
    pose proof (nblk_covers (length p)). lia.
  Qed.
  Lemma inplace_stream nonce buf : length nonce = 12%nat ->
    xor_keystream_inplace_with_key buf nonce (subkey_of pk nonce) = xor_bytes buf (ST pk nonce (length buf)).
  Proof.
    intros Hn. unfold xor_keystream_inplace_with_key, ST. rewrite subkey_spec by exact Hn.
    apply ks_inplace_loop_spec; [apply hmac256_len|exact Hn|apply nblk_covers].
  Qed.

  (* the three keystream routines against the spec keystream KS *)
  Lemma xor_keystream_copy_spec nonce p : length nonce = 12%nat ->
    xor_keystream_copy pk nonce p = xor_bytes p (KS pk nonce (length p)).
  Proof. intros Hn. rewrite copy_stream by exact Hn. apply xor_KS. Qed.
  Lemma xor_keystream_inplace_spec nonce buf : length nonce = 12%nat ->
    xor_keystream_inplace_with_key buf nonce (subkey_of pk nonce) = xor_bytes buf (KS pk nonce (length buf)).
  Proof. intros Hn. rewrite inplace_stream by exact Hn. apply xor_KS. Qed.

  (* unfolding the `match ct with [] => ... | _ => ...` of the model once and for all *)
  Lemma ss_set_ne nonce p : p <> [] ->
    ss_set pk nonce p = {| ss_ct := xor_keystream_copy pk nonce p; ss_nonce := nonce;
                           ss_tag := hmac2 pk nonce (xor_keystream_copy pk nonce p) |}.
  Proof. intros H. destruct p; [contradiction|reflexivity]. Qed.
  Lemma ss_reveal_ne s : ss_ct s <> [] ->
    ss_reveal pk s =
      if negb (forallb (fun p => fst p =? snd p) (combine (ss_tag s) (hmac2 pk (ss_nonce s) (ss_ct s))))
      then Throw RuntimeError
      else Ok (xor_keystream_inplace_with_key (ss_ct s) (ss_nonce s) (subkey_of pk (ss_nonce s))).
  Proof. intros H. unfold ss_reveal. destruct (ss_ct s); [contradiction|reflexivity]. Qed.
  Lemma nonempty_length {A} (l : list A) : l <> [] <-> length l <> 0%nat.
  Proof. destruct l; cbn [length]; split; intros H; try congruence; lia. Qed.

  Lemma ss_set_ct nonce p : ss_ct (ss_set pk nonce p) = xor_keystream_copy pk nonce p.
  Proof. reflexivity. Qed.
  Lemma ss_set_nonce nonce p : ss_nonce (ss_set pk nonce p) = nonce.
  Proof. reflexivity. Qed.
  Lemma ss_set_ct_ne nonce p : length nonce = 12%nat -> p <> [] -> ss_ct (ss_set pk nonce p) <> [].
  Proof. intros Hn Hp. rewrite ss_set_ct. apply nonempty_length. rewrite copy_length by exact Hn. now apply nonempty_length. Qed.

  (* the tag comparison std::equal(tag.begin(), tag.end(), expected) on equally long lists *)
  Lemma tagcmp_eq a : forall b, length a = length b ->
    forallb (fun p : N * N => fst p =? snd p) (combine a b) = true <-> a = b.
  Proof.
    induction a as [|x a IH]; intros [|y b] H; cbn [length] in H; try discriminate.
    - split; reflexivity.
    - cbn [combine forallb fst snd]. rewrite andb_true_iff, N.eqb_eq, IH by now injection H.
      split; [intros [-> ->]; reflexivity|intros E; injection E; auto].
  Qed.
  Lemma tagcmp_refl a : forallb (fun p : N * N => fst p =? snd p) (combine a a) = true.
  Proof. now apply tagcmp_eq. Qed.

  Lemma ss_rotate_ne n2 s : ss_ct s <> [] ->
    forallb (fun p => fst p =? snd p) (combine (ss_tag s) (hmac2 pk (ss_nonce s) (ss_ct s))) = true ->
    ss_rotate pk n2 s =
      let ct' := rotate_loop (length (ss_ct s)) (hmac1 pk (ss_nonce s)) (hmac1 pk n2) (ss_nonce s) n2 0 (ss_ct s) in
      {| ss_ct := ct'; ss_nonce := n2; ss_tag := hmac2 pk n2 ct' |}.
  Proof. intros H Ht. unfold ss_rotate. destruct (ss_ct s); [contradiction|]. rewrite Ht. reflexivity. Qed.

  (* exact recall of what set stored *)
  Lemma reveal_set nonce p : length nonce = 12%nat -> ss_reveal pk (ss_set pk nonce p) = Ok p.
  Proof.
    intros Hn. destruct p as [|x p]; [reflexivity|].
    assert (Hp : x :: p <> []) by discriminate.
    rewrite ss_reveal_ne by (now apply ss_set_ct_ne).
    rewrite ss_set_ne by exact Hp. cbn [ss_ct ss_nonce ss_tag].
    rewrite tagcmp_refl. cbn [negb]. f_equal.
    rewrite inplace_stream by exact Hn. rewrite copy_length by exact Hn.
    rewrite copy_stream by exact Hn.
    apply xor_bytes_invol. rewrite ST_length. apply nblk_covers.
  Qed.

  (* nonce rotation of a non-empty string = storing the same plaintext under the new nonce *)
  Lemma rotate_set n1 n2 p : length n1 = 12%nat -> length n2 = 12%nat -> p <> [] ->
    ss_rotate pk n2 (ss_set pk n1 p) = ss_set pk n2 p.
  Proof.
    intros H1 H2 Hp.
    rewrite ss_rotate_ne; [|now apply ss_set_ct_ne|rewrite (ss_set_ne n1 p Hp); cbn [ss_ct ss_nonce ss_tag]; apply tagcmp_refl].
    rewrite (ss_set_ne n2 p Hp). rewrite ss_set_nonce, ss_set_ct. cbv zeta.
    assert (E : rotate_loop (length (xor_keystream_copy pk n1 p)) (hmac1 pk n1) (hmac1 pk n2) n1 n2 0
                  (xor_keystream_copy pk n1 p) = xor_keystream_copy pk n2 p).
    { rewrite (hmac1_pk n1 H1), (hmac1_pk n2 H2).
      rewrite (rotate_loop_spec _ _ n1 n2 _ (nblk (length p))); try assumption; try apply hmac256_len.
      2:{ rewrite copy_length by exact H1. apply nblk_covers. }
      rewrite (copy_stream n1), (copy_stream n2) by assumption.
      apply xor_bytes_rekey. rewrite stream_length by apply KB_len. apply nblk_covers. }
    rewrite E. reflexivity.
  Qed.
  (* ... and of an empty one a no-op (C++: if (ct_.empty()) return;) *)
  Lemma rotate_set_nil n1 n2 : ss_rotate pk n2 (ss_set pk n1 []) = ss_set pk n1 [].
  Proof. reflexivity. Qed.
  Lemma rotate_empty n2 : ss_rotate pk n2 ss_empty = ss_empty.
  Proof. reflexivity. Qed.

  (* the history invariant: the object is empty/moved-from/cleared, or is what set(plain) produces for some 12-byte nonce *)
  Definition Inv (s : sstate) (plain : list N) : Prop :=
    (s = ss_empty /\ plain = []) \/ (exists nonce, length nonce = 12%nat /\ s = ss_set pk nonce plain).

  Lemma step_inv s plain o : op_okb o = true -> Inv s plain -> Inv (ss_step pk s o) (ss_last plain o).
  Proof.
    intros Ho HI. destruct o as [n p|n| |n p| ]; cbn [ss_step ss_last op_okb] in *.
    - apply andb_true_iff in Ho. destruct Ho as [Hn _]. apply Nat.eqb_eq in Hn.
      right. exists n. split; [exact Hn|reflexivity].
    - apply Nat.eqb_eq in Ho.
      destruct HI as [[-> ->]|[n1 [H1 ->]]].
      + left. split; [apply rotate_empty|reflexivity].
      + destruct plain as [|x plain].
        * right. exists n1. split; [exact H1|apply rotate_set_nil].
        * right. exists n. split; [exact Ho|]. apply rotate_set; [exact H1|exact Ho|discriminate].
    - left. split; reflexivity.
    - apply andb_true_iff in Ho. destruct Ho as [Hn _]. apply Nat.eqb_eq in Hn.
      right. exists n. split; [exact Hn|reflexivity].
    - left. split; reflexivity.
  Qed.

  Lemma run_inv ops : forall s plain, forallb op_okb ops = true -> Inv s plain ->
    Inv (fold_left (ss_step pk) ops s) (fold_left ss_last ops plain).
  Proof.
    induction ops as [|o ops IH]; intros s plain Hok HI; [exact HI|].
    cbn [forallb] in Hok. apply andb_true_iff in Hok. destruct Hok as [Ho Hops].
    cbn [fold_left]. apply IH; [exact Hops|]. now apply step_inv.
  Qed.

  Lemma reveal_inv s plain : Inv s plain -> ss_reveal pk s = Ok plain.
  Proof.
    intros [[-> ->]|[n [Hn ->]]]; [reflexivity|]. now apply reveal_set.
  Qed.

  (* ---------- at rest ---------- *)
  Lemma set_at_rest nonce p : length nonce = 12%nat -> N.of_nat (length p) < 2 ^ 32 * 32 ->
    let s := ss_set pk nonce p in
    ss_ct s = xor_bytes p (KS pk nonce (length p)) /\
    ss_tag s = HMAC_spec SHA256 pk (nonce ++ ss_ct s) /\
    length (ss_ct s) = length p.
  Proof.
    intros Hn Hlen s. unfold s. rewrite ss_set_ct. split; [|split].
    - now apply xor_keystream_copy_spec.
    - destruct p as [|x p].
      + cbn [ss_set ss_tag]. change (xor_keystream_copy pk nonce []) with (@nil N). rewrite app_nil_r.
        apply hmac1_spec; [apply pk_bound|]. rewrite Hn. apply small_lt_2_61. lia.
      + cbn [ss_set ss_tag]. apply hmac2_spec; [apply pk_bound|].
        apply msg_bound; [exact Hn|]. now rewrite copy_length.
    - now apply copy_length.
  Qed.

  (* ---------- tamper detection ---------- *)
  Lemma expected_spec s : stored_ok s ->
    hmac2 pk (ss_nonce s) (ss_ct s) = HMAC_spec SHA256 pk (ss_nonce s ++ ss_ct s).
  Proof. intros (Hn & _ & Hc). apply hmac2_spec; [apply pk_bound|]. now apply msg_bound. Qed.

  (* the only way to an Ok result on a non-empty ciphertext is through the tag test *)
  Lemma reveal_guarded s d : stored_ok s -> ss_ct s <> [] -> ss_reveal pk s = Ok d ->
    ss_tag s = HMAC_spec SHA256 pk (ss_nonce s ++ ss_ct s).
  Proof.
    intros Hs Hne HR. rewrite ss_reveal_ne in HR by exact Hne. rewrite expected_spec in HR by exact Hs.
    destruct (forallb (fun p : N * N => fst p =? snd p) (combine (ss_tag s) (HMAC_spec SHA256 pk (ss_nonce s ++ ss_ct s)))) eqn:E;
      cbn [negb] in HR; [|discriminate].
    apply tagcmp_eq in E; [exact E|]. destruct Hs as (_ & Ht & _). now rewrite Ht, hmac256_len.
  Qed.

  Lemma reveal_bad_tag s : stored_ok s -> ss_ct s <> [] ->
    ss_tag s <> HMAC_spec SHA256 pk (ss_nonce s ++ ss_ct s) -> ss_reveal pk s = Throw RuntimeError.
  Proof.
    intros Hs Hne Hbad. rewrite ss_reveal_ne by exact Hne. rewrite expected_spec by exact Hs.
    destruct (forallb (fun p : N * N => fst p =? snd p) (combine (ss_tag s) (HMAC_spec SHA256 pk (ss_nonce s ++ ss_ct s)))) eqn:E;
      cbn [negb]; [|reflexivity].
    exfalso. apply Hbad. apply tagcmp_eq in E; [exact E|]. destruct Hs as (_ & Ht & _). now rewrite Ht, hmac256_len.
  Qed.

  Lemma tag_tamper s d tag' : stored_ok s -> ss_ct s <> [] -> ss_reveal pk s = Ok d ->
    length tag' = 32%nat -> tag' <> ss_tag s ->
    ss_reveal pk {| ss_ct := ss_ct s; ss_nonce := ss_nonce s; ss_tag := tag' |} = Throw RuntimeError.
  Proof.
    intros Hs Hne HR Hl Hdiff.
    pose proof (reveal_guarded s d Hs Hne HR) as Htag.
    destruct Hs as (Hn & Ht & Hc).
    apply reveal_bad_tag; cbn [ss_ct ss_nonce ss_tag]; [repeat split; assumption|exact Hne|].
    rewrite <- Htag. exact Hdiff.
  Qed.

  Lemma ct_nonce_tamper ct' nonce' tag : ct' <> [] -> length tag = 32%nat -> length nonce' = 12%nat ->
    N.of_nat (length ct') < 2 ^ 32 * 32 ->
    HMAC_spec SHA256 pk (nonce' ++ ct') <> tag ->
    ss_reveal pk {| ss_ct := ct'; ss_nonce := nonce'; ss_tag := tag |} = Throw RuntimeError.
  Proof.
    intros Hne Ht Hn Hc Hbad.
    apply reveal_bad_tag; cbn [ss_ct ss_nonce ss_tag]; [repeat split; assumption|exact Hne|].
    intros E. apply Hbad. now symmetry.
  Qed.
End WithKey.

(* ------------------------------------------------------------------------------------------------ *)
(* 6. final statements in the shape used by Properties_C18.v                                        *)
(* ------------------------------------------------------------------------------------------------ *)

Theorem recall pk ops : ops_ok pk ops -> ss_reveal pk (ss_run pk ss_empty ops) = Ok (ss_plain ops).
Proof.
  intros [Hpk Hops]. apply (reveal_inv pk Hpk). unfold ss_run, ss_plain.
  apply run_inv; [exact Hpk|exact Hops|]. left. split; reflexivity.
Qed.

(* recall from any reachable state, and the state reached is independent of everything but the last store *)
Theorem run_state pk ops : ops_ok pk ops ->
  (ss_run pk ss_empty ops = ss_empty /\ ss_plain ops = []) \/
  (exists nonce, length nonce = 12%nat /\ ss_run pk ss_empty ops = ss_set pk nonce (ss_plain ops)).
Proof.
  intros [Hpk Hops]. unfold ss_run, ss_plain.
  apply (run_inv pk Hpk ops ss_empty [] Hops). left. split; reflexivity.
Qed.

Theorem at_rest pk nonce p : pk_ok pk -> length nonce = 12%nat -> plain_okb p = true ->
  let s := ss_set pk nonce p in
  ss_ct s = xor_bytes p (KS pk nonce (length p)) /\
  ss_tag s = HMAC_spec SHA256 pk (nonce ++ ss_ct s) /\
  length (ss_ct s) = length p.
Proof.
  intros Hpk Hn Hp. apply andb_true_iff in Hp. destruct Hp as [_ Hlen]. apply N.ltb_lt in Hlen.
  now apply set_at_rest.
Qed.

Theorem at_rest_rotate pk n1 n2 p : pk_ok pk -> length n1 = 12%nat -> length n2 = 12%nat -> plain_okb p = true -> p <> [] ->
  let s := ss_rotate pk n2 (ss_set pk n1 p) in
  ss_ct s = xor_bytes p (KS pk n2 (length p)) /\
  ss_nonce s = n2 /\
  ss_tag s = HMAC_spec SHA256 pk (n2 ++ ss_ct s) /\
  length (ss_ct s) = length p.
Proof.
  intros Hpk H1 H2 Hp Hne s. unfold s. rewrite rotate_set by assumption.
  destruct (at_rest pk n2 p Hpk H2 Hp) as (A & B & C). repeat split; assumption.
Qed.

Theorem tmp_wiped cb_throws plain : wp_released_tmp true cb_throws plain = map (fun _ => 0) plain.
Proof. unfold wp_released_tmp. cbn [negb]. now rewrite andb_false_r. Qed.

Theorem tmp_pinned_refuted : exists plain, wp_released_tmp false true plain <> map (fun _ => 0) plain.
Proof. exists [1]. discriminate. Qed.

(* The rotation statement cannot be extended to the empty string with the NEW nonce: rotate_nonce() returns early on an
   empty ciphertext, so nonce and tag stay those of the old nonce (rotate_set_nil), and the tag is HMAC(pk, n1), not HMAC(pk, n2). *)
Theorem at_rest_rotate_nil_refuted : exists pk n1 n2, pk_ok pk /\ length n1 = 12%nat /\ length n2 = 12%nat /\
  let s := ss_rotate pk n2 (ss_set pk n1 []) in ss_tag s <> HMAC_spec SHA256 pk (n2 ++ ss_ct s).
Proof.
  exists (repeat 7 32), (repeat 1 12), (repeat 2 12).
  split; [split; reflexivity|]. split; [reflexivity|]. split; [reflexivity|].
  intros s H. apply (f_equal (fun l => nth 0 l 0)) in H. vm_compute in H. discriminate H.
Qed.
