(* The concrete SHA-256/512 context model (2B-byte array with stale bytes, uint64 counter) refines the
   abstract block-hash layer; hence, through Proofs_BlockHash, it computes the FIPS digest. *)
From HV Require Import Base_Bytes Base_BytesLemmas Spec_SHA Model_BlockHash Proofs_BlockHash Model_Sha2Ctx.
Local Open Scope N_scope.

Section Refine.
  Variable B LB wb : nat.
  Hypothesis HLB8 : (8 <= LB)%nat.
  Hypothesis HB : (LB + 1 <= B)%nat.
  Variable compress : list N -> list N -> list N.
  Variable IV : list N.
  Let len_field (n : nat) : list N := be_bytes LB (8 * N.of_nat n).
  Let thr := (B - LB - 1)%nat.

  Notation update2 := (update2 B compress).
  Notation finish2 := (finish2 B wb compress thr).
  Notation init2 := (init2 IV).
  Notation a_update := (a_update B compress).
  Notation a_finish := (a_finish B LB compress len_field).

  Definition shape2 (c : ctx2) : Prop := length (m_block c) = (2 * B)%nat.

  Definition R2 (c : ctx2) (a : actx) : Prop :=
    m_h c = a_h a /\ length (m_block c) = (2 * B)%nat /\ m_len c = length (a_buf a) /\
    firstn (m_len c) (m_block c) = a_buf a /\ m_tot c = N.of_nat (a_tot a) mod 2 ^ 64 /\
    (length (a_buf a) < B)%nat.

  Lemma R2_init c : shape2 c -> R2 (init2 c) (a_init IV).
  Proof.
    intros Hs. unfold R2, Model_Sha2Ctx.init2, a_init; cbn [m_h m_block m_len m_tot a_h a_buf a_tot length].
    repeat split; auto; lia.
  Qed.

  Lemma R2_update c a m : R2 c a -> R2 (update2 c m) (a_update a m).
  Proof.
    intros (Hh & Hlen & Hml & Hpre & Htot & Hlt).
    unfold Model_Sha2Ctx.update2, Model_BlockHash.a_update.
    rewrite <- Hml.
    set (ml := m_len c) in *.
    set (rem_len := if (length m <? B - ml)%nat then length m else (B - ml)%nat).
    assert (Hrem : rem_len = Nat.min (length m) (B - ml)).
    { unfold rem_len. destruct (Nat.ltb_spec (length m) (B - ml)); lia. }
    rewrite <- Hrem.
    set (blk := write_at (m_block c) ml (firstn rem_len m)).
    assert (Hfl : length (firstn rem_len m) = rem_len) by (rewrite firstn_length; lia).
    assert (Hblklen : length blk = (2 * B)%nat).
    { unfold blk. rewrite write_at_length; [exact Hlen|]. rewrite Hfl. lia. }
    assert (Hblkpre : firstn (ml + rem_len) blk = a_buf a ++ firstn rem_len m).
    { unfold blk. rewrite <- Hfl at 1. rewrite write_at_firstn by lia. now rewrite Hpre. }
    destruct (Nat.ltb_spec (ml + length m) B) as [Hs|Hs].
    - (* stays in the buffer *)
      assert (rem_len = length m) by lia.
      unfold R2; cbn [m_h m_block m_len m_tot a_h a_buf a_tot].
      repeat split; auto.
      + rewrite app_length, Hfl. lia.
      + replace (ml + length m)%nat with (ml + rem_len)%nat by lia. exact Hblkpre.
      + rewrite app_length, Hfl. lia.
    - assert (Hr : rem_len = (B - ml)%nat) by lia.
      set (new_len := (length m - rem_len)%nat).
      set (nb := (new_len / B)%nat).
      assert (HB0 : (0 < B)%nat) by lia.
      pose proof (Nat.mod_upper_bound new_len B ltac:(lia)) as Hub.
      pose proof (Nat.div_mod new_len B ltac:(lia)) as Hdm. fold nb in Hdm.
      set (tail := firstn (new_len mod B) (skipn (nb * B) (skipn rem_len m))).
      assert (Htl : length tail = (new_len mod B)%nat).
      { unfold tail. rewrite firstn_length, !skipn_length. unfold new_len in *. lia. }
      unfold R2; cbn [m_h m_block m_len m_tot a_h a_buf a_tot].
      repeat split.
      + unfold Model_Sha2Ctx.transform2, Model_BlockHash.transform. rewrite Hh.
        replace (1 * B)%nat with (ml + rem_len)%nat by lia. rewrite Hblkpre.
        rewrite (firstn_all2 (n := (ml + rem_len)%nat)); [reflexivity|].
        rewrite app_length, Hfl. lia.
      + rewrite write_at_length; [exact Hblklen|]. rewrite Htl. lia.
      + now rewrite Htl.
      + rewrite <- Htl at 1. change (length tail) with (0 + length tail)%nat.
        rewrite write_at_firstn by lia. reflexivity.
      + rewrite Htot. rewrite N.add_mod_idemp_l by discriminate.
        rewrite <- Nat2N.inj_add. reflexivity.
      + rewrite Htl. exact Hub.
  Qed.

  Lemma R2_updates cs : forall c a, R2 c a -> R2 (fold_left update2 cs c) (fold_left a_update cs a).
  Proof. induction cs as [|m cs IH]; intros c a H; cbn [fold_left]; [exact H|]. apply IH. now apply R2_update. Qed.

  (* the three array writes of finish() produce exactly the FIPS tail *)
  Lemma finish_writes blk ml pm lenb : (ml + 9 <= pm)%nat -> (pm <= length blk)%nat -> length lenb = 8%nat ->
    firstn pm (write_at (write_at (write_at blk ml (repeat 0 (pm - ml))) ml [128]) (pm - 8) lenb)
    = firstn ml blk ++ [128] ++ repeat 0 (pm - ml - 9) ++ lenb.
  Proof.
    intros H1 H2 H3.
    set (P := firstn ml blk). set (T := skipn pm blk).
    assert (HP : length P = ml) by (unfold P; rewrite firstn_length; lia).
    assert (E1 : write_at blk ml (repeat 0 (pm - ml)) = P ++ repeat 0 (pm - ml) ++ T).
    { unfold write_at. rewrite repeat_length. replace (ml + (pm - ml))%nat with pm by lia. reflexivity. }
    rewrite E1.
    replace ml with (length P + 0)%nat at 2 by lia.
    rewrite write_at_app_r.
    rewrite (write_at_app_l (repeat 0 (pm - ml)) T 0 [128]) by (rewrite repeat_length; cbn [length]; lia).
    rewrite (write_at_repeat 0 (pm - ml) 0 [128]) by (cbn [length]; lia). cbn [repeat app length].
    replace (pm - 8)%nat with (length P + (pm - ml - 8))%nat by lia.
    rewrite write_at_app_r.
    change (128 :: repeat 0 (pm - ml - 0 - 1) ++ T) with ([128] ++ (repeat 0 (pm - ml - 0 - 1) ++ T)).
    replace (pm - ml - 8)%nat with (length [128] + (pm - ml - 9))%nat by (cbn [length]; lia).
    rewrite (write_at_app_r [128]).
    rewrite (write_at_app_l (repeat 0 (pm - ml - 0 - 1)) T (pm - ml - 9) lenb) by (rewrite repeat_length, H3; lia).
    rewrite (write_at_repeat 0 (pm - ml - 0 - 1) (pm - ml - 9) lenb) by (rewrite H3; lia).
    replace (pm - ml - 0 - 1 - (pm - ml - 9) - length lenb)%nat with 0%nat by lia.
    cbn [repeat]. rewrite app_nil_r.
    set (X := P ++ [128] ++ repeat 0 (pm - ml - 9) ++ lenb).
    assert (HX : length X = pm).
    { unfold X. rewrite !app_length, repeat_length, HP, H3. cbn [length]. lia. }
    replace (P ++ [128] ++ (repeat 0 (pm - ml - 9) ++ lenb) ++ T) with (X ++ T)
      by (unfold X; rewrite <- !app_assoc; reflexivity).
    rewrite firstn_app, firstn_all2, HX, Nat.sub_diag by lia. cbn [firstn]. now rewrite app_nil_r.
  Qed.

  Lemma len_field_split n : N.of_nat n < 2 ^ 61 ->
    len_field n = repeat 0 (LB - 8) ++ be_bytes 8 (8 * N.of_nat n).
  Proof.
    intros H. unfold len_field. replace LB with ((LB - 8) + 8)%nat at 1 by lia.
    apply be_bytes_widen. change (256 ^ N.of_nat 8) with (8 * 2 ^ 61). lia.
  Qed.

  Lemma R2_finish c a : R2 c a -> N.of_nat (a_tot a + length (a_buf a)) < 2 ^ 61 ->
    snd (finish2 c) = words_bytes wb (a_finish thr a).
  Proof.
    intros (Hh & Hlen & Hml & Hpre & Htot & Hlt) Hbound.
    unfold Model_Sha2Ctx.finish2, Model_BlockHash.a_finish. cbn [snd]. f_equal.
    rewrite <- Hml in Hbound. rewrite <- Hml. set (ml := m_len c) in *.
    rewrite (Nat.mod_small ml B) by lia.
    set (nb := if (thr <? ml)%nat then 2%nat else 1%nat).
    assert (Hfit : (ml + 1 + LB <= nb * B)%nat /\ (nb * B <= 2 * B)%nat).
    { unfold nb, thr. destruct (Nat.ltb_spec (B - LB - 1) ml); lia. }
    destruct Hfit as [Hfit Hnb2].
    unfold Model_Sha2Ctx.transform2, Model_BlockHash.transform. rewrite Hh. f_equal. f_equal.
    rewrite finish_writes by (try rewrite be_bytes_length; lia).
    rewrite Hpre.
    assert (Elen : (m_tot c + N.of_nat ml) * 8 mod 2 ^ 64 = 8 * N.of_nat (a_tot a + ml)).
    { rewrite Htot. rewrite <- N.mul_mod_idemp_l by discriminate.
      rewrite N.add_mod_idemp_l by discriminate. rewrite N.mul_mod_idemp_l by discriminate.
      rewrite <- Nat2N.inj_add. rewrite N.mod_small; [lia|].
      change (2 ^ 64) with (8 * 2 ^ 61). lia. }
    rewrite Elen.
    rewrite len_field_split by exact Hbound.
    rewrite (firstn_all2 (n := (nb * B)%nat)).
    2:{ rewrite !app_length, !repeat_length, be_bytes_length. cbn [length]. lia. }
    f_equal. f_equal. rewrite app_assoc. f_equal. rewrite <- repeat_app. f_equal. lia.
  Qed.

  Lemma finish2_shape c a : R2 c a -> shape2 (fst (finish2 c)).
  Proof.
    intros (Hh & Hlen & Hml & Hpre & Htot & Hlt).
    unfold shape2, Model_Sha2Ctx.finish2. cbn [fst m_block].
    rewrite <- Hml in Hlt. set (ml := m_len c) in *.
    rewrite (Nat.mod_small ml B) by lia.
    set (nb := if (thr <? ml)%nat then 2%nat else 1%nat).
    assert (Hnb : (ml + 1 + LB <= nb * B)%nat /\ (nb * B <= 2 * B)%nat).
    { unfold nb, thr. destruct (Nat.ltb_spec (B - LB - 1) ml); lia. }
    destruct Hnb as [Hn1 Hn2].
    set (b1 := write_at (m_block c) ml (repeat 0 (nb * B - ml))).
    assert (L1 : length b1 = (2 * B)%nat).
    { unfold b1. rewrite write_at_length; [exact Hlen|]. rewrite repeat_length. lia. }
    set (b2 := write_at b1 ml [128]).
    assert (L2 : length b2 = (2 * B)%nat).
    { unfold b2. rewrite write_at_length; [exact L1|]. cbn [length]. lia. }
    rewrite write_at_length; [exact L2|]. rewrite be_bytes_length. lia.
  Qed.
  Lemma updates2_shape c cs : shape2 c -> shape2 (fold_left update2 cs (init2 c)).
  Proof. intros Hs. destruct (R2_updates cs _ _ (R2_init c Hs)) as (_ & H & _). exact H. Qed.
  Lemma cycle2_shape c cs : shape2 c -> shape2 (fst (finish2 (fold_left update2 cs (init2 c)))).
  Proof. intros Hs. apply (finish2_shape _ _ (R2_updates cs _ _ (R2_init c Hs))). Qed.

  (* every history on one object: initialise (whatever the object held), feed chunks, finish *)
  Theorem sha2_chunked_correct c cs : shape2 c -> N.of_nat (length (concat cs)) < 2 ^ 61 ->
    snd (finish2 (fold_left update2 cs (init2 c))) =
    words_bytes wb (hash_spec B LB compress IV len_field (concat cs)).
  Proof.
    intros Hs Hb.
    assert (HB0 : (0 < B)%nat) by lia.
    assert (Hlf : forall n, length (len_field n) = LB) by (intros; apply be_bytes_length).
    pose proof (R2_updates cs _ _ (R2_init c Hs)) as HR.
    pose proof (AInv_updates B LB HB HB0 compress IV cs _ _ (AInv_init B LB HB HB0 compress IV)) as HI.
    cbn [app] in HI.
    rewrite (R2_finish _ _ HR).
    - f_equal. apply (a_finish_spec B LB HB HB0 compress IV len_field Hlf). exact HI.
    - destruct HI as (_ & Ht & Hle & _). rewrite Ht.
      replace (length (concat cs) - length (a_buf (fold_left a_update cs (a_init IV))) +
               length (a_buf (fold_left a_update cs (a_init IV))))%nat with (length (concat cs)) by lia.
      exact Hb.
  Qed.
End Refine.
