From HV Require Import Base_Bytes Base_Result Spec_SHA Spec_HMAC Model_SecureBuffer Proofs_SecureBuffer Model_SecretString Proofs_SecretString Model_Oom.
Local Open Scope N_scope.

Lemma map_cell_byte_zeros n : map cell_byte (zeros n) = repeat 0 n.
Proof. unfold zeros. induction n as [|n IH]; [reflexivity|]. cbn [repeat map cell_byte]. now rewrite IH. Qed.
Lemma zeros_length n : length (zeros n) = n. Proof. apply repeat_length. Qed.
Lemma live_wipe v : live (wipe v) = zeros (sz v).
Proof.
  unfold live, wipe. cbn [blk sz].
  rewrite firstn_app, zeros_length, Nat.sub_diag. cbn [firstn]. rewrite app_nil_r.
  apply firstn_all2. rewrite zeros_length. lia.
Qed.
Lemma contents_wipe v : contents (wipe v) = repeat 0 (sz v).
Proof. unfold contents. rewrite live_wipe. apply map_cell_byte_zeros. Qed.

Lemma get_put_same s x v : get (put s x v) x = v. Proof. destruct x; reflexivity. Qed.
Lemma get_put_other s x v : get (put s x v) (other x) = get s (other x). Proof. destruct x; reflexivity. Qed.

Definition op_target (o : op) : option var :=
  match o with OCopyAssign x | OAssignPtr x _ | OAssignString x _ => Some x | _ => None end.

(* after a failed allocation: the buffer assigned to holds zeros of its old size (or nothing changed at all), the other
   variable is untouched, and the invariant of C16 (size <= capacity, clean slack) still holds *)
Theorem sb_oom_state s o : state_inv s ->
  state_inv (step_oom s o) /\
  match op_target o with
  | Some x => contents (get (step_oom s o) x) = repeat 0 (length (contents (get s x))) /\ get (step_oom s o) (other x) = get s (other x)
  | None => step_oom s o = s
  end.
Proof.
  intros [Ha Hb].
  assert (Hw : forall v, vec_inv v -> vec_inv (wipe v) /\ contents (wipe v) = repeat 0 (length (contents v))).
  { intros v Hv. pose proof Hv as (Hle & Hval & Hcl). split.
    - unfold vec_inv. rewrite live_wipe. unfold cap, wipe in *. cbn [blk sz].
      repeat split.
      + rewrite app_length, zeros_length, skipn_length. lia.
      + unfold zeros. clear. induction (sz v); cbn; auto.
      + rewrite skipn_app, zeros_length, Nat.sub_diag. cbn [skipn].
        rewrite skipn_all2 by (rewrite zeros_length; lia). cbn [app]. exact Hcl.
    - rewrite contents_wipe. f_equal. unfold contents, live. rewrite map_length, firstn_length. unfold cap in Hle. lia. }
  destruct o as [x n|x d sl|x str|x|x|x|x|x n|x|x d|x str|x i b]; cbn [step_oom op_target];
    try (split; [split; assumption|reflexivity]).
  all: destruct x; cbn [put get other]; destruct (Hw _ Ha) as [Wa Ca]; destruct (Hw _ Hb) as [Wb Cb];
    (split; [split; assumption|split; [assumption|reflexivity]]).
Qed.

(* secret_string::set: whatever fails, the object still reveals what it revealed before *)
Theorem ss_set_oom_recall pk s : ss_reveal pk (ss_set_oom s) = ss_reveal pk s.
Proof. reflexivity. Qed.
