(* Proofs_Base32: base32_encode = RFC 4648 section 6, the decoder's language and value, round trip. *)
From HV Require Import Base_Bytes Base_BytesLemmas Spec_Base32 Model_Base32.
Local Open Scope N_scope.

(* ---------- exhaustive sweeps over small ranges, lifted to forall ---------- *)
Definition range (n : N) : list N := map N.of_nat (seq 0 (N.to_nat n)).
Lemma range_in n x : x < n -> In x (range n).
Proof.
  intros H. unfold range. apply in_map_iff. exists (N.to_nat x). split; [apply N2Nat.id|]. apply in_seq. lia.
Qed.
Definition all1 (n : N) (p : N -> bool) : bool := forallb p (range n).
Definition all2 (n : N) (p : N -> N -> bool) : bool := forallb (fun a => forallb (p a) (range n)) (range n).
Definition all3 (n : N) (p : N -> N -> N -> bool) : bool :=
  forallb (fun a => forallb (fun b => forallb (p a b) (range n)) (range n)) (range n).
Lemma all1_spec n p : all1 n p = true -> forall x, x < n -> p x = true.
Proof. intros H x Hx. unfold all1 in H. rewrite forallb_forall in H. apply H. now apply range_in. Qed.
Lemma all2_spec n p : all2 n p = true -> forall x y, x < n -> y < n -> p x y = true.
Proof.
  intros H x y Hx Hy. unfold all2 in H. rewrite forallb_forall in H.
  specialize (H x (range_in n x Hx)). rewrite forallb_forall in H. apply H. now apply range_in.
Qed.
Lemma all3_spec n p : all3 n p = true -> forall x y z, x < n -> y < n -> z < n -> p x y z = true.
Proof.
  intros H x y z Hx Hy Hz. unfold all3 in H. rewrite forallb_forall in H.
  specialize (H x (range_in n x Hx)). rewrite forallb_forall in H.
  specialize (H y (range_in n y Hy)). rewrite forallb_forall in H. apply H. now apply range_in.
Qed.

(* ---------- induction k elements at a time ---------- *)
Lemma list_ind5 {A} (P : list A -> Prop) :
  (forall l, (length l < 5)%nat -> P l) ->
  (forall a b c d e l, P l -> P (a :: b :: c :: d :: e :: l)) -> forall l, P l.
Proof.
  intros Hs Hc. fix IH 1. intros l.
  destruct l as [|a [|b [|c [|d [|e l']]]]]; try (apply Hs; cbn; lia).
  apply Hc. apply IH.
Qed.
Lemma list_ind8 {A} (P : list A -> Prop) :
  (forall l, (length l < 8)%nat -> P l) ->
  (forall a b c d e f g h l, P l -> P (a :: b :: c :: d :: e :: f :: g :: h :: l)) -> forall l, P l.
Proof.
  intros Hs Hc. fix IH 1. intros l.
  destruct l as [|a [|b [|c [|d [|e [|f [|g [|h l']]]]]]]]; try (apply Hs; cbn; lia).
  apply Hc. apply IH.
Qed.

(* a list of known length as an explicit list *)
Ltac destr_len l H :=
  repeat (destruct l as [|? l]; [discriminate H|cbn [length] in H; apply Nat.succ_inj in H]);
  destruct l; [|discriminate H]; clear H.

Lemma bits_be_length w v : length (bits_be w v) = w.
Proof. induction w as [|w IH]; cbn [bits_be length]; congruence. Qed.

Lemma bytes_okb_cons b l : bytes_okb (b :: l) = true <-> b < 256 /\ bytes_okb l = true.
Proof.
  cbn [bytes_okb forallb]. fold (bytes_okb l). rewrite andb_true_iff. unfold byte_okb. now rewrite N.ltb_lt.
Qed.

Lemma chunks_cons5 {A} (a b c d e : A) l : chunks 5 (a :: b :: c :: d :: e :: l) = [a; b; c; d; e] :: chunks 5 l.
Proof. apply (chunks_app_block 5 [a; b; c; d; e] l); [lia|reflexivity]. Qed.
Lemma chunks_cons8 {A} (a b c d e f g h : A) l :
  chunks 8 (a :: b :: c :: d :: e :: f :: g :: h :: l) = [a; b; c; d; e; f; g; h] :: chunks 8 l.
Proof. apply (chunks_app_block 8 [a; b; c; d; e; f; g; h] l); [lia|reflexivity]. Qed.

(* ====================== encoder ====================== *)
Definition sym_of (g : list bool) : N := b32_char_of (bits_val (g ++ repeat false (5 - length g))).
Definition spec_syms (data : list N) : list N := map sym_of (chunks 5 (flat_map (bits_be 8) data)).
Lemma spec_encode_unfold pad data :
  b32_spec_encode pad data =
  spec_syms data ++ (if pad then repeat 61 ((8 - length (spec_syms data) mod 8) mod 8)%nat else []).
Proof. reflexivity. Qed.

(* where the 5-bit groups of 1..5 bytes lie *)
Section Groups5.
  Context {A : Type}.
  Definition g0 (l0 : list A) := firstn 5 l0.
  Definition g1 (l0 l1 : list A) := skipn 5 l0 ++ firstn 2 l1.
  Definition g2 (l1 : list A) := firstn 5 (skipn 2 l1).
  Definition g3 (l1 l2 : list A) := skipn 7 l1 ++ firstn 4 l2.
  Definition g4 (l2 l3 : list A) := skipn 4 l2 ++ firstn 1 l3.
  Definition g5 (l3 : list A) := firstn 5 (skipn 1 l3).
  Definition g6 (l3 l4 : list A) := skipn 6 l3 ++ firstn 3 l4.
  Definition g7 (l4 : list A) := skipn 3 l4.
  Lemma chunks5_40 (l0 l1 l2 l3 l4 rest : list A) :
    length l0 = 8%nat -> length l1 = 8%nat -> length l2 = 8%nat -> length l3 = 8%nat -> length l4 = 8%nat ->
    chunks 5 (l0 ++ l1 ++ l2 ++ l3 ++ l4 ++ rest) =
    [g0 l0; g1 l0 l1; g2 l1; g3 l1 l2; g4 l2 l3; g5 l3; g6 l3 l4; g7 l4] ++ chunks 5 rest.
  Proof.
    intros H0 H1 H2 H3 H4. unfold g0, g1, g2, g3, g4, g5, g6, g7.
    destr_len l0 H0. destr_len l1 H1. destr_len l2 H2. destr_len l3 H3. destr_len l4 H4.
    cbn [app]. rewrite !chunks_cons5. reflexivity.
  Qed.
  Lemma chunks5_8 (l0 : list A) : length l0 = 8%nat -> chunks 5 (l0 ++ []) = [g0 l0; skipn 5 l0].
  Proof. intros H0. unfold g0. destr_len l0 H0. reflexivity. Qed.
  Lemma chunks5_16 (l0 l1 : list A) : length l0 = 8%nat -> length l1 = 8%nat ->
    chunks 5 (l0 ++ l1 ++ []) = [g0 l0; g1 l0 l1; g2 l1; skipn 7 l1].
  Proof. intros H0 H1. unfold g0, g1, g2. destr_len l0 H0. destr_len l1 H1. reflexivity. Qed.
  Lemma chunks5_24 (l0 l1 l2 : list A) : length l0 = 8%nat -> length l1 = 8%nat -> length l2 = 8%nat ->
    chunks 5 (l0 ++ l1 ++ l2 ++ []) = [g0 l0; g1 l0 l1; g2 l1; g3 l1 l2; skipn 4 l2].
  Proof. intros H0 H1 H2. unfold g0, g1, g2, g3. destr_len l0 H0. destr_len l1 H1. destr_len l2 H2. reflexivity. Qed.
  Lemma chunks5_32 (l0 l1 l2 l3 : list A) :
    length l0 = 8%nat -> length l1 = 8%nat -> length l2 = 8%nat -> length l3 = 8%nat ->
    chunks 5 (l0 ++ l1 ++ l2 ++ l3 ++ []) = [g0 l0; g1 l0 l1; g2 l1; g3 l1 l2; g4 l2 l3; g5 l3; skipn 6 l3].
  Proof.
    intros H0 H1 H2 H3. unfold g0, g1, g2, g3, g4, g5.
    destr_len l0 H0. destr_len l1 H1. destr_len l2 H2. destr_len l3 H3. reflexivity.
  Qed.
End Groups5.

(* every output symbol of the code is the alphabet character of its 5-bit group: one sweep per expression *)
Ltac sweep1 := intros b Hb; apply N.eqb_eq; revert b Hb;
  match goal with |- forall b, b < ?n -> ?p = true => apply (all1_spec n (fun b => p)) end; vm_compute; reflexivity.
Ltac sweep2 := intros a b Ha Hb; apply N.eqb_eq; revert a b Ha Hb;
  match goal with |- forall a b, a < ?n -> b < ?n -> ?p = true => apply (all2_spec n (fun a b => p)) end; vm_compute; reflexivity.

Lemma sym0_ok b0 : b0 < 256 -> sym_of (g0 (bits_be 8 b0)) = enc_s0 b0.
Proof. revert b0. sweep1. Qed.
Lemma sym1_ok b0 b1 : b0 < 256 -> b1 < 256 -> sym_of (g1 (bits_be 8 b0) (bits_be 8 b1)) = enc_s1 b0 b1.
Proof. revert b0 b1. sweep2. Qed.
Lemma sym2_ok b1 : b1 < 256 -> sym_of (g2 (bits_be 8 b1)) = enc_s2 b1.
Proof. revert b1. sweep1. Qed.
Lemma sym3_ok b1 b2 : b1 < 256 -> b2 < 256 -> sym_of (g3 (bits_be 8 b1) (bits_be 8 b2)) = enc_s3 b1 b2.
Proof. revert b1 b2. sweep2. Qed.
Lemma sym4_ok b2 b3 : b2 < 256 -> b3 < 256 -> sym_of (g4 (bits_be 8 b2) (bits_be 8 b3)) = enc_s4 b2 b3.
Proof. revert b2 b3. sweep2. Qed.
Lemma sym5_ok b3 : b3 < 256 -> sym_of (g5 (bits_be 8 b3)) = enc_s5 b3.
Proof. revert b3. sweep1. Qed.
Lemma sym6_ok b3 b4 : b3 < 256 -> b4 < 256 -> sym_of (g6 (bits_be 8 b3) (bits_be 8 b4)) = enc_s6 b3 b4.
Proof. revert b3 b4. sweep2. Qed.
Lemma sym7_ok b4 : b4 < 256 -> sym_of (g7 (bits_be 8 b4)) = enc_s7 b4.
Proof. revert b4. sweep1. Qed.
(* the zero-filled last groups of the four tails *)
Lemma symt1_ok b0 : b0 < 256 -> sym_of (skipn 5 (bits_be 8 b0)) = enc_t1 b0.
Proof. revert b0. sweep1. Qed.
Lemma symt3_ok b1 : b1 < 256 -> sym_of (skipn 7 (bits_be 8 b1)) = enc_t3 b1.
Proof. revert b1. sweep1. Qed.
Lemma symt4_ok b2 : b2 < 256 -> sym_of (skipn 4 (bits_be 8 b2)) = enc_t4 b2.
Proof. revert b2. sweep1. Qed.
Lemma symt6_ok b3 : b3 < 256 -> sym_of (skipn 6 (bits_be 8 b3)) = enc_t6 b3.
Proof. revert b3. sweep1. Qed.
Lemma spec_syms_step b0 b1 b2 b3 b4 rest : b0 < 256 -> b1 < 256 -> b2 < 256 -> b3 < 256 -> b4 < 256 ->
  spec_syms (b0 :: b1 :: b2 :: b3 :: b4 :: rest) =
  [enc_s0 b0; enc_s1 b0 b1; enc_s2 b1; enc_s3 b1 b2; enc_s4 b2 b3; enc_s5 b3; enc_s6 b3 b4; enc_s7 b4] ++ spec_syms rest.
Proof.
  intros H0 H1 H2 H3 H4. unfold spec_syms. cbn [flat_map].
  rewrite chunks5_40 by apply bits_be_length. rewrite map_app. cbn [map].
  now rewrite sym0_ok, sym1_ok, sym2_ok, sym3_ok, sym4_ok, sym5_ok, sym6_ok, sym7_ok by assumption.
Qed.

Lemma enc_loop_spec pad d : bytes_okb d = true -> b32_enc_loop pad d = b32_spec_encode pad d.
Proof.
  induction d as [d Hlen|b0 b1 b2 b3 b4 d IH] using list_ind5; intros Hok.
  - destruct d as [|b0 [|b1 [|b2 [|b3 [|b4 d]]]]]; [| | | | |cbn in Hlen; lia]; clear Hlen;
      repeat (apply bytes_okb_cons in Hok; destruct Hok as [? Hok]); rewrite spec_encode_unfold; unfold spec_syms; cbn [flat_map].
    + destruct pad; reflexivity.
    + rewrite chunks5_8 by apply bits_be_length. cbn [map]. rewrite sym0_ok, symt1_ok by assumption.
      destruct pad; reflexivity.
    + rewrite chunks5_16 by apply bits_be_length. cbn [map].
      rewrite sym0_ok, sym1_ok, sym2_ok, symt3_ok by assumption. destruct pad; reflexivity.
    + rewrite chunks5_24 by apply bits_be_length. cbn [map].
      rewrite sym0_ok, sym1_ok, sym2_ok, sym3_ok, symt4_ok by assumption. destruct pad; reflexivity.
    + rewrite chunks5_32 by apply bits_be_length. cbn [map].
      rewrite sym0_ok, sym1_ok, sym2_ok, sym3_ok, sym4_ok, sym5_ok, symt6_ok by assumption. destruct pad; reflexivity.
  - do 5 (apply bytes_okb_cons in Hok; destruct Hok as [? Hok]).
    rewrite spec_encode_unfold, spec_syms_step by assumption.
    cbn [b32_enc_loop]. rewrite (IH Hok), spec_encode_unfold.
    rewrite app_length. cbn [length app].
    replace ((8 + length (spec_syms d)) mod 8)%nat with (length (spec_syms d) mod 8)%nat; [reflexivity|].
    replace (8 + length (spec_syms d))%nat with (length (spec_syms d) + 1 * 8)%nat by lia.
    now rewrite Nat.mod_add by discriminate.
Qed.

Theorem base32_encode_spec pad d : bytes_okb d = true -> base32_encode pad d = b32_spec_encode pad d.
Proof.
  intros H. unfold base32_encode. destruct d as [|b d]; [destruct pad; reflexivity|]. cbn [is_nil]. now apply enc_loop_spec.
Qed.
(* ---------- the output alphabet ---------- *)
Ltac sweepb1 := intros b Hb; revert b Hb;
  match goal with |- forall b, b < ?n -> ?p = true => apply (all1_spec n (fun b => p)) end; vm_compute; reflexivity.
Ltac sweepb2 := intros a b Ha Hb; revert a b Ha Hb;
  match goal with |- forall a b, a < ?n -> b < ?n -> ?p = true => apply (all2_spec n (fun a b => p)) end; vm_compute; reflexivity.

Lemma s0_char b0 : b0 < 256 -> b32_is_char true (enc_s0 b0) = true. Proof. revert b0. sweepb1. Qed.
Lemma s1_char b0 b1 : b0 < 256 -> b1 < 256 -> b32_is_char true (enc_s1 b0 b1) = true. Proof. revert b0 b1. sweepb2. Qed.
Lemma s2_char b1 : b1 < 256 -> b32_is_char true (enc_s2 b1) = true. Proof. revert b1. sweepb1. Qed.
Lemma s3_char b1 b2 : b1 < 256 -> b2 < 256 -> b32_is_char true (enc_s3 b1 b2) = true. Proof. revert b1 b2. sweepb2. Qed.
Lemma s4_char b2 b3 : b2 < 256 -> b3 < 256 -> b32_is_char true (enc_s4 b2 b3) = true. Proof. revert b2 b3. sweepb2. Qed.
Lemma s5_char b3 : b3 < 256 -> b32_is_char true (enc_s5 b3) = true. Proof. revert b3. sweepb1. Qed.
Lemma s6_char b3 b4 : b3 < 256 -> b4 < 256 -> b32_is_char true (enc_s6 b3 b4) = true. Proof. revert b3 b4. sweepb2. Qed.
Lemma s7_char b4 : b4 < 256 -> b32_is_char true (enc_s7 b4) = true. Proof. revert b4. sweepb1. Qed.
Lemma t1_char b0 : b0 < 256 -> b32_is_char true (enc_t1 b0) = true. Proof. revert b0. sweepb1. Qed.
Lemma t3_char b1 : b1 < 256 -> b32_is_char true (enc_t3 b1) = true. Proof. revert b1. sweepb1. Qed.
Lemma t4_char b2 : b2 < 256 -> b32_is_char true (enc_t4 b2) = true. Proof. revert b2. sweepb1. Qed.
Lemma t6_char b3 : b3 < 256 -> b32_is_char true (enc_t6 b3) = true. Proof. revert b3. sweepb1. Qed.

(* upper-case alphabet character or '=' *)
Definition out_char (c : N) : Prop := b32_is_char true c = true \/ c = 61.
Lemma Forall_pad61 k : Forall out_char (repeat 61 k).
Proof. induction k; cbn [repeat]; constructor; [now right|assumption]. Qed.

Lemma enc_loop_unfold pad b0 b1 b2 b3 b4 d : b32_enc_loop pad (b0 :: b1 :: b2 :: b3 :: b4 :: d) =
  enc_s0 b0 :: enc_s1 b0 b1 :: enc_s2 b1 :: enc_s3 b1 b2 :: enc_s4 b2 b3 :: enc_s5 b3 :: enc_s6 b3 b4 :: enc_s7 b4 ::
  b32_enc_loop pad d.
Proof. reflexivity. Qed.

Lemma enc_loop_alphabet pad d : bytes_okb d = true -> Forall out_char (b32_enc_loop pad d).
Proof.
  induction d as [d Hlen|b0 b1 b2 b3 b4 d IH] using list_ind5; intros Hok.
  - destruct d as [|b0 [|b1 [|b2 [|b3 [|b4 d]]]]]; [| | | | |cbn in Hlen; lia]; clear Hlen;
      repeat (apply bytes_okb_cons in Hok; destruct Hok as [? Hok]).
    + constructor.
    + change (Forall out_char ([enc_s0 b0; enc_t1 b0] ++ (if pad then repeat 61 6 else []))).
      apply Forall_app; split; [|destruct pad; [apply Forall_pad61|constructor]].
      repeat (apply Forall_cons; [left; auto using s0_char, t1_char|]); apply Forall_nil.
    + change (Forall out_char ([enc_s0 b0; enc_s1 b0 b1; enc_s2 b1; enc_t3 b1] ++ (if pad then repeat 61 4 else []))).
      apply Forall_app; split; [|destruct pad; [apply Forall_pad61|constructor]].
      repeat (apply Forall_cons; [left; auto using s0_char, s1_char, s2_char, t3_char|]); apply Forall_nil.
    + change (Forall out_char ([enc_s0 b0; enc_s1 b0 b1; enc_s2 b1; enc_s3 b1 b2; enc_t4 b2] ++ (if pad then repeat 61 3 else []))).
      apply Forall_app; split; [|destruct pad; [apply Forall_pad61|constructor]].
      repeat (apply Forall_cons; [left; auto using s0_char, s1_char, s2_char, s3_char, t4_char|]); apply Forall_nil.
    + change (Forall out_char ([enc_s0 b0; enc_s1 b0 b1; enc_s2 b1; enc_s3 b1 b2; enc_s4 b2 b3; enc_s5 b3; enc_t6 b3] ++
                                (if pad then repeat 61 1 else []))).
      apply Forall_app; split; [|destruct pad; [apply Forall_pad61|constructor]].
      repeat (apply Forall_cons; [left; auto using s0_char, s1_char, s2_char, s3_char, s4_char, s5_char, t6_char|]); apply Forall_nil.
  - do 5 (apply bytes_okb_cons in Hok; destruct Hok as [? Hok]).
    rewrite enc_loop_unfold.
    repeat (constructor; [left; auto using s0_char, s1_char, s2_char, s3_char, s4_char, s5_char, s6_char, s7_char|]).
    now apply IH.
Qed.

Lemma encode_is_loop pad d : base32_encode pad d = b32_enc_loop pad d.
Proof. destruct d; reflexivity. Qed.

Theorem base32_encode_alphabet pad d : bytes_okb d = true ->
  Forall (fun c => (65 <= c /\ c <= 90) \/ (50 <= c /\ c <= 55) \/ c = 61) (base32_encode pad d).
Proof.
  intros H. rewrite encode_is_loop. eapply Forall_impl; [|apply enc_loop_alphabet, H].
  intros c [Hc| ->]; [|now right; right]. unfold b32_is_char in Hc. cbn [negb andb] in Hc. rewrite orb_false_r in Hc.
  apply orb_true_iff in Hc. destruct Hc as [Hc|Hc]; apply andb_true_iff in Hc; destruct Hc as [Ha Hb];
    apply N.leb_le in Ha, Hb; [left|right; left]; now split.
Qed.
(* ====================== the decoder's contract: language ====================== *)
Lemma is_char_not_pad strict c : b32_is_char strict c = true -> (c =? 61) = false.
Proof.
  intros H. destruct (N.eqb_spec c 61) as [->|]; [|reflexivity]. destruct strict; discriminate H.
Qed.
Lemma body_pad_split s : s = b32_body s ++ b32_padding s.
Proof.
  induction s as [|c s IH]; [reflexivity|]. cbn [b32_body b32_padding].
  destruct (c =? 61); [reflexivity|]. cbn [app]. now f_equal.
Qed.
Lemma body_app strict body k : Forall (fun c => b32_is_char strict c = true) body ->
  b32_body (body ++ repeat 61 k) = body.
Proof.
  induction 1 as [|c body Hc _ IH]; cbn [app b32_body].
  - destruct k; reflexivity.
  - rewrite (is_char_not_pad strict c Hc). now f_equal.
Qed.
Lemma padding_app strict body k : Forall (fun c => b32_is_char strict c = true) body ->
  b32_padding (body ++ repeat 61 k) = repeat 61 k.
Proof.
  induction 1 as [|c body Hc _ IH]; cbn [app b32_padding].
  - destruct k; reflexivity.
  - now rewrite (is_char_not_pad strict c Hc).
Qed.
Lemma all_pad_repeat l : forallb (fun c => c =? 61) l = true -> l = repeat 61 (length l).
Proof.
  induction l as [|c l IH]; [reflexivity|]. cbn [forallb length repeat]. intros H.
  apply andb_true_iff in H. destruct H as [Hc Hl]. apply N.eqb_eq in Hc. subst c. f_equal. now apply IH.
Qed.
Lemma repeat_all_pad k : forallb (fun c => c =? 61) (repeat 61 k) = true.
Proof. induction k; [reflexivity|]. cbn [repeat forallb]. now rewrite IHk. Qed.

Theorem b32_langb_iff req strict s : b32_langb req strict s = true <-> b32_lang req strict s.
Proof.
  unfold b32_langb, b32_lang. split.
  - intros H.
    apply andb_true_iff in H. destruct H as [H H4]. apply andb_true_iff in H. destruct H as [H H3].
    apply andb_true_iff in H. destruct H as [H H2]. apply andb_true_iff in H. destruct H as [H H1].
    apply andb_true_iff in H. destruct H as [H H0].
    exists (b32_body s), (length (b32_padding s)).
    rewrite <- (all_pad_repeat _ H0). split; [apply body_pad_split|].
    split; [apply Forall_forall; now apply forallb_forall|].
    split.
    { repeat (apply orb_true_iff in H1; destruct H1 as [H1|H1]); apply Nat.eqb_eq in H1; rewrite H1; tauto. }
    split.
    { intros Hk. apply orb_true_iff in H2. destruct H2 as [H2|H2]; apply Nat.eqb_eq in H2; [contradiction|exact H2]. }
    split.
    { apply negb_true_iff in H3. apply orb_false_iff in H3. destruct H3 as [H3 H3c].
      apply orb_false_iff in H3. destruct H3 as [H3a H3b].
      apply Nat.eqb_neq in H3a, H3b, H3c. tauto. }
    intros ->. cbn [negb orb] in H4. now apply Nat.eqb_eq in H4.
  - intros (body & k & Hs & Hbody & Hk & Hk0 & (Hm1 & Hm3 & Hm6) & Hreq).
    set (m := (length s mod 8)%nat) in *. clearbody m. subst s.
    rewrite (body_app strict), (padding_app strict) by assumption.
    rewrite repeat_length.
    replace (forallb (b32_is_char strict) body) with true
      by (symmetry; apply forallb_forall; now apply Forall_forall).
    rewrite repeat_all_pad. cbn [andb].
    replace ((k =? 0) || (k =? 1) || (k =? 3) || (k =? 4) || (k =? 6))%nat with true
      by (destruct Hk as [->|[->|[->|[->| ->]]]]; reflexivity).
    cbn [andb].
    apply Nat.eqb_neq in Hm1, Hm3, Hm6. rewrite Hm1, Hm3, Hm6. cbn [orb negb andb]. rewrite ?andb_true_r.
    apply andb_true_iff. split.
    + destruct (Nat.eqb_spec k 0) as [|Hne]; [reflexivity|]. cbn [orb]. apply Nat.eqb_eq. now apply Hk0.
    + destruct req; [|reflexivity]. cbn [negb orb]. apply Nat.eqb_eq. now apply Hreq.
Qed.

Lemma len8_mod {A} (a b c d e f g h : A) l :
  (length (a :: b :: c :: d :: e :: f :: g :: h :: l) mod 8 = length l mod 8)%nat.
Proof.
  cbn [length]. replace (S (S (S (S (S (S (S (S (length l)))))))))%nat with (length l + 1 * 8)%nat by lia.
  now rewrite Nat.mod_add by discriminate.
Qed.

Lemma lang_cons8 req strict x0 x1 x2 x3 x4 x5 x6 x7 rest :
  b32_is_char strict x0 = true -> b32_is_char strict x1 = true -> b32_is_char strict x2 = true ->
  b32_is_char strict x3 = true -> b32_is_char strict x4 = true -> b32_is_char strict x5 = true ->
  b32_is_char strict x6 = true -> b32_is_char strict x7 = true ->
  b32_lang req strict rest -> b32_lang req strict (x0 :: x1 :: x2 :: x3 :: x4 :: x5 :: x6 :: x7 :: rest).
Proof.
  intros H0 H1 H2 H3 H4 H5 H6 H7 (body & k & Hs & Hbody & Hk & Hk0 & Hm & Hreq).
  exists (x0 :: x1 :: x2 :: x3 :: x4 :: x5 :: x6 :: x7 :: body), k. rewrite len8_mod.
  split; [cbn [app]; now rewrite Hs|]. split; [repeat (apply Forall_cons; [assumption|]); assumption|]. tauto.
Qed.

(* ====================== the decoder's contract: value ====================== *)
Definition full_bytes (bits : list bool) : list (list bool) := filter (fun g => (length g =? 8)%nat) (chunks 8 bits).
Lemma spec_value_unfold strict s :
  b32_spec_value strict s =
  map bits_val (full_bytes (flat_map (fun c => bits_be 5 (b32_char_value strict c)) (b32_body s))).
Proof. reflexivity. Qed.

Section Groups8.
  Context {A : Type}.
  Definition h0 (l0 l1 : list A) := l0 ++ firstn 3 l1.
  Definition h1 (l1 l2 l3 : list A) := skipn 3 l1 ++ l2 ++ firstn 1 l3.
  Definition h2 (l3 l4 : list A) := skipn 1 l3 ++ firstn 4 l4.
  Definition h3 (l4 l5 l6 : list A) := skipn 4 l4 ++ l5 ++ firstn 2 l6.
  Definition h4 (l6 l7 : list A) := skipn 2 l6 ++ l7.
End Groups8.

Lemma full_bytes_40 (l0 l1 l2 l3 l4 l5 l6 l7 rest : list bool) :
  length l0 = 5%nat -> length l1 = 5%nat -> length l2 = 5%nat -> length l3 = 5%nat ->
  length l4 = 5%nat -> length l5 = 5%nat -> length l6 = 5%nat -> length l7 = 5%nat ->
  full_bytes (l0 ++ l1 ++ l2 ++ l3 ++ l4 ++ l5 ++ l6 ++ l7 ++ rest) =
  [h0 l0 l1; h1 l1 l2 l3; h2 l3 l4; h3 l4 l5 l6; h4 l6 l7] ++ full_bytes rest.
Proof.
  intros H0 H1 H2 H3 H4 H5 H6 H7. unfold h0, h1, h2, h3, h4.
  destr_len l0 H0. destr_len l1 H1. destr_len l2 H2. destr_len l3 H3.
  destr_len l4 H4. destr_len l5 H5. destr_len l6 H6. destr_len l7 H7.
  cbn [app]. unfold full_bytes. rewrite !chunks_cons8. reflexivity.
Qed.
Lemma full_bytes_10 (l0 l1 : list bool) : length l0 = 5%nat -> length l1 = 5%nat ->
  full_bytes (l0 ++ l1 ++ []) = [h0 l0 l1].
Proof. intros H0 H1. unfold h0. destr_len l0 H0. destr_len l1 H1. reflexivity. Qed.
Lemma full_bytes_20 (l0 l1 l2 l3 : list bool) :
  length l0 = 5%nat -> length l1 = 5%nat -> length l2 = 5%nat -> length l3 = 5%nat ->
  full_bytes (l0 ++ l1 ++ l2 ++ l3 ++ []) = [h0 l0 l1; h1 l1 l2 l3].
Proof.
  intros H0 H1 H2 H3. unfold h0, h1. destr_len l0 H0. destr_len l1 H1. destr_len l2 H2. destr_len l3 H3. reflexivity.
Qed.
Lemma full_bytes_25 (l0 l1 l2 l3 l4 : list bool) :
  length l0 = 5%nat -> length l1 = 5%nat -> length l2 = 5%nat -> length l3 = 5%nat -> length l4 = 5%nat ->
  full_bytes (l0 ++ l1 ++ l2 ++ l3 ++ l4 ++ []) = [h0 l0 l1; h1 l1 l2 l3; h2 l3 l4].
Proof.
  intros H0 H1 H2 H3 H4. unfold h0, h1, h2.
  destr_len l0 H0. destr_len l1 H1. destr_len l2 H2. destr_len l3 H3. destr_len l4 H4. reflexivity.
Qed.
Lemma full_bytes_35 (l0 l1 l2 l3 l4 l5 l6 : list bool) :
  length l0 = 5%nat -> length l1 = 5%nat -> length l2 = 5%nat -> length l3 = 5%nat ->
  length l4 = 5%nat -> length l5 = 5%nat -> length l6 = 5%nat ->
  full_bytes (l0 ++ l1 ++ l2 ++ l3 ++ l4 ++ l5 ++ l6 ++ []) = [h0 l0 l1; h1 l1 l2 l3; h2 l3 l4; h3 l4 l5 l6].
Proof.
  intros H0 H1 H2 H3 H4 H5 H6. unfold h0, h1, h2, h3.
  destr_len l0 H0. destr_len l1 H1. destr_len l2 H2. destr_len l3 H3.
  destr_len l4 H4. destr_len l5 H5. destr_len l6 H6. reflexivity.
Qed.

(* every byte expression of the code is the value of its 8-bit group: one sweep over the 5-bit values per expression *)
Ltac sweep3 := intros a b c Ha Hb Hc; apply N.eqb_eq; revert a b c Ha Hb Hc;
  match goal with |- forall a b c, a < ?n -> b < ?n -> c < ?n -> ?p = true => apply (all3_spec n (fun a b c => p)) end;
  vm_compute; reflexivity.

Lemma byte0_ok v0 v1 : v0 < 32 -> v1 < 32 ->
  bits_val (h0 (bits_be 5 v0) (bits_be 5 v1)) = dec_b0 (Z.of_N v0) (Z.of_N v1).
Proof. revert v0 v1. sweep2. Qed.
Lemma byte1_ok v1 v2 v3 : v1 < 32 -> v2 < 32 -> v3 < 32 ->
  bits_val (h1 (bits_be 5 v1) (bits_be 5 v2) (bits_be 5 v3)) = dec_b1 (Z.of_N v1) (Z.of_N v2) (Z.of_N v3).
Proof. revert v1 v2 v3. sweep3. Qed.
Lemma byte2_ok v3 v4 : v3 < 32 -> v4 < 32 ->
  bits_val (h2 (bits_be 5 v3) (bits_be 5 v4)) = dec_b2 (Z.of_N v3) (Z.of_N v4).
Proof. revert v3 v4. sweep2. Qed.
Lemma byte3_ok v4 v5 v6 : v4 < 32 -> v5 < 32 -> v6 < 32 ->
  bits_val (h3 (bits_be 5 v4) (bits_be 5 v5) (bits_be 5 v6)) = dec_b3 (Z.of_N v4) (Z.of_N v5) (Z.of_N v6).
Proof. revert v4 v5 v6. sweep3. Qed.
Lemma byte4_ok v6 v7 : v6 < 32 -> v7 < 32 ->
  bits_val (h4 (bits_be 5 v6) (bits_be 5 v7)) = dec_b4 (Z.of_N v6) (Z.of_N v7).
Proof. revert v6 v7. sweep2. Qed.

(* ====================== the reverse table ====================== *)
Definition code (strict : bool) (c : N) : Z :=
  if b32_is_char strict c then Z.of_N (b32_char_value strict c) else if c =? 61 then (-2)%Z else (-1)%Z.
Lemma table_ok strict c : c < 256 -> rev_at (b32_build_reverse (negb strict)) c = code strict c.
Proof.
  intros Hc. apply Z.eqb_eq. revert c Hc.
  destruct strict;
  match goal with |- forall b, b < ?n -> ?p = true => apply (all1_spec n (fun b => p)) end; vm_compute; reflexivity.
Qed.
Lemma char_value_lt strict c : c < 256 -> b32_is_char strict c = true -> b32_char_value strict c < 32.
Proof.
  intros Hc H. apply N.ltb_lt.
  assert (S : implb (b32_is_char strict c) (b32_char_value strict c <? 32) = true).
  { clear H. revert c Hc. destruct strict; sweepb1. }
  now rewrite H in S.
Qed.
Lemma upper_char strict c : c < 256 -> b32_is_char true c = true ->
  b32_is_char strict c = true /\ b32_char_value strict c = b32_char_value true c.
Proof.
  intros Hc H.
  assert (S : implb (b32_is_char true c) (b32_is_char strict c && (b32_char_value strict c =? b32_char_value true c)) = true).
  { clear H. revert c Hc. destruct strict; sweepb1. }
  rewrite H in S. cbn [implb] in S. apply andb_true_iff in S. destruct S as [S1 S2]. now apply N.eqb_eq in S2.
Qed.
Lemma is_char_byte strict c : b32_is_char strict c = true -> c < 256.
Proof.
  unfold b32_is_char. intros H.
  repeat (apply orb_true_iff in H; destruct H as [H|H]); repeat (apply andb_true_iff in H; destruct H as [H ?H]);
    repeat match goal with X : (_ <=? _) = true |- _ => apply N.leb_le in X end; lia.
Qed.

Lemma tbl_nonneg strict c : c < 256 -> (0 <= rev_at (b32_build_reverse (negb strict)) c)%Z ->
  b32_is_char strict c = true.
Proof.
  intros Hc. rewrite table_ok by exact Hc. unfold code.
  destruct (b32_is_char strict c); [reflexivity|]. destruct (c =? 61); lia.
Qed.
Lemma tbl_char strict c : b32_is_char strict c = true ->
  rev_at (b32_build_reverse (negb strict)) c = Z.of_N (b32_char_value strict c).
Proof.
  intros H. rewrite table_ok by (now apply is_char_byte in H). unfold code. now rewrite H.
Qed.
Lemma tbl_pad strict : rev_at (b32_build_reverse (negb strict)) 61 = (-2)%Z.
Proof. destruct strict; vm_compute; reflexivity. Qed.
(* ====================== the decoder: one loop step, for any table ====================== *)
Ltac head_if H name := match type of H with (if ?b then _ else _) = _ => destruct b eqn:name end.
Ltac bool_facts := repeat match goal with
  | H : _ || _ = false |- _ => apply orb_false_iff in H; destruct H
  | H : _ && _ = true |- _ => apply andb_true_iff in H; destruct H
  | H : negb _ = false |- _ => apply negb_false_iff in H
  | H : negb _ = true |- _ => apply negb_true_iff in H
  | H : (_ =? _) = true |- _ => apply N.eqb_eq in H
  | H : (_ <=? _)%Z = true |- _ => apply Z.leb_le in H
  | H : (_ <? _)%Z = false |- _ => apply Z.ltb_ge in H
  end.

Section Step.
  Variables (req : bool) (rev : list Z).
  Variables x0 x1 x2 x3 x4 x5 x6 x7 : N.
  Let c0 := rev_at rev x0. Let c1 := rev_at rev x1. Let c2 := rev_at rev x2. Let c3 := rev_at rev x3.
  Let c4 := rev_at rev x4. Let c5 := rev_at rev x5. Let c6 := rev_at rev x6. Let c7 := rev_at rev x7.

  Lemma dec_loop_inv rest d :
    b32_dec_loop req rev (x0 :: x1 :: x2 :: x3 :: x4 :: x5 :: x6 :: x7 :: rest) = Some d ->
    (rest = [] /\ (x2 = 61 /\ x3 = 61 /\ x4 = 61 /\ x5 = 61 /\ x6 = 61 /\ x7 = 61) /\
       (0 <= c0 /\ 0 <= c1)%Z /\ d = [dec_b0 c0 c1]) \/
    (rest = [] /\ (x4 = 61 /\ x5 = 61 /\ x6 = 61 /\ x7 = 61) /\
       (0 <= c0 /\ 0 <= c1 /\ 0 <= c2 /\ 0 <= c3)%Z /\ d = [dec_b0 c0 c1; dec_b1 c1 c2 c3]) \/
    (rest = [] /\ (x5 = 61 /\ x6 = 61 /\ x7 = 61) /\
       (0 <= c0 /\ 0 <= c1 /\ 0 <= c2 /\ 0 <= c3 /\ 0 <= c4)%Z /\ d = [dec_b0 c0 c1; dec_b1 c1 c2 c3; dec_b2 c3 c4]) \/
    (rest = [] /\ x7 = 61 /\
       (0 <= c0 /\ 0 <= c1 /\ 0 <= c2 /\ 0 <= c3 /\ 0 <= c4 /\ 0 <= c5 /\ 0 <= c6)%Z /\
       d = [dec_b0 c0 c1; dec_b1 c1 c2 c3; dec_b2 c3 c4; dec_b3 c4 c5 c6]) \/
    ((0 <= c0 /\ 0 <= c1 /\ 0 <= c2 /\ 0 <= c3 /\ 0 <= c4 /\ 0 <= c5 /\ 0 <= c6 /\ 0 <= c7)%Z /\
       exists o, b32_dec_loop req rev rest = Some o /\
                 d = [dec_b0 c0 c1; dec_b1 c1 c2 c3; dec_b2 c3 c4; dec_b3 c4 c5 c6; dec_b4 c6 c7] ++ o).
  Proof.
    cbn [b32_dec_loop]. fold c0 c1 c2 c3 c4 c5 c6 c7. intros H.
    head_if H Hp; [discriminate|].
    assert (Hrest : x7 = 61 -> rest = []).
    { intros ->. rewrite N.eqb_refl, !orb_true_r in Hp. destruct rest; [reflexivity|discriminate]. }
    head_if H E2.
    { head_if H Hc; [discriminate|]. injection H as <-. bool_facts. left. tauto. }
    head_if H E4.
    { head_if H Hc; [discriminate|]. injection H as <-. bool_facts. right; left. tauto. }
    head_if H E5.
    { head_if H Hc; [discriminate|]. injection H as <-. bool_facts. right; right; left. tauto. }
    head_if H E7.
    { head_if H Hc; [discriminate|]. injection H as <-. bool_facts. right; right; right; left. tauto. }
    head_if H Hc; [discriminate|]. bool_facts. right; right; right; right. split; [tauto|].
    destruct (b32_dec_loop req rev rest) as [o|]; [|discriminate]. cbn [opt_app] in H. injection H as <-.
    exists o. split; reflexivity.
  Qed.
End Step.
Lemma dec_loop_short req rev s : (length s < 8)%nat -> b32_dec_loop req rev s = b32_dec_tail req rev s.
Proof.
  intros H. destruct s as [|x0 [|x1 [|x2 [|x3 [|x4 [|x5 [|x6 [|x7 s]]]]]]]]; try reflexivity. cbn in H. lia.
Qed.

Lemma dec_tail_inv req rev s d : b32_dec_tail req rev s = Some d ->
  (s = [] /\ d = []) \/
  (req = false /\ exists x0 x1, s = [x0; x1] /\ (0 <= rev_at rev x0 /\ 0 <= rev_at rev x1)%Z /\
     d = [dec_b0 (rev_at rev x0) (rev_at rev x1)]) \/
  (req = false /\ exists x0 x1 x2 x3, s = [x0; x1; x2; x3] /\
     (0 <= rev_at rev x0 /\ 0 <= rev_at rev x1 /\ 0 <= rev_at rev x2 /\ 0 <= rev_at rev x3)%Z /\
     d = [dec_b0 (rev_at rev x0) (rev_at rev x1); dec_b1 (rev_at rev x1) (rev_at rev x2) (rev_at rev x3)]) \/
  (req = false /\ exists x0 x1 x2 x3 x4, s = [x0; x1; x2; x3; x4] /\
     (0 <= rev_at rev x0 /\ 0 <= rev_at rev x1 /\ 0 <= rev_at rev x2 /\ 0 <= rev_at rev x3 /\ 0 <= rev_at rev x4)%Z /\
     d = [dec_b0 (rev_at rev x0) (rev_at rev x1); dec_b1 (rev_at rev x1) (rev_at rev x2) (rev_at rev x3);
          dec_b2 (rev_at rev x3) (rev_at rev x4)]) \/
  (req = false /\ exists x0 x1 x2 x3 x4 x5 x6, s = [x0; x1; x2; x3; x4; x5; x6] /\
     (0 <= rev_at rev x0 /\ 0 <= rev_at rev x1 /\ 0 <= rev_at rev x2 /\ 0 <= rev_at rev x3 /\ 0 <= rev_at rev x4 /\
      0 <= rev_at rev x5 /\ 0 <= rev_at rev x6)%Z /\
     d = [dec_b0 (rev_at rev x0) (rev_at rev x1); dec_b1 (rev_at rev x1) (rev_at rev x2) (rev_at rev x3);
          dec_b2 (rev_at rev x3) (rev_at rev x4); dec_b3 (rev_at rev x4) (rev_at rev x5) (rev_at rev x6)]).
Proof.
  unfold b32_dec_tail.
  destruct s as [|x0 [|x1 [|x2 [|x3 [|x4 [|x5 [|x6 [|x7 s]]]]]]]]; cbn [length Nat.eqb orb negb nth]; intros H.
  - injection H as <-. now left.
  - destruct req; discriminate.
  - destruct req; [discriminate|]. head_if H Hc; [discriminate|]. injection H as <-. bool_facts.
    right; left. split; [reflexivity|]. exists x0, x1. tauto.
  - destruct req; discriminate.
  - destruct req; [discriminate|]. head_if H Hc; [discriminate|]. head_if H Hd; [discriminate|].
    injection H as <-. bool_facts.
    right; right; left. split; [reflexivity|]. exists x0, x1, x2, x3. tauto.
  - destruct req; [discriminate|]. head_if H Hc; [discriminate|]. head_if H Hd; [discriminate|].
    head_if H He; [discriminate|]. injection H as <-. bool_facts.
    right; right; right; left. split; [reflexivity|]. exists x0, x1, x2, x3, x4. tauto.
  - destruct req; discriminate.
  - destruct req; [discriminate|]. head_if H Hc; [discriminate|]. head_if H Hd; [discriminate|].
    head_if H He; [discriminate|]. head_if H Hf; [discriminate|]. injection H as <-. bool_facts.
    right; right; right; right. split; [reflexivity|]. exists x0, x1, x2, x3, x4, x5, x6. tauto.
  - destruct req; discriminate.
Qed.

(* ---------- forward: the loop on the shapes of the language ---------- *)
Ltac zle_true := repeat match goal with
  | H : (0 <= ?c)%Z |- context [(0 <=? ?c)%Z] => rewrite (proj2 (Z.leb_le 0 c) H)
  | H : (0 <= ?c)%Z |- context [(?c <? 0)%Z] => rewrite (proj2 (Z.ltb_ge c 0) H)
  | H : (0 <= ?c)%Z |- context [(?c =? -2)%Z] => rewrite (proj2 (Z.eqb_neq c (-2)) ltac:(lia))
  end.

Lemma dec_loop_full req rev x0 x1 x2 x3 x4 x5 x6 x7 rest :
  (x0 =? 61) = false -> (x1 =? 61) = false -> (x2 =? 61) = false -> (x3 =? 61) = false ->
  (x4 =? 61) = false -> (x5 =? 61) = false -> (x6 =? 61) = false -> (x7 =? 61) = false ->
  (0 <= rev_at rev x0)%Z -> (0 <= rev_at rev x1)%Z -> (0 <= rev_at rev x2)%Z -> (0 <= rev_at rev x3)%Z ->
  (0 <= rev_at rev x4)%Z -> (0 <= rev_at rev x5)%Z -> (0 <= rev_at rev x6)%Z -> (0 <= rev_at rev x7)%Z ->
  b32_dec_loop req rev (x0 :: x1 :: x2 :: x3 :: x4 :: x5 :: x6 :: x7 :: rest) =
  opt_app [dec_b0 (rev_at rev x0) (rev_at rev x1); dec_b1 (rev_at rev x1) (rev_at rev x2) (rev_at rev x3);
           dec_b2 (rev_at rev x3) (rev_at rev x4); dec_b3 (rev_at rev x4) (rev_at rev x5) (rev_at rev x6);
           dec_b4 (rev_at rev x6) (rev_at rev x7)] (b32_dec_loop req rev rest).
Proof.
  intros E0 E1 E2 E3 E4 E5 E6 E7 H0 H1 H2 H3 H4 H5 H6 H7. cbn [b32_dec_loop].
  rewrite E0, E1, E2, E3, E4, E5, E6, E7. cbn [orb andb]. zle_true. cbn [orb]. reflexivity.
Qed.

Lemma dec_loop_pad6 req rev x0 x1 : rev_at rev 61 = (-2)%Z -> (0 <= rev_at rev x0)%Z -> (0 <= rev_at rev x1)%Z ->
  b32_dec_loop req rev [x0; x1; 61; 61; 61; 61; 61; 61] = Some [dec_b0 (rev_at rev x0) (rev_at rev x1)].
Proof.
  intros Hp H0 H1. cbn [b32_dec_loop is_nil negb]. rewrite andb_false_r, Hp. cbn [Z.eqb Pos.eqb N.eqb andb negb orb].
  zle_true. reflexivity.
Qed.
Lemma dec_loop_pad4 req rev x0 x1 x2 x3 : rev_at rev 61 = (-2)%Z ->
  (0 <= rev_at rev x0)%Z -> (0 <= rev_at rev x1)%Z -> (0 <= rev_at rev x2)%Z -> (0 <= rev_at rev x3)%Z ->
  b32_dec_loop req rev [x0; x1; x2; x3; 61; 61; 61; 61] =
  Some [dec_b0 (rev_at rev x0) (rev_at rev x1); dec_b1 (rev_at rev x1) (rev_at rev x2) (rev_at rev x3)].
Proof.
  intros Hp H0 H1 H2 H3. cbn [b32_dec_loop is_nil negb]. rewrite andb_false_r, Hp. zle_true.
  cbn [Z.eqb Pos.eqb N.eqb andb negb orb]. reflexivity.
Qed.
Lemma dec_loop_pad3 req rev x0 x1 x2 x3 x4 : rev_at rev 61 = (-2)%Z ->
  (0 <= rev_at rev x0)%Z -> (0 <= rev_at rev x1)%Z -> (0 <= rev_at rev x2)%Z -> (0 <= rev_at rev x3)%Z ->
  (0 <= rev_at rev x4)%Z ->
  b32_dec_loop req rev [x0; x1; x2; x3; x4; 61; 61; 61] =
  Some [dec_b0 (rev_at rev x0) (rev_at rev x1); dec_b1 (rev_at rev x1) (rev_at rev x2) (rev_at rev x3);
        dec_b2 (rev_at rev x3) (rev_at rev x4)].
Proof.
  intros Hp H0 H1 H2 H3 H4. cbn [b32_dec_loop is_nil negb]. rewrite andb_false_r, Hp. zle_true.
  cbn [Z.eqb Pos.eqb N.eqb andb negb orb]. reflexivity.
Qed.
Lemma dec_loop_pad1 req rev x0 x1 x2 x3 x4 x5 x6 : rev_at rev 61 = (-2)%Z ->
  (0 <= rev_at rev x0)%Z -> (0 <= rev_at rev x1)%Z -> (0 <= rev_at rev x2)%Z -> (0 <= rev_at rev x3)%Z ->
  (0 <= rev_at rev x4)%Z -> (0 <= rev_at rev x5)%Z -> (0 <= rev_at rev x6)%Z ->
  b32_dec_loop req rev [x0; x1; x2; x3; x4; x5; x6; 61] =
  Some [dec_b0 (rev_at rev x0) (rev_at rev x1); dec_b1 (rev_at rev x1) (rev_at rev x2) (rev_at rev x3);
        dec_b2 (rev_at rev x3) (rev_at rev x4); dec_b3 (rev_at rev x4) (rev_at rev x5) (rev_at rev x6)].
Proof.
  intros Hp H0 H1 H2 H3 H4 H5 H6. cbn [b32_dec_loop is_nil negb]. rewrite andb_false_r, Hp. zle_true.
  cbn [Z.eqb Pos.eqb N.eqb andb negb orb]. reflexivity.
Qed.

Lemma dec_tail_2 rev x0 x1 : (0 <= rev_at rev x0)%Z -> (0 <= rev_at rev x1)%Z ->
  b32_dec_loop false rev [x0; x1] = Some [dec_b0 (rev_at rev x0) (rev_at rev x1)].
Proof.
  intros H0 H1. cbn [b32_dec_loop]. unfold b32_dec_tail. cbn [length Nat.eqb orb negb nth]. zle_true. reflexivity.
Qed.
Lemma dec_tail_4 rev x0 x1 x2 x3 :
  (0 <= rev_at rev x0)%Z -> (0 <= rev_at rev x1)%Z -> (0 <= rev_at rev x2)%Z -> (0 <= rev_at rev x3)%Z ->
  b32_dec_loop false rev [x0; x1; x2; x3] =
  Some [dec_b0 (rev_at rev x0) (rev_at rev x1); dec_b1 (rev_at rev x1) (rev_at rev x2) (rev_at rev x3)].
Proof.
  intros H0 H1 H2 H3. cbn [b32_dec_loop]. unfold b32_dec_tail. cbn [length Nat.eqb orb negb nth]. zle_true. reflexivity.
Qed.
Lemma dec_tail_5 rev x0 x1 x2 x3 x4 :
  (0 <= rev_at rev x0)%Z -> (0 <= rev_at rev x1)%Z -> (0 <= rev_at rev x2)%Z -> (0 <= rev_at rev x3)%Z ->
  (0 <= rev_at rev x4)%Z ->
  b32_dec_loop false rev [x0; x1; x2; x3; x4] =
  Some [dec_b0 (rev_at rev x0) (rev_at rev x1); dec_b1 (rev_at rev x1) (rev_at rev x2) (rev_at rev x3);
        dec_b2 (rev_at rev x3) (rev_at rev x4)].
Proof.
  intros H0 H1 H2 H3 H4. cbn [b32_dec_loop]. unfold b32_dec_tail. cbn [length Nat.eqb orb negb nth]. zle_true. reflexivity.
Qed.
Lemma dec_tail_7 rev x0 x1 x2 x3 x4 x5 x6 :
  (0 <= rev_at rev x0)%Z -> (0 <= rev_at rev x1)%Z -> (0 <= rev_at rev x2)%Z -> (0 <= rev_at rev x3)%Z ->
  (0 <= rev_at rev x4)%Z -> (0 <= rev_at rev x5)%Z -> (0 <= rev_at rev x6)%Z ->
  b32_dec_loop false rev [x0; x1; x2; x3; x4; x5; x6] =
  Some [dec_b0 (rev_at rev x0) (rev_at rev x1); dec_b1 (rev_at rev x1) (rev_at rev x2) (rev_at rev x3);
        dec_b2 (rev_at rev x3) (rev_at rev x4); dec_b3 (rev_at rev x4) (rev_at rev x5) (rev_at rev x6)].
Proof.
  intros H0 H1 H2 H3 H4 H5 H6. cbn [b32_dec_loop]. unfold b32_dec_tail. cbn [length Nat.eqb orb negb nth]. zle_true.
  reflexivity.
Qed.
(* ====================== soundness: what the loop accepts is in the language and decodes to the spec value ====================== *)
Lemma lang_intro req strict body k :
  Forall (fun c => b32_is_char strict c = true) body ->
  (let m := ((length body + k) mod 8)%nat in
   ((k =? 0) || (k =? 1) || (k =? 3) || (k =? 4) || (k =? 6))%nat && ((k =? 0) || (m =? 0))%nat &&
   negb ((m =? 1) || (m =? 3) || (m =? 6))%nat && (negb req || (m =? 0)%nat)) = true ->
  b32_lang req strict (body ++ repeat 61 k).
Proof.
  intros Hbody H. apply b32_langb_iff. unfold b32_langb.
  rewrite (body_app strict), (padding_app strict) by assumption.
  rewrite app_length, !repeat_length, repeat_all_pad.
  replace (forallb (b32_is_char strict) body) with true by (symmetry; apply forallb_forall; now apply Forall_forall).
  cbn [andb]. exact H.
Qed.

Section Value.
  Variable strict : bool.
  Let V (c : N) : Z := Z.of_N (b32_char_value strict c).
  Let IC (c : N) : Prop := b32_is_char strict c = true.

  Lemma value_nil : b32_spec_value strict [] = [].
  Proof. reflexivity. Qed.

  Lemma vlt c : IC c -> b32_char_value strict c < 32.
  Proof. intros H. apply char_value_lt; [now apply is_char_byte in H|exact H]. Qed.

  Lemma value_cons8 x0 x1 x2 x3 x4 x5 x6 x7 rest :
    IC x0 -> IC x1 -> IC x2 -> IC x3 -> IC x4 -> IC x5 -> IC x6 -> IC x7 ->
    b32_spec_value strict (x0 :: x1 :: x2 :: x3 :: x4 :: x5 :: x6 :: x7 :: rest) =
    [dec_b0 (V x0) (V x1); dec_b1 (V x1) (V x2) (V x3); dec_b2 (V x3) (V x4); dec_b3 (V x4) (V x5) (V x6);
     dec_b4 (V x6) (V x7)] ++ b32_spec_value strict rest.
  Proof.
    intros H0 H1 H2 H3 H4 H5 H6 H7. rewrite !spec_value_unfold. cbn [b32_body].
    rewrite (is_char_not_pad strict x0 H0), (is_char_not_pad strict x1 H1), (is_char_not_pad strict x2 H2),
      (is_char_not_pad strict x3 H3), (is_char_not_pad strict x4 H4), (is_char_not_pad strict x5 H5),
      (is_char_not_pad strict x6 H6), (is_char_not_pad strict x7 H7).
    cbn [flat_map]. rewrite full_bytes_40 by apply bits_be_length. rewrite map_app. cbn [map].
    rewrite byte0_ok, byte1_ok, byte2_ok, byte3_ok, byte4_ok by (now apply vlt). reflexivity.
  Qed.

  Lemma value_2 x0 x1 k : IC x0 -> IC x1 ->
    b32_spec_value strict ([x0; x1] ++ repeat 61 k) = [dec_b0 (V x0) (V x1)].
  Proof.
    intros H0 H1. rewrite spec_value_unfold, (body_app strict) by (repeat constructor; assumption).
    cbn [flat_map]. rewrite full_bytes_10 by apply bits_be_length. cbn [map].
    rewrite byte0_ok by (now apply vlt). reflexivity.
  Qed.
  Lemma value_4 x0 x1 x2 x3 k : IC x0 -> IC x1 -> IC x2 -> IC x3 ->
    b32_spec_value strict ([x0; x1; x2; x3] ++ repeat 61 k) = [dec_b0 (V x0) (V x1); dec_b1 (V x1) (V x2) (V x3)].
  Proof.
    intros H0 H1 H2 H3. rewrite spec_value_unfold, (body_app strict) by (repeat constructor; assumption).
    cbn [flat_map]. rewrite full_bytes_20 by apply bits_be_length. cbn [map].
    rewrite byte0_ok, byte1_ok by (now apply vlt). reflexivity.
  Qed.
  Lemma value_5 x0 x1 x2 x3 x4 k : IC x0 -> IC x1 -> IC x2 -> IC x3 -> IC x4 ->
    b32_spec_value strict ([x0; x1; x2; x3; x4] ++ repeat 61 k) =
    [dec_b0 (V x0) (V x1); dec_b1 (V x1) (V x2) (V x3); dec_b2 (V x3) (V x4)].
  Proof.
    intros H0 H1 H2 H3 H4. rewrite spec_value_unfold, (body_app strict) by (repeat constructor; assumption).
    cbn [flat_map]. rewrite full_bytes_25 by apply bits_be_length. cbn [map].
    rewrite byte0_ok, byte1_ok, byte2_ok by (now apply vlt). reflexivity.
  Qed.
  Lemma value_7 x0 x1 x2 x3 x4 x5 x6 k : IC x0 -> IC x1 -> IC x2 -> IC x3 -> IC x4 -> IC x5 -> IC x6 ->
    b32_spec_value strict ([x0; x1; x2; x3; x4; x5; x6] ++ repeat 61 k) =
    [dec_b0 (V x0) (V x1); dec_b1 (V x1) (V x2) (V x3); dec_b2 (V x3) (V x4); dec_b3 (V x4) (V x5) (V x6)].
  Proof.
    intros H0 H1 H2 H3 H4 H5 H6. rewrite spec_value_unfold, (body_app strict) by (repeat constructor; assumption).
    cbn [flat_map]. rewrite full_bytes_35 by apply bits_be_length. cbn [map].
    rewrite byte0_ok, byte1_ok, byte2_ok, byte3_ok by (now apply vlt). reflexivity.
  Qed.
End Value.
Ltac chars strict := repeat match goal with
  | H : (0 <= rev_at _ ?x)%Z, Hx : ?x < 256 |- _ => apply (tbl_nonneg strict x Hx) in H
  end.
Ltac okb Hok := repeat (apply bytes_okb_cons in Hok; destruct Hok as [? Hok]).

Lemma dec_loop_sound req strict s : bytes_okb s = true -> forall d,
  b32_dec_loop req (b32_build_reverse (negb strict)) s = Some d ->
  b32_lang req strict s /\ d = b32_spec_value strict s.
Proof.
  induction s as [s Hlen|x0 x1 x2 x3 x4 x5 x6 x7 s IH] using list_ind8; intros Hok d H.
  - rewrite dec_loop_short in H by exact Hlen. apply dec_tail_inv in H.
    destruct H as [[-> ->]|[(-> & x0 & x1 & -> & Hc & ->)|[(-> & x0 & x1 & x2 & x3 & -> & Hc & ->)|
      [(-> & x0 & x1 & x2 & x3 & x4 & -> & Hc & ->)|(-> & x0 & x1 & x2 & x3 & x4 & x5 & x6 & -> & Hc & ->)]]]].
    + split; [apply (lang_intro req strict [] 0); [constructor|destruct req; reflexivity]|reflexivity].
    + okb Hok. decompose [and] Hc. chars strict. rewrite !(tbl_char strict) by assumption. split.
      * apply (lang_intro false strict [x0; x1] 0); [repeat constructor; assumption|reflexivity].
      * symmetry. now apply (value_2 strict x0 x1 0).
    + okb Hok. decompose [and] Hc. chars strict. rewrite !(tbl_char strict) by assumption. split.
      * apply (lang_intro false strict [x0; x1; x2; x3] 0); [repeat constructor; assumption|reflexivity].
      * symmetry. now apply (value_4 strict x0 x1 x2 x3 0).
    + okb Hok. decompose [and] Hc. chars strict. rewrite !(tbl_char strict) by assumption. split.
      * apply (lang_intro false strict [x0; x1; x2; x3; x4] 0); [repeat constructor; assumption|reflexivity].
      * symmetry. now apply (value_5 strict x0 x1 x2 x3 x4 0).
    + okb Hok. decompose [and] Hc. chars strict. rewrite !(tbl_char strict) by assumption. split.
      * apply (lang_intro false strict [x0; x1; x2; x3; x4; x5; x6] 0); [repeat constructor; assumption|reflexivity].
      * symmetry. now apply (value_7 strict x0 x1 x2 x3 x4 x5 x6 0).
  - apply dec_loop_inv in H. okb Hok.
    destruct H as [(-> & Hx & Hc & ->)|[(-> & Hx & Hc & ->)|[(-> & Hx & Hc & ->)|[(-> & Hx & Hc & ->)|
      (Hc & o & Ho & ->)]]]].
    + decompose [and] Hx. decompose [and] Hc. subst. chars strict. rewrite !(tbl_char strict) by assumption. split.
      * apply (lang_intro req strict [x0; x1] 6); [repeat constructor; assumption|destruct req; reflexivity].
      * symmetry. now apply (value_2 strict x0 x1 6).
    + decompose [and] Hx. decompose [and] Hc. subst. chars strict. rewrite !(tbl_char strict) by assumption. split.
      * apply (lang_intro req strict [x0; x1; x2; x3] 4); [repeat constructor; assumption|destruct req; reflexivity].
      * symmetry. now apply (value_4 strict x0 x1 x2 x3 4).
    + decompose [and] Hx. decompose [and] Hc. subst. chars strict. rewrite !(tbl_char strict) by assumption. split.
      * apply (lang_intro req strict [x0; x1; x2; x3; x4] 3); [repeat constructor; assumption|destruct req; reflexivity].
      * symmetry. now apply (value_5 strict x0 x1 x2 x3 x4 3).
    + decompose [and] Hc. subst. chars strict. rewrite !(tbl_char strict) by assumption. split.
      * apply (lang_intro req strict [x0; x1; x2; x3; x4; x5; x6] 1); [repeat constructor; assumption|destruct req; reflexivity].
      * symmetry. now apply (value_7 strict x0 x1 x2 x3 x4 x5 x6 1).
    + decompose [and] Hc. chars strict. destruct (IH Hok o Ho) as [IHl ->].
      rewrite !(tbl_char strict) by assumption. split.
      * now apply lang_cons8.
      * symmetry. now apply value_cons8.
Qed.
(* ====================== completeness: the loop accepts every text of the language ====================== *)
Ltac finish_shape strict :=
  cbn [app repeat];
  first [ rewrite dec_loop_pad6 | rewrite dec_loop_pad4 | rewrite dec_loop_pad3 | rewrite dec_loop_pad1
        | rewrite dec_tail_2 | rewrite dec_tail_4 | rewrite dec_tail_5 | rewrite dec_tail_7 ];
  [eexists; reflexivity | ..]; try apply tbl_pad; (rewrite (tbl_char strict) by assumption; apply N2Z.is_nonneg).
Ltac inv_forall := repeat match goal with H : Forall _ (_ :: _) |- _ => inversion_clear H end.

Lemma dec_loop_complete_aux req strict k body :
  Forall (fun c => b32_is_char strict c = true) body ->
  (k = 0 \/ k = 1 \/ k = 3 \/ k = 4 \/ k = 6)%nat ->
  (k <> 0 -> (length body + k) mod 8 = 0)%nat ->
  ((length body + k) mod 8 <> 1 /\ (length body + k) mod 8 <> 3 /\ (length body + k) mod 8 <> 6)%nat ->
  (req = true -> (length body + k) mod 8 = 0)%nat ->
  exists d, b32_dec_loop req (b32_build_reverse (negb strict)) (body ++ repeat 61 k) = Some d.
Proof.
  induction body as [body Hlen|x0 x1 x2 x3 x4 x5 x6 x7 body IH] using list_ind8; intros Hbody Hk Hk0 Hm Hreq.
  - destruct body as [|x0 [|x1 [|x2 [|x3 [|x4 [|x5 [|x6 [|x7 body]]]]]]]]; [| | | | | | | |cbn in Hlen; lia]; clear Hlen;
      inv_forall; destruct Hk as [->|[->|[->|[->| ->]]]]; vm_compute in Hk0, Hm, Hreq; try (exfalso; lia);
      try (destruct req; [exfalso; specialize (Hreq eq_refl); lia|]).
    all: try (finish_shape strict).
    eexists; reflexivity.
  - assert (Hmod : ((length (x0 :: x1 :: x2 :: x3 :: x4 :: x5 :: x6 :: x7 :: body) + k) mod 8 = (length body + k) mod 8)%nat).
    { cbn [length]. replace (S (S (S (S (S (S (S (S (length body)))))))) + k)%nat with (length body + k + 1 * 8)%nat by lia.
      apply Nat.mod_add. discriminate. }
    rewrite Hmod in Hk0, Hm, Hreq. inv_forall.
    destruct (IH ltac:(assumption) Hk Hk0 Hm Hreq) as [d Hd].
    cbn [app]. rewrite dec_loop_full; try (now apply (is_char_not_pad strict));
      try (rewrite (tbl_char strict) by assumption; apply N2Z.is_nonneg).
    rewrite Hd. eexists. reflexivity.
Qed.

Lemma dec_loop_complete req strict s : b32_lang req strict s ->
  exists d, b32_dec_loop req (b32_build_reverse (negb strict)) s = Some d.
Proof.
  intros (body & k & -> & Hbody & Hk & Hk0 & Hm & Hreq).
  rewrite app_length, repeat_length in Hk0, Hm, Hreq. now apply dec_loop_complete_aux.
Qed.
(* ====================== the whole decoder ====================== *)
Lemma bytes_okb_filter strict s : bytes_okb s = true -> bytes_okb (b32_filter strict s) = true.
Proof.
  destruct strict; [trivial|]. cbn [b32_filter]. induction s as [|c s IH]; [reflexivity|].
  intros H. apply bytes_okb_cons in H. destruct H as [Hc Hs]. cbn [filter].
  destruct (negb _); [apply bytes_okb_cons; split; [exact Hc|now apply IH]|now apply IH].
Qed.

Lemma base32_decode_loop req strict s : bytes_okb s = true ->
  base32_decode req strict s = b32_dec_loop req (b32_build_reverse (negb strict)) (b32_filter strict s).
Proof.
  intros Hok. unfold base32_decode. destruct s as [|c s']; [destruct strict; reflexivity|]. cbn [is_nil].
  change (if strict then c :: s' else filter (fun c => negb (is_space c)) (c :: s')) with (b32_filter strict (c :: s')).
  assert (Hf := bytes_okb_filter strict _ Hok). set (f := b32_filter strict (c :: s')) in *. clearbody f.
  match goal with |- (if ?b then _ else _) = _ => destruct b eqn:Hpre end; [|reflexivity].
  destruct (b32_dec_loop req (b32_build_reverse (negb strict)) f) as [d|] eqn:Hd; [|reflexivity]. exfalso.
  destruct (dec_loop_sound req strict f Hf d Hd) as [(body & k & _ & _ & _ & _ & (Hm1 & Hm3 & Hm6) & Hreq) _].
  destruct req.
  - apply negb_true_iff, Nat.eqb_neq in Hpre. now apply Hpre, Hreq.
  - apply orb_true_iff in Hpre. destruct Hpre as [Hpre|Hpre]; [apply orb_true_iff in Hpre; destruct Hpre as [Hpre|Hpre]|];
      apply Nat.eqb_eq in Hpre; contradiction.
Qed.

Theorem base32_decode_language req strict s : bytes_okb s = true ->
  ((exists d, base32_decode req strict s = Some d) <-> b32_lang req strict (b32_filter strict s)).
Proof.
  intros Hok. rewrite base32_decode_loop by exact Hok. split.
  - intros [d Hd]. now apply (dec_loop_sound req strict _ (bytes_okb_filter strict s Hok) d).
  - apply dec_loop_complete.
Qed.

Theorem base32_decode_value req strict s d : bytes_okb s = true ->
  base32_decode req strict s = Some d -> d = b32_spec_value strict (b32_filter strict s).
Proof.
  intros Hok. rewrite base32_decode_loop by exact Hok. intros Hd.
  now apply (dec_loop_sound req strict _ (bytes_okb_filter strict s Hok) d).
Qed.

(* ---------- every decoded element is a byte (any input, any table) ---------- *)
Lemma u8_okb x : byte_okb (u8 x) = true.
Proof.
  unfold byte_okb, u8. apply N.ltb_lt. change 0xFF%Z with (Z.ones 8). rewrite Z.land_ones by lia.
  pose proof (Z.mod_pos_bound x (2 ^ 8) ltac:(lia)) as Hb. change (2 ^ 8)%Z with 256%Z in *. lia.
Qed.
Lemma dec_b0_okb a b : byte_okb (dec_b0 a b) = true. Proof. apply u8_okb. Qed.
Lemma dec_b1_okb a b c : byte_okb (dec_b1 a b c) = true. Proof. apply u8_okb. Qed.
Lemma dec_b2_okb a b : byte_okb (dec_b2 a b) = true. Proof. apply u8_okb. Qed.
Lemma dec_b3_okb a b c : byte_okb (dec_b3 a b c) = true. Proof. apply u8_okb. Qed.
Lemma dec_b4_okb a b : byte_okb (dec_b4 a b) = true. Proof. apply u8_okb. Qed.
Ltac okb_explicit := cbn [bytes_okb forallb]; rewrite ?dec_b0_okb, ?dec_b1_okb, ?dec_b2_okb, ?dec_b3_okb, ?dec_b4_okb; reflexivity.

Lemma dec_loop_ok req rev s : forall d, b32_dec_loop req rev s = Some d -> bytes_okb d = true.
Proof.
  induction s as [s Hlen|x0 x1 x2 x3 x4 x5 x6 x7 s IH] using list_ind8; intros d H.
  - rewrite dec_loop_short in H by exact Hlen. apply dec_tail_inv in H.
    destruct H as [[_ ->]|[(_ & x0 & x1 & _ & _ & ->)|[(_ & x0 & x1 & x2 & x3 & _ & _ & ->)|
      [(_ & x0 & x1 & x2 & x3 & x4 & _ & _ & ->)|(_ & x0 & x1 & x2 & x3 & x4 & x5 & x6 & _ & _ & ->)]]]]; okb_explicit.
  - apply dec_loop_inv in H.
    destruct H as [(_ & _ & _ & ->)|[(_ & _ & _ & ->)|[(_ & _ & _ & ->)|[(_ & _ & _ & ->)|(_ & o & Ho & ->)]]]];
      try okb_explicit.
    rewrite bytes_okb_app, (IH o Ho), andb_true_r. okb_explicit.
Qed.

Theorem base32_decode_ok req strict s d : base32_decode req strict s = Some d -> bytes_okb d = true.
Proof.
  unfold base32_decode. destruct (is_nil s); [intros H; injection H as <-; reflexivity|].
  match goal with |- (if ?b then _ else _) = _ -> _ => destruct b end; [discriminate|]. apply dec_loop_ok.
Qed.
(* ====================== round trip ====================== *)
Definition cv (c : N) : Z := Z.of_N (b32_char_value true c).
Lemma tbl_upper strict x : b32_is_char true x = true -> rev_at (b32_build_reverse (negb strict)) x = cv x.
Proof.
  intros H. pose proof (is_char_byte true x H) as Hx. destruct (upper_char strict x Hx H) as [H1 H2].
  rewrite (tbl_char strict x H1). unfold cv. now rewrite H2.
Qed.

Ltac sweepz2 := intros a b Ha Hb; apply Z.eqb_eq; revert a b Ha Hb;
  match goal with |- forall a b, a < ?n -> b < ?n -> ?p = true => apply (all2_spec n (fun a b => p)) end; vm_compute; reflexivity.

Lemma rt0 b0 b1 : b0 < 256 -> b1 < 256 -> dec_b0 (cv (enc_s0 b0)) (cv (enc_s1 b0 b1)) = b0.
Proof. revert b0 b1. sweep2. Qed.
Lemma rt0t b0 : b0 < 256 -> dec_b0 (cv (enc_s0 b0)) (cv (enc_t1 b0)) = b0.
Proof. revert b0. sweep1. Qed.

(* b1 depends on three input bytes syntactically; the parts of the symbols it uses depend on one *)
Lemma ind1a b0 b1 : b0 < 256 -> b1 < 256 -> Z.land (cv (enc_s1 b0 b1)) 3 = Z.land (cv (enc_s1 0 b1)) 3.
Proof. revert b0 b1. sweepz2. Qed.
Lemma ind1b b1 b2 : b1 < 256 -> b2 < 256 ->
  Z.land (Z.shiftr (cv (enc_s3 b1 b2)) 4) 1 = Z.land (Z.shiftr (cv (enc_s3 b1 0)) 4) 1.
Proof. revert b1 b2. sweepz2. Qed.
Lemma rt1z b1 : b1 < 256 -> dec_b1 (cv (enc_s1 0 b1)) (cv (enc_s2 b1)) (cv (enc_s3 b1 0)) = b1.
Proof. revert b1. sweep1. Qed.
Lemma rt1 b0 b1 b2 : b0 < 256 -> b1 < 256 -> b2 < 256 ->
  dec_b1 (cv (enc_s1 b0 b1)) (cv (enc_s2 b1)) (cv (enc_s3 b1 b2)) = b1.
Proof.
  intros H0 H1 H2. pose proof (rt1z b1 H1) as R. unfold dec_b1 in R |- *.
  rewrite (ind1a b0 b1 H0 H1), (ind1b b1 b2 H1 H2). exact R.
Qed.
Lemma rt1t b0 b1 : b0 < 256 -> b1 < 256 -> dec_b1 (cv (enc_s1 b0 b1)) (cv (enc_s2 b1)) (cv (enc_t3 b1)) = b1.
Proof. revert b0 b1. sweep2. Qed.

Lemma ind2a b1 b2 : b1 < 256 -> b2 < 256 -> Z.land (cv (enc_s3 b1 b2)) 15 = Z.land (cv (enc_s3 0 b2)) 15.
Proof. revert b1 b2. sweepz2. Qed.
Lemma ind2b b2 b3 : b2 < 256 -> b3 < 256 ->
  Z.land (Z.shiftr (cv (enc_s4 b2 b3)) 1) 15 = Z.land (Z.shiftr (cv (enc_s4 b2 0)) 1) 15.
Proof. revert b2 b3. sweepz2. Qed.
Lemma rt2z b2 : b2 < 256 -> dec_b2 (cv (enc_s3 0 b2)) (cv (enc_s4 b2 0)) = b2.
Proof. revert b2. sweep1. Qed.
Lemma rt2 b1 b2 b3 : b1 < 256 -> b2 < 256 -> b3 < 256 -> dec_b2 (cv (enc_s3 b1 b2)) (cv (enc_s4 b2 b3)) = b2.
Proof.
  intros H1 H2 H3. pose proof (rt2z b2 H2) as R. unfold dec_b2 in R |- *.
  rewrite (ind2a b1 b2 H1 H2), (ind2b b2 b3 H2 H3). exact R.
Qed.
Lemma rt2t b1 b2 : b1 < 256 -> b2 < 256 -> dec_b2 (cv (enc_s3 b1 b2)) (cv (enc_t4 b2)) = b2.
Proof. revert b1 b2. sweep2. Qed.

Lemma ind3a b2 b3 : b2 < 256 -> b3 < 256 -> Z.land (cv (enc_s4 b2 b3)) 1 = Z.land (cv (enc_s4 0 b3)) 1.
Proof. revert b2 b3. sweepz2. Qed.
Lemma ind3b b3 b4 : b3 < 256 -> b4 < 256 ->
  Z.land (Z.shiftr (cv (enc_s6 b3 b4)) 3) 3 = Z.land (Z.shiftr (cv (enc_s6 b3 0)) 3) 3.
Proof. revert b3 b4. sweepz2. Qed.
Lemma rt3z b3 : b3 < 256 -> dec_b3 (cv (enc_s4 0 b3)) (cv (enc_s5 b3)) (cv (enc_s6 b3 0)) = b3.
Proof. revert b3. sweep1. Qed.
Lemma rt3 b2 b3 b4 : b2 < 256 -> b3 < 256 -> b4 < 256 ->
  dec_b3 (cv (enc_s4 b2 b3)) (cv (enc_s5 b3)) (cv (enc_s6 b3 b4)) = b3.
Proof.
  intros H2 H3 H4. pose proof (rt3z b3 H3) as R. unfold dec_b3 in R |- *.
  rewrite (ind3a b2 b3 H2 H3), (ind3b b3 b4 H3 H4). exact R.
Qed.
Lemma rt3t b2 b3 : b2 < 256 -> b3 < 256 -> dec_b3 (cv (enc_s4 b2 b3)) (cv (enc_s5 b3)) (cv (enc_t6 b3)) = b3.
Proof. revert b2 b3. sweep2. Qed.
Lemma rt4 b3 b4 : b3 < 256 -> b4 < 256 -> dec_b4 (cv (enc_s6 b3 b4)) (cv (enc_s7 b4)) = b4.
Proof. revert b3 b4. sweep2. Qed.
Ltac charfact := auto using s0_char, s1_char, s2_char, s3_char, s4_char, s5_char, s6_char, s7_char,
  t1_char, t3_char, t4_char, t6_char.
Ltac sym_side strict :=
  first [ apply tbl_pad
        | apply (is_char_not_pad true); charfact
        | rewrite (tbl_upper strict) by charfact; apply N2Z.is_nonneg ].

Lemma dec_enc_loop pad req strict d : bytes_okb d = true ->
  (req = true -> pad = true \/ (length d mod 5 = 0)%nat) ->
  b32_dec_loop req (b32_build_reverse (negb strict)) (b32_enc_loop pad d) = Some d.
Proof.
  induction d as [d Hlen|b0 b1 b2 b3 b4 d IH] using list_ind5; intros Hok Hreq.
  - destruct d as [|b0 [|b1 [|b2 [|b3 [|b4 d]]]]]; [| | | | |cbn in Hlen; lia]; clear Hlen; okb Hok.
    + reflexivity.
    + destruct pad.
      * change (b32_enc_loop true [b0]) with [enc_s0 b0; enc_t1 b0; 61; 61; 61; 61; 61; 61].
        rewrite dec_loop_pad6 by sym_side strict. rewrite !(tbl_upper strict) by charfact.
        now rewrite rt0t by assumption.
      * destruct req; [destruct (Hreq eq_refl); discriminate|].
        change (b32_enc_loop false [b0]) with [enc_s0 b0; enc_t1 b0].
        rewrite dec_tail_2 by sym_side strict. rewrite !(tbl_upper strict) by charfact.
        now rewrite rt0t by assumption.
    + destruct pad.
      * change (b32_enc_loop true [b0; b1]) with [enc_s0 b0; enc_s1 b0 b1; enc_s2 b1; enc_t3 b1; 61; 61; 61; 61].
        rewrite dec_loop_pad4 by sym_side strict. rewrite !(tbl_upper strict) by charfact.
        now rewrite rt0, rt1t by assumption.
      * destruct req; [destruct (Hreq eq_refl); discriminate|].
        change (b32_enc_loop false [b0; b1]) with [enc_s0 b0; enc_s1 b0 b1; enc_s2 b1; enc_t3 b1].
        rewrite dec_tail_4 by sym_side strict. rewrite !(tbl_upper strict) by charfact.
        now rewrite rt0, rt1t by assumption.
    + destruct pad.
      * change (b32_enc_loop true [b0; b1; b2])
          with [enc_s0 b0; enc_s1 b0 b1; enc_s2 b1; enc_s3 b1 b2; enc_t4 b2; 61; 61; 61].
        rewrite dec_loop_pad3 by sym_side strict. rewrite !(tbl_upper strict) by charfact.
        now rewrite rt0, rt1, rt2t by assumption.
      * destruct req; [destruct (Hreq eq_refl); discriminate|].
        change (b32_enc_loop false [b0; b1; b2]) with [enc_s0 b0; enc_s1 b0 b1; enc_s2 b1; enc_s3 b1 b2; enc_t4 b2].
        rewrite dec_tail_5 by sym_side strict. rewrite !(tbl_upper strict) by charfact.
        now rewrite rt0, rt1, rt2t by assumption.
    + destruct pad.
      * change (b32_enc_loop true [b0; b1; b2; b3])
          with [enc_s0 b0; enc_s1 b0 b1; enc_s2 b1; enc_s3 b1 b2; enc_s4 b2 b3; enc_s5 b3; enc_t6 b3; 61].
        rewrite dec_loop_pad1 by sym_side strict. rewrite !(tbl_upper strict) by charfact.
        now rewrite rt0, rt1, rt2, rt3t by assumption.
      * destruct req; [destruct (Hreq eq_refl); discriminate|].
        change (b32_enc_loop false [b0; b1; b2; b3])
          with [enc_s0 b0; enc_s1 b0 b1; enc_s2 b1; enc_s3 b1 b2; enc_s4 b2 b3; enc_s5 b3; enc_t6 b3].
        rewrite dec_tail_7 by sym_side strict. rewrite !(tbl_upper strict) by charfact.
        now rewrite rt0, rt1, rt2, rt3t by assumption.
  - okb Hok. rewrite enc_loop_unfold. rewrite dec_loop_full by sym_side strict.
    rewrite IH; [|exact Hok|].
    + cbn [opt_app app]. rewrite !(tbl_upper strict) by charfact.
      now rewrite rt0, rt1, rt2, rt3, rt4 by assumption.
    + intros Hr. destruct (Hreq Hr) as [Hp|Hl]; [now left|right].
      cbn [length] in Hl. replace (S (S (S (S (S (length d))))))%nat with (length d + 1 * 5)%nat in Hl by lia.
      now rewrite Nat.mod_add in Hl by discriminate.
Qed.

Lemma filter_nospace strict s : Forall out_char s -> b32_filter strict s = s.
Proof.
  destruct strict; [reflexivity|]. cbn [b32_filter]. induction 1 as [|c s Hc _ IH]; [reflexivity|]. cbn [filter].
  replace (negb ((c =? 32) || (c =? 10) || (c =? 13) || (c =? 9))) with true; [now rewrite IH|].
  symmetry. destruct Hc as [Hc| ->]; [|reflexivity].
  destruct (N.eqb_spec c 32) as [->|]; [discriminate Hc|]. destruct (N.eqb_spec c 10) as [->|]; [discriminate Hc|].
  destruct (N.eqb_spec c 13) as [->|]; [discriminate Hc|]. destruct (N.eqb_spec c 9) as [->|]; [discriminate Hc|]. reflexivity.
Qed.
Lemma out_char_bytes s : Forall out_char s -> bytes_okb s = true.
Proof.
  induction 1 as [|c s Hc _ IH]; [reflexivity|]. apply bytes_okb_cons. split; [|exact IH].
  destruct Hc as [Hc| ->]; [now apply is_char_byte in Hc|reflexivity].
Qed.

Theorem base32_roundtrip pad req strict d : bytes_okb d = true ->
  (req = true -> pad = true \/ (length d mod 5 = 0)%nat) ->
  base32_decode req strict (base32_encode pad d) = Some d.
Proof.
  intros Hok Hreq. rewrite encode_is_loop. pose proof (enc_loop_alphabet pad d Hok) as Ha.
  rewrite base32_decode_loop by (now apply out_char_bytes). rewrite filter_nospace by exact Ha.
  now apply dec_enc_loop.
Qed.
