(* Model_Base64: src/encoding.cpp lines 18-194 (b64_alphabet, b64_build_reverse, base64_encode, is_space,
   base64_decode(string, vector)) as total executable functions mirroring the code's control flow.
   Characters and bytes are N; int8_t table entries are Z (-1 = not in the alphabet, -2 = padding marker).
   Definitions only. *)
From HV Require Import Base_Bytes.
Local Open Scope N_scope.

(* encoding.cpp:22-26  the two 64-character string literals, as ASCII codes *)
Definition b64_alphabet (url : bool) : list N :=
  [65; 66; 67; 68; 69; 70; 71; 72; 73; 74; 75; 76; 77; 78; 79; 80; 81; 82; 83; 84; 85; 86; 87; 88; 89; 90;
   97; 98; 99; 100; 101; 102; 103; 104; 105; 106; 107; 108; 109; 110; 111; 112; 113; 114; 115; 116; 117; 118;
   119; 120; 121; 122; 48; 49; 50; 51; 52; 53; 54; 55; 56; 57]
  ++ (if url then [45; 95] (* "-_" *) else [43; 47] (* "+/" *)).

(* alpha[i] *)
Definition b64_alpha_at (alpha : list N) (i : N) : N := nth (N.to_nat i) alpha 0.

(* int8_t rev[256] as a finite map; rev[i] = v is the functional update *)
Definition b64_rev_set (rev : N -> Z) (i : N) (v : Z) : N -> Z := fun j => if j =? i then v else rev j.

(* encoding.cpp:31-33  for (i = 0; i < 64; ++i) rev[(unsigned char)alpha[i]] = i; *)
Fixpoint b64_rev_fill (alpha : list N) (i : Z) (rev : N -> Z) : N -> Z :=
  match alpha with
  | [] => rev
  | a :: alpha' => b64_rev_fill alpha' (i + 1)%Z (b64_rev_set rev a i)
  end.

(* encoding.cpp:28-39 *)
Definition b64_build_reverse (url allow_alias : bool) : N -> Z :=
  let rev := fun _ : N => (-1)%Z in                               (* :29 *)
  let rev := b64_rev_fill (b64_alphabet url) 0%Z rev in           (* :30-33 *)
  let rev := if url && allow_alias                                (* :34-37 *)
             then b64_rev_set (b64_rev_set rev 43 62%Z) 47 63%Z
             else rev in
  b64_rev_set rev 61 (-2)%Z.                                      (* :38 *)

(* encoding.cpp:47-49  out_len; the string is resized to it and then filled by out[op++] = ..., which the
   model renders as consing the characters in order (Proofs_Base64.b64_encode_length: the two agree) *)
Definition b64_out_len (len : nat) (pad : bool) : nat :=
  let full := (len / 3)%nat in
  let rem := (len mod 3)%nat in
  (full * 4 + (if (rem =? 0)%nat then 0 else if pad then 4 else if (rem =? 1)%nat then 2 else 3))%nat.

(* encoding.cpp:57-86  the loop over the full 3-byte groups, then the rem == 1 / rem == 2 tails *)
Fixpoint b64_encode_loop (alpha : list N) (pad : bool) (data : list N) : list N :=
  match data with
  | d0 :: d1 :: d2 :: rest =>                                                        (* :57-67 *)
      let n := N.lor (N.lor (N.shiftl d0 16) (N.shiftl d1 8)) d2 in
      b64_alpha_at alpha (N.land (N.shiftr n 18) 0x3F) ::
      b64_alpha_at alpha (N.land (N.shiftr n 12) 0x3F) ::
      b64_alpha_at alpha (N.land (N.shiftr n 6) 0x3F) ::
      b64_alpha_at alpha (N.land n 0x3F) ::
      b64_encode_loop alpha pad rest
  | [d0] =>                                                                          (* :69-76 *)
      let n := N.shiftl d0 16 in
      b64_alpha_at alpha (N.land (N.shiftr n 18) 0x3F) ::
      b64_alpha_at alpha (N.land (N.shiftr n 12) 0x3F) ::
      (if pad then [61; 61] else [])
  | [d0; d1] =>                                                                      (* :77-86 *)
      let n := N.lor (N.shiftl d0 16) (N.shiftl d1 8) in
      b64_alpha_at alpha (N.land (N.shiftr n 18) 0x3F) ::
      b64_alpha_at alpha (N.land (N.shiftr n 12) 0x3F) ::
      b64_alpha_at alpha (N.land (N.shiftr n 6) 0x3F) ::
      (if pad then [61] else [])
  | [] => []
  end.

(* encoding.cpp:41-89 *)
Definition base64_encode (url pad : bool) (data : list N) : list N :=
  match data with
  | [] => []                                                                         (* :43 *)
  | _ => b64_encode_loop (b64_alphabet url) pad data
  end.

(* encoding.cpp:91-93 *)
Definition is_space (c : N) : bool := (c =? 32) || (c =? 10) || (c =? 13) || (c =? 9).

(* static_cast<uint8_t>((n >> sh) & 0xFF) *)
Definition b64_out_byte (n sh : N) : N := N.land (N.shiftr n sh) 0xFF.

(* encoding.cpp:127-193  the quartet loop and the unpadded tail. `out` is the output vector in reverse
   (push_back = cons; rev_append out [] is the linear-time reversal); `rest = []` is the test i + 4 == L. *)
Fixpoint b64_decode_loop (rev : N -> Z) (require_padding : bool) (s : list N) (out : list N) : option (list N) :=
  match s with
  | c0 :: c1 :: c2 :: c3 :: rest =>                                                  (* :127 while (i + 4 <= L) *)
      let v0 := rev c0 in let v1 := rev c1 in let v2 := rev c2 in let v3 := rev c3 in (* :128-131 *)
      if (v0 <? 0)%Z || (v1 <? 0)%Z then None else                                   (* :132 *)
      let pad2 := (v2 =? -2)%Z in                                                    (* :134 *)
      let pad3 := (v3 =? -2)%Z in                                                    (* :135 *)
      if pad2 then                                                                   (* :137 *)
        match rest with
        | _ :: _ => None                                                             (* :138 *)
        | [] =>
          if negb (v3 =? -2)%Z then None else                                        (* :139 *)
          let n := N.lor (N.shiftl (Z.to_N v0) 18) (N.shiftl (Z.to_N v1) 12) in      (* :140-141 *)
          Some (rev_append (b64_out_byte n 16 :: out) [])   (* :142-143 *)
        end
      else if pad3 then                                                              (* :144 *)
        match rest with
        | _ :: _ => None                                                             (* :145 *)
        | [] =>
          if (v2 <? 0)%Z || (v2 =? -2)%Z then None else                              (* :146 *)
          let n := N.lor (N.lor (N.shiftl (Z.to_N v0) 18) (N.shiftl (Z.to_N v1) 12))
                         (N.shiftl (Z.to_N v2) 6) in                                 (* :147-149 *)
          Some (rev_append (b64_out_byte n 8 :: b64_out_byte n 16 :: out) [])   (* :150-152 *)
        end
      else
        if (v2 <? 0)%Z || (v3 <? 0)%Z then None else                                 (* :154 *)
        let n := N.lor (N.lor (N.lor (N.shiftl (Z.to_N v0) 18) (N.shiftl (Z.to_N v1) 12))
                              (N.shiftl (Z.to_N v2) 6)) (Z.to_N v3) in               (* :155-158 *)
        b64_decode_loop rev require_padding rest
          (b64_out_byte n 0 :: b64_out_byte n 8 :: b64_out_byte n 16 :: out)         (* :159-163 *)
  | [] => Some (rev_append out [])   (* :166-169 rem == 0 *)
  | [_] => None                                                                      (* rem == 1: :170-172 or :193 *)
  | [c0; c1] =>                                                                      (* rem == 2 *)
      if require_padding then None else                                              (* :170-172 *)
      let v0 := rev c0 in let v1 := rev c1 in                                        (* :174-175 *)
      if (v0 <? 0)%Z || (v1 <? 0)%Z then None else                                   (* :176 *)
      let n := N.lor (N.shiftl (Z.to_N v0) 18) (N.shiftl (Z.to_N v1) 12) in          (* :177-178 *)
      Some (rev_append (b64_out_byte n 16 :: out) [])   (* :179-180 *)
  | [c0; c1; c2] =>                                                                  (* rem == 3 *)
      if require_padding then None else                                              (* :170-172 *)
      let v0 := rev c0 in let v1 := rev c1 in let v2 := rev c2 in                    (* :182-184 *)
      if (v0 <? 0)%Z || (v1 <? 0)%Z || (v2 <? 0)%Z then None else                    (* :185 *)
      let n := N.lor (N.lor (N.shiftl (Z.to_N v0) 18) (N.shiftl (Z.to_N v1) 12))
                     (N.shiftl (Z.to_N v2) 6) in                                     (* :186-188 *)
      Some (rev_append (b64_out_byte n 8 :: b64_out_byte n 16 :: out) [])   (* :189-191 *)
  end.

(* encoding.cpp:95-194.  None = returns false (out is then left cleared or partially filled; not modelled). *)
Definition base64_decode (url require_padding strict : bool) (input : list N) : option (list N) :=
  match input with
  | [] => Some []                                                                    (* :97-98 *)
  | _ =>
    let filtered := if strict then input                                             (* :100-109 *)
                    else filter (fun c => negb (is_space c)) input in
    let L := length filtered in                                                      (* :112 *)
    if (if require_padding then negb (L mod 4 =? 0)%nat else (L mod 4 =? 1)%nat)     (* :113-117 *)
    then None else
    let rev := b64_build_reverse url (negb strict) in                                (* :119-120 *)
    b64_decode_loop rev require_padding filtered []                                  (* :125-193 *)
  end.
