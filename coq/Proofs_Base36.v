(* Proofs_Base36: all lemmas for property C15 (Base36 codec). *)
From HV Require Import Base_Bytes Base_BytesLemmas Spec_Base36 Model_Base36.
Local Open Scope N_scope.
Ltac Zify.zify_post_hook ::= Z.to_euclidean_division_equations.

(* ================================================================================================ *)
(* 1. bit twiddling as arithmetic                                                                   *)
(* ================================================================================================ *)
Lemma b36_land_shiftl_small a b n : b < 2 ^ n -> N.land (N.shiftl a n) b = 0.
Proof.
  intros Hb. apply N.bits_inj_0. intros i. rewrite N.land_spec.
  destruct (N.lt_ge_cases i n) as [Hi|Hi].
  - now rewrite N.shiftl_spec_low.
  - rewrite <- (N.mod_small b (2 ^ n)) by exact Hb. rewrite N.mod_pow2_bits_high by exact Hi. apply andb_false_r.
Qed.
Lemma b36_lor_shiftl_add a b n : b < 2 ^ n -> N.lor (N.shiftl a n) b = a * 2 ^ n + b.
Proof.
  intros Hb. rewrite <- N.lxor_lor by (now apply b36_land_shiftl_small).
  rewrite <- N.add_nocarry_lxor by (now apply b36_land_shiftl_small). now rewrite N.shiftl_mul_pow2.
Qed.
Lemma b36_land_ff b : N.land b 0xFF = b mod 256.
Proof. change 0xFF with (N.ones 8). now rewrite N.land_ones. Qed.
Lemma b36_shiftr_8 b : N.shiftr b 8 = b / 256.
Proof. now rewrite N.shiftr_div_pow2. Qed.

(* ================================================================================================ *)
(* 2. generic list facts                                                                            *)
(* ================================================================================================ *)
Lemma bytes_okb_cons x l : bytes_okb (x :: l) = true <-> x < 256 /\ bytes_okb l = true.
Proof.
  unfold bytes_okb. cbn [forallb]. rewrite andb_true_iff. unfold byte_okb. rewrite N.ltb_lt. tauto.
Qed.
Lemma bytes_okb_Forall l : bytes_okb l = true <-> Forall (fun d => d < 256) l.
Proof.
  induction l as [|x l IH].
  - split; intros; [constructor|reflexivity].
  - rewrite bytes_okb_cons, IH. split.
    + intros [Hx Hl]. now constructor.
    + intros H. inversion H; subst. tauto.
Qed.
Lemma bytes_okb_repeat0 n : bytes_okb (repeat 0 n) = true.
Proof. induction n as [|n IH]; [reflexivity|]. cbn [repeat]. apply bytes_okb_cons. split; [lia|exact IH]. Qed.
Lemma bytes_okb_skipn n l : bytes_okb l = true -> bytes_okb (skipn n l) = true.
Proof.
  revert l. induction n as [|n IH]; intros l Hl; [exact Hl|].
  destruct l as [|x l]; [reflexivity|]. cbn [skipn]. apply IH. now apply bytes_okb_cons in Hl.
Qed.
Lemma repeat_snoc {A} (x : A) n : repeat x n ++ [x] = repeat x (n + 1).
Proof. induction n as [|n IH]; [reflexivity|]. cbn [repeat app Nat.add]. now rewrite IH. Qed.

(* "no leading zero": the head, if any, is not 0 *)
Definition nolead (l : list N) : Prop := hd 1 l <> 0.
Lemma nolead_nil : nolead []. Proof. unfold nolead. cbn. lia. Qed.
Lemma nolead_snoc l x : l <> [] -> nolead (l ++ [x]) <-> nolead l.
Proof. intros Hl. destruct l as [|y l]; [congruence|]. reflexivity. Qed.

(* ================================================================================================ *)
(* 3. positional numerals (spec level)                                                              *)
(* ================================================================================================ *)
Lemma value_base_nil b : value_base b [] = 0. Proof. reflexivity. Qed.
Lemma value_base_snoc b l x : value_base b (l ++ [x]) = value_base b l * b + x.
Proof. unfold value_base. now rewrite fold_left_app. Qed.
Lemma fold_value_shift b l a :
  fold_left (fun acc d => acc * b + d) l a = a * b ^ N.of_nat (length l) + value_base b l.
Proof.
  revert a. induction l as [|x l IH]; intros a.
  - cbn. lia.
  - unfold value_base. cbn [fold_left length]. rewrite (IH (a * b + x)), (IH (0 * b + x)).
    rewrite Nat2N.inj_succ, N.pow_succ_r'. lia.
Qed.
Lemma value_base_cons b x l : value_base b (x :: l) = x * b ^ N.of_nat (length l) + value_base b l.
Proof. unfold value_base at 1. cbn [fold_left]. rewrite fold_value_shift. lia. Qed.
Lemma value_base_app b l1 l2 :
  value_base b (l1 ++ l2) = value_base b l1 * b ^ N.of_nat (length l2) + value_base b l2.
Proof. unfold value_base at 1. rewrite fold_left_app. apply fold_value_shift. Qed.
Lemma value_base_repeat0 b n : value_base b (repeat 0 n) = 0.
Proof. induction n as [|n IH]; [reflexivity|]. cbn [repeat]. rewrite value_base_cons, IH. lia. Qed.
Lemma value_base_lt b l : Forall (fun d => d < b) l -> value_base b l < b ^ N.of_nat (length l).
Proof.
  intros H. induction l as [|x l IH] using rev_ind.
  - cbn. lia.
  - apply Forall_app in H. destruct H as [Hl Hx]. inversion Hx; subst.
    rewrite value_base_snoc, app_length. cbn [length]. rewrite Nat.add_1_r, Nat2N.inj_succ, N.pow_succ_r'.
    specialize (IH Hl). nia.
Qed.
Lemma value_base_pos b l : l <> [] -> nolead l -> 0 < value_base b l \/ b = 0.
Proof.
  intros Hl Hn. destruct l as [|x l]; [congruence|]. unfold nolead in Hn. cbn [hd] in Hn.
  rewrite value_base_cons. destruct (N.eq_dec b 0) as [Hb|Hb]; [now right|left].
  assert (0 < b ^ N.of_nat (length l)) by (apply N.neq_0_lt_0, N.pow_nonzero; exact Hb). nia.
Qed.

(* the fuel of digits_be is sufficient *)
Lemma pos_size_nat_gt p : N.pos p < 2 ^ N.of_nat (Pos.size_nat p).
Proof.
  induction p as [p IH|p IH|]; cbn [Pos.size_nat]; [| |cbn; lia]; rewrite Nat2N.inj_succ, N.pow_succ_r'; lia.
Qed.
Lemma size_nat_gt n : n < 2 ^ N.of_nat (N.size_nat n).
Proof. destruct n as [|p]; [cbn; lia|apply pos_size_nat_gt]. Qed.

Lemma digits_fuel_acc f b n acc : digits_fuel f b n acc = digits_fuel f b n [] ++ acc.
Proof.
  revert n acc. induction f as [|f IH]; intros n acc; [reflexivity|].
  cbn [digits_fuel]. destruct (n =? 0); [reflexivity|].
  rewrite (IH (n / b) (n mod b :: acc)), (IH (n / b) [n mod b]), <- app_assoc. reflexivity.
Qed.
Lemma div_lt_pow2 b n k : 2 <= b -> n < 2 ^ N.succ k -> n / b < 2 ^ k.
Proof.
  intros Hb Hn. rewrite N.pow_succ_r' in Hn.
  assert (n / b <= n / 2) by (apply N.div_le_compat_l; lia).
  assert (n / 2 < 2 ^ k) by (apply N.div_lt_upper_bound; lia). lia.
Qed.
Lemma digits_fuel_indep b f1 : 2 <= b -> forall n f2, n < 2 ^ N.of_nat f1 -> n < 2 ^ N.of_nat f2 ->
  digits_fuel f1 b n [] = digits_fuel f2 b n [].
Proof.
  intros Hb. induction f1 as [|f1 IH]; intros n f2 H1 H2.
  - cbn in H1. assert (n = 0) by lia. subst n. destruct f2; reflexivity.
  - destruct (N.eqb_spec n 0) as [Hn|Hn].
    + subst n. destruct f2; reflexivity.
    + destruct f2 as [|f2]; [cbn in H2; lia|].
      cbn [digits_fuel]. apply N.eqb_neq in Hn. rewrite Hn.
      rewrite (digits_fuel_acc f1), (digits_fuel_acc f2). f_equal.
      rewrite Nat2N.inj_succ in H1, H2. apply IH; apply div_lt_pow2; assumption.
Qed.
Lemma digits_be_0 b : digits_be b 0 = [].
Proof. reflexivity. Qed.
Lemma digits_be_unfold b n : 2 <= b -> n <> 0 -> digits_be b n = digits_be b (n / b) ++ [n mod b].
Proof.
  intros Hb Hn. unfold digits_be. pose proof (size_nat_gt n) as Hs.
  destruct (N.size_nat n) as [|k] eqn:Ek; [cbn in Hs; lia|].
  cbn [digits_fuel]. apply N.eqb_neq in Hn. rewrite Hn. rewrite digits_fuel_acc. f_equal.
  rewrite Nat2N.inj_succ in Hs. apply digits_fuel_indep; [exact Hb| |apply size_nat_gt].
  apply div_lt_pow2; assumption.
Qed.

(* induction along n -> n / b *)
Lemma div_ind b (P : N -> Prop) : 2 <= b -> P 0 -> (forall n, n <> 0 -> P (n / b) -> P n) -> forall n, P n.
Proof.
  intros Hb H0 Hstep n. induction n as [n IH] using (well_founded_induction N.lt_wf_0).
  destruct (N.eq_dec n 0) as [Hn|Hn]; [subst; exact H0|].
  apply Hstep; [exact Hn|]. apply IH. apply N.div_lt; lia.
Qed.

Lemma digits_be_value b n : 2 <= b -> value_base b (digits_be b n) = n.
Proof.
  intros Hb. revert n. apply (div_ind b); [exact Hb|reflexivity|intros n Hn IH].
  rewrite digits_be_unfold by assumption. rewrite value_base_snoc, IH. rewrite N.mul_comm. symmetry. apply N.div_mod'.
Qed.
Lemma digits_be_lt b n : 2 <= b -> Forall (fun d => d < b) (digits_be b n).
Proof.
  intros Hb. revert n. apply (div_ind b); [exact Hb|constructor|intros n Hn IH].
  rewrite digits_be_unfold by assumption. apply Forall_app. split; [exact IH|].
  constructor; [|constructor]. apply N.mod_lt. lia.
Qed.
Lemma digits_be_nil_iff b n : 2 <= b -> digits_be b n = [] <-> n = 0.
Proof.
  intros Hb. split.
  - intros H. destruct (N.eq_dec n 0) as [Hn|Hn]; [exact Hn|].
    rewrite digits_be_unfold in H by assumption. now destruct (digits_be b (n / b)).
  - intros ->. reflexivity.
Qed.
Lemma digits_be_nolead b n : 2 <= b -> nolead (digits_be b n).
Proof.
  intros Hb. revert n. apply (div_ind b); [exact Hb|apply nolead_nil|intros n Hn IH].
  rewrite digits_be_unfold by assumption.
  destruct (N.eq_dec (n / b) 0) as [Hq|Hq].
  - rewrite Hq. cbn [digits_be digits_fuel N.size_nat app]. unfold nolead. cbn [hd].
    assert (n < b) by (apply N.div_small_iff in Hq; lia). rewrite N.mod_small by assumption. exact Hn.
  - apply nolead_snoc; [|exact IH]. intros H. apply digits_be_nil_iff in H; [contradiction|exact Hb].
Qed.
(* uniqueness of the numeral without leading zero *)
Lemma digits_be_unique b l : 2 <= b -> Forall (fun d => d < b) l -> nolead l -> digits_be b (value_base b l) = l.
Proof.
  intros Hb. induction l as [|x l IH] using rev_ind; intros Hl Hn; [reflexivity|].
  apply Forall_app in Hl. destruct Hl as [Hl Hx]. inversion Hx as [|? ? Hxb _]; subst.
  rewrite value_base_snoc.
  destruct l as [|y l].
  - unfold nolead in Hn. cbn in Hn. cbn [value_base fold_left]. rewrite N.mul_0_l, N.add_0_l.
    rewrite digits_be_unfold by assumption. rewrite N.div_small, N.mod_small by assumption. reflexivity.
  - assert (Hn' : nolead (y :: l)) by exact Hn.
    assert (Hp : 0 < value_base b (y :: l)).
    { destruct (value_base_pos b (y :: l) ltac:(discriminate) Hn') as [Hp|Hp]; [exact Hp|lia]. }
    set (v := value_base b (y :: l)) in *.
    assert (Hv : v * b + x <> 0) by nia.
    rewrite digits_be_unfold by assumption.
    replace ((v * b + x) / b) with v by (apply N.div_unique with x; lia).
    replace ((v * b + x) mod b) with x by (apply N.mod_unique with v; lia).
    rewrite IH by assumption. reflexivity.
Qed.

(* ================================================================================================ *)
(* 4. leading elements; finite sweeps                                                               *)
(* ================================================================================================ *)
Lemma count_lead_spec x l : count_lead x l = lead_count x l.
Proof. induction l as [|y l IH]; [reflexivity|]. cbn [count_lead lead_count]. now rewrite IH. Qed.
Lemma skipn_lead_count x l : skipn (lead_count x l) l = lead_strip x l.
Proof.
  induction l as [|y l IH]; [reflexivity|]. cbn [lead_count lead_strip].
  destruct (y =? x); [exact IH|reflexivity].
Qed.
Lemma lead_split x l : l = repeat x (lead_count x l) ++ lead_strip x l.
Proof.
  induction l as [|y l IH]; [reflexivity|]. cbn [lead_count lead_strip].
  destruct (N.eqb_spec y x) as [E|E]; [|reflexivity]. subst y. cbn [repeat app]. now rewrite <- IH.
Qed.
Lemma lead_strip_hd x d l : d <> x -> hd d (lead_strip x l) <> x.
Proof.
  intros Hd. induction l as [|y l IH]; [exact Hd|]. cbn [lead_strip].
  destruct (N.eqb_spec y x) as [E|E]; [exact IH|exact E].
Qed.
Lemma lead_strip_nil_iff x l : forallb (N.eqb x) l = true <-> lead_strip x l = [].
Proof.
  induction l as [|y l IH]; [split; reflexivity|]. cbn [forallb lead_strip]. rewrite (N.eqb_sym x y).
  destruct (y =? x); [exact IH|]. split; discriminate.
Qed.
Lemma lead_count_all x l : lead_strip x l = [] -> lead_count x l = length l.
Proof.
  intros H. pose proof (lead_split x l) as E. rewrite H, app_nil_r in E.
  rewrite E at 2. now rewrite repeat_length.
Qed.
Lemma lead_count_repeat_app x n l : hd (x + 1) l <> x -> lead_count x (repeat x n ++ l) = n /\ lead_strip x (repeat x n ++ l) = l.
Proof.
  intros Hl. induction n as [|n IH].
  - cbn [repeat app]. destruct l as [|y l]; [split; reflexivity|]. cbn [hd] in Hl.
    cbn [lead_count lead_strip]. apply N.eqb_neq in Hl. rewrite Hl. split; reflexivity.
  - cbn [repeat app lead_count lead_strip]. rewrite N.eqb_refl. destruct IH as [IH1 IH2]. now rewrite IH1, IH2.
Qed.
Lemma bytes_okb_lead_strip x l : bytes_okb l = true -> bytes_okb (lead_strip x l) = true.
Proof. intros H. rewrite <- skipn_lead_count. now apply bytes_okb_skipn. Qed.

(* lifting a finite sweep *)
Lemma sweep_lt (P : N -> bool) k : forallb P (map N.of_nat (seq 0 k)) = true -> forall d, d < N.of_nat k -> P d = true.
Proof.
  intros H d Hd. rewrite forallb_forall in H. apply H.
  rewrite <- (N2Nat.id d). apply in_map, in_seq. lia.
Qed.

Lemma b36_char_digit d : d < 36 -> b36_char d = digit_char d.
Proof.
  intros Hd. apply N.eqb_eq. revert d Hd. apply (sweep_lt (fun d => b36_char d =? digit_char d) 36).
  vm_compute. reflexivity.
Qed.
Lemma digit_char_b36 d : d < 36 -> is_b36_char (digit_char d) = true.
Proof. revert d. apply (sweep_lt (fun d => is_b36_char (digit_char d)) 36). vm_compute. reflexivity. Qed.
Lemma char_val_digit d : d < 36 -> char_val (digit_char d) = d.
Proof.
  intros Hd. apply N.eqb_eq. revert d Hd. apply (sweep_lt (fun d => char_val (digit_char d) =? d) 36).
  vm_compute. reflexivity.
Qed.
Lemma digit_char_nonzero d : d < 36 -> d <> 0 -> digit_char d <> 48.
Proof. intros Hd H0 E. apply H0. rewrite <- (char_val_digit d Hd), E. reflexivity. Qed.

(* ================================================================================================ *)
(* 5. encoder                                                                                       *)
(* ================================================================================================ *)
(* one long division by 36: the invariant is  value(next) * 36 + carry = value of the bytes consumed so far *)
Lemma div_pass_spec tmp : forall carry nr c' nr',
  bytes_okb tmp = true -> carry < 36 -> bytes_okb nr = true -> nolead (rev nr) ->
  div_pass tmp carry nr = (c', nr') ->
  c' < 36 /\ bytes_okb nr' = true /\ nolead (rev nr') /\
  value_be (rev nr') * 36 + c' = fold_left (fun acc d => acc * 256 + d) tmp (value_be (rev nr) * 36 + carry).
Proof.
  induction tmp as [|t rest IH]; intros carry nr c' nr' Htmp Hc Hnr Hnl E.
  - cbn [div_pass] in E. injection E as <- <-. cbn [fold_left]. tauto.
  - apply bytes_okb_cons in Htmp. destruct Htmp as [Ht Hrest].
    cbn [div_pass] in E. cbv zeta in E.
    change 8 with (N.of_nat 8) in E.
    assert (Ecur : N.lor (N.shiftl carry (N.of_nat 8)) t = carry * 256 + t)
      by (apply (b36_lor_shiftl_add carry t (N.of_nat 8)); cbn; lia).
    rewrite Ecur in E. clear Ecur. set (cur := carry * 256 + t) in *.
    assert (Hcur : cur < 36 * 256) by (unfold cur; lia).
    assert (Ediv : N.land (cur / 36) 0xFF = cur / 36).
    { rewrite b36_land_ff. apply N.mod_small. lia. }
    rewrite Ediv in E. clear Ediv. set (dv := cur / 36) in *.
    assert (Hdv : dv < 256) by (unfold dv; lia).
    assert (Hdm : 36 * dv + cur mod 36 = cur) by (unfold dv; lia).
    assert (Hm : cur mod 36 < 36) by lia.
    assert (Ecur : cur = carry * 256 + t) by reflexivity.
    clearbody dv. clearbody cur.
    apply IH in E; try assumption.
    + destruct E as (H1 & H2 & H3 & H4). repeat split; try assumption.
      rewrite H4. cbn [fold_left]. f_equal.
      destruct nr as [|n0 nr0].
      * cbn [is_nil negb orb]. destruct (N.eqb_spec dv 0) as [E0|E0]; cbn [negb].
        -- change (value_be (rev [])) with 0. lia.
        -- change (value_be (rev [])) with 0. change (value_be (rev [dv])) with (0 * 256 + dv). lia.
      * cbn [is_nil negb orb]. change (rev (dv :: n0 :: nr0)) with (rev (n0 :: nr0) ++ [dv]).
        unfold value_be. rewrite value_base_snoc. lia.
    + destruct (negb (is_nil nr) || negb (dv =? 0)); [|exact Hnr].
      apply bytes_okb_cons. split; assumption.
    + destruct nr as [|n0 nr0].
      * cbn [is_nil negb orb]. destruct (N.eqb_spec dv 0) as [E0|E0]; cbn [negb]; [exact Hnl|].
        unfold nolead. cbn. exact E0.
      * cbn [is_nil negb orb]. change (rev (dv :: n0 :: nr0)) with (rev (n0 :: nr0) ++ [dv]).
        apply nolead_snoc; [|exact Hnl]. cbn [rev]. now destruct (rev nr0).
Qed.

Lemma digits36_unfold n : n <> 0 -> digits36 n = digits36 (n / 36) ++ [digit_char (n mod 36)].
Proof. intros Hn. unfold digits36. rewrite digits_be_unfold by (lia || assumption). now rewrite map_app. Qed.

(* the outer loop produces the base-36 numeral, least significant digit first, whenever the fuel covers the value *)
Lemma enc_loop_spec fuel : forall tmp, bytes_okb tmp = true -> nolead tmp -> value_be tmp < 36 ^ N.of_nat fuel ->
  enc_loop fuel tmp = Some (rev (digits36 (value_be tmp))).
Proof.
  induction fuel as [|f IH]; intros tmp Hok Hnl Hv.
  - destruct tmp as [|t r]; [reflexivity|].
    destruct (value_base_pos 256 (t :: r) ltac:(discriminate) Hnl) as [Hp|Hp]; [|discriminate].
    unfold value_be in Hv. change (36 ^ N.of_nat 0) with 1 in Hv. lia.
  - destruct tmp as [|t r]; [reflexivity|].
    assert (Hp : 0 < value_be (t :: r)).
    { destruct (value_base_pos 256 (t :: r) ltac:(discriminate) Hnl) as [Hp|Hp]; [exact Hp|discriminate]. }
    cbn [enc_loop]. destruct (div_pass (t :: r) 0 []) as [c nr] eqn:E.
    apply div_pass_spec in E; [|exact Hok|lia|reflexivity|apply nolead_nil].
    destruct E as (Hc & Hnr & Hnl' & Hval).
    change (fold_left (fun acc d => acc * 256 + d) (t :: r) (value_be (rev []) * 36 + 0)) with (value_be (t :: r)) in Hval.
    set (v := value_be (t :: r)) in *.
    assert (Hq : value_be (rev nr) = v / 36) by (apply N.div_unique with c; lia).
    assert (Hr : c = v mod 36) by (apply N.mod_unique with (value_be (rev nr)); lia).
    rewrite IH.
    + rewrite (digits36_unfold v) by lia. rewrite rev_app_distr. cbn [rev app].
      rewrite Hq, <- Hr, b36_char_digit by exact Hc. reflexivity.
    + now rewrite bytes_okb_rev.
    + exact Hnl'.
    + rewrite Hq. rewrite Nat2N.inj_succ, N.pow_succ_r' in Hv. apply N.div_lt_upper_bound; lia.
Qed.

Lemma pow256_le_pow36 n : 256 ^ N.of_nat n <= 36 ^ N.of_nat (2 * n + 2).
Proof.
  replace (N.of_nat (2 * n + 2)) with (2 * N.of_nat n + 2) by lia.
  rewrite N.pow_add_r, N.pow_mul_r. change (36 ^ 2) with 1296.
  assert (256 ^ N.of_nat n <= 1296 ^ N.of_nat n) by (apply N.pow_le_mono_l; lia). lia.
Qed.

(* the fuel handed to the division loop by base36_encode is never exhausted *)
Lemma enc_loop_fuel_ok d : bytes_okb d = true ->
  enc_loop (2 * length d + 2) (skipn (count_lead 0 d) d) = Some (rev (digits36 (value_be d))).
Proof.
  intros Hd. rewrite count_lead_spec, skipn_lead_count.
  assert (Ev : value_be d = value_be (lead_strip 0 d)).
  { rewrite (lead_split 0 d) at 1. unfold value_be. rewrite value_base_app, value_base_repeat0. lia. }
  rewrite Ev. apply enc_loop_spec.
  - now apply bytes_okb_lead_strip.
  - apply lead_strip_hd. discriminate.
  - assert (H1 : value_be (lead_strip 0 d) < 256 ^ N.of_nat (length (lead_strip 0 d))).
    { apply value_base_lt. apply bytes_okb_Forall. now apply bytes_okb_lead_strip. }
    assert (H2 : 256 ^ N.of_nat (length (lead_strip 0 d)) <= 256 ^ N.of_nat (length d)).
    { apply N.pow_le_mono_r; [lia|]. rewrite (lead_split 0 d) at 2. rewrite app_length. lia. }
    pose proof (pow256_le_pow36 (length d)). lia.
Qed.

Lemma base36_encode_general d : d <> [] -> d <> [0] ->
  base36_encode d =
    match enc_loop (2 * length d + 2) (skipn (count_lead 0 d) d) with
    | None => fuel_exhausted
    | Some out => repeat 48 (count_lead 0 d) ++ rev (if is_nil out then [48] else out)
    end.
Proof. intros H1 H2. destruct d as [|[|p] [|y r]]; try congruence; reflexivity. Qed.
Lemma b36_spec_encode_general d : d <> [] -> d <> [0] ->
  b36_spec_encode d =
    if forallb (N.eqb 0) d then repeat 48 (length d + 1)
    else repeat 48 (lead_count 0 d) ++ digits36 (value_be d).
Proof. intros H1 H2. destruct d as [|[|p] [|y r]]; try congruence; reflexivity. Qed.

Lemma digits36_nil_iff n : digits36 n = [] <-> n = 0.
Proof.
  unfold digits36. rewrite <- (digits_be_nil_iff 36 n) by lia.
  destruct (digits_be 36 n); cbn; split; congruence.
Qed.

Theorem base36_encode_spec d : bytes_okb d = true -> base36_encode d = b36_spec_encode d.
Proof.
  intros Hd. destruct d as [|x d']; [reflexivity|].
  destruct (list_eq_dec N.eq_dec (x :: d') [0]) as [E|E]; [rewrite E; reflexivity|].
  set (d := x :: d') in *. assert (Hne : d <> []) by discriminate.
  rewrite base36_encode_general, b36_spec_encode_general by assumption.
  rewrite enc_loop_fuel_ok by exact Hd. rewrite count_lead_spec.
  assert (Ev : value_be d = value_be (lead_strip 0 d)).
  { rewrite (lead_split 0 d) at 1. unfold value_be. rewrite value_base_app, value_base_repeat0. lia. }
  destruct (forallb (N.eqb 0) d) eqn:Ez.
  - apply lead_strip_nil_iff in Ez. rewrite Ev, Ez. cbn [value_be value_base fold_left digits36 digits_be N.size_nat digits_fuel map rev is_nil].
    rewrite (lead_count_all 0 d Ez). apply repeat_snoc.
  - assert (Hs : lead_strip 0 d <> []).
    { intros H. apply lead_strip_nil_iff in H. congruence. }
    assert (Hp : 0 < value_be d).
    { rewrite Ev. destruct (value_base_pos 256 (lead_strip 0 d) Hs) as [Hp|Hp]; [|exact Hp|discriminate].
      apply lead_strip_hd. discriminate. }
    assert (Hdg : digits36 (value_be d) <> []) by (rewrite digits36_nil_iff; lia).
    destruct (rev (digits36 (value_be d))) as [|c r] eqn:Er.
    + apply (f_equal (@rev N)) in Er. rewrite rev_involutive in Er. contradiction.
    + cbn [is_nil]. rewrite <- Er, rev_involutive. reflexivity.
Qed.

Lemma forallb_repeat {A} (P : A -> bool) x n : P x = true -> forallb P (repeat x n) = true.
Proof. intros H. induction n as [|n IH]; [reflexivity|]. cbn [repeat forallb]. now rewrite H, IH. Qed.
Lemma digits36_b36 n : forallb is_b36_char (digits36 n) = true.
Proof.
  unfold digits36. pose proof (digits_be_lt 36 n ltac:(lia)) as H.
  induction H as [|x l Hx Hl IH]; [reflexivity|]. cbn [map forallb]. now rewrite digit_char_b36, IH.
Qed.
Lemma b36_spec_encode_alphabet d : forallb is_b36_char (b36_spec_encode d) = true.
Proof.
  destruct d as [|x d']; [reflexivity|].
  destruct (list_eq_dec N.eq_dec (x :: d') [0]) as [E|E]; [rewrite E; reflexivity|].
  rewrite b36_spec_encode_general by (assumption || discriminate).
  destruct (forallb (N.eqb 0) (x :: d')).
  - now apply forallb_repeat.
  - rewrite forallb_app, digits36_b36, forallb_repeat; reflexivity.
Qed.
Theorem base36_encode_alphabet d : bytes_okb d = true -> forallb is_b36_char (base36_encode d) = true.
Proof. intros Hd. rewrite base36_encode_spec by exact Hd. apply b36_spec_encode_alphabet. Qed.

(* ================================================================================================ *)
(* 6. decoder                                                                                       *)
(* ================================================================================================ *)
(* the classification of the loop is "alphanumeric", and its value is the case-insensitive digit *)
Lemma b36_val_spec c : b36_val c = if is_alnum c then Some (char_val c) else None.
Proof.
  unfold b36_val, is_alnum, is_digit, is_upper, is_lower, char_val.
  destruct (N.leb_spec 48 c) as [H1|H1]; destruct (N.leb_spec c 57) as [H2|H2];
  destruct (N.leb_spec 65 c) as [H3|H3]; destruct (N.leb_spec c 90) as [H4|H4];
  destruct (N.leb_spec 97 c) as [H5|H5]; destruct (N.leb_spec c 122) as [H6|H6];
  cbn [andb orb]; first [reflexivity | f_equal; lia | exfalso; lia].
Qed.
Lemma b36_val_lt c v : b36_val c = Some v -> v < 36.
Proof.
  unfold b36_val.
  destruct (N.leb_spec 48 c) as [H1|H1]; destruct (N.leb_spec c 57) as [H2|H2];
  destruct (N.leb_spec 65 c) as [H3|H3]; destruct (N.leb_spec c 90) as [H4|H4];
  destruct (N.leb_spec 97 c) as [H5|H5]; destruct (N.leb_spec c 122) as [H6|H6];
  cbn [andb orb]; intros E; first [discriminate E | injection E as <-; lia].
Qed.

(* one multiply-by-36-and-add pass over the bytes (from the least significant end) *)
Lemma mul_pass_spec rb : forall carry acc c' b', bytes_okb rb = true -> carry < 36 ->
  mul_pass rb carry acc = (c', b') ->
  exists new, b' = new ++ acc /\ length new = length rb /\ bytes_okb new = true /\ c' < 36 /\
    c' * 256 ^ N.of_nat (length rb) + value_be new = 36 * value_be (rev rb) + carry.
Proof.
  induction rb as [|x r IH]; intros carry acc c' b' Hrb Hc E.
  - cbn [mul_pass] in E. injection E as <- <-. exists []. cbn. repeat split; try reflexivity; lia.
  - apply bytes_okb_cons in Hrb. destruct Hrb as [Hx Hr].
    cbn [mul_pass] in E. cbv zeta in E. rewrite b36_shiftr_8, b36_land_ff in E.
    set (cur := x * 36 + carry) in *.
    assert (Hcur : cur < 36 * 256) by (unfold cur; lia).
    assert (Ecur : cur = x * 36 + carry) by reflexivity. clearbody cur.
    apply IH in E; [|exact Hr|lia].
    destruct E as (new1 & E1 & E2 & E3 & E4 & E5).
    exists (new1 ++ [cur mod 256]). repeat split.
    + rewrite <- app_assoc. exact E1.
    + rewrite app_length. cbn [length]. lia.
    + rewrite bytes_okb_app, E3. apply bytes_okb_cons. split; [lia|reflexivity].
    + exact E4.
    + cbn [rev length]. unfold value_be in *. rewrite !value_base_snoc.
      rewrite Nat2N.inj_succ, N.pow_succ_r'. set (P := 256 ^ N.of_nat (length r)) in *.
      set (V := value_base 256 (rev r)) in *. set (W := value_base 256 new1) in *. nia.
Qed.

(* the `while (carry > 0)` loop prepends the bytes of carry; fuel k is enough for carry < 256^k *)
Lemma carry_loop_ok fuel : forall carry b, carry < 256 ^ N.of_nat fuel -> bytes_okb b = true ->
  exists b', carry_loop fuel carry b = Some b' /\ bytes_okb b' = true /\
    value_be b' = carry * 256 ^ N.of_nat (length b) + value_be b.
Proof.
  induction fuel as [|f IH]; intros carry b Hc Hb.
  - change (256 ^ N.of_nat 0) with 1 in Hc. assert (carry = 0) by lia. subst carry.
    exists b. split; [reflexivity|]. split; [exact Hb|lia].
  - cbn [carry_loop]. destruct (N.eqb_spec carry 0) as [E0|E0].
    + subst carry. exists b. split; [reflexivity|]. split; [exact Hb|lia].
    + rewrite b36_shiftr_8, b36_land_ff. rewrite Nat2N.inj_succ, N.pow_succ_r' in Hc.
      destruct (IH (carry / 256) (carry mod 256 :: b)) as (b' & E1 & E2 & E3).
      * apply N.div_lt_upper_bound; lia.
      * apply bytes_okb_cons. split; [lia|exact Hb].
      * exists b'. split; [exact E1|]. split; [exact E2|].
        rewrite E3. unfold value_be. rewrite value_base_cons. cbn [length].
        rewrite Nat2N.inj_succ, N.pow_succ_r'. set (P := 256 ^ N.of_nat (length b)).
        set (W := value_base 256 b). rewrite (N.div_mod' carry 256) at 3. lia.
Qed.

(* one character: b256 := b256 * 36 + val *)
Lemma dec_step val b carry b1 : val < 36 -> bytes_okb b = true -> mul_pass (rev b) val [] = (carry, b1) ->
  exists b', carry_loop 4 carry b1 = Some b' /\ bytes_okb b' = true /\ value_be b' = value_be b * 36 + val.
Proof.
  intros Hv Hb E. apply mul_pass_spec in E; [|now rewrite bytes_okb_rev|exact Hv].
  destruct E as (new & E1 & E2 & E3 & E4 & E5). rewrite app_nil_r in E1. subst b1.
  destruct (carry_loop_ok 4 carry new) as (b' & F1 & F2 & F3); [change (256 ^ N.of_nat 4) with 4294967296; lia|exact E3|].
  exists b'. split; [exact F1|]. split; [exact F2|].
  rewrite F3, E2. rewrite rev_involutive in E5. lia.
Qed.

Lemma dec_loop_spec s : forall b, bytes_okb b = true ->
  match dec_loop s b with
  | DecOk b' => forallb is_alnum s = true /\ bytes_okb b' = true /\
                value_be b' = fold_left (fun acc c => acc * 36 + char_val c) s (value_be b)
  | DecFalse => forallb is_alnum s = false
  | DecFuel => False
  end.
Proof.
  induction s as [|c rest IH]; intros b Hb.
  - cbn [dec_loop forallb fold_left]. tauto.
  - cbn [dec_loop forallb fold_left]. pose proof (b36_val_lt c) as Hlt. rewrite b36_val_spec in *.
    destruct (is_alnum c); [|reflexivity].
    specialize (Hlt _ eq_refl).
    destruct (mul_pass (rev b) (char_val c) []) as [carry b1] eqn:E.
    destruct (dec_step _ _ _ _ Hlt Hb E) as (b' & F1 & F2 & F3).
    rewrite F1. specialize (IH b' F2). rewrite F3 in IH. cbn [andb]. exact IH.
Qed.

Lemma fold_left_map {A B C} (f : A -> B -> A) (g : C -> B) l a :
  fold_left f (map g l) a = fold_left (fun acc x => f acc (g x)) l a.
Proof. revert a. induction l as [|x l IH]; intros a; [reflexivity|]. cbn [map fold_left]. apply IH. Qed.

Lemma forallb_eqb_sym x l : forallb (fun c => c =? x) l = forallb (N.eqb x) l.
Proof. induction l as [|y l IH]; [reflexivity|]. cbn [forallb]. now rewrite IH, N.eqb_sym. Qed.
Lemma forallb_impl {A} (P Q : A -> bool) l : (forall x, P x = true -> Q x = true) ->
  forallb P l = true -> forallb Q l = true.
Proof.
  intros H. induction l as [|y l IH]; [reflexivity|]. cbn [forallb]. rewrite !andb_true_iff.
  intros [H1 H2]. split; [now apply H|now apply IH].
Qed.

Lemma base36_decode_general s : s <> [] ->
  base36_decode s =
    if forallb (fun c => c =? 48) s
    then (if (length s =? 1)%nat then Some [0] else Some (repeat 0 (length s - 1)))
    else match dec_loop (skipn (count_lead 48 s) s) [0] with
         | DecFalse => None
         | DecFuel => Some fuel_exhausted
         | DecOk b256 => Some (repeat 0 (count_lead 48 s) ++ skipn (count_lead 0 b256) b256)
         end.
Proof. intros H. destruct s; [congruence|reflexivity]. Qed.
Lemma b36_spec_decode_general s : s <> [] ->
  b36_spec_decode s =
    if forallb (N.eqb 48) s then repeat 0 (Nat.max 1 (length s - 1))
    else repeat 0 (lead_count 48 s) ++ min_bytes (value36 (lead_strip 48 s)).
Proof. intros H. destruct s; [congruence|reflexivity]. Qed.

Lemma value_be_lead_strip l : value_be (lead_strip 0 l) = value_be l.
Proof. rewrite (lead_split 0 l) at 2. unfold value_be. rewrite value_base_app, value_base_repeat0. lia. Qed.

(* stripping the leading zero bytes leaves the minimal representation of the value *)
Lemma lead_strip_min_bytes l : bytes_okb l = true -> lead_strip 0 l = min_bytes (value_be l).
Proof.
  intros Hl. unfold min_bytes. rewrite <- value_be_lead_strip. unfold value_be. symmetry.
  apply digits_be_unique; [lia| |].
  - apply bytes_okb_Forall. now apply bytes_okb_lead_strip.
  - apply lead_strip_hd. discriminate.
Qed.

(* holds for every string, also with elements >= 256 (they are simply not alphanumeric) *)
Theorem base36_decode_spec s :
  base36_decode s = if forallb is_alnum s then Some (b36_spec_decode s) else None.
Proof.
  destruct s as [|c0 s']; [reflexivity|]. set (s := c0 :: s'). assert (Hne : s <> []) by discriminate.
  rewrite base36_decode_general, b36_spec_decode_general by exact Hne.
  rewrite forallb_eqb_sym. destruct (forallb (N.eqb 48) s) eqn:Ez.
  - rewrite (forallb_impl (N.eqb 48) is_alnum s); [|intros x Hx; apply N.eqb_eq in Hx; now subst x|exact Ez].
    assert (Hlen : (1 <= length s)%nat) by (unfold s; cbn [length]; lia).
    destruct (Nat.eqb_spec (length s) 1) as [E1|E1].
    + rewrite E1. reflexivity.
    + replace (Nat.max 1 (length s - 1)) with (length s - 1)%nat by lia. reflexivity.
  - rewrite count_lead_spec, skipn_lead_count.
    assert (Hal : forallb is_alnum s = forallb is_alnum (lead_strip 48 s)).
    { rewrite (lead_split 48 s) at 1. rewrite forallb_app, forallb_repeat by reflexivity. reflexivity. }
    rewrite Hal. pose proof (dec_loop_spec (lead_strip 48 s) [0] eq_refl) as H.
    destruct (dec_loop (lead_strip 48 s) [0]) as [b'| |].
    + destruct H as (H1 & H2 & H3). rewrite H1. do 2 f_equal.
      rewrite count_lead_spec, skipn_lead_count, lead_strip_min_bytes by exact H2.
      f_equal. rewrite H3. unfold value36, value_base. now rewrite fold_left_map.
    + now rewrite H.
    + contradiction.
Qed.

Theorem base36_decode_ok s d : base36_decode s = Some d -> bytes_okb d = true.
Proof.
  destruct s as [|c0 s']; [intros E; injection E as <-; reflexivity|].
  set (s := c0 :: s'). rewrite base36_decode_general by discriminate.
  destruct (forallb (fun c => c =? 48) s).
  - destruct (length s =? 1)%nat; intros E; injection E as <-; [reflexivity|apply bytes_okb_repeat0].
  - pose proof (dec_loop_spec (skipn (count_lead 48 s) s) [0] eq_refl) as H.
    destruct (dec_loop (skipn (count_lead 48 s) s) [0]) as [b'| |]; [|discriminate|contradiction].
    destruct H as (_ & H2 & _). intros E; injection E as <-.
    rewrite bytes_okb_app, bytes_okb_repeat0. now apply bytes_okb_skipn.
Qed.

(* ================================================================================================ *)
(* 7. round trip                                                                                    *)
(* ================================================================================================ *)
Lemma value36_digits36 n : value36 (digits36 n) = n.
Proof.
  unfold value36, digits36. rewrite map_map.
  rewrite <- (digits_be_value 36 n) at 2 by lia. f_equal.
  pose proof (digits_be_lt 36 n ltac:(lia)) as H.
  induction H as [|x l Hx Hl IH]; [reflexivity|]. cbn [map]. now rewrite char_val_digit, IH.
Qed.
Lemma digits36_hd n : hd (48 + 1) (digits36 n) <> 48.
Proof.
  unfold digits36. pose proof (digits_be_lt 36 n ltac:(lia)) as H. pose proof (digits_be_nolead 36 n ltac:(lia)) as Hn.
  destruct (digits_be 36 n) as [|x l]; [cbn; lia|]. cbn [map hd]. unfold nolead in Hn. cbn [hd] in Hn.
  inversion H; subst. now apply digit_char_nonzero.
Qed.

Theorem b36_spec_roundtrip d : bytes_okb d = true -> b36_spec_decode (b36_spec_encode d) = d.
Proof.
  intros Hd. destruct d as [|x d']; [reflexivity|].
  destruct (list_eq_dec N.eq_dec (x :: d') [0]) as [E|E]; [rewrite E; reflexivity|].
  set (d := x :: d') in *. assert (Hne : d <> []) by discriminate.
  assert (Hlen : (1 <= length d)%nat) by (unfold d; cbn [length]; lia).
  rewrite b36_spec_encode_general by assumption.
  destruct (forallb (N.eqb 0) d) eqn:Ez.
  - apply lead_strip_nil_iff in Ez.
    rewrite b36_spec_decode_general by (rewrite Nat.add_1_r; discriminate).
    rewrite forallb_repeat by reflexivity. rewrite repeat_length.
    replace (Nat.max 1 (length d + 1 - 1)) with (length d) by lia.
    rewrite (lead_split 0 d) at 2. rewrite Ez, app_nil_r. now rewrite (lead_count_all 0 d Ez).
  - assert (Hs : lead_strip 0 d <> []).
    { intros H. apply lead_strip_nil_iff in H. congruence. }
    assert (Hp : 0 < value_be d).
    { rewrite <- value_be_lead_strip. destruct (value_base_pos 256 (lead_strip 0 d) Hs) as [Hp|Hp]; [|exact Hp|discriminate].
      apply lead_strip_hd. discriminate. }
    assert (Hdg : digits36 (value_be d) <> []) by (rewrite digits36_nil_iff; lia).
    destruct (lead_count_repeat_app 48 (lead_count 0 d) (digits36 (value_be d)) (digits36_hd _)) as [L1 L2].
    set (e := repeat 48 (lead_count 0 d) ++ digits36 (value_be d)) in *.
    assert (He : e <> []).
    { unfold e. intros H. apply app_eq_nil in H. destruct H as [_ H]. contradiction. }
    rewrite b36_spec_decode_general by exact He.
    destruct (forallb (N.eqb 48) e) eqn:Ee.
    + apply lead_strip_nil_iff in Ee. rewrite L2 in Ee. contradiction.
    + rewrite L1, L2, value36_digits36, <- lead_strip_min_bytes by exact Hd. symmetry. apply lead_split.
Qed.

Lemma b36_char_alnum c : is_b36_char c = true -> is_alnum c = true.
Proof. unfold is_b36_char, is_alnum. intros ->. reflexivity. Qed.

Theorem base36_roundtrip d : bytes_okb d = true -> base36_decode (base36_encode d) = Some d.
Proof.
  intros Hd. rewrite base36_encode_spec by exact Hd. rewrite base36_decode_spec.
  rewrite (forallb_impl is_b36_char is_alnum _ b36_char_alnum (b36_spec_encode_alphabet d)).
  now rewrite b36_spec_roundtrip.
Qed.

(* ================================================================================================ *)
(* 8. the spec's numerals are what they claim to be (independent of the fuel used to compute them)   *)
(* ================================================================================================ *)
Theorem spec_numerals_ok n :
  (value36 (digits36 n) = n /\ forallb is_b36_char (digits36 n) = true /\ hd 49 (digits36 n) <> 48) /\
  (value_be (min_bytes n) = n /\ bytes_okb (min_bytes n) = true /\ hd 1 (min_bytes n) <> 0).
Proof.
  split; [split; [apply value36_digits36|split; [apply digits36_b36|apply digits36_hd]]|].
  split; [apply digits_be_value; lia|]. split; [apply bytes_okb_Forall, digits_be_lt; lia|].
  apply (digits_be_nolead 256 n). lia.
Qed.

(* the model's fuel-exhaustion marker is never returned *)
Theorem fuel_unreachable :
  (forall d, bytes_okb d = true -> base36_encode d <> fuel_exhausted) /\
  (forall s, base36_decode s <> Some fuel_exhausted).
Proof.
  split.
  - intros d Hd E. pose proof (base36_encode_alphabet d Hd) as H. rewrite E in H. discriminate H.
  - intros s E. apply base36_decode_ok in E. discriminate E.
Qed.
