From Coq Require Import String Ascii DecimalString Decimal DecimalZ DecimalPos.
From HV Require Import Base_Bytes Base_BytesLemmas Base_Result Spec_SHA Spec_HMAC Model_Hash Model_Hmac Proofs_Hmac Proofs_Otp
  Model_CtEq Proofs_C09 Model_Otp Model_Token.
Local Open Scope Z_scope.
Notation length := List.length.
Ltac Zify.zify_post_hook ::= Z.to_euclidean_division_equations.

(* ---------- arithmetic on time_t: no overflow anywhere ---------- *)
Lemma rem_bounds now i : 0 < i ->
  (0 <= now -> 0 <= Z.rem now i <= now /\ Z.rem now i < i) /\
  (now <= 0 -> now <= Z.rem now i <= 0 /\ - i < Z.rem now i).
Proof.
  intros Hi. split; intros Hn.
  - pose proof (Z.rem_bound_pos now i Hn Hi) as Hb.
    assert (Z.rem now i <= now). { rewrite Z.rem_mod_nonneg by lia. apply Z.mod_le; lia. }
    set (r1 := Z.rem now i) in *. clearbody r1. lia.
  - pose proof (Z.rem_opp_l now i ltac:(lia)) as E.
    pose proof (Z.rem_bound_pos (- now) i ltac:(lia) Hi).
    assert (Z.rem (- now) i <= - now). { rewrite Z.rem_mod_nonneg by lia. apply Z.mod_le; lia. }
    set (r1 := Z.rem now i) in *. set (r2 := Z.rem (- now) i) in *. clearbody r1 r2. lia.
Qed.

Lemma rounded_range now i : 0 < i -> TMIN <= now <= TMAX -> TMIN <= rounded now i <= TMAX.
Proof.
  intros Hi Hn. unfold rounded. destruct (rem_bounds now i Hi) as [P Q].
  set (r1 := Z.rem now i) in *. clearbody r1. unfold TMIN, TMAX in *.
  destruct (Z_le_gt_dec 0 now) as [H|H]; [specialize (P H)|specialize (Q ltac:(lia))]; lia.
Qed.

Lemma rounded_multiple now i : 0 < i -> rounded now i = i * Z.quot now i.
Proof.
  intros Hi. unfold rounded. pose proof (Z.quot_rem' now i) as E.
  set (q := Z.quot now i) in *. set (r := Z.rem now i) in *. clearbody q r. lia.
Qed.

Lemma rounded_nonneg now i : 0 < i -> 0 <= now -> rounded now i = i * (now / i).
Proof. intros. unfold rounded. rewrite Z.rem_mod_nonneg by lia. rewrite Z.mod_eq by lia. lia. Qed.

Lemma rounded_adjacent n1 n2 i : 0 < i -> Z.abs (rounded n1 i - rounded n2 i) <= i ->
  rounded n1 i = rounded n2 i \/ rounded n1 i = rounded n2 i - i \/ rounded n1 i = rounded n2 i + i.
Proof.
  intros Hi H. rewrite !rounded_multiple in * by exact Hi.
  set (a := Z.quot n1 i) in *. set (b := Z.quot n2 i) in *. clearbody a b.
  assert (a = b \/ a = b - 1 \/ a = b + 1) by nia. nia.
Qed.

Lemma far_apart t t' i : 0 < i -> 0 <= t -> 0 <= t' -> 2 <= Z.abs (t / i - t' / i) ->
  rounded t i <> rounded t' i /\ rounded t i <> rounded t' i - i /\ rounded t i <> rounded t' i + i.
Proof.
  intros Hi Ht Ht' Hfar. rewrite !rounded_nonneg by lia.
  set (a := t / i) in *. set (b := t' / i) in *. clearbody a b. nia.
Qed.

(* ---------- decimal printing ---------- *)
Lemma to_int_not_nil z : Z.to_int z <> Pos Nil /\ Z.to_int z <> Neg Nil.
Proof.
  destruct z; cbn; split; try discriminate.
  - intro H. injection H as H. exact (Unsigned.to_uint_nonnil p H).
  - intro H. injection H as H. exact (Unsigned.to_uint_nonnil p H).
Qed.
Lemma string_of_int_inj a b : NilZero.string_of_int (Z.to_int a) = NilZero.string_of_int (Z.to_int b) -> a = b.
Proof.
  intros H. apply (f_equal NilZero.int_of_string) in H.
  destruct (to_int_not_nil a), (to_int_not_nil b).
  rewrite !NilZero.isi in H by assumption. injection H as H. now apply DecimalZ.to_int_inj.
Qed.
Lemma list_ascii_of_string_inj s1 s2 : list_ascii_of_string s1 = list_ascii_of_string s2 -> s1 = s2.
Proof. intros H. apply (f_equal string_of_list_ascii) in H. now rewrite !string_of_list_ascii_of_string in H. Qed.
Lemma map_N_of_ascii_inj l1 l2 : map N_of_ascii l1 = map N_of_ascii l2 -> l1 = l2.
Proof.
  revert l2; induction l1 as [|a l1 IH]; intros [|b l2] H; cbn in H; try discriminate; [reflexivity|].
  injection H as Hab Hl. f_equal; [|now apply IH].
  apply (f_equal ascii_of_N) in Hab. now rewrite !ascii_N_embedding in Hab.
Qed.
Lemma to_string_inj a b : to_string a = to_string b -> a = b.
Proof. unfold to_string, codes_of_string. intros H. apply string_of_int_inj, list_ascii_of_string_inj, map_N_of_ascii_inj, H. Qed.

(* decimal strings contain only digits and '-' : in particular no '|' *)
Definition dec_char (c : N) : bool := ((48 <=? c) && (c <=? 57))%N || (c =? 45)%N.
Lemma uint_chars_ne d : forallb dec_char (codes_of_string (NilEmpty.string_of_uint d)) = true.
Proof.
  unfold codes_of_string. induction d as [|d IH|d IH|d IH|d IH|d IH|d IH|d IH|d IH|d IH|d IH];
    cbn [NilEmpty.string_of_uint list_ascii_of_string map forallb]; try reflexivity; rewrite IH; reflexivity.
Qed.
Lemma uint_chars d : forallb dec_char (codes_of_string (NilZero.string_of_uint d)) = true.
Proof. destruct d; try apply uint_chars_ne. reflexivity. Qed.
Lemma to_string_chars z : forallb dec_char (to_string z) = true.
Proof.
  unfold to_string. destruct (Z.to_int z) as [d|d]; cbn [NilZero.string_of_int].
  - apply uint_chars.
  - change (codes_of_string (String "-" (NilZero.string_of_uint d))) with (45%N :: codes_of_string (NilZero.string_of_uint d)).
    cbn [forallb]. rewrite uint_chars. reflexivity.
Qed.
Lemma no_bar_in_dec l : forallb dec_char l = true -> ~ In 124%N l.
Proof. intros H Hin. rewrite forallb_forall in H. specialize (H _ Hin). discriminate. Qed.

(* unique split at the first '|' *)
Lemma split_at_bar (a b x y : list N) : ~ In 124%N a -> ~ In 124%N b ->
  a ++ 124%N :: x = b ++ 124%N :: y -> a = b /\ x = y.
Proof.
  revert b. induction a as [|c a IH]; intros [|d b] Ha Hb H; cbn in *.
  - injection H as H. auto.
  - injection H as H1 H2. subst d. exfalso. apply Hb. now left.
  - injection H as H1 H2. subst c. exfalso. apply Ha. now left.
  - injection H as H1 H2. subst d. destruct (IH b) as [E1 E2]; auto. subst. auto.
Qed.

Lemma payload_inj fp1 fp2 r1 r2 : token_payload fp1 r1 = token_payload fp2 r2 -> fp1 = fp2 /\ r1 = r2.
Proof.
  unfold token_payload. intros H.
  pose proof (no_bar_in_dec _ (to_string_chars r1)) as N1. pose proof (no_bar_in_dec _ (to_string_chars r2)) as N2.
  destruct fp1 as [f1|], fp2 as [f2|].
  - apply split_at_bar in H; auto. destruct H as [E1 E2]. split; [now subst|now apply to_string_inj].
  - exfalso. rewrite app_nil_r in H. apply N2. rewrite <- H. apply in_or_app. right. now left.
  - exfalso. rewrite app_nil_r in H. apply N1. rewrite H. apply in_or_app. right. now left.
  - rewrite !app_nil_r in H. split; [reflexivity|now apply to_string_inj].
Qed.

(* ---------- the validation function ---------- *)
Definition candidates (t : hash_t) (key : list N) (fp : option (list N)) (now interval : Z) : list (list N) :=
  let r := rounded now interval in
  let mac x := token_mac t key (token_payload fp x) in
  [mac r] ++ (if TMIN + interval <=? r then [mac (r - interval)] else []) ++ (if r <=? TMAX - interval then [mac (r + interval)] else []).

Lemma ct_equals_eqb a b : ct_equals a b = true <-> a = b. Proof. apply ct_equals_iff. Qed.

Theorem is_token_valid_exact t tok key fp i now : 0 < i ->
  exists b, is_token_valid t tok key fp i (now, false) = Ok b /\ (b = true <-> In tok (candidates t key fp now i)).
Proof.
  intros Hi. unfold is_token_valid, candidates, read_clock_token.
  replace (i <=? 0) with false by (symmetry; apply Z.leb_gt; lia). rewrite andb_false_r. cbn [bind].
  set (r := rounded now i).
  set (m0 := token_mac t key (token_payload fp r)).
  set (m1 := token_mac t key (token_payload fp (r - i))).
  set (m2 := token_mac t key (token_payload fp (r + i))).
  clearbody m0 m1 m2.
  destruct (ct_equals tok m0) eqn:E0.
  { exists true. split; [reflexivity|]. split; auto. intros _. left. symmetry. now apply ct_equals_iff. }
  assert (N0 : tok <> m0) by (intro E; apply ct_equals_iff in E; congruence).
  destruct (TMIN + i <=? r) eqn:G1; cbn [andb app].
  - destruct (ct_equals tok m1) eqn:E1.
    { exists true. split; [reflexivity|]. split; auto. intros _. right. left. symmetry. now apply ct_equals_iff. }
    assert (N1 : tok <> m1) by (intro E; apply ct_equals_iff in E; congruence).
    destruct (r <=? TMAX - i) eqn:G2; cbn [andb app].
    + destruct (ct_equals tok m2) eqn:E2.
      { exists true. split; [reflexivity|]. split; auto. intros _. right. right. left. symmetry. now apply ct_equals_iff. }
      assert (N2 : tok <> m2) by (intro E; apply ct_equals_iff in E; congruence).
      exists false. split; [reflexivity|]. split; [discriminate|]. cbn [In]. intros [E|[E|[E|[]]]]; congruence.
    + exists false. split; [reflexivity|]. split; [discriminate|]. cbn [In]. intros [E|[E|[]]]; congruence.
  - destruct (r <=? TMAX - i) eqn:G2; cbn [andb app].
    + destruct (ct_equals tok m2) eqn:E2.
      { exists true. split; [reflexivity|]. split; auto. intros _. right. left. symmetry. now apply ct_equals_iff. }
      assert (N2 : tok <> m2) by (intro E; apply ct_equals_iff in E; congruence).
      exists false. split; [reflexivity|]. split; [discriminate|]. cbn [In]. intros [E|[E|[]]]; congruence.
    + exists false. split; [reflexivity|]. split; [discriminate|]. cbn [In]. intros [E|[]]; congruence.
Qed.

Theorem generate_spec t key fp i now : 0 < i ->
  generate_time_token t key fp i (now, false) = Ok (token_mac t key (token_payload fp (rounded now i))).
Proof.
  intros Hi. unfold generate_time_token, read_clock_token.
  replace (i <=? 0) with false by (symmetry; apply Z.leb_gt; lia). now rewrite andb_false_r.
Qed.

Theorem adjacent_accepted t key fp i n1 n2 : 0 < i -> TMIN <= n1 <= TMAX -> TMIN <= n2 <= TMAX ->
  Z.abs (rounded n1 i - rounded n2 i) <= i ->
  is_token_valid t (token_mac t key (token_payload fp (rounded n1 i))) key fp i (n2, false) = Ok true.
Proof.
  intros Hi H1 H2 Hadj.
  destruct (is_token_valid_exact t (token_mac t key (token_payload fp (rounded n1 i))) key fp i n2 Hi) as [b [Eb Hb]].
  rewrite Eb. f_equal. apply Hb. unfold candidates.
  pose proof (rounded_range n1 i Hi H1) as R1. pose proof (rounded_range n2 i Hi H2) as R2.
  destruct (rounded_adjacent n1 n2 i Hi Hadj) as [E|[E|E]]; rewrite E.
  - now left.
  - replace (TMIN + i <=? rounded n2 i) with true by (symmetry; apply Z.leb_le; lia). right. now left.
  - replace (rounded n2 i <=? TMAX - i) with true by (symmetry; apply Z.leb_le; lia).
    apply in_or_app. right. apply in_or_app. right. now left.
Qed.

(* a clock failure (-1 with errno set) is a runtime_error; -1 without errno is the time -1 *)
Theorem clock_failure t tok key fp i : 0 < i ->
  is_token_valid t tok key fp i (-1, true) = Throw RuntimeError /\ generate_time_token t key fp i (-1, true) = Throw RuntimeError.
Proof.
  intros Hi. unfold is_token_valid, generate_time_token, read_clock_token.
  replace (i <=? 0) with false by (symmetry; apply Z.leb_gt; lia). split; reflexivity.
Qed.

(* hex MAC strings of different hashes have different lengths: rejected unconditionally *)
Lemma hex_of_bytes_length up l : length (hex_of_bytes up l) = (2 * length l)%nat.
Proof. unfold hex_of_bytes. induction l as [|b l IH]; [reflexivity|]. cbn [flat_map length app]. rewrite IH. lia. Qed.
Lemma token_mac_length t key p : (N.of_nat (length key) < 2 ^ 61)%N -> (N.of_nat (length p) < 2 ^ 61 - 128)%N ->
  length (token_mac t key p) = (2 * digest_size t)%nat.
Proof.
  intros HK Hp. unfold token_mac. rewrite get_hmac_str_spec by assumption. now rewrite hex_of_bytes_length, HMAC_spec_length.
Qed.
