(* Spec_SHA: FIPS 180-4 SHA-1, SHA-256, SHA-512 as short executable definitions.
   §5.1 padding, §5.2 parsing, §4.1 functions, §4.2 constants, §5.3 initial values, §6.1/6.2/6.4 hash
   computation.  Words are N with the wrap written out. *)
From HV Require Import Base_Bytes.
Local Open Scope N_scope.

(* ---------- word operations on w-bit words (§2.2.2, §3.2) ---------- *)
Definition wmask (w : N) : N := 2 ^ w - 1.
Definition wadd (w x y : N) : N := (x + y) mod 2 ^ w.
Definition rotr (w n x : N) : N := N.lor (N.shiftr x n) (N.land (N.shiftl x (w - n)) (wmask w)).
Definition rotl (w n x : N) : N := N.lor (N.land (N.shiftl x n) (wmask w)) (N.shiftr x (w - n)).
Definition wnot (w x : N) : N := N.lxor x (wmask w).
Definition Ch (w x y z : N) : N := N.lxor (N.land x y) (N.land (wnot w x) z).
Definition Maj (x y z : N) : N := N.lxor (N.lxor (N.land x y) (N.land x z)) (N.land y z).
Definition Parity (x y z : N) : N := N.lxor (N.lxor x y) z.

(* ---------- §5.1 padding ---------- *)
(* B = block bytes, LB = bytes of the length field (8 for SHA-1/256, 16 for SHA-512) *)
Definition pad_zeros (B LB n : nat) : nat := ((B - (n + 1 + LB) mod B) mod B)%nat.
Definition sha_pad (B LB : nat) (msg : list N) : list N :=
  msg ++ [128] ++ repeat 0 (pad_zeros B LB (length msg)) ++ be_bytes LB (8 * N.of_nat (length msg)).

(* words of a block, big-endian, wb bytes per word *)
Definition block_words (wb : nat) (blk : list N) : list N := map be_val (chunks wb blk).
Definition words_bytes (wb : nat) (ws : list N) : list N := flat_map (be_bytes wb) ws.

(* ---------- SHA-2 family, generic in the word size (§6.2, §6.4) ---------- *)
Record sha2_params := {
  p_w : N;                    (* bits per word *)
  p_K : list N;               (* round constants; their number is the number of rounds *)
  p_IV : list N;
  p_S0 : N * N * N;           (* Sigma0 rotations *)
  p_S1 : N * N * N;           (* Sigma1 rotations *)
  p_s0 : N * N * N;           (* sigma0: rotr, rotr, shr *)
  p_s1 : N * N * N            (* sigma1: rotr, rotr, shr *)
}.

Section SHA2.
  Variable P : sha2_params.
  Let w := p_w P.
  Definition BigSigma (r : N * N * N) (x : N) : N :=
    let '(a, b, c) := r in N.lxor (N.lxor (rotr w a x) (rotr w b x)) (rotr w c x).
  Definition SmallSigma (r : N * N * N) (x : N) : N :=
    let '(a, b, c) := r in N.lxor (N.lxor (rotr w a x) (rotr w b x)) (N.shiftr x c).

  (* message schedule, newest word first: W_t = s1(W_{t-2}) + W_{t-7} + s0(W_{t-15}) + W_{t-16} *)
  Fixpoint schedule_rev (n : nat) (ws : list N) : list N :=
    match n with
    | O => ws
    | S n' =>
        let wt := wadd w (wadd w (wadd w (SmallSigma (p_s1 P) (nth 1 ws 0)) (nth 6 ws 0))
                                  (SmallSigma (p_s0 P) (nth 14 ws 0))) (nth 15 ws 0) in
        schedule_rev n' (wt :: ws)
    end.
  Definition schedule (blk : list N) : list N :=
    let w16 := block_words (N.to_nat (w / 8)) blk in
    rev (schedule_rev (length (p_K P) - 16) (rev w16)).

  Definition sha2_round (v : list N) (kw : N * N) : list N :=
    match v with
    | [a; b; c; d; e; f; g; h] =>
        let t1 := wadd w (wadd w (wadd w (wadd w h (BigSigma (p_S1 P) e)) (Ch w e f g)) (fst kw)) (snd kw) in
        let t2 := wadd w (BigSigma (p_S0 P) a) (Maj a b c) in
        [wadd w t1 t2; a; b; c; wadd w d t1; e; f; g]
    | _ => v
    end.

  Definition sha2_compress (H : list N) (blk : list N) : list N :=
    let v := fold_left sha2_round (combine (p_K P) (schedule blk)) H in
    map (fun p => wadd w (fst p) (snd p)) (combine H v).
End SHA2.

Definition sha_hash (B LB : nat) (compress : list N -> list N -> list N) (IV : list N) (msg : list N) : list N :=
  fold_left compress (chunks B (sha_pad B LB msg)) IV.

(* ---------- constants (§4.2.2, §4.2.3, §5.3.3, §5.3.5) ---------- *)
Definition K256 : list N :=
 [0x428a2f98; 0x71374491; 0xb5c0fbcf; 0xe9b5dba5; 0x3956c25b; 0x59f111f1; 0x923f82a4; 0xab1c5ed5;
  0xd807aa98; 0x12835b01; 0x243185be; 0x550c7dc3; 0x72be5d74; 0x80deb1fe; 0x9bdc06a7; 0xc19bf174;
  0xe49b69c1; 0xefbe4786; 0x0fc19dc6; 0x240ca1cc; 0x2de92c6f; 0x4a7484aa; 0x5cb0a9dc; 0x76f988da;
  0x983e5152; 0xa831c66d; 0xb00327c8; 0xbf597fc7; 0xc6e00bf3; 0xd5a79147; 0x06ca6351; 0x14292967;
  0x27b70a85; 0x2e1b2138; 0x4d2c6dfc; 0x53380d13; 0x650a7354; 0x766a0abb; 0x81c2c92e; 0x92722c85;
  0xa2bfe8a1; 0xa81a664b; 0xc24b8b70; 0xc76c51a3; 0xd192e819; 0xd6990624; 0xf40e3585; 0x106aa070;
  0x19a4c116; 0x1e376c08; 0x2748774c; 0x34b0bcb5; 0x391c0cb3; 0x4ed8aa4a; 0x5b9cca4f; 0x682e6ff3;
  0x748f82ee; 0x78a5636f; 0x84c87814; 0x8cc70208; 0x90befffa; 0xa4506ceb; 0xbef9a3f7; 0xc67178f2].
Definition IV256 : list N :=
 [0x6a09e667; 0xbb67ae85; 0x3c6ef372; 0xa54ff53a; 0x510e527f; 0x9b05688c; 0x1f83d9ab; 0x5be0cd19].
Definition P256 : sha2_params :=
  {| p_w := 32; p_K := K256; p_IV := IV256; p_S0 := (2, 13, 22); p_S1 := (6, 11, 25);
     p_s0 := (7, 18, 3); p_s1 := (17, 19, 10) |}.

Definition K512 : list N :=
 [0x428a2f98d728ae22; 0x7137449123ef65cd; 0xb5c0fbcfec4d3b2f; 0xe9b5dba58189dbbc;
  0x3956c25bf348b538; 0x59f111f1b605d019; 0x923f82a4af194f9b; 0xab1c5ed5da6d8118;
  0xd807aa98a3030242; 0x12835b0145706fbe; 0x243185be4ee4b28c; 0x550c7dc3d5ffb4e2;
  0x72be5d74f27b896f; 0x80deb1fe3b1696b1; 0x9bdc06a725c71235; 0xc19bf174cf692694;
  0xe49b69c19ef14ad2; 0xefbe4786384f25e3; 0x0fc19dc68b8cd5b5; 0x240ca1cc77ac9c65;
  0x2de92c6f592b0275; 0x4a7484aa6ea6e483; 0x5cb0a9dcbd41fbd4; 0x76f988da831153b5;
  0x983e5152ee66dfab; 0xa831c66d2db43210; 0xb00327c898fb213f; 0xbf597fc7beef0ee4;
  0xc6e00bf33da88fc2; 0xd5a79147930aa725; 0x06ca6351e003826f; 0x142929670a0e6e70;
  0x27b70a8546d22ffc; 0x2e1b21385c26c926; 0x4d2c6dfc5ac42aed; 0x53380d139d95b3df;
  0x650a73548baf63de; 0x766a0abb3c77b2a8; 0x81c2c92e47edaee6; 0x92722c851482353b;
  0xa2bfe8a14cf10364; 0xa81a664bbc423001; 0xc24b8b70d0f89791; 0xc76c51a30654be30;
  0xd192e819d6ef5218; 0xd69906245565a910; 0xf40e35855771202a; 0x106aa07032bbd1b8;
  0x19a4c116b8d2d0c8; 0x1e376c085141ab53; 0x2748774cdf8eeb99; 0x34b0bcb5e19b48a8;
  0x391c0cb3c5c95a63; 0x4ed8aa4ae3418acb; 0x5b9cca4f7763e373; 0x682e6ff3d6b2b8a3;
  0x748f82ee5defb2fc; 0x78a5636f43172f60; 0x84c87814a1f0ab72; 0x8cc702081a6439ec;
  0x90befffa23631e28; 0xa4506cebde82bde9; 0xbef9a3f7b2c67915; 0xc67178f2e372532b;
  0xca273eceea26619c; 0xd186b8c721c0c207; 0xeada7dd6cde0eb1e; 0xf57d4f7fee6ed178;
  0x06f067aa72176fba; 0x0a637dc5a2c898a6; 0x113f9804bef90dae; 0x1b710b35131c471b;
  0x28db77f523047d84; 0x32caab7b40c72493; 0x3c9ebe0a15c9bebc; 0x431d67c49c100d4c;
  0x4cc5d4becb3e42b6; 0x597f299cfc657e2a; 0x5fcb6fab3ad6faec; 0x6c44198c4a475817].
Definition IV512 : list N :=
 [0x6a09e667f3bcc908; 0xbb67ae8584caa73b; 0x3c6ef372fe94f82b; 0xa54ff53a5f1d36f1;
  0x510e527fade682d1; 0x9b05688c2b3e6c1f; 0x1f83d9abfb41bd6b; 0x5be0cd19137e2179].
Definition P512 : sha2_params :=
  {| p_w := 64; p_K := K512; p_IV := IV512; p_S0 := (28, 34, 39); p_S1 := (14, 18, 41);
     p_s0 := (1, 8, 7); p_s1 := (19, 61, 6) |}.

(* ---------- SHA-1 (§6.1) ---------- *)
Definition IV1 : list N := [0x67452301; 0xefcdab89; 0x98badcfe; 0x10325476; 0xc3d2e1f0].
Definition sha1_f (t : nat) (b c d : N) : N :=
  if (t <? 20)%nat then Ch 32 b c d else if (t <? 40)%nat then Parity b c d
  else if (t <? 60)%nat then Maj b c d else Parity b c d.
Definition sha1_K (t : nat) : N :=
  if (t <? 20)%nat then 0x5a827999 else if (t <? 40)%nat then 0x6ed9eba1
  else if (t <? 60)%nat then 0x8f1bbcdc else 0xca62c1d6.
(* W_t = ROTL1(W_{t-3} xor W_{t-8} xor W_{t-14} xor W_{t-16}), newest first *)
Fixpoint sha1_schedule_rev (n : nat) (ws : list N) : list N :=
  match n with
  | O => ws
  | S n' => sha1_schedule_rev n'
              (rotl 32 1 (N.lxor (N.lxor (N.lxor (nth 2 ws 0) (nth 7 ws 0)) (nth 13 ws 0)) (nth 15 ws 0)) :: ws)
  end.
Definition sha1_schedule (blk : list N) : list N := rev (sha1_schedule_rev 64 (rev (block_words 4 blk))).
Definition sha1_round (v : list N) (tw : nat * N) : list N :=
  match v with
  | [a; b; c; d; e] =>
      let t := fst tw in
      let T := wadd 32 (wadd 32 (wadd 32 (wadd 32 (rotl 32 5 a) (sha1_f t b c d)) e) (sha1_K t)) (snd tw) in
      [T; a; rotl 32 30 b; c; d]
  | _ => v
  end.
Definition sha1_compress (H : list N) (blk : list N) : list N :=
  let v := fold_left sha1_round (combine (seq 0 80) (sha1_schedule blk)) H in
  map (fun p => wadd 32 (fst p) (snd p)) (combine H v).

(* ---------- the three hash functions ---------- *)
Inductive hash_t := SHA1 | SHA256 | SHA512.
Definition block_size (t : hash_t) : nat := match t with SHA512 => 128 | _ => 64 end.
Definition digest_size (t : hash_t) : nat := match t with SHA1 => 20 | SHA256 => 32 | SHA512 => 64 end.
Definition lenfield_size (t : hash_t) : nat := match t with SHA512 => 16 | _ => 8 end.
Definition word_bytes (t : hash_t) : nat := match t with SHA512 => 8 | _ => 4 end.
Definition compress_of (t : hash_t) : list N -> list N -> list N :=
  match t with SHA1 => sha1_compress | SHA256 => sha2_compress P256 | SHA512 => sha2_compress P512 end.
Definition IV_of (t : hash_t) : list N := match t with SHA1 => IV1 | SHA256 => IV256 | SHA512 => IV512 end.

Definition SHA_spec (t : hash_t) (msg : list N) : list N :=
  words_bytes (word_bytes t) (sha_hash (block_size t) (lenfield_size t) (compress_of t) (IV_of t) msg).
