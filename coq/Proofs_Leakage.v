(* C10 (the part that is logic): in the models, every quantity a branch or an address depends on - buffer fill levels, byte
   counters, array lengths, loop trip counts, access ranges - evolves as a function of LENGTHS and public parameters only,
   never of the bytes.  "Public state" of a hash context = (bytes buffered, bytes/blocks counted, array length). *)
From HV Require Import Base_Bytes Base_BytesLemmas Spec_SHA Model_BlockHash Proofs_BlockHash Model_Sha2Ctx Model_Sha1Ctx
  Proofs_Sha2Refine Proofs_Sha1Refine Model_Hash Proofs_Hash Model_Hmac Proofs_Hmac Model_Bounds Model_CtEq.
Local Open Scope N_scope.

(* ---------- abstract buffering layer ---------- *)
Definition a_pub (a : actx) : nat * nat := (length (a_buf a), a_tot a).

Lemma a_update_pub B compress a a' m m' : a_pub a = a_pub a' -> length m = length m' ->
  a_pub (a_update B compress a m) = a_pub (a_update B compress a' m').
Proof.
  unfold a_pub. intros Hp Hl. injection Hp as Hb Ht.
  unfold a_update. rewrite <- Hb, <- Hl.
  destruct (length (a_buf a) + length m <? B)%nat; cbn [a_buf a_tot].
  - rewrite !app_length, !firstn_length, <- Hl, Hb, Ht. reflexivity.
  - rewrite !firstn_length, !skipn_length, <- Hl, Ht. reflexivity.
Qed.
Lemma a_updates_pub B compress cs : forall cs' a a', a_pub a = a_pub a' -> map (@length N) cs = map (@length N) cs' ->
  a_pub (fold_left (a_update B compress) cs a) = a_pub (fold_left (a_update B compress) cs' a').
Proof.
  induction cs as [|m cs IH]; intros [|m' cs'] a a' Hp Hl; cbn in Hl; try discriminate; cbn [fold_left]; [exact Hp|].
  injection Hl as Hm Hcs. apply IH; [|exact Hcs]. now apply a_update_pub.
Qed.

(* ---------- the concrete hash contexts ---------- *)
Definition hpublic (c : hctx) : nat * N * nat :=
  match c with
  | HC1 c => (length (s_buf c), s_transforms c, 0%nat)
  | HC256 c => (m_len c, m_tot c, length (m_block c))
  | HC512 c => (m_len c, m_tot c, length (m_block c))
  end.

Lemma sha2_pub B LB (HLB : (8 <= LB)%nat) (HB : (LB + 1 <= B)%nat) compress IV c c' cs cs' :
  shape2 B c -> shape2 B c' -> map (@length N) cs = map (@length N) cs' ->
  let s := fold_left (update2 B compress) cs (init2 IV c) in
  let s' := fold_left (update2 B compress) cs' (init2 IV c') in
  m_len s = m_len s' /\ m_tot s = m_tot s' /\ length (m_block s) = length (m_block s').
Proof.
  intros Hs Hs' Hl s s'.
  destruct (R2_updates B LB HLB HB compress cs _ _ (R2_init B LB HLB HB IV c Hs)) as (_ & Hlen & Hml & _ & Htot & _).
  destruct (R2_updates B LB HLB HB compress cs' _ _ (R2_init B LB HLB HB IV c' Hs')) as (_ & Hlen' & Hml' & _ & Htot' & _).
  pose proof (a_updates_pub B compress cs cs' (a_init IV) (a_init IV) eq_refl Hl) as Hp. unfold a_pub in Hp. injection Hp as Hb Ht.
  fold s in Hlen, Hml, Htot. fold s' in Hlen', Hml', Htot'.
  repeat split; congruence.
Qed.

Lemma sha1_pub c c' cs cs' : map (@length N) cs = map (@length N) cs' ->
  let s := fold_left sha1_update cs (sha1_init c) in let s' := fold_left sha1_update cs' (sha1_init c') in
  length (s_buf s) = length (s_buf s') /\ s_transforms s = s_transforms s'.
Proof.
  intros Hl s s'.
  destruct (R1_updates cs _ _ (R1_init c)) as (_ & Hb & Ht & _). destruct (R1_updates cs' _ _ (R1_init c')) as (_ & Hb' & Ht' & _).
  pose proof (a_updates_pub 64 sha1_compress cs cs' (a_init IV1) (a_init IV1) eq_refl Hl) as Hp. unfold a_pub in Hp. injection Hp as Hbb Htt.
  fold s in Hb, Ht. fold s' in Hb', Ht'. split; congruence.
Qed.

(* any two context objects of the same type, (re-)initialised and fed chunk lists of the same lengths, have the same public state:
   the sequence of branches and addresses of update/finish is determined by it (Model_Bounds: the access ranges are functions of
   m_len and the length only) *)
Theorem hash_public_state c c' cs cs' : hshape c -> hshape c' -> htype c = htype c' -> map (@length N) cs = map (@length N) cs' ->
  hpublic (fold_left hupdate cs (hinit c)) = hpublic (fold_left hupdate cs' (hinit c')).
Proof.
  intros Hs Hs' Ht Hl. destruct c as [c|c|c], c' as [c'|c'|c']; cbn [htype] in Ht; try discriminate; cbn [hinit].
  - rewrite !fold_HC1. cbn [hpublic]. destruct (sha1_pub c c' cs cs' Hl) as [A B]. now rewrite A, B.
  - rewrite !fold_HC256. cbn [hpublic].
    destruct (sha2_pub 64 8 ltac:(lia) ltac:(lia) (sha2_compress P256) IV256 c c' cs cs' Hs Hs' Hl) as (A & B & C).
    unfold sha256_update, sha256_init. now rewrite A, B, C.
  - rewrite !fold_HC512. cbn [hpublic].
    destruct (sha2_pub 128 16 ltac:(lia) ltac:(lia) (sha2_compress P512) IV512 c c' cs cs' Hs Hs' Hl) as (A & B & C).
    unfold sha512_update, sha512_init. now rewrite A, B, C.
Qed.

(* the addresses touched by update/finish are a function of the public state and the length *)
Theorem sha2_addresses B thr c c' len : m_len c = m_len c' ->
  update2_block_writes B c len = update2_block_writes B c' len /\ update2_block_reads B c len = update2_block_reads B c' len /\
  update2_message_reads B c len = update2_message_reads B c' len /\ finish2_block_accesses B thr c = finish2_block_accesses B thr c'.
Proof.
  intros H. unfold update2_block_writes, update2_block_reads, update2_message_reads, finish2_block_accesses. rewrite H. auto.
Qed.

(* ---------- streaming HMAC: public state of the active hash context after init and updates ---------- *)
Lemma key_block_length t K : N.of_nat (length K) < 2 ^ 61 -> length (hmac_key_block t K) = block_size t.
Proof. intros HK. rewrite hmac_key_block_spec by exact HK. apply hmac_K0_length. Qed.

Theorem hmac_public_state h h' K K' cs cs' : hmac_shape h -> hmac_shape h' -> hc_type h = hc_type h' ->
  N.of_nat (length K) < 2 ^ 61 -> N.of_nat (length K') < 2 ^ 61 ->
  map (@length N) cs = map (@length N) cs' ->
  hpublic (hc_get (fold_left hmac_update cs (hmac_init h K))) = hpublic (hc_get (fold_left hmac_update cs' (hmac_init h' K'))).
Proof.
  intros Hs Hs' Ht HK HK' Hl.
  destruct (hmac_updates_get cs (hmac_init h K)) as (E1 & _). destruct (hmac_updates_get cs' (hmac_init h' K')) as (E1' & _).
  rewrite E1, E1'. unfold hmac_init.
  set (t := hc_type h). assert (Et : hc_type h' = t) by (symmetry; exact Ht). rewrite Et.
  set (h1 := {| hc_type := t; hc_block_size := block_size t; hc_digest_size := digest_size t;
                hc_okeypad := map (fun b => N.lxor b 92) (hmac_key_block t K); hc_sha1 := hc_sha1 h; hc_sha256 := hc_sha256 h; hc_sha512 := hc_sha512 h |}).
  set (h1' := {| hc_type := t; hc_block_size := block_size t; hc_digest_size := digest_size t;
                hc_okeypad := map (fun b => N.lxor b 92) (hmac_key_block t K'); hc_sha1 := hc_sha1 h'; hc_sha256 := hc_sha256 h'; hc_sha512 := hc_sha512 h' |}).
  rewrite !hc_get_put by (now rewrite htype_hupdate, htype_hinit, htype_hc_get).
  set (ip := map (fun b => N.lxor b 54) (hmac_key_block t K)). set (ip' := map (fun b => N.lxor b 54) (hmac_key_block t K')).
  change (fold_left hupdate cs (hupdate (hinit (hc_get h1)) ip)) with (fold_left hupdate (ip :: cs) (hinit (hc_get h1))).
  change (fold_left hupdate cs' (hupdate (hinit (hc_get h1')) ip')) with (fold_left hupdate (ip' :: cs') (hinit (hc_get h1'))).
  apply hash_public_state.
  - apply hshape_hc_get. exact Hs.
  - apply hshape_hc_get. exact Hs'.
  - now rewrite !htype_hc_get.
  - cbn [map]. unfold ip, ip'. rewrite !map_length, !key_block_length by assumption. now rewrite Hl.
Qed.

(* ---------- constant_time_equals: trip count and indices ---------- *)
Definition ct_loop_indices (a b : list N) : list nat := seq 0 (Nat.max (length a) (length b)).
Theorem ct_equals_indices a b a' b' : length a = length a' -> length b = length b' -> ct_loop_indices a b = ct_loop_indices a' b'.
Proof. intros H1 H2. unfold ct_loop_indices. now rewrite H1, H2. Qed.
