(* C04 - PBKDF2 equals RFC 8018 over the whole parameter domain; all forms agree. *)
From HV Require Import Base_Bytes Base_Result Spec_SHA Spec_HMAC Spec_KDF Model_Hmac Model_Kdf Proofs_Hmac Proofs_Kdf.
Local Open Scope N_scope.

(* vector-returning form: for every password, non-empty salt, 1 <= c <= limit, 1 <= dkLen <= (2^32-1)*hLen, 3 PRFs *)
Theorem C04_rfc8018 : forall (t : hash_t) (P S : list N) (c : N) (dk : nat),
  N.of_nat (length P) < 2 ^ 61 -> N.of_nat (length S) < 2 ^ 60 -> S <> [] ->
  1 <= c <= MAX_PBKDF2_ITERATIONS -> (1 <= dk)%nat -> N.of_nat dk <= (2 ^ 32 - 1) * N.of_nat (digest_size t) ->
  pbkdf2_vec t P S c dk = Ok (PBKDF2_spec t P S (N.to_nat c) dk) /\ length (PBKDF2_spec t P S (N.to_nat c) dk) = dk.
Proof.
  intros t P S c dk HP HS HSne Hc Hdk Hmax. unfold pbkdf2_vec.
  replace (c <? 1) with false by (symmetry; apply N.ltb_ge; lia).
  replace (MAX_PBKDF2_ITERATIONS <? c) with false by (symmetry; apply N.ltb_ge; lia).
  replace (dk =? 0)%nat with false by (symmetry; apply Nat.eqb_neq; lia).
  replace (length S =? 0)%nat with false by (symmetry; apply Nat.eqb_neq; destruct S; [congruence|cbn; lia]).
  replace ((2 ^ 32 - 1) * N.of_nat (digest_size t) <? N.of_nat dk) with false by (symmetry; apply N.ltb_ge; lia).
  split.
  - f_equal. apply pbkdf2_derive_A_spec; auto; lia.
  - unfold PBKDF2_spec. rewrite firstn_length.
    rewrite (flat_map_length_const _ (digest_size t)) by (intros; apply F_len; assumption). rewrite seq_length.
    assert (Hh : (0 < digest_size t)%nat) by (destruct t; cbn; lia).
    pose proof (Nat.div_mod (dk + digest_size t - 1) (digest_size t) ltac:(lia)).
    pose proof (Nat.mod_upper_bound (dk + digest_size t - 1) (digest_size t) ltac:(lia)).
    set (q := ((dk + digest_size t - 1) / digest_size t)%nat) in *. clearbody q. nia.
Qed.
Print Assumptions C04_rfc8018.

(* the caller-buffer form (streaming HmacContext implementation): accepts exactly when c, dkLen are in range and the
   salt has >= 16 bytes, and then writes the same bytes as the vector form - the two implementations are proved equal *)
Theorem C04_buffer_form : forall (t : hash_t) (P S : list N) (c : N) (dk : nat),
  N.of_nat (length P) < 2 ^ 61 -> N.of_nat (length S) < 2 ^ 60 ->
  pbkdf2_buf t P S c dk =
    if (c <? 1) || (dk =? 0)%nat || (length S <? 16)%nat || (MAX_PBKDF2_ITERATIONS <? c) then None
    else if (2 ^ 32 - 1) * N.of_nat (digest_size t) <? N.of_nat dk then None
    else match pbkdf2_vec t P S c dk with Ok d => Some d | Throw _ => None end.
Proof.
  intros t P S c dk HP HS. rewrite pbkdf2_buf_spec by assumption. unfold pbkdf2_vec.
  destruct (c <? 1) eqn:E1; [reflexivity|]. cbn [orb].
  destruct (dk =? 0)%nat eqn:E2; [reflexivity|]. cbn [orb].
  destruct (length S <? 16)%nat eqn:E3; [reflexivity|]. cbn [orb].
  destruct (MAX_PBKDF2_ITERATIONS <? c) eqn:E4; [reflexivity|].
  destruct ((2 ^ 32 - 1) * N.of_nat (digest_size t) <? N.of_nat dk) eqn:E5; [reflexivity|].
  replace (length S =? 0)%nat with false; [reflexivity|].
  symmetry. apply Nat.eqb_neq. apply Nat.ltb_ge in E3. lia.
Qed.
Print Assumptions C04_buffer_form.

(* the peppered form = PBKDF2 applied to HMAC(pepper, password) *)
Theorem C04_pepper : forall (t : hash_t) (P S pepper : list N) (c : N) (dk : nat),
  N.of_nat (length pepper) < 2 ^ 61 -> N.of_nat (length P) < 2 ^ 61 - 128 -> N.of_nat (length S) < 2 ^ 60 -> S <> [] ->
  1 <= c <= MAX_PBKDF2_ITERATIONS -> (1 <= dk)%nat -> N.of_nat dk <= (2 ^ 32 - 1) * N.of_nat (digest_size t) ->
  pbkdf2_with_pepper t P S pepper c dk = Ok (PBKDF2_spec t (HMAC_spec t pepper P) S (N.to_nat c) dk).
Proof.
  intros t P S pepper c dk Hpep HP HS HSne Hc Hdk Hmax. unfold pbkdf2_with_pepper.
  rewrite get_hmac_raw_spec by assumption.
  apply C04_rfc8018; auto. rewrite Proofs_Otp.HMAC_spec_length. destruct t; reflexivity.
Qed.
Print Assumptions C04_pepper.

(* RFC 6070 vector 2: P="password", S="salt", c=2, dkLen=20 *)
Example C04_rfc6070 : pbkdf2_vec SHA1 [112;97;115;115;119;111;114;100] [115;97;108;116] 2 20 =
  Ok [0xea;0x6c;0x01;0x4d;0xc7;0x2d;0x6f;0x8c;0xcd;0x1e;0xd9;0x2a;0xce;0x1d;0x41;0xf0;0xd8;0xde;0x89;0x57].
Proof. vm_compute. reflexivity. Qed.

(* one whole block of the derived key is F(P, S, c, i) - in particular for block indices above 255 and above 65535, where the
   correspondence derives a long output and compares its last blocks with F computed directly *)
Theorem C04_block : forall (t : hash_t) (P S : list N) (c l i : nat), (1 <= i <= l)%nat ->
  firstn (digest_size t) (skipn ((i - 1) * digest_size t) (PBKDF2_spec t P S c (l * digest_size t))) = pbkdf2_F t P S c (N.of_nat i).
Proof. exact pbkdf2_spec_block. Qed.
Print Assumptions C04_block.
