(* Model_Sha1Ctx: hmac_hash::SHA1 (src/sha1.cpp:34-110): m_h, m_transforms (size_t, wraps),
   m_buffer (a std::vector: live bytes only). *)
From HV Require Import Base_Bytes Spec_SHA Model_Sha1Transform.
Local Open Scope N_scope.

Record ctx1 := { s_h : list N; s_transforms : N; s_buf : list N }.

Definition sha1_init (c : ctx1) : ctx1 := {| s_h := IV1; s_transforms := 0; s_buf := [] |}.

(* transform(block): one compression as the code computes it (Model_Sha1Transform: buffer_to_block, the 80 unrolled
   macro calls on the circular 16-word block, m_h[k] += a..e), m_transforms++ *)
Definition sha1_transform (c : ctx1) (blk : list N) : ctx1 :=
  {| s_h := sha1_compress_code (s_h c) blk; s_transforms := (s_transforms c + 1) mod 2 ^ 64; s_buf := s_buf c |}.

Definition sha1_update (c : ctx1) (message : list N) : ctx1 :=
  let length_ := length message in
  (* "Fill buffer if it has existing bytes" *)
  let '(c1, offset) :=
    match s_buf c with
    | [] => (c, 0%nat)
    | _ =>
        let to_copy := Nat.min (64 - length (s_buf c)) length_ in
        let buf' := s_buf c ++ firstn to_copy message in
        if (length buf' =? 64)%nat
        then (let c' := sha1_transform c buf' in
              {| s_h := s_h c'; s_transforms := s_transforms c'; s_buf := [] |}, to_copy)
        else ({| s_h := s_h c; s_transforms := s_transforms c; s_buf := buf' |}, to_copy)
    end in
  (* "Process full blocks directly from message": while (offset + 64 <= length) *)
  let rest := skipn offset message in
  let nb := (length rest / 64)%nat in
  let c2 := fold_left sha1_transform (chunks 64 (firstn (nb * 64) rest)) c1 in
  (* "Store remaining bytes in buffer" *)
  {| s_h := s_h c2; s_transforms := s_transforms c2; s_buf := s_buf c2 ++ skipn (nb * 64) rest |}.

Definition sha1_finish (c : ctx1) : ctx1 * list N :=
  let total_bits := ((s_transforms c * 64 + N.of_nat (length (s_buf c))) * 8) mod 2 ^ 64 in
  let b1 := s_buf c ++ [128] in
  (* while (size % 64 != 56) push_back(0) *)
  let b2 := b1 ++ repeat 0 ((120 - length b1 mod 64) mod 64)%nat in
  let b3 := b2 ++ be_bytes 8 total_bits in
  let c' := fold_left sha1_transform (chunks 64 b3)
              {| s_h := s_h c; s_transforms := s_transforms c; s_buf := b3 |} in
  (* wipe_buffer(): the buffered bytes are zeroed once the digest is produced *)
  ({| s_h := s_h c'; s_transforms := s_transforms c'; s_buf := map (fun _ => 0) (s_buf c') |}, words_bytes 4 (s_h c')).

Definition fresh1 : ctx1 := {| s_h := []; s_transforms := 0; s_buf := [] |}.
Definition sha1_oneshot (c : ctx1) (msg : list N) : list N := snd (sha1_finish (sha1_update (sha1_init c) msg)).
