From HV Require Import Base_Bytes Model_Conc.

Section P.
  Variable Obj Call Res Key : Type.
  Variable k0 : Key.
  Variable step : Key -> Obj -> Call -> Obj * Res.
  Notation gstep := (gstep Obj Call Res Key k0 step).
  Notation grun := (grun Obj Call Res Key k0 step).
  Notation alone := (alone Obj Call Res Key step).
  Notation the_key := (the_key Obj Key k0).

  (* the key every call sees is the same one, whoever initialised it *)
  Definition key_ok (g : gstate Obj Key) : Prop := g_key Obj Key g = None \/ g_key Obj Key g = Some k0.
  Lemma the_key_ok g : key_ok g -> the_key g = k0.
  Proof. unfold Model_Conc.the_key. intros [H|H]; rewrite H; reflexivity. Qed.
  Lemma gstep_key_ok g t c : key_ok g -> key_ok (fst (gstep g t c)).
  Proof. intros H. right. cbn. now rewrite the_key_ok. Qed.

  Theorem interleaving_invisible sched : forall g t, key_ok g ->
    results_of Res t (snd (grun g sched)) = alone k0 (g_objs Obj Key g t) (calls_of Call t sched).
  Proof.
    induction sched as [|[u c] rest IH]; intros g t Hk; [reflexivity|].
    cbn [Model_Conc.grun snd fst]. unfold results_of, calls_of in *. cbn [filter fst snd map].
    pose proof (gstep_key_ok g u c Hk) as Hk'.
    destruct (Nat.eqb_spec u t) as [E|E].
    - subst u. cbn [map snd Model_Conc.alone]. rewrite IH by exact Hk'.
      unfold Model_Conc.gstep. cbn [fst snd g_objs]. rewrite the_key_ok by exact Hk.
      unfold upd. rewrite Nat.eqb_refl. reflexivity.
    - rewrite IH by exact Hk'. unfold Model_Conc.gstep. cbn [fst g_objs]. unfold upd.
      destruct (Nat.eqb_spec t u) as [E'|E']; [congruence|reflexivity].
  Qed.
End P.
