(* The SHA-1 context model (std::vector buffer, transform counter) refines the abstract block-hash layer. *)
From HV Require Import Base_Bytes Base_BytesLemmas Spec_SHA Model_BlockHash Proofs_BlockHash Model_Sha1Transform
  Proofs_Sha1Transform Model_Sha1Ctx.
Local Open Scope N_scope.
Ltac Zify.zify_post_hook ::= Z.to_euclidean_division_equations.

Notation a_update1 := (a_update 64 sha1_compress).
Notation a_finish1 := (a_finish 64 8 sha1_compress (fun n => be_bytes 8 (8 * N.of_nat n))).

(* the chaining value is five 32-bit words (H_ok): under that invariant the transform as the code computes it
   (Model_Sha1Transform.sha1_compress_code) is the FIPS compression function (Proofs_Sha1Transform) *)
Definition R1 (c : ctx1) (a : actx) : Prop :=
  s_h c = a_h a /\ s_buf c = a_buf a /\ s_transforms c = N.of_nat (a_tot a / 64) mod 2 ^ 64 /\
  (a_tot a mod 64 = 0)%nat /\ (length (a_buf a) < 64)%nat /\ H_ok (s_h c).

Lemma R1_init c : R1 (sha1_init c) (a_init IV1).
Proof.
  unfold R1, sha1_init, a_init; cbn [s_h s_buf s_transforms a_h a_buf a_tot].
  do 5 (split; [cbn; try reflexivity; lia|]). exact IV1_ok.
Qed.

Lemma transform_h c b : H_ok (s_h c) -> length b = 64%nat -> s_h (sha1_transform c b) = sha1_compress (s_h c) b.
Proof. intros Hok Hb. cbn [sha1_transform s_h]. now apply sha1_compress_code_correct. Qed.
Lemma fold_compress_ok bs : forall h, H_ok h -> H_ok (fold_left sha1_compress bs h).
Proof.
  induction bs as [|b bs IH]; intros h Hh; cbn [fold_left]; [exact Hh|]. apply IH. apply sha1_compress_H_ok. apply Hh.
Qed.
Lemma fold_transform_h bs c : H_ok (s_h c) -> Forall (fun b => length b = 64%nat) bs ->
  s_h (fold_left sha1_transform bs c) = fold_left sha1_compress bs (s_h c).
Proof.
  revert c; induction bs as [|b bs IH]; intros c Hok Hbs; cbn [fold_left]; [reflexivity|].
  inversion Hbs as [|b' bs' Hb Hbs' Eb]; subst b' bs'.
  pose proof (transform_h c b Hok Hb) as E.
  rewrite IH; [now rewrite E|rewrite E; apply sha1_compress_H_ok, Hok|exact Hbs'].
Qed.
Lemma chunks_all_len {A} B k : (0 < B)%nat -> forall l : list A, length l = (k * B)%nat ->
  Forall (fun b => length b = B) (chunks B l).
Proof.
  intros HB. induction k as [|k IH]; intros l Hl.
  - destruct l; [constructor|cbn [length] in Hl; lia].
  - rewrite <- (firstn_skipn B l).
    assert (Hf : length (firstn B l) = B) by (rewrite firstn_length; cbn [Nat.mul] in Hl; lia).
    rewrite chunks_app_block by assumption. constructor; [exact Hf|].
    apply IH. rewrite skipn_length. cbn [Nat.mul] in Hl. lia.
Qed.
Lemma fold_transform_buf bs c : s_buf (fold_left sha1_transform bs c) = s_buf c.
Proof. revert c; induction bs as [|b bs IH]; intros c; cbn [fold_left]; [reflexivity|]. now rewrite IH. Qed.
Lemma fold_transform_cnt bs c x : s_transforms c = x mod 2 ^ 64 ->
  s_transforms (fold_left sha1_transform bs c) = (x + N.of_nat (length bs)) mod 2 ^ 64.
Proof.
  revert c x; induction bs as [|b bs IH]; intros c x Hx; cbn [fold_left length].
  - now rewrite N.add_0_r.
  - rewrite (IH _ (x + 1)).
    + f_equal. lia.
    + cbn [sha1_transform s_transforms]. rewrite Hx. now rewrite N.add_mod_idemp_l by discriminate.
Qed.

Lemma match_nil {A B} (l : list A) (X Y : B) :
  match l with [] => X | _ :: _ => Y end = if Nat.eqb (length l) 0 then X else Y.
Proof. destruct l; reflexivity. Qed.

Lemma R1_update c a m : R1 c a -> R1 (sha1_update c m) (a_update1 a m).
Proof.
  intros (Hh & Hbuf & Hcnt & Hmod & Hlt & Hok). pose proof Hok as (Hok5 & HokF).
  unfold sha1_update, Model_BlockHash.a_update.
  rewrite <- Hbuf in *.
  set (bl := length (s_buf c)) in *.
  set (rem_len := Nat.min (length m) (64 - bl)).
  rewrite match_nil. fold bl.
  destruct (Nat.eqb_spec bl 0) as [Hbl|Hbl0].
  - (* empty buffer: blocks are compressed directly from the message *)
    assert (Ebuf : s_buf c = []) by (apply length_zero_iff_nil; exact Hbl). cbn [skipn app].
    destruct (Nat.ltb_spec (bl + length m) 64) as [Hs|Hs].
    + assert (E0 : (length m / 64 = 0)%nat) by (apply Nat.div_small; lia).
      rewrite E0. cbn [Nat.mul firstn skipn]. rewrite chunks_nil. cbn [fold_left].
      unfold R1; cbn [s_h s_buf s_transforms a_h a_buf a_tot].
      assert (rem_len = length m) by (unfold rem_len; lia).
      rewrite H, firstn_all. rewrite Ebuf. cbn [app]. repeat split; auto; lia.
    + assert (Hr : rem_len = 64%nat) by (unfold rem_len; lia). rewrite Hr.
      set (new_len := (length m - 64)%nat).
      set (nb := (new_len / 64)%nat).
      assert (Enb : (length m / 64 = nb + 1)%nat).
      { unfold nb, new_len. pose proof (Nat.div_mod (length m) 64 ltac:(lia)).
        pose proof (Nat.div_mod (length m - 64) 64 ltac:(lia)).
        pose proof (Nat.mod_upper_bound (length m) 64 ltac:(lia)).
        pose proof (Nat.mod_upper_bound (length m - 64) 64 ltac:(lia)). lia. }
      rewrite Enb.
      pose proof (Nat.div_mod new_len 64 ltac:(lia)) as Hdm. fold nb in Hdm.
      pose proof (Nat.mod_upper_bound new_len 64 ltac:(lia)) as Hub.
      assert (Hf64 : length (firstn 64 m) = 64%nat) by (rewrite firstn_length; lia).
      rewrite firstn_succ_blocks.
      rewrite chunks_app_block by (auto; lia).
      cbn [fold_left].
      assert (Hrest : length (firstn (nb * 64) (skipn 64 m)) = (nb * 64)%nat).
      { rewrite firstn_length, skipn_length. fold new_len. lia. }
      assert (Hall : Forall (fun b => length b = 64%nat) (chunks 64 (firstn (nb * 64) (skipn 64 m))))
        by (apply (chunks_all_len 64 nb); [lia|exact Hrest]).
      pose proof (transform_h c (firstn 64 m) Hok Hf64) as Etr.
      assert (Hok1 : H_ok (s_h (sha1_transform c (firstn 64 m)))) by (rewrite Etr; apply sha1_compress_H_ok, Hok5).
      unfold R1; cbn [s_h s_buf s_transforms a_h a_buf a_tot].
      rewrite (fold_transform_h _ _ Hok1 Hall), fold_transform_buf. rewrite Etr.
      cbn [sha1_transform s_h s_buf]. rewrite Ebuf. cbn [app].
      unfold Model_BlockHash.transform.
      split; [|split; [|split; [|split; [|split; [|apply fold_compress_ok, sha1_compress_H_ok, Hok5]]]]].
      * rewrite (firstn_all2 (n := (1 * 64)%nat) (firstn 64 m)) by lia.
        rewrite (chunks_single 64 (firstn 64 m)) by (auto; lia). cbn [fold_left]. now rewrite Hh.
      * rewrite skipn_skipn'. replace (64 + nb * 64)%nat with ((nb + 1) * 64)%nat by lia.
        symmetry. apply firstn_all2. rewrite skipn_length. unfold new_len in *. lia.
      * rewrite (fold_transform_cnt _ _ (N.of_nat (a_tot a / 64) + 1)).
        -- f_equal. rewrite (chunks_length_mult 64 nb) by (auto; lia).
           replace ((a_tot a + (nb + 1) * 64) / 64)%nat with (a_tot a / 64 + (nb + 1))%nat.
           ++ lia.
           ++ rewrite Nat.div_add by lia. reflexivity.
        -- cbn [sha1_transform s_transforms]. rewrite Hcnt. now rewrite N.add_mod_idemp_l by discriminate.
      * rewrite <- Nat.add_mod_idemp_l, Hmod by lia. cbn [Nat.add]. apply Nat.mod_mul. lia.
      * rewrite firstn_length, !skipn_length. unfold new_len in *. lia.
  - 
    replace (Nat.min (64 - bl) (length m)) with rem_len by (unfold rem_len; lia).
    assert (Hfl : length (firstn rem_len m) = rem_len) by (rewrite firstn_length; unfold rem_len; lia).
    rewrite app_length, Hfl. fold bl.
    destruct (Nat.ltb_spec (bl + length m) 64) as [Hs|Hs].
    + assert (Hr : rem_len = length m) by (unfold rem_len; lia).
      destruct (Nat.eqb_spec (bl + rem_len) 64) as [E|E]; [lia|].
      rewrite Hr, skipn_all. cbn [length Nat.div Nat.divmod fst Nat.mul firstn skipn].
      rewrite chunks_nil. cbn [fold_left].
      unfold R1; cbn [s_h s_buf s_transforms a_h a_buf a_tot].
      rewrite app_nil_r, firstn_all. repeat split; auto. rewrite app_length. fold bl. lia.
    + assert (Hr : rem_len = (64 - bl)%nat) by (unfold rem_len; lia).
      destruct (Nat.eqb_spec (bl + rem_len) 64) as [E|E]; [|lia].
      set (new_len := (length m - rem_len)%nat).
      rewrite skipn_length. fold new_len.
      set (nb := (new_len / 64)%nat).
      pose proof (Nat.div_mod new_len 64 ltac:(lia)) as Hdm. fold nb in Hdm.
      pose proof (Nat.mod_upper_bound new_len 64 ltac:(lia)) as Hub.
      assert (Hblk : length (s_buf c ++ firstn rem_len m) = 64%nat) by (rewrite app_length, Hfl; fold bl; lia).
      assert (Hrest : length (firstn (nb * 64) (skipn rem_len m)) = (nb * 64)%nat).
      { rewrite firstn_length, skipn_length. fold new_len. lia. }
      assert (Hall : Forall (fun b => length b = 64%nat) (chunks 64 (firstn (nb * 64) (skipn rem_len m))))
        by (apply (chunks_all_len 64 nb); [lia|exact Hrest]).
      pose proof (transform_h c (s_buf c ++ firstn rem_len m) Hok Hblk) as Etr.
      assert (Hok1 : H_ok (s_h (sha1_transform c (s_buf c ++ firstn rem_len m))))
        by (rewrite Etr; apply sha1_compress_H_ok, Hok5).
      unfold R1; cbn [s_h s_buf s_transforms a_h a_buf a_tot].
      rewrite fold_transform_h by (cbn [s_h]; assumption). rewrite fold_transform_buf. cbn [s_h]. rewrite Etr.
      cbn [sha1_transform s_h s_buf app].
      unfold Model_BlockHash.transform.
      split; [|split; [|split; [|split; [|split; [|apply fold_compress_ok, sha1_compress_H_ok, Hok5]]]]].
      * rewrite (firstn_all2 (n := (1 * 64)%nat) (s_buf c ++ firstn rem_len m)) by lia.
        rewrite (chunks_single 64 (s_buf c ++ firstn rem_len m)) by (auto; lia). cbn [fold_left]. now rewrite Hh.
      * symmetry. apply firstn_all2. rewrite !skipn_length. fold new_len. lia.
      * rewrite (fold_transform_cnt _ _ (N.of_nat (a_tot a / 64) + 1)).
        -- f_equal. rewrite (chunks_length_mult 64 nb) by (auto; lia).
           replace ((a_tot a + (nb + 1) * 64) / 64)%nat with (a_tot a / 64 + (nb + 1))%nat.
           ++ lia.
           ++ rewrite Nat.div_add by lia. reflexivity.
        -- cbn [s_transforms sha1_transform]. rewrite Hcnt. now rewrite N.add_mod_idemp_l by discriminate.
      * rewrite <- Nat.add_mod_idemp_l, Hmod by lia. cbn [Nat.add]. apply Nat.mod_mul. lia.
      * rewrite firstn_length, !skipn_length. fold new_len. lia.
Qed.

Lemma R1_updates cs : forall c a, R1 c a -> R1 (fold_left sha1_update cs c) (fold_left a_update1 cs a).
Proof. induction cs as [|m cs IH]; intros c a H; cbn [fold_left]; [exact H|]. apply IH. now apply R1_update. Qed.

Lemma R1_finish c a : R1 c a -> N.of_nat (a_tot a + length (a_buf a)) < 2 ^ 61 ->
  snd (sha1_finish c) = words_bytes 4 (a_finish1 55%nat a).
Proof.
  intros (Hh & Hbuf & Hcnt & Hmod & Hlt & Hok) Hbound.
  unfold sha1_finish, Model_BlockHash.a_finish. cbn [snd]. f_equal.
  rewrite Hbuf.
  set (ml := length (a_buf a)) in *.
  rewrite (Nat.mod_small ml 64) by lia.
  set (nb := if (55 <? ml)%nat then 2%nat else 1%nat).
  assert (Hz : ((120 - length (a_buf a ++ [128%N]) mod 64) mod 64 = nb * 64 - ml - 1 - 8)%nat).
  { rewrite app_length. fold ml. cbn [length]. unfold nb.
    destruct (Nat.ltb_spec 55 ml) as [Hc|Hc].
    - destruct (Nat.eq_dec ml 63) as [->|Hne]; [reflexivity|].
      rewrite (Nat.mod_small (ml + 1)) by lia. rewrite Nat.mod_small by lia. lia.
    - rewrite (Nat.mod_small (ml + 1)) by lia.
      replace (120 - (ml + 1))%nat with ((55 - ml) + 1 * 64)%nat by lia.
      rewrite Nat.mod_add by lia. rewrite Nat.mod_small by lia. lia. }
  rewrite Hz.
  assert (Elen : (s_transforms c * 64 + N.of_nat ml) * 8 mod 2 ^ 64 = 8 * N.of_nat (a_tot a + ml)).
  { rewrite Hcnt.
    assert (Et : N.of_nat (a_tot a / 64) * 64 = N.of_nat (a_tot a)).
    { pose proof (Nat.div_mod (a_tot a) 64 ltac:(lia)). lia. }
    rewrite Nat2N.inj_add in *.
    set (x := N.of_nat (a_tot a / 64)) in *. set (t := N.of_nat (a_tot a)) in *. set (y := N.of_nat ml) in *.
    clearbody x t y. change (2 ^ 64) with 18446744073709551616. change (2 ^ 61) with 2305843009213693952 in Hbound. lia. }
  rewrite Elen.
  unfold Model_BlockHash.transform.
  set (final := a_buf a ++ [128] ++ repeat 0 (nb * 64 - ml - 1 - 8) ++ be_bytes 8 (8 * N.of_nat (a_tot a + ml))).
  assert (Hfl : length final = (nb * 64)%nat).
  { unfold final. rewrite !app_length, repeat_length, be_bytes_length. cbn [length]. fold ml.
    unfold nb. destruct (Nat.ltb_spec 55 ml); lia. }
  rewrite firstn_all2 by lia.
  rewrite <- !app_assoc. fold final.
  rewrite fold_transform_h.
  - cbn [s_h]. now rewrite Hh.
  - cbn [s_h]. exact Hok.
  - apply (chunks_all_len 64 nb); [lia|exact Hfl].
Qed.

Theorem sha1_chunked_correct c cs : N.of_nat (length (concat cs)) < 2 ^ 61 ->
  snd (sha1_finish (fold_left sha1_update cs (sha1_init c))) =
  words_bytes 4 (hash_spec 64 8 sha1_compress IV1 (fun n => be_bytes 8 (8 * N.of_nat n)) (concat cs)).
Proof.
  intros Hb.
  assert (H64 : (8 + 1 <= 64)%nat) by lia. assert (H0 : (0 < 64)%nat) by lia.
  pose proof (R1_updates cs _ _ (R1_init c)) as HR.
  pose proof (AInv_updates 64 8 H64 H0 sha1_compress IV1 cs _ _ (AInv_init 64 8 H64 H0 sha1_compress IV1)) as HI.
  cbn [app] in HI.
  rewrite (R1_finish _ _ HR).
  - f_equal. apply (a_finish_spec 64 8 H64 H0 sha1_compress IV1 _ (fun n => be_bytes_length 8 _)). exact HI.
  - destruct HI as (_ & Ht & Hle & _). rewrite Ht.
    replace (length (concat cs) - length (a_buf (fold_left a_update1 cs (a_init IV1))) +
             length (a_buf (fold_left a_update1 cs (a_init IV1))))%nat with (length (concat cs)) by lia.
    exact Hb.
Qed.
