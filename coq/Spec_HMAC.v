(* RFC 2104: HMAC(K, m) = H((K0 xor opad) || H((K0 xor ipad) || m)),
   K0 = K zero-padded to the block size B, after replacing K by H(K) when |K| > B. *)
From HV Require Import Base_Bytes Spec_SHA.
Local Open Scope N_scope.

Definition hmac_K0 (t : hash_t) (K : list N) : list N :=
  pad_to (block_size t) (if (block_size t <? length K)%nat then SHA_spec t K else K).
Definition HMAC_spec (t : hash_t) (K m : list N) : list N :=
  let K0 := hmac_K0 t K in
  SHA_spec t (xor_const 0x5c K0 ++ SHA_spec t (xor_const 0x36 K0 ++ m)).
