(* Model_Sha2Ctx: hmac_hash::SHA256 / SHA512 (src/sha256.cpp:118-180, src/sha512.cpp:152-216),
   written after the code: fields m_h, m_block (the whole 2*BLOCK array, stale bytes included),
   m_len, m_tot_len (uint64_t, wraps); update with tmp_len / rem_len / block_nb / shifted_message;
   finish as its three array writes (memset, 0x80, 8-byte length) followed by transform. *)
From HV Require Import Base_Bytes Spec_SHA.
Local Open Scope N_scope.

Record ctx2 := { m_h : list N; m_block : list N; m_len : nat; m_tot : N }.

Section Sha2Ctx.
  Variable B : nat.            (* SHA224_256_BLOCK_SIZE = 64 / SHA384_512_BLOCK_SIZE = 128 *)
  Variable wb : nat.           (* bytes per state word: 4 / 8 *)
  Variable compress : list N -> list N -> list N.
  Variable IV : list N.
  Variable thr : nat.          (* BLOCK_SIZE - 9 (sha256.cpp) / BLOCK_SIZE - 17 (sha512.cpp) *)

  (* transform(message, block_nb): compress the first block_nb blocks of message *)
  Definition transform2 (h : list N) (message : list N) (block_nb : nat) : list N :=
    fold_left compress (chunks B (firstn (block_nb * B) message)) h.

  (* init() assigns m_h, m_len, m_tot_len; m_block keeps whatever it held *)
  Definition init2 (c : ctx2) : ctx2 :=
    {| m_h := IV; m_block := m_block c; m_len := 0; m_tot := 0 |}.

  Definition update2 (c : ctx2) (message : list N) : ctx2 :=
    let length_ := length message in
    let tmp_len := (B - m_len c)%nat in
    let rem_len := if (length_ <? tmp_len)%nat then length_ else tmp_len in
    let blk := write_at (m_block c) (m_len c) (firstn rem_len message) in       (* memcpy(&m_block[m_len], message, rem_len) *)
    if (m_len c + length_ <? B)%nat then
      {| m_h := m_h c; m_block := blk; m_len := (m_len c + length_)%nat; m_tot := m_tot c |}
    else
      let new_len := (length_ - rem_len)%nat in
      let block_nb := (new_len / B)%nat in
      let shifted := skipn rem_len message in
      let h1 := transform2 (m_h c) blk 1 in
      let h2 := transform2 h1 shifted block_nb in
      let rem2 := (new_len mod B)%nat in
      {| m_h := h2;
         m_block := write_at blk 0 (firstn rem2 (skipn (block_nb * B) shifted));  (* memcpy(m_block, &shifted[block_nb<<k], rem_len) *)
         m_len := rem2;
         m_tot := (m_tot c + N.of_nat ((block_nb + 1) * B)) mod 2 ^ 64 |}.

  (* finish(digest): returns the context as the code leaves it, and the digest bytes *)
  Definition finish2 (c : ctx2) : ctx2 * list N :=
    let block_nb := if (thr <? m_len c mod B)%nat then 2%nat else 1%nat in
    let len_b := ((m_tot c + N.of_nat (m_len c)) * 8) mod 2 ^ 64 in
    let pm_len := (block_nb * B)%nat in
    let b1 := write_at (m_block c) (m_len c) (repeat 0 (pm_len - m_len c)) in      (* memset *)
    let b2 := write_at b1 (m_len c) [128] in                                       (* m_block[m_len] = 0x80 *)
    let b3 := write_at b2 (pm_len - 8) (be_bytes 8 len_b) in                       (* UNPACK of len_b at pm_len - 8 *)
    let h := transform2 (m_h c) b3 block_nb in
    ({| m_h := h; m_block := b3; m_len := m_len c; m_tot := m_tot c |}, words_bytes wb h).

  Definition oneshot2 (c : ctx2) (msg : list N) : list N :=
    snd (finish2 (update2 (init2 c) msg)).
End Sha2Ctx.

(* a freshly constructed object: fields indeterminate in C++; any values of the right shape *)
Definition fresh2 (B : nat) : ctx2 := {| m_h := []; m_block := repeat 0 (2 * B); m_len := 0; m_tot := 0 |}.

Definition sha256_init := init2 IV256.
Definition sha256_update := update2 64 (sha2_compress P256).
Definition sha256_finish := finish2 64 4 (sha2_compress P256) 55.
Definition sha512_init := init2 IV512.
Definition sha512_update := update2 128 (sha2_compress P512).
Definition sha512_finish := finish2 128 8 (sha2_compress P512) 111.
(* the pinned (pre-fix) SHA-512 finish: threshold BLOCK_SIZE - 9 *)
Definition sha512_finish_pinned := finish2 128 8 (sha2_compress P512) 119.
