(* Tie_Source: what lib/srcgen.py regenerated from /repo's sources on this run (GEN.Gen_Source) is the FIPS 180-4 /
   RFC 4648 object the models, specs and theorems of HV are about.  Hand-written and fixed; only Gen_Source.v changes.
   Every theorem is for ALL words / arrays (no bound): the generated definitions are open terms in x, w, wv, j. *)
From HV Require Import Base_Bytes Spec_SHA Spec_Base64 Spec_Base32 Spec_Base36.
From GEN Require Import Gen_Source.
From Coq Require Import List NArith.
Import ListNotations.
Local Open Scope N_scope.

(* ---- tables and initial values (FIPS 180-4 4.2.2, 4.2.3, 5.3.1, 5.3.3, 5.3.5; 4.2.1) ---- *)
Theorem tie_K256 : S256.src_sha256_k = K256.            Proof. reflexivity. Qed.
Theorem tie_K512 : S512.src_sha512_k = K512.            Proof. reflexivity. Qed.
Theorem tie_IV256 : S256.src_iv = IV256.                Proof. reflexivity. Qed.
Theorem tie_IV512 : S512.src_iv = IV512.                Proof. reflexivity. Qed.
Theorem tie_rounds : S256.src_rounds = N.of_nat (length K256) /\ S512.src_rounds = N.of_nat (length K512).
Proof. split; reflexivity. Qed.
Theorem tie_IV1 : src_sha1_iv = IV1.                    Proof. reflexivity. Qed.
Theorem tie_K1 : src_sha1_k = [sha1_K 0; sha1_K 16; sha1_K 20; sha1_K 40; sha1_K 60] /\ sha1_K 19 = sha1_K 0 /\
                 sha1_K 39 = sha1_K 20 /\ sha1_K 59 = sha1_K 40 /\ sha1_K 79 = sha1_K 60.
Proof. repeat split; reflexivity. Qed.

(* ---- word functions (4.1.2, 4.1.3): the macros as written are Ch, Maj, Sigma0/1, sigma0/1 ---- *)
Theorem tie_256_funcs : forall x y z,
  S256.src_SHA2_CH 32 x y z = Ch 32 x y z /\ S256.src_SHA2_MAJ 32 x y z = Maj x y z /\
  S256.src_SHA256_F1 32 x = BigSigma P256 (p_S0 P256) x /\ S256.src_SHA256_F2 32 x = BigSigma P256 (p_S1 P256) x /\
  S256.src_SHA256_F3 32 x = SmallSigma P256 (p_s0 P256) x /\ S256.src_SHA256_F4 32 x = SmallSigma P256 (p_s1 P256) x.
Proof. intros; repeat split; reflexivity. Qed.
Theorem tie_512_funcs : forall x y z,
  S512.src_SHA2_CH 64 x y z = Ch 64 x y z /\ S512.src_SHA2_MAJ 64 x y z = Maj x y z /\
  S512.src_SHA512_F1 64 x = BigSigma P512 (p_S0 P512) x /\ S512.src_SHA512_F2 64 x = BigSigma P512 (p_S1 P512) x /\
  S512.src_SHA512_F3 64 x = SmallSigma P512 (p_s0 P512) x /\ S512.src_SHA512_F4 64 x = SmallSigma P512 (p_s1 P512) x.
Proof. intros; repeat split; reflexivity. Qed.

(* ---- message schedule (6.2.2 step 1, 6.4.2 step 1): W_j = s1(W_{j-2}) + W_{j-7} + s0(W_{j-15}) + W_{j-16} ---- *)
Definition fips_sched (P : sha2_params) (w : list N) (j : N) : N :=
  let W := p_w P in let at_ k := nth (N.to_nat (j - k)) w 0 in
  wadd W (wadd W (wadd W (SmallSigma P (p_s1 P) (at_ 2)) (at_ 7)) (SmallSigma P (p_s0 P) (at_ 15))) (at_ 16).
Theorem tie_256_sched : forall w j, S256.src_sched 32 w j = fips_sched P256 w j.   Proof. intros; reflexivity. Qed.
Theorem tie_512_sched : forall w j, S512.src_sched 64 w j = fips_sched P512 w j.   Proof. intros; reflexivity. Qed.

(* ---- one round of the compression loop (6.2.2 step 3, 6.4.2 step 3): the ten assignments of the loop body, executed in
        program order on the 8-word array, are Spec_SHA.sha2_round on (K_j, W_j) ---- *)
Theorem tie_256_round : forall a b c d e f g h w j,
  S256.src_round 32 [a; b; c; d; e; f; g; h] w j = sha2_round P256 [a; b; c; d; e; f; g; h] (nth (N.to_nat j) K256 0, nth (N.to_nat j) w 0).
Proof. intros; reflexivity. Qed.
Theorem tie_512_round : forall a b c d e f g h w j,
  S512.src_round 64 [a; b; c; d; e; f; g; h] w j = sha2_round P512 [a; b; c; d; e; f; g; h] (nth (N.to_nat j) K512 0, nth (N.to_nat j) w 0).
Proof. intros; reflexivity. Qed.

(* ---- codec alphabets (RFC 4648 tables 1, 2, 3; Base36 digits) ---- *)
Theorem tie_b64 : src_b64_std = b64_spec_alphabet false /\ src_b64_url = b64_spec_alphabet true.
Proof. split; reflexivity. Qed.
Theorem tie_b32 : src_b32 = b32_alphabet.               Proof. reflexivity. Qed.
Theorem tie_b36 : src_b36 = map digit_char (map N.of_nat (seq 0 36)).   Proof. reflexivity. Qed.

Print Assumptions tie_K256. Print Assumptions tie_K512. Print Assumptions tie_IV256. Print Assumptions tie_IV512.
Print Assumptions tie_rounds. Print Assumptions tie_IV1. Print Assumptions tie_K1.
Print Assumptions tie_256_funcs. Print Assumptions tie_512_funcs. Print Assumptions tie_256_sched. Print Assumptions tie_512_sched.
Print Assumptions tie_256_round. Print Assumptions tie_512_round. Print Assumptions tie_b64. Print Assumptions tie_b32. Print Assumptions tie_b36.
