(* Tie_Source: what lib/srcgen.py regenerated from /repo's sources on this run (GEN.Gen_Source) is the FIPS 180-4 /
   RFC 4648 object the models, specs and theorems of HV are about.  Hand-written and fixed; only Gen_Source.v changes.
   Every theorem is for ALL words / arrays (no bound): the generated definitions are open terms in x, w, wv, j. *)
From HV Require Import Base_Bytes Spec_SHA Spec_Base64 Spec_Base32 Spec_Base36 Model_Sha1Transform Model_Sha2Ctx Base_Result Model_Otp Model_Hmac.
From Coq Require Import Lia Arith ZArith.
From GEN Require Import Gen_Source.
From Coq Require Import List NArith.
Import ListNotations.
Local Open Scope N_scope.

(* ---- tables and initial values (FIPS 180-4 4.2.2, 4.2.3, 5.3.1, 5.3.3, 5.3.5; 4.2.1) ---- *)
Theorem tie_K256 : S256.src_sha256_k = K256.            Proof. reflexivity. Qed.
Theorem tie_K512 : S512.src_sha512_k = K512.            Proof. reflexivity. Qed.
Theorem tie_IV256 : S256.src_iv = IV256.                Proof. reflexivity. Qed.
Theorem tie_IV512 : S512.src_iv = IV512.                Proof. reflexivity. Qed.
Theorem tie_rounds : S256.src_rounds = N.of_nat (length K256) /\ S512.src_rounds = N.of_nat (length K512).
Proof. split; reflexivity. Qed.
Theorem tie_IV1 : src_sha1_iv = IV1.                    Proof. reflexivity. Qed.
Theorem tie_K1 : src_sha1_k = [sha1_K 0; sha1_K 16; sha1_K 20; sha1_K 40; sha1_K 60] /\ sha1_K 19 = sha1_K 0 /\
                 sha1_K 39 = sha1_K 20 /\ sha1_K 59 = sha1_K 40 /\ sha1_K 79 = sha1_K 60.
Proof. repeat split; reflexivity. Qed.

(* ---- word functions (4.1.2, 4.1.3): the macros as written are Ch, Maj, Sigma0/1, sigma0/1 ---- *)
Theorem tie_256_funcs : forall x y z,
  S256.src_SHA2_CH 32 x y z = Ch 32 x y z /\ S256.src_SHA2_MAJ 32 x y z = Maj x y z /\
  S256.src_SHA256_F1 32 x = BigSigma P256 (p_S0 P256) x /\ S256.src_SHA256_F2 32 x = BigSigma P256 (p_S1 P256) x /\
  S256.src_SHA256_F3 32 x = SmallSigma P256 (p_s0 P256) x /\ S256.src_SHA256_F4 32 x = SmallSigma P256 (p_s1 P256) x.
Proof. intros; repeat split; reflexivity. Qed.
Theorem tie_512_funcs : forall x y z,
  S512.src_SHA2_CH 64 x y z = Ch 64 x y z /\ S512.src_SHA2_MAJ 64 x y z = Maj x y z /\
  S512.src_SHA512_F1 64 x = BigSigma P512 (p_S0 P512) x /\ S512.src_SHA512_F2 64 x = BigSigma P512 (p_S1 P512) x /\
  S512.src_SHA512_F3 64 x = SmallSigma P512 (p_s0 P512) x /\ S512.src_SHA512_F4 64 x = SmallSigma P512 (p_s1 P512) x.
Proof. intros; repeat split; reflexivity. Qed.

(* ---- message schedule (6.2.2 step 1, 6.4.2 step 1): W_j = s1(W_{j-2}) + W_{j-7} + s0(W_{j-15}) + W_{j-16} ---- *)
Definition fips_sched (P : sha2_params) (w : list N) (j : N) : N :=
  let W := p_w P in let at_ k := nth (N.to_nat (j - k)) w 0 in
  wadd W (wadd W (wadd W (SmallSigma P (p_s1 P) (at_ 2)) (at_ 7)) (SmallSigma P (p_s0 P) (at_ 15))) (at_ 16).
Theorem tie_256_sched : forall w j, S256.src_sched 32 w j = fips_sched P256 w j.   Proof. intros; reflexivity. Qed.
Theorem tie_512_sched : forall w j, S512.src_sched 64 w j = fips_sched P512 w j.   Proof. intros; reflexivity. Qed.

(* ---- one round of the compression loop (6.2.2 step 3, 6.4.2 step 3): the ten assignments of the loop body, executed in
        program order on the 8-word array, are Spec_SHA.sha2_round on (K_j, W_j) ---- *)
Theorem tie_256_round : forall a b c d e f g h w j,
  S256.src_round 32 [a; b; c; d; e; f; g; h] w j = sha2_round P256 [a; b; c; d; e; f; g; h] (nth (N.to_nat j) K256 0, nth (N.to_nat j) w 0).
Proof. intros; reflexivity. Qed.
Theorem tie_512_round : forall a b c d e f g h w j,
  S512.src_round 64 [a; b; c; d; e; f; g; h] w j = sha2_round P512 [a; b; c; d; e; f; g; h] (nth (N.to_nat j) K512 0, nth (N.to_nat j) w 0).
Proof. intros; reflexivity. Qed.

(* ---- SHA-1 (src/sha1.cpp macros) against the code-shaped model Model_Sha1Transform, which C01_sha1_transform proves FIPS ---- *)
Lemma land_word (x : N) : x < 2 ^ 32 -> N.land x 0xffffffff = x.
Proof. intro H. change 0xffffffff with (N.ones 32). rewrite N.land_ones. apply N.mod_small; exact H. Qed.
Lemma log2_word (x : N) : x < 2 ^ 32 -> N.log2 x < 32.
Proof. intro H. destruct (N.eq_dec x 0) as [->|Hn]; [reflexivity|]. apply N.log2_lt_pow2; [lia|exact H]. Qed.
Lemma lxor_word (x y : N) : x < 2 ^ 32 -> y < 2 ^ 32 -> N.lxor x y < 2 ^ 32.
Proof.
  intros Hx Hy. destruct (N.eq_dec (N.lxor x y) 0) as [->|Hn]; [reflexivity|].
  apply N.log2_lt_pow2; [lia|]. eapply N.le_lt_trans; [apply N.log2_lxor|].
  apply N.max_lub_lt; apply log2_word; assumption.
Qed.
(* SHA1_ROL (with its `& 0xffffffff`) is the 32-bit left rotation on every 32-bit word *)
Theorem tie_sha1_rol : forall x n, x < 2 ^ 32 -> S1.src_SHA1_ROL 32 x n = rol32 n x.
Proof. intros x n H. unfold S1.src_SHA1_ROL. rewrite (land_word x H). reflexivity. Qed.
(* the five round macros: z += f(w,x,y) + W_i + K + ROL(v,5); w = ROL(w,30), with the model's boolean functions and the FIPS constants *)
Definition model_R (f : N -> N -> N -> N) (k v w x y z wi : N) : N * N :=
  (wadd 32 z (wadd 32 (wadd 32 (wadd 32 (f w x y) wi) k) (S1.src_SHA1_ROL 32 v 5)), S1.src_SHA1_ROL 32 w 30).
Theorem tie_sha1_rounds : forall v w x y z wi,
  S1.src_SHA1_R0 32 v w x y z wi = model_R f_r01 (sha1_K 0) v w x y z wi /\
  S1.src_SHA1_R1 32 v w x y z wi = model_R f_r01 (sha1_K 16) v w x y z wi /\
  S1.src_SHA1_R2 32 v w x y z wi = model_R f_r24 (sha1_K 20) v w x y z wi /\
  S1.src_SHA1_R3 32 v w x y z wi = model_R f_r3 (sha1_K 40) v w x y z wi /\
  S1.src_SHA1_R4 32 v w x y z wi = model_R f_r24 (sha1_K 60) v w x y z wi.
Proof. intros; repeat split; reflexivity. Qed.
(* SHA1_BLK(i): the slot written and the word computed are the model's circular-schedule update, for every round index and every block of 32-bit words *)
Definition blk_idx_ok (i : nat) : bool :=
  let n := N.of_nat i in
  Nat.eqb (N.to_nat (S1.src_SHA1_BLK_index 32 n)) (Nat.modulo i 16) && Nat.eqb (N.to_nat (N.land (wadd 32 n 13) 15)) (Nat.modulo (i + 13) 16) &&
  Nat.eqb (N.to_nat (N.land (wadd 32 n 8) 15)) (Nat.modulo (i + 8) 16) && Nat.eqb (N.to_nat (N.land (wadd 32 n 2) 15)) (Nat.modulo (i + 2) 16).
Lemma blk_idx_sweep : forallb blk_idx_ok (seq 0 80) = true.   Proof. vm_compute. reflexivity. Qed.
Theorem tie_sha1_blk : forall block i, (i < 80)%nat -> (forall k, nth k block 0 < 2 ^ 32) ->
  N.to_nat (S1.src_SHA1_BLK_index 32 (N.of_nat i)) = (i mod 16)%nat /\
  S1.src_SHA1_BLK_value 32 block (N.of_nat i) = sha1_blk block i.
Proof.
  intros block i Hi Hb.
  assert (Hs : blk_idx_ok i = true).
  { pose proof blk_idx_sweep as S. rewrite forallb_forall in S. apply S. apply in_seq. lia. }
  unfold blk_idx_ok in Hs. repeat (apply andb_prop in Hs; destruct Hs as [Hs ?]).
  repeat match goal with H : Nat.eqb _ _ = true |- _ => apply Nat.eqb_eq in H end.
  split; [assumption|].
  unfold S1.src_SHA1_BLK_value, sha1_blk.
  change (S1.src_SHA1_BLK_index 32 (N.of_nat i)) with (N.land (N.of_nat i) 15) in *.
  repeat match goal with H : N.to_nat _ = _ |- _ => rewrite H; clear H end.
  apply tie_sha1_rol. repeat apply lxor_word; apply Hb.
Qed.

(* ---- the size arithmetic of SHA256::finish / SHA512::finish (where defect F1 lived) against Model_Sha2Ctx.finish2 ---- *)
(* the parameters the model's finish is instantiated with (block bytes, word bytes, threshold): pinned here so that the tie fails if they move *)
Theorem tie_finish_params :
  sha256_finish = finish2 64 4 (sha2_compress P256) 55 /\ sha512_finish = finish2 128 8 (sha2_compress P512) 111 /\
  F256.src_block_size = 64 /\ F512.src_block_size = 128 /\ F256.src_digest_size = 32 /\ F512.src_digest_size = 64.
Proof. repeat split; reflexivity. Qed.
(* block_nb: for every fill level the 2*BLOCK staging array admits, the source expression is finish2's `if thr <? m_len mod B then 2 else 1` *)
Definition block_nb_ok (src : N -> N -> N) (B thr m : nat) : bool :=
  N.eqb (src 64 (N.of_nat m)) (N.of_nat (if Nat.ltb thr (Nat.modulo m B) then 2 else 1)).
Lemma block_nb_sweep_256 : forallb (block_nb_ok F256.src_block_nb 64 55) (seq 0 128) = true.   Proof. vm_compute. reflexivity. Qed.
Lemma block_nb_sweep_512 : forallb (block_nb_ok F512.src_block_nb 128 111) (seq 0 256) = true. Proof. vm_compute. reflexivity. Qed.
Theorem tie_256_block_nb : forall m, (m < 128)%nat ->
  F256.src_block_nb 64 (N.of_nat m) = N.of_nat (if Nat.ltb 55 (Nat.modulo m 64) then 2 else 1).
Proof. intros m H. pose proof block_nb_sweep_256 as S. rewrite forallb_forall in S.
  apply N.eqb_eq. apply (S m). apply in_seq. lia. Qed.
Theorem tie_512_block_nb : forall m, (m < 256)%nat ->
  F512.src_block_nb 64 (N.of_nat m) = N.of_nat (if Nat.ltb 111 (Nat.modulo m 128) then 2 else 1).
Proof. intros m H. pose proof block_nb_sweep_512 as S. rewrite forallb_forall in S.
  apply N.eqb_eq. apply (S m). apply in_seq. lia. Qed.
(* pm_len = block_nb * BLOCK for the two values block_nb takes *)
Theorem tie_pm_len : F256.src_pm_len 64 1 = 64 /\ F256.src_pm_len 64 2 = 128 /\ F512.src_pm_len 64 1 = 128 /\ F512.src_pm_len 64 2 = 256.
Proof. repeat split; reflexivity. Qed.
(* len_b = ((m_tot_len + m_len) * 8) mod 2^64, for every counter value and fill level: finish2's len_b *)
Lemma len_b_arith (t m : N) : N.land (N.shiftl (wadd 64 t m) 3) (wmask 64) = ((t + m) * 8) mod 2 ^ 64.
Proof.
  change (wmask 64) with (N.ones 64). rewrite N.land_ones, N.shiftl_mul_pow2. unfold wadd.
  change (2 ^ 3) with 8. rewrite N.mul_mod_idemp_l by (intro E; discriminate E). reflexivity.
Qed.
Theorem tie_len_b : forall t m, F256.src_len_b 64 t m = ((t + m) * 8) mod 2 ^ 64 /\ F512.src_len_b 64 t m = ((t + m) * 8) mod 2 ^ 64.
Proof. intros; split; apply len_b_arith. Qed.

(* ---- detail::hotp_from_digest (src/hmac_utils.cpp): table, offset, truncated word and final reduction against Model_Otp ---- *)
Theorem tie_hotp_table : OTP.src_divisor = divisor_table.                       Proof. reflexivity. Qed.
Theorem tie_hotp_offset : forall b, OTP.src_offset 32 b = N.land b 0x0F.         Proof. intros; reflexivity. Qed.
Theorem tie_hotp_return : forall bin d, (1 <= d <= 9)%Z ->
  OTP.src_return 32 bin (Z.to_N d) = bin mod nth (Z.to_nat (d - 1)) divisor_table 0.
Proof.
  intros bin d H.
  assert (E : (d = 1 \/ d = 2 \/ d = 3 \/ d = 4 \/ d = 5 \/ d = 6 \/ d = 7 \/ d = 8 \/ d = 9)%Z) by lia.
  repeat (destruct E as [E|E]; [subst d; reflexivity|]). subst d; reflexivity.
Qed.
Lemma shl_masked (x j k : N) : j + k <= 32 ->
  N.land (N.shiftl (N.land x (N.ones j)) k) (wmask 32) = N.shiftl (N.land x (N.ones j)) k.
Proof.
  intro H. change (wmask 32) with (N.ones 32). rewrite (N.land_ones _ 32). apply N.mod_small.
  rewrite N.land_ones, N.shiftl_mul_pow2.
  assert (Hm : x mod 2 ^ j < 2 ^ j) by (apply N.mod_lt; apply N.pow_nonzero; discriminate).
  apply N.lt_le_trans with (2 ^ j * 2 ^ k).
  - apply N.mul_lt_mono_pos_r; [|exact Hm]. apply N.neq_0_lt_0. apply N.pow_nonzero; discriminate.
  - rewrite <- N.pow_add_r. apply N.pow_le_mono_r; [discriminate|exact H].
Qed.
Lemma wadd_small (o c : N) : o < 16 -> c < 16 -> wadd 32 o c = o + c.
Proof. intros Ho Hc. unfold wadd. apply N.mod_small. change (2 ^ 32) with 4294967296. lia. Qed.
(* the dynamic-truncation word: the four masked bytes at offset..offset+3, shifted and or-ed, WITHOUT any 32-bit truncation taking effect *)
Theorem tie_hotp_bin : forall hr o, o < 16 ->
  OTP.src_bin_code 32 hr o =
    N.lor (N.lor (N.lor (N.shiftl (N.land (nth (N.to_nat o) hr 0) 0x7F) 24) (N.shiftl (N.land (nth (N.to_nat o + 1) hr 0) 0xFF) 16))
                 (N.shiftl (N.land (nth (N.to_nat o + 2) hr 0) 0xFF) 8)) (N.land (nth (N.to_nat o + 3) hr 0) 0xFF).
Proof.
  intros hr o Ho. unfold OTP.src_bin_code.
  rewrite (wadd_small o 1 Ho eq_refl), (wadd_small o 2 Ho eq_refl), (wadd_small o 3 Ho eq_refl).
  rewrite !N2Nat.inj_add.
  change (N.to_nat 1) with 1%nat; change (N.to_nat 2) with 2%nat; change (N.to_nat 3) with 3%nat.
  change 0x7f with (N.ones 7); change 0xff with (N.ones 8).
  rewrite (shl_masked _ 7 24), (shl_masked _ 8 16), (shl_masked _ 8 8) by (intro E; discriminate E).
  reflexivity.
Qed.

(* ---- HMAC (src/hmac.cpp): the pad bytes at both sites (HmacContext::init, get_hmac) and the hex table, against Model_Hmac / RFC 2104 ---- *)
Theorem tie_hmac_pads : forall k,
  HM.src_ipad_ctx 8 k = N.lxor k 0x36 /\ HM.src_okeypad_ctx 8 k = N.lxor k 0x5c /\
  HM.src_ikeypad 8 k = N.lxor k 0x36 /\ HM.src_okeypad 8 k = N.lxor k 0x5c.
Proof. intros; repeat split; reflexivity. Qed.
Theorem tie_hex_lut : HM.src_hex_lut = hex_lut.   Proof. reflexivity. Qed.

(* ---- codec alphabets (RFC 4648 tables 1, 2, 3; Base36 digits) ---- *)
Theorem tie_b64 : src_b64_std = b64_spec_alphabet false /\ src_b64_url = b64_spec_alphabet true.
Proof. split; reflexivity. Qed.
Theorem tie_b32 : src_b32 = b32_alphabet.               Proof. reflexivity. Qed.
Theorem tie_b36 : src_b36 = map digit_char (map N.of_nat (seq 0 36)).   Proof. reflexivity. Qed.

Print Assumptions tie_K256. Print Assumptions tie_K512. Print Assumptions tie_IV256. Print Assumptions tie_IV512.
Print Assumptions tie_rounds. Print Assumptions tie_IV1. Print Assumptions tie_K1.
Print Assumptions tie_256_funcs. Print Assumptions tie_512_funcs. Print Assumptions tie_256_sched. Print Assumptions tie_512_sched.
Print Assumptions tie_256_round. Print Assumptions tie_512_round. Print Assumptions tie_sha1_rol. Print Assumptions tie_sha1_rounds. Print Assumptions tie_sha1_blk.
Print Assumptions tie_finish_params. Print Assumptions tie_256_block_nb. Print Assumptions tie_512_block_nb. Print Assumptions tie_pm_len. Print Assumptions tie_len_b.
Print Assumptions tie_hotp_table. Print Assumptions tie_hotp_offset. Print Assumptions tie_hotp_return. Print Assumptions tie_hotp_bin.
Print Assumptions tie_hmac_pads. Print Assumptions tie_hex_lut.
Print Assumptions tie_b64. Print Assumptions tie_b32. Print Assumptions tie_b36.
